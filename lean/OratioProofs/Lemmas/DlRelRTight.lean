/-
Lemmas for property C12, real-valued instance, part 6: on an exact state the finite ends of
`bounds(c·x + k)` are ATTAINED by valuations satisfying the enforced constraints (with the origin
at 0), so the interval is the tightest one.
-/
import OratioProofs.Lemmas.DlRelREq

namespace Oratio
namespace DlRelR
open Dl DlRel R

/-- a finite scaled bound comes from a finite bound (`c ≠ 0`) -/
theorem fin_of_sA_fin {b : IR} {c k : R} (hcase : FinWF b.rat ∨ b.rat = pinf ∨ b.rat = ninf) (hinf : FinWF b.inf)
    (hc : FinWF c) (hcn : c.num ≠ 0) (hk : FinWF k) (hd : (sA b c k).rat.den ≠ 0) : IR.Fin b := by
  rcases hcase with hf | hp | hn
  · exact ⟨hf, hinf⟩
  · exfalso
    apply hd
    rcases Int.lt_or_gt_of_ne hcn with h | h
    · rw [sA_rat_pinf_neg hp hc h hk]; rfl
    · rw [sA_rat_pinf_pos hp hc h hk]; rfl
  · exfalso
    apply hd
    rcases Int.lt_or_gt_of_ne hcn with h | h
    · rw [sA_rat_ninf_neg hn hc h hk]; rfl
    · rw [sA_rat_ninf_pos hn hc h hk]; rfl

/-- translating a valuation keeps every difference constraint -/
theorem holds_shift (σ : Nat → QV) (a : QV) (e : QEdge) :
    QEdge.holds (fun v => σ v - a) e ↔ QEdge.holds σ e := by
  unfold QEdge.holds
  rw [sub_sub_sub_cancel_right]

/-- the upper end of a variable's interval is attained -/
theorem ub_attained (E : List QEdge) (t : Dl IR) (h : t.ExactR E) (x : Nat) (hx : x < t.nVars)
    (hf : IR.Fin (Dl.d rdlOps t 0 x)) (hreach : ∀ k, k < t.nVars → t.rdist? 0 k ≠ none) :
    ∃ σ : Nat → QV, σ 0 = 0 ∧ (∀ e ∈ E, QEdge.holds σ e) ∧ σ x = IR.val (Dl.ub rdlOps t x) := by
  have hr : t.rdist? 0 x = some (IR.val (Dl.d rdlOps t 0 x)) := by
    unfold Dl.rdist?; dsimp only; rw [if_neg hf.1.2]
  obtain ⟨σ, hσ, hv⟩ := C10R_tight_witness E t h 0 x h.size_ok.1 hx _ hr hreach
  exact ⟨fun v => σ v - σ 0, sub_self _, fun e he => (holds_shift σ (σ 0) e).2 (hσ e he), hv⟩

/-- the lower end of a variable's interval is attained -/
theorem lb_attained (E : List QEdge) (t : Dl IR) (h : t.ExactR E) (x : Nat) (hx : x < t.nVars)
    (hf : IR.Fin (Dl.d rdlOps t x 0)) (hreach : ∀ k, k < t.nVars → t.rdist? x k ≠ none) :
    ∃ σ : Nat → QV, σ 0 = 0 ∧ (∀ e ∈ E, QEdge.holds σ e) ∧ σ x = IR.val (Dl.lb rdlOps t x) := by
  have hr : t.rdist? x 0 = some (IR.val (Dl.d rdlOps t x 0)) := by
    unfold Dl.rdist?; dsimp only; rw [if_neg hf.1.2]
  obtain ⟨σ, hσ, hv⟩ := C10R_tight_witness E t h x 0 hx h.size_ok.1 _ hr hreach
  refine ⟨fun v => σ v - σ 0, sub_self _, fun e he => (holds_shift σ (σ 0) e).2 (hσ e he), ?_⟩
  show σ x - σ 0 = IR.val (rdlOps.neg (Dl.d rdlOps t x 0))
  rw [(IR.fin_neg hf).2, ← hv, neg_sub]

theorem evalQV_one (x : Nat) (c k : R) (σ : Nat → QV) :
    Lin.evalQV ⟨[(x, c)], k⟩ σ = QV.smul c.toRat (σ x) + QV.ofQ k.toRat := by
  show ([QV.smul c.toRat (σ x)]).sum + _ = _
  rw [List.sum_cons, List.sum_nil, add_zero]

/-- tightness of `bounds(c·x + k)` on an exact state -/
theorem boundsLin_rdl_tight1 (E : List QEdge) (t : Dl IR) (h : t.ExactR E) (x : Nat) (hx : x < t.nVars)
    (c k : R) (hc : FinWF c) (hcn : c.num ≠ 0) (hk : FinWF k) (lo hi : IR)
    (hb : boundsLin rdlOps t ⟨[(x, c)], k⟩ = some (lo, hi))
    (hreach : ∀ i ∈ [0, x], ∀ k, k < t.nVars → t.rdist? i k ≠ none) :
    (hi.rat.den ≠ 0 → ∃ σ : Nat → QV, σ 0 = 0 ∧ (∀ e ∈ E, QEdge.holds σ e) ∧
      Lin.evalQV ⟨[(x, c)], k⟩ σ = IR.val hi) ∧
    (lo.rat.den ≠ 0 → ∃ σ : Nat → QV, σ 0 = 0 ∧ (∀ e ∈ E, QEdge.holds σ e) ∧
      Lin.evalQV ⟨[(x, c)], k⟩ σ = IR.val lo) := by
  have g1 : IR.Good (Dl.d rdlOps t 0 x) := h.wf 0 x h.size_ok.1 hx
  have g2 : IR.Good (Dl.d rdlOps t x 0) := h.wf x 0 hx h.size_ok.1
  have gl : IR.GoodL (Dl.lb rdlOps t x) := goodL_neg g2
  have cu : FinWF (Dl.ub rdlOps t x).rat ∨ (Dl.ub rdlOps t x).rat = pinf ∨ (Dl.ub rdlOps t x).rat = ninf := by
    rcases g1.rat_cases with h1 | h1
    · exact Or.inl h1
    · exact Or.inr (Or.inl h1)
  have cl : FinWF (Dl.lb rdlOps t x).rat ∨ (Dl.lb rdlOps t x).rat = pinf ∨ (Dl.lb rdlOps t x).rat = ninf := by
    rcases gl.rat_cases with h1 | h1
    · exact Or.inl h1
    · exact Or.inr (Or.inr h1)
  have r0 := hreach 0 (by simp)
  have rx := hreach x (by simp)
  -- the two ends, whichever way round
  have upper : ∀ b : IR, b = sA (Dl.ub rdlOps t x) c k → b.rat.den ≠ 0 →
      ∃ σ : Nat → QV, σ 0 = 0 ∧ (∀ e ∈ E, QEdge.holds σ e) ∧ Lin.evalQV ⟨[(x, c)], k⟩ σ = IR.val b := by
    intro b hbe hd
    rw [hbe] at hd
    have hf : IR.Fin (Dl.ub rdlOps t x) := fin_of_sA_fin cu g1.2.2 hc hcn hk hd
    obtain ⟨σ, s0, s1, s2⟩ := ub_attained E t h x hx hf r0
    refine ⟨σ, s0, s1, ?_⟩
    rw [evalQV_one, s2, hbe, (sA_fin hf hc hk).2]
  have lower : ∀ b : IR, b = sA (Dl.lb rdlOps t x) c k → b.rat.den ≠ 0 →
      ∃ σ : Nat → QV, σ 0 = 0 ∧ (∀ e ∈ E, QEdge.holds σ e) ∧ Lin.evalQV ⟨[(x, c)], k⟩ σ = IR.val b := by
    intro b hbe hd
    rw [hbe] at hd
    have hf : IR.Fin (Dl.lb rdlOps t x) := fin_of_sA_fin cl gl.2.2 hc hcn hk hd
    have hf' : IR.Fin (Dl.d rdlOps t x 0) := by
      rcases g2.rat_cases with h1 | h1
      · exact ⟨h1, g2.2.2⟩
      · exfalso
        apply hf.1.2
        show (R.neg (Dl.d rdlOps t x 0).rat).den = 0
        rw [h1]; rfl
    obtain ⟨σ, s0, s1, s2⟩ := lb_attained E t h x hx hf' rx
    refine ⟨σ, s0, s1, ?_⟩
    rw [evalQV_one, s2, hbe, (sA_fin hf hc hk).2]
  rw [boundsLin_one] at hb
  simp only [Option.some.injEq] at hb
  split at hb
  · simp only [Prod.mk.injEq] at hb
    exact ⟨upper hi hb.2.symm, lower lo hb.1.symm⟩
  · simp only [Prod.mk.injEq] at hb
    exact ⟨lower hi hb.2.symm, upper lo hb.1.symm⟩

end DlRelR
end Oratio
