/-
C10X (validity of difference-logic explanations): the vocabulary.

`Dl.Just`     — an entry `(k, j) ↦ bb` of `dist_constr` is *justified* under the SAT assignment:
                 constraint `bb` exists, is assigned, and in its assigned polarity it denotes the
                 edge `k → j` of weight `w` (`x_j - x_k ≤ w`).
`Dl.ChainN`   — `j` is reached from the root `i` by `n` predecessor steps of row `i` of `_preds`.
`Dl.PathInv`  — the path invariant tying `_preds` and `dist_constr` to the matrix.
`Dl.Agrees`   — a valuation `σ` and a total assignment `α` of the SAT variables agree on the
                 meaning of every constraint literal.
-/
import OratioModel

namespace Oratio
namespace Dl

/-- entry `(k, j) ↦ bb` of `dist_constr` denotes, under `s`, the asserted edge `k → j` of weight `w`:
    a true literal stands for the edge `src → dst` of weight `dist`, a false literal for the
    reversed strict edge `dst → src` of weight `-dist - 1` (this is how `propagate(lit)` stores it) -/
def Just (s : Sat) (t : Dl Int) (k j bb : Nat) (w : Int) : Prop :=
  lookupPair t.distConstr (k, j) = some bb ∧
  ∃ c, constrOf t bb = some c ∧
    ((s.value ⟨bb, true⟩ = some true ∧ c.src = k ∧ c.dst = j ∧ w = c.dist) ∨
     (s.value ⟨bb, true⟩ = some false ∧ c.dst = k ∧ c.src = j ∧ w = -c.dist - 1))

/-- `ChainN t i n j`: following `_preds[i][·]` from `j` reaches the root `i` after exactly `n`
    steps (and not earlier) -/
inductive ChainN {α : Type} (t : Dl α) (i : Nat) : Nat → Nat → Prop
  | root : ChainN t i 0 i
  | step {n j : Nat} : j ≠ i → ChainN t i n (p t i j) → ChainN t i (n + 1) j

/-- the path invariant -/
structure PathInv (s : Sat) (t : Dl Int) : Prop where
  /-- every entry of `dist_constr` is a currently asserted constraint (in the right polarity)
      whose edge weight bounds the matrix entry of its pair -/
  dc : ∀ k j bb, lookupPair t.distConstr (k, j) = some bb →
    k < t.nVars ∧ j < t.nVars ∧ k ≠ j ∧
    ∃ w, Just s t k j bb w ∧ d idlOps t k j ≠ idlInf ∧ d idlOps t k j ≤ w
  /-- for a finite entry `d i j` (`i ≠ j`) the predecessor `k = preds i j` is a time point with
      `d i k` finite, `(k, j)` is a justified key of `dist_constr`, and
      `d i k + w(k, j) ≤ d i j` -/
  tree : ∀ i j, i < t.nVars → j < t.nVars → i ≠ j → d idlOps t i j ≠ idlInf →
    p t i j < t.nVars ∧ p t i j ≠ j ∧ d idlOps t i (p t i j) ≠ idlInf ∧
    ∃ bb w, Just s t (p t i j) j bb w ∧ d idlOps t i (p t i j) + w ≤ d idlOps t i j
  /-- well-foundedness: the walk from `j` back to the root `i` ends within `nVars` steps -/
  chain : ∀ i j, i < t.nVars → j < t.nVars → d idlOps t i j ≠ idlInf → ∃ n, n < t.nVars ∧ ChainN t i n j

/-- `σ` and `α` agree on the meaning of the constraint literals: a true literal means
    `σ dst - σ src ≤ dist`, a false one the reversed strict edge `σ src - σ dst ≤ -dist - 1` -/
def Agrees (t : Dl Int) (σ : Nat → Int) (α : Asg) : Prop :=
  ∀ c ∈ t.varDists, (α c.b = true → σ c.dst - σ c.src ≤ c.dist) ∧
                     (α c.b = false → σ c.src - σ c.dst ≤ -c.dist - 1)

/-- every value of `s` is kept by `s'` -/
def SatLe (s s' : Sat) : Prop := ∀ v b, s.vals.getD v none = some b → s'.vals.getD v none = some b

/-- all constraints are between distinct time points and within the no-overflow range -/
def ConstrsOk (K : Int) (t : Dl Int) : Prop :=
  ∀ c ∈ t.varDists, c.src < t.nVars ∧ c.dst < t.nVars ∧ c.src ≠ c.dst ∧ -K ≤ c.dist ∧ c.dist + 1 ≤ K

end Dl
end Oratio
