/-
C07N, target 4: `lra.new_var(lin)` WHEN IT CREATES A SLACK VARIABLE and its tableau row (root level): the
invariant `NetInv` is kept.  The bounds `lb(lin)`, `ub(lin)` of the slack get the reason TRUE; they hold in
every LRA-consistent model of `orig ++ L` because at root level every assigned literal - in particular the
reason of every current bound - is entailed by `orig ++ L`, so the bounds of the variables of the expression
hold (`LraJ`), hence so does the interval bound of the expression (Lemmas/NetIval.lean).
-/
import OratioProofs.Lemmas.NetCons5
import OratioProofs.Lemmas.NetIval
import OratioProofs.Lemmas.LraRelSemBounds

set_option linter.unusedSimpArgs false
set_option linter.unusedVariables false

namespace Oratio
namespace Net
open Sat

/-- at root level every true literal is entailed by the lemma-closed ghost set -/
theorem root_true {orig L : Cnf} {s : Sat} (h : SInv (orig ++ L) orig s) (hroot : s.trailLim = []) {p : Lit}
    (hp : s.value p = some true) (α : Asg) (h0 : α 0 = false) (ho : α.cnf (orig ++ L) = true) : α.lit p = true := by
  rcases h.wf.a.value_true.1 hp with ht | rfl
  · have hl : s.lvl p = 0 := by
      have := h.wf.a.lvl_le ht
      simp only [decisionLevel, hroot, List.length_nil] at this
      omega
    have := ent_lvl0K h.ent ht hl α h0 ho
    simpa [Asg.clause] using this
  · simp [Asg.lit, Lit.trueLit, h0]

/-- the bounds of the state with a new slack variable: old entries unchanged, the others have reason TRUE -/
theorem slack_bnd {s : Sat} {t : Lra} {l : Lin} {slack : Nat} {t1 : Lra} (h : Lra.newVarLin s t l = some (slack, t1))
    (hnew : t1.vals.length = t.vals.length + 1) (hB : t.bounds.length = 2 * t.vals.length) (i : Nat) :
    (i < t.bounds.length ∧ t1.bnd i = t.bnd i) ∨ (t.bounds.length ≤ i ∧ (t1.bnd i).reason = Lit.trueLit) := by
  by_cases hi : i < t.bounds.length
  · exact Or.inl ⟨hi, Lra.newVarLin_bnd h (Nat.le_of_eq hB) i hi⟩
  · refine Or.inr ⟨by omega, ?_⟩
    obtain ⟨hs, ht1⟩ := Lra.newVarLin_new_eq h hnew
    have hb : t1.bounds = (Lra.nvU t l).bounds := by rw [ht1, Lra.newRow_bounds]; rfl
    unfold Lra.bnd
    rw [hb, Lra.nvU_bounds]
    by_cases h1 : Lra.ubIdx t.vals.length = i
    · subst h1
      rw [Lra.getD_set_self _ _ _ _ (by rw [List.length_set, List.length_append, hB]; unfold Lra.ubIdx; simp)]
    · rw [Lra.getD_set_ne _ _ _ _ _ h1]
      by_cases h2 : Lra.lbIdx t.vals.length = i
      · subst h2
        rw [Lra.getD_set_self _ _ _ _ (by rw [List.length_append, hB]; unfold Lra.lbIdx; simp)]
      · rw [Lra.getD_set_ne _ _ _ _ _ h2]
        unfold Lra.lbIdx at h2; unfold Lra.ubIdx at h1
        rw [List.getD_eq_getElem?_getD, List.getElem?_eq_none (by rw [List.length_append]; simp; omega)]
        rfl

/-- **`new_var(lin)` creating a slack variable keeps the invariant**; every T-model of the new network is one
    of the old -/
theorem NetInv.at_newSlack {n : Net} {orig L : Cnf} {fr : List Frame} (h : NetInv n orig L fr) (hroot : n.sat.trailLim = [])
    {l : Lin} (hl : Lra.LinOK n.lra l) {slack : Nat} {t1 : Lra} (hv : Lra.newVarLin n.sat n.lra l = some (slack, t1))
    (hnew : t1.vals.length = n.lra.vals.length + 1) (bd : List (Nat × Th)) :
    NetInv { n with lra := t1, bound := bd } orig L [] ∧ ∀ α, TModel { n with lra := t1, bound := bd } α → TModel n α := by
  have hfr := h.root_frames hroot
  subst hfr
  have hb : ThBase (orig ++ L) n.sat n.lra n.idl n.rdl := h.th
  have g := h.reg.good
  have hB : n.lra.bounds.length = 2 * n.lra.vals.length := hb.lra.inv.blen
  have hlv : ∀ p ∈ l.vars, p.1 < n.lra.vals.length := fun p hp => (hl.2 p hp).1
  obtain ⟨he1, he2⟩ := Lra.linOK_substBasic g hl
  have hev : ∀ p ∈ (Lra.substBasic n.lra l).vars, p.1 < n.lra.vals.length := fun p hp => (he2 p hp).1
  have hnz : ∀ p ∈ (Lra.substBasic n.lra l).vars, p.2.num ≠ 0 := fun p hp => (he2 p hp).2
  obtain ⟨hsA, hvA, _, hrows, _, hcase⟩ := Lra.newVarLin_spec hv
  have haw : t1.aWatches = n.lra.aWatches ++ [[]] := by
    rcases hcase with ⟨_, hvs, _⟩ | ⟨_, _, _, haw⟩
    · rw [hvs] at hnew; omega
    · exact haw
  obtain ⟨hsl, hlb, hub⟩ := Lra.newVarLin_new_bounds hv hnew hB hev
  have hmem : ∀ e, e ∈ t1.tableau ↔ e ∈ n.lra.tableau ∨ e = (slack, Lra.substBasic n.lra l) := by
    rcases Lra.newVarLin_sound hb.lra.inv.tab hl.1 hlv hv with ⟨_, _, h3⟩ | ⟨_, _, _, h4, _⟩
    · rw [h3] at hnew; omega
    · exact h4
  have hsolv : ∀ σr σi, Lra.Solves t1 σr σi → Lra.Solves n.lra σr σi := fun σr σi hs =>
    ⟨fun e he => hs.1 e ((hmem e).2 (Or.inl he)), fun e he => hs.2 e ((hmem e).2 (Or.inl he))⟩
  have hmono : ∀ α, TModel { n with lra := t1, bound := bd } α → TModel n α := by
    intro α ⟨σr, σi, σz, σq, a, b, c, d⟩
    refine ⟨σr, σi, σz, σq, hsolv σr σi a, ?_, c, d⟩
    intro e he
    exact b e (by show e ∈ t1.vAsrts; rw [hvA]; exact he)
  have hg1 := (Lra.newVarLin_good g hl hv).1
  refine ⟨NetInv.ofRoot (n := { n with lra := t1, bound := bd }) h.sat
    (fun c hc => TEntails.congr (fun α hm => hmono α hm) (h.lemmas c hc)) ?_ ?_ hroot, hmono⟩
  · refine ⟨⟨Lra.explInv_newVarLin hb.lra.inv hl.1 hlv hnz hv, Lra.valsOK_newVarLin hb.lra.inv.tab hb.lra.vals hl.1 hlv hv,
      ?_, ?_, ?_, ?_⟩, hb.idl, hb.rdl⟩
    · intro e he
      rw [hvA] at he; exact hb.lra.key e he
    · intro e he
      rw [hvA] at he
      have := hb.lra.vars e he
      rw [hnew]; omega
    · -- `LraJ`
      intro α σr σi h0 ho hsol hag x hx
      have hag' : Lra.AsrtAgrees α σr σi n.lra := fun e he => hag e (by rw [hvA]; exact he)
      have hj := hb.lra.just α σr σi h0 ho (hsolv σr σi hsol) hag'
      have hbl1 : t1.bounds.length = 2 * t1.vals.length := hg1.blen
      by_cases hold : x < n.lra.vals.length
      · have h1 := Lra.newVarLin_bnd hv (Nat.le_of_eq hB) (Lra.lbIdx x) (by rw [hB]; unfold Lra.lbIdx; omega)
        have h2 := Lra.newVarLin_bnd hv (Nat.le_of_eq hB) (Lra.ubIdx x) (by rw [hB]; unfold Lra.ubIdx; omega)
        have := hj x (by rw [hB]; unfold Lra.ubIdx; omega)
        unfold Lra.lbReason Lra.ubReason Lra.lb Lra.ub at this ⊢
        rw [h1, h2]; exact this
      · have hxs : x = slack := by
          rw [hbl1, hnew] at hx; unfold Lra.ubIdx at hx; omega
        subst hxs
        -- the valuation is within the bounds of the old variables
        have hin : Lra.InBoundsP n.lra σr σi := by
          intro y hy
          have hyj := hj y (by rw [hB]; unfold Lra.ubIdx; omega)
          have hr := hb.lra.reasons y
          have hbw := Lra.bndWF_of_good g y hy
          exact ⟨Lra.pbelow_of_ble hbw.1 (hyj.1 (root_true h.sat hroot hr.1 α h0 ho)),
            Lra.pabove_of_vle hbw.2 (hyj.2 (root_true h.sat hroot hr.2 α h0 ho))⟩
        have hrow : (x, Lra.substBasic n.lra l) ∈ t1.tableau := (hmem _).2 (Or.inr rfl)
        have e1 := hsol.1 _ hrow
        have e2 := hsol.2 _ hrow
        simp only at e1 e2
        have hnu : Lra.nu σr σi x = toLex (Lin.evalS (Lra.substBasic n.lra l) σr,
            Lin.evalS { Lra.substBasic n.lra l with known := R.zero } σi) := by
          unfold Lra.nu; rw [e1, e2]
        rw [hnu, hlb, hub]
        exact ⟨fun _ => Lra.ble_of_pbelow (Lra.lbLin_belowP (Lra.bndWF_of_good g) he1 hnz hev hin),
          fun _ => Lra.vle_of_pabove (Lra.ubLin_aboveP (Lra.bndWF_of_good g) he1 hnz hev hin)⟩
    · -- the reasons are true
      intro x
      have htrue : n.sat.value Lit.trueLit = some true := h.sat.wf.a.value_true.2 (Or.inr rfl)
      unfold Lra.lbReason Lra.ubReason
      constructor
      · rcases slack_bnd hv hnew hB (Lra.lbIdx x) with ⟨_, e⟩ | ⟨_, e⟩
        · rw [e]; exact (hb.lra.reasons x).1
        · rw [e]; exact htrue
      · rcases slack_bnd hv hnew hB (Lra.ubIdx x) with ⟨_, e⟩ | ⟨_, e⟩
        · rw [e]; exact (hb.lra.reasons x).2
        · rw [e]; exact htrue
  · refine ⟨fun e he => h.reg.lra e (by rw [← hvA]; exact he), h.reg.idl, h.reg.rdl, hg1, fun x b hb' => ?_,
      fun e he => h.reg.sa e (by rw [← hsA]; exact he)⟩
    have hb'' : b ∈ t1.aWatches.getD x [] := hb'
    rw [haw, Lra.getD_append_nil] at hb''
    exact h.reg.aw x b hb''

/-- `new_var(lin)` in both cases: the variable is found, or a slack variable is created -/
theorem NetInv.newVarLinStep {n : Net} {orig L : Cnf} {fr : List Frame} (h : NetInv n orig L fr) (hroot : n.sat.trailLim = [])
    {l : Lin} (hl : Lra.LinOK n.lra l) {slack : Nat} {t1 : Lra} (hv : Lra.newVarLin n.sat n.lra l = some (slack, t1))
    (bd : List (Nat × Th)) :
    NetInv { n with lra := t1, bound := bd } orig L [] ∧ ∀ α, TModel { n with lra := t1, bound := bd } α → TModel n α := by
  rcases Lra.newVarLin_outcome hv with ⟨⟨ex, e, _⟩, _⟩ | ⟨_, ex, e, _⟩
  · subst e
    have hg := (Lra.newVarLin_good h.reg.good hl hv).1
    exact h.lraExt hroot bd h.sat (fun _ _ hh => hh) hroot (Nat.le_refl _) (LraExt.exprs h ex hg)
  · exact h.at_newSlack hroot hl hv (by rw [e, mkSlack_vals_length]) bd

/-- **`lra.new_var(lin)`** at root level for a canonical expression over existing variables -/
theorem NetInv.at_lraNewVarLinG {n : Net} {orig L : Cnf} {fr : List Frame} (h : NetInv n orig L fr)
    (hroot : n.sat.trailLim = []) {l : Lin} (hl : Lra.LinOK n.lra l) {v : Nat} {n' : Net}
    (he : lraNewVarLin n l = some (v, n')) :
    NetInv n' orig L [] ∧ (∀ α, TModel n' α → TModel n α) ∧ n'.sat = n.sat := by
  unfold lraNewVarLin at he
  cases hv : Lra.newVarLin n.sat n.lra l with
  | none => rw [hv] at he; simp at he
  | some res =>
    obtain ⟨slack, t1⟩ := res
    rw [hv] at he
    simp only [Option.map_some, Option.some.injEq, Prod.mk.injEq] at he
    obtain ⟨rfl, rfl⟩ := he
    obtain ⟨k1, k2⟩ := h.newVarLinStep hroot hl hv n.bound
    exact ⟨k1, k2, rfl⟩

/-- **`lra.new_lt / new_leq / new_geq / new_gt`** at root level for canonical expressions over existing variables,
    whether or not a slack variable (and its tableau row) is created -/
theorem NetInv.at_lraNewRelG {n : Net} {orig L : Cnf} {fr : List Frame} (h : NetInv n orig L fr) (hroot : n.sat.trailLim = [])
    {r : LRel} {a b : Lin} (ha : Lra.LinOK n.lra a) (hb : Lra.LinOK n.lra b) {l : Lit} {n' : Net}
    (he : lraNewRel n r a b = some (l, n')) :
    NetInv n' orig L [] ∧ (∀ α, TModel n' α → TModel n α) ∧ n'.sat.trailLim = [] ∧ n'.sat.dead = n.sat.dead ∧
      n'.sat.queue = n.sat.queue := by
  unfold lraNewRel at he
  cases hv : Lra.newRel n.sat n.lra r a b with
  | none => rw [hv] at he; simp at he
  | some res =>
    obtain ⟨l1, s', t', bs⟩ := res
    rw [hv] at he
    simp only [Option.map_some, Option.some.injEq, Prod.mk.injEq] at he
    obtain ⟨rfl, rfl⟩ := he
    have hg := (Lra.newRel_good h.reg.good ha hb hv).1
    have hle := Lra.linOK_relE h.reg.good ha hb
    cases Lra.newRel_outcome hv with
    | decidedExpr h0 hs ht hb' =>
      subst hs; subst ht
      obtain ⟨k1, k2⟩ := h.lraExt hroot (n.bound ++ bs.toList.map (fun v => (v, Th.lra))) h.sat (fun _ _ hh => hh) hroot
        (Nat.le_refl _) (LraExt.exprs h n.lra.exprs hg)
      exact ⟨k1, k2, hroot, rfl, rfl⟩
    | decidedSlack slack h0 hvl h1 hs hb' =>
      subst hs
      obtain ⟨k1, k2⟩ := h.newVarLinStep hroot hle hvl (n.bound ++ bs.toList.map (fun v => (v, Th.lra)))
      exact ⟨k1, k2, hroot, rfl, rfl⟩
    | cached slack h0 hvl h1 hf hs hb' =>
      subst hs
      obtain ⟨k1, k2⟩ := h.newVarLinStep hroot hle hvl (n.bound ++ bs.toList.map (fun v => (v, Th.lra)))
      exact ⟨k1, k2, hroot, rfl, rfl⟩
    | fresh slack t1 h0 hvl h1 hf hl hs ht hb' =>
      subst hs; subst ht
      obtain ⟨j1, j2⟩ := h.newVarLinStep hroot hle hvl n.bound
      obtain ⟨k1, k2⟩ := j1.lraExt (n := { n with lra := t1, bound := n.bound }) hroot
        (n.bound ++ bs.toList.map (fun v => (v, Th.lra))) j1.sat.newVar (satLe_newVar _)
        (show n.sat.newVar.2.trailLim = [] from hroot) (by show n.sat.vals.length ≤ (n.sat.vals ++ [none]).length; simp)
        (LraExt.relReg j1 t1.exprs _ slack _ hg)
      exact ⟨k1, fun α hm => j2 α (k2 α hm), hroot, rfl, rfl⟩

end Net
end Oratio
