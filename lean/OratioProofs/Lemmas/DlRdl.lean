/-
Lemmas about the difference-logic model `OratioModel/Net/Dl.lean`, real-valued instance
`rdlOps`: matrix access, and the characterisation of `propagateEdge` (phase 1, phase 2) as the
closed form `DlW.upd` ON THE DENOTED VALUES.

Difference with the integer instance (Lemmas/Dl.lean): `finiteGuard` is constantly true and an
infinite entry is any `⟨+∞, e⟩`.  A test `x < y - w` with `x` and `y` both infinite compares the
ε parts the two infinite entries happen to carry, so it may succeed: the entry is then
rewritten with another infinite value and the index joins `set_i` / `set_j` spuriously.  The
invariants below therefore speak about `IR.den` (where all infinite entries are `⊤`), and
`set_i` / `set_j` are only sandwiched between the genuine candidates and the genuine plus the
spurious ones.
-/
import OratioModel.Net.Dl
import OratioProofs.Lemmas.DlRdlVal
import OratioProofs.Lemmas.DlRdlArith

set_option linter.unusedSectionVars false

namespace Oratio
namespace DlR
open Dl

/-! ### matrix access (generic in the number type) -/
section generic
variable {α : Type} (O : DOps α)

/-- the lengths of the rows of the two matrices (`_dists`, `_preds`) -/
def shape (t : Dl α) : List Nat × List Nat := (t.dists.map List.length, t.preds.map List.length)

/-- `n` time points fit into a matrix of this shape -/
def Fits (n : Nat) (shp : List Nat × List Nat) : Prop := n ≤ shp.1.length ∧ ∀ l ∈ shp.1, n ≤ l

theorem d_eq (t : Dl α) (a b : Nat) : d O t a b = (t.dists.getD a []).getD b O.inf := rfl

theorem fits_range {t : Dl α} {n : Nat} (h : Fits n (shape t)) {i j : Nat} (hi : i < n) (hj : j < n) :
    i < t.dists.length ∧ j < (t.dists.getD i []).length := by
  obtain ⟨h1, h2⟩ := h
  have hi' : i < t.dists.length := by simp [shape] at h1; omega
  refine ⟨hi', ?_⟩
  have : (t.dists.getD i []).length ∈ (shape t).1 := by
    simp only [shape, List.mem_map]
    refine ⟨t.dists[i], List.getElem_mem hi', ?_⟩
    simp [List.getD_eq_getElem?_getD, hi']
  have := h2 _ this
  omega

theorem d_setD (t : Dl α) (i j : Nat) (x : α) (a b : Nat)
    (hi : i < t.dists.length) (hj : j < (t.dists.getD i []).length) :
    d O (setD t i j x) a b = if a = i ∧ b = j then x else d O t a b := by
  simp only [d_eq, setD, List.getD_eq_getElem?_getD, List.getElem?_set]
  by_cases hai : i = a
  · subst hai
    by_cases hbj : j = b
    · subst hbj
      simp [hi, List.getD_eq_getElem?_getD] at hj ⊢
      simp [hj]
    · have : ¬ (b = j) := fun h => hbj h.symm
      simp [hi, hbj, this]
  · have : ¬ (a = i) := fun h => hai h.symm
    simp [hai, this]

theorem map_length_set {β : Type} (D : List (List β)) (i j : Nat) (x : β) :
    (D.set i ((D.getD i []).set j x)).map List.length = D.map List.length := by
  apply List.ext_getElem?
  intro k
  simp only [List.getElem?_map, List.getElem?_set]
  by_cases hik : i = k
  · subst hik
    by_cases hi : i < D.length
    · simp [hi, List.getD_eq_getElem?_getD]
    · simp [hi]
  · simp [hik]

theorem shape_setD (t : Dl α) (i j : Nat) (x : α) : shape (setD t i j x) = shape t := by
  simp only [shape, setD, map_length_set]

theorem shape_setP (t : Dl α) (i j : Nat) (x : Nat) : shape (setP t i j x) = shape t := by
  simp only [shape, setP, map_length_set]

theorem shape_setDist (t : Dl α) (i j : Nat) (x : α) : shape (setDist O t i j x) = shape t := by
  unfold setDist
  cases t.layers with
  | nil => exact shape_setD _ _ _ _
  | cons l ls => dsimp only; split <;> exact shape_setD _ _ _ _

theorem shape_setPred (t : Dl α) (i j : Nat) (x : Nat) : shape (setPred t i j x) = shape t := by
  unfold setPred
  cases t.layers with
  | nil => exact shape_setP _ _ _ _
  | cons l ls => dsimp only; split <;> exact shape_setP _ _ _ _

theorem dists_setDist (t : Dl α) (i j : Nat) (x : α) :
    (setDist O t i j x).dists = (setD t i j x).dists := by
  unfold setDist
  cases t.layers with
  | nil => rfl
  | cons l ls => dsimp only; split <;> rfl

theorem nVars_setDist (t : Dl α) (i j : Nat) (x : α) : (setDist O t i j x).nVars = t.nVars := by
  unfold setDist
  cases t.layers with
  | nil => rfl
  | cons l ls => dsimp only; split <;> rfl

theorem dists_setPred (t : Dl α) (i j : Nat) (x : Nat) : (setPred t i j x).dists = t.dists := by
  unfold setPred
  cases t.layers with
  | nil => rfl
  | cons l ls => dsimp only; split <;> rfl

theorem nVars_setPred (t : Dl α) (i j : Nat) (x : Nat) : (setPred t i j x).nVars = t.nVars := by
  unfold setPred
  cases t.layers with
  | nil => rfl
  | cons l ls => dsimp only; split <;> rfl

theorem d_congr {t1 t2 : Dl α} (h : t1.dists = t2.dists) (a b : Nat) : d O t1 a b = d O t2 a b := by
  simp only [d_eq, h]

/-- one matrix write as the C++ does it: `set_dist` followed by `set_pred` -/
def wr (t : Dl α) (i j : Nat) (x : α) (y : Nat) : Dl α := setPred (setDist O t i j x) i j y

theorem nVars_wr (t : Dl α) (i j : Nat) (x : α) (y : Nat) : (wr O t i j x y).nVars = t.nVars := by
  simp only [wr, nVars_setPred, nVars_setDist]

theorem shape_wr (t : Dl α) (i j : Nat) (x : α) (y : Nat) : shape (wr O t i j x y) = shape t := by
  rw [wr, shape_setPred, shape_setDist]

theorem d_wr {t : Dl α} {n : Nat} (h : Fits n (shape t)) {i j : Nat} (hi : i < n) (hj : j < n) (x : α) (y : Nat)
    (a b : Nat) : d O (wr O t i j x y) a b = if a = i ∧ b = j then x else d O t a b := by
  obtain ⟨h1, h2⟩ := fits_range h hi hj
  rw [wr, d_congr O (dists_setPred _ _ _ _), d_congr O (dists_setDist O _ _ _ _), d_setD O _ _ _ _ _ _ h1 h2]

end generic

/-! ### the denoted matrix -/

abbrev WM := DlW.Mat QV

/-- the extended value of entry `(a, b)` -/
def dn (t : Dl IR) (a b : Nat) : WithTop QV := IR.den (d rdlOps t a b)

theorem dn_wr {t : Dl IR} {n : Nat} (h : Fits n (shape t)) {i j : Nat} (hi : i < n) (hj : j < n) (x : IR) (y : Nat)
    (a b : Nat) : dn (wr rdlOps t i j x y) a b = if a = i ∧ b = j then IR.den x else dn t a b := by
  unfold dn
  rw [d_wr rdlOps h hi hj]
  split <;> rfl

/-! ### the two tests of the algorithm in terms of denoted values -/

theorem wt_lt_add_neg_iff (a b : WithTop QV) (w : QV) :
    a < b + ((-w : QV) : WithTop QV) ↔ a + (w : WithTop QV) < b := by
  cases a with
  | top => simp
  | coe x =>
    cases b with
    | top => simp [← WithTop.coe_add]
    | coe y =>
      rw [← WithTop.coe_add, ← WithTop.coe_add, WithTop.coe_lt_coe, WithTop.coe_lt_coe]
      rw [← sub_eq_add_neg, lt_sub_iff_add_lt]

theorem test1_true {x y w : IR} (hx : IR.Good x) (hy : IR.Good y) (hw : IR.Fin w)
    (h : (rdlOps.finiteGuard x && rdlOps.lt x (rdlOps.sub y w)) = true) :
    IR.den x + ((IR.val w : QV) : WithTop QV) < IR.den y ∨ (IR.den x = ⊤ ∧ IR.den y = ⊤) := by
  rw [IR.finiteGuard_true, Bool.true_and] at h
  obtain ⟨g1, g2⟩ := IR.good_sub hy hw
  rcases IR.lt_den_true hx g1 h with h1 | ⟨h1, h2⟩
  · left; rw [g2, wt_lt_add_neg_iff] at h1; exact h1
  · right; rw [g2] at h2; exact ⟨h1, by simpa using h2⟩

theorem test1_of {x y w : IR} (hx : IR.Good x) (hy : IR.Good y) (hw : IR.Fin w)
    (h : IR.den x + ((IR.val w : QV) : WithTop QV) < IR.den y) :
    (rdlOps.finiteGuard x && rdlOps.lt x (rdlOps.sub y w)) = true := by
  rw [IR.finiteGuard_true, Bool.true_and]
  obtain ⟨g1, g2⟩ := IR.good_sub hy hw
  apply IR.lt_den_of hx g1
  rw [g2, wt_lt_add_neg_iff]; exact h

theorem test2_true {i j : Nat} {x y z : IR} (hx : IR.Good x) (hy : IR.Good y) (hz : IR.Good z)
    (h : (i != j && rdlOps.lt (rdlOps.add x y) z) = true) :
    i ≠ j ∧ (IR.den x + IR.den y < IR.den z ∨ (IR.den x + IR.den y = ⊤ ∧ IR.den z = ⊤)) := by
  rw [Bool.and_eq_true] at h
  obtain ⟨g1, g2⟩ := IR.good_add hx hy
  refine ⟨by simpa using h.1, ?_⟩
  rw [← g2]
  exact IR.lt_den_true g1 hz h.2

theorem test2_of {i j : Nat} {x y z : IR} (hx : IR.Good x) (hy : IR.Good y) (hz : IR.Good z)
    (hij : i ≠ j) (h : IR.den x + IR.den y < IR.den z) :
    (i != j && rdlOps.lt (rdlOps.add x y) z) = true := by
  rw [Bool.and_eq_true]
  obtain ⟨g1, g2⟩ := IR.good_add hx hy
  refine ⟨by simpa using hij, ?_⟩
  apply IR.lt_den_of g1 hz
  rw [g2]; exact h

/-! ### phase 1 -/

/-- hypotheses on the old denoted matrix `M` and the new edge `(f, g, w)` -/
structure UHyp (n : Nat) (M : WM) (f g : Nat) (w : IR) : Prop where
  hf : f < n
  hg : g < n
  hfg : f ≠ g
  hw : IR.Fin w
  diag : ∀ a, a < n → M a a = 0
  closed : ∀ i j k, i < n → j < n → k < n → M i j ≤ M i k + M k j
  cyc : 0 ≤ M g f + ((IR.val w : QV) : WithTop QV)
  imp : ((IR.val w : QV) : WithTop QV) < M f g

/-- the denoted matrix after phase 1 -/
def D1 (M : WM) (f g : Nat) (wv : QV) : WM := fun a b =>
  if b = g then min (M a g) (M a f + (wv : WithTop QV))
  else if a = f then min (M f b) (M g b + (wv : WithTop QV))
  else M a b

def Ci (M : WM) (f g : Nat) (wv : QV) (u : Nat) : Prop := u ≠ f ∧ M u f + (wv : WithTop QV) < M u g
def Cj (M : WM) (f g : Nat) (wv : QV) (u : Nat) : Prop := u ≠ g ∧ M g u + (wv : WithTop QV) < M f u
/-- spurious members of `set_i`: both entries infinite, the test compared their ε parts -/
def Si (M : WM) (f g : Nat) (u : Nat) : Prop := M u f = ⊤ ∧ M u g = ⊤
def Sj (M : WM) (f g : Nat) (u : Nat) : Prop := M g u = ⊤ ∧ M f u = ⊤

/-- invariant of the first loop: column `g` is final for rows `< ki`, row `f` for columns `< kj` -/
structure PP (t0 : Dl IR) (M : WM) (f g : Nat) (wv : QV) (n : Nat) (shp : List Nat × List Nat) (ki kj : Nat)
    (t : Dl IR) (si sj : List Nat) : Prop where
  nv : t.nVars = n
  shp : shape t = shp
  good : ∀ a b, a < n → b < n → IR.Good (d rdlOps t a b)
  out : ∀ a b, ¬ (a < n ∧ b < n) → d rdlOps t a b = d rdlOps t0 a b
  mat : ∀ a b, dn t a b =
    if (b = g ∧ (a < ki ∨ a = f)) ∨ (a = f ∧ b < kj) then D1 M f g wv a b else M a b
  si_sub : ∀ u, u ∈ si → u < ki ∧ (Ci M f g wv u ∨ Si M f g u)
  si_sup : ∀ u, u < ki → Ci M f g wv u → u ∈ si
  sj_sub : ∀ u, u ∈ sj → u < kj ∧ (Cj M f g wv u ∨ Sj M f g u)
  sj_sup : ∀ u, u < kj → Cj M f g wv u → u ∈ sj

section
variable {t0 : Dl IR} {M : WM} {f g : Nat} {w : IR} {n : Nat} {shp : List Nat × List Nat}
  (hy : UHyp n M f g w) (hfit : Fits n shp)
include hy hfit

theorem D1_fg : D1 M f g (IR.val w) f g = ((IR.val w : QV) : WithTop QV) := by
  simp only [D1, if_true]
  rw [hy.diag f hy.hf, zero_add]
  exact min_eq_right (le_of_lt hy.imp)

theorem D1_gg : D1 M f g (IR.val w) g g = 0 := by
  simp only [D1, if_true]
  rw [hy.diag g hy.hg]
  exact min_eq_left hy.cyc

theorem zero_ne_top' : (0 : WithTop QV) ≠ ⊤ := WithTop.zero_ne_top

theorem step1 {u : Nat} {t : Dl IR} {si sj : List Nat} (hP : PP t0 M f g (IR.val w) n shp u u t si sj) (hu : u < n)
    (ups : List (Nat × Nat)) (y : Nat) {t1 : Dl IR} {si1 : List Nat} {ups1 : List (Nat × Nat)}
    (heq : (if (rdlOps.finiteGuard (d rdlOps t u f) && rdlOps.lt (d rdlOps t u f) (rdlOps.sub (d rdlOps t u g) w)) = true then
        (wr rdlOps t u g (rdlOps.add (d rdlOps t u f) w) y, si ++ [u], ups ++ [(u, g), (g, u)])
      else (t, si, ups)) = (t1, si1, ups1)) :
    PP t0 M f g (IR.val w) n shp (u + 1) u t1 si1 sj := by
  have hf := hy.hf; have hg := hy.hg; have hfg := hy.hfg
  have rf : dn t u f = M u f := by
    rw [hP.mat]; rw [if_neg (by omega)]
  have rg : dn t u g = if u = f then ((IR.val w : QV) : WithTop QV) else M u g := by
    rw [hP.mat]
    by_cases huf : u = f
    · subst huf; rw [if_pos (by omega), if_pos rfl, D1_fg hy hfit]
    · rw [if_neg (by omega), if_neg huf]
  have hfitt : Fits n (shape t) := by rw [hP.shp]; exact hfit
  have gx := hP.good u f hu hf
  have gy := hP.good u g hu hg
  have hdf := hy.diag f hf
  -- a successful test: `u ≠ f` and `u` is a genuine or a spurious candidate
  have htrue : (rdlOps.finiteGuard (d rdlOps t u f) && rdlOps.lt (d rdlOps t u f) (rdlOps.sub (d rdlOps t u g) w)) = true →
      u ≠ f ∧ (Ci M f g (IR.val w) u ∨ Si M f g u) := by
    intro h
    have h' := test1_true gx gy hy.hw h
    change dn t u f + _ < dn t u g ∨ (dn t u f = ⊤ ∧ dn t u g = ⊤) at h'
    rw [rf, rg] at h'
    by_cases huf : u = f
    · exfalso
      subst huf
      rw [if_pos rfl, hdf, zero_add] at h'
      rcases h' with h1 | ⟨h1, _⟩
      · exact lt_irrefl _ h1
      · exact zero_ne_top' hy hfit h1
    · rw [if_neg huf] at h'
      refine ⟨huf, ?_⟩
      rcases h' with h1 | h1
      · left; exact ⟨huf, h1⟩
      · right; exact h1
  have hof : Ci M f g (IR.val w) u →
      (rdlOps.finiteGuard (d rdlOps t u f) && rdlOps.lt (d rdlOps t u f) (rdlOps.sub (d rdlOps t u g) w)) = true := by
    intro hc
    apply test1_of gx gy hy.hw
    change dn t u f + _ < dn t u g
    rw [rf, rg, if_neg hc.1]; exact hc.2
  by_cases hc : (rdlOps.finiteGuard (d rdlOps t u f) && rdlOps.lt (d rdlOps t u f) (rdlOps.sub (d rdlOps t u g) w)) = true
  · rw [if_pos hc] at heq
    cases heq
    obtain ⟨huf, hcs⟩ := htrue hc
    obtain ⟨gnew, dnew⟩ := IR.good_add gx hy.hw.good
    change _ = dn t u f + _ at dnew
    rw [rf, hy.hw.den] at dnew
    have hD1 : D1 M f g (IR.val w) u g = M u f + ((IR.val w : QV) : WithTop QV) := by
      simp only [D1, if_true]
      rcases hcs with h1 | h1
      · exact min_eq_right (le_of_lt h1.2)
      · rw [h1.1, h1.2, WithTop.top_add, min_self]
    refine ⟨by rw [nVars_wr, hP.nv], by rw [shape_wr, hP.shp], ?_, ?_, ?_, ?_, ?_, hP.sj_sub, hP.sj_sup⟩
    · intro a b ha hb
      rw [d_wr rdlOps hfitt hu hg]
      split
      · exact gnew
      · exact hP.good a b ha hb
    · intro a b hab
      rw [d_wr rdlOps hfitt hu hg, if_neg (by omega)]
      exact hP.out a b hab
    · intro a b
      rw [dn_wr hfitt hu hg]
      by_cases hab : a = u ∧ b = g
      · rw [if_pos hab, hab.1, hab.2, if_pos (by omega), dnew, hD1]
      · rw [if_neg hab, hP.mat]
        by_cases hcond : (b = g ∧ (a < u ∨ a = f)) ∨ (a = f ∧ b < u)
        · rw [if_pos hcond, if_pos (by omega)]
        · rw [if_neg hcond, if_neg (by omega)]
    · intro v hv
      rcases List.mem_append.mp hv with h1 | h1
      · obtain ⟨h2, h3⟩ := hP.si_sub v h1
        exact ⟨by omega, h3⟩
      · rw [List.mem_singleton] at h1
        subst h1
        exact ⟨by omega, hcs⟩
    · intro v hv hcv
      rw [List.mem_append, List.mem_singleton]
      by_cases hvu : v = u
      · right; exact hvu
      · left; exact hP.si_sup v (by omega) hcv
  · rw [if_neg hc] at heq
    cases heq
    have hnc : ¬ Ci M f g (IR.val w) u := fun h => hc (hof h)
    refine ⟨hP.nv, hP.shp, hP.good, hP.out, ?_, ?_, ?_, hP.sj_sub, hP.sj_sup⟩
    · intro a b
      by_cases hab : a = u ∧ b = g
      · rw [hab.1, hab.2, rg, if_pos (show (g = g ∧ (u < u + 1 ∨ u = f)) ∨ (u = f ∧ g < u) from by omega)]
        by_cases huf : u = f
        · rw [if_pos huf, huf, D1_fg hy hfit]
        · rw [if_neg huf]
          simp only [D1, if_true]
          symm; apply min_eq_left
          exact not_lt.mp (fun h => hnc ⟨huf, h⟩)
      · rw [hP.mat]
        by_cases hcond : (b = g ∧ (a < u ∨ a = f)) ∨ (a = f ∧ b < u)
        · rw [if_pos hcond, if_pos (by omega)]
        · rw [if_neg hcond, if_neg (by omega)]
    · intro v hv
      obtain ⟨h2, h3⟩ := hP.si_sub v hv
      exact ⟨by omega, h3⟩
    · intro v hv hcv
      by_cases hvu : v = u
      · subst hvu; exact absurd hcv hnc
      · exact hP.si_sup v (by omega) hcv

theorem step2 {u : Nat} {t : Dl IR} {si sj : List Nat} (hP : PP t0 M f g (IR.val w) n shp (u + 1) u t si sj) (hu : u < n) (y : Nat) :
    ((rdlOps.finiteGuard (d rdlOps t g u) && rdlOps.lt (d rdlOps t g u) (rdlOps.sub (d rdlOps t f u) w)) = true →
      PP t0 M f g (IR.val w) n shp (u + 1) (u + 1) (wr rdlOps t f u (rdlOps.add (d rdlOps t g u) w) y) si (sj ++ [u])) ∧
    (¬ (rdlOps.finiteGuard (d rdlOps t g u) && rdlOps.lt (d rdlOps t g u) (rdlOps.sub (d rdlOps t f u) w)) = true →
      PP t0 M f g (IR.val w) n shp (u + 1) (u + 1) t si sj) := by
  have hf := hy.hf; have hg := hy.hg; have hfg := hy.hfg
  have rg : dn t g u = M g u := by
    rw [hP.mat]
    by_cases hug : u = g
    · rw [if_pos (by omega), hug, D1_gg hy hfit, hy.diag g hg]
    · rw [if_neg (by omega)]
  have rfu : dn t f u = if u = g then ((IR.val w : QV) : WithTop QV) else M f u := by
    rw [hP.mat]
    by_cases hug : u = g
    · rw [if_pos (by omega), if_pos hug, hug, D1_fg hy hfit]
    · rw [if_neg (by omega), if_neg hug]
  have hfitt : Fits n (shape t) := by rw [hP.shp]; exact hfit
  have gx := hP.good g u hg hu
  have gy := hP.good f u hf hu
  have hdg := hy.diag g hg
  have htrue : (rdlOps.finiteGuard (d rdlOps t g u) && rdlOps.lt (d rdlOps t g u) (rdlOps.sub (d rdlOps t f u) w)) = true →
      u ≠ g ∧ (Cj M f g (IR.val w) u ∨ Sj M f g u) := by
    intro h
    have h' := test1_true gx gy hy.hw h
    change dn t g u + _ < dn t f u ∨ (dn t g u = ⊤ ∧ dn t f u = ⊤) at h'
    rw [rg, rfu] at h'
    by_cases hug : u = g
    · exfalso
      subst hug
      rw [if_pos rfl, hdg, zero_add] at h'
      rcases h' with h1 | ⟨h1, _⟩
      · exact lt_irrefl _ h1
      · exact zero_ne_top' hy hfit h1
    · rw [if_neg hug] at h'
      refine ⟨hug, ?_⟩
      rcases h' with h1 | h1
      · left; exact ⟨hug, h1⟩
      · right; exact h1
  have hof : Cj M f g (IR.val w) u →
      (rdlOps.finiteGuard (d rdlOps t g u) && rdlOps.lt (d rdlOps t g u) (rdlOps.sub (d rdlOps t f u) w)) = true := by
    intro hc
    apply test1_of gx gy hy.hw
    change dn t g u + _ < dn t f u
    rw [rg, rfu, if_neg hc.1]; exact hc.2
  constructor
  · intro hc
    obtain ⟨hug, hcs⟩ := htrue hc
    obtain ⟨gnew, dnew⟩ := IR.good_add gx hy.hw.good
    change _ = dn t g u + _ at dnew
    rw [rg, hy.hw.den] at dnew
    have hD1 : D1 M f g (IR.val w) f u = M g u + ((IR.val w : QV) : WithTop QV) := by
      simp only [D1, if_neg hug, if_true]
      rcases hcs with h1 | h1
      · exact min_eq_right (le_of_lt h1.2)
      · rw [h1.1, h1.2, WithTop.top_add, min_self]
    refine ⟨by rw [nVars_wr, hP.nv], by rw [shape_wr, hP.shp], ?_, ?_, ?_, hP.si_sub, hP.si_sup, ?_, ?_⟩
    · intro a b ha hb
      rw [d_wr rdlOps hfitt hf hu]
      split
      · exact gnew
      · exact hP.good a b ha hb
    · intro a b hab
      rw [d_wr rdlOps hfitt hf hu, if_neg (by omega)]
      exact hP.out a b hab
    · intro a b
      rw [dn_wr hfitt hf hu]
      by_cases hab : a = f ∧ b = u
      · rw [if_pos hab, hab.1, hab.2, if_pos (by omega), dnew, hD1]
      · rw [if_neg hab, hP.mat]
        by_cases hcond : (b = g ∧ (a < u + 1 ∨ a = f)) ∨ (a = f ∧ b < u)
        · rw [if_pos hcond, if_pos (by omega)]
        · rw [if_neg hcond, if_neg (by omega)]
    · intro v hv
      rcases List.mem_append.mp hv with h1 | h1
      · obtain ⟨h2, h3⟩ := hP.sj_sub v h1
        exact ⟨by omega, h3⟩
      · rw [List.mem_singleton] at h1
        subst h1
        exact ⟨by omega, hcs⟩
    · intro v hv hcv
      rw [List.mem_append, List.mem_singleton]
      by_cases hvu : v = u
      · right; exact hvu
      · left; exact hP.sj_sup v (by omega) hcv
  · intro hc
    have hnc : ¬ Cj M f g (IR.val w) u := fun h => hc (hof h)
    refine ⟨hP.nv, hP.shp, hP.good, hP.out, ?_, hP.si_sub, hP.si_sup, ?_, ?_⟩
    · intro a b
      by_cases hab : a = f ∧ b = u
      · rw [hab.1, hab.2, rfu, if_pos (show (u = g ∧ (f < u + 1 ∨ f = f)) ∨ (f = f ∧ u < u + 1) from by omega)]
        by_cases hug : u = g
        · rw [if_pos hug, hug, D1_fg hy hfit]
        · rw [if_neg hug]
          simp only [D1, if_neg hug, if_true]
          symm; apply min_eq_left
          exact not_lt.mp (fun h => hnc ⟨hug, h⟩)
      · rw [hP.mat]
        by_cases hcond : (b = g ∧ (a < u + 1 ∨ a = f)) ∨ (a = f ∧ b < u)
        · rw [if_pos hcond, if_pos (by omega)]
        · rw [if_neg hcond, if_neg (by omega)]
    · intro v hv
      obtain ⟨h2, h3⟩ := hP.sj_sub v hv
      exact ⟨by omega, h3⟩
    · intro v hv hcv
      by_cases hvu : v = u
      · subst hvu; exact absurd hcv hnc
      · exact hP.sj_sup v (by omega) hcv

/-- the first loop establishes the phase-1 matrix `D1` and the two index sets -/
theorem phase1_spec : ∀ (fuel : Nat) (tz : Dl IR) (u : Nat) (t : Dl IR) (si sj : List Nat) (ups : List (Nat × Nat)),
    u + fuel = n → PP t0 M f g (IR.val w) n shp u u t si sj →
    PP t0 M f g (IR.val w) n shp n n (phase1 rdlOps tz f g w fuel u (t, si, sj, ups)).1
      (phase1 rdlOps tz f g w fuel u (t, si, sj, ups)).2.1
      (phase1 rdlOps tz f g w fuel u (t, si, sj, ups)).2.2.1 := by
  intro fuel
  induction fuel with
  | zero =>
    intro tz u t si sj ups hu hP
    have : u = n := by omega
    subst this
    simpa [phase1] using hP
  | succ m ih =>
    intro tz u t si sj ups hu hP
    rw [phase1]
    split
    rename_i t1 si1 ups1 heq1
    have q1 := step1 hy hfit hP (by omega) ups f heq1
    have q2 := step2 hy hfit q1 (by omega) (p (setDist rdlOps t1 f u (rdlOps.add (d rdlOps t1 g u) w)) g u)
    dsimp only
    split
    · rename_i hc
      exact ih _ _ _ _ _ _ (by omega) (q2.1 hc)
    · rename_i hc
      exact ih _ _ _ _ _ _ (by omega) (q2.2 hc)

/-! ### phase 2 -/

/-- the body of the inner loop of phase 2 -/
def innerF (g i : Nat) : Dl IR × List (Nat × Nat) → Nat → Dl IR × List (Nat × Nat) :=
  fun acc j =>
    let (t, ups) := acc
    if i != j && rdlOps.lt (rdlOps.add (d rdlOps t i g) (d rdlOps t g j)) (d rdlOps t i j) then
      let t := setDist rdlOps t i j (rdlOps.add (d rdlOps t i g) (d rdlOps t g j))
      let t := setPred t i j (p t g j)
      (t, ups ++ [(i, j), (j, i)])
    else (t, ups)

omit hy hfit in
theorem phase2_eq (t : Dl IR) (g : Nat) (si sj : List Nat) (ups : List (Nat × Nat)) :
    phase2 rdlOps t g si sj ups = si.foldl (fun acc i => sj.foldl (innerF g i) acc) (t, ups) := rfl

/-- invariant of the second loop: every entry is the phase-1 value `G` or already the final value;
    row `g` and column `g` are never written; the pairs in `S` are final -/
structure Q2 (t0 : Dl IR) (M : WM) (f g : Nat) (wv : QV) (n : Nat) (shp : List Nat × List Nat) (G : WM)
    (S : Nat → Nat → Prop) (t : Dl IR) : Prop where
  nv : t.nVars = n
  shp : shape t = shp
  good : ∀ a b, a < n → b < n → IR.Good (d rdlOps t a b)
  out : ∀ a b, ¬ (a < n ∧ b < n) → d rdlOps t a b = d rdlOps t0 a b
  mat : ∀ a b, dn t a b = G a b ∨ (a < n ∧ b < n ∧ dn t a b = DlW.upd M f g wv a b)
  colg : ∀ a, dn t a g = G a g
  rowg : ∀ b, dn t g b = G g b
  fin : ∀ a b, S a b → dn t a b = DlW.upd M f g wv a b

theorem upd_diag (a : Nat) (ha : a < n) : DlW.upd M f g (IR.val w) a a = 0 := by
  show min (M a a) (M a f + ((IR.val w : QV) : WithTop QV) + M g a) = 0
  rw [hy.diag a ha]
  apply min_eq_left
  calc (0 : WithTop QV) ≤ M g f + ((IR.val w : QV) : WithTop QV) := hy.cyc
    _ ≤ (M g a + M a f) + ((IR.val w : QV) : WithTop QV) := add_le_add (hy.closed g f a hy.hg hy.hf ha) le_rfl
    _ = M a f + ((IR.val w : QV) : WithTop QV) + M g a := by ac_rfl

theorem inner_step {G : WM} (hG : ∀ a b, a < n → b < n → G a b = D1 M f g (IR.val w) a b)
    {S : Nat → Nat → Prop} {i j : Nat} (hi : i < n) (hj : j < n)
    (ci : Ci M f g (IR.val w) i ∨ Si M f g i) (cj : Cj M f g (IR.val w) j ∨ Sj M f g j)
    (acc : Dl IR × List (Nat × Nat)) (hQ : Q2 t0 M f g (IR.val w) n shp G S acc.1) :
    Q2 t0 M f g (IR.val w) n shp G (fun a b => S a b ∨ (a = i ∧ b = j)) (innerF g i acc j).1 := by
  obtain ⟨t, ups⟩ := acc
  unfold innerF
  have hf := hy.hf; have hg := hy.hg; have hfg := hy.hfg
  have hdg := hy.diag g hg
  have hdf := hy.diag f hf
  have hig : i ≠ g := by
    intro h; subst h
    rcases ci with c | c
    · have h1 := c.2; rw [hdg] at h1
      exact absurd (lt_of_le_of_lt hy.cyc h1) (lt_irrefl _)
    · have c2 : M i i = ⊤ := c.2
      rw [hdg] at c2; exact zero_ne_top' hy hfit c2
  have hif : i ≠ f := by
    rcases ci with c | c
    · exact c.1
    · intro h; subst h
      have c1 : M i i = ⊤ := c.1
      rw [hdf] at c1; exact zero_ne_top' hy hfit c1
  have hjg : j ≠ g := by
    rcases cj with c | c
    · exact c.1
    · intro h; subst h
      have c1 : M j j = ⊤ := c.1
      rw [hdg] at c1; exact zero_ne_top' hy hfit c1
  have r1 : dn t i g = M i f + ((IR.val w : QV) : WithTop QV) := by
    rw [hQ.colg, hG i g hi hg]; simp only [D1, if_true]
    rcases ci with c | c
    · exact min_eq_right (le_of_lt c.2)
    · rw [c.1, c.2, WithTop.top_add, min_self]
  have r2 : dn t g j = M g j := by
    rw [hQ.rowg, hG g j hg hj]; simp only [D1, if_neg hjg, if_neg (Ne.symm hfg)]
  have r3 : G i j = M i j := by
    rw [hG i j hi hj]; simp only [D1, if_neg hjg, if_neg hif]
  have hF : DlW.upd M f g (IR.val w) i j = min (M i j) (M i f + ((IR.val w : QV) : WithTop QV) + M g j) := rfl
  have hfitt : Fits n (shape t) := by rw [hQ.shp]; exact hfit
  have hcur := hQ.mat i j
  have gx := hQ.good i g hi hg
  have gy := hQ.good g j hg hj
  have gz := hQ.good i j hi hj
  dsimp only
  by_cases hc : (i != j && rdlOps.lt (rdlOps.add (d rdlOps t i g) (d rdlOps t g j)) (d rdlOps t i j)) = true
  · rw [if_pos hc]
    have hc' := test2_true gx gy gz hc
    change i ≠ j ∧ (dn t i g + dn t g j < dn t i j ∨ (dn t i g + dn t g j = ⊤ ∧ dn t i j = ⊤)) at hc'
    rw [r1, r2] at hc'
    obtain ⟨gnew, dnew⟩ := IR.good_add gx gy
    change _ = dn t i g + dn t g j at dnew
    rw [r1, r2] at dnew
    have hnew : M i f + ((IR.val w : QV) : WithTop QV) + M g j = DlW.upd M f g (IR.val w) i j := by
      rw [hF]
      rcases hcur with h1 | ⟨_, _, h1⟩
      · rw [h1, r3] at hc'
        rcases hc'.2 with h2 | ⟨h2, h3⟩
        · exact (min_eq_right (le_of_lt h2)).symm
        · rw [h2, h3, min_self]
      · rw [h1, hF] at hc'
        rcases hc'.2 with h2 | ⟨h2, h3⟩
        · exact absurd (lt_of_lt_of_le h2 (min_le_right _ _)) (lt_irrefl _)
        · exact h2.trans h3.symm
    show Q2 t0 M f g (IR.val w) n shp G _ (wr rdlOps t i j (rdlOps.add (d rdlOps t i g) (d rdlOps t g j)) (p _ g j))
    refine ⟨by rw [nVars_wr, hQ.nv], by rw [shape_wr, hQ.shp], ?_, ?_, ?_, ?_, ?_, ?_⟩
    · intro a b ha hb
      rw [d_wr rdlOps hfitt hi hj]
      split
      · exact gnew
      · exact hQ.good a b ha hb
    · intro a b hab
      rw [d_wr rdlOps hfitt hi hj, if_neg (by omega)]
      exact hQ.out a b hab
    · intro a b
      rw [dn_wr hfitt hi hj]
      by_cases hab : a = i ∧ b = j
      · rw [if_pos hab, hab.1, hab.2]; right; exact ⟨hi, hj, by rw [dnew, hnew]⟩
      · rw [if_neg hab]; exact hQ.mat a b
    · intro a
      rw [dn_wr hfitt hi hj, if_neg (by omega)]; exact hQ.colg a
    · intro b
      rw [dn_wr hfitt hi hj, if_neg (by omega)]; exact hQ.rowg b
    · intro a b hS
      rw [dn_wr hfitt hi hj]
      by_cases hab : a = i ∧ b = j
      · rw [if_pos hab, hab.1, hab.2, dnew, hnew]
      · rw [if_neg hab]
        rcases hS with hS | hS
        · exact hQ.fin a b hS
        · exact absurd hS hab
  · rw [if_neg hc]
    have hc' : ¬ (i ≠ j ∧ M i f + ((IR.val w : QV) : WithTop QV) + M g j < dn t i j) := by
      intro h
      apply hc
      apply test2_of gx gy gz h.1
      change dn t i g + dn t g j < dn t i j
      rw [r1, r2]; exact h.2
    refine ⟨hQ.nv, hQ.shp, hQ.good, hQ.out, hQ.mat, hQ.colg, hQ.rowg, ?_⟩
    intro a b hS
    rcases hS with hS | ⟨rfl, rfl⟩
    · exact hQ.fin a b hS
    · show dn t a b = DlW.upd M f g (IR.val w) a b
      rcases hcur with h1 | ⟨_, _, h1⟩
      · by_cases hab : a = b
        · subst hab
          rw [h1, r3, upd_diag hy hfit a hi, hy.diag a hi]
        · rw [h1, r3] at hc' ⊢
          rw [hF]
          symm; apply min_eq_left
          exact not_lt.mp (fun h => hc' ⟨hab, h⟩)
      · exact h1

omit hy hfit in
theorem Q2.mono {G : WM} {S S' : Nat → Nat → Prop} {t : Dl IR} {wv : QV} (h : Q2 t0 M f g wv n shp G S t)
    (hS : ∀ a b, S' a b → S a b) : Q2 t0 M f g wv n shp G S' t :=
  ⟨h.nv, h.shp, h.good, h.out, h.mat, h.colg, h.rowg, fun a b hs => h.fin a b (hS a b hs)⟩

theorem inner_fold {G : WM} (hG : ∀ a b, a < n → b < n → G a b = D1 M f g (IR.val w) a b)
    {i : Nat} (hi : i < n) (ci : Ci M f g (IR.val w) i ∨ Si M f g i) :
    ∀ (l : List Nat), (∀ j ∈ l, j < n ∧ (Cj M f g (IR.val w) j ∨ Sj M f g j)) →
      ∀ (S : Nat → Nat → Prop) (acc : Dl IR × List (Nat × Nat)),
      Q2 t0 M f g (IR.val w) n shp G S acc.1 →
      Q2 t0 M f g (IR.val w) n shp G (fun a b => S a b ∨ (a = i ∧ b ∈ l)) (l.foldl (innerF g i) acc).1 := by
  intro l
  induction l with
  | nil =>
    intro _ S acc hQ
    exact hQ.mono (fun a b h => by simpa using h)
  | cons j l ih =>
    intro hl S acc hQ
    rw [List.foldl_cons]
    have h1 := inner_step hy hfit hG hi (hl j List.mem_cons_self).1 ci (hl j List.mem_cons_self).2 acc hQ
    have h2 := ih (fun j' hj' => hl j' (List.mem_cons_of_mem _ hj')) _ _ h1
    refine h2.mono ?_
    intro a b h
    rcases h with h | ⟨h3, h4⟩
    · left; left; exact h
    · rcases List.mem_cons.mp h4 with h5 | h5
      · left; right; exact ⟨h3, h5⟩
      · right; exact ⟨h3, h5⟩

theorem outer_fold {G : WM} (hG : ∀ a b, a < n → b < n → G a b = D1 M f g (IR.val w) a b)
    (sj : List Nat) (hsj : ∀ j ∈ sj, j < n ∧ (Cj M f g (IR.val w) j ∨ Sj M f g j)) :
    ∀ (l : List Nat), (∀ i ∈ l, i < n ∧ (Ci M f g (IR.val w) i ∨ Si M f g i)) →
      ∀ (S : Nat → Nat → Prop) (acc : Dl IR × List (Nat × Nat)),
      Q2 t0 M f g (IR.val w) n shp G S acc.1 →
      Q2 t0 M f g (IR.val w) n shp G (fun a b => S a b ∨ (a ∈ l ∧ b ∈ sj))
        (l.foldl (fun acc i => sj.foldl (innerF g i) acc) acc).1 := by
  intro l
  induction l with
  | nil =>
    intro _ S acc hQ
    exact hQ.mono (fun a b h => by simpa using h)
  | cons i l ih =>
    intro hl S acc hQ
    rw [List.foldl_cons]
    have h1 := inner_fold hy hfit hG (hl i List.mem_cons_self).1 (hl i List.mem_cons_self).2 sj hsj S acc hQ
    have h2 := ih (fun i' hi' => hl i' (List.mem_cons_of_mem _ hi')) _ _ h1
    refine h2.mono ?_
    intro a b h
    rcases h with h | ⟨h3, h4⟩
    · left; left; exact h
    · rcases List.mem_cons.mp h3 with h5 | h5
      · left; right; exact ⟨h5, h4⟩
      · right; exact ⟨h5, h4⟩

/-- outside the genuine candidates the phase-1 matrix is already the final one -/
theorem D1_eq_upd (a b : Nat) (ha : a < n) (hb : b < n) (hnot : ¬ (Ci M f g (IR.val w) a ∧ Cj M f g (IR.val w) b)) :
    D1 M f g (IR.val w) a b = DlW.upd M f g (IR.val w) a b := by
  have hf := hy.hf; have hg := hy.hg; have hfg := hy.hfg
  have hdg := hy.diag g hg
  have hdf := hy.diag f hf
  show D1 M f g (IR.val w) a b = min (M a b) (M a f + ((IR.val w : QV) : WithTop QV) + M g b)
  unfold D1
  by_cases hbg : b = g
  · subst hbg
    rw [if_pos rfl, hdg, add_zero]
  · rw [if_neg hbg]
    by_cases haf : a = f
    · subst haf
      rw [if_pos rfl, hdf, zero_add, add_comm (M g b)]
    · rw [if_neg haf]
      symm; apply min_eq_left
      by_cases hci : Ci M f g (IR.val w) a
      · have hcj : ¬ Cj M f g (IR.val w) b := fun h => hnot ⟨hci, h⟩
        have h1 : M f b ≤ M g b + ((IR.val w : QV) : WithTop QV) := not_lt.mp (fun h => hcj ⟨hbg, h⟩)
        calc M a b ≤ M a f + M f b := hy.closed a b f ha hb hf
          _ ≤ M a f + (M g b + ((IR.val w : QV) : WithTop QV)) := add_le_add le_rfl h1
          _ = M a f + ((IR.val w : QV) : WithTop QV) + M g b := by ac_rfl
      · have h1 : M a g ≤ M a f + ((IR.val w : QV) : WithTop QV) := not_lt.mp (fun h => hci ⟨haf, h⟩)
        calc M a b ≤ M a g + M g b := hy.closed a b g ha hb hg
          _ ≤ M a f + ((IR.val w : QV) : WithTop QV) + M g b := add_le_add h1 le_rfl

/-- the effect of `propagate(from, to, dist)` on the denoted distance matrix -/
theorem propagateEdge_spec (s : Sat) (t : Dl IR) (hM : M = dn t) (hn : t.nVars = n) (hshp : shape t = shp)
    (hgood : ∀ a b, a < n → b < n → IR.Good (d rdlOps t a b)) :
    let t' := (propagateEdge rdlOps s t f g w).2
    t'.nVars = n ∧ shape t' = shp ∧
    (∀ a b, a < n → b < n → IR.Good (d rdlOps t' a b)) ∧
    (∀ a b, ¬ (a < n ∧ b < n) → d rdlOps t' a b = d rdlOps t a b) ∧
    ∀ a b, a < n → b < n → dn t' a b = DlW.upd M f g (IR.val w) a b := by
  have hf := hy.hf; have hg := hy.hg; have hfg := hy.hfg
  have hfitt : Fits n (shape t) := by rw [hshp]; exact hfit
  -- the two initial writes
  have hP0 : PP t M f g (IR.val w) n shp 0 0 (wr rdlOps t f g w f) [] [] := by
    refine ⟨by rw [nVars_wr, hn], by rw [shape_wr, hshp], ?_, ?_, ?_, by simp, by simp, by simp, by simp⟩
    · intro a b ha hb
      rw [d_wr rdlOps hfitt hf hg]
      split
      · exact hy.hw.good
      · exact hgood a b ha hb
    · intro a b hab
      rw [d_wr rdlOps hfitt hf hg, if_neg (by omega)]
    · intro a b
      rw [dn_wr hfitt hf hg]
      by_cases hab : a = f ∧ b = g
      · rw [if_pos hab, hab.1, hab.2, if_pos (by omega), D1_fg hy hfit, hy.hw.den]
      · rw [if_neg hab, if_neg (by omega), hM]
  have hnv0 : (wr rdlOps t f g w f).nVars = n := by rw [nVars_wr, hn]
  have hP1 := phase1_spec hy hfit n (wr rdlOps t f g w f) 0 (wr rdlOps t f g w f) [] [] [(f, g), (g, f)] (by omega) hP0
  -- phase 2
  have e : ∀ m, m = (wr rdlOps t f g w f).nVars → (propagateEdge rdlOps s t f g w).2 =
      (phase2 rdlOps (phase1 rdlOps (wr rdlOps t f g w f) f g w m 0 (wr rdlOps t f g w f, [], [], [(f, g), (g, f)])).1 g
        (phase1 rdlOps (wr rdlOps t f g w f) f g w m 0 (wr rdlOps t f g w f, [], [], [(f, g), (g, f)])).2.1
        (phase1 rdlOps (wr rdlOps t f g w f) f g w m 0 (wr rdlOps t f g w f, [], [], [(f, g), (g, f)])).2.2.1
        (phase1 rdlOps (wr rdlOps t f g w f) f g w m 0 (wr rdlOps t f g w f, [], [], [(f, g), (g, f)])).2.2.2).1 := by
    intro m hm; subst hm; rfl
  have e' := e n hnv0.symm
  generalize phase1 rdlOps (wr rdlOps t f g w f) f g w n 0 (wr rdlOps t f g w f, [], [], [(f, g), (g, f)]) = r at hP1 e'
  obtain ⟨t1, si, sj, ups⟩ := r
  simp only at hP1 e'
  have hG : ∀ a b, a < n → b < n → dn t1 a b = D1 M f g (IR.val w) a b := by
    intro a b ha hb
    rw [hP1.mat]
    by_cases hcond : (b = g ∧ (a < n ∨ a = f)) ∨ (a = f ∧ b < n)
    · rw [if_pos hcond]
    · rw [if_neg hcond]
      unfold D1
      rw [if_neg (by omega), if_neg (by omega)]
  have hQ0 : Q2 t M f g (IR.val w) n shp (dn t1) (fun _ _ => False) (t1, ups).1 :=
    ⟨hP1.nv, hP1.shp, hP1.good, hP1.out, fun a b => Or.inl rfl, fun a => rfl, fun b => rfl, fun a b h => h.elim⟩
  have hQ := outer_fold hy hfit hG sj (fun j hj => hP1.sj_sub j hj)
    si (fun i hi => hP1.si_sub i hi) _ _ hQ0
  rw [← phase2_eq, ← e'] at hQ
  refine ⟨hQ.nv, hQ.shp, hQ.good, hQ.out, ?_⟩
  intro a b ha hb
  by_cases hc : a ∈ si ∧ b ∈ sj
  · exact hQ.fin a b (Or.inr hc)
  · rcases hQ.mat a b with h1 | ⟨_, _, h1⟩
    · rw [h1, hG a b ha hb]
      apply D1_eq_upd hy hfit a b ha hb
      intro hcc
      exact hc ⟨hP1.si_sup a ha hcc.1, hP1.sj_sup b hb hcc.2⟩
    · exact h1
end

end DlR
end Oratio
