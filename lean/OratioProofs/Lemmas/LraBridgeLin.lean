/-
Helper lemmas for `Properties/C09Bridge.lean`, part 1: keys of the association lists of `Lin`
(`find … .isSome`), the ascending sets of rows `setInsert / setErase`, and the loop body of
`Lra.pivotRow` on the pure data (coefficient list × watch lists).
-/
import OratioModel
import OratioProofs.Lemmas.Lin
import OratioProofs.Lemmas.LraRel

namespace Oratio
namespace Lin

/-! ### keys -/

theorem find_isSome_of_mem {m : List (Nat × R)} {v : Nat} {c : R} (h : (v, c) ∈ m) :
    (find m v).isSome = true := by
  induction m with
  | nil => cases h
  | cons a t ih =>
    obtain ⟨k, d⟩ := a
    rw [find_cons]
    by_cases hk : k = v
    · rw [if_pos hk]; rfl
    · rw [if_neg hk]
      rcases List.mem_cons.1 h with h | h
      · cases h; exact absurd rfl hk
      · exact ih h

theorem find_isSome_iff {m : List (Nat × R)} {v : Nat} :
    (find m v).isSome = true ↔ ∃ c, (v, c) ∈ m := by
  constructor
  · intro h
    obtain ⟨c, hc⟩ := Option.isSome_iff_exists.1 h
    exact ⟨c, find_mem hc⟩
  · rintro ⟨c, hc⟩
    exact find_isSome_of_mem hc

theorem find_none_iff {m : List (Nat × R)} {v : Nat} :
    find m v = none ↔ ∀ p ∈ m, p.1 ≠ v := by
  constructor
  · intro h p hp e
    have := find_isSome_of_mem (m := m) (v := v) (c := p.2) (by rw [← e]; exact hp)
    rw [h] at this
    cases this
  · exact find_none_of_ne

theorem erase_of_find_none {m : List (Nat × R)} {v : Nat} (h : find m v = none) : erase m v = m := by
  induction m with
  | nil => rfl
  | cons a t ih =>
    obtain ⟨k, d⟩ := a
    rw [find_cons] at h
    by_cases hk : k = v
    · rw [if_pos hk] at h; cases h
    · rw [if_neg hk] at h
      rw [erase_cons, if_neg hk, ih h]

theorem sumS_erase_getD {m : List (Nat × R)} (v : Nat) (σ : Nat → Rat) :
    sumS σ (erase m v) = sumS σ m - ((find m v).getD R.zero).toRat * σ v := by
  cases h : find m v with
  | none => rw [erase_of_find_none h]; simp [R.toRat_zero]
  | some d => rw [sumS_erase v σ h]; rfl

theorem find_erase_isSome {m : List (Nat × R)} (v w : Nat) (hs : Sorted m) :
    (find (erase m v) w).isSome = true ↔ w ≠ v ∧ (find m w).isSome = true := by
  rw [find_erase v w hs]
  by_cases hw : w = v
  · simp [hw]
  · simp [hw]

theorem find_mapC_isSome (f : R → R) (m : List (Nat × R)) (v : Nat) :
    (find (mapC f m) v).isSome = (find m v).isSome := by
  rw [find_mapC]; simp

theorem addTerm_keys {m : List (Nat × R)} {t : Nat × R} (hs : Sorted m) {v : Nat}
    (h : (find (addTerm m t) v).isSome = true) : (find m v).isSome = true ∨ v = t.1 := by
  by_cases hv : v = t.1
  · exact Or.inr hv
  left
  unfold addTerm at h
  cases hf : find m t.1 with
  | none =>
    rw [hf] at h
    simp only at h
    rw [find_insert _ _ hf, if_neg hv] at h
    exact h
  | some c =>
    rw [hf] at h
    simp only at h
    split at h
    · rw [find_erase _ _ hs, if_neg hv] at h
      exact h
    · rw [find_set _ _ _ hf, if_neg hv] at h
      exact h

theorem foldl_addTerm_keys (r : List (Nat × R)) : ∀ m : List (Nat × R), Sorted m → CoefWF m → CoefWF r →
    ∀ v, (find (r.foldl addTerm m) v).isSome = true → (find m v).isSome = true ∨ (find r v).isSome = true := by
  induction r with
  | nil => intro m _ _ _ v h; exact Or.inl h
  | cons a t ih =>
    intro m hs hw hwr v h
    obtain ⟨k, c⟩ := a
    obtain ⟨h1, h2, -, -⟩ := addTerm_spec (t := (k, c)) hs hw (coefWF_cons.1 hwr).1
    rw [List.foldl_cons] at h
    rcases ih _ h1 h2 (coefWF_cons.1 hwr).2 v h with h | h
    · rcases addTerm_keys hs h with h | h
      · exact Or.inl h
      · right
        rw [find_cons, if_pos h.symm]; rfl
    · right
      rw [find_cons]
      by_cases hk : k = v
      · rw [if_pos hk]; rfl
      · rw [if_neg hk]; exact h

end Lin

namespace Lra

/-! ### ascending sets of rows -/

theorem mem_setInsert {x y : Nat} {l : List Nat} : y ∈ setInsert x l ↔ y = x ∨ y ∈ l := by
  induction l with
  | nil => simp [setInsert]
  | cons a t ih =>
    unfold setInsert
    by_cases h1 : x < a
    · rw [if_pos h1]; simp
    · rw [if_neg h1]
      by_cases h2 : x = a
      · subst h2
        simp
      · rw [if_neg (by simpa using h2)]
        simp only [List.mem_cons, ih]
        tauto

theorem sorted_setInsert {x : Nat} {l : List Nat} (h : l.Pairwise (· < ·)) :
    (setInsert x l).Pairwise (· < ·) := by
  induction l with
  | nil => simp [setInsert]
  | cons a t ih =>
    unfold setInsert
    by_cases h1 : x < a
    · rw [if_pos h1]
      refine List.pairwise_cons.2 ⟨?_, h⟩
      intro y hy
      rcases List.mem_cons.1 hy with rfl | hy
      · exact h1
      · exact Nat.lt_trans h1 ((List.pairwise_cons.1 h).1 y hy)
    · rw [if_neg h1]
      by_cases h2 : x = a
      · subst h2
        simpa using h
      · rw [if_neg (by simpa using h2)]
        refine List.pairwise_cons.2 ⟨?_, ih (List.pairwise_cons.1 h).2⟩
        intro y hy
        rcases mem_setInsert.1 hy with rfl | hy
        · omega
        · exact (List.pairwise_cons.1 h).1 y hy

theorem mem_setErase {x y : Nat} {l : List Nat} : y ∈ setErase x l ↔ y ∈ l ∧ y ≠ x := by
  simp [setErase]

theorem sorted_setErase {x : Nat} {l : List Nat} (h : l.Pairwise (· < ·)) :
    (setErase x l).Pairwise (· < ·) :=
  List.Pairwise.sublist List.filter_sublist h

theorem getD_set {α : Type} (l : List α) (i j : Nat) (x d : α) :
    (l.set i x).getD j d = if i = j ∧ i < l.length then x else l.getD j d := by
  by_cases h : i = j
  · subst h
    by_cases hl : i < l.length
    · rw [getD_set_self _ _ _ _ hl, if_pos ⟨rfl, hl⟩]
    · rw [if_neg (fun h => hl h.2)]
      simp [List.getD_eq_getElem?_getD, hl]
  · rw [getD_set_ne _ _ _ _ _ h, if_neg (fun h' => h h'.1)]

theorem forall_mem_set {α : Type} {P : α → Prop} {l : List α} {i : Nat} {x : α}
    (h : ∀ w ∈ l, P w) (hx : P x) : ∀ w ∈ l.set i x, P w := by
  intro w hw
  rcases List.mem_or_eq_of_mem_set hw with hw | rfl
  · exact h w hw
  · exact hx

theorem getD_sorted {tw : List (List Nat)} (h : ∀ w ∈ tw, w.Pairwise (· < ·)) (v : Nat) :
    (tw.getD v []).Pairwise (· < ·) := by
  by_cases hv : v < tw.length
  · have : tw.getD v [] = tw[v] := by simp [List.getD_eq_getElem?_getD, hv]
    rw [this]
    exact h _ (List.getElem_mem hv)
  · have : tw.getD v [] = [] := by simp [List.getD_eq_getElem?_getD, Nat.le_of_not_lt hv]
    rw [this]
    exact List.Pairwise.nil

end Lra
end Oratio
