/-
Lemmas for property C11 (semantic version), part 5: "no zero coefficient" is an invariant.  The operators of
`lin` used by `newRel` (`-`, `+=`, `* c` with `c ≠ 0`) create no zero coefficient, so the rewritten difference
of two expressions without zero coefficients over a tableau whose rows have none has none, and the row created
for it has none.
-/
import OratioModel
import OratioProofs.Lemmas.LraRelSemBounds

namespace Oratio
namespace Lra
open Lin

/-- no zero coefficient, on the association list -/
def NZ_s (m : List (Nat × R)) : Prop := ∀ p ∈ m, p.2.num ≠ 0

/-- no row of the tableau has a zero coefficient -/
def RowsNoZero (t : Lra) : Prop := ∀ e ∈ t.tableau, NoZero e.2

theorem num_ne_zero_of_not_eq_zero {c : R} (hc : R.FinWF c) (h : ¬ (R.eq c R.zero = true)) : c.num ≠ 0 := by
  intro hn
  apply h
  rw [R.wf_num_zero hc.1 hn, R.eq_eq_decide]
  exact decide_eq_true rfl

theorem addTerm_nz {m : List (Nat × R)} {t : Nat × R} (hw : CoefWF m) (hn : NZ_s m)
    (ht : R.FinWF t.2) (htn : t.2.num ≠ 0) : NZ_s (addTerm m t) := by
  unfold addTerm
  cases hf : find m t.1 with
  | none =>
    intro p hp
    rcases mem_insert hp with hp | hp
    · exact hn p hp
    · rw [hp]; exact htn
  | some c =>
    simp only
    split
    · intro p hp
      exact hn p (mem_erase hp)
    · rename_i hz
      intro p hp
      rcases mem_set hp with hp | hp
      · exact hn p hp
      · rw [hp]
        have hc : R.FinWF c := coefWF_find hw hf
        exact num_ne_zero_of_not_eq_zero (R.finWF_addAssign hc ht) hz

theorem foldl_addTerm_nz (r : List (Nat × R)) : ∀ m : List (Nat × R), Sorted m → CoefWF m → NZ_s m →
    CoefWF r → NZ_s r → NZ_s (r.foldl addTerm m) := by
  induction r with
  | nil => intro m _ _ hn _ _; exact hn
  | cons a r ih =>
    intro m hs hw hn hwr hnr
    obtain ⟨h1, h2, -, -⟩ := addTerm_spec (t := a) hs hw (coefWF_cons.1 hwr).1
    rw [List.foldl_cons]
    exact ih _ h1 h2 (addTerm_nz hw hn (coefWF_cons.1 hwr).1 (hnr a List.mem_cons_self))
      (coefWF_cons.1 hwr).2 (fun p hp => hnr p (List.mem_cons_of_mem _ hp))

/-- a term on another variable does not touch the entry of `w` -/
theorem find_addTerm_ne_s {m : List (Nat × R)} {t : Nat × R} (hs : Sorted m) {w : Nat} (hne : w ≠ t.1) :
    find (addTerm m t) w = find m w := by
  unfold addTerm
  cases hf : find m t.1 with
  | none => simp only; rw [find_insert _ _ hf, if_neg hne]
  | some c =>
    simp only
    split
    · rw [find_erase _ _ hs, if_neg hne]
    · rw [find_set _ _ _ hf, if_neg hne]

theorem find_foldl_addTerm_ne_s (r : List (Nat × R)) : ∀ m : List (Nat × R), Sorted m → CoefWF m → CoefWF r →
    ∀ w, (∀ p ∈ r, p.1 ≠ w) → find (r.foldl addTerm m) w = find m w := by
  induction r with
  | nil => intro m _ _ _ w _; rfl
  | cons a r ih =>
    intro m hs hw hwr w hne
    obtain ⟨h1, h2, -, -⟩ := addTerm_spec (t := a) hs hw (coefWF_cons.1 hwr).1
    rw [List.foldl_cons, ih _ h1 h2 (coefWF_cons.1 hwr).2 w (fun p hp => hne p (List.mem_cons_of_mem _ hp))]
    exact find_addTerm_ne_s hs (fun h => hne a List.mem_cons_self h.symm)

theorem mapC_nz {f : R → R} {m : List (Nat × R)} (hf : ∀ p ∈ m, (f p.2).num ≠ 0) : NZ_s (mapC f m) := by
  intro p hp
  obtain ⟨q, hq, rfl⟩ := List.mem_map.1 hp
  exact hf q hq

/-- `left - right` -/
theorem sub_nz {left right : Lin} (hl : left.WF) (hr : right.WF) (hnl : NoZero left) (hnr : NoZero right) :
    NoZero (Lin.sub left right) := by
  obtain ⟨hs, hw, -⟩ := (wf_iff left).1 hl
  obtain ⟨-, hw', -⟩ := (wf_iff right).1 hr
  show NZ_s (right.vars.foldl subTerm left.vars)
  rw [foldl_subTerm]
  exact foldl_addTerm_nz _ _ hs hw hnl (coefWF_mapC (fun c hc => R.finWF_neg hc) hw')
    (mapC_nz (fun p hp => by
      show -p.2.num ≠ 0
      have := hnr p hp
      omega))

theorem mulAssign_num_ne_zero {a c : R} (ha : R.FinWF a) (hc : R.FinWF c) (han : a.num ≠ 0) (hcn : c.num ≠ 0) :
    (R.mulAssign a c).num ≠ 0 := by
  intro hn
  have h0 : (R.mulAssign a c).toRat = 0 := by
    rw [R.wf_num_zero (R.finWF_mulAssign ha hc).1 hn]; exact R.toRat_zero
  rw [R.toRat_mulAssign ha hc] at h0
  rcases mul_eq_zero.1 h0 with h | h
  · exact toRat_ne_zero ha han h
  · exact toRat_ne_zero hc hcn h

/-- one step of `substBasic` on an expression in which the variable (if basic) still has its entry -/
theorem substStep_nz {t : Lra} (hi : Inv t) (hrz : RowsNoZero t) {e : Lin} (he : e.WF) (hn : NoZero e) {v : Nat}
    (hv : t.rowOf v ≠ none → (Lin.find e.vars v).isSome = true) :
    NoZero (substStep t e v) ∧
    ∀ w, w ≠ v → t.rowOf w ≠ none → (Lin.find e.vars w).isSome = true →
      (Lin.find (substStep t e v).vars w).isSome = true := by
  unfold substStep
  cases hr : t.rowOf v with
  | none => exact ⟨hn, fun w _ _ hw => hw⟩
  | some rl =>
    simp only
    obtain ⟨es, ew, -⟩ := (wf_iff e).1 he
    obtain ⟨c, hc⟩ := Option.isSome_iff_exists.1 (hv (by rw [hr]; exact Option.some_ne_none _))
    have hcf : R.FinWF c := coefWF_find ew hc
    have hcn : c.num ≠ 0 := hn (v, c) (find_mem hc)
    have hrl : rl.WF := hi.rows v rl hr
    obtain ⟨-, rw', -⟩ := (wf_iff rl).1 hrl
    have hrln : NoZero rl := hrz (v, rl) (tabFind_some_mem hr)
    have hmv : (Lin.mulR rl ((Lin.find e.vars v).getD R.zero)).vars = mapC (fun x => R.mulAssign x c) rl.vars := by
      rw [hc]; rfl
    have hmw : CoefWF (mapC (fun x => R.mulAssign x c) rl.vars) :=
      coefWF_mapC (fun x hx => R.finWF_mulAssign hx hcf) rw'
    constructor
    · show NZ_s ((Lin.mulR rl ((Lin.find e.vars v).getD R.zero)).vars.foldl addTerm (Lin.erase e.vars v))
      rw [hmv]
      exact foldl_addTerm_nz _ _ (sorted_erase _ es) (coefWF_erase ew) (fun p hp => hn p (mem_erase hp)) hmw
        (mapC_nz (fun p hp => mulAssign_num_ne_zero (rw' p hp) hcf (hrln p hp) hcn))
    · intro w hwv hwb hw
      show (Lin.find ((Lin.mulR rl ((Lin.find e.vars v).getD R.zero)).vars.foldl addTerm (Lin.erase e.vars v)) w).isSome = true
      rw [hmv, find_foldl_addTerm_ne_s _ _ (sorted_erase _ es) (coefWF_erase ew) hmw w ?_, find_erase _ _ es,
        if_neg hwv]
      · exact hw
      · intro p hp hpw
        obtain ⟨q, hq, rfl⟩ := List.mem_map.1 hp
        have hq' : (Lin.find rl.vars w).isSome = true := find_isSome_iff.2 ⟨q.2, by
          have : q = (w, q.2) := Prod.ext hpw rfl
          rw [← this]; exact hq⟩
        exact hwb (hi.nonbasic v rl w hr hq')

theorem substFold_nz {t : Lra} (hi : Inv t) (hrz : RowsNoZero t) : ∀ (ks : List Nat) (e : Lin), e.WF → NoZero e →
    ks.Nodup → (∀ v ∈ ks, t.rowOf v ≠ none → (Lin.find e.vars v).isSome = true) →
    NoZero (ks.foldl (substStep t) e) := by
  intro ks
  induction ks with
  | nil => intro e _ hn _ _; exact hn
  | cons v ks ih =>
    intro e he hn hnd hk
    obtain ⟨s1, -, -⟩ := substStep_spec hi.rows he v
    obtain ⟨n1, n2⟩ := substStep_nz hi hrz he hn (hk v List.mem_cons_self)
    rw [List.foldl_cons]
    apply ih _ s1 n1 (List.nodup_cons.1 hnd).2
    intro w hw hwb
    have hwv : w ≠ v := fun h => (List.nodup_cons.1 hnd).1 (h ▸ hw)
    exact n2 w hwv hwb (hk w (List.mem_cons_of_mem _ hw) hwb)

theorem substBasic_nz {t : Lra} (ht : TabWF t) (hrz : RowsNoZero t) {l : Lin} (hl : l.WF) (hn : NoZero l) :
    NoZero (substBasic t l) := by
  obtain ⟨hi, -⟩ := (tabWF_iff t).1 ht
  obtain ⟨ls, -, -⟩ := (wf_iff l).1 hl
  rw [substBasic_eq]
  apply substFold_nz hi hrz _ l hl hn
  · have := (sorted_iff_keys l.vars).1 ls
    exact List.Pairwise.imp (fun h => Nat.ne_of_lt h) this
  · intro v hv _
    obtain ⟨p, hp, rfl⟩ := List.mem_map.1 hv
    exact find_isSome_iff.2 ⟨p.2, hp⟩

/-- the rewritten difference of `newRel` has no zero coefficient -/
theorem relE_nz {t : Lra} (ht : TabWF t) (hrz : RowsNoZero t) {left right : Lin} (hl : left.WF) (hr : right.WF)
    (hnl : NoZero left) (hnr : NoZero right) : NoZero (relE t left right) :=
  substBasic_nz ht hrz (Lin.sub_spec left right hl hr).1 (sub_nz hl hr hnl hnr)

theorem RowsNoZero.init : RowsNoZero Lra.init := fun _ he => absurd he List.not_mem_nil

theorem RowsNoZero.newVar {t : Lra} (h : RowsNoZero t) : RowsNoZero t.newVar.2 := h

theorem RowsNoZero.newVarLin {s : Sat} {t : Lra} (ht : TabWF t) (hrz : RowsNoZero t) {l : Lin} (hl : l.WF)
    (hnz : NoZero (substBasic t l)) (hlv : ∀ p ∈ l.vars, p.1 < t.vals.length) {slack : Nat} {t1 : Lra}
    (h : newVarLin s t l = some (slack, t1)) : RowsNoZero t1 := by
  rcases newVarLin_sound ht hl hlv h with ⟨h1, -, -⟩ | ⟨-, -, -, h4, -, -⟩
  · intro e he; exact hrz e (h1 ▸ he)
  · intro e he
    rcases (h4 e).1 he with he | he
    · exact hrz e he
    · rw [he]; exact hnz

/-- `newRel` keeps the rows free of zero coefficients -/
theorem RowsNoZero.newRel {s : Sat} {t : Lra} {r : LRel} {left right : Lin} {l : Lit} {s' : Sat} {t' : Lra}
    {b : Option Nat} (ht : TabWF t) (hrz : RowsNoZero t) (hl : left.WF) (hr : right.WF)
    (hnl : NoZero left) (hnr : NoZero right)
    (hlv : ∀ p ∈ left.vars, p.1 < t.vals.length) (hrv : ∀ p ∈ right.vars, p.1 < t.vals.length)
    (h : newRel s t r left right = some (l, s', t', b)) : RowsNoZero t' := by
  obtain ⟨e1, e2, -, -⟩ := relE_spec ht hl hr hlv hrv
  have hnz : NoZero (substBasic t (relE t left right)) := by
    rw [relE_subst_id ht hl hr]; exact relE_nz ht hrz hl hr hnl hnr
  cases newRel_outcome h with
  | decidedExpr h0 hs' ht' hb => subst ht'; exact hrz
  | decidedSlack slack h0 hv h1 hs' hb => exact hrz.newVarLin ht e1 hnz e2 hv
  | cached slack h0 hv h1 hf hs' hb => exact hrz.newVarLin ht e1 hnz e2 hv
  | fresh slack t1 h0 hv h1 hf hl' hs' ht' hb =>
    subst ht'
    exact RowsNoZero.newVarLin (t1 := t1) ht hrz e1 hnz e2 hv

end Lra
end Oratio
