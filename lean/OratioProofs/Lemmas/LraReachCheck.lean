/-
Helper lemmas for `Properties/C09Reach.lean`, part 6: `pivot_and_update` and `check` keep the
invariant `Lra.GoodState`.
-/
import OratioModel
import OratioProofs.Lemmas.LraReachPau
import OratioProofs.Lemmas.LraReachPivot

namespace Oratio
namespace Lra
open Lin

/-! ### values -/

theorem value_fin_of_vals {t : Lra} (h : ∀ v ∈ t.vals, FinIR v) (x : Nat) : FinIR (t.value x) := by
  unfold value
  by_cases hx : x < t.vals.length
  · rw [List.getD_eq_getElem?_getD, List.getElem?_eq_getElem hx]
    exact h _ (List.getElem_mem hx)
  · rw [List.getD_eq_getElem?_getD, List.getElem?_eq_none (Nat.le_of_not_lt hx)]
    exact finIR_zero

theorem vals_fin_of_value {t : Lra} (h : ∀ x, FinIR (t.value x)) : ∀ v ∈ t.vals, FinIR v := by
  intro v hv
  obtain ⟨i, hi, rfl⟩ := List.getElem_of_mem hv
  have := h i
  unfold value at this
  rw [List.getD_eq_getElem?_getD, List.getElem?_eq_getElem hi] at this
  exact this

theorem value_congr_r {t u : Lra} (h : u.vals = t.vals) (x : Nat) : u.value x = t.value x := by
  unfold value; rw [h]

theorem lb_congr_r {t u : Lra} (h : u.bounds = t.bounds) (x : Nat) : u.lb x = t.lb x := by
  unfold lb bnd; rw [h]
theorem ub_congr_r {t u : Lra} (h : u.bounds = t.bounds) (x : Nat) : u.ub x = t.ub x := by
  unfold ub bnd; rw [h]

theorem inB_congr {t u : Lra} (hb : u.bounds = t.bounds) {x : Nat} (hv : u.value x = t.value x) (h : InB t x) :
    InB u x := by
  unfold InB
  rw [hv, lb_congr_r hb, ub_congr_r hb]
  exact h

/-! ### rational and infinitesimal parts together -/

theorem sumS_add_r (σ τ : Nat → Rat) (m : List (Nat × R)) :
    sumS (fun x => σ x + τ x) m = sumS σ m + sumS τ m := by
  induction m with
  | nil => simp
  | cons a m ih =>
    obtain ⟨k, c⟩ := a
    simp only [sumS_cons, ih]
    ring

theorem evalS_add (l : Lin) (σ τ : Nat → Rat) :
    Lin.evalS l (fun x => σ x + τ x) = Lin.evalS l σ + Lin.evalS { l with known := R.zero } τ := by
  rw [evalS_eq, evalS_eq, evalS_eq, sumS_add_r]
  show _ = _ + (sumS τ l.vars + R.zero.toRat)
  rw [R.toRat_zero]
  ring

/-- given that `σ` satisfies the rows, `τ` satisfies the rows without their known terms iff
    `σ + τ` satisfies the rows -/
theorem rows_sum_iff {m : List (Nat × Lin)} {σ τ : Nat → Rat} (hσ : ∀ e ∈ m, σ e.1 = Lin.evalS e.2 σ) :
    (∀ e ∈ m, τ e.1 = Lin.evalS { e.2 with known := R.zero } τ) ↔
      (∀ e ∈ m, (fun x => σ x + τ x) e.1 = Lin.evalS e.2 (fun x => σ x + τ x)) := by
  constructor
  · intro h e he
    rw [evalS_add]
    show σ e.1 + τ e.1 = _
    rw [hσ e he, h e he]
  · intro h e he
    have := h e he
    rw [evalS_add] at this
    have h2 : σ e.1 + τ e.1 = Lin.evalS e.2 σ + Lin.evalS { e.2 with known := R.zero } τ := this
    rw [hσ e he] at h2
    linarith

/-! ### the basic variables after a pivot -/

theorem mem_keys_tabInsert {m : List (Nat × Lin)} {k : Nat} {l : Lin} {x : Nat}
    (h : x = k ∨ x ∈ m.map Prod.fst) : x ∈ (tabInsert m k l).map Prod.fst := by
  induction m with
  | nil =>
    rcases h with h | h
    · simp [tabInsert, h]
    · cases h
  | cons a rest ih =>
    unfold tabInsert
    split
    · rcases h with h | h
      · simp [h]
      · simp only [List.map_cons, List.mem_cons] at h ⊢
        exact Or.inr h
    · split
      · next hk =>
        rcases h with h | h
        · have : k = a.1 := by simpa using hk
          simp [h, this]
        · exact h
      · simp only [List.map_cons, List.mem_cons] at h ⊢
        rcases h with h | h | h
        · exact Or.inr (ih (Or.inl h))
        · exact Or.inl h
        · exact Or.inr (ih (Or.inr h))

theorem pivotRow_keys (t : Lra) (xj : Nat) (ex : Lin) (r : Nat) :
    (pivotRow t xj ex r).tableau.map Prod.fst = t.tableau.map Prod.fst := by
  rw [pivotRow_eq]
  simp only [pivStep_fold]
  exact keys_mapset _ _ _

theorem pivot_keys_mem (t : Lra) (xi xj : Nat) {x : Nat}
    (h : x = xj ∨ (x ∈ t.tableau.map Prod.fst ∧ x ≠ xi)) : x ∈ (t.pivot xi xj).tableau.map Prod.fst := by
  unfold pivot
  simp only [newRow_tableau]
  apply mem_keys_tabInsert
  rcases h with h | ⟨h1, h2⟩
  · exact Or.inl h
  · right
    refine C09_foldl_inv (fun (u : Lra) => x ∈ u.tableau.map Prod.fst) _
      (fun u r hu => by rw [pivotRow_keys]; exact hu) _ _ ?_
    show x ∈ (List.foldl (fun t e => unwatchRow t e.1 xi)
      { t with tableau := t.tableau.filter (fun e => e.1 != xi) }
      ((t.rowOf xi).getD Lin.empty).vars).tableau.map Prod.fst
    refine C09_foldl_inv (fun (u : Lra) => x ∈ u.tableau.map Prod.fst)
      (fun (u : Lra) (e : Nat × R) => unwatchRow u e.1 xi) (fun _ _ hu => hu) _ _ ?_
    obtain ⟨e, he, rfl⟩ := List.mem_map.1 h1
    exact List.mem_map.2 ⟨e, List.mem_filter.2 ⟨he, by simpa using h2⟩, rfl⟩

theorem isBasic_iff_keys (t : Lra) (x : Nat) : t.isBasic x = true ↔ x ∈ t.tableau.map Prod.fst := by
  unfold isBasic
  rw [rowOf_eq]
  constructor
  · intro h
    obtain ⟨l, hl⟩ := Option.isSome_iff_exists.1 h
    exact List.mem_map.2 ⟨(x, l), tabFind_some_mem hl, rfl⟩
  · intro h
    cases hf : tabFind t.tableau x with
    | some l => rfl
    | none =>
      obtain ⟨e, he, hx⟩ := List.mem_map.1 h
      exact absurd hx (tabFind_none_iff.1 hf e he)

/-! ### `pivot_and_update` -/

theorem pau_good {t : Lra} (g : GoodState t) {xi xj : Nat} {l : Lin} (hl : t.rowOf xi = some l) {aij : R}
    (hcf : Lin.find l.vars xj = some aij) {v : IR} (hv : FinIR v)
    (hvb : IR.lt v (t.lb xi) = false ∧ IR.gt v (t.ub xi) = false) :
    GoodState (t.pivotAndUpdate xi xj v) := by
  have hln : NZ l.vars := g.nz (xi, l) (tabFind_some_mem hl)
  have hn : aij.num ≠ 0 := nz_find hln hcf
  have hfin := value_fin_of_vals g.vfin
  obtain ⟨r1, r2, r3, r4, r5, r6, r7⟩ := pau_holds isComp_rat isCompDiv_rat g.tab hl hcf hn (fun x => (hfin x).1)
    (v := v) hv.1 (fun _ => 0) (fun e he => by rw [sub_zero]; exact g.rowsRat e he)
  obtain ⟨-, -, -, -, -, i6, i7⟩ := pau_holds isComp_inf isCompDiv_inf g.tab hl hcf hn (fun x => (hfin x).2)
    (v := v) hv.2 (fun l => l.known.toRat) (fun e he => by rw [← evalS_homog]; exact g.rowsInf e he)
  have hu : TabWF (pauPre t xi xj v) := tabWF_congr r1 r2 r3 g.tab
  have hlu : (pauPre t xi xj v).rowOf xi = some l := by rw [rowOf_eq, r1, ← rowOf_eq]; exact hl
  have hxj' : (l.coeff xj).num ≠ 0 := by
    unfold Lin.coeff; rw [hcf]; exact hn
  obtain ⟨hiu, -⟩ := (tabWF_iff _).1 hu
  have hnzu : RowsNZ (pauPre t xi xj v) := by
    intro e he; rw [r1] at he; exact g.nz e he
  rw [pivotAndUpdate_def]
  have hvals : ((pauPre t xi xj v).pivot xi xj).vals = (pauPre t xi xj v).vals := (pivot_vals_bounds _ _ _).1
  have hcore := (C09_core_iff t (t.pivotAndUpdate xi xj v)).1 (C09_core_pivotAndUpdate t xi xj v)
  rw [pivotAndUpdate_def] at hcore
  obtain ⟨hb, hva, hly, hex, -⟩ := hcore
  have hlen : ((pauPre t xi xj v).pivot xi xj).vals.length = t.vals.length := by rw [hvals, r3]
  have hrat : ((pauPre t xi xj v).pivot xi xj).ratAssign = (pauPre t xi xj v).ratAssign := by
    funext x; unfold ratAssign; rw [value_congr_r hvals]
  have hinf : ((pauPre t xi xj v).pivot xi xj).infAssign = (pauPre t xi xj v).infAssign := by
    funext x; unfold infAssign; rw [value_congr_r hvals]
  have hrowsR : ∀ e ∈ (pauPre t xi xj v).tableau,
      (pauPre t xi xj v).ratAssign e.1 = Lin.evalS e.2 (pauPre t xi xj v).ratAssign := by
    intro e he
    have := r7 e he
    rw [sub_zero] at this
    exact this
  have hrowsI : ∀ e ∈ (pauPre t xi xj v).tableau,
      (pauPre t xi xj v).infAssign e.1 = Lin.evalS { e.2 with known := R.zero } (pauPre t xi xj v).infAssign := by
    intro e he
    rw [evalS_homog]
    exact i7 e he
  have hrowsR' := (pivot_holds hu hlu hxj' (pauPre t xi xj v).ratAssign).1 hrowsR
  refine ⟨⟨tabWF_pivot hu hlu hxj', nz_pivot hiu hnzu hlu hcf, ?_, ?_, ?_, by rw [hb, hlen]; exact g.blen, ?_, ?_, ?_,
    by rw [hex, hlen]; exact g.exprs⟩, ?_⟩
  · apply vals_fin_of_value
    intro x
    rw [value_congr_r hvals]
    exact ⟨r6 x, i6 x⟩
  · rw [hrat]; exact hrowsR'
  · rw [hinf]
    apply (rows_sum_iff hrowsR').2
    exact (pivot_holds hu hlu hxj' (fun x => (pauPre t xi xj v).ratAssign x + (pauPre t xi xj v).infAssign x)).1
      ((rows_sum_iff hrowsR).1 hrowsI)
  · intro x hx
    rw [lb_congr_r hb, ub_congr_r hb]
    exact g.bwf x (hlen ▸ hx)
  · intro e he
    rw [hva] at he
    rw [hlen]
    exact g.asrts e he
  · rw [hb, hly]; exact g.lay
  · intro x hx hnb
    rw [hlen] at hx
    by_cases hxi : x = xi
    · subst hxi
      unfold InB
      rw [value_congr_r hvals, r4, lb_congr_r hb, ub_congr_r hb]
      exact hvb
    · have hold : t.isBasic x = false ∧ x ≠ xj := by
        by_contra hcon
        have hmem : x ∈ ((pauPre t xi xj v).pivot xi xj).tableau.map Prod.fst := by
          apply pivot_keys_mem
          by_cases hxj : x = xj
          · exact Or.inl hxj
          · right
            refine ⟨?_, hxi⟩
            rw [r1, ← isBasic_iff_keys]
            cases hbx : t.isBasic x
            · exact absurd ⟨hbx, hxj⟩ hcon
            · rfl
        rw [← isBasic_iff_keys, hnb] at hmem
        cases hmem
      refine inB_congr hb ?_ (g.nbin x hx hold.1)
      rw [value_congr_r hvals]
      exact r5 x ((isBasic_false_iff t x).1 hold.1) hold.2

/-! ### `check` -/

theorem check_good (fuel : Nat) : ∀ (t t' : Lra) (c : Option (List Lit)), GoodState t →
    t.check fuel = some (c, t') → GoodState t' := by
  induction fuel with
  | zero => intro t t' c _ h; simp [check] at h
  | succ n ih =>
    intro t t' c g h
    have ht := g.tab
    simp only [check] at h
    split at h
    · simp only [Option.some.injEq, Prod.mk.injEq] at h
      rw [← h.2]
      exact g
    · next xi fl hf =>
      have hmem := List.mem_of_find?_eq_some hf
      have hrow : t.rowOf xi = some fl := tabFind_of_mem ht.keys hmem
      have hs : Sorted fl.vars := ((wf_iff fl).1 (ht.rows _ hmem)).1
      have hxi : xi < t.vals.length := ht.wlen ▸ (ht.bound _ hmem).1
      obtain ⟨hlo, hup, hle⟩ := g.bwf xi hxi
      have hvfin := value_fin_of_vals g.vfin xi
      have hlu : IR.lt (t.ub xi) (t.lb xi) = false := IR.not_lt_of_le hup.wf hlo.wf hle
      split at h
      · next hlt =>
        split at h
        · next xj cj hq =>
          have hcf : Lin.find fl.vars xj = some cj := find_of_mem hs (List.mem_of_find?_eq_some hq)
          have hv : FinIR (t.lb xi) := lower_fin_of_lt hvfin hlo hlt
          refine ih _ _ _ (pau_good g hrow hcf hv ⟨IR.not_lt_of_le hlo.wf hlo.wf (IR.le_refl' hlo.wf), ?_⟩) h
          rw [IR.gt_eq_lt_r]
          exact hlu
        · simp only [Option.some.injEq, Prod.mk.injEq] at h
          rw [← h.2]
          exact g
      · split at h
        · next hgt =>
          split at h
          · next xj cj hq =>
            have hcf : Lin.find fl.vars xj = some cj := find_of_mem hs (List.mem_of_find?_eq_some hq)
            have hv : FinIR (t.ub xi) := upper_fin_of_gt hvfin hup hgt
            refine ih _ _ _ (pau_good g hrow hcf hv ⟨hlu, ?_⟩) h
            rw [IR.gt_eq_lt_r]
            exact IR.not_lt_of_le hup.wf hup.wf (IR.le_refl' hup.wf)
          · simp only [Option.some.injEq, Prod.mk.injEq] at h
            rw [← h.2]
            exact g
        · exact ih _ _ _ g h

end Lra
end Oratio
