/-
Helper lemmas for `Properties/C09Reach.lean`, part 11: the two corollaries for reachable states
(the values after a successful `check`; `update` without side hypotheses), in the vocabulary of
Properties/C09.lean (`Lra.inBounds`, `C09_check_success_in_bounds`).
-/
import OratioModel
import OratioProofs.Properties.C09
import OratioProofs.Lemmas.LraReachMain

namespace Oratio
namespace Lra

theorem values_are_a_model (ops : List LraOp) (hv : ValidRun (Sat.init, Lra.init) ops)
    (fuel : Nat) (t' : Lra) (h : (run (Sat.init, Lra.init) ops).2.check fuel = some (none, t')) :
    (∀ x, x < t'.vals.length → t'.inBounds x) ∧
    (∀ v ∈ t'.vals, FinIR v) ∧
    (∀ e ∈ t'.tableau, t'.ratAssign e.1 = Lin.evalS e.2 t'.ratAssign) ∧
    (∀ e ∈ t'.tableau, t'.infAssign e.1 = Lin.evalS { e.2 with known := R.zero } t'.infAssign) ∧
    (∀ e ∈ t'.vAsrts,
      (e.2.o = .leq → t'.bnd (ubIdx e.2.x) = ⟨e.2.v, e.2.b⟩ → IR.le (t'.value e.2.x) e.2.v = true) ∧
      (e.2.o = .geq → t'.bnd (lbIdx e.2.x) = ⟨e.2.v, e.2.b⟩ → IR.ge (t'.value e.2.x) e.2.v = true) ∧
      (e.2.o = .leq → t'.bnd (lbIdx e.2.x) = ⟨IR.add e.2.v ⟨R.zero, R.one⟩, e.2.b.neg⟩ →
        IR.ge (t'.value e.2.x) (IR.add e.2.v ⟨R.zero, R.one⟩) = true) ∧
      (e.2.o = .geq → t'.bnd (ubIdx e.2.x) = ⟨IR.sub e.2.v ⟨R.zero, R.one⟩, e.2.b.neg⟩ →
        IR.le (t'.value e.2.x) (IR.sub e.2.v ⟨R.zero, R.one⟩) = true)) := by
  have g := run_good ops _ init_good hv
  have g' := check_good fuel _ _ _ g h
  have hin : ∀ x, x < t'.vals.length → t'.inBounds x := by
    intro x hx
    cases hb : t'.isBasic x
    · exact g'.nbin x hx hb
    · obtain ⟨e, he, hk⟩ := List.mem_map.1 ((isBasic_iff_keys t' x).1 hb)
      rw [← hk]
      exact C09_check_success_in_bounds _ _ _ h e he
  refine ⟨hin, g'.vfin, g'.rowsRat, g'.rowsInf, ?_⟩
  intro e he
  obtain ⟨hx, hvf⟩ := g'.asrts e he
  obtain ⟨hlo, hup, -⟩ := g'.bwf e.2.x hx
  have hval := (value_fin_of_vals g'.vfin e.2.x).wf
  obtain ⟨n1, n2⟩ := hin e.2.x hx
  rw [IR.gt_eq_lt_r] at n2
  have c1 : IR.le (t'.lb e.2.x) (t'.value e.2.x) = true := IR.le_of_not_lt hval hlo.wf n1
  have c2 : IR.le (t'.value e.2.x) (t'.ub e.2.x) = true := IR.le_of_not_lt hup.wf hval n2
  refine ⟨fun _ hb => ?_, fun _ hb => ?_, fun _ hb => ?_, fun _ hb => ?_⟩
  · have : t'.ub e.2.x = e.2.v := by unfold ub; rw [hb]
    rw [← this]; exact c2
  · have : t'.lb e.2.x = e.2.v := by unfold lb; rw [hb]
    rw [IR.ge_eq_le_r, ← this]; exact c1
  · have : t'.lb e.2.x = IR.add e.2.v ⟨R.zero, R.one⟩ := by unfold lb; rw [hb]
    rw [IR.ge_eq_le_r, ← this]; exact c1
  · have : t'.ub e.2.x = IR.sub e.2.v ⟨R.zero, R.one⟩ := by unfold ub; rw [hb]
    rw [← this]; exact c2

theorem update_hyp_discharged (ops : List LraOp) (hv : ValidRun (Sat.init, Lra.init) ops)
    (xi : Nat) (v : IR) :
    let t := (run (Sat.init, Lra.init) ops).2
    t.isBasic xi = false → xi < t.vals.length → (v.rat.WF ∧ v.rat.den ≠ 0) → (v.inf.WF ∧ v.inf.den ≠ 0) →
    (∀ e ∈ (t.update xi v).tableau, (t.update xi v).ratAssign e.1 = Lin.evalS e.2 (t.update xi v).ratAssign) ∧
    (∀ e ∈ (t.update xi v).tableau,
      (t.update xi v).infAssign e.1 = Lin.evalS { e.2 with known := R.zero } (t.update xi v).infAssign) ∧
    TabWF (t.update xi v) ∧ (t.update xi v).tableau = t.tableau ∧
    (t.update xi v).value xi = v ∧
    (∀ x, t.isBasic x = false → x ≠ xi → (t.update xi v).value x = t.value x) ∧
    (∀ x, FinIR ((t.update xi v).value x)) := by
  intro t hnb hxi hvr hvi
  have g : GoodState t := run_good ops _ init_good hv
  obtain ⟨u1, u2, u3, u4, -, -⟩ := g.toGoodCore.update hnb hxi (v := v) ⟨hvr, hvi⟩
  exact ⟨u1.rowsRat, u1.rowsInf, u1.tab, u4, u2, u3, value_fin_of_vals u1.vfin⟩

end Lra
end Oratio
