/-
Definitions for `Properties/C09Reach.lean`: the public API of the LRA model as a type of
operations (`LraOp`), the step function that runs them (`Lra.step`), the side conditions of the
operations (`Lra.ValidOp`) and the invariant of every reachable state (`Lra.GoodState`).
-/
import OratioModel
import OratioProofs.Lemmas.LraBridgeFinal

namespace Oratio

/-- the public API of `lra_theory` as the harness drives it.  `satMove s'` stands for anything the
    SAT core does between two theory calls (decisions, propagation, backjumps): the SAT state is
    replaced by an arbitrary one. -/
inductive LraOp where
  | newVar
  | newVarLin (l : Lin)
  | newRel (r : LRel) (left right : Lin)
  | newEq (left right : Lin)
  | setLb (x : Nat) (v : IR) (p : Lit)
  | setUb (x : Nat) (v : IR) (p : Lit)
  | setEq (x : Nat) (v : IR) (p : Lit)
  | propagateLit (p : Lit)
  | check (fuel : Nat)
  | push
  | pop
  | satMove (s' : Sat)

namespace Lra

/-- one operation on (SAT core, LRA theory).  When the model returns `none` (an assertion of the
    C++ fails / out of fuel) the driver keeps the state; on a conflict the state is the one the
    model leaves (all the changes made before the conflict was found stay in place). -/
def step (st : Sat × Lra) : LraOp → Sat × Lra
  | .newVar => (st.1, st.2.newVar.2)
  | .newVarLin l =>
    match Lra.newVarLin st.1 st.2 l with
    | some (_, t) => (st.1, t)
    | none => st
  | .newRel r a b =>
    match Lra.newRel st.1 st.2 r a b with
    | some (_, s, t, _) => (s, t)
    | none => st
  | .newEq a b =>
    match Lra.newEq st.1 st.2 a b with
    | some (_, s, t, _) => (s, t)
    | none => st
  | .setLb x v p => ((Lra.setLb st.1 st.2 x v p).sat, (Lra.setLb st.1 st.2 x v p).th)
  | .setUb x v p => ((Lra.setUb st.1 st.2 x v p).sat, (Lra.setUb st.1 st.2 x v p).th)
  | .setEq x v p => ((Lra.setEq st.1 st.2 x v p).sat, (Lra.setEq st.1 st.2 x v p).th)
  | .propagateLit p => ((Lra.propagateLit st.1 st.2 p).sat, (Lra.propagateLit st.1 st.2 p).th)
  | .check fuel =>
    match st.2.check fuel with
    | some (_, t) => (st.1, t)
    | none => st
  | .push => (st.1, st.2.push)
  | .pop => (st.1, st.2.pop)
  | .satMove s' => (s', st.2)

/-- `run st ops`: the operations one after the other -/
def run (st : Sat × Lra) (ops : List LraOp) : Sat × Lra := ops.foldl step st

/-- an expression the harness may pass: canonical (`Lin.WF`: sorted, every coefficient and the known
    term canonical and finite), over existing variables, no zero coefficient (`linOk` of
    OratioModel/Driver/Net.lean; the C++ `assert`s on `0 * inf` otherwise) -/
def LinOK (t : Lra) (l : Lin) : Prop := l.WF ∧ ∀ p ∈ l.vars, p.1 < t.vals.length ∧ p.2.num ≠ 0

/-- the side conditions of the operations -/
def ValidOp (t : Lra) : LraOp → Prop
  | .newVarLin l => LinOK t l
  | .newRel _ a b => LinOK t a ∧ LinOK t b
  | .newEq a b => LinOK t a ∧ LinOK t b
  -- a lower bound is finite or `-inf`, an upper bound finite or `+inf`; the infinitesimal part is finite
  | .setLb x v _ => x < t.vals.length ∧ v.WF ∧ v.inf.den ≠ 0 ∧ v.rat ≠ R.pinf
  | .setUb x v _ => x < t.vals.length ∧ v.WF ∧ v.inf.den ≠ 0 ∧ v.rat ≠ R.ninf
  | .setEq x v _ => x < t.vals.length ∧ v.WF ∧ v.inf.den ≠ 0 ∧ v.rat.den ≠ 0
  | _ => True

/-- every operation of the list is valid in the state in which it is run -/
def ValidRun (st : Sat × Lra) : List LraOp → Prop
  | [] => True
  | op :: ops => ValidOp st.2 op ∧ ValidRun (step st op) ops

/-! ### the invariant -/

/-- a finite canonical eps-rational -/
def FinIR (a : IR) : Prop := R.FinWF a.rat ∧ R.FinWF a.inf

/-- a bound value that is not the infinity `bad`: canonical, finite infinitesimal part -/
def OKs (bad : R) (a : IR) : Prop := a.rat.WF ∧ a.rat ≠ bad ∧ R.FinWF a.inf
/-- a lower bound is never `+inf`, an upper bound never `-inf` -/
abbrev LowerOK (a : IR) : Prop := OKs R.pinf a
abbrev UpperOK (a : IR) : Prop := OKs R.ninf a

/-- entry `i` of `c_bounds` is a lower bound for even `i`, an upper bound for odd `i` -/
def BoundOK (i : Nat) (a : IR) : Prop := if i % 2 = 0 then LowerOK a else UpperOK a

/-- `old` is at least as loose as `cur`, as entry `i` of `c_bounds` -/
def Looser (i : Nat) (old cur : IR) : Prop := if i % 2 = 0 then IR.le old cur = true else IR.le cur old = true

/-- `pop()` on `c_bounds` -/
def restoreB (bs : List LBound) (l : List (Nat × LBound)) : List LBound := l.foldl (fun bs e => bs.set e.1 e.2) bs

def bndD : LBound := ⟨IR.ofR R.zero, Lit.trueLit⟩

/-- every saved bound is a bound of the right kind, at least as loose as the bound it will replace
    when its layer is popped -/
def LayersOK : List LBound → List (List (Nat × LBound)) → Prop
  | _, [] => True
  | bs, l :: ls =>
    (∀ e ∈ l, e.1 < bs.length ∧ BoundOK e.1 e.2.value ∧ Looser e.1 e.2.value (bs.getD e.1 bndD).value) ∧
    LayersOK (restoreB bs l) ls

/-- `x` is within its bounds (the model's own comparisons; `Lra.inBounds` of Properties/C09.lean) -/
def InB (t : Lra) (x : Nat) : Prop := IR.lt (t.value x) (t.lb x) = false ∧ IR.gt (t.value x) (t.ub x) = false

/-- the invariant of every reachable state, but for the values of the non-basic variables being
    within their bounds (this part also holds in the middle of `assert_lower / assert_upper`) -/
structure GoodCore (t : Lra) : Prop where
  /-- tableau and watch lists (Properties/C09Bridge.lean) -/
  tab : TabWF t
  /-- no zero coefficient in a row -/
  nz : ∀ e ∈ t.tableau, ∀ p ∈ e.2.vars, p.2.num ≠ 0
  /-- every stored value is a finite canonical eps-rational -/
  vfin : ∀ v ∈ t.vals, FinIR v
  /-- the rational parts of the values satisfy every row -/
  rowsRat : ∀ e ∈ t.tableau, t.ratAssign e.1 = Lin.evalS e.2 t.ratAssign
  /-- the infinitesimal parts satisfy every row without its known term -/
  rowsInf : ∀ e ∈ t.tableau, t.infAssign e.1 = Lin.evalS { e.2 with known := R.zero } t.infAssign
  /-- two bounds per variable -/
  blen : t.bounds.length = 2 * t.vals.length
  /-- bounds canonical, lower never `+inf`, upper never `-inf`, lower ≤ upper -/
  bwf : ∀ x, x < t.vals.length → LowerOK (t.lb x) ∧ UpperOK (t.ub x) ∧ IR.le (t.lb x) (t.ub x) = true
  /-- the registered assertions are about existing variables and finite canonical constants -/
  asrts : ∀ e ∈ t.vAsrts, e.2.x < t.vals.length ∧ FinIR e.2.v
  /-- the undo log only holds looser bounds -/
  lay : LayersOK t.bounds t.layers
  /-- the variables named in `exprs` exist -/
  exprs : ∀ e ∈ t.exprs, e.2 < t.vals.length

/-- the invariant of every reachable state -/
structure GoodState (t : Lra) : Prop extends GoodCore t where
  /-- every non-basic variable is within its bounds -/
  nbin : ∀ x, x < t.vals.length → t.isBasic x = false → InB t x

end Lra
end Oratio
