/-
C07N: `record` under the weak well-formedness `WfS`, with a possibly non-empty propagation queue
(theory lemmas are recorded in the middle of propagation) and FALSE_lit / repeated literals allowed;
analyze + backjump + record (`learnS`).
-/
import OratioProofs.Lemmas.NetSatAnalyze
import OratioProofs.Lemmas.SatCore

set_option linter.unusedSimpArgs false
set_option linter.unusedVariables false

namespace Oratio
namespace Sat

/-- what `record` changes, for the caller -/
structure RecRel (s s' : Sat) (c : Clause) (l0 : Lit) : Prop where
  queue : s'.queue = s.queue ++ [l0]
  trail : s'.trail = l0 :: s.trail
  decisions : s'.decisions = s.decisions
  trailLim : s'.trailLim = s.trailLim
  log : s'.log = s.log ++ [c]
  dead : s'.dead = s.dead
  lenVals : s'.vals.length = s.vals.length
  exprs : s'.exprs = s.exprs
  lvl : ∀ x ∈ s.trail, s'.lvl x = s.lvl x

theorem WfS.zero_lt {s : Sat} (h : s.WfS) : 0 < s.vals.length := getD_some_lt h.a.val0

theorem record_wfs {orig K : Cnf} {m : Nat} {t : Sat} (hw : t.WfS) (he : t.Ent orig K) (hd : t.DecOK m)
    (l0 : Lit) (rest : List Lit) (hv : t.value l0 = none) (hlt : l0.var < t.vals.length)
    (hrest : ∀ x ∈ rest, x.neg ∈ t.trail ∨ x = Lit.falseLit)
    (h0 : rest = [] → t.decisionLevel = 0 ∨ ∀ x ∈ t.trail, t.lvl x < t.decisionLevel)
    (hent : Ents orig (l0 :: rest)) :
    (t.record (l0 :: rest)).WfS ∧ (t.record (l0 :: rest)).Ent orig K ∧ (t.record (l0 :: rest)).DecOK m ∧
      RecRel t (t.record (l0 :: rest)) (l0 :: rest) l0 := by
  have hlogw : ({ t with log := t.log ++ [l0 :: rest] } : Sat).WfS := hw.of_eq rfl rfl rfl rfl rfl rfl rfl rfl rfl rfl rfl
  have hloge : ({ t with log := t.log ++ [l0 :: rest] } : Sat).Ent orig K := by
    refine ⟨he.clauses, he.trail, ?_, he.dead, he.keeps⟩
    intro c hc
    rcases List.mem_append.1 hc with hc | hc
    · exact he.log c hc
    · simp only [List.mem_singleton] at hc; subst hc; exact hent
  have hlogd : ({ t with log := t.log ++ [l0 :: rest] } : Sat).DecOK m := hd
  generalize hu : ({ t with log := t.log ++ [l0 :: rest] } : Sat) = u at hlogw hloge hlogd
  have huq : u.queue = t.queue := by subst hu; rfl
  have hutr : u.trail = t.trail := by subst hu; rfl
  have huv : u.value l0 = none := by subst hu; exact hv
  have hult : l0.var < u.vals.length := by subst hu; exact hlt
  have hut : ∀ x ∈ rest, x.neg ∈ u.trail ∨ x = Lit.falseLit := by subst hu; exact hrest
  have hu0 : rest = [] → u.decisionLevel = 0 ∨ ∀ x ∈ u.trail, u.lvl x < u.decisionLevel := by subst hu; exact h0
  have hudec : u.decisions = t.decisions := by subst hu; rfl
  have hulim : u.trailLim = t.trailLim := by subst hu; rfl
  have hulog : u.log = t.log ++ [l0 :: rest] := by subst hu; rfl
  have hudead : u.dead = t.dead := by subst hu; rfl
  have hulen : u.vals.length = t.vals.length := by subst hu; rfl
  have hue : u.exprs = t.exprs := by subst hu; rfl
  have hrec : t.record (l0 :: rest) = match rest with
      | [] => (u.enqueue l0 none).2
      | _ :: _ => ((u.addClause (l0 :: rest.foldr (insertByLevel u) [])).2.enqueue l0
            (some (u.addClause (l0 :: rest.foldr (insertByLevel u) [])).1)).2 := by
    subst hu
    cases rest with
    | nil => rfl
    | cons y ys => rfl
  rw [hrec]
  cases rest with
  | nil =>
    simp only
    rw [enqueue_none _ huv]
    refine ⟨hlogw.enq huv hult (fun _ => hu0 rfl) (fun id e => by cases e), ?_, hlogd.enq hlogw.a huv,
      ⟨by simp [enq, huq], by simp [enq, hutr], hudec, hulim, hulog, hudead, by simp [enq, hulen], hue,
        fun x hx => by
          have hx' : x ∈ u.trail := by rw [hutr]; exact hx
          rw [enq_lvl_ne (hlogw.a.trail_var_ne hx' huv)]; subst hu; rfl⟩⟩
    exact hloge.enq hlogw.a huv hult (hent.mono (fun d hd => List.mem_append_left _ hd))
  | cons y ys =>
    simp only
    have hperm := sortByLevel_perm u (y :: ys)
    generalize hs : (y :: ys).foldr (insertByLevel u) [] = sorted at hperm
    cases sorted with
    | nil => exact absurd hperm.length_eq (by simp)
    | cons z zs =>
      rw [addClause_fst]
      have hmem : ∀ x, x ∈ z :: zs ↔ x ∈ y :: ys := fun x => hperm.mem_iff
      have hzt : ∀ x ∈ z :: zs, x.neg ∈ u.trail ∨ x = Lit.falseLit := fun x hx => hut x ((hmem x).1 hx)
      have hrange : ∀ l ∈ l0 :: z :: zs, l.var < u.vals.length := by
        intro l hl
        rcases List.mem_cons.1 hl with rfl | hl
        · exact hult
        · rcases hzt l hl with h | h
          · exact hlogw.a.trail_lt (l := l.neg) h
          · rw [h]; exact hlogw.zero_lt
      generalize hA : (u.addClause (l0 :: z :: zs)).2 = w
      have hwf : w.WfS := by rw [← hA]; exact hlogw.addClause hrange
      have hwv : w.value l0 = none := by rw [← hA]; exact huv
      have hwlt : l0.var < w.vals.length := by rw [← hA]; exact hult
      have hwcls : (u.nextId, l0 :: z :: zs) ∈ w.cls := by
        rw [← hA, addClause_cls]; exact List.mem_append_right _ (List.mem_singleton.2 rfl)
      have hwent : w.Ent orig K := by
        rw [← hA]
        refine ⟨?_, hloge.trail, hloge.log, hloge.dead, ?_⟩
        · intro e he'
          rw [addClause_cls] at he'
          rcases List.mem_append.1 he' with he' | he'
          · exact hloge.clauses e he'
          · simp only [List.mem_singleton] at he'; subst he'
            exact hent.weaken (fun l hl => by
              rcases List.mem_cons.1 hl with rfl | hl
              · exact List.mem_cons_self ..
              · exact List.mem_cons_of_mem _ ((hmem l).2 hl))
        · intro hd' α ha0 hc hroot
          apply hloge.keeps hd' α ha0 _ hroot
          rw [addClause_cls, List.map_append, Asg.cnf_append] at hc
          simp only [Bool.and_eq_true] at hc
          exact hc.1
      have hwtrail : w.trail = u.trail := by rw [← hA]; rfl
      have hwq : w.queue = u.queue := by rw [← hA]; rfl
      have hwd : w.DecOK m := by rw [← hA]; exact hlogd
      have hzt' : ∀ x ∈ z :: zs, x.neg ∈ w.trail ∨ x = Lit.falseLit := fun x hx => by rw [hwtrail]; exact hzt x hx
      rw [enqueue_none _ hwv]
      refine ⟨hwf.enq hwv hwlt (fun e => by cases e) ?_, ?_, hwd.enq hwf.a hwv,
        ⟨by simp [enq, hwq, huq], by simp [enq, hwtrail, hutr],
        by rw [← hA]; exact hudec, by rw [← hA]; exact hulim, by rw [← hA]; exact hulog,
        by rw [← hA]; exact hudead, by rw [← hA]; simp [enq]; exact hulen, by rw [← hA]; exact hue,
        fun x hx => by
          have hx' : x ∈ w.trail := by rw [hwtrail, hutr]; exact hx
          rw [enq_lvl_ne (hwf.a.trail_var_ne hx' hwv), ← hA]; subst hu; rfl⟩⟩
      · intro id e
        simp only [Option.some.injEq] at e; subst e
        exact ⟨z :: zs, hwcls, hzt'⟩
      · exact hwent.enq hwf.a hwv hwlt (ents_unitN hwf.a hwent (hwent.clauses _ hwcls) hzt')

end Sat
end Oratio

namespace Oratio
namespace Sat

/-! ### the soundness invariant of the SAT core, bundled -/

structure SInv (orig K : Cnf) (s : Sat) : Prop where
  wf : s.WfS
  ent : s.Ent orig K
  dec : ∀ m, s.DecOK m

theorem InvB.toS {orig : Cnf} {s : Sat} (h : InvB orig s) (h0 : s.level.getD 0 0 = 0) : SInv orig orig s :=
  ⟨(h.inv 0).wf.toS h0, (h.inv 0).ent, fun m => (h.inv m).dec⟩

theorem SInv.lvl_true {orig K : Cnf} {s : Sat} (h : SInv orig K s) : s.lvl Lit.trueLit = 0 := h.wf.lvl0

theorem DecOK.step {m : Nat} {p : Lit} {s s' : Sat} (h : s.DecOK m) (hs : StepS p s s') : s'.DecOK m := by
  intro a d b hd hb
  rw [hs.frame.decisions] at hd
  obtain ⟨h1, h2⟩ := h a d b hd hb
  exact ⟨hs.trail.subset h1, by rw [hs.lvl d h1]; exact h2⟩

theorem SInv.mono_orig {orig orig' K : Cnf} {s : Sat} (h : SInv orig K s) (hs : ∀ d ∈ orig, d ∈ orig') : SInv orig' K s :=
  ⟨h.wf, h.ent.mono_orig hs, h.dec⟩

/-- analyze + backjump + record under `SInv` -/
theorem learnS {orig K : Cnf} {s : Sat} (h : SInv orig K s) (hq : s.queue = [])
    (hL : 0 < s.decisionLevel) (cnfl : Clause) (hcE : Ents orig cnfl)
    (hcF : ∀ l ∈ cnfl, l.neg ∈ s.trail ∨ l = Lit.falseLit)
    (hcL : ∃ l ∈ cnfl, l.neg ∈ s.trail ∧ s.lvl l = s.decisionLevel) (noGood : List Lit) (bt : Nat) (s3 : Sat)
    (han : s.analyze cnfl = some (noGood, bt, s3)) :
    SInv orig K ((s3.popTo bt).record noGood) ∧ Ents orig noGood ∧
    ((s3.popTo bt).record noGood).log = s.log ++ [noGood] ∧ ((s3.popTo bt).record noGood).dead = s.dead ∧
    ((s3.popTo bt).record noGood).decisions <:+ s.decisions ∧ ((s3.popTo bt).record noGood).decisionLevel = bt ∧
    bt < s.decisionLevel ∧ ((s3.popTo bt).record noGood).vals.length = s.vals.length ∧
    ((s3.popTo bt).record noGood).exprs = s.exprs ∧
    (∃ l0, ((s3.popTo bt).record noGood).queue = [l0]) ∧ s3.decisionLevel = s.decisionLevel ∧
    (s3.popTo bt).record noGood = (s.popTo bt).record noGood ∧ (s.popTo bt).WfS ∧
    (∀ x ∈ (s.popTo bt).trail, ((s.popTo bt).record noGood).lvl x = (s.popTo bt).lvl x) ∧
    (s.popTo bt).queue = [] := by
  obtain ⟨p', learnt, k, hlits, hpt, hpl, hent, hlearnt, hbt, hbt0, hbtx, hnd, hs3, hk⟩ :=
    analyze_specS orig K s h.wf h.lvl_true h.ent hL cnfl hcE hcF hcL noGood bt s3 han
  subst hs3 hlits
  have hdl3 : (s.popN k).decisionLevel = s.decisionLevel := an_popN_decisionLevel k s
  rw [popN_popTo s k bt hbt hk]
  obtain ⟨hTw, hTe, hTd, hrel, hlev⟩ := wfs_popTo (m := 0) h.wf h.ent (h.dec 0) hq bt hbt
  have hTd' : ∀ m, (s.popTo bt).DecOK m := fun m => (wfs_popTo (m := m) h.wf h.ent (h.dec m) hq bt hbt).2.2.1
  have hpv : (s.popTo bt).value p'.neg = none := by
    have := hrel.gone p' hpt (by rw [hlev, hpl]; exact hbt)
    rw [value_eq_none] at this ⊢; exact this
  have hplt : p'.neg.var < (s.popTo bt).vals.length := by
    rw [hrel.lenVals]; exact h.wf.a.trail_lt (l := p') hpt
  have hrest : ∀ x ∈ learnt, x.neg ∈ (s.popTo bt).trail ∨ x = Lit.falseLit := by
    intro x hx
    obtain ⟨h1, _, h3⟩ := hlearnt x hx
    exact Or.inl (hrel.kept _ h1 (by rw [hlev]; simpa using h3))
  have hrec := fun m => record_wfs (m := m) hTw hTe (hTd' m) p'.neg learnt hpv hplt hrest
    (fun e => Or.inl (by rw [hlev]; exact hbt0 e)) hent
  obtain ⟨r1, r2, _, rr⟩ := hrec 0
  refine ⟨⟨r1, r2, fun m => (hrec m).2.2.1⟩, hent, ?_, ?_, ?_, ?_, hbt, ?_, ?_, ⟨p'.neg, ?_⟩, hdl3, rfl, hTw, rr.lvl,
    by rw [hrel.queue]; exact hq⟩
  · rw [rr.log, hrel.log]
  · rw [rr.dead, hrel.dead]
  · rw [rr.decisions, hrel.decisions]; exact List.drop_suffix _ _
  · show ((s.popTo bt).record (p'.neg :: learnt)).trailLim.length = bt
    rw [rr.trailLim]; exact hlev
  · rw [rr.lenVals, hrel.lenVals]
  · rw [rr.exprs, hrel.exprs]
  · rw [rr.queue, hrel.queue, hq]; rfl

end Sat
end Oratio
