/-
Lemmas for property C01: the reified constructors `newConj / newDisj / newEq` under PARTIAL
assignments at a unit-propagation fixpoint.

`PAsg`, `plit`, `BcpFix` are copies of the definitions of `OratioProofs/Properties/C01.lean`
(which imports this file – the copies are definitionally equal to the originals).

The syntactic invariant `PInv`: for every cached expression `(key, l)` and every fixpoint `ρ` of
the state, once the argument literals of the key are decided, `l` is decided with the value of the
expression.  Every constructor keeps it (`conj_p`, `disj_p`, `eq_p`), only adds clauses and root
values (`Mono`), and returns a literal with that same property.
Core Lean only.
-/
import OratioModel
import OratioProofs.Lemmas.EncJunct

namespace Oratio
namespace FormL
open Enc EncL

/-! ## vocabulary -/

abbrev PAsg := Nat → Option Bool
def plit (ρ : PAsg) (l : Lit) : Option Bool := (ρ l.var).map (fun b => if l.sign then b else !b)

/-- the value of a literal, `false` when undecided -/
def val (ρ : PAsg) (l : Lit) : Bool := (plit ρ l).getD false

/-- a clause is neither falsified nor unit under `ρ` -/
def Resp (ρ : PAsg) (c : List Lit) : Prop :=
  (∃ l ∈ c, plit ρ l = some true) ∨ (∃ l₁ ∈ c, ∃ l₂ ∈ c, l₁ ≠ l₂ ∧ plit ρ l₁ = none ∧ plit ρ l₂ = none)

def BcpFix (ρ : PAsg) (s : Enc) : Prop :=
  ρ 0 = some false ∧
  (∀ v b, s.vals.getD v none = some b → ρ v = some b) ∧
  ∀ c ∈ s.clauses, Resp ρ c

/-- `s'` has every clause and every root value of `s` -/
def Mono (s s' : Enc) : Prop :=
  (∀ c ∈ s.clauses, c ∈ s'.clauses) ∧ ∀ v b, s.vals.getD v none = some b → s'.vals.getD v none = some b

/-- meaning of a cached expression under a partial assignment -/
def PKeySem (ρ : PAsg) : Key → Lit → Prop
  | .eq a b, l => plit ρ a ≠ none → plit ρ b ≠ none → plit ρ l = some (val ρ a == val ρ b)
  | .conj ls, l => (∀ x ∈ ls, plit ρ x ≠ none) → plit ρ l = some (ls.all (val ρ))
  | .disj ls, l => (∀ x ∈ ls, plit ρ x ≠ none) → plit ρ l = some (ls.any (val ρ))
  | .amo _, _ => True
  | .exo _, _ => True

def PInv (s : Enc) : Prop := ∀ e ∈ s.exprs, ∀ ρ, BcpFix ρ s → PKeySem ρ e.1 e.2

/-! ## partial assignments -/

theorem plit_neg (ρ : PAsg) (l : Lit) : plit ρ l.neg = (plit ρ l).map (!·) := by
  cases l with | mk v sg =>
  simp only [plit, Lit.neg]
  cases ρ v <;> cases sg <;> simp

theorem plit_neg_some {ρ : PAsg} {l : Lit} {b : Bool} (h : plit ρ l = some b) : plit ρ l.neg = some (!b) := by
  rw [plit_neg, h]; rfl

theorem plit_neg_none {ρ : PAsg} {l : Lit} (h : plit ρ l = none) : plit ρ l.neg = none := by
  rw [plit_neg, h]; rfl

theorem plit_of_neg_some {ρ : PAsg} {l : Lit} {b : Bool} (h : plit ρ l.neg = some b) : plit ρ l = some (!b) := by
  have := plit_neg_some h
  rwa [neg_neg] at this

theorem val_of_some {ρ : PAsg} {l : Lit} {b : Bool} (h : plit ρ l = some b) : val ρ l = b := by
  simp [val, h]

theorem plit_eq_val {ρ : PAsg} {l : Lit} (h : plit ρ l ≠ none) : plit ρ l = some (val ρ l) := by
  cases hp : plit ρ l with
  | none => exact absurd hp h
  | some b => simp [val, hp]

theorem val_neg {ρ : PAsg} {l : Lit} (h : plit ρ l ≠ none) : val ρ l.neg = !val ρ l := by
  have := plit_eq_val h
  exact val_of_some (plit_neg_some this)

theorem plit_falseLit {ρ : PAsg} (h : ρ 0 = some false) : plit ρ Lit.falseLit = some false := by
  simp [plit, Lit.falseLit, h]

theorem plit_trueLit {ρ : PAsg} (h : ρ 0 = some false) : plit ρ Lit.trueLit = some true := by
  simp [plit, Lit.trueLit, h]

theorem plit_of_value {ρ : PAsg} {s : Enc} (h : ∀ v b, s.vals.getD v none = some b → ρ v = some b)
    {l : Lit} {b : Bool} (hv : s.value l = some b) : plit ρ l = some b := by
  unfold Enc.value litValue at hv
  split at hv
  · cases hv
  · next c hc =>
    simp only [plit, h _ _ hc, Option.map_some]
    exact hv

/-! ## clauses at the fixpoint -/

theorem Resp.mono {ρ : PAsg} {c c' : List Lit} (h : ∀ l ∈ c, l ∈ c') (hr : Resp ρ c) : Resp ρ c' := by
  rcases hr with ⟨l, hl, h1⟩ | ⟨l₁, h1, l₂, h2, hne, hn1, hn2⟩
  · exact Or.inl ⟨l, h l hl, h1⟩
  · exact Or.inr ⟨l₁, h l₁ h1, l₂, h l₂ h2, hne, hn1, hn2⟩

/-- all literals but `x` are false: `x` is true (the clause is not unit, not falsified) -/
theorem Resp.unit {ρ : PAsg} {c : List Lit} {x : Lit} (hr : Resp ρ c)
    (h : ∀ l ∈ c, l = x ∨ plit ρ l = some false) : plit ρ x = some true := by
  rcases hr with ⟨l, hl, h1⟩ | ⟨l₁, h1, l₂, h2, hne, hn1, hn2⟩
  · rcases h l hl with rfl | h2
    · exact h1
    · rw [h1] at h2; cases h2
  · rcases h l₁ h1 with rfl | h3
    · rcases h l₂ h2 with rfl | h4
      · exact absurd rfl hne
      · rw [hn2] at h4; cases h4
    · rw [hn1] at h3; cases h3

theorem Mono.refl (s : Enc) : Mono s s := ⟨fun _ h => h, fun _ _ h => h⟩
theorem Mono.trans {a b c : Enc} (h1 : Mono a b) (h2 : Mono b c) : Mono a c :=
  ⟨fun x hx => h2.1 x (h1.1 x hx), fun v b hv => h2.2 v b (h1.2 v b hv)⟩

theorem BcpFix.mono {ρ : PAsg} {s s' : Enc} (h : Mono s s') (hρ : BcpFix ρ s') : BcpFix ρ s :=
  ⟨hρ.1, fun v b hv => hρ.2.1 v b (h.2 v b hv), fun c hc => hρ.2.2 c (h.1 c hc)⟩

theorem PInv.mono {s s' : Enc} (h : Mono s s') (he : s'.exprs = s.exprs) (hp : PInv s) : PInv s' := by
  intro e he' ρ hρ
  rw [he] at he'
  exact hp e he' ρ (BcpFix.mono h hρ)

/-! ## Tseitin definitions at the fixpoint -/

theorem conj_resp {ρ : PAsg} {ctr : Lit} {ls : List Lit}
    (hbin : ∀ l ∈ ls, Resp ρ [ctr.neg, l]) (hlong : Resp ρ (ctr :: ls.map Lit.neg))
    (hd : ∀ x ∈ ls, plit ρ x ≠ none) : plit ρ ctr = some (ls.all (val ρ)) := by
  cases hall : ls.all (val ρ) with
  | true =>
    rw [List.all_eq_true] at hall
    refine Resp.unit hlong (fun l hl => ?_)
    simp only [List.mem_cons, List.mem_map] at hl
    rcases hl with rfl | ⟨y, hy, rfl⟩
    · exact Or.inl rfl
    · right
      have := plit_eq_val (hd y hy)
      rw [hall y hy] at this
      exact plit_neg_some this
  | false =>
    rw [List.all_eq_false] at hall
    obtain ⟨y, hy, hy2⟩ := hall
    have hyv := plit_eq_val (hd y hy)
    simp only [Bool.not_eq_true] at hy2
    rw [hy2] at hyv
    have : plit ρ ctr.neg = some true := by
      refine Resp.unit (hbin y hy) (fun l hl => ?_)
      simp only [List.mem_cons, List.not_mem_nil, or_false] at hl
      rcases hl with rfl | rfl
      · exact Or.inl rfl
      · exact Or.inr hyv
    exact plit_of_neg_some this

theorem disj_resp {ρ : PAsg} {ctr : Lit} {ls : List Lit}
    (hbin : ∀ l ∈ ls, Resp ρ [l.neg, ctr]) (hlong : Resp ρ (ctr.neg :: ls))
    (hd : ∀ x ∈ ls, plit ρ x ≠ none) : plit ρ ctr = some (ls.any (val ρ)) := by
  cases hany : ls.any (val ρ) with
  | false =>
    rw [List.any_eq_false] at hany
    have : plit ρ ctr.neg = some true := by
      refine Resp.unit hlong (fun l hl => ?_)
      simp only [List.mem_cons] at hl
      rcases hl with rfl | hl
      · exact Or.inl rfl
      · right
        have := plit_eq_val (hd l hl)
        have h2 := hany l hl
        simp only [Bool.not_eq_true] at h2
        rwa [h2] at this
    exact plit_of_neg_some this
  | true =>
    rw [List.any_eq_true] at hany
    obtain ⟨y, hy, hy2⟩ := hany
    have hyv := plit_eq_val (hd y hy)
    rw [hy2] at hyv
    refine Resp.unit (hbin y hy) (fun l hl => ?_)
    simp only [List.mem_cons, List.not_mem_nil, or_false] at hl
    rcases hl with rfl | rfl
    · exact Or.inr (plit_neg_some hyv)
    · exact Or.inl rfl

theorem eq_resp {ρ : PAsg} {ctr a b : Lit}
    (h1 : Resp ρ [ctr.neg, a.neg, b]) (h2 : Resp ρ [ctr.neg, a, b.neg])
    (h3 : Resp ρ [ctr, a.neg, b.neg]) (h4 : Resp ρ [ctr, a, b])
    (ha : plit ρ a ≠ none) (hb : plit ρ b ≠ none) : plit ρ ctr = some (val ρ a == val ρ b) := by
  have hav := plit_eq_val ha
  have hbv := plit_eq_val hb
  have key : ∀ {x y z : Lit} {c : Lit}, Resp ρ [c, y, z] → plit ρ y = some false → plit ρ z = some false →
      plit ρ c = some true := by
    intro x y z c hr hy hz
    refine Resp.unit hr (fun l hl => ?_)
    simp only [List.mem_cons, List.not_mem_nil, or_false] at hl
    rcases hl with rfl | rfl | rfl
    · exact Or.inl rfl
    · exact Or.inr hy
    · exact Or.inr hz
  cases hva : val ρ a <;> cases hvb : val ρ b <;> rw [hva] at hav <;> rw [hvb] at hbv
  · exact key (x := a) h4 hav hbv
  · exact plit_of_neg_some (key (x := a) h2 hav (plit_neg_some hbv))
  · exact plit_of_neg_some (key (x := a) h1 (plit_neg_some hav) hbv)
  · exact key (x := a) h3 (plit_neg_some hav) (plit_neg_some hbv)

/-! ## the filtering loop, syntactically -/

/-- `none`: an argument is the absorbing constant at root level, or two arguments are complementary -/
theorem scan_none_syn {s : Enc} {abs : Bool} : ∀ (rest : List Lit) (p : Option Lit) (acc : List Lit),
    (∀ q, p = some q → q ∈ acc) → scanJunct s abs rest p acc = none →
    (∃ l ∈ rest, s.value l = some abs) ∨ (∃ l, (l ∈ acc ∨ l ∈ rest) ∧ l.neg ∈ rest) := by
  intro rest
  induction rest with
  | nil => intro p acc _ h; simp [scanJunct] at h
  | cons l rest ih =>
    intro p acc hp h
    simp only [scanJunct] at h
    split at h
    · next hc =>
      simp only [Bool.or_eq_true, decide_eq_true_eq] at hc
      rcases hc with hc | hc
      · exact Or.inl ⟨l, by simp, hc⟩
      · cases p with
        | none => simp at hc
        | some q =>
          simp only [Option.map_some, Option.some.injEq] at hc
          exact Or.inr ⟨q, Or.inl (hp q rfl), by simp [hc]⟩
    · split at h
      · rcases ih (some l) (l :: acc) (by intro q hq; cases hq; simp) h with ⟨x, hx, hx2⟩ | ⟨x, hx, hx2⟩
        · exact Or.inl ⟨x, by simp [hx], hx2⟩
        · refine Or.inr ⟨x, ?_, by simp [hx2]⟩
          simp only [List.mem_cons] at hx ⊢
          rcases hx with (hx | hx) | hx
          · exact Or.inr (Or.inl hx)
          · exact Or.inl hx
          · exact Or.inr (Or.inr hx)
      · rcases ih p acc hp h with ⟨x, hx, hx2⟩ | ⟨x, hx, hx2⟩
        · exact Or.inl ⟨x, by simp [hx], hx2⟩
        · refine Or.inr ⟨x, ?_, by simp [hx2]⟩
          rcases hx with hx | hx
          · exact Or.inl hx
          · exact Or.inr (by simp [hx])

/-- `some ls'`: every argument is the neutral constant at root level or is kept -/
theorem scan_some_syn {s : Enc} {abs : Bool} : ∀ (rest : List Lit) (p : Option Lit) (acc : List Lit),
    (∀ q, p = some q → q ∈ acc) → ∀ ls', scanJunct s abs rest p acc = some ls' →
    ∀ l ∈ rest, s.value l = some (!abs) ∨ l ∈ ls' := by
  intro rest
  induction rest with
  | nil => intro p acc _ ls' _ l hl; cases hl
  | cons l rest ih =>
    intro p acc hp ls' h x hx
    simp only [scanJunct] at h
    split at h
    · cases h
    · split at h
      · have hp' : ∀ q, some l = some q → q ∈ l :: acc := by intro q hq; cases hq; simp
        obtain ⟨_, _, i3, _⟩ := scanJunct_some rest (some l) (l :: acc) hp' ls' h
        simp only [List.mem_cons] at hx
        rcases hx with rfl | hx
        · exact Or.inr (i3 x (by simp))
        · exact ih (some l) (l :: acc) hp' ls' h x hx
      · next hc2 =>
        obtain ⟨_, _, i3, _⟩ := scanJunct_some rest p acc hp ls' h
        simp only [List.mem_cons] at hx
        rcases hx with rfl | hx
        · simp only [Bool.and_eq_true, ne_eq, decide_eq_true_eq, not_and, Decidable.not_not] at hc2
          by_cases hv : s.value x = some (!abs)
          · exact Or.inl hv
          · exact Or.inr (i3 x (hp x (hc2 hv)))
        · exact ih p acc hp ls' h x hx

theorem bool_cases_abs (x abs : Bool) : x = abs ∨ x = !abs := by cases x <;> cases abs <;> simp

/-- `none`, under a fixpoint that decides the arguments: some argument has the absorbing value -/
theorem scan_none_p {ρ : PAsg} {s : Enc} {abs : Bool} {ls : List Lit}
    (hρ : ∀ v b, s.vals.getD v none = some b → ρ v = some b)
    (h : scanJunct s abs ls none [] = none) (hd : ∀ x ∈ ls, plit ρ x ≠ none) :
    ∃ l ∈ ls, val ρ l = abs := by
  rcases scan_none_syn ls none [] (by simp) h with ⟨l, hl, hv⟩ | ⟨l, hl, hl2⟩
  · exact ⟨l, hl, val_of_some (plit_of_value hρ hv)⟩
  · have hl : l ∈ ls := by simpa using hl
    rcases bool_cases_abs (val ρ l) abs with h1 | h1
    · exact ⟨l, hl, h1⟩
    · refine ⟨l.neg, hl2, ?_⟩
      rw [val_neg (hd l hl), h1]; simp

/-- `some ls'`: the kept literals decide the connective -/
theorem scan_some_p {ρ : PAsg} {s : Enc} {abs : Bool} {ls ls' : List Lit}
    (hρ : ∀ v b, s.vals.getD v none = some b → ρ v = some b)
    (h : scanJunct s abs ls none [] = some ls') :
    ((∃ l ∈ ls', val ρ l = abs) ↔ ∃ l ∈ ls, val ρ l = abs) := by
  obtain ⟨j1, _, _⟩ := scanJunct_init_some h
  constructor
  · rintro ⟨l, hl, hl2⟩; exact ⟨l, j1 l hl, hl2⟩
  · rintro ⟨l, hl, hl2⟩
    rcases scan_some_syn ls none [] (by simp) ls' h l hl with hv | hm
    · have := val_of_some (plit_of_value hρ hv)
      rw [hl2] at this
      cases abs <;> simp at this
    · exact ⟨l, hm, hl2⟩

theorem all_congr_f {f : Lit → Bool} {a b : List Lit}
    (h : (∃ l ∈ a, f l = false) ↔ (∃ l ∈ b, f l = false)) : a.all f = b.all f := by
  have : ∀ c : List Lit, c.all f = true ↔ ¬ ∃ l ∈ c, f l = false := by intro c; simp
  rw [Bool.eq_iff_iff, this, this, h]

theorem any_congr_f {f : Lit → Bool} {a b : List Lit}
    (h : (∃ l ∈ a, f l = true) ↔ (∃ l ∈ b, f l = true)) : a.any f = b.any f := by
  have : ∀ c : List Lit, c.any f = true ↔ ∃ l ∈ c, f l = true := by intro c; simp
  rw [Bool.eq_iff_iff, this, this, h]

theorem exists_sorted_f {f : Lit → Bool} {ls : List Lit} {b : Bool} :
    (∃ l ∈ sortByVar ls, f l = b) ↔ ∃ l ∈ ls, f l = b :=
  ⟨fun ⟨l, hl, h⟩ => ⟨l, mem_sortByVar.1 hl, h⟩, fun ⟨l, hl, h⟩ => ⟨l, mem_sortByVar.2 hl, h⟩⟩

/-! ## `newClause`, `newClauses` -/

theorem newClause_p {s : Enc} {c : List Lit} (hc : InRange s c) :
    Mono s (s.newClause c).2 ∧
    ((s.newClause c).1 = true → ∀ ρ, BcpFix ρ (s.newClause c).2 → Resp ρ c) := by
  unfold Enc.newClause
  rw [scanClause_eq]
  cases h : scanJunct s true (sortByVar c) none [] with
  | none =>
    refine ⟨Mono.refl s, fun _ ρ hρ => ?_⟩
    rcases scan_none_syn _ none [] (by simp) h with ⟨l, hl, hv⟩ | ⟨l, hl, hl2⟩
    · exact Or.inl ⟨l, mem_sortByVar.1 hl, plit_of_value hρ.2.1 hv⟩
    · have hl : l ∈ c := mem_sortByVar.1 (by simpa using hl)
      have hl2 : l.neg ∈ c := mem_sortByVar.1 hl2
      cases hp : plit ρ l with
      | none => exact Or.inr ⟨l, hl, l.neg, hl2, (neg_ne l).symm, hp, plit_neg_none hp⟩
      | some b =>
        cases b with
        | false => exact Or.inl ⟨l.neg, hl2, plit_neg_some hp⟩
        | true => exact Or.inl ⟨l, hl, hp⟩
  | some ls' =>
    obtain ⟨j1, j2, _⟩ := scanJunct_init_some h
    match ls', j1, j2 with
    | [], _, _ => exact ⟨Mono.refl s, fun hf => by cases hf⟩
    | [l], j1, j2 =>
      have hn : s.value l = none := j2 l (by simp)
      have hl : l.var < s.nvars := hc l (mem_sortByVar.1 (j1 l (by simp)))
      simp only [Enc.enqueue, hn]
      refine ⟨⟨fun c hc => hc, fun v b hv => ?_⟩, fun _ ρ hρ => ?_⟩
      · show (s.vals.set l.var (some l.sign)).getD v none = some b
        rw [getD_set s.vals hl]
        split
        · next hvl => subst hvl; rw [(value_none_iff s l).1 hn] at hv; cases hv
        · exact hv
      · refine Or.inl ⟨l, mem_sortByVar.1 (j1 l (by simp)), ?_⟩
        have := hρ.2.1 l.var l.sign (by
          show (s.vals.set l.var (some l.sign)).getD l.var none = some l.sign
          rw [getD_set s.vals hl]; simp)
        simp only [plit, this, Option.map_some]
        cases l.sign <;> rfl
    | l1 :: l2 :: t, j1, _ =>
      refine ⟨⟨fun c hc => List.mem_append_left _ hc, fun v b hv => hv⟩, fun _ ρ hρ => ?_⟩
      exact Resp.mono (fun l hl => mem_sortByVar.1 (j1 l hl)) (hρ.2.2 _ (by simp))

/-- two undecided literals over different variables: the clause is posted (or is a tautology);
    no root value changes -/
theorem newClause_ok {s : Enc} {c : List Lit} {a b : Lit} (ha : a ∈ c) (hb : b ∈ c) (hab : a.var ≠ b.var)
    (hva : s.value a = none) (hvb : s.value b = none) :
    (s.newClause c).1 = true ∧ (s.newClause c).2.vals = s.vals ∧ (s.newClause c).2.exprs = s.exprs := by
  unfold Enc.newClause
  rw [scanClause_eq]
  cases h : scanJunct s true (sortByVar c) none [] with
  | none => exact ⟨rfl, rfl, rfl⟩
  | some ls' =>
    have ha' : a ∈ ls' := by
      rcases scan_some_syn _ none [] (by simp) ls' h a (mem_sortByVar.2 ha) with hv | hm
      · rw [hva] at hv; cases hv
      · exact hm
    have hb' : b ∈ ls' := by
      rcases scan_some_syn _ none [] (by simp) ls' h b (mem_sortByVar.2 hb) with hv | hm
      · rw [hvb] at hv; cases hv
      · exact hm
    match ls', ha', hb' with
    | [], ha', _ => cases ha'
    | [l], ha', hb' =>
      simp only [List.mem_singleton] at ha' hb'
      subst ha'; subst hb'
      exact absurd rfl hab
    | l1 :: l2 :: t, _, _ => exact ⟨rfl, rfl, rfl⟩

theorem newClauses_p : ∀ (cs : List (List Lit)) {s : Enc},
    (∀ c ∈ cs, InRange s c) →
    (∀ c ∈ cs, ∃ a ∈ c, ∃ b ∈ c, a.var ≠ b.var ∧ s.value a = none ∧ s.value b = none) →
    (s.newClauses cs).1 = true ∧ (s.newClauses cs).2.vals = s.vals ∧ (s.newClauses cs).2.exprs = s.exprs ∧
    Mono s (s.newClauses cs).2 ∧ ∀ ρ, BcpFix ρ (s.newClauses cs).2 → ∀ c ∈ cs, Resp ρ c := by
  intro cs
  induction cs with
  | nil =>
    intro s _ _
    exact ⟨rfl, rfl, rfl, Mono.refl s, fun _ _ c hc => by cases hc⟩
  | cons c cs ih =>
    intro s hr hok
    obtain ⟨a, ha, b, hb, hab, hva, hvb⟩ := hok c (by simp)
    obtain ⟨k1, k2, k3⟩ := newClause_ok ha hb hab hva hvb
    obtain ⟨m1, m2⟩ := newClause_p (hr c (by simp))
    simp only [Enc.newClauses]
    rcases hnc : s.newClause c with ⟨ok, s'⟩
    rw [hnc] at k1 k2 k3 m1 m2
    simp only at k1 k2 k3 m1 m2
    subst k1
    have hr' : ∀ c ∈ cs, InRange s' c := fun c' hc' l hl => by
      show l.var < s'.vals.length
      rw [k2]; exact hr c' (by simp [hc']) l hl
    have hok' : ∀ c ∈ cs, ∃ a ∈ c, ∃ b ∈ c, a.var ≠ b.var ∧ s'.value a = none ∧ s'.value b = none := by
      intro c' hc'
      obtain ⟨a, ha, b, hb, hab, hva, hvb⟩ := hok c' (by simp [hc'])
      refine ⟨a, ha, b, hb, hab, ?_, ?_⟩
      · show litValue s'.vals a = none
        rw [k2]; exact hva
      · show litValue s'.vals b = none
        rw [k2]; exact hvb
    obtain ⟨i1, i2, i3, i4, i5⟩ := ih hr' hok'
    refine ⟨i1, i2.trans k2, i3.trans k3, Mono.trans m1 i4, fun ρ hρ c' hc' => ?_⟩
    simp only [List.mem_cons] at hc'
    rcases hc' with rfl | hc'
    · exact m2 rfl ρ (BcpFix.mono i4 hρ)
    · exact i5 ρ hρ c' hc'

/-! ## a fresh variable defined by clauses -/

theorem value_fresh (s : Enc) (b : Bool) : s.newVar.2.value ⟨s.nvars, b⟩ = none := by
  simp [Enc.value, litValue, Enc.newVar, Enc.nvars]

theorem value_old (s : Enc) (l : Lit) : s.newVar.2.value l = s.value l := value_addVars s 1 l

theorem mono_newVar (s : Enc) : Mono s s.newVar.2 :=
  ⟨fun _ h => h, fun v b hv => by
    show (s.vals ++ List.replicate 1 none).getD v none = some b
    rw [getD_append_none]; exact hv⟩

theorem freshDef_p {s : Enc} (k : Key) (cs : Lit → List (List Lit))
    (hcs : ∀ c ∈ cs ⟨s.nvars, true⟩, ∀ l ∈ c, l.var < s.nvars + 1)
    (hok : ∀ c ∈ cs ⟨s.nvars, true⟩, ∃ a ∈ c, ∃ b ∈ c, a.var ≠ b.var ∧
      s.newVar.2.value a = none ∧ s.newVar.2.value b = none) :
    (freshDef s k cs).1 = ⟨s.nvars, true⟩ ∧ Mono s (freshDef s k cs).2 ∧
    (freshDef s k cs).2.exprs = s.exprs ++ [(k, ⟨s.nvars, true⟩)] ∧
    ∀ ρ, BcpFix ρ (freshDef s k cs).2 → ∀ c ∈ cs ⟨s.nvars, true⟩, Resp ρ c := by
  have hn1 : s.newVar.2.nvars = s.nvars + 1 := nvars_addVars s 1
  have hcs' : ∀ c ∈ cs ⟨s.nvars, true⟩, InRange s.newVar.2 c := fun c hc l hl => by
    rw [hn1]; exact hcs c hc l hl
  obtain ⟨i1, _, i3, i4, i5⟩ := newClauses_p (cs ⟨s.nvars, true⟩) hcs' hok
  unfold freshDef
  rcases hnc : s.newVar.2.newClauses (cs ⟨s.nvars, true⟩) with ⟨b, s2⟩
  rw [hnc] at i1 i3 i4 i5
  simp only at i1 i3 i4 i5
  subst i1
  refine ⟨rfl, Mono.trans (mono_newVar s) i4, ?_, fun ρ hρ => i5 ρ hρ⟩
  show s2.exprs ++ _ = _
  rw [i3]; rfl

/-! ## `newConj` -/

theorem conj_p {s : Enc} (hp : PInv s) {ls : List Lit} (hl : InRange s ls) :
    Mono s (s.newConj ls).2 ∧ PInv (s.newConj ls).2 ∧
    ∀ ρ, BcpFix ρ (s.newConj ls).2 → (∀ x ∈ ls, plit ρ x ≠ none) →
      plit ρ (s.newConj ls).1 = some (ls.all (val ρ)) := by
  unfold Enc.newConj
  cases hsc : scanJunct s false (sortByVar ls) none [] with
  | none =>
    refine ⟨Mono.refl s, hp, fun ρ hρ hd => ?_⟩
    obtain ⟨l, hl1, hl2⟩ := scan_none_p hρ.2.1 hsc (fun x hx => hd x (mem_sortByVar.1 hx))
    show plit ρ Lit.falseLit = _
    rw [plit_falseLit hρ.1]
    congr 1
    symm
    rw [List.all_eq_false]
    exact ⟨l, mem_sortByVar.1 hl1, by simp [hl2]⟩
  | some ls' =>
    obtain ⟨j1, j2, _⟩ := scanJunct_init_some hsc
    have hall : ∀ ρ, BcpFix ρ s → ls'.all (val ρ) = ls.all (val ρ) := fun ρ hρ =>
      all_congr_f ((scan_some_p hρ.2.1 hsc).trans exists_sorted_f)
    have hsub : ∀ l ∈ ls', l ∈ ls := fun l hl' => mem_sortByVar.1 (j1 l hl')
    have hrange : ∀ l ∈ ls', l.var < s.nvars := fun l hl' => hl l (hsub l hl')
    match ls', hall, hsub, hrange, j2 with
    | [], hall, _, _, _ =>
      refine ⟨Mono.refl s, hp, fun ρ hρ _ => ?_⟩
      show plit ρ Lit.trueLit = _
      rw [plit_trueLit hρ.1, ← hall ρ hρ]; rfl
    | [l], hall, hsub, _, _ =>
      refine ⟨Mono.refl s, hp, fun ρ hρ hd => ?_⟩
      show plit ρ l = _
      rw [← hall ρ hρ, plit_eq_val (hd l (hsub l (by simp)))]; simp
    | l1 :: l2 :: t, hall, hsub, hrange, j2 =>
      dsimp only
      cases hlk : s.lookup (.conj (l1 :: l2 :: t)) with
      | some l =>
        refine ⟨Mono.refl s, hp, fun ρ hρ hd => ?_⟩
        show plit ρ l = _
        rw [← hall ρ hρ]
        exact hp _ (lookup_some hlk) ρ hρ (fun x hx => hd x (hsub x hx))
      | none =>
        let ls' := l1 :: l2 :: t
        let cs : Lit → List (List Lit) := fun ctr => ls'.map (fun l => [ctr.neg, l]) ++ [ctr :: ls'.map Lit.neg]
        show Mono s (freshDef s (.conj ls') cs).2 ∧ PInv (freshDef s (.conj ls') cs).2 ∧
          ∀ ρ, BcpFix ρ (freshDef s (.conj ls') cs).2 → _ → plit ρ (freshDef s (.conj ls') cs).1 = _
        obtain ⟨f1, f2, f3, f4⟩ := freshDef_p (s := s) (.conj ls') cs
          (by
            intro c hc x hx
            simp only [cs, List.mem_append, List.mem_map, List.mem_singleton] at hc
            rcases hc with ⟨y, hy, rfl⟩ | rfl
            · simp only [List.mem_cons, List.not_mem_nil, or_false] at hx
              rcases hx with rfl | rfl
              · simp [Lit.neg]
              · exact Nat.lt_succ_of_lt (hrange _ hy)
            · simp only [List.mem_cons, List.mem_map] at hx
              rcases hx with rfl | ⟨y, hy, rfl⟩
              · simp
              · exact Nat.lt_succ_of_lt (hrange y hy))
          (by
            intro c hc
            simp only [cs, List.mem_append, List.mem_map, List.mem_singleton] at hc
            rcases hc with ⟨y, hy, rfl⟩ | rfl
            · refine ⟨_, List.mem_cons_self, y, by simp, ?_, value_fresh s _, ?_⟩
              · have := hrange y hy; simp only [neg_var]; omega
              · rw [value_old]; exact j2 y hy
            · refine ⟨_, List.mem_cons_self, l1.neg, by simp [ls'], ?_, value_fresh s _, ?_⟩
              · have := hrange l1 (by simp); simp only [neg_var]; omega
              · rw [value_old, value_neg, j2 l1 (by simp)]; rfl)
        have hsem : ∀ ρ, BcpFix ρ (freshDef s (.conj ls') cs).2 → (∀ x ∈ ls', plit ρ x ≠ none) →
            plit ρ ⟨s.nvars, true⟩ = some (ls'.all (val ρ)) := by
          intro ρ hρ hd
          have hcl := f4 ρ hρ
          refine conj_resp (fun l hl' => hcl _ ?_) (hcl _ ?_) hd
          · simp only [cs, List.mem_append, List.mem_map]; exact Or.inl ⟨l, hl', rfl⟩
          · simp [cs]
        refine ⟨f2, fun e he ρ hρ => ?_, fun ρ hρ hd => ?_⟩
        · rw [f3] at he
          simp only [List.mem_append, List.mem_singleton] at he
          rcases he with he | rfl
          · exact hp e he ρ (BcpFix.mono f2 hρ)
          · exact hsem ρ hρ
        · rw [f1, ← hall ρ (BcpFix.mono f2 hρ)]
          exact hsem ρ hρ (fun x hx => hd x (hsub x hx))

/-! ## `newDisj` -/

theorem disj_p {s : Enc} (hp : PInv s) {ls : List Lit} (hl : InRange s ls) :
    Mono s (s.newDisj ls).2 ∧ PInv (s.newDisj ls).2 ∧
    ∀ ρ, BcpFix ρ (s.newDisj ls).2 → (∀ x ∈ ls, plit ρ x ≠ none) →
      plit ρ (s.newDisj ls).1 = some (ls.any (val ρ)) := by
  unfold Enc.newDisj
  cases hsc : scanJunct s true (sortByVar ls) none [] with
  | none =>
    refine ⟨Mono.refl s, hp, fun ρ hρ hd => ?_⟩
    obtain ⟨l, hl1, hl2⟩ := scan_none_p hρ.2.1 hsc (fun x hx => hd x (mem_sortByVar.1 hx))
    show plit ρ Lit.trueLit = _
    rw [plit_trueLit hρ.1]
    congr 1
    symm
    rw [List.any_eq_true]
    exact ⟨l, mem_sortByVar.1 hl1, hl2⟩
  | some ls' =>
    obtain ⟨j1, j2, _⟩ := scanJunct_init_some hsc
    have hany : ∀ ρ, BcpFix ρ s → ls'.any (val ρ) = ls.any (val ρ) := fun ρ hρ =>
      any_congr_f ((scan_some_p hρ.2.1 hsc).trans exists_sorted_f)
    have hsub : ∀ l ∈ ls', l ∈ ls := fun l hl' => mem_sortByVar.1 (j1 l hl')
    have hrange : ∀ l ∈ ls', l.var < s.nvars := fun l hl' => hl l (hsub l hl')
    match ls', hany, hsub, hrange, j2 with
    | [], hany, _, _, _ =>
      refine ⟨Mono.refl s, hp, fun ρ hρ _ => ?_⟩
      show plit ρ Lit.falseLit = _
      rw [plit_falseLit hρ.1, ← hany ρ hρ]; rfl
    | [l], hany, hsub, _, _ =>
      refine ⟨Mono.refl s, hp, fun ρ hρ hd => ?_⟩
      show plit ρ l = _
      rw [← hany ρ hρ, plit_eq_val (hd l (hsub l (by simp)))]; simp
    | l1 :: l2 :: t, hany, hsub, hrange, j2 =>
      dsimp only
      cases hlk : s.lookup (.disj (l1 :: l2 :: t)) with
      | some l =>
        refine ⟨Mono.refl s, hp, fun ρ hρ hd => ?_⟩
        show plit ρ l = _
        rw [← hany ρ hρ]
        exact hp _ (lookup_some hlk) ρ hρ (fun x hx => hd x (hsub x hx))
      | none =>
        let ls' := l1 :: l2 :: t
        let cs : Lit → List (List Lit) := fun ctr => ls'.map (fun l => [l.neg, ctr]) ++ [ctr.neg :: ls']
        show Mono s (freshDef s (.disj ls') cs).2 ∧ PInv (freshDef s (.disj ls') cs).2 ∧
          ∀ ρ, BcpFix ρ (freshDef s (.disj ls') cs).2 → _ → plit ρ (freshDef s (.disj ls') cs).1 = _
        obtain ⟨f1, f2, f3, f4⟩ := freshDef_p (s := s) (.disj ls') cs
          (by
            intro c hc x hx
            simp only [cs, List.mem_append, List.mem_map, List.mem_singleton] at hc
            rcases hc with ⟨y, hy, rfl⟩ | rfl
            · simp only [List.mem_cons, List.not_mem_nil, or_false] at hx
              rcases hx with rfl | rfl
              · exact Nat.lt_succ_of_lt (hrange y hy)
              · simp
            · simp only [List.mem_cons] at hx
              rcases hx with rfl | hx
              · simp [Lit.neg]
              · exact Nat.lt_succ_of_lt (hrange _ hx))
          (by
            intro c hc
            simp only [cs, List.mem_append, List.mem_map, List.mem_singleton] at hc
            rcases hc with ⟨y, hy, rfl⟩ | rfl
            · refine ⟨(⟨s.nvars, true⟩ : Lit), by simp, y.neg, by simp, ?_, value_fresh s _, ?_⟩
              · have := hrange y hy; simp only [neg_var]; omega
              · rw [value_old, value_neg, j2 y hy]; rfl
            · refine ⟨_, List.mem_cons_self, l1, by simp [ls'], ?_, value_fresh s _, ?_⟩
              · have := hrange l1 (by simp); simp only [neg_var]; omega
              · rw [value_old]; exact j2 l1 (by simp))
        have hsem : ∀ ρ, BcpFix ρ (freshDef s (.disj ls') cs).2 → (∀ x ∈ ls', plit ρ x ≠ none) →
            plit ρ ⟨s.nvars, true⟩ = some (ls'.any (val ρ)) := by
          intro ρ hρ hd
          have hcl := f4 ρ hρ
          refine disj_resp (fun l hl' => hcl _ ?_) (hcl _ ?_) hd
          · simp only [cs, List.mem_append, List.mem_map]; exact Or.inl ⟨l, hl', rfl⟩
          · simp [cs]
        refine ⟨f2, fun e he ρ hρ => ?_, fun ρ hρ hd => ?_⟩
        · rw [f3] at he
          simp only [List.mem_append, List.mem_singleton] at he
          rcases he with he | rfl
          · exact hp e he ρ (BcpFix.mono f2 hρ)
          · exact hsem ρ hρ
        · rw [f1, ← hany ρ (BcpFix.mono f2 hρ)]
          exact hsem ρ hρ (fun x hx => hd x (hsub x hx))

/-! ## `newEq` -/

theorem eq_p {s : Enc} (hp : PInv s) {a b : Lit} (ha : a.var < s.nvars) (hb : b.var < s.nvars) :
    Mono s (s.newEq a b).2 ∧ PInv (s.newEq a b).2 ∧
    ∀ ρ, BcpFix ρ (s.newEq a b).2 → plit ρ a ≠ none → plit ρ b ≠ none →
      plit ρ (s.newEq a b).1 = some (val ρ a == val ρ b) := by
  unfold Enc.newEq
  cases hva : s.value a with
  | some va =>
    cases hvb : s.value b with
    | some vb =>
      have e1 : ∀ ρ, BcpFix ρ s → val ρ a = va := fun ρ hρ => val_of_some (plit_of_value hρ.2.1 hva)
      have e2 : ∀ ρ, BcpFix ρ s → val ρ b = vb := fun ρ hρ => val_of_some (plit_of_value hρ.2.1 hvb)
      cases va <;> cases vb <;> dsimp only <;>
        refine ⟨Mono.refl s, hp, fun ρ hρ _ _ => ?_⟩ <;>
        rw [e1 ρ hρ, e2 ρ hρ] <;> first | exact plit_trueLit hρ.1 | exact plit_falseLit hρ.1
    | none =>
      have e1 : ∀ ρ, BcpFix ρ s → val ρ a = va := fun ρ hρ => val_of_some (plit_of_value hρ.2.1 hva)
      cases va <;> dsimp only <;>
        refine ⟨Mono.refl s, hp, fun ρ hρ _ hdb => ?_⟩ <;>
        rw [e1 ρ hρ]
      · rw [plit_neg_some (plit_eq_val hdb)]; simp
      · rw [plit_eq_val hdb]; simp
  | none =>
    cases hvb : s.value b with
    | some vb =>
      have e2 : ∀ ρ, BcpFix ρ s → val ρ b = vb := fun ρ hρ => val_of_some (plit_of_value hρ.2.1 hvb)
      cases vb <;> dsimp only <;>
        refine ⟨Mono.refl s, hp, fun ρ hρ hda _ => ?_⟩ <;>
        rw [e2 ρ hρ]
      · rw [plit_neg_some (plit_eq_val hda)]; simp
      · rw [plit_eq_val hda]; simp
    | none =>
      dsimp only
      let k : Key := if a.idx < b.idx then Key.eq a b else Key.eq b a
      have hksem : ∀ ρ l, PKeySem ρ k l ↔
          (plit ρ a ≠ none → plit ρ b ≠ none → plit ρ l = some (val ρ a == val ρ b)) := by
        intro ρ l
        simp only [k]
        split
        · exact Iff.rfl
        · show (plit ρ b ≠ none → plit ρ a ≠ none → plit ρ l = some (val ρ b == val ρ a)) ↔ _
          rw [Bool.beq_comm]
          exact ⟨fun h x y => h y x, fun h x y => h y x⟩
      cases hlk : s.lookup k with
      | some l =>
        refine ⟨Mono.refl s, hp, fun ρ hρ hda hdb => ?_⟩
        exact (hksem ρ l).1 (hp _ (lookup_some hlk) ρ hρ) hda hdb
      | none =>
        let cs : Lit → List (List Lit) := fun ctr =>
          [[ctr.neg, a.neg, b], [ctr.neg, a, b.neg], [ctr, a.neg, b.neg], [ctr, a, b]]
        show Mono s (freshDef s k cs).2 ∧ PInv (freshDef s k cs).2 ∧
          ∀ ρ, BcpFix ρ (freshDef s k cs).2 → _ → _ → plit ρ (freshDef s k cs).1 = _
        obtain ⟨f1, f2, f3, f4⟩ := freshDef_p (s := s) k cs
          (by
            intro c hc x hx
            simp only [cs, List.mem_cons, List.not_mem_nil, or_false] at hc
            rcases hc with rfl | rfl | rfl | rfl <;>
              simp only [List.mem_cons, List.not_mem_nil, or_false] at hx <;>
              rcases hx with rfl | rfl | rfl <;> (try simp only [neg_var]) <;> omega)
          (by
            intro c hc
            simp only [cs, List.mem_cons, List.not_mem_nil, or_false] at hc
            rcases hc with rfl | rfl | rfl | rfl
            · refine ⟨_, List.mem_cons_self, a.neg, by simp, ?_, value_fresh s _, ?_⟩
              · simp only [neg_var]; omega
              · rw [value_old, value_neg, hva]; rfl
            · refine ⟨_, List.mem_cons_self, a, by simp, ?_, value_fresh s _, ?_⟩
              · simp only [neg_var]; omega
              · rw [value_old, hva]
            · refine ⟨_, List.mem_cons_self, a.neg, by simp, ?_, value_fresh s _, ?_⟩
              · simp only [neg_var]; omega
              · rw [value_old, value_neg, hva]; rfl
            · refine ⟨_, List.mem_cons_self, a, by simp, ?_, value_fresh s _, ?_⟩
              · show s.nvars ≠ a.var; omega
              · rw [value_old, hva])
        have hsem : ∀ ρ, BcpFix ρ (freshDef s k cs).2 → plit ρ a ≠ none → plit ρ b ≠ none →
            plit ρ ⟨s.nvars, true⟩ = some (val ρ a == val ρ b) := by
          intro ρ hρ hda hdb
          have hcl := f4 ρ hρ
          exact eq_resp (hcl _ (by simp [cs])) (hcl _ (by simp [cs])) (hcl _ (by simp [cs]))
            (hcl _ (by simp [cs])) hda hdb
        refine ⟨f2, fun e he ρ hρ => ?_, fun ρ hρ hda hdb => ?_⟩
        · rw [f3] at he
          simp only [List.mem_append, List.mem_singleton] at he
          rcases he with he | rfl
          · exact hp e he ρ (BcpFix.mono f2 hρ)
          · exact (hksem ρ _).2 (hsem ρ hρ)
        · rw [f1]
          exact hsem ρ hρ hda hdb

end FormL
end Oratio
