/-
C09X, part 8: the literal-level fact: every literal of a conflict clause of
`assert_lower / assert_upper / propagate` is false in the SAT state, provided the reason of every
bound is true in it (`ReasonsTrue`) and so is the literal being asserted.
-/
import OratioProofs.Lemmas.LraExplLit

namespace Oratio
namespace Lra
open IR Lin

/-- the SAT state only gains values, and a conflict clause is false in the final state -/
def OutF (s : Sat) (r : Option (List Lit) × Sat) : Prop :=
  Dl.SatLe s r.2 ∧ ∀ c, r.1 = some c → ∀ l ∈ c, r.2.value l = some false

theorem OutF.nil (s : Sat) : OutF s (Option.none, s) := ⟨Dl.SatLe.refl s, fun c h => (by cases h)⟩

theorem OutF.rec1 (s : Sat) (c : List Lit) : OutF s (Option.none, s.record c) :=
  ⟨Dl.record_le s c, fun c h => (by cases h)⟩

theorem OutF.confl (s : Sat) {c : List Lit} (h : ∀ l ∈ c, s.value l = some false) : OutF s (some c, s) :=
  ⟨Dl.SatLe.refl s, fun c' h' => (by cases h'; exact h)⟩

theorem OutF.trans {s s1 : Sat} {r : Option (List Lit) × Sat} (h1 : Dl.SatLe s s1) (h2 : OutF s1 r) : OutF s r :=
  ⟨Dl.SatLe.trans h1 h2.1, h2.2⟩

theorem value_neg_of_true {s : Sat} {l : Lit} (h : s.value l = some true) : s.value l.neg = some false := by
  unfold Sat.value litValue at h ⊢
  show (match s.vals.getD l.var none with | none => none | some b => some (if (!l.sign) = true then b else !b)) = _
  cases hv : s.vals.getD l.var none with
  | none => simp only [hv] at h; cases h
  | some b =>
    simp only [hv] at h ⊢
    cases hsg : l.sign <;> simp [hsg] at h ⊢ <;> exact h

theorem ReasonsTrue.mono {s s' : Sat} {t : Lra} (h : ReasonsTrue s t) (hs : Dl.SatLe s s') : ReasonsTrue s' t :=
  fun x => ⟨Dl.value_mono hs _ _ (h x).1, Dl.value_mono hs _ _ (h x).2⟩

theorem false_mono {s s' : Sat} (hs : Dl.SatLe s s') {ex : List Lit} (h : ∀ l ∈ ex, s.value l = some false) :
    ∀ l ∈ ex, s'.value l = some false := fun l hl => Dl.value_mono hs _ _ (h l hl)

theorem forAll_F {f : Sat → Nat → Option (List Lit) × Sat} :
    ∀ (ws : List Nat) (s : Sat), (∀ s' w, w ∈ ws → Dl.SatLe s s' → OutF s' (f s' w)) → OutF s (forAll f s ws) := by
  intro ws
  induction ws with
  | nil => intro s _; exact OutF.nil s
  | cons w ws ih =>
    intro s hf
    have h1 := hf s w List.mem_cons_self (Dl.SatLe.refl s)
    unfold forAll
    split
    · next c s' he =>
      rw [he] at h1
      exact h1
    · next s' he =>
      rw [he] at h1
      have hle : Dl.SatLe s s' := h1.1
      exact OutF.trans hle (ih s' (fun s'' w' hw' hle' => hf s'' w' (List.mem_cons_of_mem _ hw') (Dl.SatLe.trans hle hle')))

theorem cons2_false {s : Sat} {a b : Lit} (ha : s.value a = some false) (hb : s.value b = some false) :
    ∀ l ∈ [a, b], s.value l = some false := by
  intro l hl
  rcases List.mem_cons.1 hl with rfl | hl
  · exact ha
  · rw [List.mem_singleton] at hl; rw [hl]; exact hb

theorem cons_false {s : Sat} {a : Lit} {ex : List Lit} (ha : s.value a = some false)
    (hex : ∀ l ∈ ex, s.value l = some false) : ∀ l ∈ a :: ex, s.value l = some false := by
  intro l hl
  rcases List.mem_cons.1 hl with rfl | hl
  · exact ha
  · exact hex l hl

theorem asrtPropagateLb_F {s : Sat} {t : Lra} (hr : ReasonsTrue s t) (a : LAsrt) (xi : Nat) :
    OutF s (asrtPropagateLb s t a xi) := by
  have hrf := value_neg_of_true (hr xi).1
  unfold asrtPropagateLb
  cases ho : a.o <;> simp only
  · rcases hv : s.value a.b with _ | _ | _ <;> simp only
    · split
      · exact OutF.rec1 s _
      · exact OutF.nil s
    · exact OutF.nil s
    · split
      · exact OutF.confl s (cons2_false (value_neg_of_true hv) hrf)
      · exact OutF.nil s
  · rcases hv : s.value a.b with _ | _ | _ <;> simp only
    · split
      · exact OutF.rec1 s _
      · exact OutF.nil s
    · split
      · exact OutF.confl s (cons2_false hv hrf)
      · exact OutF.nil s
    · exact OutF.nil s

theorem asrtPropagateUb_F {s : Sat} {t : Lra} (hr : ReasonsTrue s t) (a : LAsrt) (xi : Nat) :
    OutF s (asrtPropagateUb s t a xi) := by
  have hrf := value_neg_of_true (hr xi).2
  unfold asrtPropagateUb
  cases ho : a.o <;> simp only
  · rcases hv : s.value a.b with _ | _ | _ <;> simp only
    · split
      · exact OutF.rec1 s _
      · exact OutF.nil s
    · split
      · exact OutF.confl s (cons2_false hv hrf)
      · exact OutF.nil s
    · exact OutF.nil s
  · rcases hv : s.value a.b with _ | _ | _ <;> simp only
    · split
      · exact OutF.rec1 s _
      · exact OutF.nil s
    · exact OutF.nil s
    · split
      · exact OutF.confl s (cons2_false (value_neg_of_true hv) hrf)
      · exact OutF.nil s

theorem scanLower_F (t : Lra) (lbv : IR) (ex : List Lit) :
    ∀ (ws : List Nat) (s : Sat), (∀ l ∈ ex, s.value l = some false) → OutF s (scanLower t lbv ex s ws) := by
  intro ws
  induction ws with
  | nil => intro s _; exact OutF.nil s
  | cons b ws ih =>
    intro s hex
    unfold scanLower
    cases hab : t.asrtOf b with
    | none => exact ih s hex
    | some a =>
      simp only
      cases ho : a.o <;> simp only
      · rcases hv : s.value a.b with _ | _ | _ <;> simp only
        · split
          · exact OutF.trans (Dl.record_le s _) (ih _ (false_mono (Dl.record_le s _) hex))
          · exact ih s hex
        · exact ih s hex
        · split
          · exact OutF.confl s (cons_false (value_neg_of_true hv) hex)
          · exact ih s hex
      · rcases hv : s.value a.b with _ | _ | _ <;> simp only
        · split
          · exact OutF.trans (Dl.record_le s _) (ih _ (false_mono (Dl.record_le s _) hex))
          · exact ih s hex
        · split
          · exact OutF.confl s (cons_false hv hex)
          · exact ih s hex
        · exact ih s hex

theorem scanUpper_F (t : Lra) (ubv : IR) (ex : List Lit) :
    ∀ (ws : List Nat) (s : Sat), (∀ l ∈ ex, s.value l = some false) → OutF s (scanUpper t ubv ex s ws) := by
  intro ws
  induction ws with
  | nil => intro s _; exact OutF.nil s
  | cons b ws ih =>
    intro s hex
    unfold scanUpper
    cases hab : t.asrtOf b with
    | none => exact ih s hex
    | some a =>
      simp only
      cases ho : a.o <;> simp only
      · rcases hv : s.value a.b with _ | _ | _ <;> simp only
        · split
          · exact OutF.trans (Dl.record_le s _) (ih _ (false_mono (Dl.record_le s _) hex))
          · exact ih s hex
        · split
          · exact OutF.confl s (cons_false hv hex)
          · exact ih s hex
        · exact ih s hex
      · rcases hv : s.value a.b with _ | _ | _ <;> simp only
        · split
          · exact OutF.trans (Dl.record_le s _) (ih _ (false_mono (Dl.record_le s _) hex))
          · exact ih s hex
        · exact ih s hex
        · split
          · exact OutF.confl s (cons_false (value_neg_of_true hv) hex)
          · exact ih s hex

theorem append_false {s : Sat} {ex : List Lit} {r : Lit} (hex : ∀ l ∈ ex, s.value l = some false)
    (hr : s.value r = some false) : ∀ l ∈ ex ++ [r], s.value l = some false := by
  intro l hl
  rcases List.mem_append.1 hl with hl | hl
  · exact hex l hl
  · rw [List.mem_singleton] at hl; rw [hl]; exact hr

theorem rowLowerSum_F {s : Sat} {t : Lra} (hr : ReasonsTrue s t) :
    ∀ (vars : List (Nat × R)) (s0 : IR) (ex0 : List Lit) (sum : IR) (ex : List Lit),
      rowLowerSum t vars (s0, ex0) = some (sum, ex) → (∀ l ∈ ex0, s.value l = some false) →
      ∀ l ∈ ex, s.value l = some false := by
  intro vars
  induction vars with
  | nil =>
    intro s0 ex0 sum ex h hex
    simp only [rowLowerSum, Option.some.injEq, Prod.mk.injEq] at h
    rw [← h.2]; exact hex
  | cons p rest ih =>
    obtain ⟨cv, c⟩ := p
    intro s0 ex0 sum ex h hex
    simp only [rowLowerSum] at h
    split at h
    · split at h
      · cases h
      · exact ih _ _ _ _ h (append_false hex (value_neg_of_true (hr cv).1))
    · split at h
      · split at h
        · cases h
        · exact ih _ _ _ _ h (append_false hex (value_neg_of_true (hr cv).2))
      · exact ih _ _ _ _ h hex

theorem rowUpperSum_F {s : Sat} {t : Lra} (hr : ReasonsTrue s t) (negTest : Nat → Nat) :
    ∀ (vars : List (Nat × R)) (s0 : IR) (ex0 : List Lit) (sum : IR) (ex : List Lit),
      rowUpperSum t negTest vars (s0, ex0) = some (sum, ex) → (∀ l ∈ ex0, s.value l = some false) →
      ∀ l ∈ ex, s.value l = some false := by
  intro vars
  induction vars with
  | nil =>
    intro s0 ex0 sum ex h hex
    simp only [rowUpperSum, Option.some.injEq, Prod.mk.injEq] at h
    rw [← h.2]; exact hex
  | cons p rest ih =>
    obtain ⟨cv, c⟩ := p
    intro s0 ex0 sum ex h hex
    simp only [rowUpperSum] at h
    split at h
    · split at h
      · cases h
      · exact ih _ _ _ _ h (append_false hex (value_neg_of_true (hr cv).2))
    · split at h
      · split at h
        · cases h
        · exact ih _ _ _ _ h (append_false hex (value_neg_of_true (hr cv).1))
      · exact ih _ _ _ _ h hex

theorem lowerPart_F {s : Sat} {t : Lra} (hr : ReasonsTrue s t) (x : Nat) (l : Lin) : OutF s (lowerPart s t x l) := by
  unfold lowerPart
  split
  · exact OutF.nil s
  · next sum ex hsum =>
    split
    · exact scanLower_F t sum ex _ s (rowLowerSum_F hr _ _ _ _ _ hsum (fun l h => by cases h))
    · exact OutF.nil s

theorem upperPart_F {s : Sat} {t : Lra} (hr : ReasonsTrue s t) (x : Nat) (l : Lin) (negTest : Nat → Nat) :
    OutF s (upperPart s t x l negTest) := by
  unfold upperPart
  split
  · exact OutF.nil s
  · next sum ex hsum =>
    split
    · exact scanUpper_F t sum ex _ s (rowUpperSum_F hr negTest _ _ _ _ _ hsum (fun l h => by cases h))
    · exact OutF.nil s

theorem rowPropagateLb_F {s : Sat} {t : Lra} (hr : ReasonsTrue s t) (x v : Nat) : OutF s (rowPropagateLb s t x v) := by
  unfold rowPropagateLb
  simp only
  split
  · exact lowerPart_F hr _ _
  · exact upperPart_F hr _ _ _

theorem rowPropagateUb_F {s : Sat} {t : Lra} (hr : ReasonsTrue s t) (x v : Nat) : OutF s (rowPropagateUb s t x v) := by
  unfold rowPropagateUb
  simp only
  split
  · exact upperPart_F hr _ _ _
  · exact lowerPart_F hr _ _

/-! ### the new state -/

theorem bnd_set_cases {t u : Lra} {i : Nat} {b : LBound} (h : u.bounds = t.bounds.set i b) (j : Nat) :
    u.bnd j = b ∨ u.bnd j = t.bnd j := by
  unfold Lra.bnd
  rw [h, getD_set]
  split
  · exact Or.inl rfl
  · exact Or.inr rfl

theorem reasonsTrue_set {s : Sat} {t u : Lra} {i : Nat} {val : IR} {p : Lit} (h : u.bounds = t.bounds.set i ⟨val, p⟩)
    (hr : ReasonsTrue s t) (hp : s.value p = some true) : ReasonsTrue s u := by
  intro x
  constructor
  · unfold Lra.lbReason
    rcases bnd_set_cases h (lbIdx x) with e | e
    · rw [e]; exact hp
    · rw [e]; exact (hr x).1
  · unfold Lra.ubReason
    rcases bnd_set_cases h (ubIdx x) with e | e
    · rw [e]; exact hp
    · rw [e]; exact (hr x).2

theorem assertLower_F {s : Sat} {t : Lra} (hr : ReasonsTrue s t) (xi : Nat) (val : IR) {p : Lit}
    (hp : s.value p = some true) :
    OutF s ((assertLower s t xi val p).cnfl, (assertLower s t xi val p).sat) ∧
    ReasonsTrue (assertLower s t xi val p).sat (assertLower s t xi val p).th := by
  rcases assertLower_cases s t xi val p with ⟨_, e⟩ | ⟨_, _, e⟩ | ⟨_, _, r1, r2, e1, e2, e⟩
  · rw [e]; exact ⟨OutF.nil s, hr⟩
  · rw [e]
    exact ⟨OutF.confl s (cons2_false (value_neg_of_true hp) (value_neg_of_true (hr xi).2)), hr⟩
  · have hr' : ReasonsTrue s (alState t xi val p) := reasonsTrue_set (boundSet_al t xi val p).bounds hr hp
    have ok1 : OutF s r1 := by
      rw [e1]
      apply forAll_F
      intro s' b _ hle
      cases hab : (alState t xi val p).asrtOf b with
      | none => exact OutF.nil s'
      | some a => exact asrtPropagateLb_F (hr'.mono hle) a xi
    have ok2 : OutF r1.2 r2 := by
      rw [e2]
      apply forAll_F
      intro s' x _ hle
      exact rowPropagateLb_F ((hr'.mono ok1.1).mono hle) x xi
    rcases e with ⟨c, hc, e⟩ | ⟨hn, e⟩
    · rw [e]
      exact ⟨⟨ok1.1, fun c' hc' => ok1.2 c' (by simp only at hc'; rw [hc, ← hc'])⟩, hr'.mono ok1.1⟩
    · rw [e]
      exact ⟨OutF.trans ok1.1 ok2, (hr'.mono ok1.1).mono ok2.1⟩

theorem assertUpper_F {s : Sat} {t : Lra} (hr : ReasonsTrue s t) (xi : Nat) (val : IR) {p : Lit}
    (hp : s.value p = some true) :
    OutF s ((assertUpper s t xi val p).cnfl, (assertUpper s t xi val p).sat) ∧
    ReasonsTrue (assertUpper s t xi val p).sat (assertUpper s t xi val p).th := by
  rcases assertUpper_cases s t xi val p with ⟨_, e⟩ | ⟨_, _, e⟩ | ⟨_, _, r1, r2, e1, e2, e⟩
  · rw [e]; exact ⟨OutF.nil s, hr⟩
  · rw [e]
    exact ⟨OutF.confl s (cons2_false (value_neg_of_true hp) (value_neg_of_true (hr xi).1)), hr⟩
  · have hr' : ReasonsTrue s (auState t xi val p) := reasonsTrue_set (boundSet_au t xi val p).bounds hr hp
    have ok1 : OutF s r1 := by
      rw [e1]
      apply forAll_F
      intro s' b _ hle
      cases hab : (auState t xi val p).asrtOf b with
      | none => exact OutF.nil s'
      | some a => exact asrtPropagateUb_F (hr'.mono hle) a xi
    have ok2 : OutF r1.2 r2 := by
      rw [e2]
      apply forAll_F
      intro s' x _ hle
      exact rowPropagateUb_F ((hr'.mono ok1.1).mono hle) x xi
    rcases e with ⟨c, hc, e⟩ | ⟨hn, e⟩
    · rw [e]
      exact ⟨⟨ok1.1, fun c' hc' => ok1.2 c' (by simp only at hc'; rw [hc, ← hc'])⟩, hr'.mono ok1.1⟩
    · rw [e]
      exact ⟨OutF.trans ok1.1 ok2, (hr'.mono ok1.1).mono ok2.1⟩

theorem propagateLit_F {s : Sat} {t : Lra} (hr : ReasonsTrue s t) {p : Lit} (hp : s.value p = some true) :
    OutF s ((propagateLit s t p).cnfl, (propagateLit s t p).sat) ∧
    ReasonsTrue (propagateLit s t p).sat (propagateLit s t p).th := by
  unfold propagateLit
  cases hab : t.asrtOf p.var with
  | none => exact ⟨OutF.nil s, hr⟩
  | some a =>
    simp only
    rcases hv : s.value a.b with _ | _ | _ <;> simp only
    · exact ⟨OutF.nil s, hr⟩
    · split
      · exact assertLower_F hr _ _ hp
      · exact assertUpper_F hr _ _ hp
    · split
      · exact assertUpper_F hr _ _ hp
      · exact assertLower_F hr _ _ hp

end Lra
end Oratio
