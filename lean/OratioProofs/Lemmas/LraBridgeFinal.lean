/-
Helper lemmas for `Properties/C09Bridge.lean`, part 10: the invariant only reads the tableau, the
watch lists and the number of values; `update` in the form used by the property file; the
concrete state of the non-vacuity examples.
-/
import OratioModel
import OratioProofs.Lemmas.LraBridgeUpdate

namespace Oratio
namespace Lra
open Lin

theorem tabWF_congr {t u : Lra} (h1 : u.tableau = t.tableau) (h2 : u.tWatches = t.tWatches)
    (h3 : u.vals.length = t.vals.length) (ht : TabWF t) : TabWF u := by
  have hb : ∀ x, u.isBasic x = t.isBasic x := by
    intro x
    unfold isBasic
    rw [rowOf_eq, rowOf_eq, h1]
  refine ⟨by rw [h1]; exact ht.keys, by rw [h1]; exact ht.rows, by rw [h1, h2]; exact ht.bound, ?_,
    by rw [h2]; exact ht.wsorted, by rw [h1, h2]; exact ht.watch, by rw [h2, h3]; exact ht.wlen⟩
  intro e he p hp
  rw [hb]
  exact ht.nonbasic e (h1 ▸ he) p hp

/-- the rational / infinitesimal parts of the current assignment -/
def ratAssign (t : Lra) : Nat → Rat := fun x => (t.value x).rat.toRat
def infAssign (t : Lra) : Nat → Rat := fun x => (t.value x).inf.toRat

theorem update_rat {t : Lra} (ht : TabWF t) {xi : Nat} (hnb : t.isBasic xi = false) (hxi : xi < t.vals.length)
    {v : IR} (hv : R.FinWF v.rat) (hfin : ∀ x, R.FinWF (t.value x).rat)
    (h : ∀ e ∈ t.tableau, t.ratAssign e.1 = Lin.evalS e.2 t.ratAssign) :
    (∀ e ∈ (t.update xi v).tableau, (t.update xi v).ratAssign e.1 = Lin.evalS e.2 (t.update xi v).ratAssign) ∧
    TabWF (t.update xi v) ∧ (t.update xi v).tableau = t.tableau ∧
    (t.update xi v).value xi = v ∧
    (∀ x, t.isBasic x = false → x ≠ xi → (t.update xi v).value x = t.value x) ∧
    (∀ x, R.FinWF ((t.update xi v).value x).rat) := by
  obtain ⟨u1, u2, u3, u4, u5, u6, u7⟩ := update_holds isComp_rat ht ((isBasic_false_iff t xi).1 hnb) hxi hfin hv
    (fun _ => 0) (fun e he => by rw [sub_zero]; exact h e he)
  refine ⟨fun e he => ?_, tabWF_congr u1 u2 u3 ht, u1, u4,
    fun x hx hne => u5 x ((isBasic_false_iff t x).1 hx) hne, u6⟩
  have := u7 e he
  rw [sub_zero] at this
  exact this

theorem evalS_homog (l : Lin) (σ : Nat → Rat) :
    Lin.evalS { l with known := R.zero } σ = Lin.evalS l σ - l.known.toRat := by
  rw [evalS_eq, evalS_eq]
  show _ + R.zero.toRat = _
  rw [R.toRat_zero]
  ring

theorem update_inf {t : Lra} (ht : TabWF t) {xi : Nat} (hnb : t.isBasic xi = false) (hxi : xi < t.vals.length)
    {v : IR} (hv : R.FinWF v.inf) (hfin : ∀ x, R.FinWF (t.value x).inf)
    (h : ∀ e ∈ t.tableau, t.infAssign e.1 = Lin.evalS { e.2 with known := R.zero } t.infAssign) :
    (∀ e ∈ (t.update xi v).tableau,
      (t.update xi v).infAssign e.1 = Lin.evalS { e.2 with known := R.zero } (t.update xi v).infAssign) ∧
    (∀ x, R.FinWF ((t.update xi v).value x).inf) := by
  obtain ⟨-, -, -, -, -, u6, u7⟩ := update_holds isComp_inf ht ((isBasic_false_iff t xi).1 hnb) hxi hfin hv
    (fun l => l.known.toRat) (fun e he => by rw [← evalS_homog]; exact h e he)
  refine ⟨fun e he => ?_, u6⟩
  rw [evalS_homog]
  exact u7 e he

/-! ### the concrete state of the examples -/

/-- `x2 = x0 + 2·x1 + 3` -/
def c09bRow2 : Lin := ⟨[(0, ⟨1, 1⟩), (1, ⟨2, 1⟩)], ⟨3, 1⟩⟩
/-- `x3 = x0 - x1` -/
def c09bRow3 : Lin := ⟨[(0, ⟨1, 1⟩), (1, ⟨-1, 1⟩)], ⟨0, 1⟩⟩

/-- `x0`, `x1` non-basic with value 1, the basic `x2`, `x3` with the values of their rows -/
def c09bState : Lra :=
  { bounds := [], vals := [IR.ofR R.one, IR.ofR R.one, IR.ofR ⟨6, 1⟩, IR.ofR R.zero],
    tableau := [(2, c09bRow2), (3, c09bRow3)],
    exprs := [], sAsrts := [], vAsrts := [], aWatches := [[], [], [], []],
    tWatches := [[2, 3], [2, 3], [], []], layers := [] }

theorem c09bRow2_wf : c09bRow2.WF := by
  refine ⟨⟨by decide, trivial⟩, ?_, by decide, by decide⟩
  intro t ht; simp [c09bRow2] at ht; rcases ht with rfl | rfl <;> decide

theorem c09bRow3_wf : c09bRow3.WF := by
  refine ⟨⟨by decide, trivial⟩, ?_, by decide, by decide⟩
  intro t ht; simp [c09bRow3] at ht; rcases ht with rfl | rfl <;> decide

theorem c09bState_wf : TabWF c09bState := by
  refine ⟨by decide, ?_, by decide, by decide, by decide, ?_, by decide⟩
  · intro e he
    simp only [c09bState, List.mem_cons, List.not_mem_nil, or_false] at he
    rcases he with rfl | rfl
    · exact c09bRow2_wf
    · exact c09bRow3_wf
  · intro v r
    match v with
    | 0 => simp [c09bState, c09bRow2, c09bRow3]; omega
    | 1 => simp [c09bState, c09bRow2, c09bRow3]; omega
    | 2 => simp [c09bState, c09bRow2, c09bRow3]
    | 3 => simp [c09bState, c09bRow2, c09bRow3]
    | n + 4 => simp [c09bState, c09bRow2, c09bRow3]

/-- a solution of the tableau of `c09bState` (its own assignment) -/
def c09bSigma : Nat → Rat := fun x => match x with | 0 => 1 | 1 => 1 | 2 => 6 | 3 => 0 | _ => 0

/-- a valuation that violates the row of `x2` -/
def c09bBad : Nat → Rat := fun _ => 0

end Lra
end Oratio
