/-
C07N, target 4: `Net.popTo` keeps the invariant; `backtrackAnalyzeAndBackjump` (the `bj` operation of the
driver: a conflict clause given from outside) under the hypothesis that the clause is T-entailed by the
added clauses and all its literals are false.
-/
import OratioProofs.Lemmas.NetCons2

set_option linter.unusedSimpArgs false
set_option linter.unusedVariables false

namespace Oratio
namespace Net
open Sat

/-- what `popTo` keeps of the SAT core -/
structure PopFacts (s t : Sat) (lvl : Nat) : Prop where
  queue : t.queue = s.queue
  dead : t.dead = s.dead
  level : t.decisionLevel = min lvl s.decisionLevel
  kept : ∀ x ∈ s.trail, s.lvl x ≤ lvl → x ∈ t.trail ∧ t.lvl x = s.lvl x

theorem NetInv.popTo {n : Net} {orig L : Cnf} {fr : List Frame} (h : NetInv n orig L fr) (hq : n.sat.queue = [])
    (lvl : Nat) : ∃ fr', NetInv (popTo n lvl) orig L fr' ∧ PopFacts n.sat (popTo n lvl).sat lvl := by
  obtain ⟨fr', t1, t2, t3⟩ := ThInv.popTo_goLv lvl n.sat.decisionLevel n fr h.th h.sat.wf hq h.flv h.flen
  have hps : (Net.popTo n lvl).sat = n.sat.popTo lvl := popTo_sat n lvl
  have hlem : ∀ c ∈ L, TEntails (Net.popTo n lvl) orig c :=
    fun c hc => TEntails.congr (fun α hm => (TModel.popTo n lvl α).1 hm) (h.lemmas c hc)
  by_cases hlt : lvl < n.sat.decisionLevel
  · have hw := fun m => wfs_popTo (m := m) h.sat.wf h.sat.ent (h.sat.dec m) hq lvl hlt
    obtain ⟨w1, w2, _, w4, w5⟩ := hw 0
    refine ⟨fr', ⟨by rw [hps]; exact ⟨w1, w2, fun m => (hw m).2.2.1⟩, hlem, t1, t2, t3, ?_⟩, ?_⟩
    · show ThReg (Net.popTo n lvl).sat.vals.length _ _ _
      rw [hps, w4.lenVals]
      exact ThReg.popTo_go lvl _ n h.reg
    · rw [hps]
      refine ⟨w4.queue, w4.dead, by rw [w5]; omega, fun x hx hl => ?_⟩
      have hk := w4.kept x hx (by rw [w5]; exact hl)
      exact ⟨hk, (w4.mem x hk).2.1⟩
  · have hid : n.sat.popTo lvl = n.sat := popTo_of_le _ _ (by omega)
    refine ⟨fr', ⟨by rw [hps, hid]; exact h.sat, hlem, t1, t2, t3, ?_⟩, ?_⟩
    · show ThReg (Net.popTo n lvl).sat.vals.length _ _ _
      rw [hps, hid]
      exact ThReg.popTo_go lvl _ n h.reg
    · rw [hps, hid]
      exact ⟨rfl, rfl, by omega, fun x hx _ => ⟨hx, rfl⟩⟩

/-- the maximum of the levels is attained -/
theorem foldl_max_attained (f : Lit → Nat) : ∀ (c : List Lit) (m : Nat),
    c.foldl (fun m l => max m (f l)) m = m ∨ ∃ l ∈ c, f l = c.foldl (fun m l => max m (f l)) m
  | [], m => Or.inl rfl
  | x :: c, m => by
    simp only [List.foldl_cons]
    rcases foldl_max_attained f c (max m (f x)) with h | ⟨l, hl, h⟩
    · rw [h]
      by_cases hx : f x ≤ m
      · left; omega
      · right; exact ⟨x, List.mem_cons_self, by omega⟩
    · exact Or.inr ⟨l, List.mem_cons_of_mem _ hl, h⟩

theorem foldl_max_ge (f : Lit → Nat) : ∀ (c : List Lit) (m : Nat),
    m ≤ c.foldl (fun m l => max m (f l)) m ∧ ∀ l ∈ c, f l ≤ c.foldl (fun m l => max m (f l)) m
  | [], m => ⟨Nat.le_refl _, fun l hl => by cases hl⟩
  | x :: c, m => by
    simp only [List.foldl_cons]
    obtain ⟨h1, h2⟩ := foldl_max_ge f c (max m (f x))
    refine ⟨by omega, fun l hl => ?_⟩
    rcases List.mem_cons.1 hl with rfl | hl
    · omega
    · exact h2 l hl

/-- the side condition of `bj`: `ConflictsCurrent` for the call of `propagate` it ends with -/
def BjGuard (n : Net) (cnfl : Clause) (fuel : Nat) : Prop :=
  let bt := cnfl.foldl (fun m l => max m (n.sat.level.getD l.var 0)) 0
  if (Net.popTo n bt).sat.rootLevel then
    match (Net.popTo n bt).sat.newClause cnfl with
    | (false, _) => True
    | (true, s) => ConflictsCurrent { Net.popTo n bt with sat := s } fuel
  else match learnFrom (Net.popTo n bt) cnfl with
    | none => True
    | some n2 => ConflictsCurrent n2 fuel

/-- **`backtrack_analyze_and_backjump`** for a conflict clause given from outside: T-entailed by the added
    clauses, all literals false, empty queue.  The invariant is kept, the result is at root level or has
    an empty queue, the T-models are unchanged, and the answer `false` means T-unsatisfiability. -/
theorem NetInv.bj {n : Net} {orig L : Cnf} {fr : List Frame} (h : NetInv n orig L fr) (hq : n.sat.queue = [])
    (hd : n.sat.dead = false) (cnfl : Clause) (hT : TEntails n orig cnfl) (hF : ∀ l ∈ cnfl, n.sat.value l = some false)
    (fuel : Nat) (hg : BjGuard n cnfl fuel) (b : Bool) (n' : Net) (he : backtrackAnalyzeAndBackjump n cnfl fuel = some (b, n')) :
    (∃ L' fr', NetInv n' orig L' fr') ∧ (n'.sat.queue = [] ∨ n'.sat.trailLim = []) ∧ (∀ α, TModel n' α ↔ TModel n α) ∧
    (b = false → TUnsat n' orig) := by
  unfold backtrackAnalyzeAndBackjump at he
  unfold BjGuard at hg
  simp only at he hg
  generalize hbt : cnfl.foldl (fun m l => max m (n.sat.level.getD l.var 0)) 0 = bt at he hg
  obtain ⟨fr1, h1, pf⟩ := h.popTo hq bt
  have htm1 : ∀ α, TModel (Net.popTo n bt) α ↔ TModel n α := TModel.popTo n bt
  have hT1 : TEntails (Net.popTo n bt) orig cnfl := TEntails.congr (fun α hm => (htm1 α).1 hm) hT
  have hge := foldl_max_ge (fun l => n.sat.level.getD l.var 0) cnfl 0
  rw [hbt] at hge
  -- the literals are still false
  have hF1 : ∀ l ∈ cnfl, (Net.popTo n bt).sat.value l = some false := by
    intro l hl
    rcases h.sat.wf.a.value_false.1 (hF l hl) with ht | rfl
    · exact h1.sat.wf.a.value_false.2 (Or.inl (pf.kept _ ht (hge.2 l hl)).1)
    · exact h1.sat.wf.a.value_false.2 (Or.inr rfl)
  have hq1 : (Net.popTo n bt).sat.queue = [] := by rw [pf.queue]; exact hq
  have hd1 : (Net.popTo n bt).sat.dead = false := by rw [pf.dead]; exact hd
  by_cases hroot : (Net.popTo n bt).sat.rootLevel = true
  · rw [if_pos hroot] at he hg
    have hroot' : (Net.popTo n bt).sat.trailLim = [] := (rootLevel_iff _).1 hroot
    have hr : ∀ l ∈ cnfl, l.var < (Net.popTo n bt).sat.vals.length := by
      intro l hl
      have := hF1 l hl
      rw [value_eq_false] at this
      exact getD_some_lt this
    obtain ⟨k1, k2, k3, k4, k5, k6, k7, k8, k9⟩ := newClause_sinv h1.sat hroot' cnfl hr
    have h2 := h1.addLemma cnfl hT1
    have hs2 : SInv (orig ++ (L ++ [cnfl])) orig ((Net.popTo n bt).sat.newClause cnfl).2 :=
      ⟨k1.wf, (k1.ent.mono_orig (fun d hd' => by
          rcases List.mem_append.1 hd' with hd' | hd'
          · rcases List.mem_append.1 hd' with hd' | hd'
            · exact List.mem_append_left _ hd'
            · exact List.mem_append_right _ (List.mem_append_left _ hd')
          · exact List.mem_append_right _ (List.mem_append_right _ hd'))).keeps_weaken
        (fun d hd' => List.mem_append_left _ hd'), k1.dec⟩
    have h3 : NetInv { Net.popTo n bt with sat := ((Net.popTo n bt).sat.newClause cnfl).2 } orig (L ++ [cnfl]) fr1 :=
      h2.setSat _ hs2 k2 (by rw [k3, hroot']) k8
    cases hnc : (Net.popTo n bt).sat.newClause cnfl with
    | mk bb s' =>
      rw [hnc] at he hg h3 k3 k4 k5
      simp only at hg h3 k3 k4 k5
      cases bb with
      | false =>
        simp only [Option.some.injEq, Prod.mk.injEq] at he
        obtain ⟨rfl, rfl⟩ := he
        have hdead : s'.dead = true := k4 rfl
        have hU := h3.sat.ent.dead hdead
        have h4 : NetInv { Net.popTo n bt with sat := { s' with dead := true } } orig (L ++ [cnfl]) fr1 :=
          ⟨h3.sat.setDead hU, h3.lemmas, h3.th.assign _ (Dl.SatLe.refl _),
            FramesLv.keep (s := s') (s' := { s' with dead := true }) (fun v b hv => ⟨hv, rfl⟩) fr1 h3.flv, h3.flen, h3.reg⟩
        exact ⟨⟨_, _, h4⟩, Or.inr k3, htm1, fun _ => h4.sound.dead rfl⟩
      | true =>
        simp only at he
        have hd3 : s'.dead = false := by rw [k5 rfl]; exact hd1
        have po := propagate_inv fuel _ _ _ h3 hd3 hg b n' he
        obtain ⟨L', fr', hi'⟩ := po.inv
        exact ⟨⟨L', fr', hi'⟩, Or.inl po.queue, fun α => (po.tm α).trans (htm1 α),
          fun hb => hi'.sound.dead (by rw [po.dead, hb]; rfl)⟩
  · rw [if_neg hroot] at he hg
    have hdl := dl_pos_of_not_root hroot
    -- the level after the backjump is `bt`, attained by a literal of the clause
    have hlev : (Net.popTo n bt).sat.decisionLevel = bt := by
      have hbtle : bt ≤ n.sat.decisionLevel := by
        rcases foldl_max_attained (fun l => n.sat.level.getD l.var 0) cnfl 0 with e | ⟨l, hl, e⟩
        · rw [hbt] at e; omega
        · rw [hbt] at e
          rcases h.sat.wf.a.value_false.1 (hF l hl) with ht | rfl
          · have := h.sat.wf.a.lvl_le ht
            simp only [lvl] at this
            have e' : n.sat.level.getD l.neg.var 0 = bt := e
            omega
          · have := h.sat.wf.lvl0
            have e' : n.sat.level.getD 0 0 = bt := e
            omega
      rw [pf.level]; omega
    have hcL : HasCurrent (Net.popTo n bt).sat cnfl := by
      rcases foldl_max_attained (fun l => n.sat.level.getD l.var 0) cnfl 0 with e | ⟨l, hl, e⟩
      · rw [hbt] at e; omega
      · rw [hbt] at e
        rcases h.sat.wf.a.value_false.1 (hF l hl) with ht | rfl
        · have hk := pf.kept _ ht (by show n.sat.level.getD l.neg.var 0 ≤ bt; exact Nat.le_of_eq e)
          refine ⟨l, hl, hk.1, ?_⟩
          have : (Net.popTo n bt).sat.lvl l = n.sat.lvl l := hk.2
          rw [this, hlev]; exact e
        · have := h.sat.wf.lvl0
          have e' : n.sat.level.getD 0 0 = bt := e
          omega
    cases hlf : learnFrom (Net.popTo n bt) cnfl with
    | none => rw [hlf] at he; simp at he
    | some n2 =>
      rw [hlf] at he hg
      simp only at he hg
      obtain ⟨fr2, l1, l2, l3, l4⟩ := h1.learn hq1 hdl hT1 hF1 hcL hlf
      have po := propagate_inv fuel n2 _ fr2 l1 (by rw [l2]; exact hd1) hg b n' he
      obtain ⟨L', fr', hi'⟩ := po.inv
      exact ⟨⟨L', fr', hi'⟩, Or.inl po.queue, fun α => ((po.tm α).trans (l3 α)).trans (htm1 α),
        fun hb => hi'.sound.dead (by rw [po.dead, hb]; rfl)⟩

end Net
end Oratio
