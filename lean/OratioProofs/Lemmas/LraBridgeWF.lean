/-
Helper lemmas for `Properties/C09Bridge.lean`, part 7: the invariant `Lra.TabWF` of the tableau
and of the watch lists, stated on the data (list membership); its equivalence with the `rowOf`
form `Lra.Inv`; the model's `init`, `newVar`, `newVarLin` and `pivot` keep it.
-/
import OratioModel
import OratioProofs.Lemmas.LraBridgeSubst

namespace Oratio
namespace Lra
open Lin

/-- The invariant of the tableau and its watch lists.  Every clause is maintained by the model
    (`init`, `newVar`, `newVarLin`, `pivot`: `tabWF_init`, `tabWF_newVar`, `tabWF_newVarLin`,
    `tabWF_pivot`). -/
structure TabWF (t : Lra) : Prop where
  /-- `tableau` is a `std::map`: basic variables strictly ascending (hence distinct) -/
  keys : (t.tableau.map Prod.fst).Pairwise (· < ·)
  /-- every row is a canonical `lin`: variables strictly ascending, coefficients and known term canonical and finite -/
  rows : ∀ e ∈ t.tableau, e.2.WF
  /-- every variable of the tableau has been created by `new_var` (which extends `t_watches`) -/
  bound : ∀ e ∈ t.tableau, e.1 < t.tWatches.length ∧ ∀ p ∈ e.2.vars, p.1 < t.tWatches.length
  /-- no basic variable occurs in a row -/
  nonbasic : ∀ e ∈ t.tableau, ∀ p ∈ e.2.vars, t.isBasic p.1 = false
  /-- every `t_watches[v]` is kept as a strictly ascending list (the model's rendering of the set) -/
  wsorted : ∀ w ∈ t.tWatches, w.Pairwise (· < ·)
  /-- the row of `r` has an entry for `v` iff `r ∈ t_watches[v]` -/
  watch : ∀ v r, r ∈ t.tWatches.getD v [] ↔ ∃ e ∈ t.tableau, e.1 = r ∧ ∃ p ∈ e.2.vars, p.1 = v
  /-- `t_watches` and `vals` have one entry per variable -/
  wlen : t.tWatches.length = t.vals.length

theorem isBasic_false_iff (t : Lra) (v : Nat) : t.isBasic v = false ↔ t.rowOf v = none := by
  unfold isBasic
  cases t.rowOf v <;> simp

theorem hasKey_iff_exists {m : List (Nat × R)} {v : Nat} :
    (Lin.find m v).isSome = true ↔ ∃ p ∈ m, p.1 = v := by
  rw [find_isSome_iff]
  constructor
  · rintro ⟨c, hc⟩
    exact ⟨(v, c), hc, rfl⟩
  · rintro ⟨p, hp, rfl⟩
    exact ⟨p.2, hp⟩

theorem tabWF_iff (t : Lra) : TabWF t ↔ Inv t ∧ t.tWatches.length = t.vals.length := by
  constructor
  · intro h
    refine ⟨⟨⟨h.keys, ?_, ?_, ?_, h.wsorted⟩, ?_⟩, h.wlen⟩
    · intro r l hl
      exact h.rows (r, l) (tabFind_some_mem hl)
    · intro r l hl
      obtain ⟨b1, b2⟩ := h.bound (r, l) (tabFind_some_mem hl)
      refine ⟨b1, ?_⟩
      intro v hv
      obtain ⟨p, hp, rfl⟩ := hasKey_iff_exists.1 hv
      exact b2 p hp
    · intro r l v hl hv
      obtain ⟨p, hp, rfl⟩ := hasKey_iff_exists.1 hv
      exact (isBasic_false_iff t _).1 (h.nonbasic (r, l) (tabFind_some_mem hl) p hp)
    · intro v r
      rw [h.watch]
      constructor
      · rintro ⟨e, he, rfl, hp⟩
        exact ⟨e.2, tabFind_of_mem h.keys he, hasKey_iff_exists.2 hp⟩
      · rintro ⟨l, hl, hk⟩
        exact ⟨(r, l), tabFind_some_mem hl, rfl, hasKey_iff_exists.1 hk⟩
  · rintro ⟨h, hlen⟩
    refine ⟨h.keys, ?_, ?_, ?_, h.wsorted, ?_, hlen⟩
    · intro e he
      exact h.rows e.1 e.2 (tabFind_of_mem h.keys he)
    · intro e he
      obtain ⟨b1, b2⟩ := h.bound e.1 e.2 (tabFind_of_mem h.keys he)
      exact ⟨b1, fun p hp => b2 p.1 (hasKey_iff_exists.2 ⟨p, hp, rfl⟩)⟩
    · intro e he p hp
      exact (isBasic_false_iff t _).2
        (h.nonbasic e.1 e.2 p.1 (tabFind_of_mem h.keys he) (hasKey_iff_exists.2 ⟨p, hp, rfl⟩))
    · intro v r
      rw [h.watch]
      constructor
      · rintro ⟨l, hl, hk⟩
        exact ⟨(r, l), tabFind_some_mem hl, rfl, hasKey_iff_exists.1 hk⟩
      · rintro ⟨e, he, rfl, hp⟩
        exact ⟨e.2, tabFind_of_mem h.keys he, hasKey_iff_exists.2 hp⟩

theorem coeff_num_ne_zero {l : Lin} {xj : Nat} (h : (l.coeff xj).num ≠ 0) :
    ∃ cf, Lin.find l.vars xj = some cf ∧ cf.num ≠ 0 := by
  unfold Lin.coeff at h
  cases hf : Lin.find l.vars xj with
  | none => rw [hf] at h; exact absurd rfl h
  | some c => rw [hf] at h; exact ⟨c, rfl, h⟩

theorem tabWF_pivot {t : Lra} (ht : TabWF t) {xi xj : Nat} {l : Lin} (hl : t.rowOf xi = some l)
    (hxj : (l.coeff xj).num ≠ 0) : TabWF (t.pivot xi xj) := by
  obtain ⟨hi, hlen⟩ := (tabWF_iff t).1 ht
  obtain ⟨cf, hcf, hn⟩ := coeff_num_ne_zero hxj
  obtain ⟨p1, p2, p3, -⟩ := pivot_spec hi hl hcf hn
  exact (tabWF_iff _).2 ⟨p1, by rw [p3, p2, hlen]⟩

theorem pivot_holds {t : Lra} (ht : TabWF t) {xi xj : Nat} {l : Lin} (hl : t.rowOf xi = some l)
    (hxj : (l.coeff xj).num ≠ 0) (σ : Nat → Rat) :
    (∀ e ∈ t.tableau, σ e.1 = Lin.evalS e.2 σ) ↔ (∀ e ∈ (t.pivot xi xj).tableau, σ e.1 = Lin.evalS e.2 σ) := by
  obtain ⟨hi, -⟩ := (tabWF_iff t).1 ht
  obtain ⟨cf, hcf, hn⟩ := coeff_num_ne_zero hxj
  obtain ⟨p1, -, -, p4⟩ := pivot_spec hi hl hcf hn
  rw [holdsR_iff hi.keys, holdsR_iff p1.keys]
  exact p4 σ

/-! ### `init`, `newVar` -/

theorem tabWF_init : TabWF Lra.init := by
  refine ⟨List.Pairwise.nil, ?_, ?_, ?_, ?_, ?_, rfl⟩
  · intro e he; cases he
  · intro e he; cases he
  · intro e he; cases he
  · intro w hw; cases hw
  · intro v r
    show r ∈ ([] : List (List Nat)).getD v [] ↔ _
    simp [Lra.init]

theorem getD_append_nil (tw : List (List Nat)) (v : Nat) : (tw ++ [[]]).getD v [] = tw.getD v [] := by
  by_cases h : v < tw.length
  · exact getD_append_left _ _ _ _ h
  · have h' : tw.length ≤ v := Nat.le_of_not_lt h
    rw [List.getD_eq_getElem?_getD, List.getD_eq_getElem?_getD, List.getElem?_append_right h',
      List.getElem?_eq_none h']
    cases hv : v - tw.length with
    | zero => rfl
    | succ n => rfl

/-- a state that differs from a well-formed one by one more (unwatched) variable and fields other
    than the tableau -/
theorem inv_extend {t u : Lra} (ht : Inv t) (htab : u.tableau = t.tableau)
    (htw : u.tWatches = t.tWatches ++ [[]]) : Inv u := by
  have hrow : ∀ r, u.rowOf r = t.rowOf r := by
    intro r
    rw [rowOf_eq, rowOf_eq, htab]
  have hlt : ∀ n, n < t.tWatches.length → n < u.tWatches.length := by
    intro n hn
    rw [htw, List.length_append]
    exact Nat.lt_add_right _ hn
  refine ⟨⟨by rw [htab]; exact ht.keys, ?_, ?_, ?_, ?_⟩, ?_⟩
  · intro r l hl
    exact ht.rows r l (by rw [← hrow]; exact hl)
  · intro r l hl
    obtain ⟨b1, b2⟩ := ht.bound r l (by rw [← hrow]; exact hl)
    exact ⟨hlt _ b1, fun v hv => hlt _ (b2 v hv)⟩
  · intro r l v hl hv
    rw [hrow]
    exact ht.nonbasic r l v (by rw [← hrow]; exact hl) hv
  · intro w hw
    rw [htw] at hw
    rcases List.mem_append.1 hw with hw | hw
    · exact ht.wsorted w hw
    · rw [List.mem_singleton.1 hw]
      exact List.Pairwise.nil
  · intro v r
    rw [htw, getD_append_nil, ht.watch v r]
    simp only [hrow]

theorem tabWF_newVar {t : Lra} (ht : TabWF t) : TabWF t.newVar.2 := by
  obtain ⟨hi, hlen⟩ := (tabWF_iff t).1 ht
  refine (tabWF_iff _).2 ⟨inv_extend hi rfl rfl, ?_⟩
  show (t.tWatches ++ [[]]).length = (t.vals ++ [IR.ofR R.zero]).length
  rw [List.length_append, List.length_append, hlen]
  rfl

/-! ### `newVarLin` -/

/-- the three outcomes of `newVarLin` -/
theorem newVarLin_cases {s : Sat} {t : Lra} {l : Lin} {slack : Nat} {t1 : Lra}
    (h : newVarLin s t l = some (slack, t1)) :
    (t1.tableau = t.tableau ∧ t1.tWatches = t.tWatches ∧ t1.vals = t.vals) ∨
    (slack = t.vals.length ∧
      ∃ u : Lra, u.tableau = t.tableau ∧ u.tWatches = t.tWatches ++ [[]] ∧
        u.vals.length = t.vals.length + 1 ∧ t1 = u.newRow slack (substBasic t l)) := by
  unfold newVarLin at h
  split at h
  · cases h
  · simp only [] at h
    split at h
    · cases h
      exact Or.inl ⟨rfl, rfl, rfl⟩
    · split at h
      · cases h
        exact Or.inl ⟨rfl, rfl, rfl⟩
      · split at h
        · cases h
        · cases h
          refine Or.inr ⟨rfl, _, ?_, ?_, ?_, rfl⟩
          · rfl
          · rfl
          · show ((t.vals ++ [IR.ofR R.zero]).set _ _).length = _
            rw [List.length_set, List.length_append]
            rfl

/-- what the creation of a slack variable needs and gives, in `rowOf` form -/
theorem newVarLin_create {t u : Lra} (hi : Inv t) (hlen : t.tWatches.length = t.vals.length)
    {l : Lin} (hl : l.WF) (hlv : ∀ p ∈ l.vars, p.1 < t.vals.length)
    (htab : u.tableau = t.tableau) (htw : u.tWatches = t.tWatches ++ [[]]) :
    Inv (u.newRow t.vals.length (substBasic t l)) ∧
    (u.newRow t.vals.length (substBasic t l)).vals = u.vals ∧
    (u.newRow t.vals.length (substBasic t l)).tWatches.length = t.tWatches.length + 1 ∧
    (∀ r, (u.newRow t.vals.length (substBasic t l)).rowOf r =
      if r = t.vals.length then some (substBasic t l) else t.rowOf r) ∧
    (∀ v, (Lin.find (substBasic t l).vars v).isSome = true → v < t.vals.length) ∧
    (∀ r l' v, t.rowOf r = some l' → (Lin.find l'.vars v).isSome = true → v < t.vals.length) ∧
    t.rowOf t.vals.length = none := by
  have hu : Inv u := inv_extend hi htab htw
  have hrow : ∀ r, u.rowOf r = t.rowOf r := by
    intro r
    rw [rowOf_eq, rowOf_eq, htab]
  obtain ⟨s1, -, s3, s4⟩ := substBasic_spec (t := t) hi.rows hl
  have hrowsb : ∀ r l' v, t.rowOf r = some l' → (Lin.find l'.vars v).isSome = true → v < t.vals.length := by
    intro r l' v hr hv
    rw [← hlen]
    exact (hi.bound r l' hr).2 v hv
  have hsb : ∀ v, (Lin.find (substBasic t l).vars v).isSome = true → v < t.vals.length := by
    intro v hv
    rcases s3 v hv with h | ⟨r, rl, hr, h⟩
    · obtain ⟨p, hp, rfl⟩ := hasKey_iff_exists.1 h
      exact hlv p hp
    · exact hrowsb r rl v hr h
  have hnokey : t.rowOf t.vals.length = none := by
    cases h : t.rowOf t.vals.length with
    | none => rfl
    | some l' =>
      have := (hi.bound _ l' h).1
      omega
  have hulen : u.tWatches.length = t.tWatches.length + 1 := by
    rw [htw, List.length_append]
    rfl
  have hnorow : ∀ r l', u.rowOf r = some l' → Lin.find l'.vars t.vals.length = none := by
    intro r l' hr
    rw [hrow] at hr
    cases h : Lin.find l'.vars t.vals.length with
    | none => rfl
    | some c =>
      have := hrowsb r l' _ hr (by rw [h]; rfl)
      omega
  have hp : PInv t.vals.length u := by
    refine ⟨hu.toCore, fun v _ => hu.watch v, ?_⟩
    rw [htw, getD_append_nil]
    apply List.eq_nil_iff_forall_not_mem.2
    intro r hr
    obtain ⟨l', hl', hk⟩ := (hi.watch _ r).1 hr
    have := hrowsb r l' _ hl' hk
    omega
  have hex : ExOk t.vals.length (substBasic t l) u := by
    refine ⟨s1, ?_, ?_⟩
    · intro v hv
      rw [hrow, hulen, hlen]
      exact ⟨Nat.lt_succ_of_lt (hsb v hv), s4 hi.nonbasic v hv⟩
    · cases h : Lin.find (substBasic t l).vars t.vals.length with
      | none => rfl
      | some c =>
        have := hsb _ (by rw [h]; rfl)
        omega
  obtain ⟨n1, n2, n3, n4⟩ := newRow_spec hp hex (by rw [hrow]; exact hnokey)
    (by rw [hulen, hlen]; exact Nat.lt_succ_self _) hnorow
  refine ⟨n1, n2, by rw [n3, hulen], ?_, hsb, hrowsb, hnokey⟩
  intro r
  rw [n4, hrow]

theorem tabWF_newVarLin {s : Sat} {t : Lra} (ht : TabWF t) {l : Lin} (hl : l.WF)
    (hlv : ∀ p ∈ l.vars, p.1 < t.vals.length) {slack : Nat} {t1 : Lra}
    (h : newVarLin s t l = some (slack, t1)) : TabWF t1 := by
  obtain ⟨hi, hlen⟩ := (tabWF_iff t).1 ht
  rcases newVarLin_cases h with ⟨h1, h2, h3⟩ | ⟨hs, u, u1, u2, u3, rfl⟩
  · -- nothing but `exprs` changed
    have hrow : ∀ r, t1.rowOf r = t.rowOf r := by
      intro r
      rw [rowOf_eq, rowOf_eq, h1]
    refine (tabWF_iff _).2 ⟨⟨⟨by rw [h1]; exact hi.keys, ?_, ?_, ?_, by rw [h2]; exact hi.wsorted⟩, ?_⟩,
      by rw [h2, h3, hlen]⟩
    · intro r l' hr
      exact hi.rows r l' (by rw [← hrow]; exact hr)
    · intro r l' hr
      rw [h2]
      exact hi.bound r l' (by rw [← hrow]; exact hr)
    · intro r l' v hr hv
      rw [hrow]
      exact hi.nonbasic r l' v (by rw [← hrow]; exact hr) hv
    · intro v r
      rw [h2, hi.watch v r]
      simp only [hrow]
  · subst hs
    obtain ⟨c1, c2, c3, -⟩ := newVarLin_create hi hlen hl hlv u1 u2
    exact (tabWF_iff _).2 ⟨c1, by rw [c3, c2, u3, hlen]⟩

end Lra
end Oratio
