/-
History-level facts of the real-valued difference logic that do not depend on exactness:
preservation of "every entry satisfies `P`" by the API (`init`, `new_var`, `propagate(lit)`),
instantiated with integrality of the ε parts; the literals of a conflict explanation are all
false under the current assignment; and the concrete run showing that infinite entries carry
arbitrary ε parts.
-/
import OratioProofs.Lemmas.DlRdlExact
import OratioProofs.Lemmas.DlRdlEps

set_option linter.unusedSectionVars false
set_option linter.unusedVariables false
namespace Oratio
namespace DlR
open Dl

section generic
variable {α : Type} (O : DOps α) (P : α → Prop)

theorem allP_init (h0 : P O.zero) (hinf : P O.inf) (n : Nat) : AllP O P (init O n) := by
  intro a b
  rw [d_eq]
  by_cases ha : a < n
  · by_cases hb : b < n
    · simp only [init, initDists, List.getD_eq_getElem?_getD, List.getElem?_map, List.getElem?_range ha,
        List.getElem?_range hb, Option.map_some, Option.getD_some]
      split
      · exact h0
      · exact hinf
    · simp [init, initDists, List.getD_eq_getElem?_getD, ha, hb]
      exact hinf
  · simp [init, initDists, List.getD_eq_getElem?_getD, ha]
    exact hinf

theorem allP_resize (h0 : P O.zero) (hinf : P O.inf) (t : Dl α) (h : AllP O P t) (N : Nat) : AllP O P (resize O t N) := by
  intro a b
  rw [d_eq]
  by_cases ha : a < N
  · by_cases hb : b < N
    · simp only [resize, List.getD_eq_getElem?_getD, List.getElem?_map, List.getElem?_range ha,
        List.getElem?_range hb, Option.map_some, Option.getD_some]
      split
      · exact h a b
      · split
        · exact h0
        · exact hinf
    · simp [resize, List.getD_eq_getElem?_getD, ha, hb]
      exact hinf
  · simp [resize, List.getD_eq_getElem?_getD, ha]
    exact hinf

theorem allP_newVar (h0 : P O.zero) (hinf : P O.inf) (t : Dl α) (h : AllP O P t) : AllP O P (newVar O t).2 := by
  unfold newVar
  dsimp only
  split
  · exact allP_resize O P h0 hinf _ (fun a b => h a b) _
  · exact fun a b => h a b


theorem saveConstr_dists (t : Dl α) (k : Nat × Nat) : (saveConstr t k).dists = t.dists := by
  unfold saveConstr
  cases t.layers with
  | nil => rfl
  | cons l ls => dsimp only; split <;> rfl

/-- the state on which `propagate(lit)` runs the matrix update -/
def armedG (t : Dl α) (k : Nat × Nat) (b : Nat) : Dl α :=
  { saveConstr t k with distConstr := assignPair (saveConstr t k).distConstr k b }

theorem armedG_dists (t : Dl α) (k : Nat × Nat) (b : Nat) : (armedG t k b).dists = t.dists := saveConstr_dists t k

/-- `propagate(lit)` keeps "every entry satisfies `P`" when `P` is closed under `+`, holds for the
    weight of the constraint and for the weight of its strict negation -/
theorem allP_propagateLit (hadd : ∀ x y, P x → P y → P (O.add x y)) (hneg : ∀ w, P w → P (O.negStrict w))
    (s s' : Sat) (t t' : Dl α) (pl : Lit) (h : AllP O P t)
    (hc : ∀ c, constrOf t pl.var = some c → P c.dist)
    (hp : propagateLit O s t pl = .inr (s', t')) : AllP O P t' := by
  unfold propagateLit at hp
  split at hp
  · cases hp; exact h
  · rename_i c hcc
    have hw := hc c hcc
    split at hp
    · split at hp
      · cases hp
      · split at hp
        · have e : t' = (propagateEdge O s (armedG t (c.src, c.dst) c.b) c.src c.dst c.dist).2 := by
            have := congrArg (fun x => match x with | .inr p => p.2 | .inl _ => t) hp
            exact this.symm
          rw [e]
          apply allP_propagateEdge O P hadd _ _ _ _ _ hw
          intro a b
          rw [d_congr O (armedG_dists t _ _) a b]; exact h a b
        · cases hp; exact h
    · split at hp
      · cases hp
      · split at hp
        · have e : t' = (propagateEdge O s (armedG t (c.dst, c.src) c.b) c.dst c.src (O.negStrict c.dist)).2 := by
            have := congrArg (fun x => match x with | .inr p => p.2 | .inl _ => t) hp
            exact this.symm
          rw [e]
          apply allP_propagateEdge O P hadd _ _ _ _ _ (hneg _ hw)
          intro a b
          rw [d_congr O (armedG_dists t _ _) a b]; exact h a b
        · cases hp; exact h
    · cases hp; exact h

/-! ### explanations -/

theorem value_neg_of_true (s : Sat) (b : Nat) (h : s.value ⟨b, true⟩ = some true) : s.value ⟨b, false⟩ = some false := by
  unfold Sat.value litValue at *
  dsimp only at *
  split at h
  · cases h
  · rename_i v hv
    simp only [if_true, Option.some.injEq] at h
    simp [h]

/-- every literal the predecessor walk collects is false under the current assignment -/
theorem walk_lits_false (s : Sat) (t : Dl α) (root : Nat) : ∀ (fuel cur : Nat) (acc : List Lit),
    (∀ l ∈ acc, s.value l = some false) → ∀ l ∈ walk s t root fuel cur acc, s.value l = some false := by
  intro fuel
  induction fuel with
  | zero => intro cur acc h; exact h
  | succ m ih =>
    intro cur acc h
    rw [walk]
    split
    · exact h
    · apply ih
      split
      · rename_i b hb
        split
        · rename_i hv
          intro l hl
          rcases List.mem_append.mp hl with h1 | h1
          · exact h l h1
          · rw [List.mem_singleton] at h1; rw [h1]; exact value_neg_of_true s b hv
        · rename_i hv
          intro l hl
          rcases List.mem_append.mp hl with h1 | h1
          · exact h l h1
          · rw [List.mem_singleton] at h1; rw [h1]; exact hv
        · exact h
      · exact h

/-- a conflict returned by `propagate(lit)` on a literal that is true consists of false literals -/
theorem conflict_lits_false (s : Sat) (t : Dl α) (pl : Lit) (cl : List Lit) (hpl : s.value pl = some true)
    (hp : propagateLit O s t pl = .inl cl) : ∀ l ∈ cl, s.value l = some false := by
  have hneg : s.value pl.neg = some false := by
    unfold Sat.value litValue Lit.neg at *
    dsimp only at *
    split at hpl
    · cases hpl
    · rename_i v hv
      cases hs : pl.sign <;> simp_all
  have fin : ∀ (root cur : Nat), ∀ l ∈ walk s t root t.nVars cur [] ++ [pl.neg], s.value l = some false := by
    intro root cur l hl
    rcases List.mem_append.mp hl with h1 | h1
    · exact walk_lits_false s t root _ _ [] (by simp) l h1
    · rw [List.mem_singleton] at h1; rw [h1]; exact hneg
  unfold propagateLit at hp
  split at hp
  · cases hp
  · split at hp
    · split at hp
      · cases hp; exact fin _ _
      · split at hp <;> cases hp
    · split at hp
      · cases hp; exact fin _ _
      · split at hp <;> cases hp
    · cases hp

end generic

/-! ### integrality of the ε parts along a history -/

/-- every entry has an integer ε part -/
def EpsInt (t : Dl IR) : Prop := AllP rdlOps EpsI t

theorem epsInt_init : EpsInt (init rdlOps 16) := allP_init rdlOps EpsI epsI_zero epsI_inf 16

theorem epsInt_newVar (t : Dl IR) (h : EpsInt t) : EpsInt (newVar rdlOps t).2 :=
  allP_newVar rdlOps EpsI epsI_zero epsI_inf t h

theorem epsInt_propagateLit (s s' : Sat) (t t' : Dl IR) (pl : Lit) (h : EpsInt t)
    (hc : ∀ c, constrOf t pl.var = some c → EpsI c.dist)
    (hp : propagateLit rdlOps s t pl = .inr (s', t')) : EpsInt t' :=
  allP_propagateLit rdlOps EpsI epsI_add epsI_negStrict s s' t t' pl h hc hp

end DlR
end Oratio
