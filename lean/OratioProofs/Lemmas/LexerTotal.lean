/-
Helper lemmas for property C18 (input part): the lexer model never runs out of fuel.
-/
import OratioModel
import OratioProofs.Lemmas.Lexer

namespace Oratio
namespace Riddle

/-! ## length lemmas for the structural loops -/

theorem lexString_length (s : Stream) : ∀ (w : List Int) (r : Stream),
    lexString s = .ok (w, r) → r.length + 1 ≤ s.length := by
  induction s using lexString.induct with
  | case1 => intro w r h; unfold lexString at h; simp at h
  | case2 c r hc => intro w r' h; unfold lexString at h; simp [hc] at h; simp [h.2]
  | case3 c h1 h2 => intro w r h; unfold lexString at h; simp [h1, h2] at h
  | case4 c h1 h2 e r' h3 => intro w r h; unfold lexString at h; simp [h1, h2, h3] at h
  | case5 c h1 h2 e r' h3 w r'' h4 ih =>
    intro w0 r0 h
    have := ih w r'' h4
    unfold lexString at h; simp [h1, h2, h3, h4] at h
    rw [← h.2]; simp; omega
  | case6 c h1 h2 e r' h3 x h4 ih => intro w r h; unfold lexString at h; simp [h1, h2, h3, h4] at h
  | case7 c r h1 h2 h3 => intro w r h; unfold lexString at h; simp [h1, h2, h3] at h
  | case8 c r h1 h2 h3 h4 => intro w r h; unfold lexString at h; simp [h1, h2, h3, h4] at h
  | case9 c r h1 h2 h3 h4 w r'' h5 ih =>
    intro w0 r0 h
    have := ih w r'' h5
    unfold lexString at h; simp [h1, h2, h3, h4, h5] at h
    rw [← h.2]; simp; omega
  | case10 c r h1 h2 h3 h4 x h5 ih => intro w r h; unfold lexString at h; simp [h1, h2, h3, h4, h5] at h

theorem lexString_err (s : Stream) : ∀ (e : LexErr), lexString s = .error e → e ≠ .fuel := by
  induction s using lexString.induct with
  | case1 => intro e h; unfold lexString at h; simp at h; simp [← h]
  | case2 c r hc => intro e h; unfold lexString at h; simp [hc] at h
  | case3 c h1 h2 => intro e h; unfold lexString at h; simp [h1, h2] at h; simp [← h]
  | case4 c h1 h2 e r' h3 => intro e h; unfold lexString at h; simp [h1, h2, h3] at h; simp [← h]
  | case5 c h1 h2 e r' h3 w r'' h4 ih => intro e h; unfold lexString at h; simp [h1, h2, h3, h4] at h
  | case6 c h1 h2 e r' h3 x h4 ih =>
    intro e h; unfold lexString at h; simp [h1, h2, h3, h4] at h; exact h ▸ ih x h4
  | case7 c r h1 h2 h3 => intro e h; unfold lexString at h; simp [h1, h2, h3] at h; simp [← h]
  | case8 c r h1 h2 h3 h4 => intro e h; unfold lexString at h; simp [h1, h2, h3, h4] at h; simp [← h]
  | case9 c r h1 h2 h3 h4 w r'' h5 ih => intro e h; unfold lexString at h; simp [h1, h2, h3, h4, h5] at h
  | case10 c r h1 h2 h3 h4 x h5 ih =>
    intro e h; unfold lexString at h; simp [h1, h2, h3, h4, h5] at h; exact h ▸ ih x h5

theorem skipBlock_err (b : Bool) (s : Stream) : ∀ e, skipBlock b s = .error e → e ≠ .fuel := by
  induction b, s using skipBlock.induct with
  | case1 star => intro e h; unfold skipBlock at h; simp at h; simp [← h]
  | case2 star c r h1 => intro e h; unfold skipBlock at h; simp [h1] at h; simp [← h]
  | case3 star c r h1 h2 => intro e h; unfold skipBlock at h; simp [h1, h2] at h
  | case4 star c r h1 h2 ih =>
    intro e h
    rw [skipBlock, if_neg h1, if_neg h2] at h
    exact ih e h

theorem skipBlock_length (b : Bool) (s : Stream) : ∀ r, skipBlock b s = .ok r → r.length + 1 ≤ s.length := by
  induction b, s using skipBlock.induct with
  | case1 star => intro r h; unfold skipBlock at h; simp at h
  | case2 star c r h1 => intro r0 h; unfold skipBlock at h; simp [h1] at h
  | case3 star c r h1 h2 => intro r0 h; unfold skipBlock at h; simp [h1, h2] at h; simp [h]
  | case4 star c r h1 h2 ih =>
    intro r0 h
    rw [skipBlock, if_neg h1, if_neg h2] at h
    have := ih r0 h
    simp; omega

theorem skipLine_length (s : Stream) : ∀ r, skipLine s = some r → r.length ≤ s.length := by
  induction s with
  | nil => intro r h; rw [skipLine] at h; simp at h
  | cons c s ih =>
    intro r h
    rw [skipLine] at h
    split at h
    · simp at h; simp [← h]
    · split at h
      · simp at h
      · have := ih r h; simp; omega

/-! ## one call of `next()` -/

/-- the outcome of `next()` on `s` is not "out of fuel" and leaves a stream not longer than `s`,
    strictly shorter unless the token is `EOF` -/
def Good (s : Stream) (res : Except LexErr (Tok × Stream)) : Prop :=
  res ≠ .error .fuel ∧
  ∀ t r, res = .ok (t, r) → r.length ≤ s.length ∧ (t ≠ .sym .EOF → r.length < s.length)

theorem good_ok_lt {s : Stream} {t : Tok} {r : Stream} (h : r.length < s.length) : Good s (.ok (t, r)) := by
  refine ⟨by simp, ?_⟩
  intro t' r' e
  simp only [Except.ok.injEq, Prod.mk.injEq] at e
  obtain ⟨_, rfl⟩ := e
  exact ⟨by omega, fun _ => h⟩

theorem good_ok_eof {s : Stream} {r : Stream} (h : r.length ≤ s.length) : Good s (.ok (.sym .EOF, r)) := by
  refine ⟨by simp, ?_⟩
  intro t' r' e
  simp only [Except.ok.injEq, Prod.mk.injEq] at e
  obtain ⟨rfl, rfl⟩ := e
  exact ⟨h, fun hne => absurd rfl hne⟩

theorem good_err {s : Stream} {e : LexErr} (h : e ≠ .fuel) : Good s (.error e) := by
  refine ⟨by simpa using h, ?_⟩
  intro t r e'; simp at e'

theorem good_mono {s s' : Stream} {res} (h : Good s' res) (hl : s'.length < s.length) : Good s res := by
  refine ⟨h.1, ?_⟩
  intro t r e
  have := (h.2 t r e).1
  exact ⟨by omega, fun _ => by omega⟩

theorem lexNumber_good (c : Int) (r : Stream) (h : isDigit c = true) : Good (c :: r) (lexNumber (c :: r)) := by
  unfold lexNumber
  have h1 := takeRun_snd_length_lt isDigit c r h
  have h2 := takeRun_snd_length_le isDigit ((takeRun isDigit (c :: r)).2.drop 1)
  have h3 : ((takeRun isDigit (c :: r)).2.drop 1).length ≤ (takeRun isDigit (c :: r)).2.length := by
    simp
  simp only []
  split
  · split
    · exact good_err (by decide)
    · split
      · exact good_err (by decide)
      · split
        · exact good_err (by decide)
        · exact good_ok_lt (by simp only [List.length_cons]; omega)
  · split
    · exact good_err (by decide)
    · exact good_ok_lt (by simp only [List.length_cons]; omega)

theorem good_ite {s : Stream} {c : Prop} [Decidable c] {a b : Except LexErr (Tok × Stream)}
    (ha : c → Good s a) (hb : ¬ c → Good s b) : Good s (if c then a else b) := by
  by_cases h : c
  · rw [if_pos h]; exact ha h
  · rw [if_neg h]; exact hb h

theorem nextTok_good : ∀ (f : Nat) (s : Stream), s.length + 2 ≤ f → Good s (nextTok f s)
  | 0, s, h => by omega
  | f + 1, [], _ => by rw [nextTok]; exact good_ok_eof (Nat.le_refl _)
  | f + 1, c :: r, h => by
    have ih := nextTok_good f
    have hf : r.length + 2 ≤ f := by simp only [List.length_cons] at h; omega
    have hdrop : (r.drop 1).length ≤ r.length := by simp
    have hdw : (r.dropWhile isSpace).length ≤ r.length := (List.dropWhile_sublist _).length_le
    have hdw1 : ((r.dropWhile isSpace).drop 1).length ≤ r.length := by
      have : ((r.dropWhile isSpace).drop 1).length ≤ (r.dropWhile isSpace).length := by simp
      omega
    have htr : (takeRun isDigit r).2.length ≤ r.length := takeRun_snd_length_le _ _
    have hln : isDigit c = true → Good (c :: r) (lexNumber (c :: r)) := lexNumber_good c r
    have hlt : ∀ s', s'.length ≤ r.length → Good (c :: r) (nextTok f s') := fun s' hs' =>
      good_mono (ih s' (by omega)) (by simp only [List.length_cons]; omega)
    rw [nextTok]
    generalize lexNumber (c :: r) = ln at hln ⊢
    generalize htd : takeRun isDigit r = td at htr ⊢
    generalize hti : takeRun isIdPart (c :: r) = ti
    repeat' (refine good_ite (fun _ => ?_) (fun _ => ?_))
    all_goals first
      | exact good_err (by decide)
      | exact good_ok_eof (by simp only [List.length_cons]; omega)
      | exact good_ok_lt (by simp only [List.length_cons]; omega)
      | exact hln ‹_›
      | exact hlt _ ‹_›
      | skip
    · -- string literal
      split
      · next w r' heq =>
        have := lexString_length _ _ _ heq
        exact good_ok_lt (by simp only [List.length_cons]; omega)
      · next e heq => exact good_err (lexString_err _ _ heq)
    · -- line comment
      split
      · exact good_ok_eof (by simp)
      · next r' heq =>
        have := skipLine_length _ _ heq
        exact hlt _ (by omega)
    · -- block comment
      split
      · next r' heq =>
        have := skipBlock_length _ _ _ heq
        exact hlt _ (by omega)
      · next e heq => exact good_err (skipBlock_err _ _ _ heq)
    · -- identifier / keyword
      have := takeRun_snd_length_lt isIdPart c r (by
        rw [isIdPart_iff]; have := isIdStart_iff.1 ‹isIdStart c = true›; omega)
      rw [hti] at this
      exact good_ok_lt (by simp only [List.length_cons]; omega)

theorem nextTok_total (s : Stream) (k : Nat) :
    nextTok (s.length + 2 + k) s ≠ .error .fuel ∧
    ∀ t r, nextTok (s.length + 2 + k) s = .ok (t, r) → r.length ≤ s.length ∧ (t ≠ .sym .EOF → r.length < s.length) :=
  nextTok_good (s.length + 2 + k) s (by omega)

/-! ## the whole token stream -/

theorem lexAll_ne_fuel : ∀ (f : Nat) (s : Stream), s.length + 1 ≤ f → lexAll f s ≠ .error .fuel
  | 0, s, h => by omega
  | f + 1, s, h => by
    have ih := lexAll_ne_fuel f
    have hg := nextTok_good (s.length + 2) s (Nat.le_refl _)
    rw [lexAll]
    split
    · next e heq => rw [heq] at hg; simpa using hg.1
    · simp
    · next t r hne heq =>
      have ht : t ≠ .sym .EOF := by
        intro e; exact hne e
      have hr := ((hg.2 t r heq).2 ht)
      have := ih r (by omega)
      split
      · simp
      · next e heq2 => rw [heq2] at this; simpa using this

theorem lexAll_last : ∀ (f : Nat) (s : Stream) (ts : List Tok), lexAll f s = .ok ts → ts.getLast? = some (.sym .EOF)
  | 0, s, ts, h => by simp [lexAll] at h
  | f + 1, s, ts, h => by
    have ih := lexAll_last f
    rw [lexAll] at h
    split at h
    · simp at h
    · simp at h; simp [← h]
    · next t r hne heq =>
      split at h
      · next ts' heq2 =>
        have h1 := ih r ts' heq2
        simp at h
        rw [← h]
        cases ts' with
        | nil => simp at h1
        | cons a l => rw [List.getLast?_cons_cons]; exact h1
      · simp at h

end Riddle
end Oratio
