/-
Helper lemmas for `Properties/C09Reach.lean`, part 9: `new_var()` and `new_var(lin)` keep the
invariant `Lra.GoodState`.
-/
import OratioModel
import OratioProofs.Lemmas.LraReachAssert
import OratioProofs.Lemmas.LraReachSum

namespace Oratio
namespace Lra
open Lin

/-! ### lists -/

theorem getD_append_zero (vs : List IR) (x : Nat) :
    (vs ++ [IR.ofR R.zero]).getD x (IR.ofR R.zero) = vs.getD x (IR.ofR R.zero) := by
  by_cases h : x < vs.length
  · exact getD_append_left _ _ _ _ h
  · have h' : vs.length ≤ x := Nat.le_of_not_lt h
    rw [List.getD_eq_getElem?_getD, List.getD_eq_getElem?_getD, List.getElem?_append_right h',
      List.getElem?_eq_none h']
    cases hv : x - vs.length with
    | zero => rfl
    | succ n => rfl

theorem getD_append_right0 {α : Type} (l : List α) (a b d : α) : (l ++ [a, b]).getD l.length d = a := by
  simp [List.getD_eq_getElem?_getD]

theorem getD_append_right1 {α : Type} (l : List α) (a b d : α) : (l ++ [a, b]).getD (l.length + 1) d = b := by
  simp [List.getD_eq_getElem?_getD]

/-! ### `new_var()` -/

theorem newVar_value (t : Lra) (x : Nat) : t.newVar.2.value x = t.value x := getD_append_zero t.vals x

theorem newVar_bnd (t : Lra) (i : Nat) (hi : i < t.bounds.length) : t.newVar.2.bnd i = t.bnd i :=
  getD_append_left _ _ _ _ hi

theorem value_ge (t : Lra) {x : Nat} (h : t.vals.length ≤ x) : t.value x = IR.ofR R.zero := by
  unfold value
  rw [List.getD_eq_getElem?_getD, List.getElem?_eq_none h]
  rfl

theorem lowerOK_ninf : LowerOK (IR.ofR R.ninf) := ⟨R.wf_ninf, by decide, R.finWF_zero⟩
theorem upperOK_pinf : UpperOK (IR.ofR R.pinf) := ⟨R.wf_pinf, by decide, R.finWF_zero⟩

theorem newVar_good {t : Lra} (g : GoodState t) : GoodState t.newVar.2 := by
  have hlen : t.newVar.2.vals.length = t.vals.length + 1 := by
    show (t.vals ++ [IR.ofR R.zero]).length = _
    rw [List.length_append]; rfl
  have hrat : t.newVar.2.ratAssign = t.ratAssign := by funext x; unfold ratAssign; rw [newVar_value]
  have hinf : t.newVar.2.infAssign = t.infAssign := by funext x; unfold infAssign; rw [newVar_value]
  have hblen : t.newVar.2.bounds.length = 2 * t.newVar.2.vals.length := by
    rw [hlen]
    show (t.bounds ++ [_, _]).length = _
    rw [List.length_append, g.blen]
    simp only [List.length_cons, List.length_nil]
    omega
  have hlbn : t.newVar.2.lb t.vals.length = IR.ofR R.ninf := by
    show ((t.bounds ++ [_, _]).getD (lbIdx t.vals.length) _).value = _
    have : lbIdx t.vals.length = t.bounds.length := by unfold lbIdx; rw [g.blen]
    rw [this, getD_append_right0]
  have hubn : t.newVar.2.ub t.vals.length = IR.ofR R.pinf := by
    show ((t.bounds ++ [_, _]).getD (ubIdx t.vals.length) _).value = _
    have : ubIdx t.vals.length = t.bounds.length + 1 := by unfold ubIdx; rw [g.blen]
    rw [this, getD_append_right1]
  have hlbx : ∀ x, x < t.vals.length → t.newVar.2.lb x = t.lb x := by
    intro x hx; unfold lb; rw [newVar_bnd _ _ (by rw [g.blen]; unfold lbIdx; omega)]
  have hubx : ∀ x, x < t.vals.length → t.newVar.2.ub x = t.ub x := by
    intro x hx; unfold ub; rw [newVar_bnd _ _ (by rw [g.blen]; unfold ubIdx; omega)]
  refine ⟨⟨tabWF_newVar g.tab, g.nz, ?_, ?_, ?_, hblen, ?_, ?_, ?_, ?_⟩, ?_⟩
  · intro v hv
    rcases List.mem_append.1 (show v ∈ t.vals ++ [IR.ofR R.zero] from hv) with h | h
    · exact g.vfin v h
    · rw [List.mem_singleton.1 h]; exact finIR_zero
  · intro e he; rw [hrat]; exact g.rowsRat e he
  · intro e he; rw [hinf]; exact g.rowsInf e he
  · intro x hx
    rw [hlen] at hx
    by_cases hxn : x < t.vals.length
    · rw [hlbx x hxn, hubx x hxn]; exact g.bwf x hxn
    · have : x = t.vals.length := by omega
      subst this
      rw [hlbn, hubn]
      exact ⟨lowerOK_ninf, upperOK_pinf, by decide⟩
  · intro e he
    rw [hlen]
    exact ⟨Nat.lt_succ_of_lt (g.asrts e he).1, (g.asrts e he).2⟩
  · exact layersOK_append _ _ _ g.lay
  · intro e he
    rw [hlen]
    rcases mem_emplaceKey (show e ∈ emplaceKey t.exprs _ _ from he) with h | h
    · exact Nat.lt_succ_of_lt (g.exprs e h)
    · rw [h]; exact Nat.lt_succ_self _
  · intro x hx hxb
    rw [hlen] at hx
    by_cases hxn : x < t.vals.length
    · unfold InB
      rw [newVar_value, hlbx x hxn, hubx x hxn]
      exact g.nbin x hxn hxb
    · have : x = t.vals.length := by omega
      subst this
      unfold InB
      rw [newVar_value, hlbn, hubn, value_ge t (Nat.le_refl _)]
      exact ⟨by decide, by decide⟩

/-! ### the sums only read the bounds and values of the variables of the expression -/

theorem lbLin_congr {t u : Lra} {l : Lin} (h : ∀ e ∈ l.vars, u.lb e.1 = t.lb e.1 ∧ u.ub e.1 = t.ub e.1) :
    u.lbLin l = t.lbLin l := by
  rw [lbLin_eq, lbLin_eq]
  apply linSum_congr
  intro e he
  simp only [(h e he).1, (h e he).2]

theorem ubLin_congr {t u : Lra} {l : Lin} (h : ∀ e ∈ l.vars, u.lb e.1 = t.lb e.1 ∧ u.ub e.1 = t.ub e.1) :
    u.ubLin l = t.ubLin l := by
  rw [ubLin_eq, ubLin_eq]
  apply linSum_congr
  intro e he
  simp only [(h e he).1, (h e he).2]

theorem valueLin_congr {t u : Lra} {l : Lin} (h : ∀ e ∈ l.vars, u.value e.1 = t.value e.1) :
    u.valueLin l = t.valueLin l := by
  rw [valueLin_eq, valueLin_eq]
  apply linSum_congr
  intro e he
  simp only [h e he]

/-! ### the creation of a slack variable -/

def slackA (t : Lra) (ex : List (String × Nat)) : Lra := { t.newVar.2 with exprs := ex }
def slackB (t : Lra) (expr : Lin) (ex : List (String × Nat)) : Lra :=
  (slackA t ex).setBound (lbIdx t.vals.length) ⟨(slackA t ex).lbLin expr, Lit.trueLit⟩
def slackC (t : Lra) (expr : Lin) (ex : List (String × Nat)) : Lra :=
  (slackB t expr ex).setBound (ubIdx t.vals.length) ⟨(slackB t expr ex).ubLin expr, Lit.trueLit⟩
def slackD (t : Lra) (expr : Lin) (ex : List (String × Nat)) : Lra :=
  (slackC t expr ex).setVal t.vals.length ((slackC t expr ex).valueLin expr)
/-- the state `newVarLin` returns when it creates the slack variable `vals.length` with row `expr` -/
def mkSlack (t : Lra) (expr : Lin) (ex : List (String × Nat)) : Lra :=
  (slackD t expr ex).newRow t.vals.length expr

/-- the outcomes of `newVarLin`: a variable found (only `exprs` may change), or a slack variable created -/
theorem newVarLin_outcome {s : Sat} {t : Lra} {l : Lin} {slack : Nat} {t1 : Lra}
    (h : newVarLin s t l = some (slack, t1)) :
    ((∃ ex, t1 = { t with exprs := ex } ∧ (∀ e ∈ ex, e ∈ t.exprs ∨ e.2 = slack)) ∧ ∃ e ∈ t.exprs, e.2 = slack) ∨
    (slack = t.vals.length ∧ ∃ ex, t1 = mkSlack t (substBasic t l) ex ∧ ∀ e ∈ ex, e ∈ t.exprs ∨ e.2 = slack) := by
  unfold newVarLin at h
  split at h
  · cases h
  · simp only [] at h
    split at h
    · next v hv =>
      cases h
      exact Or.inl ⟨⟨t.exprs, rfl, fun e he => Or.inl he⟩, findKey_some_mem hv⟩
    · split at h
      · next v hv =>
        cases h
        refine Or.inl ⟨⟨_, rfl, ?_⟩, findKey_some_mem hv⟩
        intro e he
        rcases mem_emplaceKey he with he | he
        · exact Or.inl he
        · exact Or.inr (by rw [he])
      · split at h
        · cases h
        · cases h
          refine Or.inr ⟨rfl, _, rfl, ?_⟩
          intro e he
          rcases mem_emplaceKey he with he | he
          · rcases mem_emplaceKey he with he | he
            · rcases mem_emplaceKey (show e ∈ emplaceKey t.exprs _ _ from he) with he | he
              · exact Or.inl he
              · exact Or.inr (by rw [he]; rfl)
            · exact Or.inr (by rw [he])
          · exact Or.inr (by rw [he])

theorem exprs_only_good {t : Lra} (g : GoodState t) {ex : List (String × Nat)}
    (hex : ∀ e ∈ ex, e.2 < t.vals.length) : GoodState { t with exprs := ex } := by
  have gc := g.toGoodCore
  exact ⟨⟨tabWF_congr (t := t) rfl rfl rfl gc.tab, gc.nz, gc.vfin, gc.rowsRat, gc.rowsInf, gc.blen, gc.bwf, gc.asrts, gc.lay, hex⟩,
    g.nbin⟩

/-- the slack variable created for `substBasic t l` -/
theorem mkSlack_good {t : Lra} (g : GoodState t) {l : Lin} (hl : LinOK t l) {ex : List (String × Nat)}
    (hex : ∀ e ∈ ex, e.2 < t.vals.length + 1) : GoodState (mkSlack t (substBasic t l) ex) := by
  obtain ⟨hi, hlen⟩ := (tabWF_iff t).1 g.tab
  have hrowsNZ : ∀ r l', t.rowOf r = some l' → NZ l'.vars := fun r l' h => g.nz (r, l') (tabFind_some_mem h)
  have hlnz : NZ l.vars := fun p hp => (hl.2 p hp).2
  -- the expression
  obtain ⟨hewf, -, -, hnb⟩ := substBasic_spec (t := t) hi.rows hl.1
  have henz : NZ (substBasic t l).vars := nz_substBasic hi.rows hrowsNZ hi.nonbasic hl.1 hlnz
  have hA : (slackA t ex).tableau = t.tableau := rfl
  have hD : (slackD t (substBasic t l) ex).tableau = t.tableau := rfl
  have hDw : (slackD t (substBasic t l) ex).tWatches = t.tWatches ++ [[]] := rfl
  obtain ⟨c1, c2, c3, c4, c5, c6, c7⟩ := newVarLin_create (u := slackD t (substBasic t l) ex) hi hlen hl.1
    (fun p hp => (hl.2 p hp).1) hD hDw
  have hevars : ∀ e ∈ (substBasic t l).vars, e.1 < t.vals.length :=
    fun e he => c5 e.1 (find_isSome_of_mem (c := e.2) he)
  have hnofind : Lin.find (substBasic t l).vars t.vals.length = none := by
    cases hf : Lin.find (substBasic t l).vars t.vals.length with
    | none => rfl
    | some c =>
      have := c5 _ (by rw [hf]; rfl)
      omega
  -- bounds
  have hboundsA : (slackA t ex).bounds = t.bounds ++ [⟨IR.ofR R.ninf, Lit.trueLit⟩, ⟨IR.ofR R.pinf, Lit.trueLit⟩] := rfl
  have hlenA : (slackA t ex).bounds.length = t.bounds.length + 2 := by rw [hboundsA, List.length_append]; rfl
  have hlbI : lbIdx t.vals.length = t.bounds.length := by unfold lbIdx; rw [g.blen]
  have hubI : ubIdx t.vals.length = t.bounds.length + 1 := by unfold ubIdx; rw [g.blen]
  have hbndA : ∀ i, i < t.bounds.length → (slackA t ex).bnd i = t.bnd i :=
    fun i hi' => getD_append_left _ _ _ _ hi'
  have hbndB : ∀ i, i ≠ lbIdx t.vals.length → (slackB t (substBasic t l) ex).bnd i = (slackA t ex).bnd i :=
    fun i hne => getD_set_ne _ _ _ _ _ (fun h => hne h.symm)
  have hbndC : ∀ i, i ≠ ubIdx t.vals.length → (slackC t (substBasic t l) ex).bnd i = (slackB t (substBasic t l) ex).bnd i :=
    fun i hne => getD_set_ne _ _ _ _ _ (fun h => hne h.symm)
  have hidx : ∀ x, x < t.vals.length → lbIdx x < t.bounds.length ∧ ubIdx x < t.bounds.length ∧
      lbIdx x ≠ lbIdx t.vals.length ∧ ubIdx x ≠ lbIdx t.vals.length ∧
      lbIdx x ≠ ubIdx t.vals.length ∧ ubIdx x ≠ ubIdx t.vals.length := by
    intro x hx
    rw [g.blen]
    unfold lbIdx ubIdx
    omega
  -- the bounds of the expression are computed from the bounds of `t`
  have hLB : (slackA t ex).lbLin (substBasic t l) = t.lbLin (substBasic t l) := by
    apply lbLin_congr
    intro e he
    obtain ⟨i1, i2, -⟩ := hidx e.1 (hevars e he)
    exact ⟨by unfold lb; rw [hbndA _ i1], by unfold ub; rw [hbndA _ i2]⟩
  have hUB : (slackB t (substBasic t l) ex).ubLin (substBasic t l) = t.ubLin (substBasic t l) := by
    apply ubLin_congr
    intro e he
    obtain ⟨i1, i2, i3, i4, -⟩ := hidx e.1 (hevars e he)
    exact ⟨by unfold lb; rw [hbndB _ i3, hbndA _ i1], by unfold ub; rw [hbndB _ i4, hbndA _ i2]⟩
  have hVL : (slackC t (substBasic t l) ex).valueLin (substBasic t l) = t.valueLin (substBasic t l) := by
    apply valueLin_congr
    intro e _
    exact newVar_value t e.1
  have hbok := lbLin_ubLin_ok t hewf henz (fun p hp => g.bwf p.1 (hevars p hp))
  obtain ⟨v1, v2, v3⟩ := valueLin_fin t hewf (value_fin_of_vals g.vfin)
  -- fields of the result
  have hvals : (mkSlack t (substBasic t l) ex).vals =
      (t.vals ++ [IR.ofR R.zero]).set t.vals.length (t.valueLin (substBasic t l)) := by
    unfold mkSlack; rw [newRow_vals, ← hVL]; rfl
  have hvlen : (mkSlack t (substBasic t l) ex).vals.length = t.vals.length + 1 := by
    rw [hvals, List.length_set, List.length_append]; rfl
  have hbounds : (mkSlack t (substBasic t l) ex).bounds = (slackC t (substBasic t l) ex).bounds := by
    unfold mkSlack; rw [newRow_bounds]; rfl
  have hblen : (mkSlack t (substBasic t l) ex).bounds.length = t.bounds.length + 2 := by
    rw [hbounds]
    show (((slackA t ex).bounds.set _ _).set _ _).length = _
    rw [List.length_set, List.length_set, hlenA]
  have hbndM : ∀ i, (mkSlack t (substBasic t l) ex).bnd i = (slackC t (substBasic t l) ex).bnd i := by
    intro i; unfold bnd; rw [hbounds]
  have hvalue : ∀ x, (mkSlack t (substBasic t l) ex).value x =
      if x = t.vals.length then t.valueLin (substBasic t l) else t.value x := by
    intro x
    unfold value
    rw [hvals, getD_set]
    by_cases hx : x = t.vals.length
    · rw [if_pos ⟨hx.symm, by rw [List.length_append]; exact Nat.lt_succ_self _⟩, if_pos hx]
    · rw [if_neg (fun h => hx h.1.symm), if_neg hx, getD_append_zero]
  have hlbn : (mkSlack t (substBasic t l) ex).lb t.vals.length = t.lbLin (substBasic t l) := by
    unfold lb
    rw [hbndM, hbndC _ (lbIdx_ne_ubIdx _ _)]
    show (((slackA t ex).bounds.set _ _).getD _ _).value = _
    rw [getD_set_self _ _ _ _ (by rw [hlenA, hlbI]; omega), hLB]
  have hubn : (mkSlack t (substBasic t l) ex).ub t.vals.length = t.ubLin (substBasic t l) := by
    unfold ub
    rw [hbndM]
    show (((slackB t (substBasic t l) ex).bounds.set _ _).getD _ _).value = _
    rw [getD_set_self _ _ _ _ (by
      show ubIdx t.vals.length < ((slackA t ex).bounds.set _ _).length
      rw [List.length_set, hlenA, hubI]; omega), hUB]
  have hlbx : ∀ x, x < t.vals.length → (mkSlack t (substBasic t l) ex).lb x = t.lb x := by
    intro x hx
    obtain ⟨i1, i2, i3, i4, i5, i6⟩ := hidx x hx
    unfold lb
    rw [hbndM, hbndC _ i5, hbndB _ i3, hbndA _ i1]
  have hubx : ∀ x, x < t.vals.length → (mkSlack t (substBasic t l) ex).ub x = t.ub x := by
    intro x hx
    obtain ⟨i1, i2, i3, i4, i5, i6⟩ := hidx x hx
    unfold ub
    rw [hbndM, hbndC _ i6, hbndB _ i4, hbndA _ i2]
  have htab : (mkSlack t (substBasic t l) ex).tableau = tabInsert t.tableau t.vals.length (substBasic t l) := by
    unfold mkSlack; rw [newRow_tableau]; rfl
  have hmem : ∀ e ∈ (mkSlack t (substBasic t l) ex).tableau, e ∈ t.tableau ∨ e = (t.vals.length, substBasic t l) := by
    intro e he; rw [htab] at he; exact mem_tabInsert_iff he
  have hrat : (mkSlack t (substBasic t l) ex).ratAssign =
      Function.update t.ratAssign t.vals.length (t.valueLin (substBasic t l)).rat.toRat := by
    funext x
    unfold ratAssign
    rw [hvalue]
    by_cases hx : x = t.vals.length
    · rw [if_pos hx, hx, Function.update_self]
    · rw [if_neg hx, Function.update_of_ne hx]
  have hinf : (mkSlack t (substBasic t l) ex).infAssign =
      Function.update t.infAssign t.vals.length (t.valueLin (substBasic t l)).inf.toRat := by
    funext x
    unfold infAssign
    rw [hvalue]
    by_cases hx : x = t.vals.length
    · rw [if_pos hx, hx, Function.update_self]
    · rw [if_neg hx, Function.update_of_ne hx]
  have hrowfind : ∀ e ∈ t.tableau, Lin.find e.2.vars t.vals.length = none ∧ e.1 ≠ t.vals.length := by
    intro e he
    have hr := tabFind_of_mem hi.keys he
    refine ⟨?_, ?_⟩
    · cases hf : Lin.find e.2.vars t.vals.length with
      | none => rfl
      | some c =>
        have := c6 e.1 e.2 _ hr (by rw [hf]; rfl)
        omega
    · intro h
      rw [h, ← rowOf_eq, c7] at hr
      cases hr
  have hwf0 : ∀ {l' : Lin}, l'.WF → ({ l' with known := R.zero } : Lin).WF := by
    intro l' h'
    obtain ⟨a, b, -⟩ := (wf_iff l').1 h'
    exact (wf_iff _).2 ⟨a, b, R.finWF_zero⟩
  refine ⟨⟨(tabWF_iff _).2 ⟨c1, c3.trans (by rw [hvlen, hlen])⟩, ?_, ?_, ?_, ?_, ?_, ?_, ?_, ?_, ?_⟩, ?_⟩
  · intro e he
    rcases hmem e he with h | h
    · exact g.nz e h
    · rw [h]; exact henz
  · apply vals_fin_of_value
    intro x
    rw [hvalue]
    split
    · exact v1
    · exact value_fin_of_vals g.vfin x
  · intro e he
    rw [hrat]
    rcases hmem e he with h | h
    · obtain ⟨f1, f2⟩ := hrowfind e h
      rw [evalS_update (hi.rows e.1 e.2 (tabFind_of_mem hi.keys h)) f1, Function.update_of_ne f2]
      exact g.rowsRat e h
    · rw [h]
      show Function.update t.ratAssign t.vals.length _ t.vals.length = Lin.evalS (substBasic t l) _
      rw [Function.update_self, evalS_update hewf hnofind]
      exact v2
  · intro e he
    rw [hinf]
    rcases hmem e he with h | h
    · obtain ⟨f1, f2⟩ := hrowfind e h
      rw [evalS_update (hwf0 (hi.rows e.1 e.2 (tabFind_of_mem hi.keys h))) f1, Function.update_of_ne f2]
      exact g.rowsInf e h
    · rw [h]
      show Function.update t.infAssign t.vals.length _ t.vals.length =
        Lin.evalS { substBasic t l with known := R.zero } _
      rw [Function.update_self, evalS_update (hwf0 hewf) hnofind]
      exact v3
  · rw [hblen, hvlen, g.blen]; omega
  · intro x hx
    rw [hvlen] at hx
    by_cases hxn : x < t.vals.length
    · rw [hlbx x hxn, hubx x hxn]; exact g.bwf x hxn
    · have : x = t.vals.length := by omega
      subst this
      rw [hlbn, hubn]
      exact hbok
  · intro e he
    have he' : e ∈ t.vAsrts := by
      have : (mkSlack t (substBasic t l) ex).vAsrts = t.vAsrts := by unfold mkSlack; rw [newRow_vAsrts]; rfl
      rw [this] at he; exact he
    rw [hvlen]
    exact ⟨Nat.lt_succ_of_lt (g.asrts e he').1, (g.asrts e he').2⟩
  · have hl1 : (mkSlack t (substBasic t l) ex).layers = t.layers := by unfold mkSlack; rw [newRow_layers]; rfl
    rw [hl1, hbounds]
    have hkeys := layersOK_keys_lt _ _ g.lay
    show LayersOK (((t.bounds ++ [_, _]).set (lbIdx t.vals.length) _).set (ubIdx t.vals.length) _) t.layers
    apply layersOK_set_fresh
    · intro l' hl' e he
      have := hkeys l' hl' e he
      rw [hubI]; omega
    · apply layersOK_set_fresh
      · intro l' hl' e he
        have := hkeys l' hl' e he
        rw [hlbI]; omega
      · exact layersOK_append _ _ _ g.lay
  · intro e he
    have : (mkSlack t (substBasic t l) ex).exprs = ex := by unfold mkSlack; rw [newRow_exprs]; rfl
    rw [this] at he
    rw [hvlen]
    exact hex e he
  · intro x hx hxb
    rw [hvlen] at hx
    have hxb' : (mkSlack t (substBasic t l) ex).rowOf x = none := (isBasic_false_iff _ x).1 hxb
    have hrow := c4 x
    change (mkSlack t (substBasic t l) ex).rowOf x = _ at hrow
    by_cases hxn : x = t.vals.length
    · rw [hrow, if_pos hxn] at hxb'
      cases hxb'
    · rw [hrow, if_neg hxn] at hxb'
      have hx' : x < t.vals.length := by omega
      unfold InB
      rw [hvalue, if_neg hxn, hlbx x hx', hubx x hx']
      exact g.nbin x hx' ((isBasic_false_iff t x).2 hxb')

/-- `new_var(lin)` keeps the invariant -/
theorem newVarLin_good {s : Sat} {t : Lra} (g : GoodState t) {l : Lin} (hl : LinOK t l) {slack : Nat} {t1 : Lra}
    (h : newVarLin s t l = some (slack, t1)) :
    GoodState t1 ∧ slack < t1.vals.length ∧ t.vals.length ≤ t1.vals.length := by
  rcases newVarLin_outcome h with ⟨⟨ex, rfl, hex⟩, e0, he0, hs0⟩ | ⟨hs, ex, rfl, hex⟩
  · have hlt : slack < t.vals.length := hs0 ▸ g.exprs e0 he0
    refine ⟨exprs_only_good g ?_, hlt, Nat.le_refl _⟩
    intro e he
    rcases hex e he with h' | h'
    · exact g.exprs e h'
    · rw [h']; exact hlt
  · have hgood := mkSlack_good g hl (ex := ex) (by
      intro e he
      rcases hex e he with h' | h'
      · exact Nat.lt_succ_of_lt (g.exprs e h')
      · rw [h', hs]; exact Nat.lt_succ_self _)
    have hvlen : (mkSlack t (substBasic t l) ex).vals.length = t.vals.length + 1 := by
      unfold mkSlack
      rw [newRow_vals]
      show ((t.vals ++ [IR.ofR R.zero]).set _ _).length = _
      rw [List.length_set, List.length_append]; rfl
    exact ⟨hgood, by rw [hvlen, hs]; exact Nat.lt_succ_self _, by rw [hvlen]; exact Nat.le_succ _⟩

end Lra
end Oratio
