/-
Lemmas for property C13: the arithmetic of the product encoding of `new_at_most_one`
(`ceilSqrt`, `ceilDiv`, the `i*qs + j` grid indexing).  Core Lean only.
-/
import OratioModel.Sat.Enc

namespace Oratio
namespace EncL
open Enc

/-- `floor(sqrt n) ≥ 2` from `n ≥ 4` -/
theorem two_le_sqrt {n : Nat} (h : 4 ≤ n) : 2 ≤ n.sqrt := by
  have h2 := Nat.lt_succ_sqrt n
  apply Nat.le_of_not_lt
  intro hlt
  have h1 : n.sqrt + 1 ≤ 2 := by omega
  have := Nat.mul_le_mul h1 h1
  simp only [Nat.succ_eq_add_one] at h2
  omega

theorem ceilSqrt_ge_two {n : Nat} (h : 4 ≤ n) : 2 ≤ ceilSqrt n := by
  have := two_le_sqrt h
  simp only [ceilSqrt]
  split <;> omega

theorem ceilSqrt_lt {n : Nat} (h : 4 ≤ n) : ceilSqrt n < n := by
  have h2 := two_le_sqrt h
  have h3 := Nat.sqrt_le n
  have h4 : 2 * n.sqrt ≤ n.sqrt * n.sqrt := Nat.mul_le_mul_right _ h2
  simp only [ceilSqrt]
  split <;> omega

/-- `ceil(n / ps) < n` as soon as both are at least two -/
theorem ceilDiv_lt_of_two_le {n ps : Nat} (hn : 2 ≤ n) (hp : 2 ≤ ps) : ceilDiv n ps < n := by
  unfold ceilDiv
  rw [Nat.div_lt_iff_lt_mul (by omega)]
  obtain ⟨a, rfl⟩ := Nat.exists_eq_add_of_le hn
  obtain ⟨b, rfl⟩ := Nat.exists_eq_add_of_le hp
  simp only [Nat.mul_add, Nat.add_mul]
  omega

theorem ceilDiv_lt {n : Nat} (h : 4 ≤ n) : ceilDiv n (ceilSqrt n) < n :=
  ceilDiv_lt_of_two_le (by omega) (ceilSqrt_ge_two h)

theorem ceilDiv_pos_of_pos {n ps : Nat} (hn : 0 < n) (hp : 0 < ps) : 0 < ceilDiv n ps := by
  unfold ceilDiv
  exact Nat.div_pos (by omega) hp

theorem ceilDiv_pos {n : Nat} (h : 4 ≤ n) : 0 < ceilDiv n (ceilSqrt n) :=
  ceilDiv_pos_of_pos (by omega) (by have := ceilSqrt_ge_two h; omega)

theorem le_mul_ceilDiv {n ps : Nat} (hp : 0 < ps) : n ≤ ps * ceilDiv n ps := by
  unfold ceilDiv
  have h1 := Nat.div_add_mod (n + ps - 1) ps
  have h2 := Nat.mod_lt (n + ps - 1) hp
  omega

/-- every index below `n ≤ ps*qs` is `i*qs + j` with `i < ps`, `j < qs` -/
theorem index_decomp {n ps qs k : Nat} (hq : 0 < qs) (hn : n ≤ ps * qs) (hk : k < n) :
    k / qs < ps ∧ k % qs < qs ∧ (k / qs) * qs + k % qs = k := by
  refine ⟨?_, Nat.mod_lt k hq, Nat.div_add_mod' k qs⟩
  rw [Nat.div_lt_iff_lt_mul hq]
  omega

theorem index_div {qs i j : Nat} (hj : j < qs) : (i * qs + j) / qs = i := by
  rw [Nat.mul_comm, Nat.mul_add_div (by omega), Nat.div_eq_of_lt hj, Nat.add_zero]

theorem index_mod {qs i j : Nat} (hj : j < qs) : (i * qs + j) % qs = j := by
  rw [Nat.mul_comm, Nat.mul_add_mod, Nat.mod_eq_of_lt hj]

end EncL
end Oratio
