/-
C07N, target 1 (continued): `ThInv` is kept by `push` (inside `assume`), `Net.pop`, `Net.popTo`.
-/
import OratioProofs.Lemmas.NetSoundTh

namespace Oratio
namespace Net
open Lra

/-! ### push -/

theorem LraBase.push {orig : Cnf} {s : Sat} {t : Lra} (h : LraBase orig s t) : LraBase orig s t.push :=
  ⟨explInv_push h.inv, valsOK_push h.vals, h.key, h.vars, h.just, h.reasons⟩

theorem IdlBase.push {s : Sat} {t : Dl Int} (h : IdlBase s t) : IdlBase s t.push := by
  obtain ⟨K, E, hE, hok⟩ := h.exact
  exact ⟨⟨K, E, (hE.toM.congr_state (t2 := t.push) rfl rfl rfl).ofM, hok⟩, C10X_push_pathinv s t h.path, h.sorted⟩

theorem RdlBase.push {s : Sat} {t : Dl IR} (h : RdlBase s t) : RdlBase s t.push := by
  obtain ⟨E, hE⟩ := h.exact
  exact ⟨⟨E, Dl.ExactR.ofM (hE.toM.congr_state (t2 := t.push) rfl rfl rfl)⟩, h.ok, C10XR_push_pathinv s t h.path,
    h.sorted, h.eps, h.epsC⟩

/-- the `push` of all theories when a decision level is opened (the SAT state `s'` has the same
    values): the ghost frame is the network before -/
theorem ThInv.push {n : Net} {orig : Cnf} {fr : List Frame} (h : ThInv n orig fr) (s' : Sat) (hs : Dl.SatLe n.sat s') :
    ThInv { n with sat := s', lra := n.lra.push, idl := n.idl.push, rdl := n.rdl.push } orig
      (⟨n.sat, n.lra, n.idl, n.rdl⟩ :: fr) := by
  have hb := h.base
  exact ⟨⟨hb.lra.push.mono hs, hb.idl.push.mono hs, hb.rdl.push.mono hs⟩, C09_popInv_push n.lra,
    LraSame.of_eq rfl rfl rfl, Undo.Lg_push idlOps n.idl hb.idl.sorted, Undo.Lg_push rdlOps n.rdl hb.rdl.sorted, hs, h⟩

/-! ### pop -/

theorem pop_layers {B l : Lra} (h : C09PopInv B l) : l.pop.layers = B.layers := by
  obtain ⟨lyr, hl, _⟩ := h
  unfold Lra.pop
  rw [hl]

theorem ThChain.pop {orig : Cnf} {s s' : Sat} {l : Lra} {i : Dl Int} {r : Dl IR} {f : Frame} {fr : List Frame}
    (h : ThChain orig s l i r (f :: fr)) (hs : Dl.SatLe f.sat s') : ThChain orig s' l.pop i.pop r.pop fr := by
  obtain ⟨hb, h2, h3, h4, h5, _, h7⟩ := h
  rw [Undo.pop_of_Lg idlOps h4, Undo.pop_of_Lg rdlOps h5]
  have hfb := h7.base
  obtain ⟨p1, p2, p3, p4, p5⟩ := pop_restores h2
  obtain ⟨q1, q2, q3, q4, q5⟩ := pop_same l
  have hsame : LraSame f.lra l.pop := h3.trans (LraSame.of_eq q1 q4 (by rw [q3]))
  have hlb : LraBase orig s' l.pop := by
    refine ⟨p4 hfb.lra.inv.bok hb.lra.inv, p5 hb.lra.vals, ?_, ?_, ?_, p3 f.sat s' hfb.lra.reasons hs⟩
    · intro e he; rw [q4] at he; exact hb.lra.key e he
    · intro e he; rw [q4] at he; rw [q3]; exact hb.lra.vars e he
    · exact hfb.lra.just.same hsame (fun α σr σi hj => p2 α σr σi hj)
  refine ThChain.update h7 ⟨hlb, hfb.idl.mono hs, hfb.rdl.mono hs⟩ hs ?_ hsame (fun _ hB => hB) (fun _ hB => hB)
  intro B hB
  exact popInv_congr p1 (pop_layers h2) hB

/-- `Net.pop`, when the popped SAT core still has the values it had at the matching `push` -/
theorem ThInv.pop {n : Net} {orig : Cnf} {f : Frame} {fr : List Frame} (h : ThInv n orig (f :: fr))
    (hs : Dl.SatLe f.sat n.sat.pop) : ThInv n.pop orig fr :=
  ThChain.pop h hs

/-! ### popTo -/

/-- every frame's SAT state keeps its values when the SAT core pops back to the level it opened -/
def FramesLe : Sat → List Frame → Prop
  | _, [] => True
  | s, f :: fs => Dl.SatLe f.sat s.pop ∧ FramesLe s.pop fs

theorem popTo_go_sat (lvl : Nat) : ∀ (k : Nat) (n : Net), (popTo.go lvl k n).sat = Sat.popTo.go lvl k n.sat
  | 0, _ => rfl
  | k + 1, n => by
    unfold popTo.go Sat.popTo.go
    split
    · exact popTo_go_sat lvl k n.pop
    · rfl

theorem popTo_sat (n : Net) (lvl : Nat) : (popTo n lvl).sat = n.sat.popTo lvl := popTo_go_sat lvl _ n

theorem ThInv.popTo_go {orig : Cnf} (lvl : Nat) : ∀ (k : Nat) (n : Net) (fr : List Frame), ThInv n orig fr →
    FramesLe n.sat fr → fr.length = n.sat.decisionLevel →
    ∃ fr', ThInv (popTo.go lvl k n) orig fr' ∧ FramesLe (popTo.go lvl k n).sat fr' ∧
      fr'.length = (popTo.go lvl k n).sat.decisionLevel
  | 0, n, fr, h, hf, hl => ⟨fr, h, hf, hl⟩
  | k + 1, n, fr, h, hf, hl => by
    unfold popTo.go
    split
    · rename_i hgt
      cases fr with
      | nil => simp at hl; omega
      | cons f fs =>
        refine ThInv.popTo_go lvl k n.pop fs (h.pop hf.1) hf.2 ?_
        show fs.length = n.sat.pop.decisionLevel
        rw [Sat.pop_decisionLevel]
        simp at hl; omega
    · exact ⟨fr, h, hf, hl⟩

/-- `Net.popTo` keeps the theory invariants (for the remaining frames) -/
theorem ThInv.popTo {n : Net} {orig : Cnf} {fr : List Frame} (h : ThInv n orig fr) (hf : FramesLe n.sat fr)
    (hl : fr.length = n.sat.decisionLevel) (lvl : Nat) :
    ∃ fr', ThInv (popTo n lvl) orig fr' ∧ FramesLe (popTo n lvl).sat fr' ∧ fr'.length = (popTo n lvl).sat.decisionLevel :=
  ThInv.popTo_go lvl _ n fr h hf hl

/-! ### `TModel` is not affected by backtracking -/

theorem dl_pop_varDists {α : Type} (t : Dl α) : t.pop.varDists = t.varDists := by
  unfold Dl.pop
  split
  · rfl
  · simp only
    rw [Undo.foldl_setP, Undo.foldl_setD]

theorem TModel.pop (n : Net) (α : Asg) : TModel n.pop α ↔ TModel n α := by
  obtain ⟨q1, _, q3, q4, _⟩ := pop_same n.lra
  exact TModel.congr (n := n) (n' := n.pop) (LraSame.of_eq q1 q4 (congrArg List.length q3)) (dl_pop_varDists _) (dl_pop_varDists _) α

theorem TModel.popTo_go (lvl : Nat) (α : Asg) : ∀ (k : Nat) (n : Net), TModel (popTo.go lvl k n) α ↔ TModel n α
  | 0, _ => Iff.rfl
  | k + 1, n => by
    unfold popTo.go
    split
    · exact (TModel.popTo_go lvl α k n.pop).trans (TModel.pop n α)
    · exact Iff.rfl

theorem TModel.popTo (n : Net) (lvl : Nat) (α : Asg) : TModel (popTo n lvl) α ↔ TModel n α :=
  TModel.popTo_go lvl α _ n

end Net
end Oratio
