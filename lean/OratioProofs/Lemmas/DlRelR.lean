/-
Lemmas for property C12, real-valued instance, part 1: the relation constructors
`new_lt … new_gt` of `rdl_theory` (normal form `relOutK rdlOps`) mean what they say under rational
valuations of the time points; what is rejected.
-/
import OratioProofs.Lemmas.DlRelRDefs
import OratioProofs.Lemmas.DlRel
import Mathlib.Tactic.Ring
import Mathlib.Tactic.Linarith
import Mathlib.Algebra.Order.Field.Rat
import Mathlib.Tactic.FieldSimp

namespace Oratio
namespace DlRelR
open Dl DlRel

universe u

/-- the real instance never rejects a constant: `mkB k e = k + e·ε` -/
theorem rdl_mkB (k : R) (e : Int) : rdlOps.mkB k e = some ⟨k, R.ofInt e⟩ := rfl

/-- the ten shapes of a one- and two-variable request over the reals -/
theorem tailK_rdl {β : Sort u} (r : Rel) (flip : Bool) (k : R) (a b : Nat)
    (k1 : Nat → Nat → IR → β) (k2 : Nat → Nat → IR → Nat → Nat → IR → β) (ki : β) :
    tailK rdlOps r flip k a b k1 k2 ki =
      match r with
      | .eq => k2 a b ⟨k, R.ofInt 0⟩ b a ⟨R.neg k, R.ofInt 0⟩
      | .lt => if flip then k1 a b ⟨k, R.ofInt (-1)⟩ else k1 b a ⟨R.neg k, R.ofInt (-1)⟩
      | .leq => if flip then k1 a b ⟨k, R.ofInt 0⟩ else k1 b a ⟨R.neg k, R.ofInt 0⟩
      | .geq => if flip then k1 b a ⟨R.neg k, R.ofInt 0⟩ else k1 a b ⟨k, R.ofInt 0⟩
      | .gt => if flip then k1 b a ⟨R.neg k, R.ofInt (-1)⟩ else k1 a b ⟨k, R.ofInt (-1)⟩ := by
  unfold tailK
  cases r <;> cases flip <;> rfl

theorem tailK_rdl_not_invalid (r : Rel) (flip : Bool) (k : R) (a b : Nat) :
    ¬ tailK rdlOps r flip k a b (fun _ _ _ => False) (fun _ _ _ _ _ _ => False) True := by
  rw [tailK_rdl]
  cases r <;> cases flip <;> exact id

/-! ### reading an edge under a rational valuation -/

theorem embQ_sub (σ : Nat → ℚ) (s d : Nat) : embQ σ d - embQ σ s = toLex (σ d - σ s, 0) := by
  show (toLex (σ d - σ s, (0 : ℚ) - 0) : QV) = _
  rw [sub_zero]

theorem edgeHoldsR_iff (σ : Nat → ℚ) (s d : Nat) (w : IR) :
    edgeHoldsR σ s d w ↔ (σ d - σ s < w.rat.toRat ∨ (σ d - σ s = w.rat.toRat ∧ 0 ≤ w.inf.toRat)) := by
  unfold edgeHoldsR QEdge.holds
  show embQ σ d - embQ σ s ≤ IR.val w ↔ _
  rw [embQ_sub]
  unfold IR.val
  rw [QV.le_iff]

/-- strict bound: `x_d - x_s ≤ q - ε` is `σ d - σ s < q` -/
theorem edgeHoldsR_strict (σ : Nat → ℚ) (s d : Nat) (q : R) :
    edgeHoldsR σ s d ⟨q, R.ofInt (-1)⟩ ↔ σ d - σ s < q.toRat := by
  rw [edgeHoldsR_iff]
  show (_ ∨ (_ ∧ 0 ≤ (R.ofInt (-1)).toRat)) ↔ _
  rw [R.toRat_ofInt]
  constructor
  · rintro (h | ⟨-, h⟩)
    · exact h
    · exfalso; norm_num at h
  · intro h; exact Or.inl h

/-- non-strict bound: `x_d - x_s ≤ q` is `σ d - σ s ≤ q` -/
theorem edgeHoldsR_weak (σ : Nat → ℚ) (s d : Nat) (q : R) :
    edgeHoldsR σ s d ⟨q, R.ofInt 0⟩ ↔ σ d - σ s ≤ q.toRat := by
  rw [edgeHoldsR_iff]
  show (_ ∨ (_ ∧ 0 ≤ (R.ofInt 0).toRat)) ↔ _
  rw [R.toRat_ofInt]
  constructor
  · rintro (h | ⟨h, -⟩)
    · exact le_of_lt h
    · exact le_of_eq h
  · intro h
    rcases lt_or_eq_of_le h with h | h
    · exact Or.inl h
    · exact Or.inr ⟨h, by norm_num⟩

theorem fin_mk {k : R} (hk : R.FinWF k) (e : Int) : IR.Fin ⟨k, R.ofInt e⟩ := ⟨hk, R.finWF_ofInt e⟩

/-! ### the algebraic core over ℚ: dividing by the coefficient, flipping for a negative one -/

theorem coreQ (c K k s : ℚ) (hc : c ≠ 0) (hk : k = K / c) :
    (c < 0 → ((-s < k ↔ c * s + K < 0) ∧ (-s ≤ k ↔ c * s + K ≤ 0) ∧
              (s ≤ -k ↔ c * s + K ≥ 0) ∧ (s < -k ↔ c * s + K > 0))) ∧
    (0 < c → ((s < -k ↔ c * s + K < 0) ∧ (s ≤ -k ↔ c * s + K ≤ 0) ∧
              (-s ≤ k ↔ c * s + K ≥ 0) ∧ (-s < k ↔ c * s + K > 0))) ∧
    ((-s ≤ k ∧ s ≤ -k) ↔ c * s + K = 0) := by
  have hK : K = k * c := by rw [hk]; field_simp
  have hV : c * s + K = c * (s + k) := by rw [hK]; ring
  rw [hV]
  have e1 : (-s < k) ↔ 0 < s + k := by constructor <;> intro h <;> linarith
  have e2 : (-s ≤ k) ↔ 0 ≤ s + k := by constructor <;> intro h <;> linarith
  have e3 : (s ≤ -k) ↔ s + k ≤ 0 := by constructor <;> intro h <;> linarith
  have e4 : (s < -k) ↔ s + k < 0 := by constructor <;> intro h <;> linarith
  rw [e1, e2, e3, e4]
  generalize s + k = q
  refine ⟨fun h => ⟨?_, ?_, ?_, ?_⟩, fun h => ⟨?_, ?_, ?_, ?_⟩, ?_⟩
  all_goals first | (constructor <;> intro hq <;> nlinarith) | skip
  · constructor
    · rintro ⟨h1, h2⟩; rw [le_antisymm h2 h1, mul_zero]
    · intro h; rcases mul_eq_zero.1 h with h | h
      · exact absurd h hc
      · rw [h]; exact ⟨le_refl _, le_refl _⟩

/-- the semantic core of the one- and two-variable forms: every weight is a finite `inf_rational`
    with an integer ε part, and the constraint(s) hold exactly when the relation does -/
theorem tailK_rdl_meaning (r : Rel) (c k : R) (hc : R.FinWF c) (hcn : c.num ≠ 0) (hk : R.FinWF k) (K : Rat)
    (hK : k.toRat = K / c.toRat) (σ : Nat → ℚ) (a b : Nat) (H : Prop)
    (hH : H ↔ holds r (c.toRat * (σ a - σ b) + K) 0) :
    tailK rdlOps r (R.lt c R.zero) k a b
      (fun s d w => IR.Fin w ∧ w.inf.den = 1 ∧ (edgeHoldsR σ s d w ↔ H))
      (fun s1 d1 w1 s2 d2 w2 => IR.Fin w1 ∧ IR.Fin w2 ∧ w1.inf.den = 1 ∧ w2.inf.den = 1 ∧
        ((edgeHoldsR σ s1 d1 w1 ∧ edgeHoldsR σ s2 d2 w2) ↔ H)) True := by
  rw [tailK_rdl]
  have hc0 := toRat_ne_zero hc hcn
  have hnk := R.finWF_neg hk
  have hnv : (R.neg k).toRat = - k.toRat := R.toRat_neg hk
  obtain ⟨hneg, hpos, heq⟩ := coreQ c.toRat K k.toRat (σ a - σ b) hc0 hK
  have hflip := lt_zero_iff hc
  have e1 : ∀ q : ℚ, σ b - σ a < q ↔ -(σ a - σ b) < q := fun q => by rw [neg_sub]
  have e2 : ∀ q : ℚ, σ b - σ a ≤ q ↔ -(σ a - σ b) ≤ q := fun q => by rw [neg_sub]
  by_cases hlt : c.toRat < 0
  · have hf : R.lt c R.zero = true := hflip.2 hlt
    obtain ⟨h1, h2, h3, h4⟩ := hneg hlt
    cases r <;> simp only [hf, if_true, hH, holds]
    · exact ⟨fin_mk hk _, rfl, by rw [edgeHoldsR_strict, e1]; exact h1⟩
    · exact ⟨fin_mk hk _, rfl, by rw [edgeHoldsR_weak, e2]; exact h2⟩
    · exact ⟨fin_mk hk _, fin_mk hnk _, rfl, rfl, by rw [edgeHoldsR_weak, edgeHoldsR_weak, e2, hnv]; exact heq⟩
    · exact ⟨fin_mk hnk _, rfl, by rw [edgeHoldsR_weak, hnv]; exact h3⟩
    · exact ⟨fin_mk hnk _, rfl, by rw [edgeHoldsR_strict, hnv]; exact h4⟩
  · have hf : R.lt c R.zero = false := by
      cases h : R.lt c R.zero
      · rfl
      · exact absurd (hflip.1 h) hlt
    have hp : 0 < c.toRat := lt_of_le_of_ne (not_lt.1 hlt) (Ne.symm hc0)
    obtain ⟨h1, h2, h3, h4⟩ := hpos hp
    cases r <;> simp only [hf, Bool.false_eq_true, if_false, hH, holds]
    · exact ⟨fin_mk hnk _, rfl, by rw [edgeHoldsR_strict, hnv]; exact h1⟩
    · exact ⟨fin_mk hnk _, rfl, by rw [edgeHoldsR_weak, hnv]; exact h2⟩
    · exact ⟨fin_mk hk _, fin_mk hnk _, rfl, rfl, by rw [edgeHoldsR_weak, edgeHoldsR_weak, e2, hnv]; exact heq⟩
    · exact ⟨fin_mk hk _, rfl, by rw [edgeHoldsR_weak, e2]; exact h3⟩
    · exact ⟨fin_mk hk _, rfl, by rw [edgeHoldsR_strict, e1]; exact h4⟩

/-- (ii) the semantic core, on the continuation-passing form.  `hnz`: a one-variable difference
    has a non-zero coefficient (for two variables this follows from the `c1 = -1` test). -/
theorem relOutK_rdl_meaning (r : Rel) (left right : Lin) (hl : left.WF) (hr : right.WF)
    (hnz : ∀ x c, (Lin.sub left right).vars = [(x, c)] → c.num ≠ 0)
    (σ : Nat → ℚ) (h0 : σ 0 = 0) (H : Prop)
    (hH : H ↔ holds r (Lin.eval left σ) (Lin.eval right σ)) :
    relOutK rdlOps r left right (fun b => b = true ↔ H)
      (fun s d w => IR.Fin w ∧ w.inf.den = 1 ∧ (edgeHoldsR σ s d w ↔ H))
      (fun s1 d1 w1 s2 d2 w2 => IR.Fin w1 ∧ IR.Fin w2 ∧ w1.inf.den = 1 ∧ w2.inf.den = 1 ∧
        ((edgeHoldsR σ s1 d1 w1 ∧ edgeHoldsR σ s2 d2 w2) ↔ H)) True := by
  obtain ⟨hwf, -, -, hev, -⟩ := C15_lin_sub left right hl hr
  rw [holds_sub, ← hev] at hH
  unfold relOutK
  generalize Lin.sub left right = e at hwf hH hnz
  obtain ⟨vars, known⟩ := e
  match vars with
  | [] =>
    dsimp only
    have hk : R.FinWF known := ((Lin.wf_iff _).1 hwf).2.2
    rw [relConst_iff r hk, hH]
    simp [Lin.eval]
  | [(x, c)] =>
    dsimp only
    obtain ⟨hc, hk⟩ := wf1 hwf
    have hcn : c.num ≠ 0 := hnz x c rfl
    apply tailK_rdl_meaning r c _ hc hcn (R.finWF_divAssign hk hc hcn) known.toRat
      (R.toRat_divAssign hk hc hcn)
    rw [hH]
    simp [Lin.eval, h0]
  | [(v0, c0), (v1, c1)] =>
    dsimp only
    obtain ⟨hlt, hc0, hc1, hk⟩ := wf2 hwf
    rw [find_div2 v0 v1 c0 c1 known (Nat.ne_of_lt hlt)]
    split
    · trivial
    · rename_i hne
      obtain ⟨hcn, hc10⟩ := ne_negOne hc0 hc1 hne
      apply tailK_rdl_meaning r c0 _ hc0 hcn (R.finWF_divAssign hk hc0 hcn) known.toRat
        (R.toRat_divAssign hk hc0 hcn)
      rw [hH]
      simp only [Lin.eval, List.map, List.sum_cons, List.sum_nil, hc10]
      ring_nf
  | _ :: _ :: _ :: _ => trivial

/-! ### what is rejected -/

/-- exactly what the real instance rejects: more than two variables, or two variables whose
    coefficients are not opposite.  No condition on the constant. -/
theorem relOutK_rdl_invalid (r : Rel) (left right : Lin) (hl : left.WF) (hr : right.WF) :
    relOutK rdlOps r left right (fun _ => False) (fun _ _ _ => False) (fun _ _ _ _ _ _ => False) True ↔
      (let e := Lin.sub left right
       match e.vars with
       | [] => False
       | [_] => False
       | [(_, c0), (_, c1)] => R.ne (R.div c1 c0) (R.neg R.one) = true
       | _ => True) := by
  obtain ⟨hwf, -⟩ := C15_lin_sub left right hl hr
  unfold relOutK
  generalize Lin.sub left right = e at hwf
  obtain ⟨vars, known⟩ := e
  match vars with
  | [] => exact Iff.rfl
  | [(x, c)] =>
    dsimp only
    exact ⟨fun h => tailK_rdl_not_invalid _ _ _ _ _ h, False.elim⟩
  | [(v0, c0), (v1, c1)] =>
    dsimp only
    obtain ⟨hlt, -⟩ := wf2 hwf
    rw [find_div2 v0 v1 c0 c1 known (Nat.ne_of_lt hlt), R.divAssign_eq_div]
    split
    · rename_i h; simp [h]
    · rename_i h
      constructor
      · intro h'; exact absurd h' (tailK_rdl_not_invalid _ _ _ _ _)
      · intro h'; exact absurd h' h
  | _ :: _ :: _ :: _ => exact Iff.rfl

/-- the test `c1 / c0 ≠ -1` read on the denoted rationals: the two coefficients are opposite and
    non-zero exactly when the test passes -/
theorem ne_negOne_iff {c0 c1 : R} (hc0 : R.FinWF c0) (hc1 : R.FinWF c1) :
    R.ne (R.div c1 c0) (R.neg R.one) = true ↔ ¬ (c0.toRat ≠ 0 ∧ c1.toRat = - c0.toRat) := by
  constructor
  · intro h ⟨hz, he⟩
    have hn : c0.num ≠ 0 := by
      intro hn
      apply hz
      rw [R.wf_num_zero hc0.1 hn, R.toRat_zero]
    have : R.div c1 c0 = R.neg R.one := by
      rw [← R.divAssign_eq_div]
      apply R.FinWF.ext (R.finWF_divAssign hc1 hc0 hn) (R.finWF_neg (R.finWF_ofInt 1))
      rw [R.toRat_divAssign hc1 hc0 hn, he]
      have h1 : (R.neg (R.ofInt 1)).toRat = -1 := by decide
      rw [h1]
      field_simp
    rw [this] at h
    exact absurd h (by decide)
  · intro h
    by_contra hne
    rw [← R.divAssign_eq_div] at hne
    obtain ⟨hcn, hc10⟩ := ne_negOne hc0 hc1 hne
    exact h ⟨toRat_ne_zero hc0 hcn, hc10⟩

end DlRelR
end Oratio
