import OratioModel
import OratioProofs.Lemmas.SatCoreCons
import OratioProofs.Lemmas.SatCoreMain
