/-
C08N, non-vacuity: a concrete network built with the model's own constructors.

  SAT:  b5 (a plain variable)
  LRA:  x0, x1;  b1 : x0 ≤ x1 + 3  (slack x2 = x0 - x1, assertion x2 ≤ 3);  b2 : x0 ≥ 5
  IDL:  time points t1, t2;  b3 : t2 - t1 ≤ 5;  b4 : t1 - t2 ≤ -7
  clauses  [¬b1, b2], [¬b1, b3]

`assume b1`: unit propagation gives b2 and b3; LRA stores x2 ≤ 3 (reason b1) and x0 ≥ 5 (reason b2); IDL
enforces b3, records the lemma [¬b4, ¬b3] (a third clause) and ¬b4 is propagated; the simplex pivots
(x1 becomes basic instead of x2) and moves the values to x0 = 5, x1 = 2, x2 = 3.  No conflict.
-/
import OratioProofs.Lemmas.UndoNetProp
import OratioProofs.Lemmas.LraReachMain

namespace Oratio
namespace C08NEx
open Net Sat

def lx0 : Lin := Lin.var 0 R.one
def lx1p3 : Lin := ⟨[(1, R.one)], ⟨3, 1⟩⟩
def k5 : Lin := ⟨[], ⟨5, 1⟩⟩

def a0 : Net := (lraNewVar (lraNewVar Net.init).2).2
/-- b1 : x0 ≤ x1 + 3 -/
def a1 : Net := ((lraNewRel a0 .leq lx0 lx1p3).map (·.2)).getD a0
/-- b2 : x0 ≥ 5 -/
def a2 : Net := ((lraNewRel a1 .geq lx0 k5).map (·.2)).getD a1
def a3 : Net := (idlNewVar (idlNewVar a2).2).2
/-- b3 : t2 - t1 ≤ 5 -/
def a4 : Net := (idlNewDistance a3 1 2 5).2
/-- b4 : t1 - t2 ≤ -7 -/
def a5 : Net := (idlNewDistance a4 2 1 (-7)).2
/-- b5 : a plain SAT variable -/
def a5' : Net := { a5 with sat := a5.sat.newVar.2 }
def a6 : Net := { a5' with sat := (a5'.sat.newClause [⟨1, false⟩, ⟨2, true⟩]).2 }
/-- the root-level network of the examples -/
def net : Net := { a6 with sat := (a6.sat.newClause [⟨1, false⟩, ⟨3, true⟩]).2 }

def b1 : Lit := ⟨1, true⟩

/-- the network after `assume b1` -/
def after : Net := ((net.assume b1 50).map (·.2)).getD net

/-! ### decidable forms of the hypotheses -/

/-- a decidable test for `Sat.Clean` -/
def cleanB (s : Sat) : Bool :=
  s.level.length == s.vals.length && s.reason.length == s.vals.length &&
  (List.range s.vals.length).all (fun v =>
    s.vals.getD v none != none || (s.level.getD v 0 == 0 && s.reason.getD v none == none))

theorem clean_of_cleanB {s : Sat} (h : cleanB s = true) : Clean s := by
  simp only [cleanB, Bool.and_eq_true, beq_iff_eq, List.all_eq_true, List.mem_range, Bool.or_eq_true, bne_iff_ne, ne_eq] at h
  obtain ⟨⟨h1, h2⟩, h3⟩ := h
  refine ⟨h1, h2, fun v hv => ?_⟩
  by_cases hlt : v < s.vals.length
  · rcases h3 v hlt with h | h
    · exact absurd hv h
    · exact h
  · constructor
    · rw [List.getD_eq_getElem?_getD, List.getElem?_eq_none (by omega)]; rfl
    · rw [List.getD_eq_getElem?_getD, List.getElem?_eq_none (by omega)]; rfl

/-- a decidable test for `Sat.IdsOK` -/
theorem idsOK_of_dec {s : Sat} (h : (s.cls.all (fun e => decide (e.1 < s.nextId)) && decide (s.cls.map (·.1)).Nodup) = true) :
    IdsOK s := by
  simp only [Bool.and_eq_true, List.all_eq_true, decide_eq_true_eq] at h
  exact ⟨h.1, h.2⟩

/-! ### the LRA state is reachable, hence well-formed -/

theorem good_lraNewRel {n : Net} (g : Lra.GoodState n.lra) {r : LRel} {a b : Lin} (ha : Lra.LinOK n.lra a)
    (hb : Lra.LinOK n.lra b) : Lra.GoodState (((lraNewRel n r a b).map (·.2)).getD n).lra := by
  unfold lraNewRel
  cases h : Lra.newRel n.sat n.lra r a b with
  | none => exact g
  | some p =>
    obtain ⟨l, s', t', bd⟩ := p
    exact (Lra.newRel_good g ha hb h).1

theorem lx0_wf : lx0.WF := by
  refine ⟨trivial, ?_, by decide, by decide⟩
  intro t ht; simp [lx0, Lin.var] at ht; subst ht; decide

theorem lx1p3_wf : lx1p3.WF := by
  refine ⟨trivial, ?_, by decide, by decide⟩
  intro t ht; simp [lx1p3] at ht; subst ht; decide

theorem k5_wf : k5.WF := by
  refine ⟨trivial, ?_, by decide, by decide⟩
  intro t ht; cases ht

theorem a0_good : Lra.GoodState a0.lra := Lra.newVar_good (Lra.newVar_good Lra.init_good)

theorem a1_good : Lra.GoodState a1.lra :=
  good_lraNewRel a0_good ⟨lx0_wf, by decide +kernel⟩ ⟨lx1p3_wf, by decide +kernel⟩

theorem a2_good : Lra.GoodState a2.lra :=
  good_lraNewRel a1_good ⟨lx0_wf, by decide +kernel⟩ ⟨k5_wf, by decide +kernel⟩

theorem net_lra : net.lra = a2.lra := rfl

theorem net_good : Good net := by
  refine ⟨clean_of_cleanB (by decide +kernel), by rw [net_lra]; exact a2_good.tab, ?_, ?_⟩
  · have e : net.idl.distConstr = [] := by decide +kernel
    rw [e]; exact Undo.sortedK_nil
  · have e : net.rdl.distConstr = [] := by decide +kernel
    rw [e]; exact Undo.sortedK_nil

theorem net_ids : IdsOK net.sat := idsOK_of_dec (by decide +kernel)

theorem net_root : net.sat.trailLim = [] := by decide +kernel

/-! ### the run -/

theorem net_quiet : quietAssume net b1 50 = true := by decide +kernel

theorem net_assume : net.assume b1 50 = some (true, after) := by
  have h1 : (net.assume b1 50).map (·.1) = some true := by decide +kernel
  unfold after
  cases h : net.assume b1 50 with
  | none => rw [h] at h1; cases h1
  | some r =>
    obtain ⟨b, n'⟩ := r
    rw [h] at h1
    simp only [Option.map_some, Option.some.injEq] at h1
    subst h1
    rfl

/-- what the level did: four literals assigned, one lemma recorded and stored as a third clause, two
    LRA bounds tightened, an IDL distance enforced, the tableau pivoted, values moved -/
theorem after_facts :
    after.sat.trail = [⟨4, false⟩, ⟨3, true⟩, ⟨2, true⟩, ⟨1, true⟩] ∧ after.sat.decisionLevel = 1 ∧
    after.sat.log = [[⟨4, false⟩, ⟨3, false⟩]] ∧ after.sat.cls.length = 3 ∧ net.sat.cls.length = 2 ∧
    after.lra.lb 0 = IR.ofR ⟨5, 1⟩ ∧ after.lra.lbReason 0 = ⟨2, true⟩ ∧ after.lra.ub 2 = IR.ofR ⟨3, 1⟩ ∧
    after.lra.ubReason 2 = ⟨1, true⟩ ∧ net.lra.lb 0 = IR.ofR R.ninf ∧ net.lra.ub 2 = IR.ofR R.pinf ∧
    after.idl.distConstr = [((1, 2), 3)] ∧ Dl.d idlOps after.idl 1 2 = 5 ∧ Dl.d idlOps net.idl 1 2 = idlInf := by
  decide +kernel

/-- what `pop` does NOT give back (by design: not visible through the network): the stored values and
    which variables are basic; and the clause database has grown and a watched pair was swapped -/
theorem after_pop_not_restored :
    after.pop.lra.vals = [IR.ofR ⟨5, 1⟩, IR.ofR ⟨2, 1⟩, IR.ofR ⟨3, 1⟩] ∧
    net.lra.vals = [IR.ofR R.zero, IR.ofR R.zero, IR.ofR R.zero] ∧
    after.pop.lra.tableau.map (·.1) = [1] ∧ net.lra.tableau.map (·.1) = [2] ∧
    after.pop.sat.cls = [(0, [⟨2, true⟩, ⟨1, false⟩]), (1, [⟨3, true⟩, ⟨1, false⟩]), (2, [⟨4, false⟩, ⟨3, false⟩])] ∧
    net.sat.cls = [(0, [⟨1, false⟩, ⟨2, true⟩]), (1, [⟨1, false⟩, ⟨3, true⟩])] := by
  decide +kernel

/-- the same comparison done by computation, field by field -/
theorem after_pop_computed :
    after.pop.sat.vals = net.sat.vals ∧ after.pop.sat.level = net.sat.level ∧ after.pop.sat.reason = net.sat.reason ∧
    after.pop.sat.trail = net.sat.trail ∧ after.pop.sat.trailLim = net.sat.trailLim ∧
    after.pop.sat.decisions = net.sat.decisions ∧
    after.pop.lra.bounds.map (fun b => (b.value, b.reason)) = net.lra.bounds.map (fun b => (b.value, b.reason)) ∧
    after.pop.idl.dists = net.idl.dists ∧ after.pop.idl.preds = net.idl.preds ∧
    after.pop.idl.distConstr = net.idl.distConstr ∧ after.pop.rdl.dists = net.rdl.dists := by
  decide +kernel

/-! ### a second level on top, and back to the root -/

/-- `assume b1`, a further `propagate` (nothing left to do), `assume b5`: two decision levels -/
def hist : List SOp := [.assume b1, .propagate, .assume ⟨5, true⟩]

/-- the network after the history -/
def deep : Net := (runQuiet 50 net hist).getD net

theorem hist_runs : runQuiet 50 net hist = some deep := by
  have h1 : (runQuiet 50 net hist).isSome = true := by decide +kernel
  unfold deep
  cases h : runQuiet 50 net hist with
  | none => rw [h] at h1; cases h1
  | some r => rfl

theorem deep_facts : deep.sat.decisionLevel = 2 ∧
    deep.sat.trail = [⟨5, true⟩, ⟨4, false⟩, ⟨3, true⟩, ⟨2, true⟩, ⟨1, true⟩] ∧ deep.lra.layers.length = 2 ∧
    (popTo deep 0).sat.trail = [] ∧ (popTo deep 0).sat.decisionLevel = 0 ∧ (popTo deep 0).lra.layers.length = 0 := by
  decide +kernel

end C08NEx
end Oratio
