/-
Helper lemmas for `Properties/C09Reach.lean`, part 1: the comparisons of `R` and `IR` as total
orders on canonical values (transitivity, duality of `<` and `≤`), infinite bounds.
-/
import OratioModel
import OratioProofs.Lemmas.InfRational
import OratioProofs.Lemmas.LraReachDefs

namespace Oratio
namespace R

theorem le_refl' {a : R} (ha : a.WF) : R.le a a = true := by
  rw [le_spec ha ha]; exact (ERat.le_total_order a.toE a.toE a.toE).1

theorem le_trans' {a b c : R} (ha : a.WF) (hb : b.WF) (hc : c.WF) (h1 : R.le a b = true) (h2 : R.le b c = true) :
    R.le a c = true := by
  rw [le_spec ha hb] at h1
  rw [le_spec hb hc] at h2
  rw [le_spec ha hc]
  exact (ERat.le_total_order a.toE b.toE c.toE).2.1 h1 h2

theorem le_antisymm' {a b : R} (ha : a.WF) (hb : b.WF) (h1 : R.le a b = true) (h2 : R.le b a = true) : a = b := by
  rw [le_spec ha hb] at h1
  rw [le_spec hb ha] at h2
  exact WF_unique ha hb ((ERat.le_total_order a.toE b.toE b.toE).2.2.1 h1 h2)

theorem le_total' {a b : R} (ha : a.WF) (hb : b.WF) : R.le a b = true ∨ R.le b a = true := by
  rw [le_spec ha hb, le_spec hb ha]
  exact (ERat.le_total_order a.toE b.toE b.toE).2.2.2

theorem le_of_not_le {a b : R} (ha : a.WF) (hb : b.WF) (h : R.le a b = false) : R.le b a = true := by
  rcases le_total' ha hb with h' | h'
  · rw [h] at h'; cases h'
  · exact h'

/-- for distinct canonical values exactly one of `a ≤ b`, `b ≤ a` holds -/
theorem le_flip_of_ne {a b : R} (ha : a.WF) (hb : b.WF) (hne : a ≠ b) : R.le b a = !R.le a b := by
  cases h1 : R.le a b
  · rw [le_of_not_le ha hb h1]; rfl
  · cases h2 : R.le b a
    · rfl
    · exact absurd (le_antisymm' ha hb h1 h2) hne

theorem wf_pinf : pinf.WF := by decide
theorem wf_ninf : ninf.WF := by decide

theorem ninf_le {a : R} (ha : a.WF) : R.le ninf a = true := by
  rw [le_spec wf_ninf ha, toE_ninf]; rfl

theorem le_pinf {a : R} (ha : a.WF) : R.le a pinf = true := by
  rw [le_spec ha wf_pinf, toE_pinf]
  cases a.toE <;> rfl

theorem finWF_ne_pinf {a : R} (ha : FinWF a) : a ≠ pinf := by
  rintro rfl; exact ha.2 rfl
theorem finWF_ne_ninf {a : R} (ha : FinWF a) : a ≠ ninf := by
  rintro rfl; exact ha.2 rfl

/-- a canonical value that is not `bad ∈ {+inf, -inf}` is finite or the other infinity -/
theorem fin_or_other {bad a : R} (ha : a.WF) (hne : a ≠ bad) :
    FinWF a ∨ (a.den = 0 ∧ (a = pinf ∨ a = ninf) ∧ a ≠ bad) := by
  by_cases hd : a.den = 0
  · exact Or.inr ⟨hd, wf_inf ha hd, hne⟩
  · exact Or.inl ⟨ha, hd⟩

end R

namespace IR
open R

theorem le_iff (a b : IR) :
    IR.le a b = true ↔ R.le b.rat a.rat = false ∨ (a.rat = b.rat ∧ R.le a.inf b.inf = true) := by
  unfold IR.le
  rw [R.lt_eq_not_le, R.eq_eq_decide]
  simp

theorem le_refl' {a : IR} (ha : a.WF) : IR.le a a = true :=
  (le_iff a a).2 (Or.inr ⟨rfl, R.le_refl' ha.2⟩)

theorem le_trans' {a b c : IR} (ha : a.WF) (hb : b.WF) (hc : c.WF) (h1 : IR.le a b = true) (h2 : IR.le b c = true) :
    IR.le a c = true := by
  rw [le_iff] at h1 h2 ⊢
  rcases h1 with h1 | ⟨e1, h1⟩
  · rcases h2 with h2 | ⟨e2, h2⟩
    · left
      cases h : R.le c.rat a.rat
      · rfl
      · have hab := R.le_of_not_le hb.1 ha.1 h1
        have := R.le_trans' hc.1 ha.1 hb.1 h hab
        rw [h2] at this; cases this
    · left; rw [← e2]; exact h1
  · rcases h2 with h2 | ⟨e2, h2⟩
    · left; rw [e1]; exact h2
    · right; exact ⟨e1.trans e2, R.le_trans' ha.2 hb.2 hc.2 h1 h2⟩

theorem lt_eq_not_le {a b : IR} (ha : a.WF) (hb : b.WF) : IR.lt a b = !IR.le b a := by
  unfold IR.lt IR.le
  rw [R.lt_eq_not_le a.rat, R.lt_eq_not_le b.rat, R.lt_eq_not_le a.inf, R.eq_eq_decide, R.eq_eq_decide]
  by_cases h : a.rat = b.rat
  · rw [h, R.le_refl' hb.1]; simp
  · have h' : ¬ b.rat = a.rat := fun e => h e.symm
    rw [R.le_flip_of_ne ha.1 hb.1 h]
    simp [h, h']

theorem gt_eq_lt_r (a b : IR) : IR.gt a b = IR.lt b a := by
  unfold IR.gt IR.lt
  rw [R.gt_eq_lt, R.gt_eq_lt, R.eq_eq_decide, R.eq_eq_decide]
  by_cases h : a.rat = b.rat
  · simp [h]
  · have h' : ¬ b.rat = a.rat := fun e => h e.symm
    simp [h, h']

theorem ge_eq_le_r (a b : IR) : IR.ge a b = IR.le b a := by
  unfold IR.ge IR.le
  rw [R.gt_eq_lt, R.ge_eq_le, R.eq_eq_decide, R.eq_eq_decide]
  by_cases h : a.rat = b.rat
  · simp [h]
  · have h' : ¬ b.rat = a.rat := fun e => h e.symm
    simp [h, h']

theorem le_of_lt {a b : IR} (ha : a.WF) (hb : b.WF) (h : IR.lt a b = true) : IR.le a b = true := by
  rw [lt_eq_not_le ha hb] at h
  have hba : IR.le b a = false := by
    cases h' : IR.le b a
    · rfl
    · rw [h'] at h; cases h
  rw [le_iff]
  cases h1 : R.le b.rat a.rat
  · exact Or.inl rfl
  · right
    have hnot : ¬ (R.le a.rat b.rat = false ∨ b.rat = a.rat ∧ R.le b.inf a.inf = true) := by
      intro hh; rw [(le_iff b a).2 hh] at hba; cases hba
    have h2 : R.le a.rat b.rat = true := by
      cases h2 : R.le a.rat b.rat
      · exact absurd (Or.inl h2) hnot
      · rfl
    have he := R.le_antisymm' ha.1 hb.1 h2 h1
    refine ⟨he, ?_⟩
    cases h3 : R.le b.inf a.inf
    · exact R.le_of_not_le hb.2 ha.2 h3
    · exact absurd (Or.inr ⟨he.symm, h3⟩) hnot

theorem le_of_not_lt {a b : IR} (ha : a.WF) (hb : b.WF) (h : IR.lt a b = false) : IR.le b a = true := by
  rw [lt_eq_not_le ha hb] at h
  cases h' : IR.le b a
  · rw [h'] at h; cases h
  · rfl

theorem not_lt_of_le {a b : IR} (ha : a.WF) (hb : b.WF) (h : IR.le b a = true) : IR.lt a b = false := by
  rw [lt_eq_not_le ha hb, h]; rfl

theorem lt_of_not_le {a b : IR} (ha : a.WF) (hb : b.WF) (h : IR.le a b = false) : IR.lt b a = true := by
  rw [lt_eq_not_le hb ha, h]; rfl

end IR

namespace Lra
open R

theorem FinIR.wf {a : IR} (h : FinIR a) : a.WF := ⟨h.1.1, h.2.1⟩
theorem OKs.wf {bad : R} {a : IR} (h : OKs bad a) : a.WF := ⟨h.1, h.2.2.1⟩

theorem FinIR.lower {a : IR} (h : FinIR a) : LowerOK a := ⟨h.1.1, R.finWF_ne_pinf h.1, h.2⟩
theorem FinIR.upper {a : IR} (h : FinIR a) : UpperOK a := ⟨h.1.1, R.finWF_ne_ninf h.1, h.2⟩

theorem finIR_zero : FinIR (IR.ofR R.zero) := ⟨R.finWF_zero, R.finWF_zero⟩

/-- a lower bound above a finite value is finite -/
theorem lower_fin_of_lt {v lb : IR} (hv : FinIR v) (hl : LowerOK lb) (h : IR.lt v lb = true) : FinIR lb := by
  refine ⟨?_, hl.2.2⟩
  rcases R.fin_or_other hl.1 hl.2.1 with hf | ⟨hd, hinf, hne⟩
  · exact hf
  · exfalso
    rcases hinf with h1 | h1
    · exact hne h1
    · rw [IR.lt_eq_not_le hv.wf hl.wf] at h
      have : IR.le lb v = true := by
        rw [IR.le_iff]
        left
        have h2 : R.le lb.rat v.rat = true := by rw [h1]; exact R.ninf_le hv.1.1
        cases h3 : R.le v.rat lb.rat
        · rfl
        · have := R.le_antisymm' hv.1.1 hl.1 h3 h2
          exact absurd (this ▸ hv.1.2) (by rw [h1]; decide)
      rw [this] at h; cases h

/-- an upper bound below a finite value is finite -/
theorem upper_fin_of_gt {v ub : IR} (hv : FinIR v) (hu : UpperOK ub) (h : IR.gt v ub = true) : FinIR ub := by
  refine ⟨?_, hu.2.2⟩
  rcases R.fin_or_other hu.1 hu.2.1 with hf | ⟨hd, hinf, hne⟩
  · exact hf
  · exfalso
    rcases hinf with h1 | h1
    · rw [IR.gt_eq_lt_r, IR.lt_eq_not_le hu.wf hv.wf] at h
      have : IR.le v ub = true := by
        rw [IR.le_iff]
        left
        have h2 : R.le v.rat ub.rat = true := by rw [h1]; exact R.le_pinf hv.1.1
        cases h3 : R.le ub.rat v.rat
        · rfl
        · have := R.le_antisymm' hv.1.1 hu.1 h2 h3
          exact absurd (this ▸ hv.1.2) (by rw [h1]; decide)
      rw [this] at h; cases h
    · exact hne h1

/-- `-inf` (with any finite infinitesimal part) is below everything that is not `-inf` -/
theorem le_of_rat_ninf {a b : IR} (hb : b.WF) (ha : a.rat = R.ninf) (hne : b.rat ≠ R.ninf) : IR.le a b = true := by
  rw [IR.le_iff]
  left
  have h2 : R.le a.rat b.rat = true := by rw [ha]; exact R.ninf_le hb.1
  cases h3 : R.le b.rat a.rat
  · rfl
  · exact absurd (R.le_antisymm' hb.1 (ha ▸ R.wf_ninf) h3 h2) (by rw [ha]; exact hne)

theorem le_of_rat_pinf {a b : IR} (ha : a.WF) (hb : b.rat = R.pinf) (hne : a.rat ≠ R.pinf) : IR.le a b = true := by
  rw [IR.le_iff]
  left
  have h2 : R.le a.rat b.rat = true := by rw [hb]; exact R.le_pinf ha.1
  cases h3 : R.le b.rat a.rat
  · rfl
  · exact absurd (R.le_antisymm' ha.1 (hb ▸ R.wf_pinf) h2 h3) (by rw [hb]; exact hne)

end Lra
end Oratio
