/-
C07: the reified constructors, run on the full solver state at root level, never report an
inconsistency (`dead` is unchanged), keep every "good" property that the primitives keep, and only
extend the state (frame conditions).
-/
import OratioModel
import OratioProofs.Lemmas.SatCoreCons

namespace Oratio

/-- what a constructor call may change -/
structure Sat.ConsFrame (s s' : Sat) : Prop where
  nvars : s.nvars ≤ s'.nvars
  dead : s'.dead = s.dead
  trailLim : s'.trailLim = s.trailLim
  decisions : s'.decisions = s.decisions
  log : s'.log = s.log
  cls : ∀ e ∈ s.cls, e ∈ s'.cls
  trail : ∀ l ∈ s.trail, l ∈ s'.trail

/-- a state property that the three state-changing primitives preserve -/
structure Sat.ConsClosed (Good : Sat → Prop) : Prop where
  newVar : ∀ s, Good s → Good s.newVar.2
  newClause : ∀ s c, Good s → (∀ l ∈ c, l.var < s.nvars) → Good (s.newClause c).2
  remember : ∀ s k l, Good s → l.var < s.nvars → Good (s.remember k l)
  /-- cached literals are in range -/
  cache : ∀ s, Good s → ∀ e ∈ s.exprs, e.2.var < s.nvars
  /-- variable 0 exists (and is the false constant) -/
  val0 : ∀ s, Good s → s.vals.getD 0 none = some false


/-! ### values -/

@[simp] theorem Lit.q_neg_var (l : Lit) : l.neg.var = l.var := rfl

theorem litValue_eq_none {vals : List (Option Bool)} {l : Lit} :
    litValue vals l = none ↔ vals.getD l.var none = none := by
  unfold litValue; split <;> simp_all

theorem getD_append_none (vals : List (Option Bool)) (i : Nat) :
    (vals ++ [none]).getD i none = vals.getD i none := by
  simp [List.getElem?_append]
  split
  · rfl
  · rename_i h
    have : vals.length ≤ i := by omega
    simp [List.getElem?_eq_none this]
    cases h2 : ([none] : List (Option Bool))[i - vals.length]? with
    | none => rfl
    | some x =>
      have := List.mem_of_getElem? h2
      simp at this; simp [this]

theorem Sat.value_none_iff (s : Sat) (l : Lit) : s.value l = none ↔ s.vals.getD l.var none = none :=
  litValue_eq_none

theorem Sat.value_none_of_var {s : Sat} {a b : Lit} (h : a.var = b.var) (hb : s.value b = none) :
    s.value a = none := by
  rw [Sat.value_none_iff] at *; rw [h]; exact hb

theorem Sat.value_neg_none {s : Sat} {a : Lit} (ha : s.value a = none) : s.value a.neg = none :=
  Sat.value_none_of_var (a := a.neg) (b := a) rfl ha

theorem Sat.value_none_of_ge {s : Sat} {l : Lit} (h : s.nvars ≤ l.var) : s.value l = none := by
  rw [Sat.value_none_iff]
  simp [List.getElem?_eq_none (show s.vals.length ≤ l.var from h)]

theorem Sat.lt_of_value_some {s : Sat} {l : Lit} {b} (h : s.value l = some b) : l.var < s.nvars := by
  by_cases h' : l.var < s.nvars
  · exact h'
  · rw [Sat.value_none_of_ge (by omega)] at h; cases h

/-! ### frames -/

theorem Sat.ConsFrame.refl (s : Sat) : Sat.ConsFrame s s :=
  ⟨Nat.le_refl _, rfl, rfl, rfl, rfl, fun _ h => h, fun _ h => h⟩

theorem Sat.ConsFrame.trans {s s' s'' : Sat} (h : Sat.ConsFrame s s') (h' : Sat.ConsFrame s' s'') :
    Sat.ConsFrame s s'' :=
  ⟨Nat.le_trans h.nvars h'.nvars, h'.dead.trans h.dead, h'.trailLim.trans h.trailLim,
    h'.decisions.trans h.decisions, h'.log.trans h.log, fun e he => h'.cls e (h.cls e he),
    fun e he => h'.trail e (h.trail e he)⟩

/-- a "quiet" step: `Good` is kept, the frame holds and no value changes -/
structure Sat.QS (Good : Sat → Prop) (s s' : Sat) : Prop where
  good : Good s'
  frame : Sat.ConsFrame s s'
  val : ∀ l, s'.value l = s.value l

theorem Sat.QS.refl {Good : Sat → Prop} {s : Sat} (hg : Good s) : Sat.QS Good s s :=
  ⟨hg, Sat.ConsFrame.refl s, fun _ => rfl⟩

theorem Sat.QS.trans {Good : Sat → Prop} {s s' s'' : Sat} (h : Sat.QS Good s s') (h' : Sat.QS Good s' s'') :
    Sat.QS Good s s'' :=
  ⟨h'.good, h.frame.trans h'.frame, fun l => (h'.val l).trans (h.val l)⟩

theorem Sat.QS.le {Good : Sat → Prop} {s s' : Sat} (h : Sat.QS Good s s') : s.nvars ≤ s'.nvars := h.frame.nvars

theorem Sat.newVar_nvars (s : Sat) : s.newVar.2.nvars = s.nvars + 1 := by
  simp [Sat.newVar, Sat.nvars]

theorem Sat.newVar_fst (s : Sat) : s.newVar.1 = s.nvars := rfl

theorem Sat.newVar_QS {Good : Sat → Prop} (hc : Sat.ConsClosed Good) {s : Sat} (hg : Good s) :
    Sat.QS Good s s.newVar.2 where
  good := hc.newVar s hg
  frame := ⟨by rw [Sat.newVar_nvars]; omega, rfl, rfl, rfl, rfl, fun _ h => h, fun _ h => h⟩
  val l := by
    show litValue (s.vals ++ [none]) l = litValue s.vals l
    unfold litValue; rw [getD_append_none]

theorem Sat.remember_QS {Good : Sat → Prop} (hc : Sat.ConsClosed Good) {s : Sat} (hg : Good s) (k : Key)
    {l : Lit} (hl : l.var < s.nvars) : Sat.QS Good s (s.remember k l) where
  good := hc.remember s k l hg hl
  frame := ⟨Nat.le_refl _, rfl, rfl, rfl, rfl, fun _ h => h, fun _ h => h⟩
  val _ := rfl

theorem Sat.lookup_lt {Good : Sat → Prop} (hc : Sat.ConsClosed Good) {s : Sat} (hg : Good s) {k : Key} {l : Lit}
    (h : s.lookup k = some l) : l.var < s.nvars := by
  unfold Sat.lookup at h
  cases hf : s.exprs.find? (fun e => e.1 = k) with
  | none => simp [hf] at h
  | some e =>
    simp [hf] at h
    subst h
    exact hc.cache s hg e (List.mem_of_find?_eq_some hf)

theorem Sat.zero_lt {Good : Sat → Prop} (hc : Sat.ConsClosed Good) {s : Sat} (hg : Good s) : 0 < s.nvars := by
  have h := hc.val0 s hg
  unfold Sat.nvars
  cases hv : s.vals with
  | nil => simp [hv] at h
  | cons a t => simp

/-! ### the sorts and scans -/

theorem Enc.mem_insertByVar {x l : Lit} {ls : List Lit} : l ∈ Enc.insertByVar x ls ↔ l = x ∨ l ∈ ls := by
  induction ls with
  | nil => simp [Enc.insertByVar]
  | cons y t ih =>
    simp only [Enc.insertByVar]
    split
    · simp
    · simp [ih]; grind

theorem Enc.mem_sortByVar {l : Lit} {ls : List Lit} : l ∈ Enc.sortByVar ls ↔ l ∈ ls := by
  induction ls with
  | nil => simp [Enc.sortByVar]
  | cons x t ih =>
    show l ∈ Enc.insertByVar x (Enc.sortByVar t) ↔ _
    simp [Enc.mem_insertByVar, ih]

theorem Enc.mem_insertByIdx {x l : Lit} {ls : List Lit} : l ∈ Enc.insertByIdx x ls ↔ l = x ∨ l ∈ ls := by
  induction ls with
  | nil => simp [Enc.insertByIdx]
  | cons y t ih =>
    simp only [Enc.insertByIdx]
    split
    · simp
    · simp [ih]; grind

theorem Enc.mem_sortByIdx {l : Lit} {ls : List Lit} : l ∈ Enc.sortByIdx ls ↔ l ∈ ls := by
  induction ls with
  | nil => simp [Enc.sortByIdx]
  | cons x t ih =>
    show l ∈ Enc.insertByIdx x (Enc.sortByIdx t) ↔ _
    simp [Enc.mem_insertByIdx, ih]

theorem Enc.mem_dedupAdj {l : Lit} : ∀ {ls : List Lit}, l ∈ Enc.dedupAdj ls → l ∈ ls
  | [] => by simp [Enc.dedupAdj]
  | [a] => by simp [Enc.dedupAdj]
  | a :: b :: t => by
    have ih := @Enc.mem_dedupAdj l (b :: t)
    simp only [Enc.dedupAdj]
    split
    · intro h; exact List.mem_cons_of_mem _ (ih h)
    · intro h
      rcases List.mem_cons.1 h with h | h
      · simp [h]
      · exact List.mem_cons_of_mem _ (ih h)

theorem Enc.mem_sortDedup {l : Lit} {ls : List Lit} (h : l ∈ Enc.sortDedup ls) : l ∈ ls :=
  Enc.mem_sortByIdx.1 (Enc.mem_dedupAdj h)

theorem Enc.scanClause_sub (s : Enc) : ∀ (c : List Lit) (p : Option Lit) (acc r : List Lit),
    Enc.scanClause s c p acc = some r → ∀ l ∈ r, l ∈ acc ∨ (l ∈ c ∧ s.value l = none)
  | [], p, acc, r, h, l, hl => by
    simp [Enc.scanClause] at h; subst h; simpa using hl
  | x :: rest, p, acc, r, h, l, hl => by
    simp only [Enc.scanClause] at h
    split at h
    · cases h
    · split at h
      · rename_i h1 h2
        have := Enc.scanClause_sub s rest _ _ r h l hl
        have hx : s.value x = none := by
          cases hv : s.value x with
          | none => rfl
          | some b => cases b <;> simp_all
        grind
      · have := Enc.scanClause_sub s rest _ _ r h l hl
        grind

theorem Enc.scanClause_sup (s : Enc) : ∀ (c : List Lit) (p : Option Lit) (acc r : List Lit),
    Enc.scanClause s c p acc = some r → (∀ x, p = some x → x ∈ acc) →
      (∀ l ∈ acc, l ∈ r) ∧ (∀ l ∈ c, s.value l = none → l ∈ r)
  | [], p, acc, r, h, hp => by
    simp [Enc.scanClause] at h; subst h; simp
  | x :: rest, p, acc, r, h, hp => by
    simp only [Enc.scanClause] at h
    split at h
    · cases h
    · split at h
      · have := Enc.scanClause_sup s rest _ _ r h (by simp)
        grind
      · rename_i h1 h2
        have := Enc.scanClause_sup s rest _ _ r h hp
        refine ⟨this.1, ?_⟩
        intro l hl hv
        rcases List.mem_cons.1 hl with rfl | hl
        · have hpl : p = some l := by simp_all
          exact this.1 _ (hp _ hpl)
        · exact this.2 l hl hv

theorem Enc.scanClause_true (s : Enc) : ∀ (c : List Lit) (p : Option Lit) (acc : List Lit),
    (∃ l ∈ c, s.value l = some true) → Enc.scanClause s c p acc = none
  | [], p, acc, h => by simp at h
  | x :: rest, p, acc, h => by
    simp only [Enc.scanClause]
    split
    · rfl
    · rename_i h1
      have hr : ∃ l ∈ rest, s.value l = some true := by
        obtain ⟨l, hl, hv⟩ := h
        rcases List.mem_cons.1 hl with rfl | hl
        · simp_all
        · exact ⟨l, hl, hv⟩
      split
      · exact Enc.scanClause_true s rest _ _ hr
      · exact Enc.scanClause_true s rest _ _ hr

/-! ### `newClause` -/

theorem Sat.toEnc_value (s : Sat) (l : Lit) : s.toEnc.value l = s.value l := rfl

theorem Sat.addClause_frame (s : Sat) (ls : Clause) :
    Sat.ConsFrame s (s.addClause ls).2 ∧ (s.addClause ls).2.vals = s.vals := by
  unfold Sat.addClause
  split <;>
    (refine ⟨⟨Nat.le_refl _, rfl, rfl, rfl, rfl, ?_, fun _ h => h⟩, rfl⟩
     intro e he
     simp [Sat.watch, he])

theorem Sat.q_enqueue_none (s : Sat) (l : Lit) (c : Option Nat) (h : s.value l = none) :
    (s.enqueue l c).1 = true ∧ Sat.ConsFrame s (s.enqueue l c).2 ∧
      (s.enqueue l c).2.vals = s.vals.set l.var (some l.sign) := by
  unfold Sat.enqueue
  split
  · rename_i b hb; rw [h] at hb; cases hb
  · refine ⟨rfl, ⟨?_, rfl, rfl, rfl, rfl, fun _ h => h, ?_⟩, rfl⟩
    · simp [Sat.nvars]
    · intro e he; simp [he]

theorem Sat.newClause_nf (s : Sat) (c : List Lit) (h : ∃ l ∈ c, s.value l ≠ some false) :
    (s.newClause c).1 = true ∧ Sat.ConsFrame s (s.newClause c).2 ∧
      ((s.newClause c).2.vals = s.vals ∨
        ∃ l ∈ c, s.value l = none ∧ (s.newClause c).2.vals = s.vals.set l.var (some l.sign)) := by
  unfold Sat.newClause
  generalize hr : Enc.scanClause s.toEnc (Enc.sortByVar c) none [] = r
  match r, hr with
  | none, _ => exact ⟨rfl, .refl s, .inl rfl⟩
  | some [], hr =>
    exfalso
    obtain ⟨l, hl, hv⟩ := h
    cases hv' : s.value l with
    | none =>
      have := (Enc.scanClause_sup s.toEnc _ _ _ _ hr (by simp)).2 l (Enc.mem_sortByVar.2 hl) hv'
      simp at this
    | some b =>
      cases b
      · exact hv hv'
      · rw [Enc.scanClause_true s.toEnc _ _ _ ⟨l, Enc.mem_sortByVar.2 hl, hv'⟩] at hr; cases hr
  | some [l], hr =>
    have := Enc.scanClause_sub s.toEnc _ _ _ _ hr l (by simp)
    simp at this
    obtain ⟨hl, hv⟩ := this
    have he := Sat.q_enqueue_none s l none hv
    exact ⟨he.1, he.2.1, .inr ⟨l, Enc.mem_sortByVar.1 hl, hv, he.2.2⟩⟩
  | some (a :: b :: t), hr =>
    exact ⟨rfl, (Sat.addClause_frame s _).1, .inl (Sat.addClause_frame s _).2⟩

theorem Sat.newClause_quiet (s : Sat) (c : List Lit)
    (h : ∃ x ∈ c, ∃ y ∈ c, x.var ≠ y.var ∧ s.value x = none ∧ s.value y = none) :
    (s.newClause c).1 = true ∧ Sat.ConsFrame s (s.newClause c).2 ∧ (s.newClause c).2.vals = s.vals := by
  obtain ⟨x, hx, y, hy, hxy, hvx, hvy⟩ := h
  unfold Sat.newClause
  generalize hr : Enc.scanClause s.toEnc (Enc.sortByVar c) none [] = r
  match r, hr with
  | none, _ => exact ⟨rfl, .refl s, rfl⟩
  | some [], hr =>
    have := (Enc.scanClause_sup s.toEnc _ _ _ _ hr (by simp)).2 x (Enc.mem_sortByVar.2 hx) hvx
    simp at this
  | some [l], hr =>
    have h1 := (Enc.scanClause_sup s.toEnc _ _ _ _ hr (by simp)).2 x (Enc.mem_sortByVar.2 hx) hvx
    have h2 := (Enc.scanClause_sup s.toEnc _ _ _ _ hr (by simp)).2 y (Enc.mem_sortByVar.2 hy) hvy
    simp at h1 h2
    subst h1 h2
    exact absurd rfl hxy
  | some (a :: b :: t), hr =>
    exact ⟨rfl, (Sat.addClause_frame s _).1, (Sat.addClause_frame s _).2⟩

/-- the clause is in range and has two undefined literals of different variables -/
def Sat.Two (s : Sat) (c : List Lit) : Prop :=
  (∀ l ∈ c, l.var < s.nvars) ∧ ∃ x ∈ c, ∃ y ∈ c, x.var ≠ y.var ∧ s.value x = none ∧ s.value y = none

theorem Sat.Two.mono {Good : Sat → Prop} {s s' : Sat} {c : List Lit} (h : Sat.QS Good s s') (h2 : Sat.Two s c) :
    Sat.Two s' c := by
  obtain ⟨hr, x, hx, y, hy, hxy, hvx, hvy⟩ := h2
  exact ⟨fun l hl => Nat.lt_of_lt_of_le (hr l hl) h.le, x, hx, y, hy, hxy, by rw [h.val, hvx], by rw [h.val, hvy]⟩

theorem Sat.newClause_QS {Good : Sat → Prop} (hc : Sat.ConsClosed Good) {s : Sat} (hg : Good s) {c : List Lit}
    (h2 : Sat.Two s c) : (s.newClause c).1 = true ∧ Sat.QS Good s (s.newClause c).2 := by
  have h := Sat.newClause_quiet s c h2.2
  refine ⟨h.1, hc.newClause s c hg h2.1, h.2.1, ?_⟩
  intro l
  show litValue (s.newClause c).2.vals l = litValue s.vals l
  rw [h.2.2]

@[simp] theorem Sat.prim_value (s : Sat) (l : Lit) : Sat.prim.value s l = s.value l := rfl
theorem Sat.prim_newVar (s : Sat) : Sat.prim.newVar s = (s.nvars, s.newVar.2) := rfl
@[simp] theorem Sat.prim_newClause (s : Sat) (c : List Lit) : Sat.prim.newClause s c = s.newClause c := rfl
@[simp] theorem Sat.prim_lookup (s : Sat) (k : Key) : Sat.prim.lookup s k = s.lookup k := rfl
@[simp] theorem Sat.prim_remember (s : Sat) (k : Key) (l : Lit) : Sat.prim.remember s k l = s.remember k l := rfl

theorem Sat.newClauses_QS {Good : Sat → Prop} (hc : Sat.ConsClosed Good) :
    ∀ (cs : List (List Lit)) (s : Sat), Good s → (∀ c ∈ cs, Sat.Two s c) →
      (Cons.newClauses Sat.prim s cs).1 = true ∧ Sat.QS Good s (Cons.newClauses Sat.prim s cs).2
  | [], s, hg, _ => ⟨rfl, .refl hg⟩
  | c :: cs, s, hg, h => by
    have h1 := Sat.newClause_QS hc hg (h c (by simp))
    have ih := Sat.newClauses_QS hc cs (s.newClause c).2 h1.2.good
      (fun c' hc' => Sat.Two.mono h1.2 (h c' (by simp [hc'])))
    simp only [Cons.newClauses, Sat.prim_newClause]
    split
    · rename_i heq
      rw [heq] at h1
      exact absurd h1.1 (by simp)
    · rename_i heq
      rw [heq] at ih h1
      exact ⟨ih.1, h1.2.trans ih.2⟩

/-- the common tail of the constructors: post a batch of quiet clauses, remember the result -/
theorem Sat.tail_QS {Good : Sat → Prop} (hc : Sat.ConsClosed Good) {s s1 : Sat} (hq : Sat.QS Good s s1)
    (ctr : Lit) (hctr : ctr.var < s1.nvars) (cs : List (List Lit)) (h2 : ∀ c ∈ cs, Sat.Two s1 c) (k : Key) :
    ∃ s2, Cons.newClauses Sat.prim s1 cs = (true, s2) ∧ Sat.QS Good s (s2.remember k ctr) ∧
      ctr.var < (s2.remember k ctr).nvars := by
  have h := Sat.newClauses_QS hc cs s1 hq.good h2
  rcases he : Cons.newClauses Sat.prim s1 cs with ⟨b, s2⟩
  rw [he] at h
  obtain ⟨rfl, hq2⟩ := h
  have hlt : ctr.var < s2.nvars := Nat.lt_of_lt_of_le hctr hq2.le
  exact ⟨s2, rfl, (hq.trans hq2).trans (Sat.remember_QS hc hq2.good k hlt), hlt⟩

/-! ### `newEq` -/

theorem Sat.newEq_QS {Good : Sat → Prop} (hc : Sat.ConsClosed Good) {s : Sat} (hg : Good s) {a b : Lit}
    (ha : a.var < s.nvars) (hb : b.var < s.nvars) :
    Sat.QS Good s (Cons.newEq Sat.prim s a b).2 ∧
      (Cons.newEq Sat.prim s a b).1.var < (Cons.newEq Sat.prim s a b).2.nvars := by
  have h0 := Sat.zero_lt hc hg
  have hr := Sat.QS.refl hg
  simp only [Cons.newEq, Sat.prim_value, Sat.prim_newVar, Sat.prim_lookup, Sat.prim_remember]
  split
  case h_9 hva hvb =>
    split
    · rename_i l hl
      exact ⟨hr, Sat.lookup_lt hc hg hl⟩
    · have hq := Sat.newVar_QS hc hg
      have hn := Sat.newVar_nvars s
      have hctr : ∀ sg, s.newVar.2.value ⟨s.nvars, sg⟩ = none := fun sg => by
        rw [hq.val]; exact Sat.value_none_of_ge (Nat.le_refl _)
      have hb1 : s.newVar.2.value b = none := by rw [hq.val]; exact hvb
      have hb2 : s.newVar.2.value b.neg = none := Sat.value_neg_none hb1
      obtain ⟨s2, he, hq2, hlt⟩ := Sat.tail_QS hc hq ⟨s.nvars, true⟩ (by rw [hn]; exact Nat.lt_succ_self _)
        [[(⟨s.nvars, true⟩ : Lit).neg, a.neg, b], [(⟨s.nvars, true⟩ : Lit).neg, a, b.neg],
          [⟨s.nvars, true⟩, a.neg, b.neg], [⟨s.nvars, true⟩, a, b]]
        (by
          intro c hcm
          simp only [List.mem_cons, List.not_mem_nil, or_false] at hcm
          rcases hcm with rfl | rfl | rfl | rfl
          · exact ⟨by simp; omega, _, List.mem_cons_self, b, by simp, by simp; omega, hctr _, hb1⟩
          · exact ⟨by simp; omega, _, List.mem_cons_self, b.neg, by simp, by simp; omega, hctr _, hb2⟩
          · exact ⟨by simp; omega, _, List.mem_cons_self, b.neg, by simp, by simp; omega, hctr _, hb2⟩
          · exact ⟨by simp; omega, _, List.mem_cons_self, b, by simp, by simp; omega, hctr _, hb1⟩)
        (if a.idx < b.idx then Key.eq a b else Key.eq b a)
      simp only [he]
      exact ⟨hq2, hlt⟩
  all_goals exact ⟨hr, by simp [Lit.trueLit, Lit.falseLit]; omega⟩

/-! ### `newConj`, `newDisj` -/

theorem Sat.q_newVar_value (s : Sat) (l : Lit) : s.newVar.2.value l = s.value l := by
  show litValue (s.vals ++ [none]) l = litValue s.vals l
  unfold litValue; rw [getD_append_none]

/-- a clause over the old variables and the fresh one, containing the fresh variable and an undefined
    old literal, is quiet -/
theorem Sat.fresh_two {s : Sat} {c : List Lit} (hm : ∀ l ∈ c, l.var ≤ s.nvars)
    (hx : ∃ x ∈ c, x.var = s.nvars) (hy : ∃ y ∈ c, y.var < s.nvars ∧ s.value y = none) :
    Sat.Two s.newVar.2 c := by
  obtain ⟨x, hx, hxv⟩ := hx
  obtain ⟨y, hy, hyv, hyn⟩ := hy
  refine ⟨fun l hl => by rw [Sat.newVar_nvars]; exact Nat.lt_succ_of_le (hm l hl), x, hx, y, hy, by omega, ?_, ?_⟩
  · rw [Sat.q_newVar_value]; exact Sat.value_none_of_ge (by omega)
  · rw [Sat.q_newVar_value]; exact hyn

theorem Cons.scanJunct_sub (s : Sat) (ab : Bool) : ∀ (c : List Lit) (p : Option Lit) (acc r : List Lit),
    Cons.scanJunct Sat.prim s ab c p acc = some r → ∀ l ∈ r, l ∈ acc ∨ (l ∈ c ∧ s.value l = none)
  | [], p, acc, r, h, l, hl => by
    simp [Cons.scanJunct] at h; subst h; simpa using hl
  | x :: rest, p, acc, r, h, l, hl => by
    simp only [Cons.scanJunct] at h
    split at h
    · cases h
    · split at h
      · rename_i h1 h2
        have := Cons.scanJunct_sub s ab rest _ _ r h l hl
        have hx : s.value x = none := by
          rw [Sat.prim_value] at h1 h2
          cases hv : s.value x with
          | none => rfl
          | some b => cases b <;> cases ab <;> simp_all
        grind
      · have := Cons.scanJunct_sub s ab rest _ _ r h l hl
        grind

theorem Sat.newConj_QS {Good : Sat → Prop} (hc : Sat.ConsClosed Good) {s : Sat} (hg : Good s) {ls : List Lit}
    (hls : ∀ l ∈ ls, l.var < s.nvars) :
    Sat.QS Good s (Cons.newConj Sat.prim s ls).2 ∧
      (Cons.newConj Sat.prim s ls).1.var < (Cons.newConj Sat.prim s ls).2.nvars := by
  have h0 := Sat.zero_lt hc hg
  have hr := Sat.QS.refl hg
  simp only [Cons.newConj, Sat.prim_newVar, Sat.prim_lookup, Sat.prim_remember]
  split
  · exact ⟨hr, h0⟩
  · exact ⟨hr, h0⟩
  · rename_i l heq
    have := Cons.scanJunct_sub s false _ _ _ _ heq l (by simp)
    simp [Enc.mem_sortByVar] at this
    exact ⟨hr, hls l this.1⟩
  · rename_i L hne _ heq
    have hmem : ∀ l ∈ L, l.var < s.nvars ∧ s.value l = none := by
      intro l hl
      have := Cons.scanJunct_sub s false _ _ _ _ heq l hl
      simp [Enc.mem_sortByVar] at this
      exact ⟨hls l this.1, this.2⟩
    obtain ⟨x, hxL⟩ : ∃ x, x ∈ L := by
      cases L with
      | nil => exact absurd rfl hne
      | cons x t => exact ⟨x, List.mem_cons_self⟩
    split
    · rename_i l hl
      exact ⟨hr, Sat.lookup_lt hc hg hl⟩
    · have hq := Sat.newVar_QS hc hg
      obtain ⟨s2, he, hq2, hlt⟩ := Sat.tail_QS hc hq ⟨s.nvars, true⟩
        (by rw [Sat.newVar_nvars]; exact Nat.lt_succ_self _)
        (L.map (fun l => [(⟨s.nvars, true⟩ : Lit).neg, l]) ++ [⟨s.nvars, true⟩ :: L.map Lit.neg])
        (by
          intro c hcm
          simp only [List.mem_append, List.mem_map, List.mem_singleton] at hcm
          rcases hcm with ⟨l, hl, rfl⟩ | rfl
          · exact Sat.fresh_two (by simp; exact Nat.le_of_lt (hmem l hl).1) ⟨_, List.mem_cons_self, rfl⟩
              ⟨l, by simp, hmem l hl⟩
          · refine Sat.fresh_two ?_ ⟨_, List.mem_cons_self, rfl⟩
              ⟨x.neg, by simp; exact .inr ⟨x, hxL, rfl⟩, (hmem x hxL).1, Sat.value_neg_none (hmem x hxL).2⟩
            intro l hl
            simp only [List.mem_cons, List.mem_map] at hl
            rcases hl with rfl | ⟨l', hl', rfl⟩
            · exact Nat.le_refl _
            · exact Nat.le_of_lt (hmem l' hl').1)
        (.conj L)
      simp only [he]
      exact ⟨hq2, hlt⟩

theorem Sat.newDisj_QS {Good : Sat → Prop} (hc : Sat.ConsClosed Good) {s : Sat} (hg : Good s) {ls : List Lit}
    (hls : ∀ l ∈ ls, l.var < s.nvars) :
    Sat.QS Good s (Cons.newDisj Sat.prim s ls).2 ∧
      (Cons.newDisj Sat.prim s ls).1.var < (Cons.newDisj Sat.prim s ls).2.nvars := by
  have h0 := Sat.zero_lt hc hg
  have hr := Sat.QS.refl hg
  simp only [Cons.newDisj, Sat.prim_newVar, Sat.prim_lookup, Sat.prim_remember]
  split
  · exact ⟨hr, h0⟩
  · exact ⟨hr, h0⟩
  · rename_i l heq
    have := Cons.scanJunct_sub s true _ _ _ _ heq l (by simp)
    simp [Enc.mem_sortByVar] at this
    exact ⟨hr, hls l this.1⟩
  · rename_i L hne _ heq
    have hmem : ∀ l ∈ L, l.var < s.nvars ∧ s.value l = none := by
      intro l hl
      have := Cons.scanJunct_sub s true _ _ _ _ heq l hl
      simp [Enc.mem_sortByVar] at this
      exact ⟨hls l this.1, this.2⟩
    obtain ⟨x, hxL⟩ : ∃ x, x ∈ L := by
      cases L with
      | nil => exact absurd rfl hne
      | cons x t => exact ⟨x, List.mem_cons_self⟩
    split
    · rename_i l hl
      exact ⟨hr, Sat.lookup_lt hc hg hl⟩
    · have hq := Sat.newVar_QS hc hg
      obtain ⟨s2, he, hq2, hlt⟩ := Sat.tail_QS hc hq ⟨s.nvars, true⟩
        (by rw [Sat.newVar_nvars]; exact Nat.lt_succ_self _)
        (L.map (fun l => [l.neg, (⟨s.nvars, true⟩ : Lit)]) ++ [(⟨s.nvars, true⟩ : Lit).neg :: L])
        (by
          intro c hcm
          simp only [List.mem_append, List.mem_map, List.mem_singleton] at hcm
          rcases hcm with ⟨l, hl, rfl⟩ | rfl
          · exact Sat.fresh_two (by simp; exact Nat.le_of_lt (hmem l hl).1) ⟨⟨s.nvars, true⟩, by simp, rfl⟩
              ⟨l.neg, by simp, (hmem l hl).1, Sat.value_neg_none (hmem l hl).2⟩
          · refine Sat.fresh_two ?_ ⟨_, List.mem_cons_self, rfl⟩
              ⟨x, by simp [hxL], hmem x hxL⟩
            intro l hl
            simp only [List.mem_cons] at hl
            rcases hl with rfl | hl'
            · exact Nat.le_refl _
            · exact Nat.le_of_lt (hmem l hl').1)
        (.disj L)
      simp only [he]
      exact ⟨hq2, hlt⟩

/-! ### `amoCore` -/

theorem Sat.tail_QS' {Good : Sat → Prop} (hc : Sat.ConsClosed Good) {s s1 : Sat} (hq : Sat.QS Good s s1)
    (ctr : Lit) (hctr : ctr.var < s1.nvars) (cs : List (List Lit)) (b : Bool) (s2 : Sat)
    (heq : Cons.newClauses Sat.prim s1 cs = (b, s2)) (h2 : ∀ c ∈ cs, Sat.Two s1 c) (k : Key) :
    b = true ∧ Sat.QS Good s (s2.remember k ctr) ∧ ctr.var < (s2.remember k ctr).nvars := by
  obtain ⟨s2', he, h⟩ := Sat.tail_QS hc hq ctr hctr cs h2 k
  rw [he] at heq
  cases heq
  exact ⟨rfl, h⟩

theorem Sat.newVars_QS {Good : Sat → Prop} (hc : Sat.ConsClosed Good) :
    ∀ (n : Nat) (s : Sat), Good s →
      Sat.QS Good s (Cons.newVars Sat.prim s n).2 ∧ (Cons.newVars Sat.prim s n).1.length = n ∧
        ∀ l ∈ (Cons.newVars Sat.prim s n).1, s.nvars ≤ l.var ∧ l.var < (Cons.newVars Sat.prim s n).2.nvars
  | 0, s, hg => ⟨.refl hg, rfl, by simp [Cons.newVars]⟩
  | n + 1, s, hg => by
    have hq := Sat.newVar_QS hc hg
    have ih := Sat.newVars_QS hc n s.newVar.2 hq.good
    have hn := Sat.newVar_nvars s
    have : Cons.newVars Sat.prim s (n + 1) =
        (⟨s.nvars, true⟩ :: (Cons.newVars Sat.prim s.newVar.2 n).1, (Cons.newVars Sat.prim s.newVar.2 n).2) := rfl
    rw [this]
    refine ⟨hq.trans ih.1, by simp [ih.2.1], ?_⟩
    intro l hl
    rcases List.mem_cons.1 hl with rfl | hl
    · have := ih.1.le
      simp only
      omega
    · have := ih.2.2 l hl
      simp only
      omega

theorem Enc.mem_pairs {p : Lit × Lit} : ∀ {ls : List Lit}, p ∈ Enc.pairs ls → p.1 ∈ ls ∧ p.2 ∈ ls
  | [], h => by simp [Enc.pairs] at h
  | a :: t, h => by
    simp only [Enc.pairs, List.mem_append, List.mem_map] at h
    rcases h with ⟨b, hb, rfl⟩ | h
    · simp [hb]
    · have := Enc.mem_pairs h
      simp [this]

theorem getD_mem' {α : Type} {l : List α} {i : Nat} (d : α) (h : i < l.length) : l.getD i d ∈ l := by
  simp [List.getElem?_eq_getElem h]

theorem Sat.two_of {Good : Sat → Prop} {s0 s : Sat} (hq : Sat.QS Good s0 s) {a b c : Lit}
    (ha : a.var < s0.nvars) (hav : s0.value a = none) (hb0 : s0.nvars ≤ b.var) (hb : b.var < s.nvars)
    (hc : c.var < s.nvars) : Sat.Two s [a.neg, b, c.neg] := by
  refine ⟨?_, a.neg, by simp, b, by simp, by simp; omega, ?_, ?_⟩
  · have := hq.le
    intro l hl
    simp only [List.mem_cons, List.not_mem_nil, or_false] at hl
    rcases hl with rfl | rfl | rfl <;> (try simp only [Lit.q_neg_var]) <;> omega
  · rw [hq.val]; exact Sat.value_neg_none hav
  · rw [hq.val]; exact Sat.value_none_of_ge hb0

theorem Sat.amoSmall {Good : Sat → Prop} (hc : Sat.ConsClosed Good) {s : Sat} (hg : Good s) {ls : List Lit}
    (hls : ∀ l ∈ ls, l.var < s.nvars ∧ s.value l = none) :
    ∃ s2, Cons.newClauses Sat.prim s.newVar.2
        ((Enc.pairs ls).map (fun p => [p.1.neg, p.2.neg, (⟨s.nvars, true⟩ : Lit).neg])) = (true, s2) ∧
      Sat.QS Good s (s2.remember (.amo ls) ⟨s.nvars, true⟩) ∧
      s.nvars < (s2.remember (.amo ls) ⟨s.nvars, true⟩).nvars := by
  refine Sat.tail_QS hc (Sat.newVar_QS hc hg) ⟨s.nvars, true⟩
    (by rw [Sat.newVar_nvars]; exact Nat.lt_succ_self _) _ ?_ (.amo ls)
  intro c hcm
  simp only [List.mem_map] at hcm
  obtain ⟨p, hp, rfl⟩ := hcm
  have hp := Enc.mem_pairs hp
  refine Sat.fresh_two ?_ ⟨(⟨s.nvars, true⟩ : Lit).neg, by simp, rfl⟩
    ⟨p.1.neg, by simp, (hls _ hp.1).1, Sat.value_neg_none (hls _ hp.1).2⟩
  intro l hl
  simp only [List.mem_cons, List.not_mem_nil, or_false] at hl
  have h1 := (hls _ hp.1).1
  have h2 := (hls _ hp.2).1
  rcases hl with rfl | rfl | rfl <;> simp <;> omega

theorem Sat.amoCore_QS {Good : Sat → Prop} (hc : Sat.ConsClosed Good) :
    ∀ (fuel : Nat) (s : Sat) (ls : List Lit), Good s → (∀ l ∈ ls, l.var < s.nvars ∧ s.value l = none) →
      Sat.QS Good s (Cons.amoCore Sat.prim fuel s ls).2 ∧
        (Cons.amoCore Sat.prim fuel s ls).1.var < (Cons.amoCore Sat.prim fuel s ls).2.nvars := by
  intro fuel
  induction fuel with
  | zero =>
    intro s ls hg hls
    have h0 := Sat.zero_lt hc hg
    have hr := Sat.QS.refl hg
    simp only [Cons.amoCore, Sat.prim_newVar, Sat.prim_lookup, Sat.prim_remember]
    split
    · exact ⟨hr, h0⟩
    split
    · rename_i l hl
      exact ⟨hr, Sat.lookup_lt hc hg hl⟩
    split
    · obtain ⟨s2, he, hq2, hlt⟩ := Sat.amoSmall hc hg hls
      simp only [he]
      exact ⟨hq2, hlt⟩
    · exact ⟨hr, h0⟩
  | succ n ih =>
    intro s ls hg hls
    have h0 := Sat.zero_lt hc hg
    have hr := Sat.QS.refl hg
    have H1 := Sat.newVars_QS hc (Enc.ceilSqrt ls.length) s hg
    rcases h1 : Cons.newVars Sat.prim s (Enc.ceilSqrt ls.length) with ⟨u, s1⟩
    rw [h1] at H1
    have H2 := Sat.newVars_QS hc (Enc.ceilDiv ls.length (Enc.ceilSqrt ls.length)) s1 H1.1.good
    rcases h2 : Cons.newVars Sat.prim s1 (Enc.ceilDiv ls.length (Enc.ceilSqrt ls.length)) with ⟨w, s2⟩
    rw [h2] at H2
    obtain ⟨q01, hul, hu⟩ := H1
    obtain ⟨q12, hwl, hw⟩ := H2
    simp only at q01 hul hu q12 hwl hw
    have q02 := q01.trans q12
    have H3 := ih s2 u q12.good (fun l hl => ⟨Nat.lt_of_lt_of_le (hu l hl).2 q12.le, by
      rw [q02.val]; exact Sat.value_none_of_ge (hu l hl).1⟩)
    rcases h3 : Cons.amoCore Sat.prim n s2 u with ⟨cu, s3⟩
    rw [h3] at H3
    obtain ⟨q23, hcu⟩ := H3
    simp only at q23 hcu
    have q03 := q02.trans q23
    have H4 := ih s3 w q23.good (fun l hl => ⟨Nat.lt_of_lt_of_le (hw l hl).2 q23.le, by
      rw [q03.val]; exact Sat.value_none_of_ge (Nat.le_trans q01.le (hw l hl).1)⟩)
    rcases h4 : Cons.amoCore Sat.prim n s3 w with ⟨cw, s4⟩
    rw [h4] at H4
    obtain ⟨q34, hcw⟩ := H4
    simp only at q34 hcw
    have H5 := Sat.newConj_QS hc q34.good (ls := [cu, cw]) (by
      intro l hl
      simp only [List.mem_cons, List.not_mem_nil, or_false] at hl
      have := q34.le
      rcases hl with rfl | rfl <;> omega)
    rcases h5 : Cons.newConj Sat.prim s4 [cu, cw] with ⟨ctr, s5⟩
    rw [h5] at H5
    obtain ⟨q45, hctr⟩ := H5
    simp only at q45 hctr
    have q05 := (q03.trans q34).trans q45
    simp only [Cons.amoCore, Sat.prim_newVar, Sat.prim_lookup, Sat.prim_remember, h1, h2, h3, h4, h5]
    split
    · exact ⟨hr, h0⟩
    split
    · rename_i l hl
      exact ⟨hr, Sat.lookup_lt hc hg hl⟩
    split
    · obtain ⟨s2, he, hq2, hlt⟩ := Sat.amoSmall hc hg hls
      simp only [he]
      exact ⟨hq2, hlt⟩
    · split <;> rename_i s6 heq <;>
        have H6 := Sat.tail_QS' hc q05 ctr hctr _ _ _ heq (by
          intro c hcm
          simp only [List.mem_flatMap, List.mem_range] at hcm
          obtain ⟨i, hi, j, hj, hcm⟩ := hcm
          split at hcm
          · rename_i lk hlk
            have hlk := hls lk (List.mem_of_getElem? hlk)
            have q25 := (q23.trans q34).trans q45
            simp only [List.mem_cons, List.not_mem_nil, or_false] at hcm
            rcases hcm with rfl | rfl
            · have hm := hu _ (getD_mem' Lit.falseLit (hul ▸ hi))
              exact Sat.two_of q05 hlk.1 hlk.2 hm.1
                (Nat.lt_of_lt_of_le hm.2 (Nat.le_trans q12.le q25.le)) hctr
            · have hm := hw _ (getD_mem' Lit.falseLit (hwl ▸ hj))
              exact Sat.two_of q05 hlk.1 hlk.2 (Nat.le_trans q01.le hm.1)
                (Nat.lt_of_lt_of_le hm.2 q25.le) hctr
          · simp at hcm) (.amo ls)
      · exact absurd H6.1 (by simp)
      · exact H6.2

/-! ### `newAtMostOne`, `newExctOne` -/

theorem Cons.scanAfterTrue_sub (s : Sat) : ∀ (c : List Lit) (p : Option Lit) (acc : List Lit),
    (∀ r, Cons.scanAfterTrue Sat.prim s c p acc ≠ .open r) ∧
      ∀ r, Cons.scanAfterTrue Sat.prim s c p acc = .oneTrue r → ∀ l ∈ r, l ∈ acc ∨ l ∈ c
  | [], p, acc => by
    simp only [Cons.scanAfterTrue]
    refine ⟨fun r h => (by cases h), fun r h l hl => ?_⟩
    cases h; simpa using hl
  | x :: rest, p, acc => by
    simp only [Cons.scanAfterTrue]
    split
    · exact ⟨fun r h => (by cases h), fun r h => (by cases h)⟩
    · split
      · have ih := Cons.scanAfterTrue_sub s rest (some x) (x :: acc)
        refine ⟨ih.1, fun r h l hl => ?_⟩
        have := ih.2 r h l hl
        grind
      · have ih := Cons.scanAfterTrue_sub s rest p acc
        refine ⟨ih.1, fun r h l hl => ?_⟩
        have := ih.2 r h l hl
        grind

theorem Cons.scanCard_sub (s : Sat) : ∀ (c : List Lit) (p : Option Lit) (acc : List Lit),
    (∀ r, Cons.scanCard Sat.prim s c p acc = .open r → ∀ l ∈ r, l ∈ acc ∨ (l ∈ c ∧ s.value l = none)) ∧
      ∀ r, Cons.scanCard Sat.prim s c p acc = .oneTrue r → ∀ l ∈ r, l ∈ acc ∨ l ∈ c
  | [], p, acc => by
    simp only [Cons.scanCard]
    refine ⟨fun r h l hl => ?_, fun r h => (by cases h)⟩
    cases h; simpa using hl
  | x :: rest, p, acc => by
    simp only [Cons.scanCard]
    split
    · have h := Cons.scanAfterTrue_sub s rest p acc
      refine ⟨fun r hr => absurd hr (h.1 r), fun r hr l hl => ?_⟩
      have := h.2 r hr l hl
      grind
    · rename_i h1
      split
      · rename_i h2
        have hx : s.value x = none := by
          rw [Sat.prim_value] at h1 h2
          cases hv : s.value x with
          | none => rfl
          | some b => cases b <;> simp_all
        have ih := Cons.scanCard_sub s rest (some x) (x :: acc)
        refine ⟨fun r h l hl => ?_, fun r h l hl => ?_⟩
        · have := ih.1 r h l hl
          grind
        · have := ih.2 r h l hl
          grind
      · have ih := Cons.scanCard_sub s rest p acc
        refine ⟨fun r h l hl => ?_, fun r h l hl => ?_⟩
        · have := ih.1 r h l hl
          grind
        · have := ih.2 r h l hl
          grind

theorem Sat.newAtMostOne_QS {Good : Sat → Prop} (hc : Sat.ConsClosed Good) {s : Sat} (hg : Good s) {ls : List Lit}
    (hls : ∀ l ∈ ls, l.var < s.nvars) :
    Sat.QS Good s (Cons.newAtMostOne Sat.prim s ls).2 ∧
      (Cons.newAtMostOne Sat.prim s ls).1.var < (Cons.newAtMostOne Sat.prim s ls).2.nvars := by
  have h0 := Sat.zero_lt hc hg
  have hr := Sat.QS.refl hg
  simp only [Cons.newAtMostOne]
  split
  · exact ⟨hr, h0⟩
  · rename_i others heq
    refine Sat.newConj_QS hc hg ?_
    intro l hl
    simp only [List.mem_map] at hl
    obtain ⟨l', hl', rfl⟩ := hl
    have := (Cons.scanCard_sub s _ _ _).2 _ heq l' hl'
    simp at this
    exact hls l' (Enc.mem_sortDedup this)
  · rename_i L heq
    refine Sat.amoCore_QS hc _ s L hg ?_
    intro l hl
    have := (Cons.scanCard_sub s _ _ _).1 _ heq l hl
    simp at this
    exact ⟨hls _ (Enc.mem_sortDedup this.1), this.2⟩

theorem litValue_set_self {vals : List (Option Bool)} {l : Lit} (h : l.var < vals.length) :
    litValue (vals.set l.var (some l.sign)) l = some true := by
  unfold litValue
  simp [h]

theorem litValue_set_ne {vals : List (Option Bool)} {l z : Lit} {b : Option Bool} (h : z.var ≠ l.var) :
    litValue (vals.set l.var b) z = litValue vals z := by
  unfold litValue
  simp [Ne.symm h]

theorem Sat.exo_tail {Good : Sat → Prop} (hc : Sat.ConsClosed Good) {s1 : Sat} (hg1 : Good s1) {amo : Lit}
    (hamo : amo.var < s1.nvars) {L : List Lit} (hL : ∀ l ∈ L, l.var < s1.nvars) (k : Key) :
    ∃ s4, Cons.newClauses Sat.prim s1.newVar.2
        [[(⟨s1.nvars, true⟩ : Lit).neg, amo], L ++ [(⟨s1.nvars, true⟩ : Lit).neg]] = (true, s4) ∧
      Good (s4.remember k ⟨s1.nvars, true⟩) ∧ Sat.ConsFrame s1 (s4.remember k ⟨s1.nvars, true⟩) ∧
      s1.nvars < (s4.remember k ⟨s1.nvars, true⟩).nvars := by
  have q12 := Sat.newVar_QS hc hg1
  have hn := Sat.newVar_nvars s1
  generalize hs2 : s1.newVar.2 = s2 at q12 hn
  generalize hctr : (⟨s1.nvars, true⟩ : Lit) = ctr
  have hcv : ctr.var = s1.nvars := by rw [← hctr]
  have hcn : s2.value ctr.neg = none := by
    rw [q12.val]; exact Sat.value_none_of_ge (by simp [hcv])
  have N1 := Sat.newClause_nf s2 [ctr.neg, amo] ⟨ctr.neg, by simp, by rw [hcn]; simp⟩
  have G3 := hc.newClause s2 [ctr.neg, amo] q12.good (by
    intro l hl
    simp only [List.mem_cons, List.not_mem_nil, or_false] at hl
    rcases hl with rfl | rfl <;> (try simp only [Lit.q_neg_var]) <;> omega)
  rcases e1 : s2.newClause [ctr.neg, amo] with ⟨b1, s3⟩
  rw [e1] at N1 G3
  obtain ⟨hb1, f23, hv⟩ := N1
  simp only at hb1 f23 hv G3
  subst hb1
  have hv3 : s3.value ctr.neg ≠ some false := by
    show litValue s3.vals ctr.neg ≠ some false
    rcases hv with hv | ⟨l, hl, hlv, hv⟩
    · rw [hv]; show s2.value ctr.neg ≠ _; rw [hcn]; simp
    · rw [hv]
      simp only [List.mem_cons, List.not_mem_nil, or_false] at hl
      rcases hl with rfl | rfl
      · rw [litValue_set_self (by show ctr.neg.var < s2.nvars; simp only [Lit.q_neg_var]; omega)]; simp
      · rw [litValue_set_ne (by simp only [Lit.q_neg_var]; omega)]
        show s2.value ctr.neg ≠ _; rw [hcn]; simp
  have N2 := Sat.newClause_nf s3 (L ++ [ctr.neg]) ⟨ctr.neg, by simp, hv3⟩
  have h23 := f23.nvars
  have G4 := hc.newClause s3 (L ++ [ctr.neg]) G3 (by
    intro l hl
    simp only [List.mem_append, List.mem_singleton] at hl
    rcases hl with hl | rfl
    · have := hL l hl; omega
    · simp only [Lit.q_neg_var]; omega)
  rcases e2 : s3.newClause (L ++ [ctr.neg]) with ⟨b2, s4⟩
  rw [e2] at N2 G4
  obtain ⟨hb2, f34, -⟩ := N2
  simp only at hb2 f34 G4
  subst hb2
  have h34 := f34.nvars
  have hlt : ctr.var < s4.nvars := by omega
  have q4 := Sat.remember_QS hc G4 k hlt
  refine ⟨s4, ?_, q4.good, ((q12.frame.trans f23).trans f34).trans q4.frame, ?_⟩
  · simp only [Cons.newClauses, Sat.prim_newClause, e1, e2]
  · have := q4.le; omega

theorem Sat.newExctOne_aux {Good : Sat → Prop} (hc : Sat.ConsClosed Good) {s : Sat} (hg : Good s) {ls : List Lit}
    (hls : ∀ l ∈ ls, l.var < s.nvars) :
    Good (Cons.newExctOne Sat.prim s ls).2 ∧ Sat.ConsFrame s (Cons.newExctOne Sat.prim s ls).2 ∧
      (Cons.newExctOne Sat.prim s ls).1.var < (Cons.newExctOne Sat.prim s ls).2.nvars := by
  have h0 := Sat.zero_lt hc hg
  have hr := Sat.ConsFrame.refl s
  simp only [Cons.newExctOne, Sat.prim_newVar, Sat.prim_lookup, Sat.prim_remember]
  split
  · exact ⟨hg, hr, h0⟩
  · rename_i others heq
    have h := Sat.newConj_QS hc hg (ls := others.map Lit.neg) (by
      intro l hl
      simp only [List.mem_map] at hl
      obtain ⟨l', hl', rfl⟩ := hl
      have := (Cons.scanCard_sub s _ _ _).2 _ heq l' hl'
      simp at this
      exact hls l' (Enc.mem_sortDedup this))
    exact ⟨h.1.good, h.1.frame, h.2⟩
  · exact ⟨hg, hr, h0⟩
  · rename_i L hne heq
    have hL : ∀ l ∈ L, l.var < s.nvars ∧ s.value l = none := by
      intro l hl
      have := (Cons.scanCard_sub s _ _ _).1 _ heq l hl
      simp at this
      exact ⟨hls _ (Enc.mem_sortDedup this.1), this.2⟩
    split
    · refine ⟨hg, hr, ?_⟩
      cases L with
      | nil => exact h0
      | cons x t => exact (hL x (by simp)).1
    split
    · rename_i l hl
      exact ⟨hg, hr, Sat.lookup_lt hc hg hl⟩
    · have H := Sat.amoCore_QS hc L.length s L hg hL
      rcases h1 : Cons.amoCore Sat.prim L.length s L with ⟨amo, s1⟩
      rw [h1] at H
      obtain ⟨q01, hamo⟩ := H
      simp only at q01 hamo
      obtain ⟨s4, he, G, F, hlt⟩ := Sat.exo_tail hc q01.good hamo
        (L := L) (fun l hl => Nat.lt_of_lt_of_le (hL l hl).1 q01.le) (.exo L)
      simp only [he]
      exact ⟨G, q01.frame.trans F, hlt⟩

/-! ### the five constructors -/

theorem Sat.newEq_good {Good : Sat → Prop} (hc : Sat.ConsClosed Good) (s : Sat) (hg : Good s) (a b : Lit)
    (ha : a.var < s.nvars) (hb : b.var < s.nvars) :
    Good (s.newEq a b).2 ∧ Sat.ConsFrame s (s.newEq a b).2 ∧ (s.newEq a b).1.var < (s.newEq a b).2.nvars := by
  have h := Sat.newEq_QS hc hg ha hb
  exact ⟨h.1.good, h.1.frame, h.2⟩

theorem Sat.newConj_good {Good : Sat → Prop} (hc : Sat.ConsClosed Good) (s : Sat) (hg : Good s) (ls : List Lit)
    (hls : ∀ l ∈ ls, l.var < s.nvars) :
    Good (s.newConj ls).2 ∧ Sat.ConsFrame s (s.newConj ls).2 ∧ (s.newConj ls).1.var < (s.newConj ls).2.nvars := by
  have h := Sat.newConj_QS hc hg hls
  exact ⟨h.1.good, h.1.frame, h.2⟩

theorem Sat.newDisj_good {Good : Sat → Prop} (hc : Sat.ConsClosed Good) (s : Sat) (hg : Good s) (ls : List Lit)
    (hls : ∀ l ∈ ls, l.var < s.nvars) :
    Good (s.newDisj ls).2 ∧ Sat.ConsFrame s (s.newDisj ls).2 ∧ (s.newDisj ls).1.var < (s.newDisj ls).2.nvars := by
  have h := Sat.newDisj_QS hc hg hls
  exact ⟨h.1.good, h.1.frame, h.2⟩

theorem Sat.newAtMostOne_good {Good : Sat → Prop} (hc : Sat.ConsClosed Good) (s : Sat) (hg : Good s) (ls : List Lit)
    (hls : ∀ l ∈ ls, l.var < s.nvars) :
    Good (s.newAtMostOne ls).2 ∧ Sat.ConsFrame s (s.newAtMostOne ls).2 ∧
      (s.newAtMostOne ls).1.var < (s.newAtMostOne ls).2.nvars := by
  have h := Sat.newAtMostOne_QS hc hg hls
  exact ⟨h.1.good, h.1.frame, h.2⟩

theorem Sat.newExctOne_good {Good : Sat → Prop} (hc : Sat.ConsClosed Good) (s : Sat) (hg : Good s) (ls : List Lit)
    (hls : ∀ l ∈ ls, l.var < s.nvars) :
    Good (s.newExctOne ls).2 ∧ Sat.ConsFrame s (s.newExctOne ls).2 ∧
      (s.newExctOne ls).1.var < (s.newExctOne ls).2.nvars :=
  Sat.newExctOne_aux hc hg hls

end Oratio
