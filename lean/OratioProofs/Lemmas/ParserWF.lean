/-
Every expression tree the parser model returns is well-formed (`Expr.WF`): n-ary nodes have at
least two operands, the qualified ids of `id`, `new` and casts are non-empty (property C16,
parser part).  Partial correctness, by induction on the fuel; `Post P res` is "if `res` is a
successful result then `P` holds of it".
-/
import OratioProofs.Lemmas.ParserRoundtrip

namespace Oratio.Riddle

/-- postcondition on successful results (partial correctness) -/
def Post {β : Type} (P : β → Prop) (res : Except PErr β) : Prop :=
  match res with
  | .ok v => P v
  | .error _ => True

theorem Post_ok {β : Type} {P : β → Prop} {v : β} (h : P v) : Post P (.ok v) := h
theorem Post_pure {β : Type} {P : β → Prop} {v : β} (h : P v) : Post P (pure v : Except PErr β) := h
theorem Post_error {β : Type} {P : β → Prop} {e : PErr} : Post P (.error e : Except PErr β) := trivial
theorem Post_bind {β γ : Type} {m : Except PErr β} {f : β → Except PErr γ} {P : β → Prop} {Q : γ → Prop}
    (hm : Post P m) (hf : ∀ v, P v → Post Q (f v)) : Post Q (m >>= f) := by
  cases m with
  | error e => exact Post_error
  | ok v => exact hf v hm
theorem Post_true {β : Type} (m : Except PErr β) : Post (fun _ => True) m := by
  cases m <;> trivial
theorem Post_mono {β : Type} {P Q : β → Prop} {m : Except PErr β} (hm : Post P m) (h : ∀ v, P v → Q v) : Post Q m := by
  cases m with
  | error e => exact Post_error
  | ok v => exact h v hm
theorem Post_elim {β : Type} {P : β → Prop} {m : Except PErr β} {v : β} (hm : Post P m) (h : m = .ok v) : P v := by
  rw [h] at hm; exact hm

theorem qid_post (toks : List Tok) : Post (fun v => v.1 ≠ []) (qid toks) := by
  unfold qid
  apply Post_bind (Post_true _); intro x _
  apply Post_bind (Post_true _); intro y _
  exact Post_pure (by simp)

theorem WFs_append {xs ys : List Expr} (hx : WFs xs) (hy : WFs ys) : WFs (xs ++ ys) := by
  induction xs with
  | nil => simpa using hy
  | cons x xs ih => exact ⟨(WFs_cons hx).1, ih (WFs_cons hx).2⟩

def WFInv (F : Nat) : Prop := ∀ toks : List Tok,
  (∀ pr, Post (fun v => v.1.WF) (pExpr F pr toks)) ∧
  Post (fun v => v.1.WF) (pPrimary F toks) ∧
  (∀ pr e, e.WF → Post (fun v => v.1.WF) (pLoop F pr e toks)) ∧
  (∀ s lvl acc, WFs acc →
      Post (fun v => WFs v.1 ∧ acc.length ≤ v.1.length ∧ (isSym s toks = true → acc.length + 1 ≤ v.1.length)) (pNary F s lvl acc toks)) ∧
  Post (fun v => WFs v.1) (pArgs F toks) ∧
  Post (fun v => WFs v.1) (pCallArgs F toks)

theorem wfInv : ∀ F, WFInv F := by
  intro F
  induction F with
  | zero =>
    intro toks
    refine ⟨fun pr => ?_, ?_, fun pr e _ => ?_, fun s lvl acc _ => ?_, ?_, ?_⟩
    · rw [pExpr.eq_1]; exact Post_error
    · rw [pPrimary.eq_1]; exact Post_error
    · rw [pLoop.eq_1]; exact Post_error
    · rw [pNary.eq_1]; exact Post_error
    · rw [pArgs.eq_1]; exact Post_error
    · rw [pCallArgs.eq_1]; exact Post_error
  | succ f ih =>
    intro toks
    have hE := fun t pr => (ih t).1 pr
    have hL := fun t pr e h => (ih t).2.2.1 pr e h
    have hN := fun t s lvl acc h => (ih t).2.2.2.1 s lvl acc h
    have hA := fun t => (ih t).2.2.2.2.1
    have hC := fun t => (ih t).2.2.2.2.2
    refine ⟨fun pr => ?_, ?_, fun pr e he => ?_, fun s lvl acc hacc => ?_, ?_, ?_⟩
    · rw [pExpr.eq_2]; simp only []
      apply Post_bind ((ih toks).2.1); intro x hx
      exact hL _ _ _ hx
    · rw [pPrimary.eq_def]; simp only []
      split
      · exact Post_error
      · apply Post_bind (Post_true _); intro t _; exact Post_pure (by simp [Expr.WF])
      · apply Post_bind (Post_true _); intro t _; exact Post_pure (by simp [Expr.WF])
      · apply Post_bind (Post_true _); intro t _; exact Post_pure (by simp [Expr.WF])
      · apply Post_bind (Post_true _); intro t _; exact Post_pure (by simp [Expr.WF])
      · apply Post_bind (Post_true _); intro t1 _
        apply Post_bind (Post_true _); intro c _
        split
        · apply Post_bind (qid_post _); intro q hq
          apply Post_bind (Post_true _); intro t3 _
          apply Post_bind (hE _ _); intro x hx
          exact Post_pure (by simp [Expr.WF]; exact ⟨hq, hx⟩)
        · apply Post_bind (hE _ _); intro x hx
          apply Post_bind (Post_true _); intro t3 _
          exact Post_pure hx
      · apply Post_bind (Post_true _); intro t1 _
        apply Post_bind (hE _ _); intro x hx
        exact Post_pure (by simp [Expr.WF]; exact hx)
      · apply Post_bind (Post_true _); intro t1 _
        apply Post_bind (hE _ _); intro x hx
        exact Post_pure (by simp [Expr.WF]; exact hx)
      · apply Post_bind (Post_true _); intro t1 _
        apply Post_bind (hE _ _); intro x hx
        exact Post_pure (by simp [Expr.WF]; exact hx)
      · apply Post_bind (Post_true _); intro t1 _
        apply Post_bind (qid_post _); intro q hq
        apply Post_bind (Post_true _); intro t3 _
        apply Post_bind (hC _); intro x hx
        exact Post_pure (by simp [Expr.WF]; exact ⟨hq, hx⟩)
      · apply Post_bind (Post_true _); intro t1 _
        apply Post_bind (Post_true _); intro q _
        apply Post_bind (Post_true _); intro m _
        split
        · apply Post_bind (hC _); intro x hx
          exact Post_pure (by simp [Expr.WF]; exact hx)
        · exact Post_pure (by simp [Expr.WF])
      · exact Post_error
    · rw [pLoop.eq_def]; simp only []
      split
      · split
        · split
          · apply Post_bind (Post_true _); intro t1 _
            apply Post_bind (hE _ _); intro x hx
            exact hL _ _ _ (by simp [Expr.WF]; exact ⟨he, hx⟩)
          · exact Post_pure he
        · rename_i s tail _ op lvl _
          split
          · apply Post_bind (hN (.sym s :: tail) s _ [e] ⟨he, trivial⟩); intro x hx
            have h2 := hx.2.2 (by simp [isSym])
            exact hL _ _ _ (by simp [Expr.WF]; exact ⟨by simpa using h2, hx.1⟩)
          · exact Post_pure he
        · exact Post_pure he
      · exact Post_error
      · exact Post_pure he
    · rw [pNary.eq_2]; simp only []
      split
      · rename_i hs
        apply Post_bind (Post_true _); intro t1 _
        apply Post_bind (hE _ _); intro x hx
        refine Post_mono (hN x.2 s lvl (acc ++ [x.1]) (WFs_append hacc ⟨hx, trivial⟩)) ?_
        intro v hv
        simp only [List.length_append, List.length_cons, List.length_nil] at hv
        exact ⟨hv.1, by omega, fun _ => by omega⟩
      · rename_i hs
        exact Post_pure ⟨hacc, Nat.le_refl _, fun h => absurd h hs⟩
    · rw [pArgs.eq_2]; simp only []
      apply Post_bind (hE _ _); intro x hx
      apply Post_bind (Post_true _); intro m _
      split
      · apply Post_bind (hA _); intro y hy
        exact Post_pure ⟨hx, hy⟩
      · exact Post_pure ⟨hx, trivial⟩
    · rw [pCallArgs.eq_2]; simp only []
      apply Post_bind (Post_true _); intro m _
      split
      · exact Post_pure trivial
      · apply Post_bind (hA _); intro y hy
        apply Post_bind (Post_true _); intro t3 _
        exact Post_pure hy

end Oratio.Riddle
