/-
Helper lemmas for `Properties/C09Reach.lean`, part 3: "no zero coefficient" is kept by the
operations on linear expressions that the LRA model uses (`+=`, `-`, `* c`, `/ c` with `c ≠ 0`)
and by `substBasic`.
-/
import OratioModel
import OratioProofs.Lemmas.LraReachOrd

namespace Oratio
namespace Lra
open Lin

/-- no zero coefficient -/
def NZ (m : List (Nat × R)) : Prop := ∀ p ∈ m, p.2.num ≠ 0

theorem nz_nil : NZ [] := fun _ h => by cases h

theorem nz_insert {m : List (Nat × R)} {v : Nat} {c : R} (hm : NZ m) (hc : c.num ≠ 0) : NZ (Lin.insert m v c) := by
  intro p hp
  rcases mem_insert hp with h | h
  · exact hm p h
  · rw [h]; exact hc

theorem nz_set {m : List (Nat × R)} {v : Nat} {c : R} (hm : NZ m) (hc : c.num ≠ 0) : NZ (Lin.set m v c) := by
  intro p hp
  rcases mem_set hp with h | h
  · exact hm p h
  · rw [h]; exact hc

theorem nz_erase {m : List (Nat × R)} {v : Nat} (hm : NZ m) : NZ (Lin.erase m v) :=
  fun p hp => hm p (mem_erase hp)

theorem nz_mapC {f : R → R} {m : List (Nat × R)} (hw : CoefWF m) (hm : NZ m)
    (hf : ∀ c, R.FinWF c → c.num ≠ 0 → (f c).num ≠ 0) : NZ (mapC f m) := by
  intro p hp
  obtain ⟨q, hq, rfl⟩ := List.mem_map.1 hp
  exact hf q.2 (hw q hq) (hm q hq)

theorem num_ne_zero_of_toRat {c : R} (h : c.toRat ≠ 0) : c.num ≠ 0 := by
  intro h0
  apply h
  unfold R.toRat
  rw [h0]
  simp

theorem mul_nz {a b : R} (ha : R.FinWF a) (hb : R.FinWF b) (hna : a.num ≠ 0) (hnb : b.num ≠ 0) :
    (R.mul a b).num ≠ 0 := by
  apply num_ne_zero_of_toRat
  rw [(R.mul_fin ha hb).2]
  exact mul_ne_zero (toRat_ne_zero ha hna) (toRat_ne_zero hb hnb)

theorem div_nz {a b : R} (ha : R.FinWF a) (hb : R.FinWF b) (hna : a.num ≠ 0) (hnb : b.num ≠ 0) :
    (R.div a b).num ≠ 0 := by
  apply num_ne_zero_of_toRat
  rw [(R.div_fin ha hb hnb).2]
  exact div_ne_zero (toRat_ne_zero ha hna) (toRat_ne_zero hb hnb)

theorem neg_nz {a : R} (hna : a.num ≠ 0) : (R.neg a).num ≠ 0 := by
  show -a.num ≠ 0
  omega

theorem nz_of_not_eq_zero {c : R} (hc : R.FinWF c) (h : R.eq c R.zero = false) : c.num ≠ 0 := by
  intro h0
  rw [R.wf_num_zero hc.1 h0] at h
  revert h
  decide

/-- `addTerm` (the loop body of `+=`) keeps "no zero coefficient" -/
theorem nz_addTerm {m : List (Nat × R)} {t : Nat × R} (hw : CoefWF m) (hm : NZ m) (ht : R.FinWF t.2)
    (hn : t.2.num ≠ 0) : NZ (addTerm m t) := by
  unfold addTerm
  cases hf : Lin.find m t.1 with
  | none => exact nz_insert hm hn
  | some c =>
    simp only
    split
    · exact nz_erase hm
    · next hz =>
      exact nz_set hm (nz_of_not_eq_zero (R.finWF_addAssign (coefWF_find hw hf) ht) (by simpa using hz))

theorem nz_foldl_addTerm (r : List (Nat × R)) : ∀ m : List (Nat × R), Sorted m → CoefWF m → NZ m →
    CoefWF r → NZ r → NZ (r.foldl addTerm m) := by
  induction r with
  | nil => intro m _ _ hm _ _; exact hm
  | cons a r ih =>
    intro m hs hw hm hwr hnr
    obtain ⟨a1, a2, -, -⟩ := addTerm_spec (t := a) hs hw (coefWF_cons.1 hwr).1
    rw [List.foldl_cons]
    exact ih _ a1 a2 (nz_addTerm hw hm (coefWF_cons.1 hwr).1 (hnr a List.mem_cons_self)) (coefWF_cons.1 hwr).2
      (fun p hp => hnr p (List.mem_cons_of_mem _ hp))

/-- a key that the added terms do not mention keeps its entry -/
theorem find_addTerm_ne {m : List (Nat × R)} {t : Nat × R} (hs : Sorted m) {w : Nat} (hne : t.1 ≠ w) :
    Lin.find (addTerm m t) w = Lin.find m w := by
  unfold addTerm
  cases hf : Lin.find m t.1 with
  | none =>
    simp only
    rw [find_insert _ _ hf, if_neg (fun h => hne h.symm)]
  | some c =>
    simp only
    split
    · rw [find_erase _ _ hs, if_neg (fun h => hne h.symm)]
    · rw [find_set _ _ _ hf, if_neg (fun h => hne h.symm)]

theorem find_foldl_addTerm_ne (r : List (Nat × R)) : ∀ m : List (Nat × R), Sorted m → CoefWF m → CoefWF r →
    ∀ w, (∀ p ∈ r, p.1 ≠ w) → Lin.find (r.foldl addTerm m) w = Lin.find m w := by
  induction r with
  | nil => intro m _ _ _ w _; rfl
  | cons a r ih =>
    intro m hs hw hwr w hne
    obtain ⟨a1, a2, -, -⟩ := addTerm_spec (t := a) hs hw (coefWF_cons.1 hwr).1
    rw [List.foldl_cons, ih _ a1 a2 (coefWF_cons.1 hwr).2 w (fun p hp => hne p (List.mem_cons_of_mem _ hp)),
      find_addTerm_ne hs (hne a List.mem_cons_self)]

/-! ### `Lin.sub` -/

theorem nz_sub {l r : Lin} (hl : l.WF) (hr : r.WF) (hnl : NZ l.vars) (hnr : NZ r.vars) : NZ (Lin.sub l r).vars := by
  obtain ⟨ls, lw, -⟩ := (wf_iff l).1 hl
  obtain ⟨-, rw', -⟩ := (wf_iff r).1 hr
  show NZ (r.vars.foldl subTerm l.vars)
  rw [foldl_subTerm]
  exact nz_foldl_addTerm _ _ ls lw hnl (coefWF_mapC (fun c hc => R.finWF_neg hc) rw')
    (nz_mapC rw' hnr (fun c _ hn => neg_nz hn))

/-! ### `substBasic` -/

theorem nz_find {m : List (Nat × R)} (hm : NZ m) {v : Nat} {c : R} (h : Lin.find m v = some c) : c.num ≠ 0 :=
  hm (v, c) (find_mem h)

/-- one step of `substBasic` on an expression in which the replaced variable still occurs -/
theorem nz_substStep {t : Lra} (hrows : ∀ r l, t.rowOf r = some l → l.WF)
    (hnzr : ∀ r l, t.rowOf r = some l → NZ l.vars) {e : Lin} (he : e.WF) (hne : NZ e.vars) (v : Nat)
    (hv : t.rowOf v ≠ none → (Lin.find e.vars v).isSome = true) :
    NZ (substStep t e v).vars ∧
    (∀ w, w ≠ v → (∀ rl, t.rowOf v = some rl → Lin.find rl.vars w = none) →
      (Lin.find e.vars w).isSome = true → (Lin.find (substStep t e v).vars w).isSome = true) := by
  unfold substStep
  cases hr : t.rowOf v with
  | none => exact ⟨hne, fun w _ _ h => h⟩
  | some rl =>
    simp only
    obtain ⟨es, ew, ek⟩ := (wf_iff e).1 he
    obtain ⟨c, hc⟩ := Option.isSome_iff_exists.1 (hv (by rw [hr]; simp))
    have hcw : R.FinWF c := coefWF_find ew hc
    have hcn : c.num ≠ 0 := nz_find hne hc
    obtain ⟨rs, rw', -⟩ := (wf_iff rl).1 (hrows v rl hr)
    have hvars : (Lin.mulR rl ((Lin.find e.vars v).getD R.zero)).vars = mapC (fun x => R.mulAssign x c) rl.vars := by
      rw [hc]; rfl
    have hmw : CoefWF (mapC (fun x => R.mulAssign x c) rl.vars) :=
      coefWF_mapC (fun x hx => R.finWF_mulAssign hx hcw) rw'
    have hmn : NZ (mapC (fun x => R.mulAssign x c) rl.vars) :=
      nz_mapC rw' (hnzr v rl hr) (fun x hx hn => by rw [R.mulAssign_eq_mul]; exact mul_nz hx hcw hn hcn)
    show NZ ((Lin.mulR rl ((Lin.find e.vars v).getD R.zero)).vars.foldl addTerm (Lin.erase e.vars v)) ∧ _
    rw [hvars]
    refine ⟨nz_foldl_addTerm _ _ (sorted_erase _ es) (coefWF_erase ew) (nz_erase hne) hmw hmn, ?_⟩
    intro w hwv hno hw
    show (Lin.find ((Lin.mulR rl ((Lin.find e.vars v).getD R.zero)).vars.foldl addTerm (Lin.erase e.vars v)) w).isSome = true
    rw [hvars, find_foldl_addTerm_ne _ _ (sorted_erase _ es) (coefWF_erase ew) hmw w, find_erase _ _ es, if_neg hwv]
    · exact hw
    · intro p hp hpw
      obtain ⟨q, hq, rfl⟩ := List.mem_map.1 hp
      have : Lin.find rl.vars w = none := hno rl rfl
      have h2 : (Lin.find rl.vars w).isSome = true := by
        rw [← hpw]; exact find_isSome_of_mem (c := q.2) hq
      rw [this] at h2
      cases h2

theorem nz_substFold {t : Lra} (hrows : ∀ r l, t.rowOf r = some l → l.WF)
    (hnzr : ∀ r l, t.rowOf r = some l → NZ l.vars)
    (hnb : ∀ r l v, t.rowOf r = some l → (Lin.find l.vars v).isSome = true → t.rowOf v = none) :
    ∀ (ks : List Nat) (e : Lin), e.WF → NZ e.vars → ks.Nodup →
      (∀ v ∈ ks, t.rowOf v ≠ none → (Lin.find e.vars v).isSome = true) →
      NZ (ks.foldl (substStep t) e).vars := by
  intro ks
  induction ks with
  | nil => intro e _ hne _ _; exact hne
  | cons v ks ih =>
    intro e he hne hnd hk
    obtain ⟨hv, hnd'⟩ := List.nodup_cons.1 hnd
    obtain ⟨s1, -, -⟩ := substStep_spec hrows he v
    obtain ⟨n1, n2⟩ := nz_substStep hrows hnzr he hne v (hk v List.mem_cons_self)
    rw [List.foldl_cons]
    refine ih _ s1 n1 hnd' ?_
    intro w hw hwb
    refine n2 w (fun h => hv (h ▸ hw)) ?_ (hk w (List.mem_cons_of_mem _ hw) hwb)
    intro rl hrl
    cases hf : Lin.find rl.vars w with
    | none => rfl
    | some c => exact absurd (hnb v rl w hrl (by rw [hf]; rfl)) hwb

theorem keys_nodup {m : List (Nat × R)} (hs : Sorted m) : (m.map (·.1)).Nodup := by
  have : (m.map Prod.fst).Pairwise (· < ·) := (sorted_iff_keys m).1 hs
  exact List.Pairwise.imp (fun h => Nat.ne_of_lt h) this

/-- `substBasic` keeps "no zero coefficient" when no row has one -/
theorem nz_substBasic {t : Lra} (hrows : ∀ r l, t.rowOf r = some l → l.WF)
    (hnzr : ∀ r l, t.rowOf r = some l → NZ l.vars)
    (hnb : ∀ r l v, t.rowOf r = some l → (Lin.find l.vars v).isSome = true → t.rowOf v = none)
    {l : Lin} (hl : l.WF) (hn : NZ l.vars) : NZ (substBasic t l).vars := by
  rw [substBasic_eq]
  obtain ⟨ls, -, -⟩ := (wf_iff l).1 hl
  refine nz_substFold hrows hnzr hnb _ l hl hn (keys_nodup ls) ?_
  intro v hv _
  obtain ⟨p, hp, rfl⟩ := List.mem_map.1 hv
  exact find_isSome_of_mem (c := p.2) hp

end Lra
end Oratio
