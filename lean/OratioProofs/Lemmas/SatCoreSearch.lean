/-
C07: `record`, `propagate`, `assume`, `next`, `check` and the invariants.
-/
import OratioModel
import OratioProofs.Lemmas.SatCoreVisit
import OratioProofs.Lemmas.SatCoreAnalyze

set_option linter.unusedSimpArgs false
set_option linter.unusedVariables false

namespace Oratio
namespace Sat

/-! ### the sort of `record` -/

theorem insertByLevel_perm (s : Sat) (x : Lit) : ∀ l : List Lit, (insertByLevel s x l).Perm (x :: l)
  | [] => by simp [insertByLevel]
  | y :: t => by
    unfold insertByLevel
    split
    · exact List.Perm.refl _
    · exact ((insertByLevel_perm s x t).cons y).trans (List.Perm.swap _ _ _)

theorem sortByLevel_perm (s : Sat) (l : List Lit) : (l.foldr (insertByLevel s) []).Perm l := by
  induction l with
  | nil => exact List.Perm.refl _
  | cons x t ih => exact (insertByLevel_perm s x _).trans (ih.cons x)

theorem insertByLevel_sorted (s : Sat) (x : Lit) : ∀ l : List Lit,
    l.Pairwise (fun a b => s.lvl b ≤ s.lvl a) → (insertByLevel s x l).Pairwise (fun a b => s.lvl b ≤ s.lvl a)
  | [], _ => by simp [insertByLevel]
  | y :: t, h => by
    unfold insertByLevel
    rw [List.pairwise_cons] at h
    split
    · rename_i hge
      rw [List.pairwise_cons]
      refine ⟨?_, List.pairwise_cons.2 h⟩
      intro z hz
      rcases List.mem_cons.1 hz with rfl | hz
      · exact hge
      · exact Nat.le_trans (h.1 z hz) hge
    · rename_i hlt
      rw [List.pairwise_cons]
      refine ⟨?_, insertByLevel_sorted s x t h.2⟩
      intro z hz
      rcases List.mem_cons.1 ((insertByLevel_perm s x t).mem_iff.1 hz) with rfl | hz
      · simp only [lvl] at *; omega
      · exact h.1 z hz

theorem sortByLevel_sorted (s : Sat) (l : List Lit) :
    (l.foldr (insertByLevel s) []).Pairwise (fun a b => s.lvl b ≤ s.lvl a) := by
  induction l with
  | nil => simp
  | cons x t ih => exact insertByLevel_sorted s x _ ih

/-! ### record -/

theorem Ent.keeps_add {orig K : Cnf} {s : Sat} (h : s.Ent orig K) (c : Clause)
    (hc : s.dead = false → ∀ α : Asg, α 0 = false → α.cnf (s.cls.map (·.2)) = true →
      (∀ l ∈ s.trail, s.lvl l = 0 → α.lit l = true) → α.clause c = true) : s.Ent orig (K ++ [c]) :=
  ⟨h.clauses, h.trail, h.log, h.dead, fun hd α h0 hcl hr => by
    rw [Asg.cnf_append, h.keeps hd α h0 hcl hr]
    simp [Asg.cnf, hc hd α h0 hcl hr]⟩

theorem Ent.keeps_weaken {orig K K' : Cnf} {s : Sat} (h : s.Ent orig K') (hs : ∀ d ∈ K, d ∈ K') : s.Ent orig K :=
  ⟨h.clauses, h.trail, h.log, h.dead, fun hd α h0 hcl hr => by
    have := h.keeps hd α h0 hcl hr
    simp only [Asg.cnf, List.all_eq_true] at this ⊢
    exact fun d hd' => this d (hs d hd')⟩

theorem InvC.keeps_weaken {orig K K' : Cnf} {m : Nat} {P : Nat → Lit → Prop} {s : Sat} (h : InvC orig m P s K')
    (hs : ∀ d ∈ K, d ∈ K') : InvC orig m P s K :=
  ⟨h.wf, h.ent.keeps_weaken hs, h.dec, h.w2⟩

theorem record_spec {orig K : Cnf} {m : Nat} {t : Sat} (h : InvC orig m (fun _ _ => False) t K) (hq : t.queue = [])
    (l0 : Lit) (rest : List Lit) (hv : t.value l0 = none) (hlt : l0.var < t.vals.length)
    (hrest : ∀ x ∈ rest, x.neg ∈ t.trail) (h0 : rest = [] → t.decisionLevel = 0)
    (hmax : rest ≠ [] → ∃ x ∈ rest, t.lvl x = t.decisionLevel)
    (hent : Ents orig (l0 :: rest)) (hnd : ((l0 :: rest).map Lit.var).Nodup) :
    InvC orig m (fun _ x => x ∈ (t.record (l0 :: rest)).queue) (t.record (l0 :: rest)) (K ++ [l0 :: rest]) ∧
      (t.record (l0 :: rest)).queue = [l0] ∧ (t.record (l0 :: rest)).decisions = t.decisions ∧
      (t.record (l0 :: rest)).trailLim = t.trailLim ∧ (t.record (l0 :: rest)).log = t.log ++ [l0 :: rest] ∧
      (t.record (l0 :: rest)).dead = t.dead ∧ (t.record (l0 :: rest)).vals.length = t.vals.length ∧
      (t.record (l0 :: rest)).exprs = t.exprs := by
  -- the state with the log extended
  have hlog : InvC orig m (fun _ _ => False) ({ t with log := t.log ++ [l0 :: rest] } : Sat) K := by
    refine ⟨h.wf.of_eq rfl rfl rfl rfl rfl rfl rfl rfl rfl rfl rfl, ⟨h.ent.clauses, h.ent.trail, ?_, h.ent.dead,
      h.ent.keeps⟩, h.dec, fun hd => (h.w2 hd).of_eq rfl rfl rfl⟩
    intro c hc
    rcases List.mem_append.1 hc with hc | hc
    · exact h.ent.log c hc
    · simp only [List.mem_singleton] at hc; subst hc; exact hent
  generalize hu : ({ t with log := t.log ++ [l0 :: rest] } : Sat) = u at hlog
  have hu1 : u.queue = [] := by subst hu; exact hq
  have huv : u.value l0 = none := by subst hu; exact hv
  have hult : l0.var < u.vals.length := by subst hu; exact hlt
  have hut : ∀ x ∈ rest, x.neg ∈ u.trail := by subst hu; exact hrest
  have hu0 : rest = [] → u.decisionLevel = 0 := by subst hu; exact h0
  have humax : rest ≠ [] → ∃ x ∈ rest, u.lvl x = u.decisionLevel := by subst hu; exact hmax
  have hudec : u.decisions = t.decisions := by subst hu; rfl
  have hulim : u.trailLim = t.trailLim := by subst hu; rfl
  have hulog : u.log = t.log ++ [l0 :: rest] := by subst hu; rfl
  have hudead : u.dead = t.dead := by subst hu; rfl
  have hulen : u.vals.length = t.vals.length := by subst hu; rfl
  have hue : u.exprs = t.exprs := by subst hu; rfl
  have hrec : t.record (l0 :: rest) = match rest with
      | [] => (u.enqueue l0 none).2
      | _ :: _ => ((u.addClause (l0 :: rest.foldr (insertByLevel u) [])).2.enqueue l0
            (some (u.addClause (l0 :: rest.foldr (insertByLevel u) [])).1)).2 := by
    subst hu
    cases rest with
    | nil => rfl
    | cons y ys => rfl
  rw [hrec]
  have hentU : Ents (orig ++ units u.decisions) [l0] → True := fun _ => trivial
  cases rest with
  | nil =>
    simp only
    rw [enqueue_none _ huv]
    refine ⟨⟨hlog.wf.enq huv hult (fun _ => Or.inl (hu0 rfl)) (fun id e => by cases e), ?_, hlog.dec.enq hlog.wf.a huv,
      fun hd => ?_⟩, by simp [enq, hu1], hudec, hulim, hulog, hudead, by simp [enq, hulen], hue⟩
    · apply (hlog.ent.enq hlog.wf.a huv hult (hent.mono (fun d hd => List.mem_append_left _ hd))).keeps_add
      intro _ α _ _ hroot
      have := hroot l0 (List.mem_cons_self ..) (by rw [enq_lvl_self hlog.wf.a hult]; exact hu0 rfl)
      simp [Asg.clause, this]
    · exact (hlog.w2 hd).enq hlog.wf.a huv hult (fun _ _ hf => hf.elim)
        (fun _ => List.mem_append_right _ (List.mem_singleton.2 rfl))
  | cons y ys =>
    simp only
    have hperm := sortByLevel_perm u (y :: ys)
    have hsorted := sortByLevel_sorted u (y :: ys)
    generalize hs : (y :: ys).foldr (insertByLevel u) [] = sorted at hperm hsorted
    cases sorted with
    | nil => exact absurd hperm.length_eq (by simp)
    | cons z zs =>
      rw [addClause_fst]
      have hmem : ∀ x, x ∈ z :: zs ↔ x ∈ y :: ys := fun x => hperm.mem_iff
      have hnd' : ((l0 :: z :: zs).map Lit.var).Nodup :=
        ((hperm.cons l0).map Lit.var).nodup_iff.2 hnd
      have hzt : ∀ x ∈ z :: zs, x.neg ∈ u.trail := fun x hx => hut x ((hmem x).1 hx)
      have hrange : ∀ l ∈ l0 :: z :: zs, l.var < u.vals.length := by
        intro l hl
        rcases List.mem_cons.1 hl with rfl | hl
        · exact hult
        · exact hlog.wf.a.trail_lt (l := l.neg) (hzt l hl)
      have hvar0 : ∀ l ∈ l0 :: z :: zs, l.var ≠ 0 := by
        intro l hl
        rcases List.mem_cons.1 hl with rfl | hl
        · exact hlog.wf.a.var_ne_zero_of_none huv
        · exact (hlog.wf.a.trailVal l.neg (hzt l hl)).2
      -- the level of the second watch
      have hzl : u.lvl z = u.decisionLevel := by
        obtain ⟨x, hx, hxl⟩ := humax (by simp)
        have h1 : u.lvl x ≤ u.lvl z := by
          rcases List.mem_cons.1 ((hmem x).2 hx) with rfl | hx'
          · exact Nat.le_refl _
          · exact (List.pairwise_cons.1 hsorted).1 x hx'
        have h2 := hlog.wf.a.lvl_le (hzt z (List.mem_cons_self ..))
        simp only [lvl_neg] at h2
        omega
      have hzf : u.value z = some false :=
        (hlog.wf.a.value_false).2 (Or.inl (hzt z (List.mem_cons_self ..)))
      generalize hA : (u.addClause (l0 :: z :: zs)).2 = w
      have hwf : w.Wf := by rw [← hA]; exact hlog.wf.addClause hnd' hrange hvar0
      have hwv : w.value l0 = none := by rw [← hA]; exact huv
      have hwlt : l0.var < w.vals.length := by rw [← hA]; exact hult
      have hwcls : (u.nextId, l0 :: z :: zs) ∈ w.cls := by
        rw [← hA, addClause_cls]; exact List.mem_append_right _ (List.mem_singleton.2 rfl)
      have hwent : w.Ent orig K := by
        rw [← hA]
        refine ⟨?_, hlog.ent.trail, hlog.ent.log, hlog.ent.dead, ?_⟩
        · intro e he
          rw [addClause_cls] at he
          rcases List.mem_append.1 he with he | he
          · exact hlog.ent.clauses e he
          · simp only [List.mem_singleton] at he; subst he
            exact hent.weaken (fun l hl => by
              rcases List.mem_cons.1 hl with rfl | hl
              · exact List.mem_cons_self ..
              · exact List.mem_cons_of_mem _ ((hmem l).2 hl))
        · intro hd α ha0 hc hroot
          apply hlog.ent.keeps hd α ha0 _ hroot
          rw [addClause_cls, List.map_append, Asg.cnf_append] at hc
          simp only [Bool.and_eq_true] at hc
          exact hc.1
      have hwtrail : w.trail = u.trail := by rw [← hA]; rfl
      have hwq : w.queue = [] := by rw [← hA]; exact hu1
      rw [enqueue_none _ hwv]
      refine ⟨⟨hwf.enq hwv hwlt (fun e => by cases e) ?_, ?_, ?_, fun hd => ?_⟩, by simp [enq, hwq],
        by rw [← hA]; exact hudec, by rw [← hA]; exact hulim, by rw [← hA]; exact hulog,
        by rw [← hA]; exact hudead, by rw [← hA]; simp [enq]; exact hulen, by rw [← hA]; exact hue⟩
      · intro id e
        simp only [Option.some.injEq] at e; subst e
        exact ⟨z :: zs, hwcls, fun x hx => by rw [hwtrail]; exact hzt x hx⟩
      · apply (hwent.enq hwf.a hwv hwlt
          (ents_unit hwf.a hwent (hwent.clauses _ hwcls) (fun x hx => by rw [hwtrail]; exact hzt x hx))).keeps_add
        intro _ α _ hcl _
        simp only [Asg.cnf, List.all_map, List.all_eq_true, Function.comp] at hcl
        have := hcl _ (show (u.nextId, l0 :: z :: zs) ∈ (w.enq l0 (some u.nextId)).cls from hwcls)
        rw [← Asg.clause_perm α (hperm.cons l0)]
        exact this
      · have : w.DecOK m := by rw [← hA]; exact hlog.dec
        exact this.enq hwf.a hwv
      · have hd' : u.dead = false := by rw [← hA] at hd; exact hd
        have hw2 : w.W2 (fun id' _ => id' = u.nextId) := by
          rw [← hA]
          apply ((hlog.w2 hd').mono (fun _ _ hf => hf.elim)).addClause
          exact ⟨fun _ => Or.inl rfl, fun _ => Or.inl rfl⟩
        have hw2' := hw2.enq (P' := fun id' x => x ∈ (w.enq l0 (some u.nextId)).queue ∨ id' = u.nextId)
          (c := some u.nextId) hwf.a hwv hwlt (fun _ _ hP => Or.inr hP)
          (fun _ => Or.inl (List.mem_append_right _ (List.mem_singleton.2 rfl)))
        apply hw2'.at_clause hwf.c.enq hwcls
        · intro id' x hne hP
          exact hP.resolve_right hne
        · have hl0 : (w.enq l0 (some u.nextId)).value l0 = some true := enq_value_self hwlt
          refine ⟨fun hv' => ?_, fun _ => Or.inr ⟨hl0, ?_⟩⟩
          · rw [hl0] at hv'; cases hv'
          · rw [enq_lvl_self hwf.a hwlt]
            have hne : z.var ≠ l0.var := by
              simp only [List.map_cons, List.nodup_cons, List.mem_cons, not_or] at hnd'
              exact fun e => hnd'.1.1 e.symm
            rw [enq_lvl_ne hne]
            have : w.lvl z = u.lvl z := by rw [← hA]; rfl
            have hdl : w.decisionLevel = u.decisionLevel := by rw [← hA]; rfl
            rw [this, hdl, hzl]
            exact Nat.le_refl _

end Sat
end Oratio

namespace Oratio
namespace Sat

/-! ### frames -/

/-- fields that propagation of a single literal never touches -/
structure Frame (s s' : Sat) : Prop where
  dead : s'.dead = s.dead
  decisions : s'.decisions = s.decisions
  trailLim : s'.trailLim = s.trailLim
  log : s'.log = s.log
  lenVals : s'.vals.length = s.vals.length
  exprs : s'.exprs = s.exprs

theorem Frame.refl (s : Sat) : Frame s s := ⟨rfl, rfl, rfl, rfl, rfl, rfl⟩

theorem Frame.trans {a b c : Sat} (h1 : Frame a b) (h2 : Frame b c) : Frame a c :=
  ⟨h2.dead.trans h1.dead, h2.decisions.trans h1.decisions, h2.trailLim.trans h1.trailLim, h2.log.trans h1.log,
    h2.lenVals.trans h1.lenVals, h2.exprs.trans h1.exprs⟩

theorem enqueue_frame (s : Sat) (p : Lit) (c : Option Nat) : Frame s (s.enqueue p c).2 := by
  unfold enqueue; split
  · exact Frame.refl s
  · exact ⟨rfl, rfl, rfl, rfl, by simp, rfl⟩

/-- `clausePropagate` after the normalisation of the clause -/
def cpTail (s : Sat) (id : Nat) (p : Lit) (c : Clause) : Bool × Sat :=
  let s := s.setClause id c
  if s.value (c.headD Lit.falseLit) = some true then (true, s.watch p id)
  else match findNonFalse s c 1 with
    | some k =>
      let c' := swap1 c k
      (true, (s.setClause id c').watch (c'.getD 1 Lit.falseLit).neg id)
    | none => (s.watch p id).enqueue (c.headD Lit.falseLit) (some id)

theorem clausePropagate_eq_tail (s : Sat) (id : Nat) (p : Lit) :
    s.clausePropagate id p = cpTail s id p (match s.clauseOf id with
      | l0 :: l1 :: rest => if l0.var == p.var then l1 :: l0 :: rest else s.clauseOf id
      | _ => s.clauseOf id) := rfl

theorem cpTail_frame (s : Sat) (id : Nat) (p : Lit) (c : Clause) : Frame s (cpTail s id p c).2 := by
  unfold cpTail
  simp only
  split
  · exact ⟨rfl, rfl, rfl, rfl, rfl, rfl⟩
  · split
    · exact ⟨rfl, rfl, rfl, rfl, rfl, rfl⟩
    · exact Frame.trans (b := (s.setClause id c).watch p id) ⟨rfl, rfl, rfl, rfl, rfl, rfl⟩ (enqueue_frame _ _ _)

theorem clausePropagate_frame (s : Sat) (id : Nat) (p : Lit) : Frame s (s.clausePropagate id p).2 := by
  rw [clausePropagate_eq_tail]; exact cpTail_frame _ _ _ _

theorem visitWatchers_frame (p : Lit) : ∀ (tmp : List Nat) (s : Sat), Frame s (visitWatchers s p tmp).1
  | [], s => Frame.refl s
  | id :: rest, s => by
    unfold visitWatchers
    have h1 := clausePropagate_frame s id p
    rcases hcp : s.clausePropagate id p with ⟨b, s1⟩
    rw [hcp] at h1
    cases b with
    | true => exact h1.trans (visitWatchers_frame p rest s1)
    | false => exact h1.trans ⟨rfl, rfl, rfl, rfl, rfl, rfl⟩

/-! ### analysis does not interfere with backjumping -/

theorem popN_add (a b : Nat) (s : Sat) : (s.popN a).popN b = s.popN (a + b) := by
  induction a generalizing s with
  | zero => simp [popN]
  | succ a ih =>
    rw [popN_succ, ih, show a + 1 + b = (a + b) + 1 by omega, popN_succ]

theorem popN_pop (s : Sat) (k : Nat) (hne : s.trailLim ≠ [])
    (hk : ∀ lim ∈ s.trailLim.head?, lim + k ≤ s.trail.length) : (s.popN k).pop = s.pop := by
  obtain ⟨f1, f2, f3, f4, f5, f6, f7, f8, f9, f10, f11, f12⟩ := popN_frame k s
  cases hl : s.trailLim with
  | nil =>
    exact absurd hl hne
  | cons lim lims =>
    rw [pop_eq hl, pop_eq (show (s.popN k).trailLim = lim :: lims by rw [f5]; exact hl), popN_add, popN_trail,
      f6]
    have := hk lim (by simp [hl])
    simp only [List.length_drop]
    have e : k + (s.trail.length - k - lim) = s.trail.length - lim := by omega
    rw [e]

end Sat
end Oratio

namespace Oratio
namespace Sat

theorem popN_popTo (s : Sat) (k bt : Nat) (hbt : bt < s.decisionLevel)
    (hk : ∀ lim ∈ s.trailLim.head?, lim + k ≤ s.trail.length) : (s.popN k).popTo bt = s.popTo bt := by
  have hne : s.trailLim ≠ [] := by intro e; simp [decisionLevel, e] at hbt
  have hdl : (s.popN k).decisionLevel = s.decisionLevel := by
    simp only [decisionLevel, (popN_frame k s).2.2.2.2.1]
  rw [popTo_pop _ bt (by rw [hdl]; exact hbt), popTo_pop s bt hbt, popN_pop s k hne hk]

/-! ### conflicts -/

theorem Conf.uns {orig : Cnf} {m : Nat} {t : Sat} {id : Nat} (h : Conf orig m t id) :
    Uns (orig ++ units t.decisions) := by
  obtain ⟨c, hm, hf, _⟩ := h.cnfl
  intro α h0
  cases hF : α.cnf (orig ++ units t.decisions) with
  | false => rfl
  | true =>
    exfalso
    have hF' := hF
    rw [Asg.cnf_append] at hF'
    simp only [Bool.and_eq_true] at hF'
    have h1 := h.inv.ent.clauses _ hm α h0 hF'.1
    simp only [Asg.clause, List.any_eq_true] at h1
    obtain ⟨l, hl, hv⟩ := h1
    have := h.inv.ent.trail _ (hf l hl) α h0 (by
      rw [Asg.cnf_append]
      simp only [Bool.and_eq_true]
      refine ⟨hF'.1, ?_⟩
      have h2 := hF'.2
      rw [Asg.cnf_units, List.all_eq_true] at h2 ⊢
      exact fun d hd => h2 d (decsUpTo_sub _ _ d hd))
    simp only [Asg.clause, List.any_cons, List.any_nil, Bool.or_false] at this
    rw [Asg.lit_neg] at this
    simp [hv] at this

theorem Uns.mono {F G : Cnf} (h : Uns F) (hs : ∀ d ∈ F, d ∈ G) : Uns G := by
  intro α h0
  have := h α h0
  cases hG : α.cnf G with
  | false => rfl
  | true =>
    exfalso
    simp only [Asg.cnf, List.all_eq_true] at hG
    have : α.cnf F = true := by
      simp only [Asg.cnf, List.all_eq_true]
      exact fun d hd => hG d (hs d hd)
    simp_all

/-- what a call of `propagate` may change, as far as the caller is concerned -/
structure PropRel (orig : Cnf) (s s' : Sat) : Prop where
  decs : s'.decisions <:+ s.decisions
  uns : s'.decisions.length < s.decisions.length ∨ s'.dead = true → Uns (orig ++ units s.decisions)
  log : s.log <+: s'.log
  lenVals : s'.vals.length = s.vals.length
  exprs : s'.exprs = s.exprs

theorem PropRel.refl (orig : Cnf) (s : Sat) (hd : s.dead = false) : PropRel orig s s :=
  ⟨List.suffix_refl _, (fun h => by
    rcases h with h | h
    · omega
    · rw [hd] at h; cases h), List.prefix_refl _, rfl, rfl⟩

theorem units_mono {a b : List Lit} (h : a <:+ b) {orig : Cnf} : ∀ d ∈ orig ++ units a, d ∈ orig ++ units b := by
  intro d hd
  rcases List.mem_append.1 hd with hd | hd
  · exact List.mem_append_left _ hd
  · apply List.mem_append_right
    simp only [units, List.mem_map] at hd ⊢
    obtain ⟨l, hl, rfl⟩ := hd
    exact ⟨l, h.subset hl, rfl⟩

theorem PropRel.trans {orig : Cnf} {a b c : Sat} (h1 : PropRel orig a b) (h2 : PropRel orig b c) :
    PropRel orig a c := by
  refine ⟨h2.decs.trans h1.decs, ?_, h1.log.trans h2.log, h2.lenVals.trans h1.lenVals, h2.exprs.trans h1.exprs⟩
  intro h
  by_cases hb : b.decisions.length < a.decisions.length
  · exact h1.uns (Or.inl hb)
  · have hlen : b.decisions.length = a.decisions.length := by
      have := h1.decs.length_le; omega
    have heq : b.decisions = a.decisions := h1.decs.eq_of_length hlen
    have := h2.uns (by
      rcases h with h | h
      · left; omega
      · exact Or.inr h)
    rw [heq] at this; exact this

end Sat
end Oratio

namespace Oratio
namespace Sat

theorem WfA.queue_sub {s : Sat} (h : s.WfA) (q : List Lit) (hq : ∀ x ∈ q, x ∈ s.queue) :
    ({ s with queue := q } : Sat).WfA := by
  obtain ⟨a1, a2, a3, a4, a5, a6, a7, a8, a9, a10, a11, a12, a13⟩ := h
  exact ⟨a1, a2, a3, a4, a5, a6, a7, a8, a9, a10, (fun p hp => a11 p (hq p hp)), a12, a13⟩

theorem putBack_detach (s : Sat) (p : Lit) (q : List Lit) (h : p.idx < s.watches.length) :
    ({ s with queue := q, watches := s.watches.set p.idx [] } : Sat).putBack p (s.watches.getD p.idx []) =
      { s with queue := q } := by
  simp only [putBack, getD_set_eq _ _ _ _ h, List.nil_append, List.set_set, set_getD_self]

/-- start of the visit of the watchers of the first queue element -/
theorem VInv.start {orig : Cnf} {m : Nat} {s : Sat} (h : InvC orig m (fun _ x => x ∈ s.queue) s) {p : Lit}
    {q : List Lit} (hq : s.queue = p :: q) :
    VInv orig m { s with queue := q, watches := s.watches.set p.idx [] } p (s.watches.getD p.idx []) := by
  have hpq := h.wf.a.queueOK p (by rw [hq]; exact List.mem_cons_self ..)
  have hidx : p.idx < s.watches.length := by
    rw [h.wf.w.lenWatches]; exact Lit.idx_lt (h.wf.a.trail_lt hpq.1)
  refine ⟨?_, hpq.1, hpq.2⟩
  rw [putBack_detach s p q hidx]
  refine ⟨⟨h.wf.a.queue_sub q (fun x hx => by rw [hq]; exact List.mem_cons_of_mem _ hx), h.wf.c.of_eq rfl rfl rfl,
    h.wf.r.of_eq rfl rfl rfl, h.wf.w.of_eq rfl rfl rfl⟩, h.ent.of_eq rfl rfl rfl rfl rfl rfl, h.dec, fun hd => ?_⟩
  intro id l0 l1 r hm
  obtain ⟨h1, h2⟩ := h.w2 hd id l0 l1 r hm
  obtain ⟨c1, c2⟩ := h.wf.w.complete id l0 l1 r hm
  have key : ∀ x : Lit, id ∈ s.watches.getD x.neg.idx [] → x.neg ∈ s.queue →
      PendV { s with queue := q, watches := s.watches.set p.idx [] } p (s.watches.getD p.idx []) id x.neg := by
    intro x hw hx
    rw [hq] at hx
    rcases List.mem_cons.1 hx with hx | hx
    · right; refine ⟨hx, ?_⟩; rw [← hx]; exact hw
    · left; exact hx
  exact ⟨fun hv => (h1 hv).imp (key l0 c1) (fun z => z), fun hv => (h2 hv).imp (key l1 c2) (fun z => z)⟩

theorem InvC.setDead {orig K K' : Cnf} {m : Nat} {P P' : Nat → Lit → Prop} {s : Sat} (h : InvC orig m P s K)
    (hu : Uns orig) : InvC orig m P' { s with dead := true } K' :=
  ⟨h.wf.of_eq rfl rfl rfl rfl rfl rfl rfl rfl rfl rfl rfl,
    ⟨h.ent.clauses, h.ent.trail, h.ent.log, fun _ => hu, fun hd => by cases hd⟩, h.dec, fun hd => by cases hd⟩

theorem propagate_spec {orig : Cnf} {m : Nat} : ∀ (fuel : Nat) (s : Sat),
    InvC orig m (fun _ x => x ∈ s.queue) s → s.dead = false → ∀ b s', s.propagate fuel = some (b, s') →
      InvC orig m (fun _ x => x ∈ s'.queue) s' ∧ s'.queue = [] ∧ s'.dead = (!b) ∧ (b = false → s'.trailLim = []) ∧
        PropRel orig s s'
  | 0, s, _, _, b, s', he => by simp [propagate] at he
  | fuel + 1, s, h, hd, b, s', he => by
    unfold propagate at he
    cases hq : s.queue with
    | nil =>
      rw [hq] at he
      simp only [Option.some.injEq, Prod.mk.injEq] at he
      obtain ⟨rfl, rfl⟩ := he
      exact ⟨h, hq, by simp [hd], (fun e => by cases e), PropRel.refl orig _ hd⟩
    | cons p q =>
      rw [hq] at he
      simp only at he
      have hV := VInv.start h hq
      obtain ⟨hvn, hvc⟩ := visit_spec _ _ hV
      have hfr := visitWatchers_frame p (s.watches.getD p.idx [])
        { s with queue := q, watches := s.watches.set p.idx [] }
      rcases hvw : visitWatchers { s with queue := q, watches := s.watches.set p.idx [] } p
        (s.watches.getD p.idx []) with ⟨s2, _ | id⟩
      · -- all watchers visited
        rw [hvw] at he hfr
        simp only at he
        have h2 := hvn s2 hvw
        have hinv : InvC orig m (fun _ x => x ∈ s2.queue) s2 := by
          have := h2.inv
          rw [putBack_nil] at this
          exact ⟨this.wf, this.ent, this.dec, fun hd' => (this.w2 hd').mono (fun id x hP => by
            rcases hP with hP | ⟨_, hP⟩
            · exact hP
            · cases hP)⟩
        have hd2 : s2.dead = false := by rw [hfr.dead]; exact hd
        obtain ⟨r1, r2, r3, r4, r5⟩ := propagate_spec fuel s2 hinv hd2 b s' he
        refine ⟨r1, r2, r3, r4, PropRel.trans ⟨?_, ?_, ?_, hfr.lenVals, hfr.exprs⟩ r5⟩
        · rw [hfr.decisions]; exact List.suffix_refl _
        · rw [hfr.decisions, hfr.dead]
          intro hh; rcases hh with hh | hh
          · exact absurd hh (Nat.lt_irrefl _)
          · rw [hd] at hh; cases hh
        · rw [hfr.log]; exact List.prefix_refl _
      · -- conflict
        rw [hvw] at he hfr
        simp only at he
        have hC := hvc s2 id hvw
        have hd2 : s2.dead = false := by rw [hfr.dead]; exact hd
        have hUns : Uns (orig ++ units s.decisions) := by
          have := hC.uns; rw [hfr.decisions] at this; exact this
        by_cases hroot : s2.rootLevel = true
        · rw [if_pos hroot] at he
          simp only [Option.some.injEq, Prod.mk.injEq] at he
          obtain ⟨rfl, rfl⟩ := he
          have hlim : s2.trailLim = [] := by simpa [rootLevel] using hroot
          have hdec : s2.decisions = [] := by
            have := hC.inv.wf.a.decLen; rw [hlim] at this; simpa using this
          have hU : Uns orig := by
            have h3 : Uns (orig ++ units []) := by rw [← hdec]; exact hC.uns
            exact Uns.mono h3 (fun d hd' => by simpa [units] using hd')
          refine ⟨hC.inv.setDead hU, hC.queue, rfl, fun _ => hlim, ⟨?_, fun _ => hUns, ?_, hfr.lenVals, hfr.exprs⟩⟩
          · show s2.decisions <:+ s.decisions
            rw [hfr.decisions]; exact List.suffix_refl _
          · show s.log <+: s2.log
            rw [hfr.log]; exact List.prefix_refl _
        · rw [if_neg hroot] at he
          have hL : 0 < s2.decisionLevel := by
            simp only [rootLevel, List.isEmpty_iff] at hroot
            simp only [decisionLevel]
            exact List.length_pos_iff.2 hroot
          obtain ⟨c, hcm, hcf, hcl⟩ := hC.cnfl
          rw [clauseOf_of_mem hC.inv.wf.c hcm] at he
          cases han : s2.analyze c with
          | none => rw [han] at he; simp at he
          | some res =>
            obtain ⟨noGood, bt, s3⟩ := res
            rw [han] at he
            simp only at he
            obtain ⟨p', learnt, k, hlits, hpt, hpl, hent, hlearnt, hbt, hbt0, hbtx, hnd, hs3, hk⟩ :=
              analyze_spec orig s2 hC.inv.wf hC.inv.ent hL c (hC.inv.ent.clauses _ hcm) hcf hcl noGood bt s3 han
            subst hs3 hlits
            rw [popN_popTo s2 k bt hbt hk] at he
            obtain ⟨hT, hrel, hlev⟩ := hC.inv.popTo hC.queue (fun _ x hP => hP) bt hbt
            have htq : (s2.popTo bt).queue = [] := by rw [hrel.queue]; exact hC.queue
            have hpv : (s2.popTo bt).value p'.neg = none := by
              have := hrel.gone p' hpt (by rw [hlev, hpl]; exact hbt)
              rw [value_eq_none] at this ⊢; exact this
            have hplt : p'.neg.var < (s2.popTo bt).vals.length := by
              rw [hrel.lenVals]; exact hC.inv.wf.a.trail_lt (l := p') hpt
            have hrest : ∀ x ∈ learnt, x.neg ∈ (s2.popTo bt).trail := by
              intro x hx
              obtain ⟨h1, _, h3⟩ := hlearnt x hx
              exact hrel.kept _ h1 (by rw [hlev]; simpa using h3)
            have hlvl : ∀ x ∈ learnt, (s2.popTo bt).lvl x = s2.lvl x := by
              intro x hx
              have := (hrel.mem _ (hrest x hx)).2.1
              simpa using this
            obtain ⟨r1, r2, r3, r4, r5, r6, r7, r8⟩ := record_spec hT htq p'.neg learnt hpv hplt hrest
              (fun e => by rw [hlev]; exact hbt0 e)
              (fun e => by
                obtain ⟨x, hx, hxl⟩ := hbtx e
                exact ⟨x, hx, by rw [hlvl x hx, hlev]; exact hxl⟩)
              hent hnd
            have r1 := r1.keeps_weaken (K := orig) (fun d hd' => List.mem_append_left _ hd')
            have hd3 : ((s2.popTo bt).record (p'.neg :: learnt)).dead = false := by
              rw [r6, hrel.dead]; exact hd2
            obtain ⟨q1, q2, q3, q4, q5⟩ := propagate_spec fuel _ r1 hd3 b s' he
            refine ⟨q1, q2, q3, q4, PropRel.trans ⟨?_, fun _ => hUns, ?_, ?_, ?_⟩ q5⟩
            · rw [r3, hrel.decisions, hfr.decisions]; exact List.drop_suffix _ _
            · rw [r5, hrel.log, hfr.log]; exact List.prefix_append _ _
            · rw [r7, hrel.lenVals, hfr.lenVals]
            · rw [r8, hrel.exprs, hfr.exprs]

end Sat
end Oratio
