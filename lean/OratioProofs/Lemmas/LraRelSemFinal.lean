/-
Lemmas for property C11 (semantic version), part 4: the printing facts are discharged
(Lemmas/LraRelSemPrint.lean), the invariants are assembled, and the corollaries: negation, sharing, `newEq`.
-/
import OratioModel
import OratioProofs.Lemmas.LraRelSemPrint
import OratioProofs.Lemmas.LraRelSemInv
import OratioProofs.Lemmas.LraRelSemBounds
import OratioProofs.Lemmas.SatCoreCons
import OratioProofs.Lemmas.SatCoreQuiet
import OratioProofs.Lemmas.EncJunct
import OratioProofs.Lemmas.EncTop

namespace Oratio
namespace Lra
open Lin

theorem linInj : LinInj := fun _ _ ha hb h => Lin.toStr_inj ha hb h
theorem keyInj : KeyInj := fun _ _ _ _ _ _ hc hc' h => relKey_inj hc hc' h
theorem varName : VarName := Lin.toStr_var_one

/-! ## all invariants together -/

/-- everything the semantic theorems assume of a state: the invariant of the tableau (C09 bridge), the registry
    invariant (C11), the semantic invariant of the two string-keyed caches, canonical bounds -/
structure SemState (s : Sat) (t : Lra) : Prop where
  tab : TabWF t
  rel : RelInv s t
  sem : SemInv t
  bnd : BndWF t

theorem SemState.init : SemState Sat.init Lra.init := ⟨tabWF_init, RelInv.init, SemInv.init, BndWF.init⟩

theorem RelInv.newVar {s : Sat} {t : Lra} (ri : RelInv s t) : RelInv s t.newVar.2 := by
  have hlen : t.newVar.2.vals.length = t.vals.length + 1 := by
    show (t.vals ++ [_]).length = _
    rw [List.length_append]; rfl
  refine ⟨ri.nvars_pos, ri.sAsrts_nonconst, ri.vAsrts_lt, ?_, ?_, ?_⟩
  · rw [hlen]
    show (t.bounds ++ [_, _]).length = _
    rw [List.length_append, ri.bounds_len]; simp only [List.length_cons, List.length_nil]; omega
  · rw [hlen]
    show (t.aWatches ++ [[]]).length = _
    rw [List.length_append, ri.aWatches_len]; rfl
  · intro e he
    rw [hlen]
    rcases mem_emplaceKey (show e ∈ emplaceKey t.exprs _ _ from he) with he | he
    · have := ri.exprs_lt e he; omega
    · subst he; exact Nat.lt_succ_self _

theorem SemState.newVar {s : Sat} {t : Lra} (h : SemState s t) : SemState s t.newVar.2 :=
  ⟨tabWF_newVar h.tab, h.rel.newVar, h.sem.newVar linInj varName, h.bnd.newVar h.rel.bounds_len⟩

theorem SemState.newRel {s : Sat} {t : Lra} {r : LRel} {left right : Lin} {l : Lit} {s' : Sat} {t' : Lra}
    {b : Option Nat} (hs : SemState s t) (hl : left.WF) (hr : right.WF)
    (hlv : ∀ p ∈ left.vars, p.1 < t.vals.length) (hrv : ∀ p ∈ right.vars, p.1 < t.vals.length)
    (hnz : NoZero (relE t left right)) (h : newRel s t r left right = some (l, s', t', b)) : SemState s' t' :=
  ⟨tabWF_newRel hs.tab hl hr hlv hrv h, hs.rel.newRel h,
    hs.sem.newRel linInj keyInj varName hs.tab hs.rel hl hr hlv hrv h,
    hs.bnd.newRel hs.tab hs.rel hs.sem hl hr hlv hrv hnz h⟩

/-- writing a finite bound (what `assert_lower` / `assert_upper` do) keeps everything -/
theorem SemState.setBound {s : Sat} {t : Lra} (h : SemState s t) (i : Nat) {b : LBound} (hb : FinIR_s b.value) :
    SemState s (t.setBound i b) := by
  refine ⟨tabWF_congr (t := t) rfl rfl rfl h.tab, ?_, h.sem.of_sols rfl rfl rfl (fun σ hσ => hσ), ?_⟩
  · exact ⟨h.rel.nvars_pos, h.rel.sAsrts_nonconst, h.rel.vAsrts_lt,
      by show (t.bounds.set i b).length = _; rw [List.length_set]; exact h.rel.bounds_len,
      h.rel.aWatches_len, h.rel.exprs_lt⟩
  · intro x hx
    have hx' : x < t.vals.length := hx
    have hlo : LowOK b.value := ⟨hb.2, Or.inl hb.1⟩
    have hup : UpOK b.value := ⟨hb.2, Or.inl hb.1⟩
    constructor
    · show LowOK ((t.bounds.set i b).getD (lbIdx x) _).value
      rw [getD_set]
      split
      · exact hlo
      · exact (h.bnd x hx').1
    · show UpOK ((t.bounds.set i b).getD (ubIdx x) _).value
      rw [getD_set]
      split
      · exact hup
      · exact (h.bnd x hx').2

/-- the first three components need no hypothesis on zero coefficients -/
theorem newRel_keeps {s : Sat} {t : Lra} {r : LRel} {left right : Lin} {l : Lit} {s' : Sat} {t' : Lra}
    {b : Option Nat} (ht : TabWF t) (ri : RelInv s t) (si : SemInv t) (hl : left.WF) (hr : right.WF)
    (hlv : ∀ p ∈ left.vars, p.1 < t.vals.length) (hrv : ∀ p ∈ right.vars, p.1 < t.vals.length)
    (h : newRel s t r left right = some (l, s', t', b)) :
    TabWF t' ∧ RelInv s' t' ∧ SemInv t' ∧ t.vals.length ≤ t'.vals.length :=
  ⟨tabWF_newRel ht hl hr hlv hrv h, ri.newRel h, si.newRel linInj keyInj varName ht ri hl hr hlv hrv h, by
    cases newRel_outcome h with
    | decidedExpr h0 hs' ht' hb => subst ht'; exact Nat.le_refl _
    | decidedSlack slack h0 hv h1 hs' hb => exact newVarLin_vals_length hv
    | cached slack h0 hv h1 hf hs' hb => exact newVarLin_vals_length hv
    | fresh slack t1 h0 hv h1 hf hl' hs' ht' hb => subst ht'; exact newVarLin_vals_length (t1 := t1) hv⟩

/-- the semantic invariant survives `pivot`, `check` and everything else that keeps the caches and the solutions -/
theorem SemInv.check {t t' : Lra} (si : SemInv t) (ht : TabWF t) {fuel : Nat} {c : Option (List Lit)}
    (h : t.check fuel = some (c, t')) : SemInv t' := by
  obtain ⟨-, hsol⟩ := sameSol_check fuel t t' c ht h
  have hcore := (C09_core_iff t t').1 (C09_core_check fuel t t' c h)
  exact si.of_sols hcore.2.2.2.1 hcore.2.2.2.2 hcore.2.1 (fun σ hσ => (hsol σ).2 hσ)

/-! ## TARGET 3: the bound asserted for a FALSE literal is the negation -/

/-- what `propagateLit` asserts when the control literal of `a` is false: a lower bound `v + ε` for `x ≤ v`, an
    upper bound `v - ε` for `x ≥ v` -/
def NegSays (a : LAsrt) (σ : Nat → Rat) : Prop :=
  match a.o with
  | .leq => IRBelow (IR.add a.v ⟨R.zero, R.one⟩) (σ a.x)
  | .geq => IRAbove (IR.sub a.v ⟨R.zero, R.one⟩) (σ a.x)

theorem negSays_iff {a : LAsrt} (hv : SimpleC a.v) (σ : Nat → Rat) : NegSays a σ ↔ ¬ AsrtSays a σ := by
  unfold NegSays AsrtSays
  cases a.o
  · exact below_add_eps_iff hv _
  · exact above_sub_eps_iff hv _

/-- `propagate(p)` on a FALSE control literal asserts that bound -/
theorem propagate_false (s : Sat) (t : Lra) (p : Lit) (a : LAsrt) (ha : t.asrtOf p.var = some a)
    (hv : s.value a.b = some false) :
    propagateLit s t p = (if a.o = .leq then assertLower s t a.x (IR.add a.v ⟨R.zero, R.one⟩) p
      else assertUpper s t a.x (IR.sub a.v ⟨R.zero, R.one⟩) p) := by
  unfold propagateLit
  rw [ha]
  simp only [hv]

/-! ## reading a bound -/

theorem irAbove_reading {b : IR} (hb : R.FinWF b.rat) (y : Rat) :
    IRAbove b y ↔ (if b.inf.toRat < 0 then y < b.rat.toRat else y ≤ b.rat.toRat) := by
  rw [irAbove_fin hb]
  split
  · rename_i h
    constructor
    · rintro (h1 | ⟨-, h1⟩)
      · exact h1
      · exact absurd h (not_lt.2 h1)
    · exact fun h1 => Or.inl h1
  · rename_i h
    constructor
    · rintro (h1 | ⟨h1, -⟩)
      · exact le_of_lt h1
      · exact le_of_eq h1
    · intro h1
      rcases lt_or_eq_of_le h1 with h2 | h2
      · exact Or.inl h2
      · exact Or.inr ⟨h2, not_lt.1 h⟩

theorem irBelow_reading {b : IR} (hb : R.FinWF b.rat) (y : Rat) :
    IRBelow b y ↔ (if 0 < b.inf.toRat then b.rat.toRat < y else b.rat.toRat ≤ y) := by
  rw [irBelow_fin hb]
  split
  · rename_i h
    constructor
    · rintro (h1 | ⟨-, h1⟩)
      · exact h1
      · exact absurd h (not_lt.2 h1)
    · exact fun h1 => Or.inl h1
  · rename_i h
    constructor
    · rintro (h1 | ⟨h1, -⟩)
      · exact le_of_lt h1
      · exact le_of_eq h1
    · intro h1
      rcases lt_or_eq_of_le h1 with h2 | h2
      · exact Or.inl h2
      · exact Or.inr ⟨h2, not_lt.1 h⟩

/-! ## TARGET 5: sharing -/

/-- two requests answered by the same (non-constant) literal are equivalent in every solution of the tableau -/
theorem newRel_shared {s : Sat} {t : Lra} {r : LRel} {left right : Lin} {l : Lit} {s1 : Sat} {t1 : Lra}
    {b1 : Option Nat} {r' : LRel} {left' right' : Lin} {s2 : Sat} {t2 : Lra} {b2 : Option Nat}
    (ht : TabWF t) (ri : RelInv s t) (si : SemInv t) (hl : left.WF) (hr : right.WF)
    (hlv : ∀ p ∈ left.vars, p.1 < t.vals.length) (hrv : ∀ p ∈ right.vars, p.1 < t.vals.length)
    (h1 : newRel s t r left right = some (l, s1, t1, b1)) (hc : l ≠ Lit.trueLit ∧ l ≠ Lit.falseLit)
    (hl' : left'.WF) (hr' : right'.WF)
    (hlv' : ∀ p ∈ left'.vars, p.1 < t1.vals.length) (hrv' : ∀ p ∈ right'.vars, p.1 < t1.vals.length)
    (h2 : newRel s1 t1 r' left' right' = some (l, s2, t2, b2)) :
    ∀ σ, RowsS t2 σ → (RelHolds r (Lin.evalS left σ) (Lin.evalS right σ) ↔
      RelHolds r' (Lin.evalS left' σ) (Lin.evalS right' σ)) := by
  obtain ⟨a, ha, -, -, -, -, hm⟩ := newRel_meaning ht ri si hl hr hlv hrv h1 hc
  obtain ⟨ht1, ri1, si1, -⟩ := newRel_keeps ht ri si hl hr hlv hrv h1
  obtain ⟨a', ha', -, -, -, -, hm'⟩ := newRel_meaning ht1 ri1 si1 hl' hr' hlv' hrv' h2 hc
  have haa : a' = a := by
    have := newRel_asrtOf_stable h2 ha
    rw [ha'] at this
    exact Option.some.inj this
  subst haa
  intro σ hσ
  have hσ1 := (newRel_conservative ht1 si1 hl' hr' hlv' hrv' h2).1 σ hσ
  rw [hm σ hσ1, hm' σ hσ]

/-- the structural half: a later request with the same printed key (same print-out of the rewritten difference,
    same direction, same print-out of the constant) that is not decided by the bounds is answered by the same
    literal -/
theorem findKey_emplaceKey_of_some {β : Type} {m : List (String × β)} {k k' : String} {v w : β}
    (h : findKey m k' = some w) : findKey (emplaceKey m k v) k' = some w := by
  unfold emplaceKey
  split
  · exact h
  · unfold findKey at h ⊢
    rw [Option.map_eq_some_iff] at h
    obtain ⟨e, he, hw⟩ := h
    rw [List.find?_append, he]
    simp [hw]

theorem findKey_emplaceKey_same {β : Type} (m : List (String × β)) (k : String) (v : β) :
    ∃ w, findKey (emplaceKey m k v) k = some w ∧ (findKey m k = some w ∨ (findKey m k = none ∧ w = v)) := by
  cases h : findKey m k with
  | some w => exact ⟨w, findKey_emplaceKey_of_some h, Or.inl rfl⟩
  | none => exact ⟨v, findKey_emplaceKey_self h, Or.inr ⟨rfl, rfl⟩⟩

/-- after `newVarLin` the print-out of the expression names the variable returned -/
theorem newVarLin_names {s : Sat} {t : Lra} {l : Lin} {slack : Nat} {t1 : Lra}
    (h : newVarLin s t l = some (slack, t1)) : findKey t1.exprs (Lin.toStr l) = some slack := by
  unfold newVarLin at h
  split at h
  · cases h
  · simp only [] at h
    split at h
    · rename_i v hv
      cases h; exact hv
    · rename_i hn
      split at h
      · cases h
        exact findKey_emplaceKey_self hn
      · split at h
        · cases h
        · cases h
          rw [newRow_exprs]
          apply findKey_emplaceKey_of_some
          show findKey (emplaceKey (emplaceKey t.exprs _ _) (Lin.toStr l) t.vals.length) (Lin.toStr l) = _
          obtain ⟨w, hw, hw'⟩ := findKey_emplaceKey_same (emplaceKey t.exprs ("x" ++ toString t.vals.length) t.vals.length)
            (Lin.toStr l) t.vals.length
          rw [hw]
          rcases hw' with hw' | ⟨-, hw'⟩
          · obtain ⟨e, he, hk, hv⟩ := findKey_some_key hw'
            rcases mem_emplaceKey he with he | he
            · exfalso
              have := findKey_eq_none.1 hn e he
              rw [hk] at this
              simp at this
            · rw [← hv, he]; rfl
          · rw [hw']; rfl

/-- a name known to `exprs` is what `newVarLin` returns, the theory unchanged -/
theorem newVarLin_found {s : Sat} {t : Lra} {l : Lin} {v : Nat} (hf : findKey t.exprs (Lin.toStr l) = some v)
    {slack : Nat} {t1 : Lra} (h : newVarLin s t l = some (slack, t1)) : slack = v ∧ t1 = t := by
  unfold newVarLin at h
  split at h
  · cases h
  · simp only [] at h
    rw [hf] at h
    cases h
    exact ⟨rfl, rfl⟩

/-- the key under which a non-constant answer is registered -/
theorem newRel_registered {s : Sat} {t : Lra} {r : LRel} {left right : Lin} {l : Lit} {s' : Sat} {t' : Lra}
    {b : Option Nat} (h : newRel s t r left right = some (l, s', t', b)) (hc : l ≠ Lit.trueLit ∧ l ≠ Lit.falseLit) :
    ∃ slack, findKey t'.exprs (Lin.toStr (relE t left right)) = some slack ∧
      findKey t'.sAsrts (relKey (relUp r) slack (relC t r left right)) = some l := by
  cases newRel_outcome h with
  | decidedExpr h0 hs' ht hb =>
    rcases relSat_const h0 with h1 | h1
    · exact absurd h1 hc.1
    · exact absurd h1 hc.2
  | decidedSlack slack h0 hv h1 hs' hb =>
    rcases relSat_const h1 with h1 | h1
    · exact absurd h1 hc.1
    · exact absurd h1 hc.2
  | cached slack h0 hv h1 hf hs' hb => exact ⟨slack, newVarLin_names hv, hf⟩
  | fresh slack t1 h0 hv h1 hf hl hs' ht hb =>
    subst hl ht
    exact ⟨slack, newVarLin_names (t1 := t1) hv, findKey_emplaceKey_self hf⟩

/-- the structural half of TARGET 5: a later request whose rewritten difference prints the same, in the same
    direction, with a constant that prints the same, gets the same literal (unless the bounds decide it) -/
theorem newRel_same_key {s : Sat} {t : Lra} {r : LRel} {left right : Lin} {l : Lit} {s1 : Sat} {t1 : Lra}
    {b1 : Option Nat} {r' : LRel} {left' right' : Lin} {l' : Lit} {s2 : Sat} {t2 : Lra} {b2 : Option Nat}
    (h1 : newRel s t r left right = some (l, s1, t1, b1)) (hc : l ≠ Lit.trueLit ∧ l ≠ Lit.falseLit)
    (h2 : newRel s1 t1 r' left' right' = some (l', s2, t2, b2)) (hc' : l' ≠ Lit.trueLit ∧ l' ≠ Lit.falseLit)
    (hkey : Lin.toStr (relE t left right) = Lin.toStr (relE t1 left' right')) (hup : relUp r = relUp r')
    (hcst : irToStr (relC t r left right) = irToStr (relC t1 r' left' right')) : l' = l := by
  obtain ⟨slack, hn, hreg⟩ := newRel_registered h1 hc
  rw [hkey] at hn
  have hk : ∀ x, relKey (relUp r') x (relC t1 r' left' right') = relKey (relUp r) x (relC t r left right) := by
    intro x; unfold relKey; rw [hup, hcst]
  cases newRel_outcome h2 with
  | decidedExpr h0 hs' ht hb =>
    rcases relSat_const h0 with h | h
    · exact absurd h hc'.1
    · exact absurd h hc'.2
  | decidedSlack slack' h0 hv h1' hs' hb =>
    rcases relSat_const h1' with h | h
    · exact absurd h hc'.1
    · exact absurd h hc'.2
  | cached slack' h0 hv h1' hf hs' hb =>
    obtain ⟨rfl, rfl⟩ := newVarLin_found hn hv
    rw [hk, hreg] at hf
    exact (Option.some.inj hf).symm
  | fresh slack' u h0 hv h1' hf hl hs' ht hb =>
    obtain ⟨rfl, rfl⟩ := newVarLin_found hn hv
    rw [hk, hreg] at hf
    cases hf

/-! ## TARGET 4: `newEq` -/

theorem newRel_sat {s : Sat} {t : Lra} {r : LRel} {left right : Lin} {l : Lit} {s' : Sat} {t' : Lra}
    {b : Option Nat} (h : newRel s t r left right = some (l, s', t', b)) : s' = s ∨ s' = s.newVar.2 := by
  cases newRel_outcome h with
  | decidedExpr h0 hs' ht' hb => exact Or.inl hs'
  | decidedSlack slack h0 hv h1 hs' hb => exact Or.inl hs'
  | cached slack h0 hv h1 hf hs' hb => exact Or.inl hs'
  | fresh slack t1 h0 hv h1 hf hl' hs' ht' hb => exact Or.inr hs'

theorem toEnc_newVar_inv {s : Sat} (h : EncL.Inv s.toEnc) : EncL.Inv s.newVar.2.toEnc := by
  have h1 := Sat.primSim.newVar s
  rw [Sat.prim_newVar] at h1
  have h2 : s.newVar.2.toEnc = (Enc.prim.newVar s.toEnc).2 := congrArg Prod.snd h1
  rw [h2]
  exact (EncL.newVar_spec h).1

theorem newRel_toEnc_inv {s : Sat} {t : Lra} {r : LRel} {left right : Lin} {l : Lit} {s' : Sat} {t' : Lra}
    {b : Option Nat} (h : newRel s t r left right = some (l, s', t', b)) (hE : EncL.Inv s.toEnc) :
    EncL.Inv s'.toEnc := by
  rcases newRel_sat h with h | h <;> rw [h]
  · exact hE
  · exact toEnc_newVar_inv hE

theorem newRel_toEnc_extends {s : Sat} {t : Lra} {r : LRel} {left right : Lin} {l : Lit} {s' : Sat} {t' : Lra}
    {b : Option Nat} (h : newRel s t r left right = some (l, s', t', b)) (hE : EncL.Inv s.toEnc) :
    EncL.Extends s.toEnc s'.toEnc ∧ s.toEnc.nvars ≤ s'.toEnc.nvars := by
  rcases newRel_sat h with h | h <;> rw [h]
  · exact ⟨EncL.Extends.refl _, Nat.le_refl _⟩
  · have h1 := Sat.primSim.newVar s
    rw [Sat.prim_newVar] at h1
    have h2 : s.newVar.2.toEnc = (Enc.prim.newVar s.toEnc).2 := congrArg Prod.snd h1
    rw [h2]
    exact ⟨(EncL.newVar_spec hE).2.1, (EncL.newVar_spec hE).2.2.1⟩

/-- the literal `newRel` returns is over an existing SAT variable -/
theorem newRel_lit_lt {s : Sat} {t : Lra} {r : LRel} {left right : Lin} {l : Lit} {s' : Sat} {t' : Lra}
    {b : Option Nat} (ht : TabWF t) (ri : RelInv s t) (si : SemInv t) (hl : left.WF) (hr : right.WF)
    (hlv : ∀ p ∈ left.vars, p.1 < t.vals.length) (hrv : ∀ p ∈ right.vars, p.1 < t.vals.length)
    (h : newRel s t r left right = some (l, s', t', b)) : l.var < s'.nvars := by
  have ri' := ri.newRel h
  by_cases hc : l ≠ Lit.trueLit ∧ l ≠ Lit.falseLit
  · obtain ⟨a, ha, -⟩ := newRel_meaning ht ri si hl hr hlv hrv h hc
    unfold asrtOf at ha
    rw [Option.map_eq_some_iff] at ha
    obtain ⟨e, he, -⟩ := ha
    have hk := List.find?_some he
    have hm := List.mem_of_find?_eq_some he
    have := ri'.vAsrts_lt e hm
    have hk' : e.1 = l.var := by simpa using hk
    omega
  · have : l = Lit.trueLit ∨ l = Lit.falseLit := by
      by_cases h1 : l = Lit.trueLit
      · exact Or.inl h1
      · by_cases h2 : l = Lit.falseLit
        · exact Or.inr h2
        · exact absurd ⟨h1, h2⟩ hc
    rcases this with h1 | h1 <;> rw [h1] <;> exact ri'.nvars_pos

theorem newEq_struct {s : Sat} {t : Lra} {left right : Lin} {l : Lit} {s' : Sat} {t' : Lra} {bs : List Nat}
    (h : newEq s t left right = some (l, s', t', bs)) :
    ∃ l1 s1 t1 b1 l2 s2 b2, newRel s t .geq left right = some (l1, s1, t1, b1) ∧
      newRel s1 t1 .leq left right = some (l2, s2, t', b2) ∧ (l, s') = s2.newConj [l1, l2] := by
  unfold Lra.newEq at h
  split at h
  · cases h
  · rename_i l1 s1 t1 b1 h1
    split at h
    · cases h
    · rename_i l2 s2 t2 b2 h2
      cases h
      exact ⟨l1, s1, t1, b1, l2, s2, b2, h1, h2, rfl⟩

/-- `newEq`: the literal returned is, in every model of the clauses of the SAT core, the conjunction of the two
    literals returned for `≥` and `≤` -/
theorem newEq_conj {s : Sat} {t : Lra} {left right : Lin} {l : Lit} {s' : Sat} {t' : Lra} {bs : List Nat}
    (ht : TabWF t) (ri : RelInv s t) (si : SemInv t) (hE : EncL.Inv s.toEnc) (hl : left.WF) (hr : right.WF)
    (hlv : ∀ p ∈ left.vars, p.1 < t.vals.length) (hrv : ∀ p ∈ right.vars, p.1 < t.vals.length)
    (h : newEq s t left right = some (l, s', t', bs)) :
    ∃ l1 s1 t1 b1 l2 s2 b2, newRel s t .geq left right = some (l1, s1, t1, b1) ∧
      newRel s1 t1 .leq left right = some (l2, s2, t', b2) ∧ (l, s') = s2.newConj [l1, l2] ∧
      (∀ σ, RowsS t' σ → RowsS t1 σ) ∧
      (∀ α, EncL.Sat α s'.toEnc → α.lit l = (α.lit l1 && α.lit l2)) ∧
      EncL.Extends s.toEnc s'.toEnc := by
  obtain ⟨l1, s1, t1, b1, l2, s2, b2, h1, h2, hpair⟩ := newEq_struct h
  obtain ⟨ht1, ri1, si1, hle⟩ := newRel_keeps ht ri si hl hr hlv hrv h1
  have hlv1 : ∀ p ∈ left.vars, p.1 < t1.vals.length := fun p hp => Nat.lt_of_lt_of_le (hlv p hp) hle
  have hrv1 : ∀ p ∈ right.vars, p.1 < t1.vals.length := fun p hp => Nat.lt_of_lt_of_le (hrv p hp) hle
  refine ⟨l1, s1, t1, b1, l2, s2, b2, h1, h2, hpair,
    (newRel_conservative ht1 si1 hl hr hlv1 hrv1 h2).1, ?_⟩
  have hE2 : EncL.Inv s2.toEnc := newRel_toEnc_inv h2 (newRel_toEnc_inv h1 hE)
  have hlt1 : l1.var < s2.nvars := by
    have a1 := newRel_lit_lt ht ri si hl hr hlv hrv h1
    have a2 := (newRel_vAsrts_lt h2 ri1.vAsrts_lt).1
    omega
  have hlt2 : l2.var < s2.nvars := newRel_lit_lt ht1 ri1 si1 hl hr hlv1 hrv1 h2
  have hr2 : EncL.InRange s2.toEnc [l1, l2] := by
    intro x hx
    simp only [List.mem_cons, List.not_mem_nil, or_false] at hx
    rcases hx with rfl | rfl
    · exact hlt1
    · exact hlt2
  have hconj : pm Sat.toEnc (s2.newConj [l1, l2]) = s2.toEnc.newConj [l1, l2] := by
    have := Sat.primSim.newConj s2 [l1, l2]
    rw [Cons_enc_newConj] at this
    exact this
  obtain ⟨-, -, c3, c4, c5, -⟩ := EncL.conj_spec hE2 hr2
  have e0 : l = (s2.newConj [l1, l2]).1 := congrArg Prod.fst hpair
  have e0' : s' = (s2.newConj [l1, l2]).2 := congrArg Prod.snd hpair
  have e1 : (s2.newConj [l1, l2]).1 = (s2.toEnc.newConj [l1, l2]).1 := congrArg Prod.fst hconj
  have e2 : (s2.newConj [l1, l2]).2.toEnc = (s2.toEnc.newConj [l1, l2]).2 := congrArg Prod.snd hconj
  constructor
  · intro α hα
    rw [e0'] at hα
    rw [e2] at hα
    have := c3 α hα
    rw [e0, e1, this]
    simp
  · obtain ⟨x1, n1⟩ := newRel_toEnc_extends h1 hE
    obtain ⟨x2, n2⟩ := newRel_toEnc_extends h2 (newRel_toEnc_inv h1 hE)
    rw [e0', e2]
    exact EncL.Extends.trans (Nat.le_trans n1 n2) (EncL.Extends.trans n1 x1 x2) c4

end Lra
end Oratio
