/-
C07N, target 4: the theory constructors of the difference logics (`new_var`, `new_distance`) and `new_var`
of LRA keep the network invariant at root level; the T-models of the extended network restrict to
T-models of the old one.
-/
import OratioProofs.Lemmas.NetInvE

set_option linter.unusedSimpArgs false
set_option linter.unusedVariables false

namespace Oratio
namespace Net
open Sat

/-! ### generic facts about the constructors -/

section generic
variable {α : Type} (O : DOps α)

theorem dlNewVar_same (t : Dl α) : (Dl.newVar O t).2.nVars = t.nVars + 1 ∧ (Dl.newVar O t).2.varDists = t.varDists ∧
    (Dl.newVar O t).2.distConstr = t.distConstr ∧ (Dl.newVar O t).2.layers = t.layers := by
  unfold Dl.newVar
  simp only
  split <;> exact ⟨rfl, rfl, rfl, rfl⟩

theorem newDistance_cases (s : Sat) (t : Dl α) (f g : Nat) (w : α) :
    ((Dl.newDistance O s t f g w).2.1 = s ∧ (Dl.newDistance O s t f g w).2.2 = t) ∨
    ((Dl.newDistance O s t f g w).2.1 = s.newVar.2 ∧
      (Dl.newDistance O s t f g w).2.2.varDists = t.varDists ++ [⟨s.vals.length, f, g, w⟩] ∧
      (Dl.newDistance O s t f g w).2.2.distConstr = t.distConstr ∧ (Dl.newDistance O s t f g w).2.2.nVars = t.nVars) := by
  unfold Dl.newDistance
  split
  · exact Or.inl ⟨rfl, rfl⟩
  · split
    · exact Or.inl ⟨rfl, rfl⟩
    · exact Or.inr ⟨rfl, rfl, rfl, rfl⟩

end generic

/-- the invariant at root level, from its parts -/
theorem NetInv.ofRoot {n : Net} {orig L : Cnf} (hs : SInv (orig ++ L) orig n.sat) (hl : ∀ c ∈ L, TEntails n orig c)
    (hb : ThBase (orig ++ L) n.sat n.lra n.idl n.rdl) (hr : NetReg n) (hroot : n.sat.trailLim = []) : NetInv n orig L [] :=
  ⟨hs, hl, hb, trivial, by simp [decisionLevel, hroot], hr⟩

theorem NetInv.root_frames {n : Net} {orig L : Cnf} {fr : List Frame} (h : NetInv n orig L fr) (hroot : n.sat.trailLim = []) :
    fr = [] := by
  have := h.flen
  simp only [decisionLevel, hroot, List.length_nil] at this
  exact List.eq_nil_of_length_eq_zero this

/-- a T-model of a network with more difference constraints (same LRA) is a T-model of the smaller one -/
theorem TModel.of_more {n n' : Net} (hl : LraSame n.lra n'.lra) (hi : ∀ c ∈ n.idl.varDists, c ∈ n'.idl.varDists)
    (hr : ∀ c ∈ n.rdl.varDists, c ∈ n'.rdl.varDists) {α : Asg} (h : TModel n' α) : TModel n α := by
  obtain ⟨σr, σi, σz, σq, a, b, c, d⟩ := h
  exact ⟨σr, σi, σz, σq, (hl.1 σr σi).2 a, (asrtAgrees_congr hl.2.1 α σr σi).1 b, fun x hx => c x (hi x hx),
    fun x hx => d x (hr x hx)⟩

/-! ### IDL -/

theorem NetInv.at_idlNewVar {n : Net} {orig L : Cnf} {fr : List Frame} (h : NetInv n orig L fr) (hroot : n.sat.trailLim = [])
    (hg : ∃ K E, n.idl.Exact K E ∧ Dl.ConstrsOk K n.idl ∧ 4 * ((n.idl.nVars : Int) + 2) * K < idlInf) :
    NetInv (idlNewVar n).2 orig L [] ∧ ∀ α, TModel (idlNewVar n).2 α ↔ TModel n α := by
  obtain ⟨K, E, hE, hok, hK⟩ := hg
  have hfr := h.root_frames hroot
  subst hfr
  have hb : ThBase (orig ++ L) n.sat n.lra n.idl n.rdl := h.th
  obtain ⟨e1, e2, e3, e4⟩ := dlNewVar_same idlOps n.idl
  have hcongr : ∀ α, TModel (idlNewVar n).2 α ↔ TModel n α := fun α =>
    TModel.congr (n := n) (n' := (idlNewVar n).2) (LraSame.refl _) e2 rfl α
  refine ⟨NetInv.ofRoot (n := (idlNewVar n).2) h.sat
    (fun c hc => TEntails.congr (fun α hm => (hcongr α).1 hm) (h.lemmas c hc)) ?_ ?_ hroot, hcongr⟩
  · refine ⟨hb.lra, ⟨⟨K, E, (C10_newVar_exact K E n.idl hE hK).1, ?_⟩, C10X_newVar_pathinv K E _ _ hE hb.idl.path, ?_⟩, hb.rdl⟩
    · intro c hc
      have hc' : c ∈ n.idl.varDists := by rw [← e2]; exact hc
      obtain ⟨o1, o2, o3, o4⟩ := hok c hc'
      show c.src < (Dl.newVar idlOps n.idl).2.nVars ∧ c.dst < (Dl.newVar idlOps n.idl).2.nVars ∧ _
      rw [e1]
      exact ⟨by omega, by omega, o3, o4⟩
    · show Undo.SortedK (Dl.newVar idlOps n.idl).2.distConstr
      rw [e3]; exact hb.idl.sorted
  · exact ⟨h.reg.lra, by show ∀ c ∈ (Dl.newVar idlOps n.idl).2.varDists, _; rw [e2]; exact h.reg.idl, h.reg.rdl, h.reg.good, h.reg.aw, h.reg.sa⟩

theorem NetInv.at_idlNewDistance {n : Net} {orig L : Cnf} {fr : List Frame} (h : NetInv n orig L fr)
    (hroot : n.sat.trailLim = []) (f g : Nat) (w : Int)
    (hg : ∃ K E, n.idl.Exact K E ∧ Dl.ConstrsOk K n.idl ∧ f < n.idl.nVars ∧ g < n.idl.nVars ∧ f ≠ g ∧ -K ≤ w ∧ w + 1 ≤ K) :
    NetInv (idlNewDistance n f g w).2 orig L [] ∧ ∀ α, TModel (idlNewDistance n f g w).2 α → TModel n α := by
  obtain ⟨K, E, hE, hok, hf, hgg, hfg, hw1, hw2⟩ := hg
  have hfr := h.root_frames hroot
  subst hfr
  have hb : ThBase (orig ++ L) n.sat n.lra n.idl n.rdl := h.th
  have hpi := C10X_newDistance_pathinv K E n.sat n.idl hE hb.idl.path f g w
  -- the resulting network
  have hsat : (idlNewDistance n f g w).2.sat = (Dl.newDistance idlOps n.sat n.idl f g w).2.1 := rfl
  have hidl : (idlNewDistance n f g w).2.idl = (Dl.newDistance idlOps n.sat n.idl f g w).2.2 := rfl
  have hlra : (idlNewDistance n f g w).2.lra = n.lra := rfl
  have hrdl : (idlNewDistance n f g w).2.rdl = n.rdl := rfl
  have hcases := newDistance_cases idlOps n.sat n.idl f g w
  have hvd : ∀ c ∈ n.idl.varDists, c ∈ (Dl.newDistance idlOps n.sat n.idl f g w).2.2.varDists := by
    intro c hc
    rcases hcases with ⟨_, e⟩ | ⟨_, e, _⟩
    · rw [e]; exact hc
    · rw [e]; exact List.mem_append_left _ hc
  have hmono : ∀ α, TModel (idlNewDistance n f g w).2 α → TModel n α := fun α hm =>
    TModel.of_more (n := n) (n' := (idlNewDistance n f g w).2) (LraSame.refl _) hvd (fun c hc => hc) hm
  have hkeep : AssignedKeep n.sat (Dl.newDistance idlOps n.sat n.idl f g w).2.1 := by
    rcases hcases with ⟨e, _⟩ | ⟨e, _⟩
    · rw [e]; exact AssignedKeep.refl _
    · rw [e]; exact newVar_keep _
  have hsinv : SInv (orig ++ L) orig (Dl.newDistance idlOps n.sat n.idl f g w).2.1 := by
    rcases hcases with ⟨e, _⟩ | ⟨e, _⟩
    · rw [e]; exact h.sat
    · rw [e]; exact h.sat.newVar
  have hlen : n.sat.vals.length ≤ (Dl.newDistance idlOps n.sat n.idl f g w).2.1.vals.length := by
    rcases hcases with ⟨e, _⟩ | ⟨e, _⟩
    · rw [e]
    · rw [e]; show n.sat.vals.length ≤ (n.sat.vals ++ [none]).length; simp
  have hroot' : (Dl.newDistance idlOps n.sat n.idl f g w).2.1.trailLim = [] := by
    rcases hcases with ⟨e, _⟩ | ⟨e, _⟩
    · rw [e]; exact hroot
    · rw [e]; exact hroot
  refine ⟨NetInv.ofRoot (n := (idlNewDistance n f g w).2) hsinv
    (fun c hc => TEntails.congr hmono (h.lemmas c hc)) ?_ ?_ hroot', hmono⟩
  · refine ⟨hb.lra.mono hkeep.le, ⟨⟨K, E, hpi.2, ?_⟩, hpi.1, ?_⟩, hb.rdl.mono hkeep.le⟩
    · intro c hc
      have hn : (Dl.newDistance idlOps n.sat n.idl f g w).2.2.nVars = n.idl.nVars := (Dl.newDistance_same _ _ _ _ _).1
      show c.src < (Dl.newDistance idlOps n.sat n.idl f g w).2.2.nVars ∧ c.dst < (Dl.newDistance idlOps n.sat n.idl f g w).2.2.nVars ∧ _
      rw [hn]
      rcases hcases with ⟨_, e⟩ | ⟨_, e, _⟩
      · have hc' : c ∈ n.idl.varDists := by
          have : c ∈ (Dl.newDistance idlOps n.sat n.idl f g w).2.2.varDists := hc
          rw [e] at this; exact this
        exact hok c hc'
      · have hc' : c ∈ n.idl.varDists ++ [⟨n.sat.vals.length, f, g, w⟩] := by
          have : c ∈ (Dl.newDistance idlOps n.sat n.idl f g w).2.2.varDists := hc
          rw [e] at this; exact this
        rcases List.mem_append.1 hc' with hc' | hc'
        · exact hok c hc'
        · rw [List.mem_singleton.1 hc']; exact ⟨hf, hgg, hfg, hw1, hw2⟩
    · show Undo.SortedK (Dl.newDistance idlOps n.sat n.idl f g w).2.2.distConstr
      rcases hcases with ⟨_, e⟩ | ⟨_, _, e, _⟩
      · rw [e]; exact hb.idl.sorted
      · rw [e]; exact hb.idl.sorted
  · refine ⟨fun e he => Nat.lt_of_lt_of_le (h.reg.lra e he) hlen, ?_, fun c hc => Nat.lt_of_lt_of_le (h.reg.rdl c hc) hlen,
      h.reg.good, fun x b hb => Nat.lt_of_lt_of_le (h.reg.aw x b hb) hlen,
      fun e he => Nat.lt_of_lt_of_le (h.reg.sa e he) hlen⟩
    intro c hc
    show c.b < (Dl.newDistance idlOps n.sat n.idl f g w).2.1.vals.length
    rcases hcases with ⟨e1, e⟩ | ⟨e1, e, _⟩
    · have hc' : c ∈ n.idl.varDists := by
        have : c ∈ (Dl.newDistance idlOps n.sat n.idl f g w).2.2.varDists := hc
        rw [e] at this; exact this
      rw [e1]; exact h.reg.idl c hc'
    · have hc' : c ∈ n.idl.varDists ++ [⟨n.sat.vals.length, f, g, w⟩] := by
        have : c ∈ (Dl.newDistance idlOps n.sat n.idl f g w).2.2.varDists := hc
        rw [e] at this; exact this
      rw [e1]
      show c.b < (n.sat.vals ++ [none]).length
      rw [List.length_append]
      rcases List.mem_append.1 hc' with hc' | hc'
      · have := h.reg.idl c hc'; simp; omega
      · rw [List.mem_singleton.1 hc']; simp

/-! ### RDL -/

theorem NetInv.at_rdlNewVar {n : Net} {orig L : Cnf} {fr : List Frame} (h : NetInv n orig L fr) (hroot : n.sat.trailLim = []) :
    NetInv (rdlNewVar n).2 orig L [] ∧ ∀ α, TModel (rdlNewVar n).2 α ↔ TModel n α := by
  have hfr := h.root_frames hroot
  subst hfr
  have hb : ThBase (orig ++ L) n.sat n.lra n.idl n.rdl := h.th
  obtain ⟨E, hE⟩ := hb.rdl.exact
  obtain ⟨e1, e2, e3, e4⟩ := dlNewVar_same rdlOps n.rdl
  have hcongr : ∀ α, TModel (rdlNewVar n).2 α ↔ TModel n α := fun α =>
    TModel.congr (n := n) (n' := (rdlNewVar n).2) (LraSame.refl _) rfl e2 α
  refine ⟨NetInv.ofRoot (n := (rdlNewVar n).2) h.sat
    (fun c hc => TEntails.congr (fun α hm => (hcongr α).1 hm) (h.lemmas c hc)) ?_ ?_ hroot, hcongr⟩
  · refine ⟨hb.lra, hb.idl, ⟨⟨E, (C10R_newVar_exact E n.rdl hE).1⟩, ?_, C10XR_newVar_pathinv E _ _ hE hb.rdl.path, ?_,
      C10R_epsInt_newVar _ hb.rdl.eps, ?_⟩⟩
    · intro c hc
      have hc' : c ∈ n.rdl.varDists := by rw [← e2]; exact hc
      obtain ⟨o1, o2, o3, o4⟩ := hb.rdl.ok c hc'
      show c.src < (Dl.newVar rdlOps n.rdl).2.nVars ∧ c.dst < (Dl.newVar rdlOps n.rdl).2.nVars ∧ _
      rw [e1]
      exact ⟨by omega, by omega, o3, o4⟩
    · show Undo.SortedK (Dl.newVar rdlOps n.rdl).2.distConstr
      rw [e3]; exact hb.rdl.sorted
    · intro c hc
      have hc' : c ∈ n.rdl.varDists := by rw [← e2]; exact hc
      exact hb.rdl.epsC c hc'
  · exact ⟨h.reg.lra, h.reg.idl, by show ∀ c ∈ (Dl.newVar rdlOps n.rdl).2.varDists, _; rw [e2]; exact h.reg.rdl, h.reg.good, h.reg.aw, h.reg.sa⟩

theorem NetInv.at_rdlNewDistance {n : Net} {orig L : Cnf} {fr : List Frame} (h : NetInv n orig L fr)
    (hroot : n.sat.trailLim = []) (f g : Nat) (w : IR)
    (hg : f < n.rdl.nVars ∧ g < n.rdl.nVars ∧ f ≠ g ∧ IR.Fin w ∧ w.inf.den = 1) :
    NetInv (rdlNewDistance n f g w).2 orig L [] ∧ ∀ α, TModel (rdlNewDistance n f g w).2 α → TModel n α := by
  obtain ⟨hf, hgg, hfg, hw1, hw2⟩ := hg
  have hfr := h.root_frames hroot
  subst hfr
  have hb : ThBase (orig ++ L) n.sat n.lra n.idl n.rdl := h.th
  obtain ⟨E, hE⟩ := hb.rdl.exact
  have hpi := C10XR_newDistance_pathinv E n.sat n.rdl hE hb.rdl.path f g w
  have hcases := newDistance_cases rdlOps n.sat n.rdl f g w
  have hsame := DlR.newDistance_sameR n.sat n.rdl f g w
  have hvd : ∀ c ∈ n.rdl.varDists, c ∈ (Dl.newDistance rdlOps n.sat n.rdl f g w).2.2.varDists := by
    intro c hc
    rcases hcases with ⟨_, e⟩ | ⟨_, e, _⟩
    · rw [e]; exact hc
    · rw [e]; exact List.mem_append_left _ hc
  have hmono : ∀ α, TModel (rdlNewDistance n f g w).2 α → TModel n α := fun α hm =>
    TModel.of_more (n := n) (n' := (rdlNewDistance n f g w).2) (LraSame.refl _) (fun c hc => hc) hvd hm
  have hkeep : AssignedKeep n.sat (Dl.newDistance rdlOps n.sat n.rdl f g w).2.1 := by
    rcases hcases with ⟨e, _⟩ | ⟨e, _⟩
    · rw [e]; exact AssignedKeep.refl _
    · rw [e]; exact newVar_keep _
  have hsinv : SInv (orig ++ L) orig (Dl.newDistance rdlOps n.sat n.rdl f g w).2.1 := by
    rcases hcases with ⟨e, _⟩ | ⟨e, _⟩
    · rw [e]; exact h.sat
    · rw [e]; exact h.sat.newVar
  have hlen : n.sat.vals.length ≤ (Dl.newDistance rdlOps n.sat n.rdl f g w).2.1.vals.length := by
    rcases hcases with ⟨e, _⟩ | ⟨e, _⟩
    · rw [e]
    · rw [e]; show n.sat.vals.length ≤ (n.sat.vals ++ [none]).length; simp
  have hroot' : (Dl.newDistance rdlOps n.sat n.rdl f g w).2.1.trailLim = [] := by
    rcases hcases with ⟨e, _⟩ | ⟨e, _⟩
    · rw [e]; exact hroot
    · rw [e]; exact hroot
  have hmem : ∀ c ∈ (Dl.newDistance rdlOps n.sat n.rdl f g w).2.2.varDists,
      c ∈ n.rdl.varDists ∨ (c = ⟨n.sat.vals.length, f, g, w⟩ ∧
        (Dl.newDistance rdlOps n.sat n.rdl f g w).2.1 = n.sat.newVar.2) := by
    intro c hc
    rcases hcases with ⟨_, e⟩ | ⟨e1, e, _⟩
    · rw [e] at hc; exact Or.inl hc
    · rw [e] at hc
      rcases List.mem_append.1 hc with hc | hc
      · exact Or.inl hc
      · exact Or.inr ⟨List.mem_singleton.1 hc, e1⟩
  refine ⟨NetInv.ofRoot (n := (rdlNewDistance n f g w).2) hsinv
    (fun c hc => TEntails.congr hmono (h.lemmas c hc)) ?_ ?_ hroot', hmono⟩
  · refine ⟨hb.lra.mono hkeep.le, hb.idl.mono hkeep.le, ⟨⟨E, hpi.2⟩, ?_, hpi.1, ?_, ?_, ?_⟩⟩
    · intro c hc
      show c.src < (Dl.newDistance rdlOps n.sat n.rdl f g w).2.2.nVars ∧ c.dst < (Dl.newDistance rdlOps n.sat n.rdl f g w).2.2.nVars ∧ _
      rw [hsame.1]
      rcases hmem c hc with hc' | ⟨rfl, _⟩
      · exact hb.rdl.ok c hc'
      · exact ⟨hf, hgg, hfg, hw1⟩
    · show Undo.SortedK (Dl.newDistance rdlOps n.sat n.rdl f g w).2.2.distConstr
      rcases hcases with ⟨_, e⟩ | ⟨_, _, e, _⟩
      · rw [e]; exact hb.rdl.sorted
      · rw [e]; exact hb.rdl.sorted
    · intro a b
      show (Dl.d rdlOps (Dl.newDistance rdlOps n.sat n.rdl f g w).2.2 a b).inf.den = 1
      have : Dl.d rdlOps (Dl.newDistance rdlOps n.sat n.rdl f g w).2.2 a b = Dl.d rdlOps n.rdl a b := by
        unfold Dl.d; rw [hsame.2.1]
      rw [this]; exact hb.rdl.eps a b
    · intro c hc
      rcases hmem c hc with hc' | ⟨rfl, _⟩
      · exact hb.rdl.epsC c hc'
      · exact hw2
  · refine ⟨fun e he => Nat.lt_of_lt_of_le (h.reg.lra e he) hlen, fun c hc => Nat.lt_of_lt_of_le (h.reg.idl c hc) hlen, ?_,
      h.reg.good, fun x b hb => Nat.lt_of_lt_of_le (h.reg.aw x b hb) hlen,
      fun e he => Nat.lt_of_lt_of_le (h.reg.sa e he) hlen⟩
    intro c hc
    show c.b < (Dl.newDistance rdlOps n.sat n.rdl f g w).2.1.vals.length
    rcases hmem c hc with hc' | ⟨rfl, e1⟩
    · exact Nat.lt_of_lt_of_le (h.reg.rdl c hc') hlen
    · rw [e1]; show n.sat.vals.length < (n.sat.vals ++ [none]).length; simp

/-! ### LRA: new_var -/

theorem lra_newVar_bnd (t : Lra) (i : Nat) : t.newVar.2.bnd i =
    if i < t.bounds.length then t.bnd i
    else if i = t.bounds.length then ⟨IR.ofR R.ninf, Lit.trueLit⟩
    else if i = t.bounds.length + 1 then ⟨IR.ofR R.pinf, Lit.trueLit⟩
    else ⟨IR.ofR R.zero, Lit.trueLit⟩ := by
  show (t.bounds ++ [_, _]).getD i _ = _
  rw [List.getD_eq_getElem?_getD]
  by_cases h1 : i < t.bounds.length
  · rw [List.getElem?_append_left h1, if_pos h1]
    unfold Lra.bnd; rw [List.getD_eq_getElem?_getD]
  · rw [List.getElem?_append_right (by omega), if_neg h1]
    by_cases h2 : i = t.bounds.length
    · rw [if_pos h2, h2]; simp
    · rw [if_neg h2]
      by_cases h3 : i = t.bounds.length + 1
      · rw [if_pos h3, h3]; simp
      · rw [if_neg h3]
        have : i - t.bounds.length ≥ 2 := by omega
        rw [List.getElem?_eq_none (by simp; omega)]
        rfl

theorem NetInv.at_lraNewVar {n : Net} {orig L : Cnf} {fr : List Frame} (h : NetInv n orig L fr) (hroot : n.sat.trailLim = []) :
    NetInv (lraNewVar n).2 orig L [] ∧ ∀ α, TModel (lraNewVar n).2 α ↔ TModel n α := by
  have hfr := h.root_frames hroot
  subst hfr
  have hb : ThBase (orig ++ L) n.sat n.lra n.idl n.rdl := h.th
  have hcongr : ∀ α, TModel (lraNewVar n).2 α ↔ TModel n α := fun α => Iff.rfl
  have hbl := hb.lra.inv.blen
  unfold Lra.BoundsLen at hbl
  have htrue : n.sat.value Lit.trueLit = some true := h.sat.wf.a.value_true.2 (Or.inr rfl)
  refine ⟨NetInv.ofRoot (n := (lraNewVar n).2) h.sat
    (fun c hc => TEntails.congr (fun α hm => (hcongr α).1 hm) (h.lemmas c hc)) ?_ ?_ hroot, hcongr⟩
  · refine ⟨⟨Lra.explInv_newVar hb.lra.inv, Lra.valsOK_newVar hb.lra.vals, hb.lra.key, ?_, ?_, ?_⟩, hb.idl, hb.rdl⟩
    · intro e he
      have := hb.lra.vars e he
      show e.2.x < (n.lra.vals ++ [_]).length
      rw [List.length_append]; simp; omega
    · intro α σr σi h0 ho hs ha x hx
      have hj := hb.lra.just α σr σi h0 ho hs ha
      have hlen : n.lra.newVar.2.bounds.length = n.lra.bounds.length + 2 := by
        show (n.lra.bounds ++ [_, _]).length = _
        simp
      have el : (lraNewVar n).2.lra = n.lra.newVar.2 := rfl
      rw [el] at hx ⊢
      rw [hlen] at hx
      unfold Lra.lb Lra.ub Lra.lbReason Lra.ubReason
      rw [lra_newVar_bnd, lra_newVar_bnd]
      by_cases hold : Lra.ubIdx x < n.lra.bounds.length
      · have h1 : Lra.lbIdx x < n.lra.bounds.length := by unfold Lra.lbIdx; unfold Lra.ubIdx at hold; omega
        rw [if_pos h1, if_pos hold]
        exact hj x hold
      · have h1 : Lra.lbIdx x = n.lra.bounds.length := by unfold Lra.lbIdx; unfold Lra.ubIdx at hold hx; omega
        have h2 : Lra.ubIdx x = n.lra.bounds.length + 1 := by unfold Lra.ubIdx; unfold Lra.lbIdx at h1; omega
        rw [if_neg (by omega), if_pos h1, if_neg (by omega), if_neg (by omega), if_pos h2]
        exact ⟨fun _ => Lra.ble_ninf _, fun _ => Lra.vle_pinf _⟩
    · intro x
      show n.sat.value (n.lra.newVar.2.lbReason x) = some true ∧ n.sat.value (n.lra.newVar.2.ubReason x) = some true
      unfold Lra.lbReason Lra.ubReason
      rw [lra_newVar_bnd, lra_newVar_bnd]
      constructor
      · split
        · exact (hb.lra.reasons x).1
        · split
          · exact htrue
          · split <;> exact htrue
      · split
        · exact (hb.lra.reasons x).2
        · split
          · exact htrue
          · split <;> exact htrue
  · refine ⟨h.reg.lra, h.reg.idl, h.reg.rdl, Lra.newVar_good h.reg.good, fun x b hb => ?_, h.reg.sa⟩
    have hb' : b ∈ (n.lra.aWatches ++ [[]]).getD x [] := hb
    rw [Lra.getD_append_nil] at hb'
    exact h.reg.aw x b hb'

end Net
end Oratio
