/-
Lemmas for property C13, part 4: the filtering loop of the cardinality constructors
(`scanCard`, `scanAfterTrue`), the pairwise encoding, and the ingredients of the product
encoding (fresh variable lists, the clauses, the guarded-definition step).
-/
import OratioProofs.Lemmas.EncJunct
import OratioProofs.Lemmas.EncSort
import OratioProofs.Lemmas.EncArith

namespace Oratio
namespace EncL
open Enc

/-! ## `AtMostOne` -/

theorem amo_of_sub {α : Asg} {A B : List Lit} (h : ∀ l ∈ A, l ∈ B ∨ α.lit l = false)
    (hB : AtMostOne α B) : AtMostOne α A := by
  intro a ha b hb hta htb
  rcases h a ha with h1 | h1
  · rcases h b hb with h2 | h2
    · exact hB a h1 b h2 hta htb
    · rw [htb] at h2; cases h2
  · rw [hta] at h1; cases h1

theorem amo_congr {α β : Asg} {ls : List Lit} (h : ∀ l ∈ ls, β l.var = α l.var) (hA : AtMostOne α ls) :
    AtMostOne β ls := by
  intro a ha b hb hta htb
  rw [lit_congr (h a ha)] at hta
  rw [lit_congr (h b hb)] at htb
  exact hA a ha b hb hta htb

theorem amo_short {α : Asg} {ls : List Lit} (h : ls.length ≤ 1) : AtMostOne α ls := by
  intro a ha b hb _ _
  match ls, h with
  | [], _ => cases ha
  | [x], _ =>
    simp only [List.mem_singleton] at ha hb
    rw [ha, hb]
  | _ :: _ :: _, h => simp at h

/-! ## the filtering loops -/

/-- after a true argument: `.oneTrue` -/
theorem scanAfterTrue_one {s : Enc} : ∀ (rest : List Lit) (p : Option Lit) (acc : List Lit),
    (∀ q, p = some q → q ∈ acc) → ∀ others, scanAfterTrue s rest p acc = .oneTrue others →
    (∀ l ∈ others, l ∈ acc ∨ l ∈ rest) ∧
    (∀ l ∈ others, l ∈ acc ∨ s.value l = none) ∧
    (∀ l ∈ acc, l ∈ others) ∧
    (∀ l ∈ rest, l ∈ others ∨ s.value l = some false) := by
  intro rest
  induction rest with
  | nil =>
    intro p acc _ others h
    simp only [scanAfterTrue, CardScan.oneTrue.injEq] at h
    subst h
    exact ⟨fun l hl => Or.inl (by simpa using hl), fun l hl => Or.inl (by simpa using hl),
      fun l hl => by simpa using hl, fun l hl => by cases hl⟩
  | cons l rest ih =>
    intro p acc hp others h
    simp only [scanAfterTrue] at h
    split at h
    · cases h
    · next hc1 =>
      simp only [Bool.or_eq_true, decide_eq_true_eq, not_or] at hc1
      split at h
      · next hc2 =>
        simp only [Bool.and_eq_true, ne_eq, decide_eq_true_eq] at hc2
        obtain ⟨i1, i2, i3, i4⟩ := ih (some l) (l :: acc) (by intro q hq; cases hq; simp) others h
        refine ⟨fun x hx => ?_, fun x hx => ?_, fun x hx => i3 x (by simp [hx]), fun x hx => ?_⟩
        · have := i1 x hx
          simp only [List.mem_cons] at this ⊢
          rcases this with (h | h) | h
          · exact Or.inr (Or.inl h)
          · exact Or.inl h
          · exact Or.inr (Or.inr h)
        · have := i2 x hx
          simp only [List.mem_cons] at this
          rcases this with (h | h) | h
          · subst h
            right
            cases hv : s.value x with
            | none => rfl
            | some b =>
              exfalso
              cases b
              · exact hc2.1 hv
              · exact hc1.1 hv
          · exact Or.inl h
          · exact Or.inr h
        · simp only [List.mem_cons] at hx
          rcases hx with hx | hx
          · subst hx; exact Or.inl (i3 x (by simp))
          · exact i4 x hx
      · next hc2 =>
        obtain ⟨i1, i2, i3, i4⟩ := ih p acc hp others h
        refine ⟨fun x hx => ?_, i2, i3, fun x hx => ?_⟩
        · rcases i1 x hx with h | h
          · exact Or.inl h
          · exact Or.inr (by simp [h])
        · simp only [List.mem_cons] at hx
          rcases hx with hx | hx
          · subst hx
            simp only [Bool.and_eq_true, ne_eq, decide_eq_true_eq, not_and, Decidable.not_not] at hc2
            by_cases hv : s.value x = some false
            · exact Or.inr hv
            · exact Or.inl (i3 x (hp x (hc2 hv)))
          · exact i4 x hx

/-- after a true argument: `.twoTrue` means a second root-true argument, or a complementary
    pair of undecided arguments -/
theorem scanAfterTrue_two {s : Enc} : ∀ (rest : List Lit) (p : Option Lit) (acc : List Lit),
    (∀ q, p = some q → q ∈ acc) → (∀ l ∈ acc, s.value l = none) → scanAfterTrue s rest p acc = .twoTrue →
    (∃ l ∈ rest, s.value l = some true) ∨
    (∃ q, (q ∈ acc ∨ q ∈ rest) ∧ q.neg ∈ rest ∧ s.value q = none) := by
  intro rest
  induction rest with
  | nil => intro p acc _ _ h; simp [scanAfterTrue] at h
  | cons l rest ih =>
    intro p acc hp hacc h
    simp only [scanAfterTrue] at h
    split at h
    · next hc =>
      simp only [Bool.or_eq_true, decide_eq_true_eq] at hc
      rcases hc with hc | hc
      · exact Or.inl ⟨l, by simp, hc⟩
      · cases p with
        | none => simp at hc
        | some q =>
          simp only [Option.map_some, Option.some.injEq] at hc
          have hq := hp q rfl
          exact Or.inr ⟨q, Or.inl hq, by simp [hc], hacc q hq⟩
    · next hc1 =>
      simp only [Bool.or_eq_true, decide_eq_true_eq, not_or] at hc1
      split at h
      · next hc2 =>
        simp only [Bool.and_eq_true, ne_eq, decide_eq_true_eq] at hc2
        have hl : s.value l = none := by
          cases hv : s.value l with
          | none => rfl
          | some b => cases b
                      · exact absurd hv hc2.1
                      · exact absurd hv hc1.1
        rcases ih (some l) (l :: acc) (by intro q hq; cases hq; simp)
          (by intro x hx; simp only [List.mem_cons] at hx; rcases hx with rfl | hx; exact hl; exact hacc x hx) h with
          ⟨x, hx, hx2⟩ | ⟨q, hq, hq2, hq3⟩
        · exact Or.inl ⟨x, by simp [hx], hx2⟩
        · refine Or.inr ⟨q, ?_, by simp [hq2], hq3⟩
          simp only [List.mem_cons] at hq ⊢
          rcases hq with (h | h) | h
          · exact Or.inr (Or.inl h)
          · exact Or.inl h
          · exact Or.inr (Or.inr h)
      · rcases ih p acc hp hacc h with ⟨x, hx, hx2⟩ | ⟨q, hq, hq2, hq3⟩
        · exact Or.inl ⟨x, by simp [hx], hx2⟩
        · refine Or.inr ⟨q, ?_, by simp [hq2], hq3⟩
          rcases hq with h | h
          · exact Or.inl h
          · exact Or.inr (by simp [h])

theorem scanAfterTrue_not_open {s : Enc} : ∀ (rest : List Lit) (p : Option Lit) (acc : List Lit) (x : List Lit),
    scanAfterTrue s rest p acc ≠ .open x := by
  intro rest
  induction rest with
  | nil => intro p acc x h; simp [scanAfterTrue] at h
  | cons l rest ih =>
    intro p acc x h
    simp only [scanAfterTrue] at h
    split at h
    · cases h
    · split at h
      · exact ih _ _ _ h
      · exact ih _ _ _ h

/-- outer loop, `.open` -/
theorem scanCard_open {s : Enc} : ∀ (rest : List Lit) (p : Option Lit) (acc : List Lit),
    (∀ q, p = some q → q ∈ acc) → ∀ ls', scanCard s rest p acc = .open ls' →
    (∀ l ∈ ls', l ∈ acc ∨ l ∈ rest) ∧
    (∀ l ∈ ls', l ∈ acc ∨ s.value l = none) ∧
    (∀ l ∈ acc, l ∈ ls') ∧
    (∀ l ∈ rest, l ∈ ls' ∨ s.value l = some false) ∧
    ls'.Sublist (acc.reverse ++ rest) := by
  intro rest
  induction rest with
  | nil =>
    intro p acc _ ls' h
    simp only [scanCard, CardScan.open.injEq] at h
    subst h
    exact ⟨fun l hl => Or.inl (by simpa using hl), fun l hl => Or.inl (by simpa using hl),
      fun l hl => by simpa using hl, (fun l hl => by cases hl), by simp⟩
  | cons l rest ih =>
    intro p acc hp ls' h
    simp only [scanCard] at h
    split at h
    · exact absurd h (scanAfterTrue_not_open _ _ _ _)
    · next hc1 =>
      split at h
      · next hc2 =>
        simp only [Bool.and_eq_true, ne_eq, decide_eq_true_eq] at hc2
        obtain ⟨i1, i2, i3, i4, i5⟩ := ih (some l) (l :: acc) (by intro q hq; cases hq; simp) ls' h
        refine ⟨fun x hx => ?_, fun x hx => ?_, fun x hx => i3 x (by simp [hx]), fun x hx => ?_, by simpa using i5⟩
        · have := i1 x hx
          simp only [List.mem_cons] at this ⊢
          rcases this with (h | h) | h
          · exact Or.inr (Or.inl h)
          · exact Or.inl h
          · exact Or.inr (Or.inr h)
        · have := i2 x hx
          simp only [List.mem_cons] at this
          rcases this with (h | h) | h
          · subst h
            right
            cases hv : s.value x with
            | none => rfl
            | some b =>
              exfalso
              cases b
              · exact hc2.1 hv
              · exact hc1 hv
          · exact Or.inl h
          · exact Or.inr h
        · simp only [List.mem_cons] at hx
          rcases hx with hx | hx
          · subst hx; exact Or.inl (i3 x (by simp))
          · exact i4 x hx
      · next hc2 =>
        obtain ⟨i1, i2, i3, i4, i5⟩ := ih p acc hp ls' h
        refine ⟨fun x hx => ?_, i2, i3, fun x hx => ?_, ?_⟩
        · rcases i1 x hx with h | h
          · exact Or.inl h
          · exact Or.inr (by simp [h])
        · simp only [List.mem_cons] at hx
          rcases hx with hx | hx
          · subst hx
            simp only [Bool.and_eq_true, ne_eq, decide_eq_true_eq, not_and, Decidable.not_not] at hc2
            by_cases hv : s.value x = some false
            · exact Or.inr hv
            · exact Or.inl (i3 x (hp x (hc2 hv)))
          · exact i4 x hx
        · exact i5.trans (List.Sublist.append_left (List.sublist_cons_self l rest) _)

/-- the accumulator is contained in the `.oneTrue` result -/
theorem scanCard_acc_sub {s : Enc} : ∀ (rest : List Lit) (p : Option Lit) (acc : List Lit),
    (∀ q, p = some q → q ∈ acc) → ∀ others, scanCard s rest p acc = .oneTrue others → ∀ l ∈ acc, l ∈ others := by
  intro rest
  induction rest with
  | nil => intro p acc _ others h; simp [scanCard] at h
  | cons l rest ih =>
    intro p acc hp others h
    simp only [scanCard] at h
    split at h
    · exact (scanAfterTrue_one rest p acc hp others h).2.2.1
    · split at h
      · intro x hx
        exact ih (some l) (l :: acc) (by intro q hq; cases hq; simp) others h x (by simp [hx])
      · exact ih p acc hp others h

/-- outer loop, `.oneTrue` -/
theorem scanCard_one {s : Enc} : ∀ (rest : List Lit) (p : Option Lit) (acc : List Lit),
    (∀ q, p = some q → q ∈ acc) → (∀ l ∈ acc, s.value l = none) →
    ∀ others, scanCard s rest p acc = .oneTrue others →
    ∃ t ∈ rest, s.value t = some true ∧
      (∀ l ∈ rest, l = t ∨ l ∈ others ∨ s.value l = some false) ∧
      (∀ l ∈ others, s.value l = none) ∧
      (∀ l ∈ others, l ∈ acc ∨ l ∈ rest) := by
  intro rest
  induction rest with
  | nil => intro p acc _ _ others h; simp [scanCard] at h
  | cons l rest ih =>
    intro p acc hp hacc others h
    simp only [scanCard] at h
    split at h
    · next hc1 =>
      obtain ⟨i1, i2, i3, i4⟩ := scanAfterTrue_one rest p acc hp others h
      refine ⟨l, by simp, hc1, fun x hx => ?_, fun x hx => ?_, fun x hx => ?_⟩
      · simp only [List.mem_cons] at hx
        rcases hx with hx | hx
        · exact Or.inl hx
        · exact Or.inr (i4 x hx)
      · rcases i2 x hx with h | h
        · exact hacc x h
        · exact h
      · rcases i1 x hx with h | h
        · exact Or.inl h
        · exact Or.inr (by simp [h])
    · next hc1 =>
      split at h
      · next hc2 =>
        simp only [Bool.and_eq_true, ne_eq, decide_eq_true_eq] at hc2
        have hl : s.value l = none := by
          cases hv : s.value l with
          | none => rfl
          | some b => cases b
                      · exact absurd hv hc2.1
                      · exact absurd hv hc1
        obtain ⟨t, ht, ht2, j1, j2, j3⟩ := ih (some l) (l :: acc) (by intro q hq; cases hq; simp)
          (by intro x hx; simp only [List.mem_cons] at hx; rcases hx with rfl | hx; exact hl; exact hacc x hx) others h
        refine ⟨t, by simp [ht], ht2, fun x hx => ?_, j2, fun x hx => ?_⟩
        · simp only [List.mem_cons] at hx
          rcases hx with hx | hx
          · subst hx
            -- `x` was kept: it is in `others` because the accumulator only grows
            have : x ∈ others := by
              have h' := h
              clear j1 j2 j3 ht ht2 ih
              -- the accumulator is contained in the result
              exact (scanCard_acc_sub rest (some x) (x :: acc) (by intro q hq; cases hq; simp) others h') x (by simp)
            exact Or.inr (Or.inl this)
          · exact j1 x hx
        · have := j3 x hx
          simp only [List.mem_cons] at this ⊢
          rcases this with (h | h) | h
          · exact Or.inr (Or.inl h)
          · exact Or.inl h
          · exact Or.inr (Or.inr h)
      · next hc2 =>
        obtain ⟨t, ht, ht2, j1, j2, j3⟩ := ih p acc hp hacc others h
        refine ⟨t, by simp [ht], ht2, fun x hx => ?_, j2, fun x hx => ?_⟩
        · simp only [List.mem_cons] at hx
          rcases hx with hx | hx
          · subst hx
            simp only [Bool.and_eq_true, ne_eq, decide_eq_true_eq, not_and, Decidable.not_not] at hc2
            by_cases hv : s.value x = some false
            · exact Or.inr (Or.inr hv)
            · exact Or.inr (Or.inl ((scanCard_acc_sub rest p acc hp others h) x (hp x (hc2 hv))))
          · exact j1 x hx
        · rcases j3 x hx with h | h
          · exact Or.inl h
          · exact Or.inr (by simp [h])

/-- outer loop, `.twoTrue`: two distinct arguments are true in every model (the argument list has
    no duplicates) -/
theorem scanCard_two {s : Enc} : ∀ (rest : List Lit) (p : Option Lit) (acc : List Lit),
    (∀ q, p = some q → q ∈ acc) → (∀ l ∈ acc, s.value l = none) → rest.Nodup →
    scanCard s rest p acc = .twoTrue →
    ∀ α, Models α s → ∃ a b, (a ∈ acc ∨ a ∈ rest) ∧ (b ∈ acc ∨ b ∈ rest) ∧ a ≠ b ∧
      α.lit a = true ∧ α.lit b = true := by
  intro rest
  induction rest with
  | nil => intro p acc _ _ _ h; simp [scanCard] at h
  | cons l rest ih =>
    intro p acc hp hacc hnd h α hα
    have hnd' := List.nodup_cons.1 hnd
    simp only [scanCard] at h
    split at h
    · next hc1 =>
      have hlt : α.lit l = true := value_sound hα hc1
      rcases scanAfterTrue_two rest p acc hp hacc h with ⟨x, hx, hx2⟩ | ⟨q, hq, hq2, hq3⟩
      · refine ⟨l, x, Or.inr (by simp), Or.inr (by simp [hx]), ?_, hlt, value_sound hα hx2⟩
        rintro rfl; exact hnd'.1 hx
      · have hq' : q ∈ acc ∨ q ∈ l :: rest := by
          rcases hq with h | h
          · exact Or.inl h
          · exact Or.inr (by simp [h])
        cases hqt : α.lit q with
        | true =>
          refine ⟨l, q, Or.inr (by simp), hq', ?_, hlt, hqt⟩
          rintro rfl; rw [hc1] at hq3; cases hq3
        | false =>
          refine ⟨l, q.neg, Or.inr (by simp), Or.inr (by simp [hq2]), ?_, hlt, by rw [lit_neg, hqt]; rfl⟩
          rintro rfl
          rw [value_neg, hq3] at hc1; cases hc1
    · next hc1 =>
      split at h
      · next hc2 =>
        simp only [Bool.and_eq_true, ne_eq, decide_eq_true_eq] at hc2
        have hl : s.value l = none := by
          cases hv : s.value l with
          | none => rfl
          | some b => cases b
                      · exact absurd hv hc2.1
                      · exact absurd hv hc1
        obtain ⟨a, b, ha, hb, hab, hta, htb⟩ := ih (some l) (l :: acc) (by intro q hq; cases hq; simp)
          (by intro x hx; simp only [List.mem_cons] at hx; rcases hx with rfl | hx; exact hl; exact hacc x hx)
          hnd'.2 h α hα
        refine ⟨a, b, ?_, ?_, hab, hta, htb⟩
        · simp only [List.mem_cons] at ha ⊢
          rcases ha with (h | h) | h
          · exact Or.inr (Or.inl h)
          · exact Or.inl h
          · exact Or.inr (Or.inr h)
        · simp only [List.mem_cons] at hb ⊢
          rcases hb with (h | h) | h
          · exact Or.inr (Or.inl h)
          · exact Or.inl h
          · exact Or.inr (Or.inr h)
      · obtain ⟨a, b, ha, hb, hab, hta, htb⟩ := ih p acc hp hacc hnd'.2 h α hα
        refine ⟨a, b, ?_, ?_, hab, hta, htb⟩
        · rcases ha with h | h
          · exact Or.inl h
          · exact Or.inr (by simp [h])
        · rcases hb with h | h
          · exact Or.inl h
          · exact Or.inr (by simp [h])

/-! ## the pairwise encoding -/

theorem mem_pairs_mem {a b : Lit} : ∀ {ls : List Lit}, (a, b) ∈ pairs ls → a ∈ ls ∧ b ∈ ls := by
  intro ls
  induction ls with
  | nil => intro h; simp [pairs] at h
  | cons x t ih =>
    intro h
    simp only [pairs, List.mem_append, List.mem_map, Prod.mk.injEq] at h
    rcases h with ⟨y, hy, rfl, rfl⟩ | h
    · exact ⟨by simp, by simp [hy]⟩
    · have := ih h; exact ⟨by simp [this.1], by simp [this.2]⟩

theorem mem_pairs_of_ne {a b : Lit} : ∀ {ls : List Lit}, a ∈ ls → b ∈ ls → a ≠ b →
    (a, b) ∈ pairs ls ∨ (b, a) ∈ pairs ls := by
  intro ls
  induction ls with
  | nil => intro h; cases h
  | cons x t ih =>
    intro ha hb hab
    simp only [List.mem_cons] at ha hb
    simp only [pairs, List.mem_append, List.mem_map, Prod.mk.injEq]
    rcases ha with rfl | ha
    · rcases hb with rfl | hb
      · exact absurd rfl hab
      · exact Or.inl (Or.inl ⟨b, hb, rfl, rfl⟩)
    · rcases hb with rfl | hb
      · exact Or.inr (Or.inl ⟨a, ha, rfl, rfl⟩)
      · rcases ih ha hb hab with h | h
        · exact Or.inl (Or.inr h)
        · exact Or.inr (Or.inr h)

theorem pairs_ne_of_nodup {a b : Lit} : ∀ {ls : List Lit}, ls.Nodup → (a, b) ∈ pairs ls → a ≠ b := by
  intro ls
  induction ls with
  | nil => intro _ h; simp [pairs] at h
  | cons x t ih =>
    intro hnd h
    have hnd' := List.nodup_cons.1 hnd
    simp only [pairs, List.mem_append, List.mem_map, Prod.mk.injEq] at h
    rcases h with ⟨y, hy, rfl, rfl⟩ | h
    · rintro rfl; exact hnd'.1 hy
    · exact ih hnd'.2 h

theorem pair_clauses (β : Asg) (ctr : Lit) (ls : List Lit) :
    β.cnf ((pairs ls).map (fun p => [p.1.neg, p.2.neg, ctr.neg])) = true ↔
      ∀ p ∈ pairs ls, ¬ (β.lit p.1 = true ∧ β.lit p.2 = true ∧ β.lit ctr = true) := by
  rw [cnf_eq_true]
  simp only [List.mem_map, forall_exists_index, and_imp, forall_apply_eq_imp_iff₂]
  refine forall_congr' fun p => forall_congr' fun _ => ?_
  cases h1 : β.lit p.1 <;> cases h2 : β.lit p.2 <;> cases h3 : β.lit ctr <;>
    simp [Asg.clause, lit_neg, h1, h2, h3]

/-! ## ingredients of the product encoding -/

/-- `n` consecutive positive literals starting at variable `base` -/
def uLits (base n : Nat) : List Lit := (List.range n).map (fun i => (⟨base + i, true⟩ : Lit))

theorem uLits_length (base n : Nat) : (uLits base n).length = n := by simp [uLits]

theorem mem_uLits {base n : Nat} {l : Lit} : l ∈ uLits base n ↔ ∃ i, i < n ∧ l = ⟨base + i, true⟩ := by
  simp only [uLits, List.mem_map, List.mem_range]
  constructor
  · rintro ⟨i, hi, rfl⟩; exact ⟨i, hi, rfl⟩
  · rintro ⟨i, hi, rfl⟩; exact ⟨i, hi, rfl⟩

theorem uLits_getD {base n i : Nat} (h : i < n) : (uLits base n).getD i Lit.falseLit = ⟨base + i, true⟩ := by
  simp [uLits, List.getD_eq_getElem?_getD, h]

theorem uLits_getD_var (base n i : Nat) : ((uLits base n).getD i Lit.falseLit).var = 0 ∨
    ((uLits base n).getD i Lit.falseLit).var < base + n := by
  by_cases h : i < n
  · right; rw [uLits_getD h]; simp; exact h
  · left
    simp [uLits, List.getD_eq_getElem?_getD, h, Lit.falseLit]

theorem uLits_nodup (base n : Nat) : (uLits base n).Nodup := by
  unfold uLits
  rw [List.nodup_iff_pairwise_ne, List.pairwise_map]
  refine List.Pairwise.imp ?_ (List.nodup_iff_pairwise_ne.1 List.nodup_range)
  intro a b hab h
  simp only [Lit.mk.injEq, and_true] at h
  omega

/-- the clauses of the product encoding -/
def prodClauses (ls : List Lit) (ps qs : Nat) (u w : List Lit) (ctr : Lit) : List (List Lit) :=
  (List.range ps).flatMap (fun i => (List.range qs).flatMap (fun j =>
    match ls[i * qs + j]? with
    | some lk => [[lk.neg, u.getD i Lit.falseLit, ctr.neg], [lk.neg, w.getD j Lit.falseLit, ctr.neg]]
    | none => []))

theorem mem_prodClauses {ls : List Lit} {ps qs : Nat} {u w : List Lit} {ctr : Lit} {c : List Lit} :
    c ∈ prodClauses ls ps qs u w ctr ↔ ∃ i, i < ps ∧ ∃ j, j < qs ∧ ∃ lk, ls[i * qs + j]? = some lk ∧
      (c = [lk.neg, u.getD i Lit.falseLit, ctr.neg] ∨ c = [lk.neg, w.getD j Lit.falseLit, ctr.neg]) := by
  simp only [prodClauses, List.mem_flatMap, List.mem_range]
  constructor
  · rintro ⟨i, hi, j, hj, hc⟩
    split at hc
    · next lk hlk =>
      simp only [List.mem_cons, List.not_mem_nil, or_false] at hc
      exact ⟨i, hi, j, hj, lk, hlk, hc⟩
    · cases hc
  · rintro ⟨i, hi, j, hj, lk, hlk, hc⟩
    refine ⟨i, hi, j, hj, ?_⟩
    rw [hlk]
    simpa using hc

theorem prodClauses_true (β : Asg) (ls : List Lit) (ps qs : Nat) (u w : List Lit) (ctr : Lit) :
    β.cnf (prodClauses ls ps qs u w ctr) = true ↔
      ∀ i, i < ps → ∀ j, j < qs → ∀ lk, ls[i * qs + j]? = some lk → β.lit lk = true → β.lit ctr = true →
        (β.lit (u.getD i Lit.falseLit) = true ∧ β.lit (w.getD j Lit.falseLit) = true) := by
  rw [cnf_eq_true]
  constructor
  · intro h i hi j hj lk hlk h1 h2
    have c1 := h _ (mem_prodClauses.2 ⟨i, hi, j, hj, lk, hlk, Or.inl rfl⟩)
    have c2 := h _ (mem_prodClauses.2 ⟨i, hi, j, hj, lk, hlk, Or.inr rfl⟩)
    simp [Asg.clause, lit_neg, h1, h2] at c1 c2
    exact ⟨c1, c2⟩
  · intro h c hc
    obtain ⟨i, hi, j, hj, lk, hlk, hc⟩ := mem_prodClauses.1 hc
    have := h i hi j hj lk hlk
    cases h1 : β.lit lk <;> cases h2 : β.lit ctr <;> rcases hc with rfl | rfl <;>
      simp_all [Asg.clause, lit_neg]

/-- post clauses that all mention `¬ctr`, then cache `ctr` (the tail of the product encoding) -/
def guardDef (s : Enc) (k : Key) (ctr : Lit) (cls : List (List Lit)) : Lit × Enc :=
  match s.newClauses cls with
  | (false, s6) => (Lit.falseLit, s6)
  | (true, s6) => (ctr, s6.remember k ctr)

theorem guardDef_spec {s : Enc} (h : Inv s) (k : Key) (ctr : Lit) (cls : List (List Lit))
    (hc : ctr.var < s.nvars) (hk : ∀ x ∈ keyLits k, x.var < s.nvars) (hcls : ∀ c ∈ cls, InRange s c)
    (hsem : ∀ α, Sat α s → α.cnf cls = true → KeySem α k ctr) :
    Inv (guardDef s k ctr cls).2 ∧ (guardDef s k ctr cls).1.var < (guardDef s k ctr cls).2.nvars ∧
    (guardDef s k ctr cls).2.nvars = s.nvars ∧ Refines s (guardDef s k ctr cls).2 ∧
    (∀ α, Sat α (guardDef s k ctr cls).2 → α.lit (guardDef s k ctr cls).1 = true →
      α.lit ctr = true ∧ α.cnf cls = true) ∧
    (∀ α, Sat α s → α.cnf cls = true →
      Sat α (guardDef s k ctr cls).2 ∧ (α.lit ctr = true → α.lit (guardDef s k ctr cls).1 = true)) ∧
    (∀ e ∈ (guardDef s k ctr cls).2.exprs, e ∈ s.exprs ∨ e = (k, ctr)) := by
  obtain ⟨i1, i2, i3, i4, i5, i6, i7⟩ := newClauses_sat h hcls
  unfold guardDef
  rcases hnc : s.newClauses cls with ⟨b, s6⟩
  rw [hnc] at i1 i2 i3 i4 i5 i6 i7
  simp only at i1 i2 i3 i4 i5 i6 i7
  have href : Refines s s6 := ⟨by omega, i4⟩
  cases b with
  | false =>
    refine ⟨i1, ?_, i3, href, fun α hα ht => ?_, fun α hα hcs => ⟨i5 α hα hcs, fun _ => ?_⟩, fun e he => ?_⟩
    · show 0 < s6.nvars
      have := nvars_pos h.1; omega
    · change α.lit Lit.falseLit = true at ht
      rw [lit_falseLit hα.1] at ht; cases ht
    · have := i7 rfl α (i5 α hα hcs)
      rw [hcs] at this; cases this
    · rw [i2] at he; exact Or.inl he
  | true =>
    have hsem' : ∀ α, Sat α s6 → KeySem α k ctr := fun α hα => hsem α (i4 α hα) (i6 rfl α hα)
    refine ⟨inv_remember i1 (by omega) (fun x hx => by have := hk x hx; omega) hsem', ?_, i3, href,
      fun α hα ht => ⟨ht, i6 rfl α hα⟩, fun α hα hcs => ⟨i5 α hα hcs, fun ht => ht⟩, fun e he => ?_⟩
    · show ctr.var < s6.nvars
      omega
    · simp only [Enc.remember, List.mem_append, List.mem_singleton] at he
      rcases he with he | he
      · rw [i2] at he; exact Or.inl he
      · exact Or.inr he

end EncL
end Oratio
