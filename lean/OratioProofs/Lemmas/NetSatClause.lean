/-
C07N: `new_clause` at root level under the weak invariant `SInv` (port of C07's `newClause_spec`).
-/
import OratioProofs.Lemmas.NetSatOps
import OratioProofs.Lemmas.SatCore

set_option linter.unusedSimpArgs false
set_option linter.unusedVariables false

namespace Oratio
namespace Sat

theorem newClause_sinv {orig K : Cnf} {s : Sat} (h : SInv orig K s)
    (hroot : s.trailLim = []) (c : List Lit) (hr : ∀ l ∈ c, l.var < s.vals.length) :
    SInv (orig ++ [c]) (K ++ [c]) (s.newClause c).2 ∧ AssignedKeep s (s.newClause c).2 ∧
      (s.newClause c).2.trailLim = [] ∧ ((s.newClause c).1 = false → (s.newClause c).2.dead = true) ∧
      ((s.newClause c).1 = true → (s.newClause c).2.dead = s.dead) ∧ (s.newClause c).2.log = s.log ∧
      (s.newClause c).2.exprs = s.exprs ∧ (s.newClause c).2.vals.length = s.vals.length ∧
      (s.newClause c).2.decisions = s.decisions := by
  have hsub : ∀ d ∈ orig, d ∈ orig ++ [c] := fun d hd => List.mem_append_left _ hd
  have hmono : SInv (orig ++ [c]) K s := h.mono_orig hsub
  have ha := h.wf.a
  have hcE : Ents (orig ++ [c]) c := Ents.of_mem (List.mem_append_right _ (List.mem_singleton.2 rfl))
  have hsortmem : ∀ l, l ∈ Enc.sortByVar c ↔ l ∈ c := fun l => Enc.mem_sortByVar
  have hdec0 : s.decisionLevel = 0 := by simp [decisionLevel, hroot]
  unfold newClause
  generalize hscan : Enc.scanClause s.toEnc (Enc.sortByVar c) none [] = res
  -- facts about a successful scan
  have hscanfacts : ∀ r, res = some r → (∀ l ∈ r, l ∈ c ∧ s.value l = none) ∧
      (∀ l ∈ c, l ∈ r ∨ s.value l = some false) ∧ (r.map Lit.var).Nodup := by
    intro r hr'
    rw [hr'] at hscan
    have h1 := Enc.scanClause_sub s.toEnc _ _ _ _ hscan
    have h2 := (Enc.scanClause_sup s.toEnc _ _ _ _ hscan (by simp)).2
    refine ⟨fun l hl => ?_, fun l hl => ?_, ?_⟩
    · rcases h1 l hl with h3 | h3
      · cases h3
      · exact ⟨(hsortmem l).1 h3.1, h3.2⟩
    · cases hv : s.value l with
      | none => exact Or.inl (h2 l ((hsortmem l).2 hl) hv)
      | some b =>
        cases b with
        | false => exact Or.inr rfl
        | true =>
          exfalso
          have := Enc.scanClause_true s.toEnc (Enc.sortByVar c) none [] ⟨l, (hsortmem l).2 hl, hv⟩
          rw [this] at hscan; cases hscan
    · exact Enc.scanClause_nodup s.toEnc _ _ _ _ (Enc.sortByVar_sorted c) List.Pairwise.nil rfl (by simp) hscan
  match res, hscanfacts with
  | none, _ =>
    dsimp only
    refine ⟨⟨hmono.wf, ?_, hmono.dec⟩, AssignedKeep.refl s, hroot, (fun e => by cases e), fun _ => rfl, rfl, rfl, rfl, rfl⟩
    apply hmono.ent.keeps_add
    intro _ α h0 _ hroots
    rcases Enc.scanClause_none s.toEnc _ _ _ hscan with ⟨l, hl, hv⟩ | ⟨l, hl, hh⟩
    · simp only [Asg.clause, List.any_eq_true]
      exact ⟨l, (hsortmem l).1 hl, root_true ha hroot h0 hroots hv⟩
    · rcases hh with hh | hh
      · cases hh
      · simp only [Asg.clause, List.any_eq_true]
        have h1 := (hsortmem l).1 hl
        have h2 := (hsortmem _).1 hh
        cases hv : α.lit l with
        | true => exact ⟨l, h1, hv⟩
        | false => exact ⟨l.neg, h2, by rw [Asg.lit_neg, hv]; rfl⟩
  | some [], hf =>
    dsimp only
    obtain ⟨_, h2, _⟩ := hf [] rfl
    have hU : Uns (orig ++ [c]) := by
      have := ents_drop_false ha hmono.ent hroot hcE h2
      intro α h0
      cases hF : α.cnf (orig ++ [c]) with
      | false => rfl
      | true => have := this α h0 hF; simp [Asg.clause] at this
    exact ⟨hmono.setDead hU, (fun v b hv => ⟨hv, rfl⟩), hroot, fun _ => rfl, (fun e => by cases e), rfl, rfl, rfl, rfl⟩
  | some [l], hf =>
    dsimp only
    obtain ⟨h1, h2, _⟩ := hf [l] rfl
    have hv := (h1 l (List.mem_singleton.2 rfl)).2
    have hlt := hr l (h1 l (List.mem_singleton.2 rfl)).1
    have hEl : Ents (orig ++ [c]) [l] := ents_drop_false ha hmono.ent hroot hcE h2
    rw [enqueue_none _ hv]
    have hw2 := hmono.wf.enq (c := none) hv hlt (fun _ => Or.inl hdec0) (fun id e => by cases e)
    have hkeep : AssignedKeep s (s.enq l none) := by
      apply assignedKeep_of_trail hmono.wf hw2.lvl0
      · intro v b hb
        have hne : v ≠ l.var := by
          intro e; rw [value_eq_none, ← e, hb] at hv; cases hv
        show ((s.enq l none).vals).getD v none = some b
        simp only [enq]
        rw [getD_set_ne _ _ _ _ _ (Ne.symm hne)]; exact hb
      · intro x hx
        exact enq_lvl_ne (ha.trail_var_ne hx hv)
    refine ⟨⟨hw2, ?_, fun m => (hmono.dec m).enq ha hv⟩, hkeep, hroot, (fun e => by cases e), fun _ => rfl,
      rfl, rfl, by simp [enq], rfl⟩
    apply (hmono.ent.enq ha hv hlt (hEl.mono (fun d hd => List.mem_append_left _ hd))).keeps_add
    intro _ α _ _ hroots
    have := hroots l (List.mem_cons_self ..) (by rw [enq_lvl_self ha hlt]; exact hdec0)
    simp only [Asg.clause, List.any_eq_true]
    exact ⟨l, (h1 l (List.mem_singleton.2 rfl)).1, this⟩
  | some (l0 :: l1 :: rest), hf =>
    dsimp only
    obtain ⟨h1, h2, h3⟩ := hf _ rfl
    have hrange : ∀ l ∈ l0 :: l1 :: rest, l.var < s.vals.length := fun l hl => hr l (h1 l hl).1
    have hvar0 : ∀ l ∈ l0 :: l1 :: rest, l.var ≠ 0 := fun l hl => ha.var_ne_zero_of_none (h1 l hl).2
    have hEls : Ents (orig ++ [c]) (l0 :: l1 :: rest) := ents_drop_false ha hmono.ent hroot hcE h2
    refine ⟨⟨hmono.wf.addClause hrange, ?_, hmono.dec⟩, (fun v b hv => ⟨hv, rfl⟩), hroot, (fun e => by cases e),
      fun _ => rfl, rfl, rfl, rfl, rfl⟩
    · refine ⟨?_, hmono.ent.trail, hmono.ent.log, hmono.ent.dead, ?_⟩
      · intro e he
        rw [addClause_cls] at he
        rcases List.mem_append.1 he with he | he
        · exact hmono.ent.clauses e he
        · simp only [List.mem_singleton] at he; subst he; exact hEls
      · intro hd α h0 hcl hroots
        rw [addClause_cls, List.map_append, Asg.cnf_append] at hcl
        simp only [Bool.and_eq_true] at hcl
        have hK := hmono.ent.keeps hd α h0 hcl.1 hroots
        have hnew : α.clause (l0 :: l1 :: rest) = true := by simpa [Asg.cnf] using hcl.2
        rw [Asg.cnf_append, hK]
        simp only [Asg.cnf, List.all_cons, List.all_nil, Bool.and_true, Bool.true_and]
        simp only [Asg.clause, List.any_eq_true] at hnew ⊢
        obtain ⟨l, hl, hv⟩ := hnew
        exact ⟨l, (h1 l hl).1, hv⟩

end Sat
end Oratio
