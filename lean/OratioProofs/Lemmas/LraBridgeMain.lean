/-
Helper lemmas for `Properties/C09Bridge.lean`, part 5: `Lra.pivot` as a whole - the row solved
for `xj`, the removal of the row of `xi`, `newRow`, and the two results (invariant kept,
solutions kept) in `rowOf` form.
-/
import OratioModel
import OratioProofs.Lemmas.LraBridgePivot

namespace Oratio
namespace Lra
open Lin

/-! ### the row of `xi` solved for `xj` -/

def pivExpr (l : Lin) (xi xj : Nat) : Lin :=
  let cf := (Lin.find l.vars xj).getD R.zero
  let e := Lin.divAssignR { l with vars := Lin.erase l.vars xj } (R.neg cf)
  { e with vars := Lin.insert e.vars xi (R.div R.one cf) }

theorem finWF_one : R.FinWF R.one := ⟨by decide, by decide⟩

theorem toRat_ne_zero {c : R} (hc : R.FinWF c) (hn : c.num ≠ 0) : c.toRat ≠ 0 := by
  intro h0
  rcases Int.lt_or_gt_of_ne hn with h | h
  · have := (R.toRat_neg_iff hc).2 h
    rw [h0] at this
    exact lt_irrefl _ this
  · have := (R.toRat_pos_iff hc).2 h
    rw [h0] at this
    exact lt_irrefl _ this

theorem pivExpr_spec {l : Lin} (hl : l.WF) {xi xj : Nat} {cf : R} (hcf : Lin.find l.vars xj = some cf)
    (hn : cf.num ≠ 0) (hxi : Lin.find l.vars xi = none) :
    (pivExpr l xi xj).WF ∧
    (∀ v, (Lin.find (pivExpr l xi xj).vars v).isSome = true ↔ v = xi ∨ (v ≠ xj ∧ (Lin.find l.vars v).isSome = true)) ∧
    cf.toRat ≠ 0 ∧
    (∀ σ, Lin.evalS (pivExpr l xi xj) σ = (Lin.evalS l σ - cf.toRat * σ xj) / (- cf.toRat) + (1 / cf.toRat) * σ xi) := by
  obtain ⟨ls, lw, lk⟩ := (wf_iff l).1 hl
  have hcfw : R.FinWF cf := coefWF_find lw hcf
  have hcf0 : cf.toRat ≠ 0 := toRat_ne_zero hcfw hn
  have hl0 : ({ l with vars := Lin.erase l.vars xj } : Lin).WF :=
    (wf_iff _).2 ⟨sorted_erase _ ls, coefWF_erase lw, lk⟩
  have hnegw : R.FinWF (R.neg cf) := R.finWF_neg hcfw
  obtain ⟨d1, -, -, d4, d5⟩ := scalar_div_spec { l with vars := Lin.erase l.vars xj } (R.neg cf) hl0
    hnegw.1 hnegw.2 (by show -cf.num ≠ 0; omega)
  have hdivw : R.FinWF (R.div R.one cf) := (R.div_fin finWF_one hcfw hn).1
  have hdivv : (R.div R.one cf).toRat = 1 / cf.toRat := by
    rw [(R.div_fin finWF_one hcfw hn).2, R.toRat_one]
  have hE : pivExpr l xi xj =
      { Lin.divR { l with vars := Lin.erase l.vars xj } (R.neg cf) with
        vars := Lin.insert (Lin.divR { l with vars := Lin.erase l.vars xj } (R.neg cf)).vars xi (R.div R.one cf) } := by
    unfold pivExpr
    simp only [hcf, Option.getD_some]
    rw [d5]
  have hvars : (Lin.divR { l with vars := Lin.erase l.vars xj } (R.neg cf)).vars =
      mapC (fun x => R.divAssign x (R.neg cf)) (Lin.erase l.vars xj) := rfl
  have hfind : ∀ v, (Lin.find (Lin.divR { l with vars := Lin.erase l.vars xj } (R.neg cf)).vars v).isSome = true ↔
      (v ≠ xj ∧ (Lin.find l.vars v).isSome = true) := by
    intro v
    rw [hvars, find_mapC_isSome, find_erase_isSome _ _ ls]
  have hxi' : Lin.find (Lin.divR { l with vars := Lin.erase l.vars xj } (R.neg cf)).vars xi = none := by
    cases h : Lin.find (Lin.divR { l with vars := Lin.erase l.vars xj } (R.neg cf)).vars xi with
    | none => rfl
    | some c =>
      have := ((hfind xi).1 (by rw [h]; rfl)).2
      rw [hxi] at this
      cases this
  obtain ⟨ds, dw, dk⟩ := (wf_iff _).1 d1
  rw [hE]
  refine ⟨(wf_iff _).2 ⟨sorted_insert _ _ ds, coefWF_insert dw hdivw, dk⟩, ?_, hcf0, ?_⟩
  · intro v
    show (Lin.find (Lin.insert _ xi _) v).isSome = true ↔ _
    rw [find_insert _ _ hxi']
    by_cases hv : v = xi
    · simp [hv]
    · rw [if_neg hv, hfind]
      simp [hv]
  · intro σ
    rw [evalS_eq]
    show sumS σ (Lin.insert _ xi _) + (Lin.divR { l with vars := Lin.erase l.vars xj } (R.neg cf)).known.toRat = _
    rw [sumS_insert _ σ hxi', hdivv]
    have h4 := d4 σ
    rw [evalS_eq] at h4
    have h5 : Lin.evalS { l with vars := Lin.erase l.vars xj } σ = Lin.evalS l σ - cf.toRat * σ xj := by
      rw [evalS_eq, evalS_eq]
      show sumS σ (Lin.erase l.vars xj) + l.known.toRat = _
      rw [sumS_erase _ σ hcf]
      ring
    rw [R.toRat_neg hcfw, h5] at h4
    linarith

/-! ### removing a row -/

theorem removeRow_spec {t : Lra} (ht : Inv t) {xi : Nat} {l : Lin} (hl : t.rowOf xi = some l) :
    ∃ tw, l.vars.foldl (fun t e => unwatchRow t e.1 xi) { t with tableau := t.tableau.filter (fun e => e.1 != xi) } =
        { t with tableau := t.tableau.filter (fun e => e.1 != xi), tWatches := tw } ∧
      tw.length = t.tWatches.length ∧
      Inv { t with tableau := t.tableau.filter (fun e => e.1 != xi), tWatches := tw } := by
  have hb : ∀ e ∈ l.vars, e.1 < t.tWatches.length :=
    fun e he => (ht.bound xi l hl).2 e.1 (find_isSome_of_mem (c := e.2) he)
  obtain ⟨tw, h1, h2, h3, h4⟩ := unwatch_fold_spec xi l.vars
    { t with tableau := t.tableau.filter (fun e => e.1 != xi) } hb ht.wsorted
  refine ⟨tw, h1, h2, ?_⟩
  have hrow : ∀ r, Lra.rowOf { t with tableau := t.tableau.filter (fun e => e.1 != xi), tWatches := tw } r =
      if r = xi then none else t.rowOf r := by
    intro r
    rw [rowOf_eq]
    show tabFind (t.tableau.filter _) r = _
    rw [tabFind_filter]
    rfl
  have hsub : ∀ r l', Lra.rowOf { t with tableau := t.tableau.filter (fun e => e.1 != xi), tWatches := tw } r = some l' →
      t.rowOf r = some l' ∧ r ≠ xi := by
    intro r l' h
    rw [hrow] at h
    by_cases hr : r = xi
    · rw [if_pos hr] at h; cases h
    · rw [if_neg hr] at h; exact ⟨h, hr⟩
  have hnone : ∀ v, t.rowOf v = none →
      Lra.rowOf { t with tableau := t.tableau.filter (fun e => e.1 != xi), tWatches := tw } v = none := by
    intro v hv
    rw [hrow]
    split
    · rfl
    · exact hv
  refine ⟨⟨keys_filter_sorted xi ht.keys, ?_, ?_, ?_, h3⟩, ?_⟩
  · intro r l' h
    exact ht.rows r l' (hsub r l' h).1
  · intro r l' h
    show r < tw.length ∧ ∀ v, _ → v < tw.length
    rw [h2]
    exact ht.bound r l' (hsub r l' h).1
  · intro r l' v h hv
    exact hnone v (ht.nonbasic r l' v (hsub r l' h).1 hv)
  · intro v r
    show r ∈ tw.getD v [] ↔ _
    rw [h4]
    show r ∈ t.tWatches.getD v [] ∧ _ ↔ _
    rw [ht.watch v r]
    constructor
    · rintro ⟨⟨l', hl', hk⟩, hne⟩
      have hr : r ≠ xi := by
        rintro rfl
        rw [hl] at hl'
        cases hl'
        obtain ⟨c, hc⟩ := find_isSome_iff.1 hk
        exact hne ⟨rfl, (v, c), hc, rfl⟩
      exact ⟨l', by rw [hrow, if_neg hr]; exact hl', hk⟩
    · rintro ⟨l', hl', hk⟩
      obtain ⟨h1', h2'⟩ := hsub r l' hl'
      exact ⟨⟨l', h1', hk⟩, fun h => h2' h.1⟩

/-! ### adding a row -/

theorem newRow_spec {xj : Nat} {ex : Lin} {u : Lra} (hu : PInv xj u) (hex : ExOk xj ex u)
    (hxj : u.rowOf xj = none) (hlen : xj < u.tWatches.length)
    (hno : ∀ r l, u.rowOf r = some l → Lin.find l.vars xj = none) :
    Inv (u.newRow xj ex) ∧ (u.newRow xj ex).vals = u.vals ∧
    (u.newRow xj ex).tWatches.length = u.tWatches.length ∧
    ∀ r, (u.newRow xj ex).rowOf r = if r = xj then some ex else u.rowOf r := by
  have hb : ∀ e ∈ ex.vars, e.1 < u.tWatches.length :=
    fun e he => (hex.vars e.1 (find_isSome_of_mem (c := e.2) he)).1
  obtain ⟨tw, h1, h2, h3, h4⟩ := watch_fold_spec xj ex.vars
    { u with tableau := tabInsert u.tableau xj ex } hb hu.wsorted
  have hE : u.newRow xj ex = { u with tableau := tabInsert u.tableau xj ex, tWatches := tw } := by
    unfold newRow
    exact h1
  have hrow : ∀ r, (u.newRow xj ex).rowOf r = if r = xj then some ex else u.rowOf r := by
    intro r
    rw [hE, rowOf_eq]
    show tabFind (tabInsert u.tableau xj ex) r = _
    rw [tabFind_tabInsert _ _ (by rw [← rowOf_eq]; exact hxj)]
    rfl
  have hlen' : (u.newRow xj ex).tWatches.length = u.tWatches.length := by
    rw [hE]; exact h2
  have htw : (u.newRow xj ex).tWatches = tw := by rw [hE]
  have hnoxj : ∀ v, (Lin.find ex.vars v).isSome = true → v ≠ xj := by
    rintro v hv rfl
    rw [hex.noxj] at hv
    cases hv
  refine ⟨⟨⟨?_, ?_, ?_, ?_, ?_⟩, ?_⟩, by rw [hE], hlen', hrow⟩
  · rw [hE]
    exact keys_tabInsert_sorted xj ex hu.keys
  · intro r l hl
    rw [hrow] at hl
    by_cases hr : r = xj
    · rw [if_pos hr] at hl; cases hl; exact hex.wf
    · rw [if_neg hr] at hl; exact hu.rows r l hl
  · intro r l hl
    rw [hrow] at hl
    rw [hlen']
    by_cases hr : r = xj
    · rw [if_pos hr] at hl
      cases hl
      exact ⟨hr ▸ hlen, fun v hv => (hex.vars v hv).1⟩
    · rw [if_neg hr] at hl; exact hu.bound r l hl
  · intro r l v hl hv
    rw [hrow] at hl
    rw [hrow]
    by_cases hr : r = xj
    · rw [if_pos hr] at hl
      cases hl
      rw [if_neg (hnoxj v hv)]
      exact (hex.vars v hv).2
    · rw [if_neg hr] at hl
      have hvx : v ≠ xj := by
        rintro rfl
        rw [hno r l hl] at hv
        cases hv
      rw [if_neg hvx]
      exact hu.nonbasic r l v hl hv
  · rw [htw]; exact h3
  · intro v r
    rw [htw, h4]
    show r ∈ u.tWatches.getD v [] ∨ _ ↔ _
    by_cases hv : v = xj
    · subst hv
      rw [hu.empty]
      constructor
      · rintro (h | ⟨-, e, he, hev⟩)
        · cases h
        · exact absurd hev (hnoxj e.1 (find_isSome_of_mem (c := e.2) he))
      · rintro ⟨l, hl, hk⟩
        exfalso
        rw [hrow] at hl
        by_cases hr : r = v
        · rw [if_pos hr] at hl
          cases hl
          exact hnoxj v hk rfl
        · rw [if_neg hr] at hl
          rw [hno r l hl] at hk
          cases hk
    · rw [hu.watch v hv r]
      constructor
      · rintro (⟨l, hl, hk⟩ | ⟨hr, e, he, hev⟩)
        · have hr : r ≠ xj := by
            rintro rfl
            rw [hxj] at hl
            cases hl
          exact ⟨l, by rw [hrow, if_neg hr]; exact hl, hk⟩
        · exact ⟨ex, by rw [hrow, if_pos hr], hev ▸ find_isSome_of_mem (c := e.2) he⟩
      · rintro ⟨l, hl, hk⟩
        rw [hrow] at hl
        by_cases hr : r = xj
        · rw [if_pos hr] at hl
          cases hl
          obtain ⟨c, hc⟩ := find_isSome_iff.1 hk
          exact Or.inr ⟨hr, (v, c), hc, rfl⟩
        · rw [if_neg hr] at hl
          exact Or.inl ⟨l, hl, hk⟩

/-! ### `pivot` -/

theorem pivot_eq (t : Lra) (xi xj : Nat) {l : Lin} (hl : t.rowOf xi = some l) (tw : List (List Nat))
    (htw : l.vars.foldl (fun t e => unwatchRow t e.1 xi) { t with tableau := t.tableau.filter (fun e => e.1 != xi) } =
        { t with tableau := t.tableau.filter (fun e => e.1 != xi), tWatches := tw }) :
    t.pivot xi xj =
      ((tw.getD xj []).foldl (fun t r => pivotRow t xj (pivExpr l xi xj) r)
        { t with tableau := t.tableau.filter (fun e => e.1 != xi), tWatches := tw.set xj [] }).newRow xj (pivExpr l xi xj) := by
  unfold pivot
  simp only [hl, Option.getD_some]
  rw [htw]
  rfl

theorem pivot_spec {t : Lra} (ht : Inv t) {xi xj : Nat} {l : Lin} (hl : t.rowOf xi = some l)
    {cf : R} (hcf : Lin.find l.vars xj = some cf) (hn : cf.num ≠ 0) :
    Inv (t.pivot xi xj) ∧ (t.pivot xi xj).vals = t.vals ∧
    (t.pivot xi xj).tWatches.length = t.tWatches.length ∧
    ∀ σ, HoldsR t σ ↔ HoldsR (t.pivot xi xj) σ := by
  have hkxj : (Lin.find l.vars xj).isSome = true := by rw [hcf]; rfl
  have hxjnb : t.rowOf xj = none := ht.nonbasic xi l xj hl hkxj
  have hxjlen : xj < t.tWatches.length := (ht.bound xi l hl).2 xj hkxj
  have hxilen : xi < t.tWatches.length := (ht.bound xi l hl).1
  have hxi : Lin.find l.vars xi = none := by
    cases h : Lin.find l.vars xi with
    | none => rfl
    | some c =>
      have := ht.nonbasic xi l xi hl (by rw [h]; rfl)
      rw [hl] at this
      cases this
  have hne : xj ≠ xi := by
    rintro rfl
    rw [hl] at hxjnb
    cases hxjnb
  obtain ⟨e1, e2, e3, e4⟩ := pivExpr_spec (ht.rows xi l hl) hcf hn hxi
  obtain ⟨tw, a1, a2, a3⟩ := removeRow_spec ht hl
  rw [pivot_eq t xi xj hl tw a1]
  -- rows of the state without the row of `xi`
  have hrow2 : ∀ (tw' : List (List Nat)) r,
      Lra.rowOf { t with tableau := t.tableau.filter (fun e => e.1 != xi), tWatches := tw' } r =
        if r = xi then none else t.rowOf r := by
    intro tw' r
    rw [rowOf_eq]
    show tabFind (t.tableau.filter _) r = _
    rw [tabFind_filter]
    rfl
  -- the state at the start of the loop
  have hp3 : PInv xj { t with tableau := t.tableau.filter (fun e => e.1 != xi), tWatches := tw.set xj [] } := by
    refine ⟨⟨a3.keys, ?_, ?_, ?_, ?_⟩, ?_, ?_⟩
    · intro r l' h
      exact a3.rows r l' h
    · intro r l' h
      show r < (tw.set xj []).length ∧ ∀ v, _ → v < (tw.set xj []).length
      rw [List.length_set]
      exact a3.bound r l' h
    · intro r l' v h hv
      exact a3.nonbasic r l' v h hv
    · exact forall_mem_set a3.wsorted List.Pairwise.nil
    · intro v hv r
      show r ∈ (tw.set xj []).getD v [] ↔ _
      rw [getD_set, if_neg (fun h => hv h.1.symm)]
      exact a3.watch v r
    · show (tw.set xj []).getD xj [] = []
      rw [getD_set, if_pos ⟨rfl, by rw [a2]; exact hxjlen⟩]
  have hex3 : ExOk xj (pivExpr l xi xj)
      { t with tableau := t.tableau.filter (fun e => e.1 != xi), tWatches := tw.set xj [] } := by
    refine ⟨e1, ?_, ?_⟩
    · intro v hv
      show v < (tw.set xj []).length ∧ _
      rw [List.length_set, a2, hrow2]
      rcases (e2 v).1 hv with rfl | ⟨-, hk⟩
      · exact ⟨hxilen, by rw [if_pos rfl]⟩
      · refine ⟨(ht.bound xi l hl).2 v hk, ?_⟩
        split
        · rfl
        · exact ht.nonbasic xi l v hl hk
    · cases h : Lin.find (pivExpr l xi xj).vars xj with
      | none => rfl
      | some c =>
        rcases (e2 xj).1 (by rw [h]; rfl) with h' | ⟨h', -⟩
        · exact absurd h' hne
        · exact absurd rfl h'
  have hsome3 : ∀ r ∈ tw.getD xj [],
      (Lra.rowOf { t with tableau := t.tableau.filter (fun e => e.1 != xi), tWatches := tw.set xj [] } r).isSome = true := by
    intro r hr
    obtain ⟨l', hl', -⟩ := (a3.watch xj r).1 hr
    rw [hrow2] at hl' ⊢
    rw [hl']
    rfl
  have hP3 : ∀ r l', Lra.rowOf { t with tableau := t.tableau.filter (fun e => e.1 != xi), tWatches := tw.set xj [] } r = some l' →
      (Lin.find l'.vars xj).isSome = true → r ∈ tw.getD xj [] := by
    intro r l' hl' hk
    refine (a3.watch xj r).2 ⟨l', ?_, hk⟩
    rw [hrow2] at hl' ⊢
    exact hl'
  obtain ⟨c1, c2, c3, c4, c5, c6, c7⟩ := pivotLoop_spec xj (pivExpr l xi xj) (tw.getD xj []) _ hp3 hex3 hsome3 hP3
  have hxj4 : Lra.rowOf ((tw.getD xj []).foldl (fun t r => pivotRow t xj (pivExpr l xi xj) r)
      { t with tableau := t.tableau.filter (fun e => e.1 != xi), tWatches := tw.set xj [] }) xj = none := by
    have := c5 xj
    rw [hrow2, if_neg hne, hxjnb] at this
    exact Option.isSome_eq_false_iff.1 this |> Option.isNone_iff_eq_none.1
  have hlen4 : xj < ((tw.getD xj []).foldl (fun t r => pivotRow t xj (pivExpr l xi xj) r)
      { t with tableau := t.tableau.filter (fun e => e.1 != xi), tWatches := tw.set xj [] }).tWatches.length := by
    rw [c4]
    show xj < (tw.set xj []).length
    rw [List.length_set, a2]
    exact hxjlen
  obtain ⟨d1, d2, d3, d4⟩ := newRow_spec c1 c2 hxj4 hlen4 c6
  refine ⟨d1, d2.trans c3, ?_, ?_⟩
  · rw [d3, c4]
    show (tw.set xj []).length = _
    rw [List.length_set, a2]
  · intro σ
    -- the row of `xi` holds iff the new row of `xj` holds
    have halg : σ xi = Lin.evalS l σ ↔ σ xj = Lin.evalS (pivExpr l xi xj) σ := by
      rw [e4 σ]
      constructor
      · intro h
        rw [← h]
        field_simp
        ring
      · intro h
        have h' := h
        field_simp at h'
        linarith
    constructor
    · intro h
      have hxiHolds : σ xi = Lin.evalS l σ := h xi l hl
      have hσ := halg.1 hxiHolds
      have h3 : HoldsR { t with tableau := t.tableau.filter (fun e => e.1 != xi), tWatches := tw.set xj [] } σ := by
        intro r l' hl'
        rw [hrow2] at hl'
        by_cases hr : r = xi
        · rw [if_pos hr] at hl'; cases hl'
        · rw [if_neg hr] at hl'; exact h r l' hl'
      have h4 := (c7 σ hσ).1 h3
      intro r l' hl'
      rw [d4] at hl'
      by_cases hr : r = xj
      · rw [if_pos hr] at hl'
        cases hl'
        rw [hr]
        exact hσ
      · rw [if_neg hr] at hl'
        exact h4 r l' hl'
    · intro h
      have hσ : σ xj = Lin.evalS (pivExpr l xi xj) σ := h xj _ (by rw [d4, if_pos rfl])
      have h4 : HoldsR ((tw.getD xj []).foldl (fun t r => pivotRow t xj (pivExpr l xi xj) r)
          { t with tableau := t.tableau.filter (fun e => e.1 != xi), tWatches := tw.set xj [] }) σ := by
        intro r l' hl'
        have hr : r ≠ xj := by
          rintro rfl
          rw [hxj4] at hl'
          cases hl'
        exact h r l' (by rw [d4, if_neg hr]; exact hl')
      have h3 := (c7 σ hσ).2 h4
      intro r l' hl'
      by_cases hr : r = xi
      · subst hr
        rw [hl] at hl'
        cases hl'
        exact halg.2 hσ
      · exact h3 r l' (by rw [hrow2, if_neg hr]; exact hl')

end Lra
end Oratio
