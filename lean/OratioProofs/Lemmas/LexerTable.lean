/-
Helper for C16_keyword_table: a kernel-evaluable check of the generated symbol table, row by row.
-/
import OratioModel
import Gen.Symbols
import Batteries.Lean.Except

namespace Oratio
namespace Riddle

/-- row `e = (enumerator, spelling)` is excluded, or `f` names a symbol and the spelling lexes to
    exactly that symbol followed by `EOF`, with and without a trailing blank -/
def rowOk (excl : List String) (f : String → Option Sym) (e : String × String) : Bool :=
  excl.contains e.1 ||
    match f e.1 with
    | some s => decide (lex (strInts e.2 ++ [ch ' ']) = .ok [.sym s, .sym .EOF]) &&
                decide (lex (strInts e.2) = .ok [.sym s, .sym .EOF])
    | none => false

theorem rows_of_all (tbl : List (String × String)) (excl : List String) (f : String → Option Sym)
    (hall : tbl.all (rowOk excl f) = true) :
    ∀ e ∈ tbl, e.1 ∉ excl →
      ∃ s, f e.1 = some s ∧
        lex (strInts e.2 ++ [ch ' ']) = .ok [.sym s, .sym .EOF] ∧
        lex (strInts e.2) = .ok [.sym s, .sym .EOF] := by
  intro e he hex
  have h := List.all_eq_true.1 hall e he
  unfold rowOk at h
  cases hf : f e.1 with
  | none => simp [hf, hex] at h
  | some s =>
    simp [hf, hex] at h
    exact ⟨s, rfl, h.1, h.2⟩

end Riddle
end Oratio
