/-
Lemmas for property C12, real-valued instance, part 3: `bounds(l)` encloses the value of `l` under
every ε-rational valuation that respects the distance matrix; rational valuations; exact states;
the zero tests of `equates`.
-/
import OratioProofs.Lemmas.DlRelRBounds

namespace Oratio
namespace DlRelR
open Dl DlRel R

/-- a valuation that respects the two entries of a pair lies within `distance(a, b)` -/
theorem pair_in_distance (t : Dl IR) (σ : Nat → QV) (a b : Nat)
    (hg : IR.Good (Dl.d rdlOps t a b)) (hg' : IR.Good (Dl.d rdlOps t b a))
    (h1 : ∀ x, t.rdist? a b = some x → σ b - σ a ≤ x) (h2 : ∀ x, t.rdist? b a = some x → σ a - σ b ≤ x) :
    IR.lbHolds (distance rdlOps t a b).1 (σ b - σ a) ∧ IR.ubHolds (distance rdlOps t a b).2 (σ b - σ a) := by
  constructor
  · show IR.lbHolds (rdlOps.neg (Dl.d rdlOps t b a)) _
    rcases hg'.rat_cases with hf | hp
    · have hfin : IR.Fin (Dl.d rdlOps t b a) := ⟨hf, hg'.2.2⟩
      obtain ⟨n1, n2⟩ := IR.fin_neg hfin
      rw [lbHolds_fin n1, n2]
      have hr : t.rdist? b a = some (IR.val (Dl.d rdlOps t b a)) := by
        unfold Dl.rdist?; dsimp only; rw [if_neg hf.2]
      have := h2 _ hr
      rw [neg_le, neg_sub]
      exact this
    · left
      show R.neg (Dl.d rdlOps t b a).rat = ninf
      rw [hp]; rfl
  · show IR.ubHolds (Dl.d rdlOps t a b) _
    rcases hg.rat_cases with hf | hp
    · have hfin : IR.Fin (Dl.d rdlOps t a b) := ⟨hf, hg.2.2⟩
      rw [ubHolds_fin hfin]
      have hr : t.rdist? a b = some (IR.val (Dl.d rdlOps t a b)) := by
        unfold Dl.rdist?; dsimp only; rw [if_neg hf.2]
      exact h1 _ hr
    · exact Or.inl hp

/-- (iii) soundness of `bounds`, for ε-rational valuations -/
theorem boundsLin_rdl_sound (t : Dl IR) (l : Lin) (hl : l.WF)
    (hnz : ∀ x c, l.vars = [(x, c)] → c.num ≠ 0) (lo hi : IR)
    (hb : boundsLin rdlOps t l = some (lo, hi))
    (hg : t.GoodOn (0 :: l.vars.map (·.1)))
    (σ : Nat → QV) (h0 : σ 0 = 0) (hσ : t.RespectsOn σ (0 :: l.vars.map (·.1))) :
    IR.lbHolds lo (Lin.evalQV l σ) ∧ IR.ubHolds hi (Lin.evalQV l σ) := by
  obtain ⟨vars, known⟩ := l
  match vars with
  | [] =>
    have hk : FinWF known := ((Lin.wf_iff _).1 hl).2.2
    rw [boundsLin_nil] at hb
    simp only [Option.some.injEq, Prod.mk.injEq] at hb
    obtain ⟨rfl, rfl⟩ := hb
    have hf : IR.Fin ⟨known, R.zero⟩ := ⟨hk, finWF_zero⟩
    have hv : IR.val ⟨known, R.zero⟩ = Lin.evalQV ⟨[], known⟩ σ := by
      show (toLex (known.toRat, R.zero.toRat) : QV) = 0 + toLex (known.toRat, 0)
      rw [toRat_zero, zero_add]
    rw [lbHolds_fin hf, ubHolds_fin hf, hv]
    exact ⟨le_refl _, le_refl _⟩
  | [(x, c)] =>
    obtain ⟨hc, hk⟩ := wf1 hl
    have hcn : c.num ≠ 0 := hnz x c rfl
    rw [boundsLin_one] at hb
    simp only [Option.some.injEq] at hb
    have g1 : IR.Good (Dl.d rdlOps t 0 x) := hg 0 (by simp) x (by simp)
    have g2 : IR.Good (Dl.d rdlOps t x 0) := hg x (by simp) 0 (by simp)
    have hin := pair_in_distance t σ 0 x g1 g2 (hσ 0 (by simp) x (by simp)) (hσ x (by simp) 0 (by simp))
    rw [h0, sub_zero] at hin
    have hev : Lin.evalQV ⟨[(x, c)], known⟩ σ = QV.smul c.toRat (σ x) + QV.ofQ known.toRat := by
      show ([QV.smul c.toRat (σ x)]).sum + _ = _
      rw [List.sum_cons, List.sum_nil, add_zero]
    have him := (image_pair (goodL_neg g2) g1 hc hcn hk (σ x)).2 hin
    rw [hev]
    rw [show (lb rdlOps t x) = rdlOps.neg (Dl.d rdlOps t x 0) from rfl,
        show (ub rdlOps t x) = Dl.d rdlOps t 0 x from rfl] at hb
    rw [hb] at him
    exact him
  | [(v0, c), (v1, c1)] =>
    obtain ⟨hlt, hc, hc1, hk⟩ := wf2 hl
    rw [boundsLin_two t v0 v1 c c1 known (Nat.ne_of_lt hlt)] at hb
    split at hb
    · exact absurd hb (by simp)
    · rename_i hne
      obtain ⟨hcn, hc10⟩ := ne_negOne hc hc1 hne
      simp only [Option.some.injEq] at hb
      have g1 : IR.Good (Dl.d rdlOps t v1 v0) := hg v1 (by simp) v0 (by simp)
      have g2 : IR.Good (Dl.d rdlOps t v0 v1) := hg v0 (by simp) v1 (by simp)
      have hin := pair_in_distance t σ v1 v0 g1 g2 (hσ v1 (by simp) v0 (by simp)) (hσ v0 (by simp) v1 (by simp))
      have hev : Lin.evalQV ⟨[(v0, c), (v1, c1)], known⟩ σ =
          QV.smul c.toRat (σ v0 - σ v1) + QV.ofQ known.toRat := by
        show ([QV.smul c.toRat (σ v0), QV.smul c1.toRat (σ v1)]).sum + _ = _
        rw [List.sum_cons, List.sum_cons, List.sum_nil, add_zero, hc10, smul_sub_neg]
      have him := (image_pair (goodL_neg g2) g1 hc hcn hk (σ v0 - σ v1)).2 hin
      rw [hev]
      rw [show (distance rdlOps t v1 v0).1 = rdlOps.neg (Dl.d rdlOps t v0 v1) from rfl,
          show (distance rdlOps t v1 v0).2 = Dl.d rdlOps t v1 v0 from rfl] at hb
      rw [hb] at him
      exact him
  | _ :: _ :: _ :: _ => exact absurd hb (by simp [boundsLin])

/-! ### rational valuations -/

theorem sum_embQ (σ : Nat → ℚ) : ∀ m : List (Nat × R),
    (m.map (fun t => QV.smul t.2.toRat (embQ σ t.1))).sum = toLex ((m.map (fun t => t.2.toRat * σ t.1)).sum, 0)
  | [] => rfl
  | a :: m => by
    rw [List.map_cons, List.sum_cons, List.map_cons, List.sum_cons, sum_embQ σ m]
    show QV.smul a.2.toRat (toLex (σ a.1, 0)) + _ = _
    rw [smul_embed]
    show (toLex (a.2.toRat * σ a.1 + _, (0 : ℚ) + 0) : QV) = _
    rw [add_zero]
    rfl

/-- on a rational valuation the ε-rational value of an expression is its rational value -/
theorem evalQV_embQ (l : Lin) (σ : Nat → ℚ) : Lin.evalQV l (embQ σ) = QV.ofQ (Lin.eval l σ) := by
  unfold Lin.evalQV Lin.eval
  rw [sum_embQ]
  show (toLex (_ + l.known.toRat, (0 : ℚ) + 0) : QV) = _
  rw [add_zero]
  rfl

/-! ### exact states -/

theorem exact_goodOn {E : List QEdge} {t : Dl IR} (h : t.ExactR E) (vs : List Nat) (hv : ∀ v ∈ vs, v < t.nVars) :
    t.GoodOn vs := fun i hi j hj => h.wf i j (hv i hi) (hv j hj)

theorem exact_respectsOn {E : List QEdge} {t : Dl IR} (h : t.ExactR E) (vs : List Nat) (hv : ∀ v ∈ vs, v < t.nVars)
    (σ : Nat → QV) (hσ : ∀ e ∈ E, QEdge.holds σ e) : t.RespectsOn σ vs :=
  fun i hi j hj x hx => h.implied i j (hv i hi) (hv j hj) x hx σ hσ

theorem boundsLin_rdl_sound_exact (E : List QEdge) (t : Dl IR) (h : t.ExactR E) (l : Lin) (hl : l.WF)
    (hnz : ∀ x c, l.vars = [(x, c)] → c.num ≠ 0) (hv : ∀ v ∈ l.vars.map (·.1), v < t.nVars) (lo hi : IR)
    (hb : boundsLin rdlOps t l = some (lo, hi))
    (σ : Nat → QV) (h0 : σ 0 = 0) (hσ : ∀ e ∈ E, QEdge.holds σ e) :
    IR.lbHolds lo (Lin.evalQV l σ) ∧ IR.ubHolds hi (Lin.evalQV l σ) := by
  have hv' : ∀ v ∈ (0 :: l.vars.map (·.1)), v < t.nVars := by
    intro v hm
    rcases List.mem_cons.1 hm with rfl | hm
    · exact h.size_ok.1
    · exact hv v hm
  exact boundsLin_rdl_sound t l hl hnz lo hi hb (exact_goodOn h _ hv') σ h0 (exact_respectsOn h _ hv' σ hσ)

end DlRelR
end Oratio
