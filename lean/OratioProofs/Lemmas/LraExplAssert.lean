/-
C09X, part 6: `assert_lower / assert_upper`: the conflict clause, the recorded clauses, and the
invariants of the resulting state.
-/
import OratioProofs.Lemmas.LraExplProp
import OratioProofs.Lemmas.LraExplPivot

namespace Oratio
namespace Lra
open IR Lin

/-! ### the state reached when the bound is stored -/

/-- the theory state of `assert_lower` after the new bound is stored (and the value moved) -/
def alState (t : Lra) (xi : Nat) (val : IR) (p : Lit) : Lra :=
  let t := t.saveBound (lbIdx xi)
  let t := t.setBound (lbIdx xi) ⟨val, p⟩
  if IR.lt (t.value xi) val && !t.isBasic xi then t.update xi val else t

/-- the theory state of `assert_upper` after the new bound is stored (and the value moved) -/
def auState (t : Lra) (xi : Nat) (val : IR) (p : Lit) : Lra :=
  let t := t.saveBound (ubIdx xi)
  let t := t.setBound (ubIdx xi) ⟨val, p⟩
  if IR.gt (t.value xi) val && !t.isBasic xi then t.update xi val else t

/-- `u` is `t` with the bound `i` overwritten and possibly other values (and an older undo log) -/
structure BoundSet (t u : Lra) (i : Nat) (b : LBound) : Prop where
  bounds : u.bounds = t.bounds.set i b
  tableau : u.tableau = t.tableau
  tWatches : u.tWatches = t.tWatches
  vAsrts : u.vAsrts = t.vAsrts
  aWatches : u.aWatches = t.aWatches
  vlen : u.vals.length = t.vals.length

theorem saveBound_same (t : Lra) (i : Nat) :
    (t.saveBound i).bounds = t.bounds ∧ (t.saveBound i).tableau = t.tableau ∧
    (t.saveBound i).tWatches = t.tWatches ∧ (t.saveBound i).vAsrts = t.vAsrts ∧
    (t.saveBound i).aWatches = t.aWatches ∧ (t.saveBound i).vals = t.vals := by
  unfold saveBound
  split
  · exact ⟨rfl, rfl, rfl, rfl, rfl, rfl⟩
  · split <;> exact ⟨rfl, rfl, rfl, rfl, rfl, rfl⟩

theorem update_vals_length (t : Lra) (xi : Nat) (v : IR) : (t.update xi v).vals.length = t.vals.length := by
  unfold update
  show (List.set _ _ _).length = _
  rw [List.length_set]
  refine C09_foldl_inv (fun (u : Lra) => u.vals.length = t.vals.length) _ ?_ _ _ rfl
  intro u x hu
  show (u.vals.set _ _).length = _
  rw [List.length_set]; exact hu

theorem boundSet_mid (t : Lra) (i : Nat) (b : LBound) : BoundSet t ((t.saveBound i).setBound i b) i b := by
  obtain ⟨h1, h2, h3, h4, h5, h6⟩ := saveBound_same t i
  exact ⟨by show (t.saveBound i).bounds.set i b = _; rw [h1], h2, h3, h4, h5, by show (t.saveBound i).vals.length = _; rw [h6]⟩

theorem BoundSet.update {t u : Lra} {i : Nat} {b : LBound} (h : BoundSet t u i b) (xi : Nat) (v : IR) :
    BoundSet t (u.update xi v) i b := by
  have e := update_eq u xi v
  refine ⟨?_, ?_, ?_, ?_, ?_, ?_⟩
  · rw [e]; exact h.bounds
  · rw [e]; exact h.tableau
  · rw [e]; exact h.tWatches
  · rw [e]; exact h.vAsrts
  · rw [e]; exact h.aWatches
  · rw [update_vals_length]; exact h.vlen

theorem boundSet_al (t : Lra) (xi : Nat) (val : IR) (p : Lit) :
    BoundSet t (alState t xi val p) (lbIdx xi) ⟨val, p⟩ := by
  unfold alState
  simp only
  split
  · exact (boundSet_mid t _ _).update _ _
  · exact boundSet_mid t _ _

theorem boundSet_au (t : Lra) (xi : Nat) (val : IR) (p : Lit) :
    BoundSet t (auState t xi val p) (ubIdx xi) ⟨val, p⟩ := by
  unfold auState
  simp only
  split
  · exact (boundSet_mid t _ _).update _ _
  · exact boundSet_mid t _ _

/-! ### the shape of `assert_lower / assert_upper` -/

theorem assertLower_eq3 (s : Sat) (t : Lra) (xi : Nat) (val : IR) (p : Lit)
    (h1 : ¬ IR.le val (t.lb xi) = true) (h2 : ¬ IR.gt val (t.ub xi) = true) :
    assertLower s t xi val p =
      (match forAll (fun s b => match (alState t xi val p).asrtOf b with
            | some a => asrtPropagateLb s (alState t xi val p) a xi
            | none => (none, s)) s ((alState t xi val p).aWatches.getD xi []) with
        | (some c, s) => (⟨some c, s, alState t xi val p⟩ : LOut)
        | (none, s) =>
          let (c, s) := forAll (fun s x => rowPropagateLb s (alState t xi val p) x xi) s
            ((alState t xi val p).tWatches.getD xi [])
          ⟨c, s, alState t xi val p⟩) := by
  unfold assertLower
  rw [if_neg h1, if_neg h2]
  rfl

theorem assertLower_cases (s : Sat) (t : Lra) (xi : Nat) (val : IR) (p : Lit) :
    (IR.le val (t.lb xi) = true ∧ assertLower s t xi val p = ⟨none, s, t⟩) ∨
    (IR.le val (t.lb xi) = false ∧ IR.gt val (t.ub xi) = true ∧
      assertLower s t xi val p = ⟨some [p.neg, (t.ubReason xi).neg], s, t⟩) ∨
    (IR.le val (t.lb xi) = false ∧ IR.gt val (t.ub xi) = false ∧
      ∃ r1 r2,
        r1 = forAll (fun s b => match (alState t xi val p).asrtOf b with
            | some a => asrtPropagateLb s (alState t xi val p) a xi
            | none => (none, s)) s ((alState t xi val p).aWatches.getD xi []) ∧
        r2 = forAll (fun s x => rowPropagateLb s (alState t xi val p) x xi) r1.2
            ((alState t xi val p).tWatches.getD xi []) ∧
        ((∃ c, r1.1 = some c ∧ assertLower s t xi val p = ⟨some c, r1.2, alState t xi val p⟩) ∨
         (r1.1 = none ∧ assertLower s t xi val p = ⟨r2.1, r2.2, alState t xi val p⟩))) := by
  by_cases h1 : IR.le val (t.lb xi) = true
  · left
    exact ⟨h1, by unfold assertLower; rw [if_pos h1]⟩
  · right
    have h1' : IR.le val (t.lb xi) = false := by simpa using h1
    by_cases h2 : IR.gt val (t.ub xi) = true
    · left
      exact ⟨h1', h2, by unfold assertLower; rw [if_neg h1, if_pos h2]⟩
    · right
      have h2' : IR.gt val (t.ub xi) = false := by simpa using h2
      refine ⟨h1', h2', _, _, rfl, rfl, ?_⟩
      rw [assertLower_eq3 s t xi val p h1 h2]
      generalize forAll (fun s b => match (alState t xi val p).asrtOf b with
            | some a => asrtPropagateLb s (alState t xi val p) a xi
            | none => (none, s)) s ((alState t xi val p).aWatches.getD xi []) = r1
      obtain ⟨c1, s1⟩ := r1
      cases c1 with
      | some c => left; exact ⟨c, rfl, rfl⟩
      | none => right; exact ⟨rfl, rfl⟩

theorem assertUpper_eq3 (s : Sat) (t : Lra) (xi : Nat) (val : IR) (p : Lit)
    (h1 : ¬ IR.ge val (t.ub xi) = true) (h2 : ¬ IR.lt val (t.lb xi) = true) :
    assertUpper s t xi val p =
      (match forAll (fun s b => match (auState t xi val p).asrtOf b with
            | some a => asrtPropagateUb s (auState t xi val p) a xi
            | none => (none, s)) s ((auState t xi val p).aWatches.getD xi []) with
        | (some c, s) => (⟨some c, s, auState t xi val p⟩ : LOut)
        | (none, s) =>
          let (c, s) := forAll (fun s x => rowPropagateUb s (auState t xi val p) x xi) s
            ((auState t xi val p).tWatches.getD xi [])
          ⟨c, s, auState t xi val p⟩) := by
  unfold assertUpper
  rw [if_neg h1, if_neg h2]
  rfl

theorem assertUpper_cases (s : Sat) (t : Lra) (xi : Nat) (val : IR) (p : Lit) :
    (IR.ge val (t.ub xi) = true ∧ assertUpper s t xi val p = ⟨none, s, t⟩) ∨
    (IR.ge val (t.ub xi) = false ∧ IR.lt val (t.lb xi) = true ∧
      assertUpper s t xi val p = ⟨some [p.neg, (t.lbReason xi).neg], s, t⟩) ∨
    (IR.ge val (t.ub xi) = false ∧ IR.lt val (t.lb xi) = false ∧
      ∃ r1 r2,
        r1 = forAll (fun s b => match (auState t xi val p).asrtOf b with
            | some a => asrtPropagateUb s (auState t xi val p) a xi
            | none => (none, s)) s ((auState t xi val p).aWatches.getD xi []) ∧
        r2 = forAll (fun s x => rowPropagateUb s (auState t xi val p) x xi) r1.2
            ((auState t xi val p).tWatches.getD xi []) ∧
        ((∃ c, r1.1 = some c ∧ assertUpper s t xi val p = ⟨some c, r1.2, auState t xi val p⟩) ∨
         (r1.1 = none ∧ assertUpper s t xi val p = ⟨r2.1, r2.2, auState t xi val p⟩))) := by
  by_cases h1 : IR.ge val (t.ub xi) = true
  · left
    exact ⟨h1, by unfold assertUpper; rw [if_pos h1]⟩
  · right
    have h1' : IR.ge val (t.ub xi) = false := by simpa using h1
    by_cases h2 : IR.lt val (t.lb xi) = true
    · left
      exact ⟨h1', h2, by unfold assertUpper; rw [if_neg h1, if_pos h2]⟩
    · right
      have h2' : IR.lt val (t.lb xi) = false := by simpa using h2
      refine ⟨h1', h2', _, _, rfl, rfl, ?_⟩
      rw [assertUpper_eq3 s t xi val p h1 h2]
      generalize forAll (fun s b => match (auState t xi val p).asrtOf b with
            | some a => asrtPropagateUb s (auState t xi val p) a xi
            | none => (none, s)) s ((auState t xi val p).aWatches.getD xi []) = r1
      obtain ⟨c1, s1⟩ := r1
      cases c1 with
      | some c => left; exact ⟨c, rfl, rfl⟩
      | none => right; exact ⟨rfl, rfl⟩

/-! ### the invariants and the semantics move to the new state -/

section moved
variable {t u : Lra} {i : Nat} {b : LBound}

theorem BoundSet.bnd (h : BoundSet t u i b) (hi : i < t.bounds.length) :
    u.bnd i = b ∧ ∀ j, j ≠ i → u.bnd j = t.bnd j :=
  C09_bnd_of_bounds_set t u i b h.bounds hi

theorem BoundSet.asrtOf (h : BoundSet t u i b) (k : Nat) : u.asrtOf k = t.asrtOf k := by
  unfold Lra.asrtOf; rw [h.vAsrts]

theorem BoundSet.tabWF (h : BoundSet t u i b) (ht : TabWF t) : TabWF u :=
  tabWF_congr h.tableau h.tWatches h.vlen ht

theorem BoundSet.solves (h : BoundSet t u i b) {σr σi : Nat → Rat} (hs : Solves t σr σi) : Solves u σr σi := by
  unfold Solves; rw [h.tableau]; exact hs

theorem BoundSet.agrees (h : BoundSet t u i b) {α : Asg} {σr σi : Nat → Rat} (ha : AsrtAgrees α σr σi t) :
    AsrtAgrees α σr σi u := by
  unfold AsrtAgrees; rw [h.vAsrts]; exact ha

theorem BoundSet.len (h : BoundSet t u i b) : u.bounds.length = t.bounds.length := by
  rw [h.bounds, List.length_set]

end moved

/-- lower bound overwritten -/
theorem explInv_setLb {t u : Lra} {xi : Nat} {val : IR} {p : Lit} (h : BoundSet t u (lbIdx xi) ⟨val, p⟩)
    (hxi : ubIdx xi < t.bounds.length) (hval : IR.Fin val) (inv : ExplInv t) : ExplInv u := by
  have hk : lbIdx xi < t.bounds.length := by unfold lbIdx; unfold ubIdx at hxi; omega
  obtain ⟨b1, b2⟩ := h.bnd hk
  refine ⟨h.tabWF inv.tab, ?_, ?_, ?_, ?_⟩
  · intro x
    constructor
    · by_cases hx : x = xi
      · subst hx; unfold Lra.lb; rw [b1]; exact Or.inl hval
      · have : lbIdx x ≠ lbIdx xi := by unfold lbIdx; omega
        unfold Lra.lb; rw [b2 _ this]; exact (inv.bok x).1
    · have : ubIdx x ≠ lbIdx xi := by unfold lbIdx ubIdx; omega
      unfold Lra.ub; rw [b2 _ this]; exact (inv.bok x).2
  · unfold BoundsLen; rw [h.len, h.vlen]; exact inv.blen
  · unfold AsrtOK; rw [h.vAsrts]; exact inv.aok
  · intro x k hk a hka
    rw [h.aWatches] at hk
    rw [h.asrtOf] at hka
    exact inv.awatch x k hk a hka

/-- upper bound overwritten -/
theorem explInv_setUb {t u : Lra} {xi : Nat} {val : IR} {p : Lit} (h : BoundSet t u (ubIdx xi) ⟨val, p⟩)
    (hxi : ubIdx xi < t.bounds.length) (hval : IR.Fin val) (inv : ExplInv t) : ExplInv u := by
  obtain ⟨b1, b2⟩ := h.bnd hxi
  refine ⟨h.tabWF inv.tab, ?_, ?_, ?_, ?_⟩
  · intro x
    constructor
    · have : lbIdx x ≠ ubIdx xi := by unfold lbIdx ubIdx; omega
      unfold Lra.lb; rw [b2 _ this]; exact (inv.bok x).1
    · by_cases hx : x = xi
      · subst hx; unfold Lra.ub; rw [b1]; exact Or.inl hval
      · have : ubIdx x ≠ ubIdx xi := by unfold ubIdx; omega
        unfold Lra.ub; rw [b2 _ this]; exact (inv.bok x).2
  · unfold BoundsLen; rw [h.len, h.vlen]; exact inv.blen
  · unfold AsrtOK; rw [h.vAsrts]; exact inv.aok
  · intro x k hk a hka
    rw [h.aWatches] at hk
    rw [h.asrtOf] at hka
    exact inv.awatch x k hk a hka

theorem boundsJust_setLb {t u : Lra} {xi : Nat} {val : IR} {p : Lit} (h : BoundSet t u (lbIdx xi) ⟨val, p⟩)
    (hxi : ubIdx xi < t.bounds.length) (hval : IR.Fin val) {α : Asg} {σr σi : Nat → Rat}
    (hj : BoundsJust α σr σi t) (hob : α.lit p = true → IR.val val ≤ nu σr σi xi) : BoundsJust α σr σi u := by
  have hk : lbIdx xi < t.bounds.length := by unfold lbIdx; unfold ubIdx at hxi; omega
  obtain ⟨b1, b2⟩ := h.bnd hk
  intro x hx
  rw [h.len] at hx
  constructor
  · by_cases hxx : x = xi
    · subst hxx
      unfold Lra.lb Lra.lbReason; rw [b1]
      intro hp
      exact (BLe.fin hval).2 (hob hp)
    · have : lbIdx x ≠ lbIdx xi := by unfold lbIdx; omega
      unfold Lra.lb Lra.lbReason; rw [b2 _ this]; exact (hj x hx).1
  · have : ubIdx x ≠ lbIdx xi := by unfold lbIdx ubIdx; omega
    unfold Lra.ub Lra.ubReason; rw [b2 _ this]; exact (hj x hx).2

theorem boundsJust_setUb {t u : Lra} {xi : Nat} {val : IR} {p : Lit} (h : BoundSet t u (ubIdx xi) ⟨val, p⟩)
    (hxi : ubIdx xi < t.bounds.length) (hval : IR.Fin val) {α : Asg} {σr σi : Nat → Rat}
    (hj : BoundsJust α σr σi t) (hob : α.lit p = true → nu σr σi xi ≤ IR.val val) : BoundsJust α σr σi u := by
  obtain ⟨b1, b2⟩ := h.bnd hxi
  intro x hx
  rw [h.len] at hx
  constructor
  · have : lbIdx x ≠ ubIdx xi := by unfold lbIdx ubIdx; omega
    unfold Lra.lb Lra.lbReason; rw [b2 _ this]; exact (hj x hx).1
  · by_cases hxx : x = xi
    · subst hxx
      unfold Lra.ub Lra.ubReason; rw [b1]
      intro hp
      exact (VLe.fin hval).2 (hob hp)
    · have : ubIdx x ≠ ubIdx xi := by unfold ubIdx; omega
      unfold Lra.ub Lra.ubReason; rw [b2 _ this]; exact (hj x hx).2

/-! ### `assert_lower`, `assert_upper`: validity -/

theorem assertLower_valid {t : Lra} (inv : ExplInv t) (s : Sat) {xi : Nat} {val : IR} (p : Lit)
    (hval : IR.Fin val) (hxi : ubIdx xi < t.bounds.length) {α : Asg} {σr σi : Nat → Rat}
    (hs : Solves t σr σi) (hj : BoundsJust α σr σi t) (ha : AsrtAgrees α σr σi t)
    (hob : α.lit p = true → IR.val val ≤ nu σr σi xi) :
    OutOK (Tr α) s ((assertLower s t xi val p).cnfl, (assertLower s t xi val p).sat) ∧
    BoundsJust α σr σi (assertLower s t xi val p).th ∧ Solves (assertLower s t xi val p).th σr σi ∧
    AsrtAgrees α σr σi (assertLower s t xi val p).th ∧ ExplInv (assertLower s t xi val p).th := by
  rcases assertLower_cases s t xi val p with ⟨_, e⟩ | ⟨_, h2, e⟩ | ⟨_, _, r1, r2, e1, e2, e⟩
  · rw [e]; exact ⟨okN α s, hj, hs, ha, inv⟩
  · rw [e]
    refine ⟨okC s ?_, hj, hs, ha, inv⟩
    apply Dl.clause_true_of
    intro hall
    have hp := lit_of_neg_false (hall p.neg List.mem_cons_self)
    have hr := lit_of_neg_false (hall (t.ubReason xi).neg (List.mem_cons_of_mem _ List.mem_cons_self))
    obtain ⟨f1, f2⟩ := ub_of_gt hval (inv.bok xi).2 h2
    have h3 := (VLe.fin f1).1 ((hj xi hxi).2 hr)
    exact absurd (lt_of_lt_of_le f2 (le_trans (hob hp) h3)) (lt_irrefl _)
  · have hbs := boundSet_al t xi val p
    have inv' := explInv_setLb hbs hxi hval inv
    have hj' := boundsJust_setLb hbs hxi hval hj hob
    have hs' := hbs.solves hs
    have ha' := hbs.agrees ha
    have hxi' : ubIdx xi < (alState t xi val p).bounds.length := by rw [hbs.len]; exact hxi
    have ok1 : OutOK (Tr α) s r1 := by
      rw [e1]
      apply forAll_ok
      intro s' b hb
      cases hab : (alState t xi val p).asrtOf b with
      | none => exact okN α s'
      | some a =>
        exact asrtPropagateLb_ok inv'.bok inv'.aok hj' ha' s' hxi' (asrtOf_mem hab) (inv'.awatch xi b hb a hab)
    have ok2 : OutOK (Tr α) r1.2 r2 := by
      rw [e2]
      apply forAll_ok
      intro s' x hx
      exact rowPropagateLb_ok inv' hs' hj' ha' s' hx
    rcases e with ⟨c, hc, e⟩ | ⟨hn, e⟩
    · rw [e]
      refine ⟨?_, hj', hs', ha', inv'⟩
      obtain ⟨c1, s1⟩ := r1
      simp only at hc
      subst hc
      exact ok1
    · rw [e]
      refine ⟨?_, hj', hs', ha', inv'⟩
      exact OutOK.trans ok1.2 ok2

theorem assertUpper_valid {t : Lra} (inv : ExplInv t) (s : Sat) {xi : Nat} {val : IR} (p : Lit)
    (hval : IR.Fin val) (hxi : ubIdx xi < t.bounds.length) {α : Asg} {σr σi : Nat → Rat}
    (hs : Solves t σr σi) (hj : BoundsJust α σr σi t) (ha : AsrtAgrees α σr σi t)
    (hob : α.lit p = true → nu σr σi xi ≤ IR.val val) :
    OutOK (Tr α) s ((assertUpper s t xi val p).cnfl, (assertUpper s t xi val p).sat) ∧
    BoundsJust α σr σi (assertUpper s t xi val p).th ∧ Solves (assertUpper s t xi val p).th σr σi ∧
    AsrtAgrees α σr σi (assertUpper s t xi val p).th ∧ ExplInv (assertUpper s t xi val p).th := by
  rcases assertUpper_cases s t xi val p with ⟨_, e⟩ | ⟨_, h2, e⟩ | ⟨_, _, r1, r2, e1, e2, e⟩
  · rw [e]; exact ⟨okN α s, hj, hs, ha, inv⟩
  · rw [e]
    refine ⟨okC s ?_, hj, hs, ha, inv⟩
    apply Dl.clause_true_of
    intro hall
    have hp := lit_of_neg_false (hall p.neg List.mem_cons_self)
    have hr := lit_of_neg_false (hall (t.lbReason xi).neg (List.mem_cons_of_mem _ List.mem_cons_self))
    obtain ⟨f1, f2⟩ := lb_of_lt hval (inv.bok xi).1 h2
    have h3 := (BLe.fin f1).1 ((hj xi hxi).1 hr)
    exact absurd (lt_of_lt_of_le f2 (le_trans h3 (hob hp))) (lt_irrefl _)
  · have hbs := boundSet_au t xi val p
    have inv' := explInv_setUb hbs hxi hval inv
    have hj' := boundsJust_setUb hbs hxi hval hj hob
    have hs' := hbs.solves hs
    have ha' := hbs.agrees ha
    have hxi' : ubIdx xi < (auState t xi val p).bounds.length := by rw [hbs.len]; exact hxi
    have ok1 : OutOK (Tr α) s r1 := by
      rw [e1]
      apply forAll_ok
      intro s' b hb
      cases hab : (auState t xi val p).asrtOf b with
      | none => exact okN α s'
      | some a =>
        exact asrtPropagateUb_ok inv'.bok inv'.aok hj' ha' s' hxi' (asrtOf_mem hab) (inv'.awatch xi b hb a hab)
    have ok2 : OutOK (Tr α) r1.2 r2 := by
      rw [e2]
      apply forAll_ok
      intro s' x hx
      exact rowPropagateUb_ok inv' hs' hj' ha' s' hx
    rcases e with ⟨c, hc, e⟩ | ⟨hn, e⟩
    · rw [e]
      refine ⟨?_, hj', hs', ha', inv'⟩
      obtain ⟨c1, s1⟩ := r1
      simp only at hc
      subst hc
      exact ok1
    · rw [e]
      refine ⟨?_, hj', hs', ha', inv'⟩
      exact OutOK.trans ok1.2 ok2

end Lra
end Oratio
