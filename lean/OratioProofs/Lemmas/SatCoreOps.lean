/-
C07: `assume`, `next`, `check` and the invariants.
-/
import OratioModel
import OratioProofs.Lemmas.SatCoreSearch

set_option linter.unusedSimpArgs false
set_option linter.unusedVariables false

namespace Oratio
namespace Sat

/-- the state after `trail_lim.push_back(trail.size()); decisions.push_back(p)` -/
def pushLevel (s : Sat) (p : Lit) : Sat :=
  { s with trailLim := s.trail.length :: s.trailLim, decisions := p :: s.decisions }

theorem decsUpTo_push (s : Sat) (p : Lit) (k : Nat) (hk : k ≤ s.decisions.length) :
    (s.pushLevel p).decsUpTo k = s.decsUpTo k := by
  simp only [decsUpTo, pushLevel, List.length_cons]
  rw [show s.decisions.length + 1 - k = (s.decisions.length - k) + 1 by omega, List.drop_succ_cons]

theorem InvC.pushLevel {orig : Cnf} {m : Nat} {P : Nat → Lit → Prop} {s : Sat} (h : InvC orig m P s)
    (hq : s.queue = []) (p : Lit) : InvC orig (min m s.decisions.length) P (s.pushLevel p) := by
  have ha := h.wf.a
  refine ⟨⟨⟨ha.lenLevel, ha.lenReason, ha.val0, ha.trailVal, ha.trailNodup, ha.valTrail, ?_, ?_, ?_, ?_, ?_, ?_,
    ha.exprsRange⟩, h.wf.c.of_eq rfl rfl rfl, h.wf.r.of_eq rfl rfl rfl, h.wf.w.of_eq rfl rfl rfl⟩,
    ⟨h.ent.clauses, ?_, h.ent.log, h.ent.dead, h.ent.keeps⟩, ?_, fun hd => (h.w2 hd).of_eq rfl rfl rfl⟩
  · simp [Sat.pushLevel, ha.decLen]
  · intro lim hl
    rcases List.mem_cons.1 hl with rfl | hl
    · exact Nat.le_refl _
    · exact ha.limLe lim hl
  · show (s.trail.length :: s.trailLim).Pairwise (· ≥ ·)
    rw [List.pairwise_cons]
    exact ⟨fun x hx => ha.limLe x hx, ha.limSorted⟩
  · intro l b hs
    have hs : (l :: b) <:+ s.trail := hs
    have h1 := ha.levelOK l b hs
    show s.lvl l = ((s.trail.length :: s.trailLim).filter (· ≤ b.length)).length
    have : ¬ s.trail.length ≤ b.length := by
      have := hs.length_le; simp only [List.length_cons] at this; omega
    simp only [List.filter_cons, decide_eq_true_eq, this, if_false]
    exact h1
  · show ∀ q ∈ s.queue, _
    rw [hq]; intro q hq'; cases hq'
  · exact ha.reasonNone
  · intro l hl
    have hle : s.lvl l ≤ s.decisions.length := by
      have := ha.lvl_le hl; rw [ha.decLen]; exact this
    show Ents (orig ++ units ((s.pushLevel p).decsUpTo (s.lvl l))) [l]
    rw [decsUpTo_push s p _ hle]
    exact h.ent.trail l hl
  · intro a d b hd hb
    cases a with
    | nil =>
      simp only [Sat.pushLevel, List.nil_append, List.cons.injEq] at hd
      rw [← hd.2] at hb; omega
    | cons x a' =>
      simp only [Sat.pushLevel, List.cons_append, List.cons.injEq] at hd
      exact h.dec a' d b hd.2 (by omega)

end Sat
end Oratio

namespace Oratio
namespace Sat

theorem DecOK.mono {m m' : Nat} {s : Sat} (h : s.DecOK m) (hm : m' ≤ m) : s.DecOK m' :=
  fun a d b hd hb => h a d b hd (by omega)

theorem DecOK.of_len {m : Nat} {s : Sat} (h : s.DecOK m) (hm : s.decisions.length ≤ m) (m' : Nat) : s.DecOK m' := by
  intro a d b hd _
  apply h a d b hd
  have := congrArg List.length hd
  simp at this; omega

/-- the decision just assumed is where it should be -/
theorem DecOK.assume {m : Nat} {s : Sat} {p : Lit} (ha : s.WfA) (h : s.DecOK m) (hv : s.value p = none)
    (hlt : p.var < s.vals.length) : ((s.pushLevel p).enq p none).DecOK m := by
  intro a d b hd hb
  change p :: s.decisions = a ++ d :: b at hd
  cases a with
  | nil =>
    simp only [List.nil_append, List.cons.injEq] at hd
    obtain ⟨e1, e2⟩ := hd
    subst e1 e2
    refine ⟨List.mem_cons_self .., ?_⟩
    have hl : ((s.pushLevel p).enq p none).lvl p = (s.pushLevel p).decisionLevel := by
      simp only [enq, lvl]
      exact getD_set_eq _ _ _ _ (by rw [show (s.pushLevel p).level = s.level from rfl, ha.lenLevel]; exact hlt)
    rw [hl]
    simp [decisionLevel, Sat.pushLevel, ha.decLen]
  | cons x a' =>
    simp only [List.cons_append, List.cons.injEq] at hd
    obtain ⟨h1, h2⟩ := h a' d b hd.2 hb
    refine ⟨List.mem_cons_of_mem _ h1, ?_⟩
    rw [enq_lvl_ne (ha.trail_var_ne h1 hv)]
    exact h2

theorem uns_of_false {orig : Cnf} {s : Sat} (ha : s.WfA) (he : s.Ent orig) {p : Lit} (hv : s.value p = some false) :
    Uns (orig ++ units (p :: s.decisions)) := by
  intro α h0
  cases hF : α.cnf (orig ++ units (p :: s.decisions)) with
  | false => rfl
  | true =>
    exfalso
    rw [Asg.cnf_append, Asg.cnf_units] at hF
    simp only [Bool.and_eq_true, List.all_cons] at hF
    obtain ⟨hF1, hF2, hF3⟩ := hF
    rcases (ha.value_false).1 hv with h1 | h1
    · have := he.trail _ h1 α h0 (by
        rw [Asg.cnf_append, Asg.cnf_units]
        simp only [Bool.and_eq_true]
        refine ⟨hF1, ?_⟩
        rw [List.all_eq_true] at hF3 ⊢
        exact fun d hd => hF3 d (decsUpTo_sub _ _ d hd))
      simp only [Asg.clause, List.any_cons, List.any_nil, Bool.or_false] at this
      rw [Asg.lit_neg] at this
      simp [hF2] at this
    · subst h1
      simp [Asg.lit, Lit.falseLit, h0] at hF2

/-- `assume(p)` -/
theorem assume_spec {orig : Cnf} {m : Nat} {s : Sat} (h : InvC orig m (fun _ x => x ∈ s.queue) s)
    (hq : s.queue = []) (hd : s.dead = false) (p : Lit) (hp : p.var < s.vals.length)
    (hm : s.value p = none ∨ m ≤ s.decisions.length) (fuel : Nat) (b : Bool) (s' : Sat)
    (he : s.assume p fuel = some (b, s')) :
    InvC orig m (fun _ x => x ∈ s'.queue) s' ∧ s'.queue = [] ∧ (s.value p = none → s'.dead = (!b)) ∧
      s'.decisions <:+ p :: s.decisions ∧
      (b = false ∨ s'.decisions.length < s.decisions.length + 1 → Uns (orig ++ units (p :: s.decisions))) ∧
      s.log <+: s'.log ∧ s'.vals.length = s.vals.length ∧ s'.exprs = s.exprs ∧
      (b = false → s'.dead = true ∨ s'.decisions = p :: s.decisions) ∧ (b = true → s'.dead = false) := by
  have hpush := h.pushLevel hq p
  have hpq : (s.pushLevel p).queue = [] := hq
  have hpd : (s.pushLevel p).dead = false := hd
  unfold Sat.assume at he
  change (match (s.pushLevel p).enqueue p none with
    | (false, s) => some (false, s)
    | (true, s) => s.propagate fuel) = some (b, s') at he
  cases hv : s.value p with
  | some bv =>
    have hm' : m ≤ s.decisions.length := by
      rcases hm with hm | hm
      · rw [hv] at hm; cases hm
      · exact hm
    rw [Nat.min_eq_left hm'] at hpush
    have hv' : (s.pushLevel p).value p = some bv := hv
    rw [enqueue_some _ hv'] at he
    cases bv with
    | false =>
      simp only [Option.some.injEq, Prod.mk.injEq] at he
      obtain ⟨rfl, rfl⟩ := he
      exact ⟨hpush, hpq, (fun e => by cases e), List.suffix_refl _, fun _ => uns_of_false h.wf.a h.ent hv,
        List.prefix_refl _, rfl, rfl, fun _ => Or.inr rfl, (fun e => by cases e)⟩
    | true =>
      simp only at he
      obtain ⟨r1, r2, r3, r4, r5⟩ := propagate_spec fuel _ hpush hpd b s' he
      refine ⟨r1, r2, (fun e => by cases e), r5.decs, ?_, r5.log, r5.lenVals, r5.exprs, fun hb => ?_, fun hb => ?_⟩
      · intro hh
        apply r5.uns
        rcases hh with hh | hh
        · subst hh; right; simpa using r3
        · left; simpa [Sat.pushLevel] using hh
      · subst hb; left; simpa using r3
      · subst hb; simpa using r3
  | none =>
    have hv' : (s.pushLevel p).value p = none := hv
    rw [enqueue_none _ hv'] at he
    simp only at he
    have hinv : InvC orig m (fun _ x => x ∈ ((s.pushLevel p).enq p none).queue) ((s.pushLevel p).enq p none) := by
      have hlt' : p.var < (s.pushLevel p).vals.length := hp
      refine ⟨hpush.wf.enq hv' hlt' (fun _ => Or.inr ?_) (fun id e => by cases e), ?_,
        DecOK.assume h.wf.a h.dec hv hp, fun hd' => ?_⟩
      · intro x hx
        have := h.wf.a.lvl_le hx
        show s.lvl x < (s.trail.length :: s.trailLim).length
        simp only [List.length_cons]
        exact Nat.lt_succ_of_le this
      · exact hpush.ent.enq hpush.wf.a hv' hlt' (Ents.of_mem (by
          apply List.mem_append_right
          simp [units, Sat.pushLevel]))
      · exact (hpush.w2 hd').enq hpush.wf.a hv' hlt' (fun _ x hx => List.mem_append_left _ hx)
          (fun _ => List.mem_append_right _ (List.mem_singleton.2 rfl))
    obtain ⟨r1, r2, r3, r4, r5⟩ := propagate_spec fuel _ hinv hpd b s' he
    refine ⟨r1, r2, fun _ => r3, r5.decs, ?_, r5.log, ?_, r5.exprs, fun hb => ?_, fun hb => ?_⟩
    · intro hh
      apply r5.uns
      rcases hh with hh | hh
      · subst hh; right; simpa using r3
      · left; simpa [Sat.pushLevel, enq] using hh
    · rw [r5.lenVals]; simp [enq, Sat.pushLevel]
    · subst hb; left; simpa using r3
    · subst hb; simpa using r3

end Sat
end Oratio

namespace Oratio
namespace Sat

theorem Ent.mono_orig {orig orig' K : Cnf} {s : Sat} (h : s.Ent orig K) (hs : ∀ d ∈ orig, d ∈ orig') :
    s.Ent orig' K :=
  ⟨fun e he => (h.clauses e he).mono hs,
    fun l hl => (h.trail l hl).mono (fun d hd => by
      rcases List.mem_append.1 hd with hd | hd
      · exact List.mem_append_left _ (hs d hd)
      · exact List.mem_append_right _ hd),
    fun c hc => (h.log c hc).mono hs, fun hd => Uns.mono (h.dead hd) hs, h.keeps⟩

theorem InvC.mono_orig {orig orig' K : Cnf} {m : Nat} {P : Nat → Lit → Prop} {s : Sat} (h : InvC orig m P s K)
    (hs : ∀ d ∈ orig, d ∈ orig') : InvC orig' m P s K :=
  ⟨h.wf, h.ent.mono_orig hs, h.dec, h.w2⟩

theorem InvC.mono_pend {orig K : Cnf} {m : Nat} {P P' : Nat → Lit → Prop} {s : Sat} (h : InvC orig m P s K)
    (hP : ∀ id x, P id x → P' id x) : InvC orig m P' s K :=
  ⟨h.wf, h.ent, h.dec, fun hd => (h.w2 hd).mono hP⟩

/-- the decisions have pairwise distinct variables -/
theorem decisions_nodup {s : Sat} (ha : s.WfA) (h : ∀ m, s.DecOK m) : (s.decisions.map Lit.var).Nodup := by
  have key : ∀ l : List Lit, l <:+ s.decisions → (l.map Lit.var).Nodup := by
    intro l
    induction l with
    | nil => intro _; simp
    | cons d b ih =>
      intro hs
      have hb : b <:+ s.decisions := (List.suffix_cons d b).trans hs
      simp only [List.map_cons, List.nodup_cons]
      refine ⟨?_, ih hb⟩
      intro hm
      obtain ⟨e, he, hev⟩ := List.mem_map.1 hm
      obtain ⟨a, ha'⟩ := hs
      obtain ⟨h1, h2⟩ := h (b.length + 1) a d b ha'.symm (by omega)
      obtain ⟨b1, b2, hb12⟩ := List.append_of_mem he
      obtain ⟨h3, h4⟩ := h (b2.length + 1) (a ++ d :: b1) e b2 (by rw [← ha', hb12]; simp) (by omega)
      have : e = d := ha.trail_var_inj h3 h1 hev
      rw [this, h2] at h4
      rw [hb12] at h4; simp at h4; omega
  exact key _ (List.suffix_refl _)

/-- `next()` above root level -/
theorem next_spec {orig : Cnf} {s : Sat} (h : ∀ m, InvC orig m (fun _ x => x ∈ s.queue) s) (hq : s.queue = [])
    (hd : s.dead = false) (hroot : s.rootLevel = false) (fuel : Nat) (b : Bool) (s' : Sat)
    (he : s.next fuel = some (b, s')) :
    (∀ m, InvC (orig ++ [s.decisions.map Lit.neg]) m (fun _ x => x ∈ s'.queue) s') ∧ s'.queue = [] ∧
      s'.dead = (!b) ∧ (∃ rest, s'.log = s.log ++ (s.decisions.map Lit.neg) :: rest) ∧
      s'.vals.length = s.vals.length ∧ s'.exprs = s.exprs := by
  unfold Sat.next at he
  rw [if_neg (by simp [hroot])] at he
  have hne : s.trailLim ≠ [] := by simpa [rootLevel] using hroot
  have ha := (h 0).wf.a
  cases hD : s.decisions with
  | nil =>
    have := ha.decLen; rw [hD] at this
    exact absurd (List.eq_nil_of_length_eq_zero this.symm) hne
  | cons d ds =>
    rw [hD] at he
    simp only [List.map_cons] at he ⊢
    have hL : s.decisionLevel = ds.length + 1 := by
      simp only [decisionLevel, ← ha.decLen, hD, List.length_cons]
    obtain ⟨lim, lims, hl⟩ : ∃ lim lims, s.trailLim = lim :: lims := by
      cases hl : s.trailLim with
      | nil => exact absurd hl hne
      | cons lim lims => exact ⟨lim, lims, rfl⟩
    obtain ⟨hm, hk, hg⟩ := ha.pop_mem hl
    have hdOK := (h (ds.length + 1)).dec [] d ds (by simpa using hD) (by omega)
    have hsub : ∀ c ∈ orig, c ∈ orig ++ [d.neg :: ds.map Lit.neg] := fun c hc => List.mem_append_left _ hc
    have hcore : ∀ m, InvC (orig ++ [d.neg :: ds.map Lit.neg]) m (fun _ x => x ∈ s'.queue) s' ∧ s'.queue = [] ∧
        s'.dead = (!b) ∧ (∃ rest, s'.log = s.log ++ (d.neg :: ds.map Lit.neg) :: rest) ∧
        s'.vals.length = s.vals.length ∧ s'.exprs = s.exprs := by
      intro m
      have hpop := ((h m).mono_orig hsub).pop hq (fun _ x hx => by rw [hq] at hx; cases hx) hne
      have hpq : s.pop.queue = [] := by rw [(pop_frame s).2.2.2.1]; exact hq
      have hv : s.pop.value d.neg = none := by
        have := hg d hdOK.1 (by rw [hdOK.2, hL])
        rw [value_eq_none] at this ⊢; exact this
      have hrest : ∀ x ∈ ds.map Lit.neg, x.neg ∈ s.pop.trail := by
        intro x hx
        obtain ⟨e, he', rfl⟩ := List.mem_map.1 hx
        obtain ⟨b1, b2, hb12⟩ := List.append_of_mem he'
        have := (h (b2.length + 1)).dec (d :: b1) e b2 (by rw [hD, hb12]; simp) (by omega)
        rw [Lit.neg_neg]
        exact (hm e).2 ⟨this.1, by rw [this.2, hL, hb12]; simp; omega⟩
      have hnd := decisions_nodup ha (fun m => (h m).dec)
      obtain ⟨r1, r2, r3, r4, r5, r6, r7, r8⟩ := record_spec (orig := orig ++ [d.neg :: ds.map Lit.neg]) (K := orig)
        hpop hpq d.neg (ds.map Lit.neg) hv
        (by rw [(pop_frame s).2.2.2.2.2.2.2]; exact ha.trail_lt (l := d) hdOK.1) hrest
        (by
          intro e
          have : ds = [] := by simpa using e
          rw [pop_decisionLevel, hL, this]; rfl)
        (by
          intro _
          cases hds : ds with
          | nil => simp [hds] at *
          | cons e es =>
            refine ⟨e.neg, by simp, ?_⟩
            have := (h (es.length + 1)).dec [d] e es (by rw [hD, hds]; simp) (by omega)
            have hep : e ∈ s.pop.trail := (hm e).2 ⟨this.1, by rw [this.2, hL, hds]; simp⟩
            rw [lvl_neg, (hk e (Or.inl hep)).2, this.2, pop_decisionLevel, hL, hds]; simp)
        (Ents.of_mem (List.mem_append_right _ (List.mem_singleton.2 rfl)))
        (by
          rw [hD] at hnd
          have e : (ds.map Lit.neg).map Lit.var = ds.map Lit.var := by
            rw [List.map_map]; exact List.map_congr_left (fun x _ => rfl)
          simp only [List.map_cons, e, Lit.neg_var]
          exact hnd)
      have hd3 : (s.pop.record (d.neg :: ds.map Lit.neg)).dead = false := by
        rw [r6, (pop_frame s).2.2.2.2.2.2.1]; exact hd
      obtain ⟨q1, q2, q3, q4, q5⟩ := propagate_spec fuel _ r1 hd3 b s' he
      refine ⟨q1, q2, q3, ?_, ?_, ?_⟩
      · obtain ⟨rest, hr⟩ := q5.log
        refine ⟨rest, ?_⟩
        rw [← hr, r5, (pop_frame s).2.2.2.2.2.1, List.append_assoc]; rfl
      · rw [q5.lenVals, r7, (pop_frame s).2.2.2.2.2.2.2]
      · rw [q5.exprs, r8, (pop_frame s).2.2.2.2.1]
    exact ⟨fun m => (hcore m).1, (hcore 0).2⟩

end Sat
end Oratio

namespace Oratio
namespace Sat

theorem InvC.popTo' {orig K : Cnf} {m : Nat} {s : Sat} (h : InvC orig m (fun _ x => x ∈ s.queue) s K)
    (hq : s.queue = []) (bt : Nat) :
    InvC orig m (fun _ x => x ∈ (s.popTo bt).queue) (s.popTo bt) K ∧ (s.popTo bt).queue = [] ∧
      (s.popTo bt).decisionLevel = min bt s.decisionLevel ∧ (s.popTo bt).decisions <:+ s.decisions ∧
      (s.popTo bt).log = s.log ∧ (s.popTo bt).vals.length = s.vals.length ∧ (s.popTo bt).exprs = s.exprs ∧
      (s.popTo bt).dead = s.dead := by
  by_cases hbt : bt < s.decisionLevel
  · obtain ⟨h1, h2, h3⟩ := h.popTo hq (fun _ x hx => by rw [hq] at hx; cases hx) bt hbt
    refine ⟨h1.mono_pend (fun _ _ hf => hf.elim), by rw [h2.queue]; exact hq, by rw [h3]; omega, ?_, h2.log,
      h2.lenVals, h2.exprs, h2.dead⟩
    rw [h2.decisions]; exact List.drop_suffix _ _
  · rw [popTo_of_le s bt (by omega)]
    exact ⟨h, hq, by omega, List.suffix_refl _, rfl, rfl, rfl, rfl⟩

/-- result of `check`'s loop -/
structure CheckRes (orig : Cnf) (rl : Nat) (D : List Lit) (s0 s' : Sat) (b : Bool) : Prop where
  inv : InvC orig rl (fun _ x => x ∈ s'.queue) s'
  queue : s'.queue = []
  level : s'.decisionLevel ≤ rl
  uns : b = false → Uns (orig ++ units D)
  log : s0.log <+: s'.log
  lenVals : s'.vals.length = s0.vals.length
  exprs : s'.exprs = s0.exprs
  alive : b = true → s'.dead = false

theorem check_go_spec {orig : Cnf} {rl fuel : Nat} : ∀ (lits : List Lit) (s : Sat),
    InvC orig rl (fun _ x => x ∈ s.queue) s → s.queue = [] → s.dead = false → rl ≤ s.decisions.length →
    (∀ l ∈ lits, l.var < s.vals.length) → ∀ b s', check.go fuel rl s lits = some (b, s') →
    CheckRes orig rl (lits.reverse ++ s.decisions) s s' b
  | [], s, h, hq, hd, hrl, hr, b, s', he => by
    simp only [check.go, Option.some.injEq, Prod.mk.injEq] at he
    obtain ⟨rfl, rfl⟩ := he
    obtain ⟨p1, p2, p3, p4, p5, p6, p7, p8⟩ := h.popTo' hq rl
    exact ⟨p1, p2, by rw [p3]; omega, (fun e => by cases e), by rw [p5]; exact List.prefix_refl _, p6, p7,
      (fun _ => by rw [p8]; exact hd)⟩
  | p :: ps, s, h, hq, hd, hrl, hr, b, s', he => by
    unfold check.go at he
    have hDsub : ∀ (D' : List Lit), (∀ x ∈ D', x ∈ p :: s.decisions) →
        ∀ d ∈ orig ++ units D', d ∈ orig ++ units ((p :: ps).reverse ++ s.decisions) := by
      intro D' hD' d hd'
      rcases List.mem_append.1 hd' with hd' | hd'
      · exact List.mem_append_left _ hd'
      · apply List.mem_append_right
        simp only [units, List.mem_map] at hd' ⊢
        obtain ⟨l, hl, rfl⟩ := hd'
        refine ⟨l, ?_, rfl⟩
        rcases List.mem_cons.1 (hD' l hl) with rfl | hl'
        · simp
        · simp [hl']
    cases ha : s.assume p fuel with
    | none => rw [ha] at he; simp at he
    | some res =>
      obtain ⟨b1, s1⟩ := res
      rw [ha] at he
      obtain ⟨a1, a2, a3, a4, a5, a6, a7, a8, a9, a10⟩ :=
        assume_spec h hq hd p (hr p (List.mem_cons_self ..)) (Or.inr hrl) fuel b1 s1 ha
      cases b1 with
      | false =>
        simp only [Option.some.injEq, Prod.mk.injEq] at he
        obtain ⟨rfl, rfl⟩ := he
        obtain ⟨p1, p2, p3, p4, p5, p6, p7, p8⟩ := a1.popTo' a2 rl
        refine ⟨p1, p2, by rw [p3]; omega, fun _ => ?_, by rw [p5]; exact a6, by rw [p6]; exact a7,
          by rw [p7]; exact a8, (fun e => by cases e)⟩
        exact Uns.mono (a5 (Or.inl rfl)) (hDsub _ (fun x hx => hx))
      | true =>
        simp only at he
        have hd1 : s1.dead = false := a10 rfl
        cases hp : s1.propagate fuel with
        | none => rw [hp] at he; simp at he
        | some res2 =>
          obtain ⟨b2, s2⟩ := res2
          rw [hp] at he
          obtain ⟨q1, q2, q3, q4, q5⟩ := propagate_spec fuel s1 a1 hd1 b2 s2 hp
          have hlog : s.log <+: s2.log := a6.trans q5.log
          have hlen : s2.vals.length = s.vals.length := q5.lenVals.trans a7
          have hex : s2.exprs = s.exprs := q5.exprs.trans a8
          cases b2 with
          | false =>
            simp only [Option.some.injEq, Prod.mk.injEq] at he
            obtain ⟨rfl, rfl⟩ := he
            obtain ⟨p1, p2, p3, p4, p5, p6, p7, p8⟩ := q1.popTo' q2 rl
            refine ⟨p1, p2, by rw [p3]; omega, fun _ => ?_, by rw [p5]; exact hlog, by rw [p6]; exact hlen,
              by rw [p7]; exact hex, (fun e => by cases e)⟩
            exact Uns.mono (q1.ent.dead (by simpa using q3)) (fun d hd' => List.mem_append_left _ hd')
          | true =>
            simp only at he
            have hL2 : s2.decisionLevel = s2.decisions.length := by rw [q1.wf.a.decLen]; rfl
            have hL : s.decisionLevel = s.decisions.length := by rw [h.wf.a.decLen]; rfl
            have hsuf : s2.decisions <:+ p :: s.decisions := q5.decs.trans a4
            by_cases hle : s2.decisionLevel ≤ s.decisionLevel
            · rw [if_pos hle] at he
              simp only [Option.some.injEq, Prod.mk.injEq] at he
              obtain ⟨rfl, rfl⟩ := he
              obtain ⟨p1, p2, p3, p4, p5, p6, p7, p8⟩ := q1.popTo' q2 rl
              refine ⟨p1, p2, by rw [p3]; omega, fun _ => ?_, by rw [p5]; exact hlog, by rw [p6]; exact hlen,
                by rw [p7]; exact hex, (fun e => by cases e)⟩
              by_cases h1 : s1.decisions.length < s.decisions.length + 1
              · exact Uns.mono (a5 (Or.inr h1)) (hDsub _ (fun x hx => hx))
              · have h1' : s1.decisions = p :: s.decisions :=
                  a4.eq_of_length (by have := a4.length_le; simp at this ⊢; omega)
                have := q5.uns (Or.inl (by rw [h1']; simp; omega))
                rw [h1'] at this
                exact Uns.mono this (hDsub _ (fun x hx => hx))
            · rw [if_neg hle] at he
              have h2' : s2.decisions = p :: s.decisions :=
                hsuf.eq_of_length (by have := hsuf.length_le; simp at this ⊢; omega)
              have := check_go_spec ps s2 q1 q2 (by simpa using q3) (by rw [h2']; simp; omega)
                (fun l hl => by rw [hlen]; exact hr l (List.mem_cons_of_mem _ hl)) b s' he
              rw [h2'] at this
              refine ⟨this.inv, this.queue, this.level, ?_, hlog.trans this.log, this.lenVals.trans hlen,
                this.exprs.trans hex, this.alive⟩
              have e : ps.reverse ++ p :: s.decisions = (p :: ps).reverse ++ s.decisions := by simp
              rw [← e]; exact this.uns

/-- `check(lits)` -/
theorem check_spec {orig : Cnf} {s : Sat} (h : ∀ m, InvC orig m (fun _ x => x ∈ s.queue) s) (hq : s.queue = [])
    (hd : s.dead = false) (lits : List Lit) (hr : ∀ l ∈ lits, l.var < s.vals.length) (fuel : Nat) (b : Bool)
    (s' : Sat) (he : s.check lits fuel = some (b, s')) :
    (∀ m, InvC orig m (fun _ x => x ∈ s'.queue) s') ∧ s'.queue = [] ∧
      (b = false → Uns (orig ++ units s.decisions ++ units lits)) ∧ s.log <+: s'.log ∧
      s'.vals.length = s.vals.length ∧ s'.exprs = s.exprs ∧ (b = true → s'.dead = false) := by
  have hL : s.decisionLevel = s.decisions.length := by rw [(h 0).wf.a.decLen]; rfl
  have := check_go_spec (orig := orig) (rl := s.decisionLevel) (fuel := fuel) lits s (h _) hq hd (by omega) hr b s' he
  have hL' : s'.decisionLevel = s'.decisions.length := by rw [this.inv.wf.a.decLen]; rfl
  refine ⟨fun m => ⟨this.inv.wf, this.inv.ent, this.inv.dec.of_len (by have := this.level; omega) m, this.inv.w2⟩,
    this.queue, fun hb => ?_, this.log, this.lenVals, this.exprs, this.alive⟩
  apply Uns.mono (this.uns hb)
  intro d hd'
  rcases List.mem_append.1 hd' with hd' | hd'
  · exact List.mem_append_left _ (List.mem_append_left _ hd')
  · simp only [units, List.map_append, List.mem_append, List.mem_map, List.mem_reverse] at hd' ⊢
    rcases hd' with hd' | hd'
    · exact Or.inr hd'
    · exact Or.inl (Or.inr hd')

end Sat
end Oratio
