/-
C09X, part 5: unate propagation (`assertion::propagate_lb / propagate_ub`) and bound propagation
through the rows (`row::propagate_lb / propagate_ub`): every conflict clause and every recorded
clause is true under a boolean assignment `α` that agrees with a solution `σ` of the tableau.

Everything here is about ONE theory state `t` (the state `assert_lower / assert_upper` reach after
storing the new bound) and one pair `α`, `σ`.
-/
import OratioProofs.Lemmas.LraExplCheck

namespace Oratio
namespace Lra
open IR Lin

/-! ### outcomes of the propagation loops -/

/-- the conflict clause (if any) satisfies `P`, and the SAT log grows by clauses satisfying `P` -/
def OutOK (P : List Lit → Prop) (s : Sat) (r : Option (List Lit) × Sat) : Prop :=
  (∀ c, r.1 = some c → P c) ∧ ∃ new, r.2.log = s.log ++ new ∧ ∀ c ∈ new, P c

theorem OutOK.nil {P : List Lit → Prop} (s : Sat) : OutOK P s (Option.none, s) :=
  ⟨fun c h => (by cases h), [], (by simp), fun c h => (by cases h)⟩

theorem OutOK.confl {P : List Lit → Prop} (s : Sat) {c : List Lit} (h : P c) : OutOK P s (some c, s) :=
  ⟨fun c' h' => (by cases h'; exact h), [], (by simp), fun c h => (by cases h)⟩

theorem OutOK.rec1 {P : List Lit → Prop} (s : Sat) {c : List Lit} (h : P c) :
    OutOK P s (Option.none, s.record c) :=
  ⟨fun c h => (by cases h), [c], Dl.record_log s c,
    fun c' h' => (by rw [List.mem_singleton] at h'; rw [h']; exact h)⟩

theorem OutOK.trans {P : List Lit → Prop} {s s1 : Sat} {r : Option (List Lit) × Sat}
    (h1 : ∃ new, s1.log = s.log ++ new ∧ ∀ c ∈ new, P c) (h2 : OutOK P s1 r) : OutOK P s r := by
  obtain ⟨n1, e1, p1⟩ := h1
  obtain ⟨hc, n2, e2, p2⟩ := h2
  refine ⟨hc, n1 ++ n2, by rw [e2, e1, List.append_assoc], fun c hc' => ?_⟩
  rcases List.mem_append.1 hc' with h | h
  · exact p1 c h
  · exact p2 c h

theorem OutOK.after_rec {P : List Lit → Prop} {s : Sat} {c : List Lit} {r : Option (List Lit) × Sat}
    (h : P c) (h2 : OutOK P (s.record c) r) : OutOK P s r :=
  OutOK.trans ⟨[c], Dl.record_log s c, fun c' h' => by rw [List.mem_singleton] at h'; rw [h']; exact h⟩ h2

/-- the predicate "true under `α`" -/
abbrev Tr (α : Asg) : List Lit → Prop := fun cl => α.clause cl = true

theorem okN (α : Asg) (s : Sat) : OutOK (Tr α) s (Option.none, s) := OutOK.nil s
theorem okC {α : Asg} (s : Sat) {c : List Lit} (h : α.clause c = true) : OutOK (Tr α) s (some c, s) :=
  OutOK.confl s h
theorem okR {α : Asg} (s : Sat) {c : List Lit} (h : α.clause c = true) :
    OutOK (Tr α) s (Option.none, s.record c) := OutOK.rec1 s h
theorem okAR {α : Asg} {s : Sat} {c : List Lit} {r : Option (List Lit) × Sat} (h : α.clause c = true)
    (h2 : OutOK (Tr α) (s.record c) r) : OutOK (Tr α) s r := OutOK.after_rec h h2

theorem forAll_ok {P : List Lit → Prop} {f : Sat → Nat → Option (List Lit) × Sat} :
    ∀ (ws : List Nat) (s : Sat), (∀ s' w, w ∈ ws → OutOK P s' (f s' w)) → OutOK P s (forAll f s ws) := by
  intro ws
  induction ws with
  | nil => intro s _; exact OutOK.nil s
  | cons w ws ih =>
    intro s hf
    have h1 := hf s w List.mem_cons_self
    unfold forAll
    split
    · next c s' he =>
      rw [he] at h1
      exact h1
    · next s' he =>
      rw [he] at h1
      exact OutOK.trans h1.2 (ih s' (fun s'' w' hw' => hf s'' w' (List.mem_cons_of_mem _ hw')))

/-! ### the registry -/

theorem asrtOf_mem {t : Lra} {b : Nat} {a : LAsrt} (h : t.asrtOf b = some a) : (b, a) ∈ t.vAsrts := by
  unfold asrtOf at h
  rw [Option.map_eq_some_iff] at h
  obtain ⟨e, he, rfl⟩ := h
  have h1 := List.mem_of_find?_eq_some he
  have h2 : e.1 = b := by simpa using List.find?_some he
  rw [← h2]
  exact h1

section fixed
variable {t : Lra} {α : Asg} {σr σi : Nat → Rat}

/-- `lbv` is a lower bound of `x` explained by `ex` (under `α`, `σ`) -/
def LowerEv (α : Asg) (σr σi : Nat → Rat) (x : Nat) (lbv : IR) (ex : List Lit) : Prop :=
  LbOk lbv ∧ (IR.Fin lbv → (∀ l ∈ ex, α.lit l = false) → IR.val lbv ≤ nu σr σi x)

/-- `ubv` is an upper bound of `x` explained by `ex` -/
def UpperEv (α : Asg) (σr σi : Nat → Rat) (x : Nat) (ubv : IR) (ex : List Lit) : Prop :=
  UbOk ubv ∧ (IR.Fin ubv → (∀ l ∈ ex, α.lit l = false) → nu σr σi x ≤ IR.val ubv)

theorem lowerEv_bound (hb : BoundsOK t) (hj : BoundsJust α σr σi t) {x : Nat} (hx : ubIdx x < t.bounds.length) :
    LowerEv α σr σi x (t.lb x) [(t.lbReason x).neg] := by
  refine ⟨(hb x).1, fun hf hall => ?_⟩
  exact (BLe.fin hf).1 ((hj x hx).1 (lit_of_neg_false (hall _ (List.mem_singleton.2 rfl))))

theorem upperEv_bound (hb : BoundsOK t) (hj : BoundsJust α σr σi t) {x : Nat} (hx : ubIdx x < t.bounds.length) :
    UpperEv α σr σi x (t.ub x) [(t.ubReason x).neg] := by
  refine ⟨(hb x).2, fun hf hall => ?_⟩
  exact (VLe.fin hf).1 ((hj x hx).2 (lit_of_neg_false (hall _ (List.mem_singleton.2 rfl))))

/-! ### the four clauses -/

theorem clause_lower_leq (hao : AsrtOK t) (ha : AsrtAgrees α σr σi t) {x : Nat} {lbv : IR} {ex : List Lit}
    (hev : LowerEv α σr σi x lbv ex) {b : Nat} {a : LAsrt} (hm : (b, a) ∈ t.vAsrts) (hx : a.x = x) (ho : a.o = .leq)
    (h : IR.gt lbv a.v = true) : α.clause (a.b.neg :: ex) = true := by
  apply Dl.clause_true_of
  intro hall
  have hag := ha (b, a) hm
  simp only [ho] at hag
  have h1 := hag.1 (lit_of_neg_false (hall _ List.mem_cons_self))
  obtain ⟨f1, f2⟩ := lb_of_gt (hao (b, a) hm) hev.1 h
  have h2 := hev.2 f1 (fun l hl => hall l (List.mem_cons_of_mem _ hl))
  rw [hx] at h1
  exact absurd (lt_of_lt_of_le f2 (le_trans h2 h1)) (lt_irrefl _)

theorem clause_lower_geq (hao : AsrtOK t) (ha : AsrtAgrees α σr σi t) {x : Nat} {lbv : IR} {ex : List Lit}
    (hev : LowerEv α σr σi x lbv ex) {b : Nat} {a : LAsrt} (hm : (b, a) ∈ t.vAsrts) (hx : a.x = x) (ho : a.o = .geq)
    (h : IR.ge lbv a.v = true) : α.clause (a.b :: ex) = true := by
  apply Dl.clause_true_of
  intro hall
  have hag := ha (b, a) hm
  simp only [ho] at hag
  have h1 := hag.2 (hall _ List.mem_cons_self)
  obtain ⟨f1, f2⟩ := lb_of_ge (hao (b, a) hm) hev.1 h
  have h2 := hev.2 f1 (fun l hl => hall l (List.mem_cons_of_mem _ hl))
  rw [hx] at h1
  have h3 : IR.val a.v - QV.eps < IR.val a.v := sub_lt_self _ QV.eps_pos
  exact absurd (lt_of_le_of_lt (le_trans f2 (le_trans h2 h1)) h3) (lt_irrefl _)

theorem clause_upper_leq (hao : AsrtOK t) (ha : AsrtAgrees α σr σi t) {x : Nat} {ubv : IR} {ex : List Lit}
    (hev : UpperEv α σr σi x ubv ex) {b : Nat} {a : LAsrt} (hm : (b, a) ∈ t.vAsrts) (hx : a.x = x) (ho : a.o = .leq)
    (h : IR.le ubv a.v = true) : α.clause (a.b :: ex) = true := by
  apply Dl.clause_true_of
  intro hall
  have hag := ha (b, a) hm
  simp only [ho] at hag
  have h1 := hag.2 (hall _ List.mem_cons_self)
  obtain ⟨f1, f2⟩ := ub_of_le (hao (b, a) hm) hev.1 h
  have h2 := hev.2 f1 (fun l hl => hall l (List.mem_cons_of_mem _ hl))
  rw [hx] at h1
  have h3 : IR.val a.v < IR.val a.v + QV.eps := lt_add_of_pos_right _ QV.eps_pos
  exact absurd (lt_of_lt_of_le h3 (le_trans h1 (le_trans h2 f2))) (lt_irrefl _)

theorem clause_upper_geq (hao : AsrtOK t) (ha : AsrtAgrees α σr σi t) {x : Nat} {ubv : IR} {ex : List Lit}
    (hev : UpperEv α σr σi x ubv ex) {b : Nat} {a : LAsrt} (hm : (b, a) ∈ t.vAsrts) (hx : a.x = x) (ho : a.o = .geq)
    (h : IR.lt ubv a.v = true) : α.clause (a.b.neg :: ex) = true := by
  apply Dl.clause_true_of
  intro hall
  have hag := ha (b, a) hm
  simp only [ho] at hag
  have h1 := hag.1 (lit_of_neg_false (hall _ List.mem_cons_self))
  obtain ⟨f1, f2⟩ := ub_of_lt (hao (b, a) hm) hev.1 h
  have h2 := hev.2 f1 (fun l hl => hall l (List.mem_cons_of_mem _ hl))
  rw [hx] at h1
  exact absurd (lt_of_le_of_lt (le_trans h1 h2) f2) (lt_irrefl _)

/-! ### unate propagation -/

theorem asrtPropagateLb_ok (hb : BoundsOK t) (hao : AsrtOK t) (hj : BoundsJust α σr σi t)
    (ha : AsrtAgrees α σr σi t) (s : Sat) {xi : Nat} (hxi : ubIdx xi < t.bounds.length)
    {b : Nat} {a : LAsrt} (hm : (b, a) ∈ t.vAsrts) (hx : a.x = xi) :
    OutOK (Tr α) s (asrtPropagateLb s t a xi) := by
  have hev := lowerEv_bound hb hj hxi
  unfold asrtPropagateLb
  cases ho : a.o <;> simp only
  · rcases hv : s.value a.b with _ | _ | _ <;> simp only
    · split
      · next h => exact okR s (clause_lower_leq hao ha hev hm hx ho h)
      · exact okN α s
    · exact okN α s
    · split
      · next h => exact okC s (clause_lower_leq hao ha hev hm hx ho h)
      · exact okN α s
  · rcases hv : s.value a.b with _ | _ | _ <;> simp only
    · split
      · next h => exact okR s (clause_lower_geq hao ha hev hm hx ho h)
      · exact okN α s
    · split
      · next h => exact okC s (clause_lower_geq hao ha hev hm hx ho h)
      · exact okN α s
    · exact okN α s

theorem asrtPropagateUb_ok (hb : BoundsOK t) (hao : AsrtOK t) (hj : BoundsJust α σr σi t)
    (ha : AsrtAgrees α σr σi t) (s : Sat) {xi : Nat} (hxi : ubIdx xi < t.bounds.length)
    {b : Nat} {a : LAsrt} (hm : (b, a) ∈ t.vAsrts) (hx : a.x = xi) :
    OutOK (Tr α) s (asrtPropagateUb s t a xi) := by
  have hev := upperEv_bound hb hj hxi
  unfold asrtPropagateUb
  cases ho : a.o <;> simp only
  · rcases hv : s.value a.b with _ | _ | _ <;> simp only
    · split
      · next h => exact okR s (clause_upper_leq hao ha hev hm hx ho h)
      · exact okN α s
    · split
      · next h => exact okC s (clause_upper_leq hao ha hev hm hx ho h)
      · exact okN α s
    · exact okN α s
  · rcases hv : s.value a.b with _ | _ | _ <;> simp only
    · split
      · next h => exact okR s (clause_upper_geq hao ha hev hm hx ho h)
      · exact okN α s
    · exact okN α s
    · split
      · next h => exact okC s (clause_upper_geq hao ha hev hm hx ho h)
      · exact okN α s

/-! ### the scans over `a_watches[x]` -/

theorem scanLower_ok (hao : AsrtOK t) (ha : AsrtAgrees α σr σi t) {x : Nat} {lbv : IR} {ex : List Lit}
    (hev : LowerEv α σr σi x lbv ex) :
    ∀ (ws : List Nat) (s : Sat), (∀ b ∈ ws, ∀ a, t.asrtOf b = some a → a.x = x) →
      OutOK (Tr α) s (scanLower t lbv ex s ws) := by
  intro ws
  induction ws with
  | nil => intro s _; exact okN α s
  | cons b ws ih =>
    intro s hws
    have ih' := fun s' => ih s' (fun b' hb' => hws b' (List.mem_cons_of_mem _ hb'))
    unfold scanLower
    cases hab : t.asrtOf b with
    | none => exact ih' s
    | some a =>
      have hm := asrtOf_mem hab
      have hx := hws b List.mem_cons_self a hab
      simp only
      cases ho : a.o <;> simp only
      · rcases hv : s.value a.b with _ | _ | _ <;> simp only
        · split
          · next h => exact okAR (clause_lower_leq hao ha hev hm hx ho h) (ih' _)
          · exact ih' s
        · exact ih' s
        · split
          · next h => exact okC s (clause_lower_leq hao ha hev hm hx ho h)
          · exact ih' s
      · rcases hv : s.value a.b with _ | _ | _ <;> simp only
        · split
          · next h => exact okAR (clause_lower_geq hao ha hev hm hx ho h) (ih' _)
          · exact ih' s
        · split
          · next h => exact okC s (clause_lower_geq hao ha hev hm hx ho h)
          · exact ih' s
        · exact ih' s

theorem scanUpper_ok (hao : AsrtOK t) (ha : AsrtAgrees α σr σi t) {x : Nat} {ubv : IR} {ex : List Lit}
    (hev : UpperEv α σr σi x ubv ex) :
    ∀ (ws : List Nat) (s : Sat), (∀ b ∈ ws, ∀ a, t.asrtOf b = some a → a.x = x) →
      OutOK (Tr α) s (scanUpper t ubv ex s ws) := by
  intro ws
  induction ws with
  | nil => intro s _; exact okN α s
  | cons b ws ih =>
    intro s hws
    have ih' := fun s' => ih s' (fun b' hb' => hws b' (List.mem_cons_of_mem _ hb'))
    unfold scanUpper
    cases hab : t.asrtOf b with
    | none => exact ih' s
    | some a =>
      have hm := asrtOf_mem hab
      have hx := hws b List.mem_cons_self a hab
      simp only
      cases ho : a.o <;> simp only
      · rcases hv : s.value a.b with _ | _ | _ <;> simp only
        · split
          · next h => exact okAR (clause_upper_leq hao ha hev hm hx ho h) (ih' _)
          · exact ih' s
        · split
          · next h => exact okC s (clause_upper_leq hao ha hev hm hx ho h)
          · exact ih' s
        · exact ih' s
      · rcases hv : s.value a.b with _ | _ | _ <;> simp only
        · split
          · next h => exact okAR (clause_upper_geq hao ha hev hm hx ho h) (ih' _)
          · exact ih' s
        · exact ih' s
        · split
          · next h => exact okC s (clause_upper_geq hao ha hev hm hx ho h)
          · exact ih' s

/-! ### the row sums -/

/-- the lower sum of a row: finite, and a lower bound of `Σ cᵢ·ν(xᵢ)` when the collected
    literals are all false -/
theorem rowLowerSum_spec (hb : BoundsOK t) (hj : BoundsJust α σr σi t) :
    ∀ (vars : List (Nat × R)), CoefWF vars → (∀ p ∈ vars, ubIdx p.1 < t.bounds.length) →
    ∀ (s0 : IR) (ex0 : List Lit) (sum : IR) (ex : List Lit), IR.Fin s0 →
      rowLowerSum t vars (s0, ex0) = some (sum, ex) →
      IR.Fin sum ∧ (∀ l ∈ ex0, l ∈ ex) ∧
      ((∀ l ∈ ex, α.lit l = false) → IR.val sum ≤ IR.val s0 + sumQ (nu σr σi) vars) := by
  intro vars
  induction vars with
  | nil =>
    intro _ _ s0 ex0 sum ex h0 h
    simp only [rowLowerSum, Option.some.injEq, Prod.mk.injEq] at h
    obtain ⟨rfl, rfl⟩ := h
    exact ⟨h0, fun l hl => hl, fun _ => by rw [sumQ_nil, add_zero]⟩
  | cons p rest ih =>
    obtain ⟨cv, c⟩ := p
    intro hw hr s0 ex0 sum ex h0 h
    have hc : R.FinWF c := hw (cv, c) List.mem_cons_self
    have hcv := hr (cv, c) List.mem_cons_self
    have ih' := ih (fun q hq => hw q (List.mem_cons_of_mem _ hq)) (fun q hq => hr q (List.mem_cons_of_mem _ hq))
    simp only [rowLowerSum] at h
    rw [sumQ_cons]
    split at h
    · next hpos =>
      split at h
      · cases h
      · next hni =>
        have hlb := lb_of_not_isNegInf (hb cv).1 (by simpa using hni)
        obtain ⟨t1, t2⟩ := fin_rMul hc hlb
        obtain ⟨a1, a2⟩ := fin_addAssign h0 t1
        obtain ⟨r1, r2, r3⟩ := ih' _ _ _ _ a1 h
        refine ⟨r1, fun l hl => r2 l (List.mem_append_left _ hl), fun hall => ?_⟩
        have hlit := hall _ (r2 _ (List.mem_append_right _ (List.mem_singleton.2 rfl)))
        have hle : IR.val (t.lb cv) ≤ nu σr σi cv := (BLe.fin hlb).1 ((hj cv hcv).1 (lit_of_neg_false hlit))
        have := QV.smul_le_of_nonneg (le_of_lt (pos_toRat hc hpos)) hle
        calc IR.val sum ≤ IR.val (IR.addAssign s0 (IR.rMul c (t.lb cv))) + sumQ (nu σr σi) rest := r3 hall
          _ = IR.val s0 + (c.toRat • IR.val (t.lb cv) + sumQ (nu σr σi) rest) := by rw [a2, t2, add_assoc]
          _ ≤ IR.val s0 + (c.toRat • nu σr σi cv + sumQ (nu σr σi) rest) :=
            add_le_add (le_refl _) (add_le_add this (le_refl _))
    · next hpos =>
      split at h
      · next hneg =>
        split at h
        · cases h
        · next hpi =>
          have hub := ub_of_not_isPosInf (hb cv).2 (by simpa using hpi)
          obtain ⟨t1, t2⟩ := fin_rMul hc hub
          obtain ⟨a1, a2⟩ := fin_addAssign h0 t1
          obtain ⟨r1, r2, r3⟩ := ih' _ _ _ _ a1 h
          refine ⟨r1, fun l hl => r2 l (List.mem_append_left _ hl), fun hall => ?_⟩
          have hlit := hall _ (r2 _ (List.mem_append_right _ (List.mem_singleton.2 rfl)))
          have hle : nu σr σi cv ≤ IR.val (t.ub cv) := (VLe.fin hub).1 ((hj cv hcv).2 (lit_of_neg_false hlit))
          have := QV.smul_le_of_nonpos (le_of_lt (neg_toRat hc hneg)) hle
          calc IR.val sum ≤ IR.val (IR.addAssign s0 (IR.rMul c (t.ub cv))) + sumQ (nu σr σi) rest := r3 hall
            _ = IR.val s0 + (c.toRat • IR.val (t.ub cv) + sumQ (nu σr σi) rest) := by rw [a2, t2, add_assoc]
            _ ≤ IR.val s0 + (c.toRat • nu σr σi cv + sumQ (nu σr σi) rest) :=
              add_le_add (le_refl _) (add_le_add this (le_refl _))
      · next hneg =>
        obtain ⟨r1, r2, r3⟩ := ih' _ _ _ _ h0 h
        refine ⟨r1, r2, fun hall => ?_⟩
        rw [zero_toRat hc (by simpa using hpos) (by simpa using hneg), zero_smul, zero_add]
        exact r3 hall

/-! infinite terms in the upper sum (the `row::propagate_ub` oddity) -/

theorem R_addAssign_pinf (a : R) : R.addAssign a R.pinf = R.pinf := by
  unfold R.addAssign; simp [R.pinf, R.isInfinite]

theorem R_pinf_addAssign_fin {b : R} (hb : R.FinWF b) : R.addAssign R.pinf b = R.pinf := by
  have : b.den ≠ 0 := hb.2
  unfold R.addAssign; simp [R.pinf, R.isInfinite, this]

theorem R_mul_neg_ninf {c : R} (hc : R.FinWF c) (hneg : c.isNegative = true) : R.mul c R.ninf = R.pinf := by
  rw [R.mul_inf hc.1 (by decide) (Or.inr rfl)]
  have : c.num < 0 := by simpa [R.isNegative] using hneg
  have h1 : R.infSign c.num R.ninf.num = 1 := by
    unfold R.infSign
    have : c.num ≤ 0 := by omega
    simp [R.ninf, this]
  rw [if_pos h1]

/-- a term of the upper sum is finite or `+∞` -/
def TermOk (x : IR) : Prop := IR.Fin x ∨ x.rat = R.pinf

theorem ub_acc_step {s0 term : IR} (h0 : UbOk s0) (ht : TermOk term) :
    UbOk (IR.addAssign s0 term) ∧ (IR.Fin (IR.addAssign s0 term) → IR.Fin s0 ∧ IR.Fin term) := by
  rcases ht with ht | ht
  · rcases h0 with h0 | h0
    · exact ⟨Or.inl (fin_addAssign h0 ht).1, fun _ => ⟨h0, ht⟩⟩
    · have e : (IR.addAssign s0 term).rat = R.pinf := by
        show R.addAssign s0.rat term.rat = R.pinf
        rw [h0]; exact R_pinf_addAssign_fin ht.1
      exact ⟨Or.inr e, fun hf => absurd e (fin_not_pinf hf)⟩
  · have e : (IR.addAssign s0 term).rat = R.pinf := by
      show R.addAssign s0.rat term.rat = R.pinf
      rw [ht]; exact R_addAssign_pinf _
    exact ⟨Or.inr e, fun hf => absurd e (fin_not_pinf hf)⟩

/-- the upper sum of a row: finite or `+∞`; when finite, an upper bound of `Σ cᵢ·ν(xᵢ)` when the
    collected literals are all false.  Holds whatever variable `negTest` makes the loop test. -/
theorem rowUpperSum_spec (hb : BoundsOK t) (hj : BoundsJust α σr σi t) (negTest : Nat → Nat) :
    ∀ (vars : List (Nat × R)), CoefWF vars → (∀ p ∈ vars, ubIdx p.1 < t.bounds.length) →
    ∀ (s0 : IR) (ex0 : List Lit) (sum : IR) (ex : List Lit), UbOk s0 →
      rowUpperSum t negTest vars (s0, ex0) = some (sum, ex) →
      UbOk sum ∧ (∀ l ∈ ex0, l ∈ ex) ∧
      (IR.Fin sum → IR.Fin s0 ∧
        ((∀ l ∈ ex, α.lit l = false) → IR.val s0 + sumQ (nu σr σi) vars ≤ IR.val sum)) := by
  intro vars
  induction vars with
  | nil =>
    intro _ _ s0 ex0 sum ex h0 h
    simp only [rowUpperSum, Option.some.injEq, Prod.mk.injEq] at h
    obtain ⟨rfl, rfl⟩ := h
    exact ⟨h0, fun l hl => hl, fun hf => ⟨hf, fun _ => by rw [sumQ_nil, add_zero]⟩⟩
  | cons p rest ih =>
    obtain ⟨cv, c⟩ := p
    intro hw hr s0 ex0 sum ex h0 h
    have hc : R.FinWF c := hw (cv, c) List.mem_cons_self
    have hcv := hr (cv, c) List.mem_cons_self
    have ih' := ih (fun q hq => hw q (List.mem_cons_of_mem _ hq)) (fun q hq => hr q (List.mem_cons_of_mem _ hq))
    simp only [rowUpperSum] at h
    rw [sumQ_cons]
    split at h
    · next hpos =>
      split at h
      · cases h
      · next hpi =>
        have hub := ub_of_not_isPosInf (hb cv).2 (by simpa using hpi)
        obtain ⟨t1, t2⟩ := fin_rMul hc hub
        obtain ⟨s1, s2⟩ := ub_acc_step h0 (Or.inl t1)
        obtain ⟨r1, r2, r3⟩ := ih' _ _ _ _ s1 h
        refine ⟨r1, fun l hl => r2 l (List.mem_append_left _ hl), fun hf => ?_⟩
        obtain ⟨q1, q2⟩ := r3 hf
        obtain ⟨f0, _⟩ := s2 q1
        obtain ⟨_, a2⟩ := fin_addAssign f0 t1
        refine ⟨f0, fun hall => ?_⟩
        have hlit := hall _ (r2 _ (List.mem_append_right _ (List.mem_singleton.2 rfl)))
        have hle : nu σr σi cv ≤ IR.val (t.ub cv) := (VLe.fin hub).1 ((hj cv hcv).2 (lit_of_neg_false hlit))
        have := QV.smul_le_of_nonneg (le_of_lt (pos_toRat hc hpos)) hle
        calc IR.val s0 + (c.toRat • nu σr σi cv + sumQ (nu σr σi) rest)
            ≤ IR.val s0 + (c.toRat • IR.val (t.ub cv) + sumQ (nu σr σi) rest) :=
              add_le_add (le_refl _) (add_le_add this (le_refl _))
          _ = IR.val (IR.addAssign s0 (IR.rMul c (t.ub cv))) + sumQ (nu σr σi) rest := by rw [a2, t2, add_assoc]
          _ ≤ IR.val sum := q2 hall
    · next hpos =>
      split at h
      · next hneg =>
        split at h
        · cases h
        · have hterm : TermOk (IR.rMul c (t.lb cv)) := by
            rcases (hb cv).1 with hlb | hlb
            · exact Or.inl (fin_rMul hc hlb).1
            · right
              show R.mul c (t.lb cv).rat = R.pinf
              rw [hlb]; exact R_mul_neg_ninf hc hneg
          obtain ⟨s1, s2⟩ := ub_acc_step h0 hterm
          obtain ⟨r1, r2, r3⟩ := ih' _ _ _ _ s1 h
          refine ⟨r1, fun l hl => r2 l (List.mem_append_left _ hl), fun hf => ?_⟩
          obtain ⟨q1, q2⟩ := r3 hf
          obtain ⟨f0, ft⟩ := s2 q1
          -- the term is finite, so the bound was
          have hlb : IR.Fin (t.lb cv) := by
            rcases (hb cv).1 with hlb | hlb
            · exact hlb
            · exfalso
              have : (IR.rMul c (t.lb cv)).rat = R.pinf := by
                show R.mul c (t.lb cv).rat = R.pinf
                rw [hlb]; exact R_mul_neg_ninf hc hneg
              exact fin_not_pinf ft this
          obtain ⟨t1, t2⟩ := fin_rMul hc hlb
          obtain ⟨_, a2⟩ := fin_addAssign f0 t1
          refine ⟨f0, fun hall => ?_⟩
          have hlit := hall _ (r2 _ (List.mem_append_right _ (List.mem_singleton.2 rfl)))
          have hle : IR.val (t.lb cv) ≤ nu σr σi cv := (BLe.fin hlb).1 ((hj cv hcv).1 (lit_of_neg_false hlit))
          have := QV.smul_le_of_nonpos (le_of_lt (neg_toRat hc hneg)) hle
          calc IR.val s0 + (c.toRat • nu σr σi cv + sumQ (nu σr σi) rest)
              ≤ IR.val s0 + (c.toRat • IR.val (t.lb cv) + sumQ (nu σr σi) rest) :=
                add_le_add (le_refl _) (add_le_add this (le_refl _))
            _ = IR.val (IR.addAssign s0 (IR.rMul c (t.lb cv))) + sumQ (nu σr σi) rest := by rw [a2, t2, add_assoc]
            _ ≤ IR.val sum := q2 hall
      · next hneg =>
        obtain ⟨r1, r2, r3⟩ := ih' _ _ _ _ h0 h
        refine ⟨r1, r2, fun hf => ?_⟩
        obtain ⟨q1, q2⟩ := r3 hf
        refine ⟨q1, fun hall => ?_⟩
        rw [zero_toRat hc (by simpa using hpos) (by simpa using hneg), zero_smul, zero_add]
        exact q2 hall

/-! ### bound propagation through a row -/

theorem lowerPart_ok (ht : TabWF t) (hb : BoundsOK t) (hl : BoundsLen t) (hao : AsrtOK t) (haw : AWatchOK t)
    (hs : Solves t σr σi) (hj : BoundsJust α σr σi t) (ha : AsrtAgrees α σr σi t) (s : Sat)
    {x : Nat} {l : Lin} (hmem : (x, l) ∈ t.tableau) :
    OutOK (Tr α) s (lowerPart s t x l) := by
  unfold lowerPart
  split
  · exact okN α s
  · next sum ex hsum =>
    split
    · obtain ⟨_, lw, lk⟩ := (wf_iff l).1 (ht.rows _ hmem)
      obtain ⟨f0, v0⟩ := fin_ofR lk
      obtain ⟨r1, _, r3⟩ := rowLowerSum_spec hb hj l.vars lw (row_var_inrange ht hl hmem).2 _ _ _ _ f0 hsum
      have hev : LowerEv α σr σi x sum ex := by
        refine ⟨Or.inl r1, fun _ hall => ?_⟩
        have h2 : nu σr σi x = evalQ l (nu σr σi) := hs.row hmem
        rw [h2]
        unfold evalQ
        rw [add_comm, ← v0]
        exact r3 hall
      exact scanLower_ok hao ha hev _ s (haw x)
    · exact okN α s

theorem upperPart_ok (ht : TabWF t) (hb : BoundsOK t) (hl : BoundsLen t) (hao : AsrtOK t) (haw : AWatchOK t)
    (hs : Solves t σr σi) (hj : BoundsJust α σr σi t) (ha : AsrtAgrees α σr σi t) (s : Sat)
    {x : Nat} {l : Lin} (hmem : (x, l) ∈ t.tableau) (negTest : Nat → Nat) :
    OutOK (Tr α) s (upperPart s t x l negTest) := by
  unfold upperPart
  split
  · exact okN α s
  · next sum ex hsum =>
    split
    · obtain ⟨_, lw, lk⟩ := (wf_iff l).1 (ht.rows _ hmem)
      obtain ⟨f0, v0⟩ := fin_ofR lk
      obtain ⟨r1, _, r3⟩ := rowUpperSum_spec hb hj negTest l.vars lw (row_var_inrange ht hl hmem).2 _ _ _ _
        (Or.inl f0) hsum
      have hev : UpperEv α σr σi x sum ex := by
        refine ⟨r1, fun hf hall => ?_⟩
        have h2 : nu σr σi x = evalQ l (nu σr σi) := hs.row hmem
        rw [h2]
        unfold evalQ
        rw [add_comm, ← v0]
        exact (r3 hf).2 hall
      exact scanUpper_ok hao ha hev _ s (haw x)
    · exact okN α s

/-- the row of a basic variable watching `v` -/
theorem watched_row (ht : TabWF t) {v x : Nat} (hx : x ∈ t.tWatches.getD v []) :
    ∃ l, t.rowOf x = some l ∧ (x, l) ∈ t.tableau := by
  obtain ⟨e, he, rfl, _⟩ := (ht.watch v x).1 hx
  exact ⟨e.2, tabFind_of_mem ht.keys he, he⟩

theorem rowPropagateLb_ok (inv : ExplInv t) (hs : Solves t σr σi) (hj : BoundsJust α σr σi t)
    (ha : AsrtAgrees α σr σi t) (s : Sat) {v x : Nat} (hx : x ∈ t.tWatches.getD v []) :
    OutOK (Tr α) s (rowPropagateLb s t x v) := by
  obtain ⟨l, hl, hmem⟩ := watched_row inv.tab hx
  unfold rowPropagateLb
  rw [hl]
  simp only [Option.getD_some]
  split
  · exact lowerPart_ok inv.tab inv.bok inv.blen inv.aok inv.awatch hs hj ha s hmem
  · exact upperPart_ok inv.tab inv.bok inv.blen inv.aok inv.awatch hs hj ha s hmem _

theorem rowPropagateUb_ok (inv : ExplInv t) (hs : Solves t σr σi) (hj : BoundsJust α σr σi t)
    (ha : AsrtAgrees α σr σi t) (s : Sat) {v x : Nat} (hx : x ∈ t.tWatches.getD v []) :
    OutOK (Tr α) s (rowPropagateUb s t x v) := by
  obtain ⟨l, hl, hmem⟩ := watched_row inv.tab hx
  unfold rowPropagateUb
  rw [hl]
  simp only [Option.getD_some]
  split
  · exact upperPart_ok inv.tab inv.bok inv.blen inv.aok inv.awatch hs hj ha s hmem _
  · exact lowerPart_ok inv.tab inv.bok inv.blen inv.aok inv.awatch hs hj ha s hmem

end fixed

end Lra
end Oratio
