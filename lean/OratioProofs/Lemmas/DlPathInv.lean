/-
C10X: preservation of the path invariant `Dl.PathInv` — pure reasoning from the closed forms of
`_dists` (`DlM.upd`) and `_preds` (`propagateEdge_pred_spec`).
-/
import OratioProofs.Lemmas.DlPath
import Mathlib.Data.Finset.Card
import Mathlib.Logic.Function.Iterate

set_option linter.unusedSectionVars false
set_option linter.unusedVariables false

namespace Oratio
namespace Dl

/-! ### justified entries -/

theorem Just.unique {s : Sat} {t : Dl Int} {k j bb bb' : Nat} {w w' : Int}
    (h1 : Just s t k j bb w) (h2 : Just s t k j bb' w') : bb = bb' ∧ w = w' := by
  obtain ⟨l1, c1, hc1, r1⟩ := h1
  obtain ⟨l2, c2, hc2, r2⟩ := h2
  rw [l1] at l2
  have hb : bb = bb' := Option.some.inj l2
  subst hb
  rw [hc1] at hc2
  have hc : c1 = c2 := Option.some.inj hc2
  subst hc
  refine ⟨rfl, ?_⟩
  rcases r1 with ⟨v1, _, _, e1⟩ | ⟨v1, _, _, e1⟩ <;> rcases r2 with ⟨v2, _, _, e2⟩ | ⟨v2, _, _, e2⟩
  · omega
  · rw [v1] at v2; cases v2
  · rw [v1] at v2; cases v2
  · omega

theorem value_mono {s s' : Sat} (hs : SatLe s s') (l : Lit) (b : Bool) (h : s.value l = some b) : s'.value l = some b := by
  unfold Sat.value litValue at h ⊢
  cases hv : s.vals.getD l.var none with
  | none => rw [hv] at h; cases h
  | some b0 =>
    rw [hv] at h
    rw [hs _ _ hv]
    exact h

theorem SatLe.refl (s : Sat) : SatLe s s := fun _ _ h => h
theorem SatLe.trans {a b c : Sat} (h1 : SatLe a b) (h2 : SatLe b c) : SatLe a c := fun v x h => h2 v x (h1 v x h)

theorem Just.transfer {s s' : Sat} {t t' : Dl Int} {k j bb : Nat} {w : Int}
    (hl : lookupPair t'.distConstr (k, j) = lookupPair t.distConstr (k, j))
    (hc : ∀ b c, constrOf t b = some c → constrOf t' b = some c) (hs : SatLe s s')
    (h : Just s t k j bb w) : Just s' t' k j bb w := by
  obtain ⟨l1, c1, hc1, r1⟩ := h
  refine ⟨by rw [hl]; exact l1, c1, hc _ _ hc1, ?_⟩
  rcases r1 with ⟨v1, a1, a2, a3⟩ | ⟨v1, a1, a2, a3⟩
  · left; exact ⟨value_mono hs _ _ v1, a1, a2, a3⟩
  · right; exact ⟨value_mono hs _ _ v1, a1, a2, a3⟩

/-! ### chains -/

theorem ChainN.transfer {α : Type} {t t' : Dl α} {i : Nat} (Q : Nat → Prop)
    (hQ : ∀ j, Q j → j ≠ i → Q (p t i j) ∧ p t' i j = p t i j) :
    ∀ {m j : Nat}, ChainN t i m j → Q j → ChainN t' i m j := by
  intro m j h
  induction h with
  | root => intro _; exact ChainN.root
  | step hne hch ih =>
    intro hq
    obtain ⟨q1, q2⟩ := hQ _ hq hne
    exact ChainN.step hne (by rw [q2]; exact ih q1)

theorem ChainN.iterate {α : Type} {t : Dl α} {i m j : Nat} (h : ChainN t i m j) :
    (p t i)^[m] j = i ∧ ∀ r, r < m → (p t i)^[r] j ≠ i := by
  induction h with
  | root => exact ⟨rfl, fun r hr => absurd hr (Nat.not_lt_zero r)⟩
  | step hne hch ih =>
    obtain ⟨a, b⟩ := ih
    refine ⟨by rw [Function.iterate_succ_apply]; exact a, ?_⟩
    intro r hr
    cases r with
    | zero => exact hne
    | succ r => rw [Function.iterate_succ_apply]; exact b r (by omega)

/-- pigeonhole: a chain through nodes `< n` has fewer than `n` steps -/
theorem ChainN.lt_of_nodes {α : Type} {t : Dl α} {i m j n : Nat} (Q : Nat → Prop)
    (hQ : ∀ x, Q x → x ≠ i → Q (p t i x)) (hQn : ∀ x, Q x → x < n)
    (h : ChainN t i m j) (hj : Q j) : m < n := by
  obtain ⟨hend, hne⟩ := h.iterate
  have hQx : ∀ r, r ≤ m → Q ((p t i)^[r] j) := by
    intro r
    induction r with
    | zero => intro _; exact hj
    | succ r ih =>
      intro hr
      rw [Function.iterate_succ_apply']
      exact hQ _ (ih (by omega)) (hne r (by omega))
  have hlt : ∀ a b, a < b → b ≤ m → (p t i)^[a] j ≠ (p t i)^[b] j := by
    intro a b hab hb heq
    have h1 : (p t i)^[(m - b) + a] j = i := by
      rw [Function.iterate_add_apply, heq, ← Function.iterate_add_apply]
      have : m - b + b = m := by omega
      rw [this]; exact hend
    exact hne _ (by omega) h1
  have hcard := Finset.card_le_card_of_injOn (s := Finset.range (m + 1)) (t := Finset.range n)
    (fun r => (p t i)^[r] j)
    (by
      intro r hr
      simp only [Finset.coe_range, Set.mem_Iio] at hr ⊢
      exact hQn _ (hQx r (by omega)))
    (by
      intro a ha b hb heq
      simp only [Finset.coe_range, Set.mem_Iio] at ha hb
      by_contra hne'
      rcases Nat.lt_or_gt_of_ne hne' with hlt' | hlt'
      · exact hlt a b hlt' (by omega) heq
      · exact hlt b a hlt' (by omega) heq.symm)
  simp only [Finset.card_range] at hcard
  omega

/-- the bound on the number of steps follows from the `tree` part of the invariant -/
theorem chain_bound {t : Dl Int}
    (hdiag : ∀ i, i < t.nVars → d idlOps t i i ≠ idlInf)
    (htree : ∀ i j, i < t.nVars → j < t.nVars → i ≠ j → d idlOps t i j ≠ idlInf →
      p t i j < t.nVars ∧ d idlOps t i (p t i j) ≠ idlInf)
    {i m j : Nat} (hi : i < t.nVars) (hj : j < t.nVars) (hf : d idlOps t i j ≠ idlInf)
    (h : ChainN t i m j) : m < t.nVars := by
  refine ChainN.lt_of_nodes (fun x => x < t.nVars ∧ d idlOps t i x ≠ idlInf) ?_ (fun x hx => hx.1) h ⟨hj, hf⟩
  intro x hx hxi
  exact htree i x hi hx.1 (Ne.symm hxi) hx.2

/-! ### monotonicity in the SAT assignment and the constraint table -/

theorem PathInv.mono {s s' : Sat} {t t' : Dl Int} (h : PathInv s t) (hs : SatLe s s')
    (hn : t'.nVars = t.nVars) (hd : t'.dists = t.dists) (hp : t'.preds = t.preds) (hdc : t'.distConstr = t.distConstr)
    (hc : ∀ b c, constrOf t b = some c → constrOf t' b = some c) : PathInv s' t' := by
  have hdd : ∀ a b, d idlOps t' a b = d idlOps t a b := fun a b => d_congr hd a b
  have hpp : ∀ a b, p t' a b = p t a b := fun a b => p_congr hp a b
  have hj : ∀ k j bb w, Just s t k j bb w → Just s' t' k j bb w :=
    fun k j bb w hh => hh.transfer (by rw [hdc]) hc hs
  refine ⟨?_, ?_, ?_⟩
  · intro k j bb hl
    rw [hdc] at hl
    obtain ⟨h1, h2, h3, w, h4, h5, h6⟩ := h.dc k j bb hl
    rw [hn, hdd]
    exact ⟨h1, h2, h3, w, hj _ _ _ _ h4, h5, h6⟩
  · intro i j hi hjn hij hf
    rw [hn] at hi hjn
    rw [hdd] at hf
    obtain ⟨h1, h2, h3, bb, w, h4, h5⟩ := h.tree i j hi hjn hij hf
    rw [hn, hpp, hdd, hdd]
    exact ⟨h1, h2, h3, bb, w, hj _ _ _ _ h4, h5⟩
  · intro i j hi hjn hf
    rw [hn] at hi hjn
    rw [hdd] at hf
    obtain ⟨m, hm, hch⟩ := h.chain i j hi hjn hf
    rw [hn]
    refine ⟨m, hm, ?_⟩
    exact ChainN.transfer (fun _ => True) (fun x _ _ => ⟨trivial, hpp i x⟩) hch trivial

/-! ### the update -/

section Update
variable {K B : Int} {s : Sat} {t t' : Dl Int} {f g : Nat} {w : Int} {cb : Nat}
  (hy : UHyp t.nVars K B (d idlOps t) f g w)
include hy

theorem uh_old (a b : Nat) (ha : a < t.nVars) (hb : b < t.nVars) (ho : d idlOps t a b ≠ idlInf) :
    DlM.upd (d idlOps t) f g w a b ≠ idlInf ∧ DlM.upd (d idlOps t) f g w a b ≤ d idlOps t a b := by
  have h1 := hy.bnd a f ha hy.hf
  have h2 := hy.bnd g b hy.hg hb
  have h3 := hy.bnd a b ha hb
  have hI := hy.hInf; have hB := hy.hB; have hK := hy.hK; have hw := hy.hw
  unfold DlM.upd; split
  · rename_i hc; omega
  · omega

theorem uh_cand (a b : Nat) (ha : a < t.nVars) (hb : b < t.nVars) (h1 : d idlOps t a f ≠ idlInf) (h2 : d idlOps t g b ≠ idlInf) :
    DlM.upd (d idlOps t) f g w a b ≠ idlInf ∧ DlM.upd (d idlOps t) f g w a b ≤ d idlOps t a f + w + d idlOps t g b := by
  have b1 := hy.bnd a f ha hy.hf
  have b2 := hy.bnd g b hy.hg hb
  have b3 := hy.bnd a b ha hb
  have hI := hy.hInf; have hB := hy.hB; have hK := hy.hK; have hw := hy.hw
  unfold DlM.upd; split
  · omega
  · rename_i hc
    have : ¬ (d idlOps t a f + w + d idlOps t g b < d idlOps t a b) := fun hh => hc ⟨h1, h2, hh⟩
    omega

theorem uh_not_imp_diag (i : Nat) (hi : i < t.nVars) : ¬ Imp (d idlOps t) f g w i i := by
  rintro ⟨h1, h2, h3⟩
  obtain ⟨c1, c2⟩ := hy.closed g f i hy.hg hy.hf hi h2 h1
  have hd := hy.diag i hi
  rcases hy.cyc with hh | hh
  · exact c1 hh
  · omega

/-- an improved entry has an improved predecessor: `Imp i j → Imp i k` for an edge `k → j` of
    weight `w0` on a shortest path from `g` -/
theorem uh_imp_back (i j k : Nat) (w0 : Int) (hi : i < t.nVars) (hj : j < t.nVars) (hk : k < t.nVars)
    (hkj : d idlOps t k j ≠ idlInf ∧ d idlOps t k j ≤ w0)
    (hgk : d idlOps t g k ≠ idlInf) (hgkj : d idlOps t g k + w0 ≤ d idlOps t g j)
    (himp : Imp (d idlOps t) f g w i j) : Imp (d idlOps t) f g w i k := by
  obtain ⟨h1, h2, h3⟩ := himp
  refine ⟨h1, hgk, ?_⟩
  have b1 := hy.bnd i f hi hy.hf
  have b2 := hy.bnd g k hy.hg hk
  have b3 := hy.bnd i k hi hk
  have hI := hy.hInf; have hB := hy.hB; have hK := hy.hK; have hw := hy.hw
  by_cases hik : d idlOps t i k = idlInf
  · omega
  · obtain ⟨c1, c2⟩ := hy.closed i j k hi hj hk hik hkj.1
    omega

/-- an unimproved entry has an unimproved predecessor -/
theorem uh_nimp_back (i j k : Nat) (w0 : Int) (hi : i < t.nVars) (hj : j < t.nVars) (hk : k < t.nVars)
    (hkj : d idlOps t k j ≠ idlInf ∧ d idlOps t k j ≤ w0)
    (hikj : d idlOps t i k + w0 ≤ d idlOps t i j)
    (hn : ¬ Imp (d idlOps t) f g w i j) : ¬ Imp (d idlOps t) f g w i k := by
  rintro ⟨h1, h2, h3⟩
  apply hn
  obtain ⟨c1, c2⟩ := hy.closed g j k hy.hg hj hk h2 hkj.1
  exact ⟨h1, c1, by omega⟩

theorem pathInv_update (hP : PathInv s t)
    (hnv : t'.nVars = t.nVars)
    (hd : ∀ a b, a < t.nVars → b < t.nVars → d idlOps t' a b = DlM.upd (d idlOps t) f g w a b)
    (hp : ∀ a b, a < t.nVars → b < t.nVars →
      p t' a b = if Imp (d idlOps t) f g w a b then newp (p t) f g b else p t a b)
    (hdc : t'.distConstr = assignPair t.distConstr (f, g) cb) (hvd : t'.varDists = t.varDists)
    (hj : ∃ c, constrOf t cb = some c ∧
      ((s.value ⟨cb, true⟩ = some true ∧ c.src = f ∧ c.dst = g ∧ w = c.dist) ∨
       (s.value ⟨cb, true⟩ = some false ∧ c.dst = f ∧ c.src = g ∧ w = -c.dist - 1))) :
    PathInv s t' := by
  have hf := hy.hf; have hg := hy.hg; have hfg := hy.hfg
  have hdf := hy.diag f hf
  have hdg := hy.diag g hg
  have hI := hy.hInf; have hB := hy.hB; have hK := hy.hK; have hw := hy.hw
  have hfin0 : (0 : Int) ≠ idlInf := by decide
  have hco : ∀ b, constrOf t' b = constrOf t b := by
    intro b; unfold constrOf; rw [hvd]
  -- justification of old entries and of the new one
  have just_old : ∀ k j bb w0, Just s t k j bb w0 → (k, j) ≠ (f, g) → Just s t' k j bb w0 := by
    intro k j bb w0 hh hne
    refine hh.transfer ?_ (fun b c h => by rw [hco]; exact h) (SatLe.refl s)
    rw [hdc, Undo.lookup_assign, if_neg (Ne.symm hne)]
  have just_new : Just s t' f g cb w := by
    obtain ⟨c, hc, hr⟩ := hj
    refine ⟨by rw [hdc, Undo.lookup_assign, if_pos rfl], c, by rw [hco]; exact hc, hr⟩
  -- the new entry (f, g)
  have hfg' : d idlOps t' f g ≠ idlInf ∧ d idlOps t' f g ≤ w := by
    rw [hd f g hf hg]
    have := uh_cand hy f g hf hg (by rw [hdf]; exact hfin0) (by rw [hdg]; exact hfin0)
    rw [hdf, hdg] at this
    exact ⟨this.1, by omega⟩
  -- the `tree` part
  have htree : ∀ i j, i < t'.nVars → j < t'.nVars → i ≠ j → d idlOps t' i j ≠ idlInf →
      p t' i j < t'.nVars ∧ p t' i j ≠ j ∧ d idlOps t' i (p t' i j) ≠ idlInf ∧
      ∃ bb w0, Just s t' (p t' i j) j bb w0 ∧ d idlOps t' i (p t' i j) + w0 ≤ d idlOps t' i j := by
    intro i j hi hjn hij hfin
    rw [hnv] at hi hjn ⊢
    rw [hd i j hi hjn] at hfin ⊢
    rw [hp i j hi hjn]
    by_cases himp : Imp (d idlOps t) f g w i j
    · rw [if_pos himp]
      obtain ⟨m1, m2, m3⟩ := himp
      have hval : DlM.upd (d idlOps t) f g w i j = d idlOps t i f + w + d idlOps t g j := by
        rw [upd_eq_imp, if_pos ⟨m1, m2, m3⟩]
      rw [hval]
      by_cases hjg : j = g
      · subst hjg
        have hnp : newp (p t) f j j = f := by simp [newp]
        rw [hnp, hd i f hi hf]
        obtain ⟨o1, o2⟩ := uh_old hy i f hi hf m1
        exact ⟨hf, hfg, o1, cb, w, just_new, by omega⟩
      · have hnp : newp (p t) f g j = p t g j := by simp [newp, hjg]
        rw [hnp]
        obtain ⟨t1, t2, t3, bb, w0, t4, t5⟩ := hP.tree g j hg hjn (Ne.symm hjg) m2
        rw [hd i _ hi t1]
        obtain ⟨o1, o2⟩ := uh_cand hy i (p t g j) hi t1 m1 t3
        refine ⟨t1, t2, o1, bb, w0, just_old _ _ _ _ t4 ?_, by omega⟩
        intro he
        exact hjg (congrArg Prod.snd he)
    · rw [if_neg himp]
      have hval : DlM.upd (d idlOps t) f g w i j = d idlOps t i j := by
        rw [upd_eq_imp, if_neg himp]
      rw [hval] at hfin ⊢
      obtain ⟨t1, t2, t3, bb, w0, t4, t5⟩ := hP.tree i j hi hjn hij hfin
      rw [hd i _ hi t1]
      obtain ⟨o1, o2⟩ := uh_old hy i (p t i j) hi t1 t3
      by_cases he : (p t i j, j) = (f, g)
      · exfalso
        have e1 : p t i j = f := congrArg Prod.fst he
        have e2 : j = g := congrArg Prod.snd he
        rw [e1] at t3 t4 t5
        subst e2
        obtain ⟨_, _, _, w1, q1, q2, q3⟩ := hP.dc f j bb t4.1
        have := (t4.unique q1).2
        have h3 := hy.imp
        exact himp ⟨t3, by rw [hdg]; exact hfin0, by rw [hdg]; omega⟩
      · exact ⟨t1, t2, o1, bb, w0, just_old _ _ _ _ t4 he, by omega⟩
  refine ⟨?_, htree, ?_⟩
  · -- dc
    intro k j bb hl
    rw [hdc, Undo.lookup_assign] at hl
    rw [hnv]
    by_cases he : (f, g) = (k, j)
    · rw [if_pos he] at hl
      have e1 : f = k := congrArg Prod.fst he
      have e2 : g = j := congrArg Prod.snd he
      have e3 : cb = bb := Option.some.inj hl
      subst e1 e2 e3
      exact ⟨hf, hg, hfg, w, just_new, hfg'.1, hfg'.2⟩
    · rw [if_neg he] at hl
      obtain ⟨h1, h2, h3, w0, h4, h5, h6⟩ := hP.dc k j bb hl
      obtain ⟨o1, o2⟩ := uh_old hy k j h1 h2 h5
      rw [hd k j h1 h2]
      exact ⟨h1, h2, h3, w0, just_old _ _ _ _ h4 (Ne.symm he), o1, by omega⟩
  · -- chain
    -- unimproved entries keep their chain
    have L1 : ∀ i, i < t.nVars → ∀ {m j : Nat}, ChainN t i m j →
        (j < t.nVars ∧ d idlOps t i j ≠ idlInf ∧ ¬ Imp (d idlOps t) f g w i j) → ChainN t' i m j := by
      intro i hi m j hch hq
      refine ChainN.transfer (fun x => x < t.nVars ∧ d idlOps t i x ≠ idlInf ∧ ¬ Imp (d idlOps t) f g w i x) ?_ hch hq
      intro x ⟨x1, x2, x3⟩ hxi
      obtain ⟨t1, t2, t3, bb, w0, t4, t5⟩ := hP.tree i x hi x1 (Ne.symm hxi) x2
      obtain ⟨_, _, _, w1, q1, q2, q3⟩ := hP.dc _ _ bb t4.1
      have hw01 := (t4.unique q1).2
      refine ⟨⟨t1, t3, uh_nimp_back hy i x (p t i x) w0 hi x1 t1 ⟨q2, by omega⟩ t5 x3⟩, ?_⟩
      rw [hp i x hi x1, if_neg x3]
    -- improved entries follow the chain of row `g`, then the edge, then the chain of `f`
    have L2 : ∀ i, i < t.nVars → ∀ {m j : Nat}, ChainN t g m j →
        j < t.nVars → d idlOps t g j ≠ idlInf → Imp (d idlOps t) f g w i j → ∃ m', ChainN t' i m' j := by
      intro i hi m j hch
      induction hch with
      | root =>
        intro _ _ himp
        have hgi : g ≠ i := by
          intro e; subst e; exact uh_not_imp_diag hy g hg himp
        obtain ⟨m1, _, hc1⟩ := hP.chain i f hi hf himp.1
        have hnf : ¬ Imp (d idlOps t) f g w i f := by
          rintro ⟨a1, a2, a3⟩
          rcases hy.cyc with hh | hh
          · exact a2 hh
          · omega
        have hc2 := L1 i hi hc1 ⟨hf, himp.1, hnf⟩
        refine ⟨m1 + 1, ChainN.step hgi ?_⟩
        rw [hp i g hi hg, if_pos himp]
        simpa [newp] using hc2
      | step hne hch ih =>
        rename_i m0 j0
        intro hjn hfin himp
        obtain ⟨t1, t2, t3, bb, w0, t4, t5⟩ := hP.tree g j0 hg hjn (Ne.symm hne) hfin
        obtain ⟨_, _, _, w1, q1, q2, q3⟩ := hP.dc _ _ bb t4.1
        have hw01 := (t4.unique q1).2
        have himpk := uh_imp_back hy i j0 (p t g j0) w0 hi hjn t1 ⟨q2, by omega⟩ t3 t5 himp
        obtain ⟨m', hm'⟩ := ih t1 t3 himpk
        have hji : j0 ≠ i := by
          intro e; subst e; exact uh_not_imp_diag hy j0 hi himp
        refine ⟨m' + 1, ChainN.step hji ?_⟩
        rw [hp i j0 hi hjn, if_pos himp]
        have : newp (p t) f g j0 = p t g j0 := by simp [newp, hne]
        rw [this]; exact hm'
    intro i j hi hjn hfin
    rw [hnv] at hi hjn
    have hex : ∃ m, ChainN t' i m j := by
      rw [hd i j hi hjn, upd_eq_imp] at hfin
      by_cases himp : Imp (d idlOps t) f g w i j
      · obtain ⟨m, _, hc⟩ := hP.chain g j hg hjn himp.2.1
        exact L2 i hi hc hjn himp.2.1 himp
      · rw [if_neg himp] at hfin
        obtain ⟨m, _, hc⟩ := hP.chain i j hi hjn hfin
        exact ⟨m, L1 i hi hc ⟨hjn, hfin, himp⟩⟩
    obtain ⟨m, hm⟩ := hex
    refine ⟨m, ?_, hm⟩
    refine chain_bound ?_ ?_ (by rw [hnv]; exact hi) (by rw [hnv]; exact hjn) hfin hm
    · intro x hx
      rw [hnv] at hx
      rw [hd x x hx hx]
      exact (uh_old hy x x hx hx (by rw [hy.diag x hx]; exact hfin0)).1
    · intro a b ha hb hab hfab
      obtain ⟨r1, _, r3, _⟩ := htree a b ha hb hab hfab
      exact ⟨r1, r3⟩
end Update

end Dl
end Oratio
