/-
C10X, real-valued instance: the explanation walk, the recorded clauses, and the theorems of
`Properties/C10Explain.lean` (`C10XR_*`) in the mirrored vocabulary (`DlR.ExactM`).
-/
import OratioProofs.Lemmas.DlPathRInv
import OratioProofs.Lemmas.DlPathWalk

set_option linter.unusedSectionVars false
set_option linter.unusedVariables false

namespace Oratio
namespace DlR
open Dl

/-! ### small facts -/

theorem constrOfR_spec {t : Dl IR} {bb : Nat} {c : DConstr IR} (h : constrOf t bb = some c) :
    c ∈ t.varDists ∧ c.b = bb := by
  unfold constrOf at h
  refine ⟨List.mem_of_find?_eq_some h, ?_⟩
  have := List.find?_some h
  simpa using this

theorem walkR_root (s : Sat) (t : Dl IR) (i fuel : Nat) (acc : List Lit) : walk s t i fuel i acc = acc := by
  cases fuel with
  | zero => rfl
  | succ n => rw [walk, if_pos rfl]

theorem walkR_step (s : Sat) (t : Dl IR) {i cur bb : Nat} {v : Bool} (fuel : Nat) (acc : List Lit) (hne : cur ≠ i)
    (hl : lookupPair t.distConstr (p t i cur, cur) = some bb) (hv : s.value ⟨bb, true⟩ = some v) :
    walk s t i (fuel + 1) cur acc = walk s t i fuel (p t i cur) (acc ++ [⟨bb, !v⟩]) := by
  rw [walk, if_neg hne]
  simp only [hl, hv]
  cases v <;> rfl

/-- the two arithmetical contradictions behind every explanation -/
theorem qv_contra_true {x y v : QV} {D : WithTop QV} (h1 : ((x - y : QV) : WithTop QV) ≤ D)
    (h2 : D + (v : WithTop QV) < 0) (h3 : y - x ≤ v) : False := by
  have h : ((x - y + v : QV) : WithTop QV) < 0 := by
    rw [WithTop.coe_add]; exact lt_of_le_of_lt (add_le_add h1 le_rfl) h2
  have h' : x - y + v < 0 := by exact_mod_cast h
  have h4 : x - y + (y - x) ≤ x - y + v := add_le_add le_rfl h3
  rw [sub_add_sub_cancel, sub_self] at h4
  exact absurd (lt_of_le_of_lt h4 h') (lt_irrefl _)

theorem qv_contra_false {x y v : QV} {D : WithTop QV} (h1 : ((y - x : QV) : WithTop QV) ≤ D)
    (h2 : D ≤ (v : WithTop QV)) (h3 : x - y ≤ -v - QV.eps) : False := by
  have h : y - x ≤ v := by exact_mod_cast le_trans h1 h2
  have h4 : y - x + (x - y) ≤ v + (-v - QV.eps) := add_le_add h h3
  rw [sub_add_sub_cancel, sub_self] at h4
  have h5 : v + (-v - QV.eps) = -QV.eps := by abel
  rw [h5] at h4
  have := neg_nonneg.mp h4
  exact absurd (lt_of_lt_of_le QV.eps_pos this) (lt_irrefl _)

/-! ### the walk reads off a justified path -/

theorem walk_specR {s : Sat} {t : Dl IR} (hP : PathInvR s t) (hdiag : ∀ i, i < t.nVars → dn t i i = 0)
    {i : Nat} (hi : i < t.nVars) :
    ∀ {m j : Nat}, ChainN t i m j → j < t.nVars → dn t i j ≠ ⊤ → ∀ fuel, m ≤ fuel → ∀ acc : List Lit,
      ∃ L, walk s t i fuel j acc = acc ++ L ∧ (∀ l ∈ L, s.value l = some false) ∧
        (∀ (σ : Nat → QV) (α : Asg), AgreesR t σ α → (∀ l ∈ L, α.lit l = false) →
          ((σ j - σ i : QV) : WithTop QV) ≤ dn t i j) := by
  intro m j h
  induction h with
  | root =>
    intro _ _ fuel _ acc
    refine ⟨[], by rw [walkR_root]; simp, by simp, ?_⟩
    intro σ α _ _
    rw [hdiag i hi, sub_self]; exact le_rfl
  | step hne hch ih =>
    rename_i m0 j0
    intro hjn hfin fuel hfuel acc
    obtain ⟨t1, t2, t3, bb, w0, t4, t5⟩ := hP.tree i j0 hi hjn (Ne.symm hne) hfin
    obtain ⟨hl, c, hc, hr⟩ := t4
    obtain ⟨hmem, hcb⟩ := constrOfR_spec hc
    have key : ∀ (σ : Nat → QV), ((σ (p t i j0) - σ i : QV) : WithTop QV) ≤ dn t i (p t i j0) →
        σ j0 - σ (p t i j0) ≤ w0 → ((σ j0 - σ i : QV) : WithTop QV) ≤ dn t i j0 := by
      intro σ h1 h4
      have e : σ j0 - σ i = (σ (p t i j0) - σ i) + (σ j0 - σ (p t i j0)) := by abel
      rw [e, WithTop.coe_add]
      exact le_trans (add_le_add h1 (WithTop.coe_le_coe.mpr h4)) t5
    cases fuel with
    | zero => omega
    | succ fuel =>
      rcases hr with ⟨v1, a1, a2, a3⟩ | ⟨v1, a1, a2, a3⟩
      · rw [walkR_step s t fuel acc hne hl v1]
        obtain ⟨L, e, fl, val⟩ := ih t1 t3 fuel (by omega) (acc ++ [⟨bb, !true⟩])
        refine ⟨⟨bb, false⟩ :: L, by rw [e]; simp, ?_, ?_⟩
        · intro l hlm
          rcases List.mem_cons.mp hlm with rfl | hlm
          · exact value_neg v1
          · exact fl l hlm
        · intro σ α hag hall
          have h1 := val σ α hag (fun l hlm => hall l (List.mem_cons_of_mem _ hlm))
          have h2 := hall ⟨bb, false⟩ List.mem_cons_self
          have h3 : α c.b = true := by
            rw [hcb]; simpa [Asg.lit] using h2
          have h4 := (hag c hmem).1 h3
          rw [a1, a2, ← a3] at h4
          exact key σ h1 h4
      · rw [walkR_step s t fuel acc hne hl v1]
        obtain ⟨L, e, fl, val⟩ := ih t1 t3 fuel (by omega) (acc ++ [⟨bb, !false⟩])
        refine ⟨⟨bb, true⟩ :: L, by rw [e]; simp, ?_, ?_⟩
        · intro l hlm
          rcases List.mem_cons.mp hlm with rfl | hlm
          · exact v1
          · exact fl l hlm
        · intro σ α hag hall
          have h1 := val σ α hag (fun l hlm => hall l (List.mem_cons_of_mem _ hlm))
          have h2 := hall ⟨bb, true⟩ List.mem_cons_self
          have h3 : α c.b = false := by
            rw [hcb]; simpa [Asg.lit] using h2
          have h4 := (hag c hmem).2 h3
          rw [a1, a2, ← a3] at h4
          exact key σ h1 h4

theorem explainR {s : Sat} {t : Dl IR} (hP : PathInvR s t) (hdiag : ∀ i, i < t.nVars → dn t i i = 0)
    {i j : Nat} (hi : i < t.nVars) (hj : j < t.nVars) (hfin : dn t i j ≠ ⊤) (acc : List Lit) :
    ∃ L, walk s t i t.nVars j acc = acc ++ L ∧ (∀ l ∈ L, s.value l = some false) ∧
      (∀ (σ : Nat → QV) (α : Asg), AgreesR t σ α → (∀ l ∈ L, α.lit l = false) →
        ((σ j - σ i : QV) : WithTop QV) ≤ dn t i j) := by
  obtain ⟨m, hm, hch⟩ := hP.chain i j hi hj hfin
  exact walk_specR hP hdiag hi hch hj hfin t.nVars (by omega) acc

theorem exactR_diag {E : List QEdge} {t : Dl IR} (h : ExactM E t) : ∀ i, i < t.nVars → dn t i i = 0 :=
  h.weak.diag

/-! ### the conflict clause -/

theorem conflict_clause_validR (E : List QEdge) (s : Sat) (t : Dl IR) (h : ExactM E t) (hP : PathInvR s t)
    (c : DConstr IR) (hc : t.constrOf c.b = some c) (b : Bool) (hv : s.value ⟨c.b, true⟩ = some b)
    (hr : c.src < t.nVars ∧ c.dst < t.nVars ∧ c.src ≠ c.dst ∧ IR.Fin c.dist)
    (cl : List Lit) (hcl : propagateLit rdlOps s t ⟨c.b, b⟩ = .inl cl) :
    (∀ l ∈ cl, s.value l = some false) ∧
    ∀ (σ : Nat → QV) (α : Asg), AgreesR t σ α → α.clause cl = true := by
  obtain ⟨h1, h2, h3, h4⟩ := hr
  have hdiag := exactR_diag h
  obtain ⟨hmem, _⟩ := constrOfR_spec hc
  cases b with
  | true =>
    rw [propagateLit_true s t c hc hv] at hcl
    by_cases hlt : rdlOps.lt (d rdlOps t c.dst c.src) (rdlOps.neg c.dist) = true
    · rw [if_pos hlt] at hcl
      have hlt' : dn t c.dst c.src + ((IR.val c.dist : QV) : WithTop QV) < 0 := (lt_neg_iff (h.wf _ _ h2 h1) h4).mp hlt
      have hfin : dn t c.dst c.src ≠ ⊤ := (WithTop.add_ne_top.mp (ne_top_of_lt hlt')).1
      have hcl' : walk s t c.dst t.nVars c.src [] ++ [(⟨c.b, true⟩ : Lit).neg] = cl := Sum.inl.inj hcl
      obtain ⟨L, e, fl, val⟩ := explainR hP hdiag h2 h1 hfin []
      rw [e] at hcl'
      subst hcl'
      constructor
      · intro l hl
        simp only [List.nil_append, List.mem_append, List.mem_singleton] at hl
        rcases hl with hl | rfl
        · exact fl l hl
        · exact value_neg hv
      · intro σ α hag
        apply clause_true_of
        intro hall
        have g1 := val σ α hag (fun l hl => hall l (by simp [hl]))
        have g2 := hall (⟨c.b, true⟩ : Lit).neg (by simp)
        have g3 : α c.b = true := by simpa [Asg.lit, Lit.neg] using g2
        have g4 := (hag c hmem).1 g3
        exact qv_contra_true g1 hlt' g4
    · rw [if_neg hlt] at hcl
      split at hcl <;> cases hcl
  | false =>
    rw [propagateLit_false s t c hc hv] at hcl
    by_cases hle : rdlOps.le (d rdlOps t c.src c.dst) c.dist = true
    · rw [if_pos hle] at hcl
      have hle' : dn t c.src c.dst ≤ ((IR.val c.dist : QV) : WithTop QV) := (le_w_iff (h.wf _ _ h1 h2) h4).mp hle
      have hfin : dn t c.src c.dst ≠ ⊤ := ne_top_of_le_ne_top WithTop.coe_ne_top hle'
      have hcl' : walk s t c.src t.nVars c.dst [] ++ [(⟨c.b, false⟩ : Lit).neg] = cl := Sum.inl.inj hcl
      obtain ⟨L, e, fl, val⟩ := explainR hP hdiag h1 h2 hfin []
      rw [e] at hcl'
      subst hcl'
      constructor
      · intro l hl
        simp only [List.nil_append, List.mem_append, List.mem_singleton] at hl
        rcases hl with hl | rfl
        · exact fl l hl
        · exact hv
      · intro σ α hag
        apply clause_true_of
        intro hall
        have g1 := val σ α hag (fun l hl => hall l (by simp [hl]))
        have g2 := hall (⟨c.b, false⟩ : Lit).neg (by simp)
        have g3 : α c.b = false := by simpa [Asg.lit, Lit.neg] using g2
        have g4 := (hag c hmem).2 g3
        exact qv_contra_false g1 hle' g4
    · rw [if_neg hle] at hcl
      split at hcl <;> cases hcl

/-! ### the scan of the undecided constraints -/

def scanStepR (t : Dl IR) (s : Sat) (b : Nat) : Sat :=
  match constrOf t b with
  | none => s
  | some c =>
    if s.value ⟨c.b, true⟩ ≠ none then s
    else if rdlOps.lt (d rdlOps t c.dst c.src) (rdlOps.neg c.dist) then
      s.record (walk s t c.dst t.nVars c.src [⟨c.b, false⟩])
    else if rdlOps.le (d rdlOps t c.src c.dst) c.dist then
      s.record (walk s t c.src t.nVars c.dst [⟨c.b, true⟩])
    else s

theorem scanUpdatesR_cons (s : Sat) (t : Dl IR) (pr : Nat × Nat) (rest : List (Nat × Nat)) :
    scanUpdates rdlOps s t (pr :: rest) =
      scanUpdates rdlOps (((lookupPair t.distConstrs pr).getD []).foldl (scanStepR t) s) t rest := by
  rw [scanUpdates]
  congr 1
  congr 1
  funext s' b
  unfold scanStepR
  cases constrOf t b <;> rfl

theorem scanR_inv (t : Dl IR) (Q : Sat → Prop) (hQ : ∀ s b, Q s → Q (scanStepR t s b)) :
    ∀ (ups : List (Nat × Nat)) (s : Sat), Q s → Q (scanUpdates rdlOps s t ups) := by
  intro ups
  induction ups with
  | nil => intro s h; exact h
  | cons pr rest ih =>
    intro s h
    rw [scanUpdatesR_cons]
    exact ih _ (Undo.foldl_inv Q (scanStepR t) hQ _ s h)

theorem scanStepR_le (t : Dl IR) (s : Sat) (b : Nat) : SatLe s (scanStepR t s b) := by
  unfold scanStepR
  split
  · exact SatLe.refl s
  · split
    · exact SatLe.refl s
    · split
      · exact record_le _ _
      · split
        · exact record_le _ _
        · exact SatLe.refl s

theorem scanR_le (t : Dl IR) (s0 : Sat) (ups : List (Nat × Nat)) : SatLe s0 (scanUpdates rdlOps s0 t ups) :=
  scanR_inv t (fun s => SatLe s0 s) (fun s b h => SatLe.trans h (scanStepR_le t s b)) ups s0 (SatLe.refl s0)

def TheoryValidR (t : Dl IR) (cl : List Lit) : Prop := ∀ (σ : Nat → QV) (α : Asg), AgreesR t σ α → α.clause cl = true

def LogGoodR (t : Dl IR) (s0 s : Sat) : Prop :=
  ∃ new, s.log = s0.log ++ new ∧ ∀ cl ∈ new, TheoryValidR t cl ∧ ∀ l ∈ cl.tail, s.value l = some false

theorem LogGoodR.step {t : Dl IR} {s0 s : Sat} (h : LogGoodR t s0 s) (cl : List Lit) (hv : TheoryValidR t cl)
    (hf : ∀ l ∈ cl.tail, s.value l = some false) : LogGoodR t s0 (s.record cl) := by
  obtain ⟨new, h1, h2⟩ := h
  refine ⟨new ++ [cl], by rw [record_log, h1, List.append_assoc], ?_⟩
  intro cl' hcl'
  rcases List.mem_append.mp hcl' with hm | hm
  · obtain ⟨a1, a2⟩ := h2 cl' hm
    exact ⟨a1, fun l hl => value_mono (record_le s cl) _ _ (a2 l hl)⟩
  · have : cl' = cl := by simpa using hm
    subst this
    exact ⟨hv, fun l hl => value_mono (record_le s _) _ _ (hf l hl)⟩

theorem scanStepR_good {t : Dl IR} (hwf : ∀ i j, i < t.nVars → j < t.nVars → IR.Good (d rdlOps t i j))
    (hdiag : ∀ i, i < t.nVars → dn t i i = 0) (hok : ConstrsOkR t)
    (s0 s : Sat) (b : Nat) (h : PathInvR s t ∧ LogGoodR t s0 s) :
    PathInvR (scanStepR t s b) t ∧ LogGoodR t s0 (scanStepR t s b) := by
  obtain ⟨hP, hG⟩ := h
  refine ⟨hP.mono (scanStepR_le t s b) rfl rfl rfl rfl (fun _ _ h => h), ?_⟩
  unfold scanStepR
  split
  · exact hG
  · rename_i c hc
    obtain ⟨hmem, hcb⟩ := constrOfR_spec hc
    obtain ⟨o1, o2, o3, o4⟩ := hok c hmem
    split
    · exact hG
    · split
      · rename_i hlt
        have hlt' : dn t c.dst c.src + ((IR.val c.dist : QV) : WithTop QV) < 0 := (lt_neg_iff (hwf _ _ o2 o1) o4).mp hlt
        have hfin : dn t c.dst c.src ≠ ⊤ := (WithTop.add_ne_top.mp (ne_top_of_lt hlt')).1
        obtain ⟨L, e, fl, val⟩ := explainR hP hdiag o2 o1 hfin [⟨c.b, false⟩]
        rw [e]
        refine hG.step _ ?_ (by simpa using fl)
        intro σ α hag
        apply clause_true_of
        intro hall
        have h1 := val σ α hag (fun l hl => hall l (List.mem_append_right _ hl))
        have h2 := hall ⟨c.b, false⟩ (by simp)
        have h3 : α c.b = true := by simpa [Asg.lit] using h2
        have h4 := (hag c hmem).1 h3
        exact qv_contra_true h1 hlt' h4
      · split
        · rename_i hle
          have hle' : dn t c.src c.dst ≤ ((IR.val c.dist : QV) : WithTop QV) := (le_w_iff (hwf _ _ o1 o2) o4).mp hle
          have hfin : dn t c.src c.dst ≠ ⊤ := ne_top_of_le_ne_top WithTop.coe_ne_top hle'
          obtain ⟨L, e, fl, val⟩ := explainR hP hdiag o1 o2 hfin [⟨c.b, true⟩]
          rw [e]
          refine hG.step _ ?_ (by simpa using fl)
          intro σ α hag
          apply clause_true_of
          intro hall
          have h1 := val σ α hag (fun l hl => hall l (List.mem_append_right _ hl))
          have h2 := hall ⟨c.b, true⟩ (by simp)
          have h3 : α c.b = false := by simpa [Asg.lit] using h2
          have h4 := (hag c hmem).2 h3
          exact qv_contra_false h1 hle' h4
        · exact hG

theorem scanR_good {t : Dl IR} (hwf : ∀ i j, i < t.nVars → j < t.nVars → IR.Good (d rdlOps t i j))
    (hdiag : ∀ i, i < t.nVars → dn t i i = 0) (hok : ConstrsOkR t)
    (s0 : Sat) (hP : PathInvR s0 t) (ups : List (Nat × Nat)) :
    PathInvR (scanUpdates rdlOps s0 t ups) t ∧ LogGoodR t s0 (scanUpdates rdlOps s0 t ups) :=
  scanR_inv t (fun s => PathInvR s t ∧ LogGoodR t s0 s) (fun s b h => scanStepR_good hwf hdiag hok s0 s b h) ups s0
    ⟨hP, [], by simp, by simp⟩

theorem propagateEdgeR_fst (s : Sat) (t : Dl IR) (f g : Nat) (w : IR) :
    ∃ ups, (propagateEdge rdlOps s t f g w).1 = scanUpdates rdlOps s (propagateEdge rdlOps s t f g w).2 ups :=
  ⟨_, rfl⟩

/-! ### asserting an edge -/

theorem saveConstrR_tables (t : Dl IR) (k : Nat × Nat) :
    (saveConstr t k).distConstr = t.distConstr ∧ (saveConstr t k).varDists = t.varDists := by
  unfold saveConstr
  cases t.layers with
  | nil => exact ⟨rfl, rfl⟩
  | cons l ls => dsimp only; split <;> exact ⟨rfl, rfl⟩

theorem armedR_tables (t : Dl IR) (k : Nat × Nat) (b : Nat) :
    (armed t k b).distConstr = assignPair t.distConstr k b ∧ (armed t k b).varDists = t.varDists := by
  unfold armed
  exact ⟨by rw [(saveConstrR_tables t k).1], (saveConstrR_tables t k).2⟩

theorem SizeOk.fitsP {nv : Nat} {shp : List Nat × List Nat} (h : SizeOk nv shp) : Dl.FitsP nv shp := by
  obtain ⟨_, h2, _, h4, h5⟩ := h
  exact ⟨by rw [h4]; exact h2, fun l hl => by rw [h5 l hl]; exact h2⟩

section Edge
variable {E : List QEdge} {s : Sat} {t : Dl IR} (h : ExactM E t) (hP : PathInvR s t)
  {f g : Nat} {w : IR} {cb : Nat} (hf : f < t.nVars) (hg : g < t.nVars) (hfg : f ≠ g) (hw : IR.Fin w)
  (hnocycle : ∀ x, distOpt t g f = some x → 0 ≤ x + IR.val w)
  (himproves : ∀ x, distOpt t f g = some x → IR.val w < x)
  (hj : ∃ c, constrOf t cb = some c ∧
      ((s.value ⟨cb, true⟩ = some true ∧ c.src = f ∧ c.dst = g ∧ IR.val w = IR.val c.dist) ∨
       (s.value ⟨cb, true⟩ = some false ∧ c.dst = f ∧ c.src = g ∧ IR.val w = -IR.val c.dist - QV.eps)))
include h hP hf hg hfg hw hnocycle himproves hj

theorem edge_pathinvR0 : PathInvR s (propagateEdge rdlOps s (armed t (f, g) cb) f g w).2 := by
  obtain ⟨a1, a2, a3⟩ := armed_same t (f, g) cb
  obtain ⟨a4, a5⟩ := armedR_tables t (f, g) cb
  have hy := h.uhyp hf hg hfg hw hnocycle himproves
  have hs : SizeOk t.nVars (shape t) := (sizeOk_iff t).mp h.size_ok
  have hdM : dn t = dn (armed t (f, g) cb) := by
    funext a b; exact (dn_congr a2 a b).symm
  have hpM : p t = p (armed t (f, g) cb) := by
    funext a b; exact (pG_congr a3 a b).symm
  have hshape : shape (armed t (f, g) cb) = shape t := by simp only [shape, a2, a3]
  have hgood : ∀ a b, a < t.nVars → b < t.nVars → IR.Good (d rdlOps (armed t (f, g) cb) a b) := by
    intro a b ha hb
    rw [d_congr rdlOps a2 a b]; exact h.wf a b ha hb
  obtain ⟨hnv, _, _, _, hmat⟩ := propagateEdge_spec hy hs.fits s (armed t (f, g) cb) hdM a1 hshape hgood
  have hpred := propagateEdge_pred_specR hy hs.fits hs.fitsP s (armed t (f, g) cb) hdM hpM a1 hshape hgood
  obtain ⟨fr1, fr2⟩ := propagateEdge_frameR s (armed t (f, g) cb) f g w
  exact pathInvR_update hy hP hnv hmat hpred (by rw [fr1, a4]) (by rw [fr2, a5]) hj

theorem edge_pathinvR :
    PathInvR (propagateEdge rdlOps s (armed t (f, g) cb) f g w).1 (propagateEdge rdlOps s (armed t (f, g) cb) f g w).2 ∧
    SatLe s (propagateEdge rdlOps s (armed t (f, g) cb) f g w).1 := by
  have h0 := edge_pathinvR0 h hP hf hg hfg hw hnocycle himproves hj
  obtain ⟨ups, hups⟩ := propagateEdgeR_fst s (armed t (f, g) cb) f g w
  rw [hups]
  have hle := scanR_le (propagateEdge rdlOps s (armed t (f, g) cb) f g w).2 s ups
  exact ⟨h0.mono hle rfl rfl rfl rfl (fun _ _ hh => hh), hle⟩

theorem edge_recordedR (hok : ConstrsOkR t) :
    LogGoodR (propagateEdge rdlOps s (armed t (f, g) cb) f g w).2 s (propagateEdge rdlOps s (armed t (f, g) cb) f g w).1 := by
  have h0 := edge_pathinvR0 h hP hf hg hfg hw hnocycle himproves hj
  obtain ⟨a1, a2, a3⟩ := armed_same t (f, g) cb
  obtain ⟨a4, a5⟩ := armedR_tables t (f, g) cb
  have h' := h.congr_state a1 a2 a3
  have hdd : ∀ i j, dn (armed t (f, g) cb) i j = dn t i j := fun i j => dn_congr a2 i j
  have r := update_closed_form E s _ h' f g w (by rw [a1]; exact hf) (by rw [a1]; exact hg) hfg hw
    (by
      intro x hx
      apply hnocycle x
      have e1 := distOpt_some.mp hx
      exact distOpt_some.mpr (by rw [← hdd]; exact e1))
    (by
      intro x hx
      apply himproves x
      have e1 := distOpt_some.mp hx
      exact distOpt_some.mpr (by rw [← hdd]; exact e1))
  obtain ⟨fr1, fr2⟩ := propagateEdge_frameR s (armed t (f, g) cb) f g w
  have hok' : ConstrsOkR (propagateEdge rdlOps s (armed t (f, g) cb) f g w).2 := by
    intro c hc
    rw [fr2, a5] at hc
    have hn : (propagateEdge rdlOps s (armed t (f, g) cb) f g w).2.nVars = t.nVars := by rw [r.2.1, a1]
    rw [hn]
    exact hok c hc
  obtain ⟨ups, hups⟩ := propagateEdgeR_fst s (armed t (f, g) cb) f g w
  rw [hups]
  exact (scanR_good r.1.wf (exactR_diag r.1) hok' s h0 ups).2
end Edge

/-! ### `propagate(lit)` without conflict -/

theorem propagate_pathinvR (E : List QEdge) (s s' : Sat) (t t' : Dl IR) (h : ExactM E t) (hP : PathInvR s t)
    (c : DConstr IR) (hc : t.constrOf c.b = some c) (b : Bool) (hv : s.value ⟨c.b, true⟩ = some b)
    (hr : c.src < t.nVars ∧ c.dst < t.nVars ∧ c.src ≠ c.dst ∧ IR.Fin c.dist)
    (hint : b = false → c.dist.inf.den = 1 ∧ (d rdlOps t c.src c.dst).inf.den = 1)
    (hp : propagateLit rdlOps s t ⟨c.b, b⟩ = .inr (s', t')) :
    PathInvR s' t' ∧ SatLe s s' ∧ (ConstrsOkR t → LogGoodR t' s s') := by
  obtain ⟨h1, h2, h3, h4⟩ := hr
  have hnone : LogGoodR t' s s := ⟨[], by simp, by simp⟩
  cases b with
  | true =>
    rw [propagateLit_true s t c hc hv] at hp
    by_cases hlt : rdlOps.lt (d rdlOps t c.dst c.src) (rdlOps.neg c.dist) = true
    · rw [if_pos hlt] at hp; cases hp
    · rw [if_neg hlt] at hp
      have hcyc : 0 ≤ dn t c.dst c.src + ((IR.val c.dist : QV) : WithTop QV) :=
        not_lt.mp (fun hh => hlt ((lt_neg_iff (h.wf _ _ h2 h1) h4).mpr hh))
      by_cases himp : rdlOps.lt c.dist (d rdlOps t c.src c.dst) = true
      · rw [if_pos himp] at hp
        have himp' : ((IR.val c.dist : QV) : WithTop QV) < dn t c.src c.dst := (lt_w_iff (h.wf _ _ h1 h2) h4).mp himp
        have hpe : propagateEdge rdlOps s (armed t (c.src, c.dst) c.b) c.src c.dst c.dist = (s', t') := Sum.inr.inj hp
        have hnc : ∀ x, distOpt t c.dst c.src = some x → 0 ≤ x + IR.val c.dist := by
          intro x hx
          have e1 := distOpt_some.mp hx
          rw [e1, ← WithTop.coe_add] at hcyc
          exact_mod_cast hcyc
        have him : ∀ x, distOpt t c.src c.dst = some x → IR.val c.dist < x := by
          intro x hx
          have e1 := distOpt_some.mp hx
          rw [e1] at himp'
          exact_mod_cast himp'
        have hj : ∃ c', constrOf t c.b = some c' ∧
            ((s.value ⟨c.b, true⟩ = some true ∧ c'.src = c.src ∧ c'.dst = c.dst ∧ IR.val c.dist = IR.val c'.dist) ∨
             (s.value ⟨c.b, true⟩ = some false ∧ c'.dst = c.src ∧ c'.src = c.dst ∧ IR.val c.dist = -IR.val c'.dist - QV.eps)) :=
          ⟨c, hc, Or.inl ⟨hv, rfl, rfl, rfl⟩⟩
        have r1 := edge_pathinvR h hP h1 h2 h3 h4 hnc him hj
        have r2 := fun hok => edge_recordedR h hP h1 h2 h3 h4 hnc him hj hok
        rw [hpe] at r1 r2
        exact ⟨r1.1, r1.2, r2⟩
      · rw [if_neg himp] at hp
        cases hp
        exact ⟨hP, SatLe.refl s, fun _ => hnone⟩
  | false =>
    obtain ⟨i1, i2⟩ := hint rfl
    have hns := IR.fin_negStrict h4
    rw [propagateLit_false s t c hc hv] at hp
    by_cases hle : rdlOps.le (d rdlOps t c.src c.dst) c.dist = true
    · rw [if_pos hle] at hp; cases hp
    · rw [if_neg hle] at hp
      have hcyc : 0 ≤ dn t c.src c.dst + ((IR.val (rdlOps.negStrict c.dist) : QV) : WithTop QV) := by
        rw [hns.2]
        apply not_lt.mp
        intro hh
        exact hle ((le_w_iff (h.wf _ _ h1 h2) h4).mpr ((entry_step (h.wf _ _ h1 h2) h4 i2 i1).mpr hh))
      by_cases himp : rdlOps.le (rdlOps.neg c.dist) (d rdlOps t c.dst c.src) = true
      · rw [if_pos himp] at hp
        have himp' : ((-IR.val c.dist : QV) : WithTop QV) ≤ dn t c.dst c.src := (le_neg_iff (h.wf _ _ h2 h1) h4).mp himp
        have hpe : propagateEdge rdlOps s (armed t (c.dst, c.src) c.b) c.dst c.src (rdlOps.negStrict c.dist) = (s', t') :=
          Sum.inr.inj hp
        have hnc : ∀ x, distOpt t c.src c.dst = some x → 0 ≤ x + IR.val (rdlOps.negStrict c.dist) := by
          intro x hx
          have e1 := distOpt_some.mp hx
          rw [e1, ← WithTop.coe_add] at hcyc
          exact_mod_cast hcyc
        have him : ∀ x, distOpt t c.dst c.src = some x → IR.val (rdlOps.negStrict c.dist) < x := by
          intro x hx
          have e1 := distOpt_some.mp hx
          rw [e1] at himp'
          have h5 : -IR.val c.dist ≤ x := by exact_mod_cast himp'
          rw [hns.2]
          exact lt_of_lt_of_le (sub_lt_self _ QV.eps_pos) h5
        have hj : ∃ c', constrOf t c.b = some c' ∧
            ((s.value ⟨c.b, true⟩ = some true ∧ c'.src = c.dst ∧ c'.dst = c.src ∧
                IR.val (rdlOps.negStrict c.dist) = IR.val c'.dist) ∨
             (s.value ⟨c.b, true⟩ = some false ∧ c'.dst = c.dst ∧ c'.src = c.src ∧
                IR.val (rdlOps.negStrict c.dist) = -IR.val c'.dist - QV.eps)) :=
          ⟨c, hc, Or.inr ⟨hv, rfl, rfl, hns.2⟩⟩
        have r1 := edge_pathinvR h hP h2 h1 (Ne.symm h3) hns.1 hnc him hj
        have r2 := fun hok => edge_recordedR h hP h2 h1 (Ne.symm h3) hns.1 hnc him hj hok
        rw [hpe] at r1 r2
        exact ⟨r1.1, r1.2, r2⟩
      · rw [if_neg himp] at hp
        cases hp
        exact ⟨hP, SatLe.refl s, fun _ => hnone⟩

/-! ### construction and growth -/

theorem init_pathinvR (s : Sat) : PathInvR s (init rdlOps 16 : Dl IR) := by
  refine ⟨?_, ?_, ?_⟩
  · intro k j bb hl
    simp [init, lookupPair] at hl
  · intro i j hi hj hij
    have h1 : (init rdlOps 16 : Dl IR).nVars = 1 := rfl
    rw [h1] at hi hj
    omega
  · intro i j hi hj _
    have h1 : (init rdlOps 16 : Dl IR).nVars = 1 := rfl
    rw [h1] at hi hj ⊢
    have : i = 0 := by omega
    have : j = 0 := by omega
    subst_vars
    exact ⟨0, by omega, ChainN.root⟩

theorem pR_resize (t : Dl IR) (N a b : Nat) (ha : a < N) (hb : b < N) :
    p (resize rdlOps t N) a b =
      if a < t.dists.length ∧ b < t.dists.length then p t a b
      else if a = b ∧ t.dists.length ≤ a then noPred else a := by
  rw [pG_eq]
  simp [resize, List.getD_eq_getElem?_getD, ha, hb]

theorem newVar_pathinvR (E : List QEdge) (s : Sat) (t : Dl IR) (h : ExactM E t) (hP : PathInvR s t) :
    PathInvR s (newVar rdlOps t).2 := by
  obtain ⟨s1, s2, s3, s4, s5⟩ := h.size_ok
  unfold newVar
  dsimp only
  split
  · rename_i hlen
    have hlen' : t.dists.length = t.nVars := hlen
    have hN : t.nVars + 1 ≤ t.dists.length * 3 / 2 + 1 := by omega
    refine pathInvR_extend hP rfl ?_ ?_ rfl rfl
    · intro a b ha hb
      constructor
      · unfold dn
        rw [d_resize _ _ a b (by omega) (by omega), if_pos (by show a < t.dists.length ∧ b < t.dists.length; omega)]
        rfl
      · rw [pR_resize _ _ a b (by omega) (by omega), if_pos (by show a < t.dists.length ∧ b < t.dists.length; omega)]
        rfl
    · intro a b ha hb hab hne
      unfold dn
      rw [d_resize _ _ a b (by omega) (by omega), if_neg (by show ¬ (a < t.dists.length ∧ b < t.dists.length); omega),
        if_neg hne]
      exact IR.den_inf
  · rename_i hlen
    have hlen' : t.dists.length ≠ t.nVars := hlen
    refine pathInvR_extend (t' := { t with nVars := t.nVars + 1 }) hP rfl ?_ ?_ rfl rfl
    · intro a b _ _; exact ⟨rfl, rfl⟩
    · intro a b ha hb hab hne
      have := h.fresh a b (by omega) (by omega) (by omega)
      rw [if_neg hne] at this
      show IR.den (d rdlOps t a b) = ⊤
      rw [this]; exact IR.den_inf

theorem newDistance_pathinvR (s : Sat) (t : Dl IR) (hP : PathInvR s t) (f g : Nat) (w : IR) :
    PathInvR (newDistance rdlOps s t f g w).2.1 (newDistance rdlOps s t f g w).2.2 := by
  unfold newDistance
  split
  · exact hP
  · split
    · exact hP
    · refine hP.mono ?_ rfl rfl rfl rfl ?_
      · intro v b hvb
        show (s.vals ++ [none]).getD v none = some b
        rw [List.getD_eq_getElem?_getD] at hvb ⊢
        by_cases hlt : v < s.vals.length
        · rw [List.getElem?_append_left hlt]; exact hvb
        · rw [List.getElem?_eq_none (by omega)] at hvb
          cases hvb
      · intro b c hbc
        unfold constrOf at hbc ⊢
        show (t.varDists ++ [_]).find? _ = some c
        rw [List.find?_append, hbc]
        rfl

theorem newDistance_sameR (s : Sat) (t : Dl IR) (f g : Nat) (w : IR) :
    (newDistance rdlOps s t f g w).2.2.nVars = t.nVars ∧ (newDistance rdlOps s t f g w).2.2.dists = t.dists ∧
    (newDistance rdlOps s t f g w).2.2.preds = t.preds := by
  unfold newDistance
  split
  · exact ⟨rfl, rfl, rfl⟩
  · split <;> exact ⟨rfl, rfl, rfl⟩

theorem propagateLit_varDistsR (s s' : Sat) (t t' : Dl IR) (pl : Lit)
    (he : propagateLit rdlOps s t pl = .inr (s', t')) : t'.varDists = t.varDists := by
  unfold propagateLit at he
  split at he
  · cases he; rfl
  · rename_i c hc
    split at he
    · split at he
      · cases he
      · split at he
        · have he' : _ = t' := congrArg Prod.snd (Sum.inr.inj he)
          rw [← he', (propagateEdge_frameR s _ _ _ _).2]
          exact (saveConstrR_tables t _).2
        · cases he; rfl
    · split at he
      · cases he
      · split at he
        · have he' : _ = t' := congrArg Prod.snd (Sum.inr.inj he)
          rw [← he', (propagateEdge_frameR s _ _ _ _).2]
          exact (saveConstrR_tables t _).2
        · cases he; rfl
    · cases he; rfl

/-! ### backtracking -/

theorem pop_pathinvR {B cur : Dl IR} (hL : Undo.Lg rdlOps B cur) {sB s' : Sat} (hP : PathInvR sB B) (hs : SatLe sB s') :
    PathInvR s' cur.pop := by
  rw [Undo.pop_of_Lg rdlOps hL]
  exact hP.mono hs rfl rfl rfl rfl (fun _ _ h => h)

theorem push_pathinvR {s : Sat} {t : Dl IR} (hP : PathInvR s t) : PathInvR s t.push :=
  hP.mono (SatLe.refl s) rfl rfl rfl rfl (fun _ _ h => h)

end DlR
end Oratio
