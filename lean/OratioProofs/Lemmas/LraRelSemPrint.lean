/-
Injectivity of the printing functions used as cache keys by the theory of linear real arithmetic:
`R.toStr` (on canonical finite rationals), `Lin.toStr` (on canonical linear expressions) and
`Lra.relKey` (on the constants `c`, `c + ε`, `c - ε`).

Everything is done on `List Char`.  A print-out is cut into tokens with a generic splitting lemma
(`Print.split_pref`): if `u ++ v = u' ++ v'`, every character of `u`, `u'` is in a class `p` and
`v`, `v'` are empty or start with a character outside `p`, then `u = u'` and `v = v'`.
-/
import OratioModel
import OratioProofs.Lemmas.LraRelSemDefs
import Std.Data.String.ToNat
import Std.Data.String.ToInt

namespace Oratio

namespace Print

/-! ### generic splitting -/

/-- `v` is empty or starts with a character outside the class `p` -/
def Stop (p : Char → Bool) (v : List Char) : Prop := ∀ c ∈ v.head?, p c = false

theorem stop_nil (p : Char → Bool) : Stop p [] := by simp [Stop]

theorem stop_cons {p : Char → Bool} {c : Char} {v : List Char} (h : p c = false) : Stop p (c :: v) := by
  simp [Stop, h]

theorem split_pref (p : Char → Bool) :
    ∀ (u u' v v' : List Char), (∀ c ∈ u, p c = true) → (∀ c ∈ u', p c = true) → Stop p v → Stop p v' →
      u ++ v = u' ++ v' → u = u' ∧ v = v' := by
  intro u
  induction u with
  | nil =>
    intro u' v v' _ hu' hv _ h
    cases u' with
    | nil => exact ⟨rfl, by simpa using h⟩
    | cons a u' =>
      exfalso
      have h1 : v = a :: (u' ++ v') := by simpa using h
      have h2 := hv a (by simp [h1])
      have h3 := hu' a (by simp)
      rw [h2] at h3; cases h3
  | cons a u ih =>
    intro u' v v' hu hu' hv hv' h
    cases u' with
    | nil =>
      exfalso
      have h1 : v' = a :: (u ++ v) := by simpa using h.symm
      have h2 := hv' a (by simp [h1])
      have h3 := hu a (by simp)
      rw [h2] at h3; cases h3
    | cons b u' =>
      have h1 : a = b ∧ u ++ v = u' ++ v' := by simpa using h
      obtain ⟨h2, h3⟩ := ih u' v v' (fun c hc => hu c (by simp [hc])) (fun c hc => hu' c (by simp [hc])) hv hv' h1.2
      exact ⟨by rw [h1.1, h2], h3⟩

/-! ### character classes -/

/-- the characters of a printed finite rational -/
def rch (c : Char) : Bool := c.isDigit || c == '-' || c == '/'
/-- the characters of a printed integer -/
def ich (c : Char) : Bool := c.isDigit || c == '-'
/-- everything but the blank -/
def nsp (c : Char) : Bool := c != ' '

theorem rch_nsp {c : Char} (h : rch c = true) : nsp c = true := by
  unfold rch at h; unfold nsp
  by_cases hc : c = ' '
  · subst hc; revert h; decide
  · simpa using hc

theorem ich_rch {c : Char} (h : ich c = true) : rch c = true := by
  unfold ich at h; unfold rch; simp [h]

theorem digit_ich {c : Char} (h : c.isDigit = true) : ich c = true := by
  unfold ich; simp [h]

/-! ### natural numbers -/

/-- the digits of a natural number -/
def nl (n : Nat) : List Char := Nat.toDigits 10 n

theorem toList_natStr (n : Nat) : (toString n).toList = nl n := by simp [nl]

theorem nl_digit {n : Nat} {c : Char} (h : c ∈ nl n) : c.isDigit = true :=
  Nat.isDigit_of_mem_toDigits (by decide) (by decide) h

theorem nl_ne_nil (n : Nat) : nl n ≠ [] := Nat.toDigits_ne_nil

theorem nl_inj {m n : Nat} (h : nl m = nl n) : m = n := by
  apply Nat.repr_injective
  apply String.toList_injective
  simpa [nl] using h

/-! ### integers -/

/-- the characters of a printed integer -/
def il (i : Int) : List Char := (toString i).toList

theorem il_eq (i : Int) : il i = if 0 ≤ i then nl i.toNat else '-' :: nl (-i).toNat := by
  unfold il
  rw [Int.toString_eq_repr, Int.repr_eq_if]
  split <;> simp [nl, String.toList_append]

theorem il_ich {i : Int} {c : Char} (h : c ∈ il i) : ich c = true := by
  rw [il_eq] at h
  split at h
  · exact digit_ich (nl_digit h)
  · rcases List.mem_cons.1 h with rfl | h
    · decide
    · exact digit_ich (nl_digit h)

theorem il_ne_nil (i : Int) : il i ≠ [] := by
  rw [il_eq]; split
  · exact nl_ne_nil _
  · simp

theorem il_inj {i j : Int} (h : il i = il j) : i = j := by
  apply Int.repr_injective
  apply String.toList_injective
  simpa [il] using h

/-! ### rationals -/

/-- the characters of a printed rational -/
def rl (r : R) : List Char := (R.toStr r).toList

theorem rl_eq {r : R} (h : r.den ≠ 0) : rl r = if r.den = 1 then il r.num else il r.num ++ '/' :: il r.den := by
  unfold rl R.toStr
  simp only [beq_iff_eq, h, if_false]
  split
  · rfl
  · simp [il, String.toList_append]

theorem rl_rch {r : R} (h : r.den ≠ 0) {c : Char} (hc : c ∈ rl r) : rch c = true := by
  rw [rl_eq h] at hc
  split at hc
  · exact ich_rch (il_ich hc)
  · rcases List.mem_append.1 hc with hc | hc
    · exact ich_rch (il_ich hc)
    · rcases List.mem_cons.1 hc with rfl | hc
      · decide
      · exact ich_rch (il_ich hc)

theorem rl_ne_nil {r : R} (h : r.den ≠ 0) : rl r ≠ [] := by
  rw [rl_eq h]; split
  · exact il_ne_nil _
  · simp

theorem rl_inj {a b : R} (ha : a.den ≠ 0) (hb : b.den ≠ 0) (h : rl a = rl b) : a = b := by
  rw [rl_eq ha, rl_eq hb] at h
  have hs : ∀ i : Int, Stop ich ('/' :: il i) := fun i => stop_cons (by decide)
  have hmem : ∀ i j : Int, '/' ∉ il i := fun i _ hc => by
    have := il_ich hc; revert this; decide
  cases a with | mk an ad => cases b with | mk bn bd =>
  simp only at h ha hb ⊢
  by_cases h1 : ad = 1 <;> by_cases h2 : bd = 1
  · simp only [h1, h2, if_true] at h
    rw [il_inj h, h1, h2]
  · exfalso
    simp only [h1, h2, if_true, if_false] at h
    exact hmem an 0 (by rw [h]; simp)
  · exfalso
    simp only [h1, h2, if_true, if_false] at h
    exact hmem bn 0 (by rw [← h]; simp)
  · simp only [h1, h2, if_false] at h
    obtain ⟨h3, h4⟩ := split_pref ich _ _ _ _ (fun c hc => il_ich hc) (fun c hc => il_ich hc) (hs ad) (hs bd) h
    rw [il_inj h3, il_inj (List.cons.inj h4).2]

end Print

/-- the print-out of a canonical finite rational determines it -/
theorem R.toStr_inj {a b : R} (ha : R.FinWF a) (hb : R.FinWF b) (h : R.toStr a = R.toStr b) : a = b :=
  Print.rl_inj ha.2 hb.2 (by unfold Print.rl; rw [h])

namespace Print

/-! ### `inf_rational` constants `c`, `c + ε`, `c - ε` -/

theorem toStr_not_empty {r : R} (h : r.den ≠ 0) : (R.toStr r).isEmpty = false := by
  rw [Bool.eq_false_iff]
  intro h1
  rw [String.isEmpty_iff] at h1
  exact rl_ne_nil h (by unfold rl; rw [h1]; rfl)

/-- the print-out of a constant cut into its rational part and the rest -/
def irParts (c : IR) : List Char × List Char :=
  if c.inf = R.zero then (rl c.rat, [])
  else if c.inf = R.one then (if c.rat = R.zero then ([], ['ε']) else (rl c.rat, [' ', '+', ' ', 'ε']))
  else (if c.rat = R.zero then (['-'], ['ε']) else (rl c.rat, [' ', '-', ' ', 'ε']))

theorem irToStr_parts {c : IR} (hc : Lra.SimpleC c) :
    (Lra.irToStr c).toList = (irParts c).1 ++ (irParts c).2 := by
  have hd : c.rat.den ≠ 0 := hc.1.2
  have hi : c.rat.isInfinite = false := by simp [R.isInfinite, hd]
  have he := toStr_not_empty hd
  unfold Lra.irToStr irParts
  simp only [hi, Bool.false_or, R.eq_eq_decide, R.ne_eq_not_eq, decide_eq_true_eq]
  rcases hc.2 with h | h | h
  · simp [h, rl]
  · have h0 : ¬ R.one = R.zero := by decide
    by_cases hr : c.rat = R.zero
    · simp [h, h0, hr]
    · simp [h, h0, hr, he, rl, String.toList_append]
  · have h0 : ¬ R.neg R.one = R.zero := by decide
    have h1 : ¬ R.neg R.one = R.one := by decide
    by_cases hr : c.rat = R.zero
    · simp [h, h0, h1, hr]
    · simp [h, h0, h1, hr, he, rl, String.toList_append]

theorem irParts_rch {c : IR} (hc : Lra.SimpleC c) : ∀ x ∈ (irParts c).1, rch x = true := by
  have hd : c.rat.den ≠ 0 := hc.1.2
  intro x hx
  unfold irParts at hx
  split at hx
  · exact rl_rch hd hx
  · split at hx
    · split at hx
      · simp at hx
      · exact rl_rch hd hx
    · split at hx
      · simp only [List.mem_singleton] at hx; subst hx; decide
      · exact rl_rch hd hx

theorem irParts_stop (c : IR) : Stop rch (irParts c).2 := by
  unfold irParts
  split
  · exact stop_nil _
  · split
    · split <;> exact stop_cons (by decide)
    · split <;> exact stop_cons (by decide)

set_option linter.unusedSimpArgs false in
theorem irParts_inj {c c' : IR} (hc : Lra.SimpleC c) (hc' : Lra.SimpleC c') (h : irParts c = irParts c') : c = c' := by
  have hd : c.rat.den ≠ 0 := hc.1.2
  have hd' : c'.rat.den ≠ 0 := hc'.1.2
  have h0 : ¬ R.one = R.zero := by decide
  have h1 : ¬ R.neg R.one = R.zero := by decide
  have h2 : ¬ R.neg R.one = R.one := by decide
  have hn := rl_ne_nil hd
  have hn' := rl_ne_nil hd'
  cases c with | mk r i => cases c' with | mk r' i' =>
  simp only at hd hd' hn hn'
  have key : r = r' ∧ i = i' := by
    unfold irParts at h
    simp only at h
    rcases hc.2 with e | e | e <;> rcases hc'.2 with e' | e' | e' <;> simp only at e e' <;> subst e <;> subst e' <;>
      by_cases z : r = R.zero <;> by_cases z' : r' = R.zero <;>
      simp [h0, h1, h2, z, z', hn, hn', Ne.symm hn, Ne.symm hn'] at h ⊢ <;>
      first | exact rl_inj hd hd' h | exact rl_inj (by decide) hd' h | exact z (rl_inj hd (by decide) h)
  rw [key.1, key.2]

theorem irl_inj {c c' : IR} (hc : Lra.SimpleC c) (hc' : Lra.SimpleC c')
    (h : (Lra.irToStr c).toList = (Lra.irToStr c').toList) : c = c' := by
  rw [irToStr_parts hc, irToStr_parts hc'] at h
  obtain ⟨h1, h2⟩ := split_pref rch _ _ _ _ (irParts_rch hc) (irParts_rch hc') (irParts_stop c) (irParts_stop c') h
  exact irParts_inj hc hc' (Prod.ext h1 h2)

theorem nl_nsp {n : Nat} {c : Char} (h : c ∈ nl n) : nsp c = true :=
  rch_nsp (ich_rch (digit_ich (nl_digit h)))

theorem relKey_toList (up : Bool) (x : Nat) (c : IR) :
    (Lra.relKey up x c).toList =
      ('x' :: nl x) ++ (' ' :: (if up then '<' else '>') :: '=' :: ' ' :: (Lra.irToStr c).toList) := by
  unfold Lra.relKey
  cases up <;> simp [String.toList_append, nl]

end Print

/-- the key of an assertion determines its direction, variable and constant -/
theorem Lra.relKey_inj {up up' : Bool} {x x' : Nat} {c c' : IR} (hc : Lra.SimpleC c) (hc' : Lra.SimpleC c')
    (h : Lra.relKey up x c = Lra.relKey up' x' c') : up = up' ∧ x = x' ∧ c = c' := by
  have h1 : (Lra.relKey up x c).toList = (Lra.relKey up' x' c').toList := by rw [h]
  rw [Print.relKey_toList, Print.relKey_toList] at h1
  have hx : ∀ n : Nat, ∀ a ∈ 'x' :: Print.nl n, Print.nsp a = true := by
    intro n a ha
    rcases List.mem_cons.1 ha with rfl | ha
    · decide
    · exact Print.nl_nsp ha
  obtain ⟨h2, h3⟩ := Print.split_pref Print.nsp _ _ _ _ (hx x) (hx x')
    (Print.stop_cons (by decide)) (Print.stop_cons (by decide)) h1
  have h4 : x = x' := Print.nl_inj (List.cons.inj h2).2
  have h5 : (if up then '<' else '>') = (if up' then '<' else '>') ∧ (Lra.irToStr c).toList = (Lra.irToStr c').toList := by
    simpa using h3
  refine ⟨?_, h4, Print.irl_inj hc hc' h5.2⟩
  have h6 := h5.1
  cases up <;> cases up' <;> first | rfl | (exfalso; revert h6; decide)

namespace Print

/-! ### linear expressions: the structured printer -/

/-- a later piece of the print-out: blank, sign, blank, body -/
def seg (x : Char × List Char) : List Char := ' ' :: x.1 :: ' ' :: x.2

/-- sign and printed coefficient (`none` for `±1`) of a later term -/
def cls (c : R) : Char × Option R :=
  if c = R.one then ('+', none) else if c = R.neg R.one then ('-', none)
  else if 0 < c.num then ('+', some c) else ('-', some (R.neg c))

/-- the body of a term -/
def tbody (o : Option R) (v : Nat) : List Char :=
  match o with
  | none => 'x' :: nl v
  | some q => rl q ++ '*' :: 'x' :: nl v

def termSeg (t : Nat × R) : Char × List Char := ((cls t.2).1, tbody (cls t.2).2 t.1)

/-- the known term: one piece or nothing -/
def kseg (k : R) : List (Char × List Char) :=
  if 0 < k.num then [('+', rl k)] else if k.num < 0 then [('-', rl (R.neg k))] else []

/-- the first term -/
def firstL (t : Nat × R) : List Char :=
  if t.2 = R.one then 'x' :: nl t.1 else if t.2 = R.neg R.one then '-' :: 'x' :: nl t.1
  else rl t.2 ++ '*' :: 'x' :: nl t.1

/-- the structured printer -/
def toks (l : Lin) : List Char :=
  match l.vars with
  | [] => rl l.known
  | t :: rest => firstL t ++ (rest.map termSeg ++ kseg l.known).flatMap seg

/-- the loop body of `Lin.toStr` -/
def stepS (s : String) (t : Nat × R) : String :=
  if R.eq t.2 R.one then s ++ " + x" ++ toString t.1
  else if R.eq t.2 (R.neg R.one) then s ++ " - x" ++ toString t.1
  else if t.2.isPositive then s ++ " + " ++ R.toStr t.2 ++ "*x" ++ toString t.1
  else s ++ " - " ++ R.toStr (R.neg t.2) ++ "*x" ++ toString t.1

/-- the first term of `Lin.toStr` -/
def firstS (t : Nat × R) : String :=
  if R.eq t.2 R.one then "x" ++ toString t.1
  else if R.eq t.2 (R.neg R.one) then "-x" ++ toString t.1
  else R.toStr t.2 ++ "*x" ++ toString t.1

/-- the known term of `Lin.toStr` -/
def knownS (s : String) (k : R) : String :=
  let s := if k.isPositive then s ++ " + " ++ R.toStr k else s
  if k.isNegative then s ++ " - " ++ R.toStr (R.neg k) else s

theorem toStr_cons (t : Nat × R) (rest : List (Nat × R)) (k : R) :
    Lin.toStr ⟨t :: rest, k⟩ = knownS (rest.foldl stepS (firstS t)) k := rfl

theorem stepS_toList (s : String) (t : Nat × R) : (stepS s t).toList = s.toList ++ seg (termSeg t) := by
  unfold stepS termSeg cls seg tbody
  simp only [R.eq_eq_decide, decide_eq_true_eq, R.isPositive]
  by_cases h1 : t.2 = R.one
  · simp [h1, String.toList_append, nl]
  · by_cases h2 : t.2 = R.neg R.one
    · have h0 : ¬ R.neg R.one = R.one := by decide
      simp [h2, h0, String.toList_append, nl]
    · by_cases h3 : 0 < t.2.num
      · simp [h1, h2, h3, String.toList_append, nl, rl]
      · simp [h1, h2, h3, String.toList_append, nl, rl]

theorem foldl_stepS_toList (rest : List (Nat × R)) :
    ∀ s : String, (rest.foldl stepS s).toList = s.toList ++ (rest.map termSeg).flatMap seg := by
  induction rest with
  | nil => intro s; simp
  | cons t rest ih =>
    intro s
    rw [List.foldl_cons, ih, stepS_toList]
    simp

theorem firstS_toList (t : Nat × R) : (firstS t).toList = firstL t := by
  unfold firstS firstL
  simp only [R.eq_eq_decide, decide_eq_true_eq]
  by_cases h1 : t.2 = R.one
  · simp [h1, String.toList_append, nl]
  · by_cases h2 : t.2 = R.neg R.one
    · have h0 : ¬ R.neg R.one = R.one := by decide
      simp [h2, h0, String.toList_append, nl]
    · simp [h1, h2, String.toList_append, nl, rl]

theorem knownS_toList (s : String) (k : R) : (knownS s k).toList = s.toList ++ (kseg k).flatMap seg := by
  unfold knownS kseg seg
  simp only [R.isPositive, R.isNegative, decide_eq_true_eq]
  by_cases h1 : 0 < k.num
  · have h2 : ¬ k.num < 0 := by omega
    simp [h1, h2, String.toList_append, rl]
  · by_cases h2 : k.num < 0
    · simp [h1, h2, String.toList_append, rl]
    · simp [h1, h2]

theorem toStr_toList (l : Lin) : (Lin.toStr l).toList = toks l := by
  cases l with | mk vars k =>
  cases vars with
  | nil => rfl
  | cons t rest =>
    rw [toStr_cons, knownS_toList, foldl_stepS_toList, firstS_toList]
    simp [toks]

end Print

namespace Print

/-! ### linear expressions: injectivity of the structured printer -/

theorem rl_nsp {r : R} (h : r.den ≠ 0) {c : Char} (hc : c ∈ rl r) : nsp c = true := rch_nsp (rl_rch h hc)

theorem x_not_mem_rl {r : R} (h : r.den ≠ 0) : 'x' ∉ rl r := by
  intro hc
  have := rl_rch h hc
  revert this; decide

theorem neg_inj {a b : R} (h : R.neg a = R.neg b) : a = b := by
  cases a with | mk an ad => cases b with | mk bn bd =>
  simp only [R.neg, R.mk.injEq] at h ⊢
  exact ⟨by omega, h.2⟩

theorem flatMap_seg_stop (l : List (Char × List Char)) : Stop nsp (l.flatMap seg) := by
  cases l with
  | nil => exact stop_nil _
  | cons x t => simp only [List.flatMap_cons, seg, List.cons_append]; exact stop_cons (by decide)

theorem segs_inj : ∀ (l l' : List (Char × List Char)),
    (∀ x ∈ l, ∀ c ∈ x.2, nsp c = true) → (∀ x ∈ l', ∀ c ∈ x.2, nsp c = true) →
    l.flatMap seg = l'.flatMap seg → l = l' := by
  intro l
  induction l with
  | nil =>
    intro l' _ _ h
    cases l' with
    | nil => rfl
    | cons x t => simp [seg] at h
  | cons x t ih =>
    intro l' hl hl' h
    cases l' with
    | nil => simp [seg] at h
    | cons x' t' =>
      simp only [List.flatMap_cons, seg, List.cons_append, List.cons.injEq, true_and] at h
      obtain ⟨h1, h2⟩ := h
      obtain ⟨h3, h4⟩ := split_pref nsp _ _ _ _ (hl x (by simp)) (hl' x' (by simp))
        (flatMap_seg_stop t) (flatMap_seg_stop t') h2
      have h5 := ih t' (fun y hy => hl y (by simp [hy])) (fun y hy => hl' y (by simp [hy])) h4
      rw [h5, Prod.ext h1 h3]

theorem cls_den {c : R} (h : c.den ≠ 0) : ∀ q ∈ (cls c).2, q.den ≠ 0 := by
  intro q hq
  unfold cls at hq
  split at hq
  · simp at hq
  · split at hq
    · simp at hq
    · split at hq
      · simp only [Option.mem_def, Option.some.injEq] at hq; subst hq; exact h
      · simp only [Option.mem_def, Option.some.injEq] at hq; subst hq; exact h

theorem cls_inj {c c' : R} (h : cls c = cls c') : c = c' := by
  unfold cls at h
  by_cases a1 : c = R.one <;> by_cases b1 : c' = R.one
  · rw [a1, b1]
  · exfalso
    simp only [a1, b1, if_true, if_false] at h
    split at h
    · simp at h
    · split at h <;> simp at h
  · exfalso
    simp only [a1, b1, if_true, if_false] at h
    split at h
    · simp at h
    · split at h <;> simp at h
  · simp only [a1, b1, if_false] at h
    by_cases a2 : c = R.neg R.one <;> by_cases b2 : c' = R.neg R.one
    · rw [a2, b2]
    · exfalso
      simp only [a2, b2, if_true, if_false] at h
      split at h <;> simp at h
    · exfalso
      simp only [a2, b2, if_true, if_false] at h
      split at h <;> simp at h
    · simp only [a2, b2, if_false] at h
      by_cases a3 : 0 < c.num <;> by_cases b3 : 0 < c'.num
      · simpa [a3, b3] using h
      · simp [a3, b3] at h
      · simp [a3, b3] at h
      · simp only [a3, b3, if_false, Prod.mk.injEq, Option.some.injEq, true_and] at h
        exact neg_inj h

/-- the part of a body before the `x` / `*x` -/
def tpre (o : Option R) : List Char := match o with | none => [] | some q => rl q
/-- the `x` / `*x` and the variable -/
def tpost (o : Option R) (v : Nat) : List Char := match o with | none => 'x' :: nl v | some _ => '*' :: 'x' :: nl v

theorem tbody_eq (o : Option R) (v : Nat) : tbody o v = tpre o ++ tpost o v := by
  cases o <;> simp [tbody, tpre, tpost]

theorem tbody_inj {o o' : Option R} {v v' : Nat} (ho : ∀ q ∈ o, q.den ≠ 0) (ho' : ∀ q ∈ o', q.den ≠ 0)
    (h : tbody o v = tbody o' v') : o = o' ∧ v = v' := by
  rw [tbody_eq, tbody_eq] at h
  have hp : ∀ o : Option R, (∀ q ∈ o, q.den ≠ 0) → ∀ c ∈ tpre o, rch c = true := by
    intro o ho c hc
    cases o with
    | none => simp [tpre] at hc
    | some q => exact rl_rch (ho q rfl) hc
  have hs : ∀ (o : Option R) (v : Nat), Stop rch (tpost o v) := by
    intro o v
    cases o <;> exact stop_cons (by decide)
  obtain ⟨h1, h2⟩ := split_pref rch _ _ _ _ (hp o ho) (hp o' ho') (hs o v) (hs o' v') h
  cases o with
  | none =>
    cases o' with
    | none =>
      simp only [tpost, List.cons.injEq, true_and] at h2
      exact ⟨rfl, nl_inj h2⟩
    | some q' => simp [tpost] at h2
  | some q =>
    cases o' with
    | none => simp [tpost] at h2
    | some q' =>
      simp only [tpost, List.cons.injEq, true_and] at h2
      simp only [tpre] at h1
      rw [rl_inj (ho q rfl) (ho' q' rfl) h1]
      exact ⟨rfl, nl_inj h2⟩

theorem x_mem_tbody (o : Option R) (v : Nat) : 'x' ∈ tbody o v := by
  cases o <;> simp [tbody]

theorem tbody_nsp {o : Option R} (ho : ∀ q ∈ o, q.den ≠ 0) (v : Nat) : ∀ c ∈ tbody o v, nsp c = true := by
  intro c hc
  cases o with
  | none =>
    rcases List.mem_cons.1 hc with rfl | hc
    · decide
    · exact nl_nsp hc
  | some q =>
    simp only [tbody] at hc
    rcases List.mem_append.1 hc with hc | hc
    · exact rl_nsp (ho q rfl) hc
    · rcases List.mem_cons.1 hc with rfl | hc
      · decide
      · rcases List.mem_cons.1 hc with rfl | hc
        · decide
        · exact nl_nsp hc

theorem termSeg_inj {t t' : Nat × R} (h : t.2.den ≠ 0) (h' : t'.2.den ≠ 0) (e : termSeg t = termSeg t') : t = t' := by
  unfold termSeg at e
  simp only [Prod.mk.injEq] at e
  obtain ⟨e1, e2⟩ := tbody_inj (cls_den h) (cls_den h') e.2
  exact Prod.ext e2 (cls_inj (Prod.ext e.1 e1))

theorem termSeg_nsp {t : Nat × R} (h : t.2.den ≠ 0) : ∀ c ∈ (termSeg t).2, nsp c = true :=
  tbody_nsp (cls_den h) t.1

theorem kseg_nsp {k : R} (h : k.den ≠ 0) : ∀ x ∈ kseg k, ∀ c ∈ x.2, nsp c = true := by
  intro x hx c hc
  unfold kseg at hx
  split at hx
  · simp only [List.mem_singleton] at hx; subst hx; exact rl_nsp h hc
  · split at hx
    · simp only [List.mem_singleton] at hx; subst hx
      exact rl_nsp (r := R.neg k) h hc
    · simp at hx

theorem kseg_no_x {k : R} (h : k.den ≠ 0) : ∀ x ∈ kseg k, 'x' ∉ x.2 := by
  intro x hx
  unfold kseg at hx
  split at hx
  · simp only [List.mem_singleton] at hx; subst hx; exact x_not_mem_rl h
  · split at hx
    · simp only [List.mem_singleton] at hx; subst hx
      exact x_not_mem_rl (r := R.neg k) h
    · simp at hx

theorem kseg_length (k : R) : (kseg k).length ≤ 1 := by
  unfold kseg; split
  · simp
  · split <;> simp

theorem kseg_inj {k k' : R} (h : R.FinWF k) (h' : R.FinWF k') (e : kseg k = kseg k') : k = k' := by
  unfold kseg at e
  by_cases a1 : 0 < k.num <;> by_cases b1 : 0 < k'.num
  · simp only [a1, b1, if_true, List.cons.injEq, Prod.mk.injEq, true_and, and_true] at e
    exact rl_inj h.2 h'.2 e
  · simp only [a1, b1, if_true, if_false] at e
    split at e <;> simp at e
  · simp only [a1, b1, if_true, if_false] at e
    split at e <;> simp at e
  · simp only [a1, b1, if_false] at e
    by_cases a2 : k.num < 0 <;> by_cases b2 : k'.num < 0
    · simp only [a2, b2, if_true, List.cons.injEq, Prod.mk.injEq, true_and, and_true] at e
      exact neg_inj (rl_inj (a := R.neg k) (b := R.neg k') h.2 h'.2 e)
    · simp [a2, b2] at e
    · simp [a2, b2] at e
    · rw [R.wf_num_zero h.1 (by omega), R.wf_num_zero h'.1 (by omega)]

theorem tail_inj : ∀ (r r' : List (Nat × R)) (k k' : R),
    (∀ t ∈ r, t.2.den ≠ 0) → (∀ t ∈ r', t.2.den ≠ 0) → R.FinWF k → R.FinWF k' →
    r.map termSeg ++ kseg k = r'.map termSeg ++ kseg k' → r = r' ∧ k = k' := by
  intro r
  induction r with
  | nil =>
    intro r' k k' _ hr' hk hk' e
    cases r' with
    | nil => exact ⟨rfl, kseg_inj hk hk' (by simpa using e)⟩
    | cons t' r' =>
      exfalso
      simp only [List.map_nil, List.nil_append, List.map_cons, List.cons_append] at e
      have h1 : termSeg t' ∈ kseg k := by rw [e]; simp
      exact kseg_no_x hk.2 _ h1 (x_mem_tbody _ _)
  | cons t r ih =>
    intro r' k k' hr hr' hk hk' e
    cases r' with
    | nil =>
      exfalso
      simp only [List.map_nil, List.nil_append, List.map_cons, List.cons_append] at e
      have h1 : termSeg t ∈ kseg k' := by rw [← e]; simp
      exact kseg_no_x hk'.2 _ h1 (x_mem_tbody _ _)
    | cons t' r' =>
      simp only [List.map_cons, List.cons_append, List.cons.injEq] at e
      obtain ⟨h1, h2⟩ := ih r' k k' (fun y hy => hr y (by simp [hy])) (fun y hy => hr' y (by simp [hy])) hk hk' e.2
      rw [termSeg_inj (hr t (by simp)) (hr' t' (by simp)) e.1, h1, h2]
      exact ⟨rfl, rfl⟩

/-- the part of the first term before the `x` / `*x` -/
def fpre (t : Nat × R) : List Char :=
  if t.2 = R.one then [] else if t.2 = R.neg R.one then ['-'] else rl t.2
def fpost (t : Nat × R) : List Char :=
  if t.2 = R.one then 'x' :: nl t.1 else if t.2 = R.neg R.one then 'x' :: nl t.1 else '*' :: 'x' :: nl t.1

theorem firstL_eq (t : Nat × R) : firstL t = fpre t ++ fpost t := by
  unfold firstL fpre fpost
  split
  · rfl
  · split <;> simp

theorem fpre_rch {t : Nat × R} (h : t.2.den ≠ 0) : ∀ c ∈ fpre t, rch c = true := by
  intro c hc
  unfold fpre at hc
  split at hc
  · simp at hc
  · split at hc
    · simp only [List.mem_singleton] at hc; subst hc; decide
    · exact rl_rch h hc

theorem fpost_stop (t : Nat × R) : Stop rch (fpost t) := by
  unfold fpost
  split
  · exact stop_cons (by decide)
  · split <;> exact stop_cons (by decide)

theorem x_mem_firstL (t : Nat × R) : 'x' ∈ firstL t := by
  unfold firstL
  split
  · simp
  · split <;> simp

theorem firstL_nsp {t : Nat × R} (h : t.2.den ≠ 0) : ∀ c ∈ firstL t, nsp c = true := by
  intro c hc
  rw [firstL_eq] at hc
  rcases List.mem_append.1 hc with hc | hc
  · exact rch_nsp (fpre_rch h c hc)
  · have hx : ∀ c ∈ 'x' :: nl t.1, nsp c = true := by
      intro c hc
      rcases List.mem_cons.1 hc with rfl | hc
      · decide
      · exact nl_nsp hc
    unfold fpost at hc
    split at hc
    · exact hx c hc
    · split at hc
      · exact hx c hc
      · rcases List.mem_cons.1 hc with rfl | hc
        · decide
        · exact hx c hc

theorem firstL_inj {t t' : Nat × R} (h : t.2.den ≠ 0) (h' : t'.2.den ≠ 0) (e : firstL t = firstL t') : t = t' := by
  rw [firstL_eq, firstL_eq] at e
  obtain ⟨e1, e2⟩ := split_pref rch _ _ _ _ (fpre_rch h) (fpre_rch h') (fpost_stop t) (fpost_stop t') e
  have hn := rl_ne_nil h
  have hn' := rl_ne_nil h'
  cases t with | mk v c => cases t' with | mk v' c' =>
  unfold fpre at e1
  unfold fpost at e2
  simp only at e1 e2 hn hn' h h' ⊢
  by_cases a1 : c = R.one <;> by_cases b1 : c' = R.one
  · simp only [a1, b1, if_true, List.cons.injEq, true_and] at e2
    rw [a1, b1, nl_inj e2]
  · exfalso
    simp only [a1, b1, if_true, if_false] at e1 e2
    by_cases b2 : c' = R.neg R.one
    · simp [b2] at e1
    · simp [b2] at e2
  · exfalso
    simp only [a1, b1, if_true, if_false] at e1 e2
    by_cases a2 : c = R.neg R.one
    · simp [a2] at e1
    · simp [a2] at e2
  · simp only [a1, b1, if_false] at e1 e2
    by_cases a2 : c = R.neg R.one <;> by_cases b2 : c' = R.neg R.one
    · simp only [a2, b2, if_true, List.cons.injEq, true_and] at e2
      rw [a2, b2, nl_inj e2]
    · exfalso
      simp [a2, b2] at e2
    · exfalso
      simp [a2, b2] at e2
    · simp only [a2, b2, if_false, List.cons.injEq, true_and] at e1 e2
      rw [rl_inj h h' e1, nl_inj e2]

theorem toks_inj {a b : Lin} (ha : a.WF) (hb : b.WF) (h : toks a = toks b) : a = b := by
  obtain ⟨_, ha2, ha3⟩ := ha
  obtain ⟨_, hb2, hb3⟩ := hb
  cases a with | mk va ka => cases b with | mk vb kb =>
  simp only at ha2 ha3 hb2 hb3
  cases va with
  | nil =>
    cases vb with
    | nil =>
      simp only [toks] at h
      rw [rl_inj ha3.2 hb3.2 h]
    | cons t' r' =>
      exfalso
      simp only [toks] at h
      exact x_not_mem_rl ha3.2 (by rw [h]; exact List.mem_append_left _ (x_mem_firstL t'))
  | cons t r =>
    cases vb with
    | nil =>
      exfalso
      simp only [toks] at h
      exact x_not_mem_rl hb3.2 (by rw [← h]; exact List.mem_append_left _ (x_mem_firstL t))
    | cons t' r' =>
      simp only [toks] at h
      have dt : t.2.den ≠ 0 := (ha2 t (by simp)).2
      have dt' : t'.2.den ≠ 0 := (hb2 t' (by simp)).2
      have dr : ∀ y ∈ r, y.2.den ≠ 0 := fun y hy => (ha2 y (by simp [hy])).2
      have dr' : ∀ y ∈ r', y.2.den ≠ 0 := fun y hy => (hb2 y (by simp [hy])).2
      obtain ⟨h1, h2⟩ := split_pref nsp _ _ _ _ (firstL_nsp dt) (firstL_nsp dt')
        (flatMap_seg_stop _) (flatMap_seg_stop _) h
      have n1 : ∀ x ∈ r.map termSeg ++ kseg ka, ∀ c ∈ x.2, nsp c = true := by
        intro x hx
        rcases List.mem_append.1 hx with hx | hx
        · obtain ⟨y, hy, rfl⟩ := List.mem_map.1 hx
          exact termSeg_nsp (dr y hy)
        · exact kseg_nsp ha3.2 x hx
      have n2 : ∀ x ∈ r'.map termSeg ++ kseg kb, ∀ c ∈ x.2, nsp c = true := by
        intro x hx
        rcases List.mem_append.1 hx with hx | hx
        · obtain ⟨y, hy, rfl⟩ := List.mem_map.1 hx
          exact termSeg_nsp (dr' y hy)
        · exact kseg_nsp hb3.2 x hx
      have h3 := segs_inj _ _ n1 n2 h2
      obtain ⟨h4, h5⟩ := tail_inj r r' ka kb dr dr' ha3 hb3 h3
      rw [firstL_inj dt dt' h1, h4, h5]

end Print

/-- the print-out of a canonical linear expression determines it (zero coefficients allowed: they print as
    "0*x3" / " - 0*x3") -/
theorem Lin.toStr_inj {a b : Lin} (ha : a.WF) (hb : b.WF) (h : Lin.toStr a = Lin.toStr b) : a = b :=
  Print.toks_inj ha hb (by rw [← Print.toStr_toList, ← Print.toStr_toList, h])

/-- `new_var()` names the variable `id` by the print-out of the expression `1·x_id` -/
theorem Lin.toStr_var_one (v : Nat) : Lin.toStr ⟨[(v, R.one)], R.zero⟩ = "x" ++ toString v := by
  simp [Lin.toStr, R.eq, R.one, R.zero, R.isPositive, R.isNegative]

end Oratio
