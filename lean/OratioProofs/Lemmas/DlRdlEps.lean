/-
Every matrix entry of the real-valued difference logic is built from the weights by `+`:
a predicate on `IR` that holds for `0`, `+∞`, the weights and is closed under `+` holds for
every entry.  Instantiated with "the ε part is an integer" (`inf.den = 1`), which is what the
strict negation `-d - ε` of `propagate(lit)` needs (see C10R_negation_is_reverse_edge).
-/
import OratioProofs.Lemmas.DlRdl

set_option linter.unusedSectionVars false
set_option linter.unusedVariables false

namespace Oratio
namespace DlR
open Dl

section generic
variable {α : Type} (O : DOps α) (P : α → Prop)

/-- all entries (and the default returned outside the matrix) satisfy `P` -/
def AllP (t : Dl α) : Prop := ∀ a b, P (d O t a b)

theorem d_setD_cases (t : Dl α) (i j : Nat) (x : α) (a b : Nat) :
    d O (setD t i j x) a b = x ∨ d O (setD t i j x) a b = d O t a b := by
  by_cases hi : i < t.dists.length
  · by_cases hj : j < (t.dists.getD i []).length
    · rw [d_setD O t i j x a b hi hj]
      split
      · left; rfl
      · right; rfl
    · right
      have : (t.dists.getD i []).set j x = t.dists.getD i [] := List.set_eq_of_length_le (by omega)
      simp only [d_eq, setD, this]
      congr 2
      simp [List.getD_eq_getElem?_getD, hi]
  · right
    have : t.dists.set i ((t.dists.getD i []).set j x) = t.dists := List.set_eq_of_length_le (by omega)
    simp only [d_eq, setD, this]

theorem allP_wr {t : Dl α} (h : AllP O P t) (i j : Nat) (x : α) (y : Nat) (hx : P x) : AllP O P (wr O t i j x y) := by
  intro a b
  rw [wr, d_congr O (dists_setPred _ _ _ _), d_congr O (dists_setDist O _ _ _ _)]
  rcases d_setD_cases O t i j x a b with e | e <;> rw [e]
  · exact hx
  · exact h a b

variable (hadd : ∀ x y, P x → P y → P (O.add x y))
include hadd

theorem allP_phase1 (f g : Nat) (w : α) (hw : P w) :
    ∀ (fuel : Nat) (tz : Dl α) (u : Nat) (t : Dl α) (si sj : List Nat) (ups : List (Nat × Nat)), AllP O P t →
      AllP O P (phase1 O tz f g w fuel u (t, si, sj, ups)).1 := by
  intro fuel
  induction fuel with
  | zero => intro tz u t si sj ups h; exact h
  | succ m ih =>
    intro tz u t si sj ups h
    rw [phase1]
    have key1 : AllP O P
        (if (O.finiteGuard (d O t u f) && O.lt (d O t u f) (O.sub (d O t u g) w)) = true then
          (wr O t u g (O.add (d O t u f) w) f, si ++ [u], ups ++ [(u, g), (g, u)])
        else (t, si, ups)).1 := by
      split
      · exact allP_wr O P h _ _ _ _ (hadd _ _ (h u f) hw)
      · exact h
    split
    rename_i t1 si1 ups1 heq1
    have h1 : AllP O P t1 := by
      have := congrArg (fun x => x.1) heq1
      simp only at this
      rw [← this]; exact key1
    dsimp only
    split
    · exact ih _ _ _ _ _ _ (allP_wr O P h1 _ _ _ _ (hadd _ _ (h1 g u) hw))
    · exact ih _ _ _ _ _ _ h1

theorem allP_phase2 (g : Nat) (sj : List Nat) : ∀ (si : List Nat) (acc : Dl α × List (Nat × Nat)), AllP O P acc.1 →
    AllP O P (si.foldl (fun acc i => sj.foldl (fun (acc : Dl α × List (Nat × Nat)) j =>
      let (t, ups) := acc
      if i != j && O.lt (O.add (d O t i g) (d O t g j)) (d O t i j) then
        let t := setDist O t i j (O.add (d O t i g) (d O t g j))
        let t := setPred t i j (p t g j)
        (t, ups ++ [(i, j), (j, i)])
      else (t, ups)) acc) acc).1 := by
  intro si
  induction si with
  | nil => intro acc h; exact h
  | cons i si ih =>
    intro acc h
    rw [List.foldl_cons]
    apply ih
    -- inner fold
    clear ih
    revert acc
    induction sj with
    | nil => intro acc h; exact h
    | cons j sj ih2 =>
      intro acc h
      rw [List.foldl_cons]
      apply ih2
      obtain ⟨t, ups⟩ := acc
      dsimp only
      split
      · exact allP_wr O P h _ _ _ _ (hadd _ _ (h i g) (h g j))
      · exact h

theorem allP_propagateEdge (s : Sat) (t : Dl α) (f g : Nat) (w : α) (hw : P w) (h : AllP O P t) :
    AllP O P (propagateEdge O s t f g w).2 := by
  have h0 : AllP O P (wr O t f g w f) := allP_wr O P h _ _ _ _ hw
  have h1 := allP_phase1 O P hadd f g w hw (wr O t f g w f).nVars (wr O t f g w f) 0 (wr O t f g w f) [] []
    [(f, g), (g, f)] h0
  have e : (propagateEdge O s t f g w).2 =
      (phase2 O (phase1 O (wr O t f g w f) f g w (wr O t f g w f).nVars 0 (wr O t f g w f, [], [], [(f, g), (g, f)])).1 g
        (phase1 O (wr O t f g w f) f g w (wr O t f g w f).nVars 0 (wr O t f g w f, [], [], [(f, g), (g, f)])).2.1
        (phase1 O (wr O t f g w f) f g w (wr O t f g w f).nVars 0 (wr O t f g w f, [], [], [(f, g), (g, f)])).2.2.1
        (phase1 O (wr O t f g w f) f g w (wr O t f g w f).nVars 0 (wr O t f g w f, [], [], [(f, g), (g, f)])).2.2.2).1 := rfl
  rw [e]
  exact allP_phase2 O P hadd g _ _ (_, _) h1

end generic

/-! ### the ε part of every entry is an integer -/

def EpsI (x : IR) : Prop := x.inf.den = 1

theorem R_add_den_one {a b : R} (ha : a.den = 1) (hb : b.den = 1) : (R.add a b).den = 1 := by
  unfold R.add
  split
  · exact hb
  · split
    · exact ha
    · rw [if_pos (by simp [ha, hb])]; rfl

theorem epsI_add (x y : IR) (hx : EpsI x) (hy : EpsI y) : EpsI (rdlOps.add x y) := R_add_den_one hx hy

theorem epsI_negStrict (w : IR) (hw : EpsI w) : EpsI (rdlOps.negStrict w) := by
  show (R.add (R.neg w.inf) (R.neg R.one)).den = 1
  exact R_add_den_one hw rfl

theorem epsI_zero : EpsI rdlOps.zero := rfl
theorem epsI_inf : EpsI rdlOps.inf := rfl

end DlR
end Oratio
