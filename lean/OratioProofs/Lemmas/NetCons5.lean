/-
C07N, target 4: the relation requests of the difference logics, `idl/rdl.new_lt … new_gt, new_eq` (`Dl.newRel`):
a constant answer, one `new_distance`, or two `new_distance`s and their conjunction (`Sat.newConj`); the
invariant `NetInv` is kept and every T-model of the new network is a T-model of the old one.
-/
import OratioProofs.Lemmas.NetCons4

set_option linter.unusedSimpArgs false
set_option linter.unusedVariables false

namespace Oratio
namespace Dl

/-- what a relation request of a difference logic does: nothing (a constant answer), one `new_distance`, or
    two `new_distance`s (`to - from ≤ k`, `from - to ≤ -k`) and their conjunction -/
theorem newRel_out {α : Type} (O : DOps α) (nc : Sat → List Lit → Lit × Sat) {s : Sat} {t : Dl α} {r : Rel} {a b : Lin}
    {l : Lit} {s' : Sat} {t' : Dl α} (h : newRel O nc s t r a b = some (l, s', t')) :
    (s' = s ∧ t' = t) ∨ (∃ f g w, newDistance O s t f g w = (l, s', t')) ∨
    (∃ f g w w', nc (newDistance O (newDistance O s t f g w).2.1 (newDistance O s t f g w).2.2 g f w').2.1
        [(newDistance O s t f g w).1, (newDistance O (newDistance O s t f g w).2.1 (newDistance O s t f g w).2.2 g f w').1] = (l, s') ∧
      t' = (newDistance O (newDistance O s t f g w).2.1 (newDistance O s t f g w).2.2 g f w').2.2) := by
  unfold newRel at h
  simp only at h
  split at h
  · simp only [Option.some.injEq, Prod.mk.injEq] at h
    exact Or.inl ⟨h.2.1.symm, h.2.2.symm⟩
  · rename_i x c hx
    cases r <;> simp only at h
    · split at h <;>
        (rw [Option.map_eq_some_iff] at h; obtain ⟨dk, _, e⟩ := h; exact Or.inr (Or.inl ⟨_, _, dk, e⟩))
    · split at h <;>
        (rw [Option.map_eq_some_iff] at h; obtain ⟨dk, _, e⟩ := h; exact Or.inr (Or.inl ⟨_, _, dk, e⟩))
    · split at h
      · split at h
        · simp only [Option.some.injEq, Prod.mk.injEq] at h
          exact Or.inr (Or.inr ⟨_, _, _, _, Prod.ext h.1 h.2.1, h.2.2.symm⟩)
        · simp only [Option.some.injEq, Prod.mk.injEq] at h
          exact Or.inl ⟨h.2.1.symm, h.2.2.symm⟩
      · cases h
    · split at h <;>
        (rw [Option.map_eq_some_iff] at h; obtain ⟨dk, _, e⟩ := h; exact Or.inr (Or.inl ⟨_, _, dk, e⟩))
    · split at h <;>
        (rw [Option.map_eq_some_iff] at h; obtain ⟨dk, _, e⟩ := h; exact Or.inr (Or.inl ⟨_, _, dk, e⟩))
  · rename_i v0 c0 v1 c1 hx
    split at h
    · cases h
    · rename_i hc1
      cases r <;> simp only at h
      · split at h <;>
          (rw [Option.map_eq_some_iff] at h; obtain ⟨dk, _, e⟩ := h; exact Or.inr (Or.inl ⟨_, _, dk, e⟩))
      · split at h <;>
          (rw [Option.map_eq_some_iff] at h; obtain ⟨dk, _, e⟩ := h; exact Or.inr (Or.inl ⟨_, _, dk, e⟩))
      · split at h
        · split at h
          · simp only [Option.some.injEq, Prod.mk.injEq] at h
            exact Or.inr (Or.inr ⟨_, _, _, _, Prod.ext h.1 h.2.1, h.2.2.symm⟩)
          · simp only [Option.some.injEq, Prod.mk.injEq] at h
            exact Or.inl ⟨h.2.1.symm, h.2.2.symm⟩
        · cases h
      · split at h <;>
          (rw [Option.map_eq_some_iff] at h; obtain ⟨dk, _, e⟩ := h; exact Or.inr (Or.inl ⟨_, _, dk, e⟩))
      · split at h <;>
          (rw [Option.map_eq_some_iff] at h; obtain ⟨dk, _, e⟩ := h; exact Or.inr (Or.inl ⟨_, _, dk, e⟩))
  · cases h

/-- the literal `new_distance` answers: a constant, or the new variable -/
theorem newDistance_lit {α : Type} (O : DOps α) (s : Sat) (t : Dl α) (f g : Nat) (w : α) :
    (newDistance O s t f g w).1 = Lit.falseLit ∨ (newDistance O s t f g w).1 = Lit.trueLit ∨
    ((newDistance O s t f g w).1 = ⟨s.vals.length, true⟩ ∧ (newDistance O s t f g w).2.1 = s.newVar.2) := by
  unfold newDistance
  split
  · exact Or.inl rfl
  · split
    · exact Or.inr (Or.inl rfl)
    · exact Or.inr (Or.inr ⟨rfl, rfl⟩)

end Dl

namespace Net
open Sat

/-- the invariant does not depend on the table `bound` -/
theorem NetInv.congrN {n n' : Net} {orig L : Cnf} {fr : List Frame} (h : NetInv n orig L fr) (e1 : n'.sat = n.sat)
    (e2 : n'.lra = n.lra) (e3 : n'.idl = n.idl) (e4 : n'.rdl = n.rdl) : NetInv n' orig L fr := by
  obtain ⟨s, l, i, r, bd⟩ := n
  obtain ⟨s', l', i', r', bd'⟩ := n'
  simp only at e1 e2 e3 e4
  subst e1; subst e2; subst e3; subst e4
  exact ⟨h.sat, h.lemmas, h.th, h.flv, h.flen, h.reg⟩

theorem TModel.congrN {n n' : Net} (e2 : n'.lra = n.lra) (e3 : n'.idl = n.idl) (e4 : n'.rdl = n.rdl) (α : Asg) :
    TModel n' α ↔ TModel n α := by
  unfold TModel; rw [e2, e3, e4]

theorem vals_pos {orig K : Cnf} {s : Sat} (h : SInv orig K s) : 0 < s.vals.length := by
  have := h.wf.a.val0
  cases hv : s.vals with
  | nil => rw [hv] at this; simp at this
  | cons a l => simp

/-- one `new_distance` of the IDL theory inside a relation request -/
theorem NetInv.idlStep {n : Net} {orig L : Cnf} {fr : List Frame} (h : NetInv n orig L fr) (hroot : n.sat.trailLim = [])
    (f g : Nat) (w : Int) {K : Int} {E : List IEdge} (hE : n.idl.Exact K E) (hok : Dl.ConstrsOk K n.idl)
    {l : Lit} {s' : Sat} {t' : Dl Int} (hX : Dl.newDistance idlOps n.sat n.idl f g w = (l, s', t'))
    (hok' : Dl.ConstrsOk K t') (bd : List (Nat × Th)) :
    NetInv { n with sat := s', idl := t', bound := bd } orig L [] ∧
    (∀ α, TModel { n with sat := s', idl := t', bound := bd } α → TModel n α) ∧
    t'.Exact K E ∧ l.var < s'.vals.length ∧ s'.trailLim = [] ∧ s'.dead = n.sat.dead ∧
    n.sat.vals.length ≤ s'.vals.length ∧ t'.nVars = n.idl.nVars ∧ (∀ c ∈ n.idl.varDists, c ∈ t'.varDists) := by
  have hfr := h.root_frames hroot
  subst hfr
  have hpos := vals_pos h.sat
  have x1 : (Dl.newDistance idlOps n.sat n.idl f g w).1 = l := by rw [hX]
  have x2 : (Dl.newDistance idlOps n.sat n.idl f g w).2.1 = s' := by rw [hX]
  have x3 : (Dl.newDistance idlOps n.sat n.idl f g w).2.2 = t' := by rw [hX]
  have hEx : t'.Exact K E := by
    obtain ⟨a1, a2, a3⟩ := Dl.newDistance_same n.sat n.idl f g w
    rw [x3] at a1 a2 a3
    exact (hE.toM.congr_state a1 a2 a3).ofM
  have hlit := Dl.newDistance_lit idlOps n.sat n.idl f g w
  rw [x1, x2] at hlit
  rcases newDistance_cases idlOps n.sat n.idl f g w with ⟨e1, e2⟩ | ⟨e1, e2, e3, e4⟩
  · rw [x2] at e1; rw [x3] at e2
    subst e1; subst e2
    refine ⟨h.congrN rfl rfl rfl rfl, fun α hm => (TModel.congrN rfl rfl rfl α).1 hm, hEx, ?_, hroot,
      rfl, Nat.le_refl _, rfl, fun c hc => hc⟩
    rcases hlit with e | e | ⟨e, e'⟩
    · rw [e]; exact hpos
    · rw [e]; exact hpos
    · have : n.sat.vals.length = (n.sat.vals ++ [none]).length := congrArg (fun s => s.vals.length) e'
      simp at this
  · rw [x2] at e1; rw [x3] at e2 e3 e4
    have hmem : (⟨n.sat.vals.length, f, g, w⟩ : DConstr Int) ∈ t'.varDists := by
      rw [e2]; simp
    obtain ⟨o1, o2, o3, o4, o5⟩ := hok' _ hmem
    rw [e4] at o1 o2
    obtain ⟨k1, k2⟩ := h.at_idlNewDistance hroot f g w ⟨K, E, hE, hok, o1, o2, o3, o4, o5⟩
    have y2 : (idlNewDistance n f g w).2.sat = s' := x2
    have y3 : (idlNewDistance n f g w).2.idl = t' := x3
    refine ⟨k1.congrN y2.symm rfl y3.symm rfl, fun α hm => k2 α ((TModel.congrN (n := { n with sat := s', idl := t', bound := bd })
      (n' := (idlNewDistance n f g w).2) rfl y3 rfl α).2 hm), hEx, ?_, by rw [e1]; exact hroot,
      by rw [e1]; rfl, by rw [e1]; show _ ≤ (n.sat.vals ++ [none]).length; simp, e4,
      fun c hc => by rw [e2]; exact List.mem_append_left _ hc⟩
    rw [e1]
    show _ < (n.sat.vals ++ [none]).length
    rw [List.length_append]
    rcases hlit with e | e | ⟨e, e'⟩
    · rw [e]; show 0 < _; omega
    · rw [e]; show 0 < _; omega
    · rw [e]; show n.sat.vals.length < _; simp

theorem newDistance_sub {α : Type} (O : DOps α) (s : Sat) (t : Dl α) (f g : Nat) (w : α) :
    (Dl.newDistance O s t f g w).2.2.nVars = t.nVars ∧ ∀ c ∈ t.varDists, c ∈ (Dl.newDistance O s t f g w).2.2.varDists := by
  rcases newDistance_cases O s t f g w with ⟨_, e2⟩ | ⟨_, e2, _, e4⟩
  · rw [e2]; exact ⟨rfl, fun c hc => hc⟩
  · rw [e2]; exact ⟨e4, fun c hc => List.mem_append_left _ hc⟩

theorem root_of_inv {n : Net} {orig L : Cnf} (h : NetInv n orig L []) : n.sat.trailLim = [] := by
  have := h.flen
  simp only [List.length_nil, decisionLevel] at this
  exact List.eq_nil_of_length_eq_zero this.symm

/-- the ghost set may always be closed under the definitional clauses of the SAT core -/
theorem NetInv.withCnf {n : Net} {orig L : Cnf} (h : NetInv n orig L []) (hd : n.sat.dead = false) :
    NetInv n (orig ++ n.sat.toEnc.cnf) L [] :=
  h.consSat (root_of_inv h) hd ⟨⟨_, _, h.sat⟩, root_of_inv h⟩ (Sat.ConsFrame.refl _)

/-- **`idl.new_lt / new_leq / new_eq / new_geq / new_gt`** (zero, one or two `new_distance`s and, for `new_eq`, their
    conjunction): the invariant is kept - the ghost set grows by the definitional clauses of the SAT core -
    and every T-model of the new network is one of the old.  Side condition: the no-overflow room of C10
    for the old and the resulting constraints -/
theorem NetInv.at_idlNewRel {n : Net} {orig L : Cnf} {fr : List Frame} (h : NetInv n orig L fr) (hroot : n.sat.trailLim = [])
    (hd : n.sat.dead = false) {r : Dl.Rel} {a b : Lin} {K : Int} {E : List IEdge} (hE : n.idl.Exact K E)
    (hok : Dl.ConstrsOk K n.idl) {l : Lit} {n' : Net} (he : idlNewRel n r a b = some (l, n')) (hok' : Dl.ConstrsOk K n'.idl) :
    NetInv n' (orig ++ n'.sat.toEnc.cnf) L [] ∧ (∀ α, TModel n' α → TModel n α) := by
  unfold idlNewRel at he
  cases hv : Dl.newRel idlOps Sat.newConj n.sat n.idl r a b with
  | none => rw [hv] at he; simp at he
  | some res =>
    obtain ⟨l0, s', t'⟩ := res
    rw [hv] at he
    simp only [Option.map_some, Option.some.injEq, Prod.mk.injEq] at he
    obtain ⟨rfl, rfl⟩ := he
    have hok2 : Dl.ConstrsOk K t' := hok'
    rcases Dl.newRel_out _ _ hv with ⟨rfl, rfl⟩ | ⟨f, g, w, hX⟩ | ⟨f, g, w, w', hc, ht⟩
    · have hfr := h.root_frames hroot
      subst hfr
      have h0 : NetInv (bindConstrs { n with sat := n.sat, idl := n.idl } .idl) orig L [] := h.congrN rfl rfl rfl rfl
      exact ⟨h0.withCnf hd, fun α hm => (TModel.congrN rfl rfl rfl α).1 hm⟩
    · obtain ⟨k1, k2, _, _, _, k6, _⟩ := h.idlStep hroot f g w hE hok hX hok2 n.bound
      have h0 : NetInv (bindConstrs { n with sat := s', idl := t' } .idl) orig L [] := k1.congrN rfl rfl rfl rfl
      exact ⟨h0.withCnf (by show s'.dead = false; rw [k6]; exact hd),
        fun α hm => k2 α ((TModel.congrN rfl rfl rfl α).1 hm)⟩
    · cases hX1 : Dl.newDistance idlOps n.sat n.idl f g w with
      | mk l1 p1 =>
        obtain ⟨s1, t1⟩ := p1
        rw [hX1] at hc ht
        simp only at hc ht
        cases hX2 : Dl.newDistance idlOps s1 t1 g f w' with
        | mk l2 p2 =>
          obtain ⟨s2, t2⟩ := p2
          rw [hX2] at hc ht
          simp only at hc ht
          subst ht
          have hsub := newDistance_sub idlOps s1 t1 g f w'
          rw [hX2] at hsub
          have hok1 : Dl.ConstrsOk K t1 := by
            intro c hc'
            have := hok2 c (hsub.2 c hc')
            rw [hsub.1] at this
            exact this
          obtain ⟨i1, m1, e1, b1, r1, d1, len1, _⟩ := h.idlStep hroot f g w hE hok hX1 hok1 n.bound
          obtain ⟨i2, m2, e2, b2, r2, d2, len2, _⟩ :=
            i1.idlStep (n := { n with sat := s1, idl := t1, bound := n.bound }) r1 g f w' e1 hok1 hX2 hok2 n.bound
          have hd2 : s2.dead = false := by rw [d2]; show s1.dead = false; rw [d1]; exact hd
          have hr : ∀ x ∈ [l1, l2], x.var < s2.nvars := by
            intro x hx
            simp only [List.mem_cons, List.not_mem_nil, or_false] at hx
            rcases hx with rfl | rfl
            · exact Nat.lt_of_lt_of_le b1 len2
            · exact b2
          obtain ⟨g1, g2, _⟩ := Sat.newConj_good goodN_closed s2 ⟨⟨_, _, i2.sat⟩, r2⟩ [l1, l2] hr
          have i3 := i2.consSat r2 hd2 g1 g2
          have es : (Sat.newConj s2 [l1, l2]).2 = s' := by rw [hc]
          rw [es] at i3
          exact ⟨i3.congrN rfl rfl rfl rfl, fun α hm => m1 α (m2 α ((TModel.congrN rfl rfl rfl α).1 hm))⟩

/-- the side condition on RDL constraints: distinct existing time points, finite weight, integer ε part -/
def RdlOk (t : Dl IR) : Prop := DlR.ConstrsOkR t ∧ ∀ c ∈ t.varDists, c.dist.inf.den = 1

/-- one `new_distance` of the RDL theory inside a relation request -/
theorem NetInv.rdlStep {n : Net} {orig L : Cnf} {fr : List Frame} (h : NetInv n orig L fr) (hroot : n.sat.trailLim = [])
    (f g : Nat) (w : IR) {l : Lit} {s' : Sat} {t' : Dl IR} (hX : Dl.newDistance rdlOps n.sat n.rdl f g w = (l, s', t'))
    (hok' : RdlOk t') (bd : List (Nat × Th)) :
    NetInv { n with sat := s', rdl := t', bound := bd } orig L [] ∧
    (∀ α, TModel { n with sat := s', rdl := t', bound := bd } α → TModel n α) ∧
    l.var < s'.vals.length ∧ s'.trailLim = [] ∧ s'.dead = n.sat.dead ∧
    n.sat.vals.length ≤ s'.vals.length := by
  have hfr := h.root_frames hroot
  subst hfr
  have hpos := vals_pos h.sat
  have x1 : (Dl.newDistance rdlOps n.sat n.rdl f g w).1 = l := by rw [hX]
  have x2 : (Dl.newDistance rdlOps n.sat n.rdl f g w).2.1 = s' := by rw [hX]
  have x3 : (Dl.newDistance rdlOps n.sat n.rdl f g w).2.2 = t' := by rw [hX]
  have hlit := Dl.newDistance_lit rdlOps n.sat n.rdl f g w
  rw [x1, x2] at hlit
  rcases newDistance_cases rdlOps n.sat n.rdl f g w with ⟨e1, e2⟩ | ⟨e1, e2, e3, e4⟩
  · rw [x2] at e1; rw [x3] at e2
    subst e1; subst e2
    refine ⟨h.congrN rfl rfl rfl rfl, fun α hm => (TModel.congrN rfl rfl rfl α).1 hm, ?_, hroot,
      rfl, Nat.le_refl _⟩
    rcases hlit with e | e | ⟨e, e'⟩
    · rw [e]; exact hpos
    · rw [e]; exact hpos
    · have : n.sat.vals.length = (n.sat.vals ++ [none]).length := congrArg (fun s => s.vals.length) e'
      simp at this
  · rw [x2] at e1; rw [x3] at e2 e3 e4
    have hmem : (⟨n.sat.vals.length, f, g, w⟩ : DConstr IR) ∈ t'.varDists := by
      rw [e2]; simp
    obtain ⟨o1, o2, o3, o4⟩ := hok'.1 _ hmem
    have o5 := hok'.2 _ hmem
    rw [e4] at o1 o2
    obtain ⟨k1, k2⟩ := h.at_rdlNewDistance hroot f g w ⟨o1, o2, o3, o4, o5⟩
    have y2 : (rdlNewDistance n f g w).2.sat = s' := x2
    have y3 : (rdlNewDistance n f g w).2.rdl = t' := x3
    refine ⟨k1.congrN y2.symm rfl rfl y3.symm, fun α hm => k2 α ((TModel.congrN (n := { n with sat := s', rdl := t', bound := bd })
      (n' := (rdlNewDistance n f g w).2) rfl rfl y3 α).2 hm), ?_, by rw [e1]; exact hroot,
      by rw [e1]; rfl, by rw [e1]; show _ ≤ (n.sat.vals ++ [none]).length; simp⟩
    rw [e1]
    show _ < (n.sat.vals ++ [none]).length
    rw [List.length_append]
    rcases hlit with e | e | ⟨e, e'⟩
    · rw [e]; show 0 < _; omega
    · rw [e]; show 0 < _; omega
    · rw [e]; show n.sat.vals.length < _; simp

/-- **`rdl.new_lt / new_leq / new_eq / new_geq / new_gt`**: as for IDL; side condition on the resulting constraints -/
theorem NetInv.at_rdlNewRel {n : Net} {orig L : Cnf} {fr : List Frame} (h : NetInv n orig L fr) (hroot : n.sat.trailLim = [])
    (hd : n.sat.dead = false) {r : Dl.Rel} {a b : Lin} {l : Lit} {n' : Net} (he : rdlNewRel n r a b = some (l, n'))
    (hok' : RdlOk n'.rdl) :
    NetInv n' (orig ++ n'.sat.toEnc.cnf) L [] ∧ (∀ α, TModel n' α → TModel n α) := by
  unfold rdlNewRel at he
  cases hv : Dl.newRel rdlOps Sat.newConj n.sat n.rdl r a b with
  | none => rw [hv] at he; simp at he
  | some res =>
    obtain ⟨l0, s', t'⟩ := res
    rw [hv] at he
    simp only [Option.map_some, Option.some.injEq, Prod.mk.injEq] at he
    obtain ⟨rfl, rfl⟩ := he
    have hok2 : RdlOk t' := hok'
    rcases Dl.newRel_out _ _ hv with ⟨rfl, rfl⟩ | ⟨f, g, w, hX⟩ | ⟨f, g, w, w', hc, ht⟩
    · have hfr := h.root_frames hroot
      subst hfr
      have h0 : NetInv (bindConstrs { n with sat := n.sat, rdl := n.rdl } .rdl) orig L [] := h.congrN rfl rfl rfl rfl
      exact ⟨h0.withCnf hd, fun α hm => (TModel.congrN rfl rfl rfl α).1 hm⟩
    · obtain ⟨k1, k2, _, _, k6, _⟩ := h.rdlStep hroot f g w hX hok2 n.bound
      have h0 : NetInv (bindConstrs { n with sat := s', rdl := t' } .rdl) orig L [] := k1.congrN rfl rfl rfl rfl
      exact ⟨h0.withCnf (by show s'.dead = false; rw [k6]; exact hd),
        fun α hm => k2 α ((TModel.congrN rfl rfl rfl α).1 hm)⟩
    · cases hX1 : Dl.newDistance rdlOps n.sat n.rdl f g w with
      | mk l1 p1 =>
        obtain ⟨s1, t1⟩ := p1
        rw [hX1] at hc ht
        simp only at hc ht
        cases hX2 : Dl.newDistance rdlOps s1 t1 g f w' with
        | mk l2 p2 =>
          obtain ⟨s2, t2⟩ := p2
          rw [hX2] at hc ht
          simp only at hc ht
          subst ht
          have hsub := newDistance_sub rdlOps s1 t1 g f w'
          rw [hX2] at hsub
          have hok1 : RdlOk t1 := by
            refine ⟨fun c hc' => ?_, fun c hc' => hok2.2 c (hsub.2 c hc')⟩
            have := hok2.1 c (hsub.2 c hc')
            rw [hsub.1] at this
            exact this
          obtain ⟨i1, m1, b1, r1, d1, len1⟩ := h.rdlStep hroot f g w hX1 hok1 n.bound
          obtain ⟨i2, m2, b2, r2, d2, len2⟩ :=
            i1.rdlStep (n := { n with sat := s1, rdl := t1, bound := n.bound }) r1 g f w' hX2 hok2 n.bound
          have hd2 : s2.dead = false := by rw [d2]; show s1.dead = false; rw [d1]; exact hd
          have hr : ∀ x ∈ [l1, l2], x.var < s2.nvars := by
            intro x hx
            simp only [List.mem_cons, List.not_mem_nil, or_false] at hx
            rcases hx with rfl | rfl
            · exact Nat.lt_of_lt_of_le b1 len2
            · exact b2
          obtain ⟨g1, g2, _⟩ := Sat.newConj_good goodN_closed s2 ⟨⟨_, _, i2.sat⟩, r2⟩ [l1, l2] hr
          have i3 := i2.consSat r2 hd2 g1 g2
          have es : (Sat.newConj s2 [l1, l2]).2 = s' := by rw [hc]
          rw [es] at i3
          exact ⟨i3.congrN rfl rfl rfl rfl, fun α hm => m1 α (m2 α ((TModel.congrN rfl rfl rfl α).1 hm))⟩

theorem idlNewRel_lra {n : Net} {r : Dl.Rel} {a b : Lin} {l : Lit} {n' : Net} (he : idlNewRel n r a b = some (l, n')) :
    n'.lra = n.lra := by
  unfold idlNewRel at he
  rw [Option.map_eq_some_iff] at he
  obtain ⟨⟨l0, s', t'⟩, _, e⟩ := he
  simp only [Prod.mk.injEq] at e
  rw [← e.2]; rfl

theorem rdlNewRel_lra {n : Net} {r : Dl.Rel} {a b : Lin} {l : Lit} {n' : Net} (he : rdlNewRel n r a b = some (l, n')) :
    n'.lra = n.lra := by
  unfold rdlNewRel at he
  rw [Option.map_eq_some_iff] at he
  obtain ⟨⟨l0, s', t'⟩, _, e⟩ := he
  simp only [Prod.mk.injEq] at e
  rw [← e.2]; rfl

end Net
end Oratio
