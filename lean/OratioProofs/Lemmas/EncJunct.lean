/-
Lemmas for property C13, part 3: the expression cache, `newConj`, `newDisj`, `newEq`.
-/
import OratioProofs.Lemmas.EncClause

namespace Oratio
namespace EncL
open Enc

/-! ## the cache -/

theorem lookup_some {s : Enc} {k : Key} {l : Lit} (h : s.lookup k = some l) : (k, l) ∈ s.exprs := by
  unfold Enc.lookup at h
  cases hf : s.exprs.find? (fun e => e.1 = k) with
  | none => simp [hf] at h
  | some e =>
    simp only [hf, Option.map_some, Option.some.injEq] at h
    have h1 := List.find?_some hf
    have h2 := List.mem_of_find?_eq_some hf
    simp only [decide_eq_true_eq] at h1
    cases e with | mk a b =>
    simp only at h h1
    subst h; subst h1
    exact h2

theorem lookup_none {s : Enc} {k : Key} (h : s.lookup k = none) : ∀ l, (k, l) ∉ s.exprs := by
  intro l hl
  unfold Enc.lookup at h
  simp only [Option.map_eq_none_iff, List.find?_eq_none, decide_eq_true_eq] at h
  exact h (k, l) hl rfl

theorem lookup_none_of {s : Enc} {k : Key} (h : ∀ e ∈ s.exprs, e.1 ≠ k) : s.lookup k = none := by
  unfold Enc.lookup
  simp only [Option.map_eq_none_iff, List.find?_eq_none, decide_eq_true_eq]
  exact h

theorem cache_hit {s : Enc} (h : Inv s) {k : Key} {l : Lit} (hk : s.lookup k = some l) :
    l.var < s.nvars ∧ ∀ α, Sat α s → KeySem α k l :=
  ⟨(h.1.2.2 _ (lookup_some hk)).1, fun α hα => h.2 _ (lookup_some hk) α hα⟩

theorem same_state {s : Enc} (h : Inv s) : Inv s ∧ Extends s s ∧ Refines s s :=
  ⟨h, Extends.refl s, Refines.refl s⟩

/-! ## list connectives -/

theorem all_congr_of_exists {α : Asg} {a b : List Lit}
    (h : (∃ l ∈ a, α.lit l = false) ↔ (∃ l ∈ b, α.lit l = false)) : a.all α.lit = b.all α.lit := by
  have : ∀ c : List Lit, c.all α.lit = true ↔ ¬ ∃ l ∈ c, α.lit l = false := by intro c; simp
  rw [Bool.eq_iff_iff, this, this, h]

theorem any_congr_of_exists {α : Asg} {a b : List Lit}
    (h : (∃ l ∈ a, α.lit l = true) ↔ (∃ l ∈ b, α.lit l = true)) : a.any α.lit = b.any α.lit := by
  have : ∀ c : List Lit, c.any α.lit = true ↔ ∃ l ∈ c, α.lit l = true := by intro c; simp
  rw [Bool.eq_iff_iff, this, this, h]

theorem all_lit_congr {α β : Asg} {ls : List Lit} (h : ∀ l ∈ ls, β l.var = α l.var) :
    ls.all β.lit = ls.all α.lit := by
  induction ls with
  | nil => rfl
  | cons a t ih =>
    simp only [List.all_cons]
    rw [lit_congr (h a (by simp)), ih (fun l hl => h l (by simp [hl]))]

theorem any_lit_congr {α β : Asg} {ls : List Lit} (h : ∀ l ∈ ls, β l.var = α l.var) :
    ls.any β.lit = ls.any α.lit := by
  induction ls with
  | nil => rfl
  | cons a t ih =>
    simp only [List.any_cons]
    rw [lit_congr (h a (by simp)), ih (fun l hl => h l (by simp [hl]))]

theorem exists_sorted {α : Asg} {ls : List Lit} {b : Bool} :
    (∃ l ∈ sortByVar ls, α.lit l = b) ↔ ∃ l ∈ ls, α.lit l = b :=
  ⟨fun ⟨l, hl, h⟩ => ⟨l, mem_sortByVar.1 hl, h⟩, fun ⟨l, hl, h⟩ => ⟨l, mem_sortByVar.2 hl, h⟩⟩

/-! ## Tseitin definitions -/

theorem conj_clauses (β : Asg) (ctr : Lit) (ls : List Lit) :
    β.cnf (ls.map (fun l => [ctr.neg, l]) ++ [ctr :: ls.map Lit.neg]) = true ↔ β.lit ctr = ls.all β.lit := by
  cases h : β.lit ctr <;>
    simp [Asg.cnf, Asg.clause, List.all_append, lit_neg, h, List.any_map, Function.comp_def]

theorem disj_clauses (β : Asg) (ctr : Lit) (ls : List Lit) :
    β.cnf (ls.map (fun l => [l.neg, ctr]) ++ [ctr.neg :: ls]) = true ↔ β.lit ctr = ls.any β.lit := by
  cases h : β.lit ctr <;>
    simp [Asg.cnf, Asg.clause, List.all_append, lit_neg, h, Function.comp_def]

theorem eq_clauses (β : Asg) (ctr a b : Lit) :
    β.cnf [[ctr.neg, a.neg, b], [ctr.neg, a, b.neg], [ctr, a.neg, b.neg], [ctr, a, b]] = true ↔
      β.lit ctr = (β.lit a == β.lit b) := by
  cases h : β.lit ctr <;> cases ha : β.lit a <;> cases hb : β.lit b <;>
    simp [Asg.cnf, Asg.clause, lit_neg, h, ha, hb]

/-! ## `newConj` -/

theorem conj_spec {s : Enc} (h : Inv s) {ls : List Lit} (hl : InRange s ls) :
    Inv (s.newConj ls).2 ∧ (s.newConj ls).1.var < (s.newConj ls).2.nvars ∧
    (∀ α, Sat α (s.newConj ls).2 → α.lit (s.newConj ls).1 = ls.all α.lit) ∧
    Extends s (s.newConj ls).2 ∧ Refines s (s.newConj ls).2 ∧
    (∀ e ∈ (s.newConj ls).2.exprs, e ∈ s.exprs ∨ ∃ x, e.1 = Key.conj x) := by
  unfold Enc.newConj
  cases hsc : scanJunct s false (sortByVar ls) none [] with
  | none =>
    refine ⟨h, nvars_pos h.1, fun α hα => ?_, Extends.refl s, Refines.refl s, fun e he => Or.inl he⟩
    obtain ⟨l, hl1, hl2⟩ := scanJunct_init_none hsc α hα.2
    show α.lit Lit.falseLit = _
    rw [lit_falseLit hα.1]
    symm
    rw [List.all_eq_false]
    exact ⟨l, mem_sortByVar.1 hl1, by simp [hl2]⟩
  | some ls' =>
    obtain ⟨j1, j2, j3⟩ := scanJunct_init_some hsc
    have hall : ∀ α, Sat α s → ls'.all α.lit = ls.all α.lit := fun α hα =>
      all_congr_of_exists ((j3 α hα.2).trans exists_sorted)
    have hrange : ∀ l ∈ ls', l.var < s.nvars := fun l hl' => hl l (mem_sortByVar.1 (j1 l hl'))
    match ls', hall, hrange with
    | [], hall, _ =>
      refine ⟨h, nvars_pos h.1, fun α hα => ?_, Extends.refl s, Refines.refl s, fun e he => Or.inl he⟩
      show α.lit Lit.trueLit = _
      rw [lit_trueLit hα.1, ← hall α hα]; rfl
    | [l], hall, hrange =>
      refine ⟨h, hrange l (by simp), fun α hα => ?_, Extends.refl s, Refines.refl s, fun e he => Or.inl he⟩
      show α.lit l = _
      rw [← hall α hα]; simp
    | l1 :: l2 :: t, hall, hrange =>
      dsimp only
      cases hlk : s.lookup (.conj (l1 :: l2 :: t)) with
      | some l =>
        obtain ⟨c1, c2⟩ := cache_hit h hlk
        refine ⟨h, c1, fun α hα => ?_, Extends.refl s, Refines.refl s, fun e he => Or.inl he⟩
        show α.lit l = _
        rw [← hall α hα]; exact c2 α hα
      | none =>
        let ls' := l1 :: l2 :: t
        let cs : Lit → List (List Lit) := fun ctr => ls'.map (fun l => [ctr.neg, l]) ++ [ctr :: ls'.map Lit.neg]
        show Inv (freshDef s (.conj ls') cs).2 ∧ _
        obtain ⟨f1, f2, f3, f4, f5, _, f7, _⟩ := freshDef_spec h (.conj ls') cs hrange
          (by
            intro c hc x hx
            simp only [cs, List.mem_append, List.mem_map, List.mem_singleton] at hc
            rcases hc with ⟨y, hy, rfl⟩ | rfl
            · simp only [List.mem_cons, List.not_mem_nil, or_false] at hx
              rcases hx with rfl | rfl
              · simp [Lit.neg]
              · exact Nat.lt_succ_of_lt (hrange _ hy)
            · simp only [List.mem_cons, List.mem_map] at hx
              rcases hx with rfl | ⟨y, hy, rfl⟩
              · simp
              · exact Nat.lt_succ_of_lt (hrange y hy))
          (by
            intro α _
            refine ⟨ls'.all α.lit, ?_⟩
            rw [conj_clauses, lit_pos, upd_same]
            exact (all_lit_congr (fun l hl' => upd_lt α _ (hrange l hl'))).symm)
          (fun α _ hc => (conj_clauses α _ ls').1 hc)
        refine ⟨f1, f2, fun α hα => ?_, f3, f4, fun e he => ?_⟩
        · rw [← hall α (f4.2 α hα)]; exact f5 α hα
        · rcases f7 e he with he | rfl
          · exact Or.inl he
          · exact Or.inr ⟨_, rfl⟩

/-! ## `newDisj` -/

theorem disj_spec {s : Enc} (h : Inv s) {ls : List Lit} (hl : InRange s ls) :
    Inv (s.newDisj ls).2 ∧ (s.newDisj ls).1.var < (s.newDisj ls).2.nvars ∧
    (∀ α, Sat α (s.newDisj ls).2 → α.lit (s.newDisj ls).1 = ls.any α.lit) ∧
    Extends s (s.newDisj ls).2 ∧ Refines s (s.newDisj ls).2 := by
  unfold Enc.newDisj
  cases hsc : scanJunct s true (sortByVar ls) none [] with
  | none =>
    refine ⟨h, nvars_pos h.1, fun α hα => ?_, Extends.refl s, Refines.refl s⟩
    obtain ⟨l, hl1, hl2⟩ := scanJunct_init_none hsc α hα.2
    show α.lit Lit.trueLit = _
    rw [lit_trueLit hα.1]
    symm
    rw [List.any_eq_true]
    exact ⟨l, mem_sortByVar.1 hl1, hl2⟩
  | some ls' =>
    obtain ⟨j1, j2, j3⟩ := scanJunct_init_some hsc
    have hany : ∀ α, Sat α s → ls'.any α.lit = ls.any α.lit := fun α hα =>
      any_congr_of_exists ((j3 α hα.2).trans exists_sorted)
    have hrange : ∀ l ∈ ls', l.var < s.nvars := fun l hl' => hl l (mem_sortByVar.1 (j1 l hl'))
    match ls', hany, hrange with
    | [], hany, _ =>
      refine ⟨h, nvars_pos h.1, fun α hα => ?_, Extends.refl s, Refines.refl s⟩
      show α.lit Lit.falseLit = _
      rw [lit_falseLit hα.1, ← hany α hα]; rfl
    | [l], hany, hrange =>
      refine ⟨h, hrange l (by simp), fun α hα => ?_, Extends.refl s, Refines.refl s⟩
      show α.lit l = _
      rw [← hany α hα]; simp
    | l1 :: l2 :: t, hany, hrange =>
      dsimp only
      cases hlk : s.lookup (.disj (l1 :: l2 :: t)) with
      | some l =>
        obtain ⟨c1, c2⟩ := cache_hit h hlk
        refine ⟨h, c1, fun α hα => ?_, Extends.refl s, Refines.refl s⟩
        show α.lit l = _
        rw [← hany α hα]; exact c2 α hα
      | none =>
        let ls' := l1 :: l2 :: t
        let cs : Lit → List (List Lit) := fun ctr => ls'.map (fun l => [l.neg, ctr]) ++ [ctr.neg :: ls']
        show Inv (freshDef s (.disj ls') cs).2 ∧ _
        obtain ⟨f1, f2, f3, f4, f5, _, _, _⟩ := freshDef_spec h (.disj ls') cs hrange
          (by
            intro c hc x hx
            simp only [cs, List.mem_append, List.mem_map, List.mem_singleton] at hc
            rcases hc with ⟨y, hy, rfl⟩ | rfl
            · simp only [List.mem_cons, List.not_mem_nil, or_false] at hx
              rcases hx with rfl | rfl
              · exact Nat.lt_succ_of_lt (hrange y hy)
              · simp
            · simp only [List.mem_cons] at hx
              rcases hx with rfl | hx
              · simp [Lit.neg]
              · exact Nat.lt_succ_of_lt (hrange _ hx))
          (by
            intro α _
            refine ⟨ls'.any α.lit, ?_⟩
            rw [disj_clauses, lit_pos, upd_same]
            exact (any_lit_congr (fun l hl' => upd_lt α _ (hrange l hl'))).symm)
          (fun α _ hc => (disj_clauses α _ ls').1 hc)
        refine ⟨f1, f2, fun α hα => ?_, f3, f4⟩
        rw [← hany α (f4.2 α hα)]; exact f5 α hα

/-! ## `newEq` -/

theorem eq_spec {s : Enc} (h : Inv s) {a b : Lit} (ha : a.var < s.nvars) (hb : b.var < s.nvars) :
    Inv (s.newEq a b).2 ∧ (s.newEq a b).1.var < (s.newEq a b).2.nvars ∧
    (∀ α, Sat α (s.newEq a b).2 → α.lit (s.newEq a b).1 = (α.lit a == α.lit b)) ∧
    Extends s (s.newEq a b).2 ∧ Refines s (s.newEq a b).2 := by
  have h0 := nvars_pos h.1
  unfold Enc.newEq
  cases hva : s.value a with
  | some va =>
    cases hvb : s.value b with
    | some vb =>
      have e1 : ∀ α, Sat α s → α.lit a = va := fun α hα => value_sound hα.2 hva
      have e2 : ∀ α, Sat α s → α.lit b = vb := fun α hα => value_sound hα.2 hvb
      cases va <;> cases vb <;> dsimp only <;>
        refine ⟨h, h0, fun α hα => ?_, Extends.refl s, Refines.refl s⟩ <;>
        rw [e1 α hα, e2 α hα] <;> first | exact lit_trueLit hα.1 | exact lit_falseLit hα.1
    | none =>
      have e1 : ∀ α, Sat α s → α.lit a = va := fun α hα => value_sound hα.2 hva
      cases va <;> dsimp only <;>
        refine ⟨h, by simpa using hb, fun α hα => ?_, Extends.refl s, Refines.refl s⟩ <;>
        rw [e1 α hα] <;> simp [lit_neg]
  | none =>
    cases hvb : s.value b with
    | some vb =>
      have e2 : ∀ α, Sat α s → α.lit b = vb := fun α hα => value_sound hα.2 hvb
      cases vb <;> dsimp only <;>
        refine ⟨h, by simpa using ha, fun α hα => ?_, Extends.refl s, Refines.refl s⟩ <;>
        rw [e2 α hα] <;> simp [lit_neg]
    | none =>
      dsimp only
      let k : Key := if a.idx < b.idx then Key.eq a b else Key.eq b a
      have hksem : ∀ α l, KeySem α k l ↔ α.lit l = (α.lit a == α.lit b) := by
        intro α l
        simp only [k]
        split
        · exact Iff.rfl
        · show α.lit l = (α.lit b == α.lit a) ↔ _
          rw [Bool.beq_comm]
      have hkr : ∀ x ∈ keyLits k, x.var < s.nvars := by
        intro x hx
        simp only [k] at hx
        split at hx <;> simp only [keyLits, List.mem_cons, List.not_mem_nil, or_false] at hx <;>
          rcases hx with rfl | rfl <;> assumption
      cases hlk : s.lookup k with
      | some l =>
        obtain ⟨c1, c2⟩ := cache_hit h hlk
        exact ⟨h, c1, fun α hα => (hksem α l).1 (c2 α hα), Extends.refl s, Refines.refl s⟩
      | none =>
        let cs : Lit → List (List Lit) := fun ctr =>
          [[ctr.neg, a.neg, b], [ctr.neg, a, b.neg], [ctr, a.neg, b.neg], [ctr, a, b]]
        show Inv (freshDef s k cs).2 ∧ _
        obtain ⟨f1, f2, f3, f4, f5, _, _, _⟩ := freshDef_spec h k cs hkr
          (by
            intro c hc x hx
            simp only [cs, List.mem_cons, List.not_mem_nil, or_false] at hc
            rcases hc with rfl | rfl | rfl | rfl <;>
              simp only [List.mem_cons, List.not_mem_nil, or_false] at hx <;>
              rcases hx with rfl | rfl | rfl <;> (try simp only [neg_var]) <;> omega)
          (by
            intro α _
            refine ⟨α.lit a == α.lit b, ?_⟩
            rw [eq_clauses, lit_pos, upd_same, lit_congr (upd_lt α _ ha), lit_congr (upd_lt α _ hb)])
          (fun α _ hc => (hksem α _).2 ((eq_clauses α _ a b).1 hc))
        exact ⟨f1, f2, fun α hα => (hksem α _).1 (f5 α hα), f3, f4⟩

end EncL
end Oratio
