/-
C09X, part 10: decidable tests for the invariants on concrete states, and the concrete states of
the non-vacuity examples of `Properties/C09Explain.lean`.
-/
import OratioProofs.Lemmas.LraExplInv
import Mathlib.Tactic.IntervalCases

namespace Oratio

deriving instance DecidableEq for LBound
deriving instance DecidableEq for LAsrt

namespace Lra
open IR Lin

instance (r : R) : Decidable (R.FinWF r) := by unfold R.FinWF; infer_instance
instance (x : IR) : Decidable (IR.Fin x) := by unfold IR.Fin R.FinWF; infer_instance
instance (b : IR) : Decidable (LbOk b) := by unfold LbOk; infer_instance
instance (b : IR) : Decidable (UbOk b) := by unfold UbOk; infer_instance

/-! ### tests -/

theorem boundsOK_of_test {t : Lra}
    (h : ∀ i, i < t.bounds.length →
      (i % 2 = 0 → LbOk (t.bnd i).value) ∧ (i % 2 = 1 → UbOk (t.bnd i).value)) : BoundsOK t := by
  have hd : ∀ i, ¬ i < t.bounds.length → t.bnd i = ⟨IR.ofR R.zero, Lit.trueLit⟩ := by
    intro i hi
    unfold Lra.bnd
    rw [List.getD_eq_getElem?_getD, List.getElem?_eq_none (Nat.le_of_not_lt hi)]
    rfl
  intro x
  constructor
  · unfold Lra.lb
    by_cases hi : lbIdx x < t.bounds.length
    · exact (h _ hi).1 (by unfold lbIdx; omega)
    · rw [hd _ hi]; exact Or.inl fin_default
  · unfold Lra.ub
    by_cases hi : ubIdx x < t.bounds.length
    · exact (h _ hi).2 (by unfold ubIdx; omega)
    · rw [hd _ hi]; exact Or.inl fin_default

theorem valsFin_of_test {t : Lra} (h : ∀ v ∈ t.vals, IR.Fin v) : ∀ x, IR.Fin (t.value x) := by
  intro x
  unfold Lra.value
  rw [List.getD_eq_getElem?_getD]
  by_cases hx : x < t.vals.length
  · rw [List.getElem?_eq_getElem hx]
    exact h _ (List.getElem_mem hx)
  · rw [List.getElem?_eq_none (Nat.le_of_not_lt hx)]
    exact fin_default

/-- the test for `AWatchOK` -/
def awatchTest (t : Lra) : Bool :=
  (List.range t.aWatches.length).all fun x =>
    (t.aWatches.getD x []).all fun b =>
      match t.asrtOf b with
      | some a => a.x == x
      | none => true

theorem awatchOK_of_test {t : Lra} (h : awatchTest t = true) : AWatchOK t := by
  intro x b hb a hab
  by_cases hx : x < t.aWatches.length
  · unfold awatchTest at h
    rw [List.all_eq_true] at h
    have h1 := h x (List.mem_range.2 hx)
    rw [List.all_eq_true] at h1
    have h2 := h1 b hb
    rw [hab] at h2
    simpa using h2
  · exfalso
    rw [List.getD_eq_getElem?_getD, List.getElem?_eq_none (Nat.le_of_not_lt hx)] at hb
    cases hb

/-- `check` returns the conflict `cl`; the state it reaches is whatever it is -/
theorem check_eq_of_fst {t : Lra} {fuel : Nat} {cl : List Lit}
    (h : (t.check fuel).map (·.1) = some (some cl)) :
    t.check fuel = some (some cl, ((t.check fuel).map (·.2)).getD t) := by
  cases hc : t.check fuel with
  | none => rw [hc] at h; simp at h
  | some p =>
    obtain ⟨c, t'⟩ := p
    rw [hc] at h
    simp only [Option.map_some, Option.some.injEq] at h
    subst h
    rfl

/-! ### the states -/

/-- `x2 = x0 + x1`, `x3 = x0 - x1` over the non-basic `x0`, `x1`: what `new_var()` twice and
    `new_var(x0 + x1)`, `new_var(x0 - x1)` build (all bounds infinite, all values 0) -/
def exBase : Lra :=
  { bounds := [⟨IR.ofR R.ninf, Lit.trueLit⟩, ⟨IR.ofR R.pinf, Lit.trueLit⟩,
               ⟨IR.ofR R.ninf, Lit.trueLit⟩, ⟨IR.ofR R.pinf, Lit.trueLit⟩,
               ⟨IR.ofR R.ninf, Lit.trueLit⟩, ⟨IR.ofR R.pinf, Lit.trueLit⟩,
               ⟨IR.ofR R.ninf, Lit.trueLit⟩, ⟨IR.ofR R.pinf, Lit.trueLit⟩],
    vals := [IR.ofR R.zero, IR.ofR R.zero, IR.ofR R.zero, IR.ofR R.zero],
    tableau := [(2, ⟨[(0, ⟨1, 1⟩), (1, ⟨1, 1⟩)], ⟨0, 1⟩⟩), (3, ⟨[(0, ⟨1, 1⟩), (1, ⟨-1, 1⟩)], ⟨0, 1⟩⟩)],
    exprs := [], sAsrts := [], vAsrts := [],
    aWatches := [[], [], [], []], tWatches := [[2, 3], [2, 3], [], []], layers := [] }

theorem exRow_wf (c : R) (hc : R.FinWF c) : (⟨[(0, ⟨1, 1⟩), (1, c)], ⟨0, 1⟩⟩ : Lin).WF := by
  refine ⟨⟨by decide, trivial⟩, ?_, (show (⟨0, 1⟩ : R).WF by decide), (show (1 : Int) ≠ 0 by decide)⟩
  intro t ht
  simp only [List.mem_cons, List.not_mem_nil, or_false] at ht
  rcases ht with rfl | rfl
  · decide
  · exact hc

theorem exBase_tabWF : TabWF exBase := by
  refine ⟨by decide, ?_, by decide, by decide, by decide, ?_, by decide⟩
  · intro e he
    simp only [exBase, List.mem_cons, List.not_mem_nil, or_false] at he
    rcases he with rfl | rfl
    · exact exRow_wf _ (by decide)
    · exact exRow_wf _ (by decide)
  · intro v r
    match v with
    | 0 => simp [exBase]; omega
    | 1 => simp [exBase]; omega
    | 2 => simp [exBase]
    | 3 => simp [exBase]
    | n + 4 => simp [exBase]

theorem exBase_inv : ExplInv exBase :=
  ⟨exBase_tabWF, boundsOK_of_test (by decide), (show exBase.bounds.length = 2 * exBase.vals.length by decide),
    fun e he => (by cases he), awatchOK_of_test (by decide)⟩

theorem exBase_valsOK : ValsOK exBase := by
  refine ⟨valsFin_of_test (by decide), ?_, ?_⟩
  · intro e he
    simp only [exBase, List.mem_cons, List.not_mem_nil, or_false] at he
    rcases he with rfl | rfl <;>
      norm_num [Lin.evalS, ratAssign, Lra.value, exBase, IR.ofR, R.toRat, R.zero]
  · intro e he
    simp only [exBase, List.mem_cons, List.not_mem_nil, or_false] at he
    rcases he with rfl | rfl <;>
      norm_num [Lin.evalS, infAssign, Lra.value, exBase, IR.ofR, R.toRat, R.zero]

/-- the literals used as reasons -/
def exP1 : Lit := ⟨1, true⟩
def exP2 : Lit := ⟨2, true⟩
def exP3 : Lit := ⟨3, true⟩

/-- `x0 ≤ 0` (reason `p1`), `x2 ≥ 1` (reason `p2`), `x3 ≥ 0` (reason `p3`): infeasible, since
    `x1 = x2 - x0 ≥ 1` and `x3 = x0 - x1 ≤ -1` -/
def exA : Lra := (assertUpper Sat.init exBase 0 (IR.ofR R.zero) exP1).th
def exB : Lra := (assertLower Sat.init exA 2 (IR.ofR R.one) exP2).th
def exC : Lra := (assertLower Sat.init exB 3 (IR.ofR R.zero) exP3).th

theorem fin_one : IR.Fin (IR.ofR R.one) := (fin_ofR finWF_one).1

theorem exA_inv : ExplInv exA := explInv_assertUpper exBase_inv _ (by decide) fin_default _
theorem exA_valsOK : ValsOK exA := valsOK_assertUpper exBase_tabWF exBase_valsOK _ (by decide) fin_default _
theorem exB_inv : ExplInv exB := explInv_assertLower exA_inv _ (by decide) fin_one _
theorem exB_valsOK : ValsOK exB := valsOK_assertLower exA_inv.tab exA_valsOK _ (by decide) fin_one _
theorem exC_inv : ExplInv exC := explInv_assertLower exB_inv _ (by decide) fin_default _
theorem exC_valsOK : ValsOK exC := valsOK_assertLower exB_inv.tab exB_valsOK _ (by decide) fin_default _

/-- the conflict `check` finds after one pivot: `[¬p1, ¬p2, ¬p3]` -/
def exCl : List Lit := [⟨1, false⟩, ⟨2, false⟩, ⟨3, false⟩]

theorem exC_check : exC.check 5 = some (some exCl, ((exC.check 5).map (·.2)).getD exC) :=
  check_eq_of_fst (by decide)

/-- `check` pivots before it finds the conflict: `x1` is basic in the final tableau -/
theorem exC_check_pivots : (((exC.check 5).map (·.2)).getD exC).tableau.map (·.1) = [1, 3] := by decide

theorem exC_bounds : exC.bounds =
    [⟨IR.ofR R.ninf, Lit.trueLit⟩, ⟨IR.ofR R.zero, exP1⟩, ⟨IR.ofR R.ninf, Lit.trueLit⟩, ⟨IR.ofR R.pinf, Lit.trueLit⟩,
     ⟨IR.ofR R.one, exP2⟩, ⟨IR.ofR R.pinf, Lit.trueLit⟩, ⟨IR.ofR R.zero, exP3⟩, ⟨IR.ofR R.pinf, Lit.trueLit⟩] := by
  decide

theorem exC_tableau : exC.tableau = exBase.tableau := by decide


/-! ### a boolean assignment and a solution for the `check` example -/

/-- `p2`, `p3` true, `p1` false (and the constant variable 0 false) -/
def exAlpha : Asg := fun v => v == 2 || v == 3
/-- `x0 = x1 = 1`, `x2 = 2`, `x3 = 0` -/
def exSig : Nat → Rat := fun x => match x with | 0 => 1 | 1 => 1 | 2 => 2 | 3 => 0 | _ => 0

theorem ble_ninf (v : QV) : BLe (IR.ofR R.ninf) v := BLe.ninf rfl
theorem vle_pinf (v : QV) : VLe v (IR.ofR R.pinf) := VLe.pinf rfl
theorem ble_ofR {k : R} (hk : R.FinWF k) (v : QV) : BLe (IR.ofR k) v ↔ (toLex (k.toRat, 0) : QV) ≤ v := by
  rw [BLe.fin (fin_ofR hk).1, (fin_ofR hk).2]
theorem vle_ofR {k : R} (hk : R.FinWF k) (v : QV) : VLe v (IR.ofR k) ↔ v ≤ (toLex (k.toRat, 0) : QV) := by
  rw [VLe.fin (fin_ofR hk).1, (fin_ofR hk).2]

theorem exC_solves : Solves exC exSig (fun _ => 0) := by
  unfold Solves
  rw [exC_tableau]
  constructor
  · intro e he
    simp only [exBase, List.mem_cons, List.not_mem_nil, or_false] at he
    rcases he with rfl | rfl <;> norm_num [Lin.evalS, exSig, R.toRat]
  · intro e he
    simp only [exBase, List.mem_cons, List.not_mem_nil, or_false] at he
    rcases he with rfl | rfl <;> norm_num [Lin.evalS, R.toRat, R.zero]

theorem exC_just : BoundsJust exAlpha exSig (fun _ => 0) exC := by
  intro x hx
  have hlen : exC.bounds.length = 8 := by rw [exC_bounds]; rfl
  have hx4 : x < 4 := by rw [hlen] at hx; unfold ubIdx at hx; omega
  interval_cases x
  · have e1 : exC.lb 0 = IR.ofR R.ninf := by decide
    have e2 : exC.ubReason 0 = exP1 := by decide
    rw [e1, e2]
    exact ⟨fun _ => ble_ninf _, fun h => absurd h (by decide)⟩
  · have e1 : exC.lb 1 = IR.ofR R.ninf := by decide
    have e2 : exC.ub 1 = IR.ofR R.pinf := by decide
    rw [e1, e2]
    exact ⟨fun _ => ble_ninf _, fun _ => vle_pinf _⟩
  · have e1 : exC.lb 2 = IR.ofR R.one := by decide
    have e2 : exC.ub 2 = IR.ofR R.pinf := by decide
    rw [e1, e2]
    refine ⟨fun _ => (ble_ofR finWF_one _).2 ?_, fun _ => vle_pinf _⟩
    show (toLex (R.one.toRat, 0) : QV) ≤ toLex (2, 0)
    rw [R.toRat_one, QV.le_iff]; left; norm_num
  · have e1 : exC.lb 3 = IR.ofR R.zero := by decide
    have e2 : exC.ub 3 = IR.ofR R.pinf := by decide
    rw [e1, e2]
    refine ⟨fun _ => (ble_ofR R.finWF_zero _).2 ?_, fun _ => vle_pinf _⟩
    show (toLex (R.zero.toRat, 0) : QV) ≤ toLex (0, 0)
    rw [R.toRat_zero]

/-! ### the state of the propagation examples: `x2 = x0 + x1` with the assertion `b1 : x2 ≤ 4` -/

/-- what `new_var()` twice and `new_leq(x0 + x1, 4)` build -/
def exR0 : Lra :=
  { bounds := [⟨IR.ofR R.ninf, Lit.trueLit⟩, ⟨IR.ofR R.pinf, Lit.trueLit⟩,
               ⟨IR.ofR R.ninf, Lit.trueLit⟩, ⟨IR.ofR R.pinf, Lit.trueLit⟩,
               ⟨IR.ofR R.ninf, Lit.trueLit⟩, ⟨IR.ofR R.pinf, Lit.trueLit⟩],
    vals := [IR.ofR R.zero, IR.ofR R.zero, IR.ofR R.zero],
    tableau := [(2, ⟨[(0, ⟨1, 1⟩), (1, ⟨1, 1⟩)], ⟨0, 1⟩⟩)],
    exprs := [], sAsrts := [], vAsrts := [(1, ⟨.leq, ⟨1, true⟩, 2, IR.ofR ⟨4, 1⟩⟩)],
    aWatches := [[], [], [1]], tWatches := [[2], [2], []], layers := [] }

/-- a SAT core with the variables 1 (`b1`), 2 (`p2`), 3 (`p3`), all unassigned -/
def exS : Sat := Sat.init.newVar.2.newVar.2.newVar.2

theorem exR0_tabWF : TabWF exR0 := by
  refine ⟨by decide, ?_, by decide, by decide, by decide, ?_, by decide⟩
  · intro e he
    simp only [exR0, List.mem_cons, List.not_mem_nil, or_false] at he
    subst he
    exact exRow_wf _ (by decide)
  · intro v r
    match v with
    | 0 => simp [exR0]; omega
    | 1 => simp [exR0]; omega
    | 2 => simp [exR0]
    | n + 3 => simp [exR0]

theorem exR0_inv : ExplInv exR0 := by
  refine ⟨exR0_tabWF, boundsOK_of_test (by decide), (show exR0.bounds.length = 2 * exR0.vals.length by decide),
    ?_, awatchOK_of_test (by decide)⟩
  intro e he
  simp only [exR0, List.mem_cons, List.not_mem_nil, or_false] at he
  subst he
  exact (fin_ofR (by decide)).1

theorem exR0_key : AsrtKey exR0 := by
  intro e he
  simp only [exR0, List.mem_cons, List.not_mem_nil, or_false] at he
  subst he
  rfl

theorem exR0_vars : AsrtVars exR0 := by
  intro e he
  simp only [exR0, List.mem_cons, List.not_mem_nil, or_false] at he
  subst he
  decide

/-- `x0 ≥ 3` (reason `p2`), then `x1 ≥ 2` (reason `p3`): the row of `x2` gives `x2 ≥ 5 > 4` -/
def exO1 : LOut := assertLower exS exR0 0 (IR.ofR ⟨3, 1⟩) exP2
def exO2 : LOut := assertLower exO1.sat exO1.th 1 (IR.ofR ⟨2, 1⟩) exP3

theorem exO1_inv : ExplInv exO1.th := explInv_assertLower exR0_inv _ (by decide) (fin_ofR (by decide)).1 _

/-- `b1` is unassigned: the row propagation records `[¬b1, ¬p2, ¬p3]` -/
theorem exO2_log : exO2.cnfl = none ∧ exO2.sat.log = exO1.sat.log ++ [[⟨1, false⟩, ⟨2, false⟩, ⟨3, false⟩]] := by
  decide

/-- the same with `b1` already true: the row propagation reports the conflict -/
def exO1' : LOut := assertLower (exS.enqueue ⟨1, true⟩ none).2 exR0 0 (IR.ofR ⟨3, 1⟩) exP2
def exO2' : LOut := assertLower exO1'.sat exO1'.th 1 (IR.ofR ⟨2, 1⟩) exP3

theorem exO1'_inv : ExplInv exO1'.th := explInv_assertLower exR0_inv _ (by decide) (fin_ofR (by decide)).1 _

theorem exO2'_cnfl : exO2'.cnfl = some [⟨1, false⟩, ⟨2, false⟩, ⟨3, false⟩] := by decide

/-- `b1`, `p2` true, `p3` false; `x0 = 3`, `x1 = 0`, `x2 = 3` -/
def exAlpha2 : Asg := fun v => v == 1 || v == 2
def exSig2 : Nat → Rat := fun x => match x with | 0 => 3 | 1 => 0 | 2 => 3 | _ => 0

theorem exO1_hyps : Solves exO1.th exSig2 (fun _ => 0) ∧ BoundsJust exAlpha2 exSig2 (fun _ => 0) exO1.th ∧
    AsrtAgrees exAlpha2 exSig2 (fun _ => 0) exO1.th ∧
    (exAlpha2.lit exP3 = true → IR.val (IR.ofR ⟨2, 1⟩) ≤ nu exSig2 (fun _ => 0) 1) := by
  have ht : exO1.th.tableau = exR0.tableau := by decide
  have hv : exO1.th.vAsrts = exR0.vAsrts := by decide
  refine ⟨?_, ?_, ?_, fun h => absurd h (by decide)⟩
  · unfold Solves
    rw [ht]
    constructor
    · intro e he
      simp only [exR0, List.mem_cons, List.not_mem_nil, or_false] at he
      subst he
      norm_num [Lin.evalS, exSig2, R.toRat]
    · intro e he
      simp only [exR0, List.mem_cons, List.not_mem_nil, or_false] at he
      subst he
      norm_num [Lin.evalS, R.toRat, R.zero]
  · intro x hx
    have hlen : exO1.th.bounds.length = 6 := by decide
    have hx3 : x < 3 := by rw [hlen] at hx; unfold ubIdx at hx; omega
    interval_cases x
    · have e1 : exO1.th.lb 0 = IR.ofR ⟨3, 1⟩ := by decide
      have e2 : exO1.th.ub 0 = IR.ofR R.pinf := by decide
      rw [e1, e2]
      refine ⟨fun _ => (ble_ofR (by decide) _).2 ?_, fun _ => vle_pinf _⟩
      show (toLex ((⟨3, 1⟩ : R).toRat, 0) : QV) ≤ toLex (3, 0)
      rw [QV.le_iff]; right; norm_num [R.toRat]
    · have e1 : exO1.th.lb 1 = IR.ofR R.ninf := by decide
      have e2 : exO1.th.ub 1 = IR.ofR R.pinf := by decide
      rw [e1, e2]
      exact ⟨fun _ => ble_ninf _, fun _ => vle_pinf _⟩
    · have e1 : exO1.th.lb 2 = IR.ofR R.ninf := by decide
      have e2 : exO1.th.ub 2 = IR.ofR R.pinf := by decide
      rw [e1, e2]
      exact ⟨fun _ => ble_ninf _, fun _ => vle_pinf _⟩
  · unfold AsrtAgrees
    rw [hv]
    intro e he
    simp only [exR0, List.mem_cons, List.not_mem_nil, or_false] at he
    subst he
    simp only
    refine ⟨fun _ => ?_, fun h => absurd h (by decide)⟩
    rw [(fin_ofR (k := ⟨4, 1⟩) (by decide)).2]
    show (toLex (3, 0) : QV) ≤ toLex ((⟨4, 1⟩ : R).toRat, 0)
    rw [QV.le_iff]; left; norm_num [R.toRat]

/-! ### `propagate`: `x2 ≥ 5` (reason `p2`) is in place, then `b1 : x2 ≤ 4` becomes true -/

def exQs : Sat := ((exS.enqueue ⟨1, true⟩ none).2.enqueue ⟨2, true⟩ none).2
def exQ0 : Lra := (assertLower exQs exR0 2 (IR.ofR ⟨5, 1⟩) exP2).th

theorem exQ0_inv : ExplInv exQ0 := explInv_assertLower exR0_inv _ (by decide) (fin_ofR (by decide)).1 _
theorem exQ0_key : AsrtKey exQ0 := by
  unfold AsrtKey exQ0; rw [(assertLower_registry _ _ _ _ _).1]; exact exR0_key
theorem exQ0_vars : AsrtVars exQ0 := by
  unfold AsrtVars exQ0; rw [(assertLower_registry _ _ _ _ _).1, (assertLower_registry _ _ _ _ _).2]; exact exR0_vars

theorem exQ_cnfl : (propagateLit exQs exQ0 ⟨1, true⟩).cnfl = some [⟨1, false⟩, ⟨2, false⟩] := by decide

theorem exQ_reasons : ReasonsTrue exQs exQ0 := by
  have h0 : ReasonsTrue exQs exR0 := by
    intro x
    have hb : ∀ i, (exR0.bnd i).reason = Lit.trueLit := by
      intro i
      unfold Lra.bnd
      rw [List.getD_eq_getElem?_getD]
      match i with
      | 0 | 1 | 2 | 3 | 4 | 5 => rfl
      | n + 6 => rfl
    unfold Lra.lbReason Lra.ubReason
    rw [hb, hb]
    exact ⟨by decide, by decide⟩
  have h1 := (assertLower_F (p := exP2) h0 2 (IR.ofR ⟨5, 1⟩) (by decide)).2
  have e : (assertLower exQs exR0 2 (IR.ofR ⟨5, 1⟩) exP2).sat.vals = exQs.vals := by decide
  intro x
  have := h1 x
  unfold Sat.value at this ⊢
  rw [e] at this
  exact this

end Lra
end Oratio
