/-
Arithmetic laws of the real-valued difference-logic instance `rdlOps : DOps IR`
(OratioModel/Net/Dl.lean), derived from the C15 lemmas on `R` / `IR`.

A matrix entry is *good* when it is a canonical `inf_rational` whose rational part is finite or
`+∞` and whose ε part is finite; it denotes `den x : WithTop (Lex (ℚ × ℚ))` (`⊤` = the rational
part is `+∞`, WHATEVER the ε part is — see `garbage_eps_example` in DlRdlExact.lean).  A weight is
*finite* when both parts are canonical and finite.
-/
import OratioModel.Net.Dl
import OratioProofs.Lemmas.Rational
import OratioProofs.Lemmas.InfRational
import Mathlib.Algebra.Order.Monoid.Prod
import Mathlib.Algebra.Order.Group.Defs
import Mathlib.Algebra.Order.Monoid.WithTop

namespace Oratio

/-- ε-rationals `q + e·ε` as values: pairs ordered lexicographically -/
abbrev QV := Lex (ℚ × ℚ)

/-- the infinitesimal `ε` -/
def QV.eps : QV := toLex (0, 1)

theorem QV.lt_iff (a b c d : ℚ) : (toLex (a, b) : QV) < toLex (c, d) ↔ a < c ∨ (a = c ∧ b < d) :=
  Prod.Lex.toLex_lt_toLex

theorem QV.le_iff (a b c d : ℚ) : (toLex (a, b) : QV) ≤ toLex (c, d) ↔ a < c ∨ (a = c ∧ b ≤ d) :=
  Prod.Lex.toLex_le_toLex

theorem QV.eps_pos : (0 : QV) < QV.eps := by
  show (toLex ((0 : ℚ), (0 : ℚ)) : QV) < toLex (0, 1)
  rw [QV.lt_iff]; right; exact ⟨rfl, by decide⟩

namespace IR
open R

/-- the value a finite `inf_rational` denotes -/
def val (x : IR) : QV := toLex (x.rat.toRat, x.inf.toRat)

/-- canonical, both parts finite: the weights of difference constraints -/
def Fin (x : IR) : Prop := FinWF x.rat ∧ FinWF x.inf

/-- canonical, rational part finite or `+∞`, ε part finite: the entries of the distance matrix -/
def Good (x : IR) : Prop := x.rat.WF ∧ x.rat ≠ ninf ∧ FinWF x.inf

/-- the extended value of a matrix entry -/
def den (x : IR) : WithTop QV := if x.rat.den = 0 then ⊤ else ((val x : QV) : WithTop QV)

theorem Fin.good {x : IR} (h : Fin x) : Good x :=
  ⟨h.1.1, fun e => h.1.2 (by rw [e]; rfl), h.2⟩

theorem Fin.den {x : IR} (h : Fin x) : den x = ((val x : QV) : WithTop QV) := by
  unfold IR.den; rw [if_neg h.1.2]

theorem den_of_fin {x : IR} (h : x.rat.den ≠ 0) : den x = ((val x : QV) : WithTop QV) := by
  unfold IR.den; rw [if_neg h]

theorem den_of_inf {x : IR} (h : x.rat.den = 0) : den x = ⊤ := by
  unfold IR.den; rw [if_pos h]

theorem den_eq_top {x : IR} : den x = ⊤ ↔ x.rat.den = 0 := by
  unfold IR.den; split
  · rename_i h; exact ⟨fun _ => h, fun _ => rfl⟩
  · rename_i h; exact ⟨fun h' => absurd h' (WithTop.coe_ne_top), fun h' => absurd h' h⟩

theorem Good.rat_cases {x : IR} (h : Good x) : FinWF x.rat ∨ x.rat = pinf := by
  by_cases hd : x.rat.den = 0
  · rcases wf_inf h.1 hd with e | e
    · right; exact e
    · exact absurd e h.2.1
  · left; exact ⟨h.1, hd⟩

theorem Good.fin_of {x : IR} (h : Good x) (hd : den x ≠ ⊤) : Fin x := by
  rcases h.rat_cases with hf | hp
  · exact ⟨hf, h.2.2⟩
  · exfalso; apply hd; apply den_of_inf; rw [hp]; rfl

/-! ### constants -/

theorem fin_zero : Fin rdlOps.zero := ⟨finWF_zero, finWF_zero⟩

theorem val_zero : val rdlOps.zero = 0 := by
  show (toLex (zero.toRat, zero.toRat) : QV) = 0
  rw [toRat_zero]; rfl

theorem den_zero : den rdlOps.zero = 0 := by
  rw [fin_zero.den, val_zero]; rfl

theorem good_inf : Good rdlOps.inf := ⟨by decide, by decide, finWF_zero⟩

theorem den_inf : den rdlOps.inf = ⊤ := den_of_inf rfl

/-! ### addition, subtraction, negation -/

theorem add_pinf_right (a : R) : R.add a pinf = pinf := by
  unfold R.add; simp [pinf, R.isInfinite]

theorem add_pinf_left {b : R} (hb : b.den ≠ 0) : R.add pinf b = pinf := by
  unfold R.add; simp [pinf, R.isInfinite, hb]

theorem val_add_fin {x y : IR} (hx : Fin x) (hy : Fin y) :
    Fin (IR.add x y) ∧ val (IR.add x y) = val x + val y := by
  obtain ⟨a1, a2⟩ := add_fin hx.1 hy.1
  obtain ⟨b1, b2⟩ := add_fin hx.2 hy.2
  refine ⟨⟨a1, b1⟩, ?_⟩
  show (toLex ((R.add x.rat y.rat).toRat, (R.add x.inf y.inf).toRat) : QV) = _
  rw [a2, b2]; rfl

/-- `+` on matrix entries is exact, `+∞` absorbing (whatever the ε parts) -/
theorem good_add {x y : IR} (hx : Good x) (hy : Good y) :
    Good (rdlOps.add x y) ∧ den (rdlOps.add x y) = den x + den y := by
  show Good (IR.add x y) ∧ den (IR.add x y) = den x + den y
  have he := (add_fin hx.2.2 hy.2.2).1
  rcases hy.rat_cases with hyf | hyp
  · rcases hx.rat_cases with hxf | hxp
    · obtain ⟨h1, h2⟩ := val_add_fin ⟨hxf, hx.2.2⟩ ⟨hyf, hy.2.2⟩
      refine ⟨h1.good, ?_⟩
      rw [h1.den, h2, den_of_fin hxf.2, den_of_fin hyf.2]; rfl
    · have e : (IR.add x y).rat = pinf := by
        show R.add x.rat y.rat = pinf
        rw [hxp]; exact add_pinf_left hyf.2
      refine ⟨⟨by rw [e]; decide, by rw [e]; decide, he⟩, ?_⟩
      rw [den_of_inf (by rw [e]; rfl), den_of_inf (x := x) (by rw [hxp]; rfl), WithTop.top_add]
  · have e : (IR.add x y).rat = pinf := by
      show R.add x.rat y.rat = pinf
      rw [hyp]; exact add_pinf_right _
    refine ⟨⟨by rw [e]; decide, by rw [e]; decide, he⟩, ?_⟩
    rw [den_of_inf (by rw [e]; rfl), den_of_inf (x := y) (by rw [hyp]; rfl), WithTop.add_top]

theorem fin_neg {w : IR} (hw : Fin w) : Fin (rdlOps.neg w) ∧ val (rdlOps.neg w) = - val w := by
  refine ⟨⟨finWF_neg hw.1, finWF_neg hw.2⟩, ?_⟩
  show (toLex ((R.neg w.rat).toRat, (R.neg w.inf).toRat) : QV) = _
  rw [toRat_neg hw.1, toRat_neg hw.2]; rfl

/-- `y - w` for a finite weight `w` -/
theorem good_sub {y w : IR} (hy : Good y) (hw : Fin w) :
    Good (rdlOps.sub y w) ∧ den (rdlOps.sub y w) = den y + ((- val w : QV) : WithTop QV) := by
  have hn := fin_neg hw
  have e : rdlOps.sub y w = rdlOps.add y (rdlOps.neg w) := rfl
  rw [e]
  obtain ⟨h1, h2⟩ := good_add hy hn.1.good
  refine ⟨h1, ?_⟩
  rw [h2, hn.1.den, hn.2]

/-- the weight of the reversed edge of a negated constraint: `-d - ε` -/
theorem fin_negStrict {w : IR} (hw : Fin w) :
    Fin (rdlOps.negStrict w) ∧ val (rdlOps.negStrict w) = - val w - QV.eps := by
  have hn := fin_neg hw
  have h1 : Fin (⟨R.zero, R.one⟩ : IR) := ⟨finWF_zero, by decide, by decide⟩
  have hn1 := fin_neg h1
  have e : rdlOps.negStrict w = IR.add (rdlOps.neg w) (rdlOps.neg ⟨R.zero, R.one⟩) := rfl
  rw [e]
  obtain ⟨a1, a2⟩ := val_add_fin hn.1 hn1.1
  refine ⟨a1, ?_⟩
  rw [a2, hn.2, hn1.2, sub_eq_add_neg]
  congr 2

/-! ### comparisons -/

theorem lt_fin {a b : R} (ha : FinWF a) (hb : FinWF b) : R.lt a b = decide (a.toRat < b.toRat) := by
  rw [lt_eq_not_le, le_fin hb ha, Bool.eq_iff_iff]
  simp

theorem eq_fin {a b : R} (ha : FinWF a) (hb : FinWF b) : R.eq a b = decide (a.toRat = b.toRat) := by
  rw [eq_eq_decide, Bool.eq_iff_iff, decide_eq_true_iff, decide_eq_true_iff]
  exact ⟨fun h => by rw [h], FinWF.ext ha hb⟩

theorem lt_fin_pinf {a : R} (ha : FinWF a) : R.lt a pinf = true := by
  rw [lt_spec ha.1 (by decide), ha.toE, toE_pinf]; rfl

theorem lt_pinf_any {b : R} (hb : b.WF) : R.lt pinf b = false := by
  rw [lt_spec (by decide) hb, toE_pinf]
  cases h : b.toE <;> rfl

theorem eq_pinf_fin {b : R} (hb : FinWF b) : R.eq pinf b = false := by
  rw [eq_eq_decide, decide_eq_false_iff_not]
  intro e; exact hb.2 (by rw [← e]; rfl)

theorem eq_fin_pinf {a : R} (ha : FinWF a) : R.eq a pinf = false := by
  rw [eq_eq_decide, decide_eq_false_iff_not]
  intro e; exact ha.2 (by rw [e]; rfl)

theorem lt_val {x y : IR} (hx : Fin x) (hy : Fin y) : IR.lt x y = true ↔ val x < val y := by
  unfold IR.lt val
  rw [QV.lt_iff, lt_fin hx.1 hy.1, eq_fin hx.1 hy.1, lt_fin hx.2 hy.2]
  simp

theorem le_val {x y : IR} (hx : Fin x) (hy : Fin y) : IR.le x y = true ↔ val x ≤ val y := by
  unfold IR.le val
  rw [QV.le_iff, lt_fin hx.1 hy.1, eq_fin hx.1 hy.1, le_fin hx.2 hy.2]
  simp

/-- `<` on matrix entries is the order of the denoted values unless BOTH are infinite -/
theorem lt_den {x y : IR} (hx : Good x) (hy : Good y) (hfin : den x ≠ ⊤ ∨ den y ≠ ⊤) :
    rdlOps.lt x y = true ↔ den x < den y := by
  show IR.lt x y = true ↔ _
  rcases hx.rat_cases with hxf | hxp
  · rcases hy.rat_cases with hyf | hyp
    · rw [lt_val ⟨hxf, hx.2.2⟩ ⟨hyf, hy.2.2⟩, den_of_fin hxf.2, den_of_fin hyf.2, WithTop.coe_lt_coe]
    · rw [den_of_fin hxf.2, den_of_inf (x := y) (by rw [hyp]; rfl)]
      unfold IR.lt; rw [hyp, lt_fin_pinf hxf]
      simp
  · rcases hy.rat_cases with hyf | hyp
    · rw [den_of_inf (x := x) (by rw [hxp]; rfl), den_of_fin hyf.2]
      unfold IR.lt; rw [hxp, lt_pinf_any hyf.1, eq_pinf_fin hyf]
      simp
    · exfalso
      rcases hfin with h | h
      · exact h (den_of_inf (by rw [hxp]; rfl))
      · exact h (den_of_inf (by rw [hyp]; rfl))

/-- a successful `<` test means a strict inequality of values, or both sides infinite
    (then the outcome depends on the ε parts the infinite entries happen to carry) -/
theorem lt_den_true {x y : IR} (hx : Good x) (hy : Good y) (h : rdlOps.lt x y = true) :
    den x < den y ∨ (den x = ⊤ ∧ den y = ⊤) := by
  by_cases hfin : den x ≠ ⊤ ∨ den y ≠ ⊤
  · left; exact (lt_den hx hy hfin).mp h
  · right
    constructor
    · by_contra hc; exact hfin (Or.inl hc)
    · by_contra hc; exact hfin (Or.inr hc)

theorem lt_den_of {x y : IR} (hx : Good x) (hy : Good y) (h : den x < den y) : rdlOps.lt x y = true :=
  (lt_den hx hy (Or.inl (ne_top_of_lt h))).mpr h

theorem le_den {x y : IR} (hx : Good x) (hy : Good y) (hfin : den x ≠ ⊤ ∨ den y ≠ ⊤) :
    rdlOps.le x y = true ↔ den x ≤ den y := by
  show IR.le x y = true ↔ _
  rcases hx.rat_cases with hxf | hxp
  · rcases hy.rat_cases with hyf | hyp
    · rw [le_val ⟨hxf, hx.2.2⟩ ⟨hyf, hy.2.2⟩, den_of_fin hxf.2, den_of_fin hyf.2, WithTop.coe_le_coe]
    · rw [den_of_fin hxf.2, den_of_inf (x := y) (by rw [hyp]; rfl)]
      unfold IR.le; rw [hyp, lt_fin_pinf hxf]
      simp
  · rcases hy.rat_cases with hyf | hyp
    · rw [den_of_inf (x := x) (by rw [hxp]; rfl), den_of_fin hyf.2]
      unfold IR.le; rw [hxp, lt_pinf_any hyf.1, eq_pinf_fin hyf]
      simp
    · exfalso
      rcases hfin with h | h
      · exact h (den_of_inf (by rw [hxp]; rfl))
      · exact h (den_of_inf (by rw [hyp]; rfl))

theorem finiteGuard_true (x : IR) : rdlOps.finiteGuard x = true := rfl

end IR
end Oratio
