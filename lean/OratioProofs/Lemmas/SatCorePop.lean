/-
C07: `popOne`, `popN`, `pop`, `popTo` and the invariants.
-/
import OratioModel
import OratioProofs.Lemmas.SatCoreUpd

set_option linter.unusedSimpArgs false
set_option linter.unusedVariables false

namespace Oratio
namespace Sat

/-! ### popOne / popN: what changes -/

theorem popOne_trail (s : Sat) : s.popOne.trail = s.trail.drop 1 := by
  unfold popOne; split <;> simp_all

theorem popOne_frame (s : Sat) : s.popOne.cls = s.cls ∧ s.popOne.nextId = s.nextId ∧ s.popOne.watches = s.watches ∧
    s.popOne.queue = s.queue ∧ s.popOne.trailLim = s.trailLim ∧ s.popOne.decisions = s.decisions ∧
    s.popOne.exprs = s.exprs ∧ s.popOne.log = s.log ∧ s.popOne.dead = s.dead ∧
    s.popOne.vals.length = s.vals.length ∧ s.popOne.level.length = s.level.length ∧
    s.popOne.reason.length = s.reason.length := by
  unfold popOne; split <;> simp

theorem popOne_getD (s : Sat) (v : Nat) (hv : ∀ p ∈ s.trail.head?, p.var ≠ v) :
    s.popOne.vals.getD v none = s.vals.getD v none ∧ s.popOne.level.getD v 0 = s.level.getD v 0 ∧
    s.popOne.reason.getD v none = s.reason.getD v none := by
  unfold popOne; split
  · simp
  · rename_i p rest h
    have : p.var ≠ v := hv p (by simp [h])
    exact ⟨getD_set_ne _ _ _ _ _ this, getD_set_ne _ _ _ _ _ this, getD_set_ne _ _ _ _ _ this⟩

theorem popOne_vals_head (s : Sat) (p : Lit) (hp : s.trail.head? = some p) : s.popOne.vals.getD p.var none = none := by
  unfold popOne; split
  · simp_all
  · rename_i q rest h
    simp only [h, List.head?_cons, Option.some.injEq] at hp; subst hp
    simp only [getD_set]; split
    · rfl
    · rename_i h2
      simp only [true_and, Nat.not_lt] at h2
      simp [List.getD_eq_getElem?_getD, List.getElem?_eq_none h2]

theorem popN_succ (k : Nat) (s : Sat) : s.popN (k + 1) = (s.popOne).popN k := rfl

theorem popN_trail (k : Nat) (s : Sat) : (s.popN k).trail = s.trail.drop k := by
  induction k generalizing s with
  | zero => rfl
  | succ k ih => rw [popN_succ, ih, popOne_trail, List.drop_drop]; congr 1; omega

theorem popN_frame (k : Nat) (s : Sat) : (s.popN k).cls = s.cls ∧ (s.popN k).nextId = s.nextId ∧
    (s.popN k).watches = s.watches ∧
    (s.popN k).queue = s.queue ∧ (s.popN k).trailLim = s.trailLim ∧ (s.popN k).decisions = s.decisions ∧
    (s.popN k).exprs = s.exprs ∧ (s.popN k).log = s.log ∧ (s.popN k).dead = s.dead ∧
    (s.popN k).vals.length = s.vals.length ∧ (s.popN k).level.length = s.level.length ∧
    (s.popN k).reason.length = s.reason.length := by
  induction k generalizing s with
  | zero => simp [popN]
  | succ k ih =>
    rw [popN_succ]
    obtain ⟨a1, a2, a3, a4, a5, a6, a7, a8, a9, a10, a11, a12⟩ := ih s.popOne
    obtain ⟨b1, b2, b3, b4, b5, b6, b7, b8, b9, b10, b11, b12⟩ := popOne_frame s
    exact ⟨a1.trans b1, a2.trans b2, a3.trans b3, a4.trans b4, a5.trans b5, a6.trans b6, a7.trans b7,
      a8.trans b8, a9.trans b9, a10.trans b10, a11.trans b11, a12.trans b12⟩

theorem popN_getD (k : Nat) (s : Sat) (v : Nat) (hv : ∀ p ∈ s.trail.take k, p.var ≠ v) :
    (s.popN k).vals.getD v none = s.vals.getD v none ∧ (s.popN k).level.getD v 0 = s.level.getD v 0 ∧
    (s.popN k).reason.getD v none = s.reason.getD v none := by
  induction k generalizing s with
  | zero => simp [popN]
  | succ k ih =>
    rw [popN_succ]
    have h1 := popOne_getD s v (by
      intro p hp
      apply hv p
      cases ht : s.trail with
      | nil => simp [ht] at hp
      | cons q r => simp [ht] at hp ⊢; exact Or.inl hp.symm)
    have h2 := ih s.popOne (by
      intro p hp
      apply hv p
      rw [popOne_trail] at hp
      cases ht : s.trail with
      | nil => simp [ht] at hp
      | cons q r => simp [ht] at hp ⊢; exact Or.inr hp)
    exact ⟨h2.1.trans h1.1, h2.2.1.trans h1.2.1, h2.2.2.trans h1.2.2⟩

theorem popN_vals_popped' (k : Nat) (s : Sat) (v : Nat) (hp : ∃ p ∈ s.trail.take k, p.var = v) :
    (s.popN k).vals.getD v none = none := by
  induction k generalizing s with
  | zero => simp at hp
  | succ k ih =>
    rw [popN_succ]
    obtain ⟨p, hp, rfl⟩ := hp
    cases ht : s.trail with
    | nil => simp [ht] at hp
    | cons q r =>
      by_cases hm : ∃ p' ∈ s.popOne.trail.take k, p'.var = p.var
      · exact ih s.popOne hm
      · have := (popN_getD k s.popOne p.var (by
          intro p' hp' e; exact hm ⟨p', hp', e⟩)).1
        rw [this]
        simp only [ht, List.take_succ_cons, List.mem_cons] at hp
        rcases hp with rfl | hp
        · exact popOne_vals_head s p (by simp [ht])
        · exfalso; apply hm
          exact ⟨p, by rw [popOne_trail, ht]; simpa using hp, rfl⟩

theorem popN_vals_popped (k : Nat) (s : Sat) (p : Lit) (hp : p ∈ s.trail.take k) :
    (s.popN k).vals.getD p.var none = none := popN_vals_popped' k s p.var ⟨p, hp, rfl⟩

/-! ### pop -/

theorem unwind_eq (lim : Nat) (n : Nat) (s : Sat) :
    pop.unwind lim n s = s.popN (min n (s.trail.length - lim)) := by
  induction n generalizing s with
  | zero => simp [pop.unwind, popN]
  | succ n ih =>
    unfold pop.unwind
    split
    · rename_i h
      rw [ih, popOne_trail]
      have : min (n + 1) (s.trail.length - lim) = min n ((List.drop 1 s.trail).length - lim) + 1 := by
        simp only [List.length_drop]; omega
      rw [this, popN_succ]
    · rename_i h
      have : min (n + 1) (s.trail.length - lim) = 0 := by omega
      rw [this]; rfl

theorem pop_eq {s : Sat} {lim : Nat} {lims : List Nat} (h : s.trailLim = lim :: lims) :
    s.pop = { s.popN (s.trail.length - lim) with trailLim := lims, decisions := s.decisions.drop 1 } := by
  unfold pop
  rw [h]
  simp only [unwind_eq, Nat.min_eq_right (Nat.sub_le _ _)]
  congr 1
  exact (popN_frame _ s).2.2.2.2.2.1 ▸ rfl

theorem pop_root {s : Sat} (h : s.trailLim = []) : s.pop = s := by
  unfold pop; rw [h]

end Sat
end Oratio

namespace Oratio
namespace Sat

/-! ### levels and positions -/

theorem WfA.lim_ge {s : Sat} (h : s.WfA) {lim : Nat} {lims : List Nat} (hl : s.trailLim = lim :: lims) :
    ∀ x ∈ lims, x ≤ lim := by
  have := h.limSorted
  rw [hl, List.pairwise_cons] at this
  exact fun x hx => this.1 x hx

theorem WfA.lvl_top_iff {s : Sat} (h : s.WfA) {lim : Nat} {lims : List Nat} (hl : s.trailLim = lim :: lims)
    {l : Lit} {b : List Lit} (hs : (l :: b) <:+ s.trail) : s.lvl l = s.decisionLevel ↔ lim ≤ b.length := by
  rw [h.levelOK l b hs, decisionLevel, hl]
  constructor
  · intro e
    have := List.filter_eq_self.1 (List.Sublist.eq_of_length (List.filter_sublist) e)
    simpa using this lim (List.mem_cons_self ..)
  · intro hle
    rw [List.filter_eq_self.2]
    intro x hx
    rcases List.mem_cons.1 hx with rfl | hx
    · simpa using hle
    · have := h.lim_ge hl x hx
      simp only [decide_eq_true_eq]; omega

/-- position characterisation of the two parts of the trail -/
theorem mem_take_suffix {α} {l : List α} {k : Nat} {x : α} (hx : x ∈ l.take k) :
    ∃ b, (x :: b) <:+ l ∧ l.length - k ≤ b.length := by
  obtain ⟨a, c, e⟩ := List.append_of_mem hx
  refine ⟨c ++ l.drop k, ⟨a, ?_⟩, ?_⟩
  · have := List.take_append_drop k l
    rw [e] at this
    simpa using this
  · simp

theorem mem_drop_suffix {α} {l : List α} {k : Nat} {x : α} (hx : x ∈ l.drop k) :
    ∃ b, (x :: b) <:+ l ∧ (x :: b) <:+ l.drop k ∧ b.length < l.length - k := by
  obtain ⟨a, c, e⟩ := List.append_of_mem hx
  refine ⟨c, ⟨l.take k ++ a, ?_⟩, ⟨a, e.symm⟩, ?_⟩
  · have := List.take_append_drop k l
    rw [e] at this
    simpa using this
  · have := congrArg List.length e
    simp only [List.length_drop, List.length_append, List.length_cons] at this
    omega

/-- everything we need to know about the state after `pop()` -/
structure PopSpec (s t : Sat) (k : Nat) : Prop where
  trail : t.trail = s.trail.drop k
  cls : t.cls = s.cls
  nextId : t.nextId = s.nextId
  watches : t.watches = s.watches
  queue : t.queue = s.queue
  exprs : t.exprs = s.exprs
  log : t.log = s.log
  dead : t.dead = s.dead
  lenVals : t.vals.length = s.vals.length
  lenLevel : t.level.length = s.level.length
  lenReason : t.reason.length = s.reason.length
  keep : ∀ v : Nat, (∀ p ∈ s.trail.take k, p.var ≠ v) →
    t.vals.getD v none = s.vals.getD v none ∧ t.level.getD v 0 = s.level.getD v 0 ∧
    t.reason.getD v none = s.reason.getD v none
  gone : ∀ p ∈ s.trail.take k, t.vals.getD p.var none = none

theorem popN_spec (k : Nat) (s : Sat) : PopSpec s (s.popN k) k := by
  obtain ⟨a1, a2, a3, a4, a5, a6, a7, a8, a9, a10, a11, a12⟩ := popN_frame k s
  exact ⟨popN_trail k s, a1, a2, a3, a4, a7, a8, a9, a10, a11, a12, popN_getD k s, popN_vals_popped k s⟩

theorem pop_spec {s : Sat} {lim : Nat} {lims : List Nat} (h : s.trailLim = lim :: lims) :
    PopSpec s s.pop (s.trail.length - lim) ∧ s.pop.trailLim = lims ∧ s.pop.decisions = s.decisions.drop 1 := by
  rw [pop_eq h]
  have := popN_spec (s.trail.length - lim) s
  exact ⟨⟨this.trail, this.cls, this.nextId, this.watches, this.queue, this.exprs, this.log, this.dead,
    this.lenVals, this.lenLevel, this.lenReason, this.keep, this.gone⟩, rfl, rfl⟩

section
variable {s t : Sat} {k : Nat}

theorem PopSpec.keep_lit (hp : PopSpec s t k) (ha : s.WfA) {x : Lit} (hx : x ∈ s.trail.drop k ∨ x.neg ∈ s.trail.drop k) :
    t.value x = s.value x ∧ t.lvl x = s.lvl x ∧ t.reason.getD x.var none = s.reason.getD x.var none := by
  have : ∀ p ∈ s.trail.take k, p.var ≠ x.var := by
    intro p hp e
    have hnd := ha.trailNodup
    rw [← List.take_append_drop k s.trail, List.map_append, List.nodup_append] at hnd
    rcases hx with hx | hx
    · exact hnd.2.2 _ (List.mem_map.2 ⟨p, hp, rfl⟩) _ (List.mem_map.2 ⟨x, hx, rfl⟩) e
    · exact hnd.2.2 _ (List.mem_map.2 ⟨p, hp, rfl⟩) _ (List.mem_map.2 ⟨x.neg, hx, rfl⟩) e
  have := hp.keep x.var this
  exact ⟨value_congr this.1, this.2.1, this.2.2⟩

end

/-- `pop()` keeps the structural invariant (the queue must be empty) -/
theorem Wf.pop {s : Sat} (h : s.Wf) (hq : s.queue = []) : s.pop.Wf := by
  cases hl : s.trailLim with
  | nil => rw [pop_root hl]; exact h
  | cons lim lims =>
    obtain ⟨hp, hlim, hdec⟩ := pop_spec hl
    have ha := h.a
    have hlimle : lim ≤ s.trail.length := ha.limLe lim (by rw [hl]; exact List.mem_cons_self ..)
    generalize hk : s.trail.length - lim = k at hp
    have hlen : (s.trail.drop k).length = lim := by simp only [List.length_drop]; omega
    have hsuf : s.trail.drop k <:+ s.trail := List.drop_suffix _ _
    have hkeep : ∀ x ∈ s.trail.drop k, s.pop.vals.getD x.var none = s.vals.getD x.var none ∧
        s.pop.lvl x = s.lvl x ∧ s.pop.reason.getD x.var none = s.reason.getD x.var none := by
      intro x hx
      have := hp.keep_lit ha (Or.inl hx)
      exact ⟨by
        have hnd := ha.trailNodup
        rw [← List.take_append_drop k s.trail, List.map_append, List.nodup_append] at hnd
        exact (hp.keep x.var (fun p hp' e =>
          hnd.2.2 _ (List.mem_map.2 ⟨p, hp', rfl⟩) _ (List.mem_map.2 ⟨x, hx, rfl⟩) e)).1, this.2.1, this.2.2⟩
    refine ⟨⟨?_, ?_, ?_, ?_, ?_, ?_, ?_, ?_, ?_, ?_, ?_, ?_, ?_⟩, h.c.of_eq hp.cls hp.nextId hp.lenVals, ?_,
      h.w.of_eq hp.cls hp.watches hp.lenVals⟩
    · rw [hp.lenLevel, hp.lenVals]; exact ha.lenLevel
    · rw [hp.lenReason, hp.lenVals]; exact ha.lenReason
    · have := (hp.keep 0 (fun p hp' => (ha.trailVal p (List.mem_of_mem_take hp')).2)).1
      rw [this]; exact ha.val0
    · intro l hl'
      rw [hp.trail] at hl'
      rw [(hkeep l hl').1]
      exact ha.trailVal l (hsuf.subset hl')
    · rw [hp.trail]
      exact (ha.trailNodup.sublist ((List.drop_sublist _ _).map _))
    · intro v b hv
      by_cases hm : ∃ p ∈ s.trail.take k, p.var = v
      · obtain ⟨p, hp', rfl⟩ := hm
        rw [hp.gone p hp'] at hv; cases hv
      · have := (hp.keep v (fun p hp' e => hm ⟨p, hp', e⟩)).1
        rw [this] at hv
        rcases ha.valTrail v b hv with h0 | ht
        · exact Or.inl h0
        · right
          rw [hp.trail]
          rw [← List.take_append_drop k s.trail] at ht
          rcases List.mem_append.1 ht with ht | ht
          · exact absurd ⟨_, ht, rfl⟩ hm
          · exact ht
    · rw [hlim, hdec, List.length_drop, ha.decLen, hl]; simp
    · intro x hx
      rw [hlim] at hx
      rw [hp.trail, hlen]
      exact ha.lim_ge hl x hx
    · rw [hlim]
      have := ha.limSorted
      rw [hl, List.pairwise_cons] at this
      exact this.2
    · intro l b hs
      rw [hp.trail] at hs
      have hl' : l ∈ s.trail.drop k := hs.subset (List.mem_cons_self ..)
      rw [(hkeep l hl').2.1, ha.levelOK l b (hs.trans hsuf), hl, hlim]
      have hb : b.length < lim := by
        have := hs.length_le
        simp only [List.length_cons, hlen] at this
        omega
      simp only [List.filter_cons]
      have : ¬ (lim ≤ b.length) := by omega
      simp [this]
    · rw [hp.queue, hq]; intro p hp'; cases hp'
    · intro l b hs hr
      rw [hp.trail] at hs
      have hl' : l ∈ s.trail.drop k := hs.subset (List.mem_cons_self ..)
      rw [(hkeep l hl').2.2] at hr
      rw [(hkeep l hl').2.1]
      rcases ha.reasonNone l b (hs.trans hsuf) hr with h0 | hall
      · exact Or.inl h0
      · right; intro x hx
        have hx' : x ∈ s.trail.drop k := hs.subset (List.mem_cons_of_mem _ hx)
        rw [(hkeep x hx').2.1]; exact hall x hx
    · rw [hp.exprs, hp.lenVals]; exact ha.exprsRange
    · intro l b hs id hr
      rw [hp.trail] at hs
      have hl' : l ∈ s.trail.drop k := hs.subset (List.mem_cons_self ..)
      rw [(hkeep l hl').2.2] at hr
      rw [hp.cls]
      exact h.r l b (hs.trans hsuf) id hr

end Sat
end Oratio

namespace Oratio
namespace Sat

theorem WfA.pop_levels {s : Sat} (h : s.WfA) {lim : Nat} {lims : List Nat} (hl : s.trailLim = lim :: lims) :
    (∀ p ∈ s.trail.take (s.trail.length - lim), s.lvl p = s.decisionLevel) ∧
    (∀ x ∈ s.trail.drop (s.trail.length - lim), s.lvl x < s.decisionLevel) := by
  have hlimle : lim ≤ s.trail.length := h.limLe lim (by rw [hl]; exact List.mem_cons_self ..)
  constructor
  · intro p hp
    obtain ⟨b, hs, hb⟩ := mem_take_suffix hp
    exact (h.lvl_top_iff hl hs).2 (by omega)
  · intro x hx
    obtain ⟨b, hs, _, hb⟩ := mem_drop_suffix hx
    have h1 := h.lvl_le (hs.subset (List.mem_cons_self ..))
    have h2 : s.lvl x ≠ s.decisionLevel := fun e => by have := (h.lvl_top_iff hl hs).1 e; omega
    omega

/-- what `pop` does to membership, values and levels -/
theorem WfA.pop_mem {s : Sat} (h : s.WfA) {lim : Nat} {lims : List Nat} (hl : s.trailLim = lim :: lims) :
    (∀ x, x ∈ s.pop.trail ↔ x ∈ s.trail ∧ s.lvl x < s.decisionLevel) ∧
    (∀ x, (x ∈ s.pop.trail ∨ x.neg ∈ s.pop.trail) → s.pop.value x = s.value x ∧ s.pop.lvl x = s.lvl x) ∧
    (∀ x ∈ s.trail, s.lvl x = s.decisionLevel → s.pop.value x = none) := by
  obtain ⟨hp, hlim, hdec⟩ := pop_spec hl
  obtain ⟨h1, h2⟩ := h.pop_levels hl
  refine ⟨?_, ?_, ?_⟩
  · intro x
    rw [hp.trail]
    constructor
    · intro hx; exact ⟨(List.drop_suffix _ _).subset hx, h2 x hx⟩
    · rintro ⟨hx, hlt⟩
      rw [← List.take_append_drop (s.trail.length - lim) s.trail] at hx
      rcases List.mem_append.1 hx with hx | hx
      · have := h1 x hx; omega
      · exact hx
  · intro x hx
    rw [hp.trail] at hx
    have := hp.keep_lit h hx
    exact ⟨this.1, this.2.1⟩
  · intro x hx hlv
    rw [← List.take_append_drop (s.trail.length - lim) s.trail] at hx
    rcases List.mem_append.1 hx with hx | hx
    · rw [value_eq_none]; exact hp.gone x hx
    · have := h2 x hx; omega

theorem W2.pop {P : Nat → Lit → Prop} {s : Sat} (hw : s.Wf) (h : s.W2 P) (hne : s.trailLim ≠ [])
    (hP : ∀ id x, P id x → x ∈ s.trail ∧ s.lvl x = s.decisionLevel) : s.pop.W2 (fun _ _ => False) := by
  cases hl : s.trailLim with
  | nil => exact absurd hl hne
  | cons lim lims =>
    obtain ⟨hp, hlim, hdec⟩ := pop_spec hl
    obtain ⟨hm, hk, hg⟩ := hw.a.pop_mem hl
    have hwp := hw.pop
    have key : ∀ id (x y : Lit), x.var ≠ 0 → y.var ≠ 0 → s.pop.value x = some false →
        (s.value x = some false → P id x.neg ∨ (s.value y = some true ∧ s.lvl y ≤ s.lvl x)) →
        False ∨ (s.pop.value y = some true ∧ s.pop.lvl y ≤ s.pop.lvl x) := by
      intro id x y hx0 hy0 hv hold
      right
      -- `¬x` survived the pop
      have hxt : x.neg ∈ s.pop.trail := by
        by_cases hq : s.queue = []
        · rcases ((hwp hq).a.value_false).1 hv with h1 | h1
          · exact h1
          · subst h1; exact absurd rfl hx0
        · -- without the queue hypothesis argue directly on the values
          have hv' : s.pop.vals.getD x.var none = some (!x.sign) := value_eq_false.1 hv
          by_cases hmm : ∃ p ∈ s.trail.take (s.trail.length - lim), p.var = x.var
          · obtain ⟨p, hp', e⟩ := hmm
            rw [← e, hp.gone p hp'] at hv'; cases hv'
          · have hsame := (hp.keep x.var (fun p hp' e => hmm ⟨p, hp', e⟩)).1
            rw [hsame] at hv'
            rcases hw.a.valTrail _ _ hv' with h0 | ht
            · exact absurd h0 hx0
            · rw [hp.trail]
              have ht' : x.neg ∈ s.trail := by simpa [Lit.neg] using ht
              rw [← List.take_append_drop (s.trail.length - lim) s.trail] at ht'
              rcases List.mem_append.1 ht' with h3 | h3
              · exact absurd ⟨_, h3, rfl⟩ hmm
              · exact h3
      have hxk := hk x (Or.inr hxt)
      have hxs := (hm x.neg).1 hxt
      rw [hxk.1] at hv
      rcases hold hv with hP1 | ⟨hy, hle⟩
      · have := (hP id _ hP1).2
        have h3 := hxs.2
        simp only [lvl_neg] at this h3; omega
      · have hyt : y ∈ s.trail := by
          rcases (hw.a.value_true).1 hy with h1 | h1
          · exact h1
          · subst h1; exact absurd rfl hy0
        have hyp : y ∈ s.pop.trail := (hm y).2 ⟨hyt, by have := hxs.2; simp only [lvl_neg] at this; omega⟩
        have hyk := hk y (Or.inl hyp)
        rw [hyk.1, hyk.2, hxk.2]
        exact ⟨hy, hle⟩
    intro id l0 l1 rest hmem
    rw [hp.cls] at hmem
    obtain ⟨h1, h2⟩ := h id l0 l1 rest hmem
    have h00 := hw.c.clsVar0 _ hmem l0 (by simp)
    have h10 := hw.c.clsVar0 _ hmem l1 (by simp)
    exact ⟨fun hv => key id l0 l1 h00 h10 hv h1, fun hv => key id l1 l0 h10 h00 hv h2⟩

end Sat
end Oratio

namespace Oratio
namespace Sat

theorem decsUpTo_zero (s : Sat) : s.decsUpTo 0 = [] := by simp [decsUpTo]

theorem Ent.pop {orig K : Cnf} {s : Sat} (hw : s.Wf) (h : s.Ent orig K) : s.pop.Ent orig K := by
  cases hl : s.trailLim with
  | nil => rw [pop_root hl]; exact h
  | cons lim lims =>
    obtain ⟨hp, hlim, hdec⟩ := pop_spec hl
    obtain ⟨hm, hk, hg⟩ := hw.a.pop_mem hl
    have hL : s.decisionLevel = s.decisions.length := by rw [hw.a.decLen]; rfl
    refine ⟨?_, ?_, ?_, ?_, ?_⟩
    · rw [hp.cls]; exact h.clauses
    · intro l hlt
      have h1 := (hm l).1 hlt
      have h2 := hk l (Or.inl hlt)
      have := h.trail l h1.1
      rw [h2.2]
      have e : s.pop.decsUpTo (s.lvl l) = s.decsUpTo (s.lvl l) := by
        simp only [decsUpTo, hdec, List.drop_drop, List.length_drop]
        congr 1
        have := h1.2; omega
      rw [e]; exact this
    · rw [hp.log]; exact h.log
    · rw [hp.dead]; exact h.dead
    · rw [hp.dead, hp.cls]
      intro hd α h0 hc hroot
      apply h.keeps hd α h0 hc
      intro l hlt hl0
      have hlp : l ∈ s.pop.trail := (hm l).2 ⟨hlt, by
        have : 0 < s.decisionLevel := by simp [decisionLevel, hl]
        omega⟩
      exact hroot l hlp (by rw [(hk l (Or.inl hlp)).2]; exact hl0)

theorem DecOK.pop {m : Nat} {s : Sat} (hw : s.Wf) (h : s.DecOK m) : s.pop.DecOK m := by
  cases hl : s.trailLim with
  | nil => rw [pop_root hl]; exact h
  | cons lim lims =>
    obtain ⟨hp, hlim, hdec⟩ := pop_spec hl
    obtain ⟨hm, hk, hg⟩ := hw.a.pop_mem hl
    intro a d b hd hb
    rw [hdec] at hd
    cases hds : s.decisions with
    | nil => rw [hds] at hd; simp at hd
    | cons d0 ds =>
      rw [hds] at hd
      simp only [List.drop_succ_cons, List.drop_zero] at hd
      have := h (d0 :: a) d b (by rw [hds, hd]; rfl) hb
      have hL : s.decisionLevel = s.decisions.length := by rw [hw.a.decLen]; rfl
      have hlen : b.length + 1 < s.decisionLevel := by
        rw [hL, hds, hd]; simp; omega
      have hdp : d ∈ s.pop.trail := (hm d).2 ⟨this.1, by omega⟩
      exact ⟨hdp, by rw [(hk d (Or.inl hdp)).2]; exact this.2⟩

theorem pop_decisionLevel (s : Sat) : s.pop.decisionLevel = s.decisionLevel - 1 := by
  cases hl : s.trailLim with
  | nil => rw [pop_root hl]; simp [decisionLevel, hl]
  | cons lim lims => rw [pop_eq hl]; simp [decisionLevel, hl]

theorem pop_decisions (s : Sat) (h : s.trailLim ≠ []) : s.pop.decisions = s.decisions.drop 1 := by
  cases hl : s.trailLim with
  | nil => exact absurd hl h
  | cons lim lims => rw [pop_eq hl]

theorem pop_frame (s : Sat) : s.pop.cls = s.cls ∧ s.pop.nextId = s.nextId ∧ s.pop.watches = s.watches ∧
    s.pop.queue = s.queue ∧ s.pop.exprs = s.exprs ∧ s.pop.log = s.log ∧ s.pop.dead = s.dead ∧
    s.pop.vals.length = s.vals.length := by
  cases hl : s.trailLim with
  | nil => rw [pop_root hl]; simp
  | cons lim lims =>
    have := (pop_spec hl).1
    exact ⟨this.cls, this.nextId, this.watches, this.queue, this.exprs, this.log, this.dead, this.lenVals⟩

/-! ### popTo -/

theorem popTo_go_induction {Q : Sat → Prop} (hpop : ∀ s, Q s → s.trailLim ≠ [] → Q s.pop) (lvl : Nat) :
    ∀ (n : Nat) (s : Sat), Q s → Q (popTo.go lvl n s)
  | 0, s, h => h
  | n + 1, s, h => by
    unfold popTo.go
    split
    · rename_i hgt
      exact popTo_go_induction hpop lvl n s.pop (hpop s h (by
        intro e; simp [decisionLevel, e] at hgt))
    · exact h

theorem popTo_induction {Q : Sat → Prop} (hpop : ∀ s, Q s → s.trailLim ≠ [] → Q s.pop) (lvl : Nat) (s : Sat)
    (h : Q s) : Q (s.popTo lvl) := popTo_go_induction hpop lvl _ s h

theorem popTo_go_level (lvl : Nat) : ∀ (n : Nat) (s : Sat), s.decisionLevel ≤ lvl + n →
    (popTo.go lvl n s).decisionLevel = min lvl s.decisionLevel
  | 0, s, h => by simp [popTo.go]; omega
  | n + 1, s, h => by
    unfold popTo.go
    split
    · rename_i hgt
      rw [popTo_go_level lvl n s.pop (by rw [pop_decisionLevel]; omega), pop_decisionLevel]
      omega
    · omega

theorem popTo_level (s : Sat) (lvl : Nat) : (s.popTo lvl).decisionLevel = min lvl s.decisionLevel :=
  popTo_go_level lvl _ s (by omega)

theorem popTo_of_le (s : Sat) (lvl : Nat) (h : s.decisionLevel ≤ lvl) : s.popTo lvl = s := by
  unfold popTo
  cases hd : s.decisionLevel with
  | zero => rfl
  | succ n => unfold popTo.go; simp; omega

/-- `popTo` when at least one level is popped -/
theorem popTo_pop (s : Sat) (lvl : Nat) (h : lvl < s.decisionLevel) : s.popTo lvl = s.pop.popTo lvl := by
  unfold popTo
  cases hd : s.decisionLevel with
  | zero => omega
  | succ n =>
    have : s.pop.decisionLevel = n := by rw [pop_decisionLevel, hd]; rfl
    rw [this]
    conv => lhs; unfold popTo.go
    simp only [hd]
    rw [if_pos (by omega)]

end Sat
end Oratio

namespace Oratio
namespace Sat

/-- relation between a state and a state obtained from it by popping whole levels -/
structure PopRel (s t : Sat) : Prop where
  mem : ∀ x ∈ t.trail, x ∈ s.trail ∧ t.lvl x = s.lvl x ∧ t.value x = s.value x
  kept : ∀ x ∈ s.trail, s.lvl x ≤ t.decisionLevel → x ∈ t.trail
  gone : ∀ x ∈ s.trail, t.decisionLevel < s.lvl x → t.value x = none
  cls : t.cls = s.cls
  nextId : t.nextId = s.nextId
  watches : t.watches = s.watches
  queue : t.queue = s.queue
  exprs : t.exprs = s.exprs
  log : t.log = s.log
  dead : t.dead = s.dead
  lenVals : t.vals.length = s.vals.length
  level : t.decisionLevel ≤ s.decisionLevel
  decisions : t.decisions = s.decisions.drop (s.decisionLevel - t.decisionLevel)

theorem PopRel.refl (s : Sat) (ha : s.WfA) : PopRel s s := by
  refine ⟨fun x hx => ⟨hx, rfl, rfl⟩, fun x hx _ => hx, ?_, rfl, rfl, rfl, rfl, rfl, rfl, rfl, rfl, Nat.le_refl _, by simp⟩
  intro x hx hlt
  have := ha.lvl_le hx; omega

theorem pop_value_none {t : Sat} {x : Lit} (h : t.value x = none) : t.pop.value x = none := by
  cases hl : t.trailLim with
  | nil => rw [pop_root hl]; exact h
  | cons lim lims =>
    obtain ⟨hp, _, _⟩ := pop_spec hl
    rw [value_eq_none] at h ⊢
    by_cases hm : ∃ p ∈ t.trail.take (t.trail.length - lim), p.var = x.var
    · obtain ⟨p, hp', e⟩ := hm
      rw [← e]; exact hp.gone p hp'
    · rw [(hp.keep x.var (fun p hp' e => hm ⟨p, hp', e⟩)).1]; exact h

theorem PopRel.pop {s t : Sat} (h : PopRel s t) (hw : t.Wf) (hne : t.trailLim ≠ []) : PopRel s t.pop := by
  cases hl : t.trailLim with
  | nil => exact absurd hl hne
  | cons lim lims =>
    obtain ⟨hm, hk, hg⟩ := hw.a.pop_mem hl
    obtain ⟨f1, f2, f3, f4, f5, f6, f7, f8⟩ := pop_frame t
    have hLt : 0 < t.decisionLevel := by simp [decisionLevel, hl]
    refine ⟨?_, ?_, ?_, f1.trans h.cls, f2.trans h.nextId, f3.trans h.watches, f4.trans h.queue,
      f5.trans h.exprs, f6.trans h.log, f7.trans h.dead, f8.trans h.lenVals, ?_, ?_⟩
    · intro x hx
      have h1 := (hm x).1 hx
      have h2 := hk x (Or.inl hx)
      have h3 := h.mem x h1.1
      exact ⟨h3.1, h2.2.trans h3.2.1, h2.1.trans h3.2.2⟩
    · intro x hx hle
      rw [pop_decisionLevel] at hle
      have h1 := h.kept x hx (by omega)
      have h3 := h.mem x h1
      exact (hm x).2 ⟨h1, by omega⟩
    · intro x hx hlt
      rw [pop_decisionLevel] at hlt
      by_cases hc : t.decisionLevel < s.lvl x
      · exact pop_value_none (h.gone x hx hc)
      · have h1 := h.kept x hx (by omega)
        have h3 := h.mem x h1
        exact hg x h1 (by omega)
    · rw [pop_decisionLevel]; have := h.level; omega
    · rw [pop_decisions t hne, h.decisions, List.drop_drop, pop_decisionLevel]
      congr 1
      have := h.level; omega

/-- the bundle of invariants that holds between the steps of the solver -/
structure InvC (orig : Cnf) (m : Nat) (P : Nat → Lit → Prop) (s : Sat) (K : Cnf := orig) : Prop where
  wf : s.Wf
  ent : s.Ent orig K
  dec : s.DecOK m
  w2 : s.dead = false → s.W2 P

/-- pending literals are current-level trail literals -/
def PendOK (P : Nat → Lit → Prop) (s : Sat) : Prop := ∀ id x, P id x → x ∈ s.trail ∧ s.lvl x = s.decisionLevel

theorem InvC.pop {orig K : Cnf} {m : Nat} {P : Nat → Lit → Prop} {s : Sat} (h : InvC orig m P s K)
    (hq : s.queue = []) (hP : PendOK P s) (hne : s.trailLim ≠ []) : InvC orig m (fun _ _ => False) s.pop K :=
  ⟨h.wf.pop hq, h.ent.pop h.wf, h.dec.pop h.wf, fun hd =>
    (h.w2 (by rw [← (pop_frame s).2.2.2.2.2.2.1]; exact hd)).pop h.wf hne hP⟩

theorem InvC.popTo {orig K : Cnf} {m : Nat} {P : Nat → Lit → Prop} {s : Sat} (h : InvC orig m P s K)
    (hq : s.queue = []) (hP : PendOK P s) (bt : Nat) (hbt : bt < s.decisionLevel) :
    InvC orig m (fun _ _ => False) (s.popTo bt) K ∧ PopRel s (s.popTo bt) ∧ (s.popTo bt).decisionLevel = bt := by
  rw [popTo_pop s bt hbt]
  have hne : s.trailLim ≠ [] := by intro e; simp [decisionLevel, e] at hbt
  have h1 := h.pop hq hP hne
  have hr1 : PopRel s s.pop := (PopRel.refl s h.wf.a).pop h.wf hne
  have hq1 : s.pop.queue = [] := by rw [(pop_frame s).2.2.2.1]; exact hq
  have := popTo_induction (Q := fun t => InvC orig m (fun _ _ => False) t K ∧ PopRel s t ∧ t.queue = [])
    (fun t ⟨a, b, c⟩ hne' => ⟨a.pop c (fun _ _ hf => hf.elim) hne', b.pop a.wf hne',
      by rw [(pop_frame t).2.2.2.1]; exact c⟩) bt s.pop ⟨h1, hr1, hq1⟩
  refine ⟨this.1, this.2.1, ?_⟩
  rw [popTo_level, pop_decisionLevel]; omega

end Sat
end Oratio
