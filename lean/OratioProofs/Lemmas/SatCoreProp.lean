/-
C07: `clausePropagate`, `visitWatchers` and the invariants.
-/
import OratioModel
import OratioProofs.Lemmas.SatCorePop

set_option linter.unusedSimpArgs false
set_option linter.unusedVariables false

namespace Oratio
namespace Sat

/-! ### setClause -/

theorem mem_setClause {s : Sat} (h : s.WfC) {id : Nat} {c c' : Clause} (hm : (id, c) ∈ s.cls) {e : Nat × Clause} :
    e ∈ (s.setClause id c').cls ↔ (e ∈ s.cls ∧ e.1 ≠ id) ∨ e = (id, c') := by
  simp only [setClause, List.mem_map]
  constructor
  · rintro ⟨x, hx, rfl⟩
    by_cases hid : x.1 = id
    · right; simp [hid]
    · left; simp [hid, hx]
  · rintro (⟨he, hne⟩ | rfl)
    · exact ⟨e, he, by simp [hne]⟩
    · exact ⟨(id, c), hm, by simp⟩

theorem setClause_ids (s : Sat) (id : Nat) (c' : Clause) : (s.setClause id c').cls.map (·.1) = s.cls.map (·.1) := by
  simp only [setClause, List.map_map]
  apply List.map_congr_left
  intro e he
  simp only [Function.comp]
  split
  · rename_i h; have : e.1 = id := by simpa using h
    exact this.symm
  · rfl

theorem WfC.setClause {s : Sat} (h : s.WfC) {id : Nat} {c c' : Clause} (hm : (id, c) ∈ s.cls)
    (hp : c'.Perm c) : (s.setClause id c').WfC := by
  have hmem := fun e => @mem_setClause s h id c c' hm e
  refine ⟨?_, ?_, ?_, ?_, ?_, ?_⟩
  · intro e he
    rcases (hmem e).1 he with ⟨he, _⟩ | rfl
    · exact h.clsId e he
    · exact h.clsId (id, c) hm
  · rw [setClause_ids]; exact h.clsIdNodup
  · intro e he
    rcases (hmem e).1 he with ⟨he, _⟩ | rfl
    · exact h.clsLen e he
    · have := h.clsLen _ hm; rw [hp.length_eq]; exact this
  · intro e he
    rcases (hmem e).1 he with ⟨he, _⟩ | rfl
    · exact h.clsNodup e he
    · exact (hp.map Lit.var).nodup_iff.2 (h.clsNodup _ hm)
  · intro e he
    rcases (hmem e).1 he with ⟨he, _⟩ | rfl
    · exact h.clsRange e he
    · intro l hl; exact h.clsRange _ hm l (hp.mem_iff.1 hl)
  · intro e he
    rcases (hmem e).1 he with ⟨he, _⟩ | rfl
    · exact h.clsVar0 e he
    · intro l hl; exact h.clsVar0 _ hm l (hp.mem_iff.1 hl)

theorem Asg.clause_perm (α : Asg) {c c' : Clause} (hp : c'.Perm c) : α.clause c' = α.clause c := by
  simp only [Asg.clause]
  rw [Bool.eq_iff_iff]
  simp only [List.any_eq_true]
  constructor
  · rintro ⟨l, hl, hv⟩; exact ⟨l, hp.mem_iff.1 hl, hv⟩
  · rintro ⟨l, hl, hv⟩; exact ⟨l, hp.mem_iff.2 hl, hv⟩

theorem Ent.setClause {orig : Cnf} {s : Sat} (hc : s.WfC) (h : s.Ent orig) {id : Nat} {c c' : Clause}
    (hm : (id, c) ∈ s.cls) (hp : c'.Perm c) : (s.setClause id c').Ent orig := by
  have hmem := fun e => @mem_setClause s hc id c c' hm e
  refine ⟨?_, h.trail, h.log, h.dead, ?_⟩
  · intro e he
    rcases (hmem e).1 he with ⟨he, _⟩ | rfl
    · exact h.clauses e he
    · exact (h.clauses _ hm).weaken (fun l hl => hp.mem_iff.2 hl)
  · intro hd α h0 hcl hroot
    apply h.keeps hd α h0 _ hroot
    simp only [Asg.cnf, List.all_map, List.all_eq_true, Function.comp] at hcl ⊢
    intro e he
    by_cases hid : e.1 = id
    · have := hcl (id, c') ((hmem _).2 (Or.inr rfl))
      have e2 : e.2 = c := mem_unique hc (by rw [← hid]; exact he) hm
      rw [e2, ← Asg.clause_perm α hp]; exact this
    · exact hcl e ((hmem e).2 (Or.inl ⟨he, hid⟩))

/-- replacing the clause by a permutation that keeps the head (or whose head is not on the trail) -/
theorem WfR.setClause {s : Sat} (hc : s.WfC) (h : s.WfR) {id : Nat} {c c' : Clause} (hm : (id, c) ∈ s.cls)
    (hh : ∀ l r, c = l :: r → l ∈ s.trail → ∃ r', c' = l :: r' ∧ ∀ x ∈ r', x ∈ r) : (s.setClause id c').WfR := by
  intro l b hs id' hr
  obtain ⟨rest, hmr, hb⟩ := h l b hs id' hr
  by_cases hid : id' = id
  · subst hid
    have e : c = l :: rest := mem_unique hc hm hmr
    obtain ⟨r', e', hsub⟩ := hh l rest e (hs.subset (List.mem_cons_self ..))
    exact ⟨r', (mem_setClause hc hm).2 (Or.inr (by rw [e'])), fun x hx => hb x (hsub x hx)⟩
  · exact ⟨rest, (mem_setClause hc hm).2 (Or.inl ⟨hmr, hid⟩), hb⟩

/-- swapping the two watched literals -/
theorem WfW.setClause_swap {s : Sat} (hc : s.WfC) (h : s.WfW) {id : Nat} {l0 l1 : Lit} {r : List Lit}
    (hm : (id, l0 :: l1 :: r) ∈ s.cls) : (s.setClause id (l1 :: l0 :: r)).WfW := by
  have hmem := fun e => @mem_setClause s hc id _ (l1 :: l0 :: r) hm e
  refine ⟨h.lenWatches, ?_, ?_, h.nodup⟩
  · intro i id' hi
    obtain ⟨a, b, r', hm', hh⟩ := h.sound i id' hi
    by_cases hid : id' = id
    · subst hid
      have e := mem_unique hc hm hm'
      simp only [List.cons.injEq] at e
      obtain ⟨e1, e2, e3⟩ := e
      subst e1 e2 e3
      exact ⟨l1, l0, r, (hmem _).2 (Or.inr rfl), hh.symm⟩
    · exact ⟨a, b, r', (hmem _).2 (Or.inl ⟨hm', hid⟩), hh⟩
  · intro id' a b r' hm'
    rcases (hmem _).1 hm' with ⟨hm'', _⟩ | e
    · exact h.complete id' a b r' hm''
    · simp only [Prod.mk.injEq, List.cons.injEq] at e
      obtain ⟨rfl, rfl, rfl, rfl⟩ := e
      exact (h.complete _ _ _ _ hm).symm

theorem W2.setClause_swap {P : Nat → Lit → Prop} {s : Sat} (hc : s.WfC) (h : s.W2 P) {id : Nat} {l0 l1 : Lit}
    {r : List Lit} (hm : (id, l0 :: l1 :: r) ∈ s.cls) : (s.setClause id (l1 :: l0 :: r)).W2 P := by
  intro id' a b r' hm'
  rcases (mem_setClause hc hm).1 hm' with ⟨hm'', _⟩ | e
  · exact h id' a b r' hm''
  · simp only [Prod.mk.injEq, List.cons.injEq] at e
    obtain ⟨rfl, rfl, rfl, rfl⟩ := e
    exact (h _ _ _ _ hm).symm

theorem WfA.setClause {s : Sat} (h : s.WfA) (id : Nat) (c : Clause) : (s.setClause id c).WfA :=
  h.of_eq rfl rfl rfl rfl rfl rfl rfl rfl

theorem DecOK.setClause {m : Nat} {s : Sat} (h : s.DecOK m) (id : Nat) (c : Clause) : (s.setClause id c).DecOK m := h

end Sat
end Oratio

namespace Oratio
namespace Sat

theorem setClause_self {s : Sat} (h : s.WfC) {id : Nat} {c : Clause} (hm : (id, c) ∈ s.cls) :
    s.setClause id c = s := by
  have : s.cls.map (fun e => if e.1 == id then (id, c) else e) = s.cls := by
    conv => rhs; rw [← List.map_id s.cls]
    apply List.map_congr_left
    intro e he
    split
    · rename_i hid
      have hid' : e.1 = id := by simpa using hid
      have : e.2 = c := mem_unique h (by rw [← hid']; exact he) hm
      rw [← hid', ← this]; rfl
    · rfl
  simp only [setClause, this]

/-- the clause as seen by `clausePropagate` after its first step -/
theorem clausePropagate_normal {s : Sat} (h : s.WfC) {id : Nat} {p a : Lit} {r : List Lit}
    (hm : (id, a :: p.neg :: r) ∈ s.cls) :
    s.clausePropagate id p =
      if s.value a = some true then (true, s.watch p id)
      else match findNonFalse s (a :: p.neg :: r) 1 with
        | some k => (true, (s.setClause id (swap1 (a :: p.neg :: r) k)).watch
              ((swap1 (a :: p.neg :: r) k).getD 1 Lit.falseLit).neg id)
        | none => (s.watch p id).enqueue a (some id) := by
  have hne : a.var ≠ p.var := by
    have := h.clsNodup _ hm
    simp only [List.map_cons, List.nodup_cons, List.mem_cons, Lit.neg_var, not_or] at this
    exact this.1.1
  unfold clausePropagate
  rw [clauseOf_of_mem h hm]
  have hb : (a.var == p.var) = false := by simpa using hne
  simp only [hb, Bool.false_eq_true, if_false, setClause_self h hm, List.headD_cons]
  rfl

theorem clausePropagate_swap {s : Sat} (h : s.WfC) {id : Nat} {p l1 : Lit} {r : List Lit}
    (hm : (id, p.neg :: l1 :: r) ∈ s.cls) :
    s.clausePropagate id p = (s.setClause id (l1 :: p.neg :: r)).clausePropagate id p := by
  have h1 : (s.setClause id (l1 :: p.neg :: r)).WfC := h.setClause hm (List.Perm.swap _ _ _)
  have hm1 : (id, l1 :: p.neg :: r) ∈ (s.setClause id (l1 :: p.neg :: r)).cls :=
    (mem_setClause h hm).2 (Or.inr rfl)
  have hne : l1.var ≠ p.var := by
    have := h.clsNodup _ hm
    simp only [List.map_cons, List.nodup_cons, List.mem_cons, Lit.neg_var, not_or] at this
    exact fun e => this.1.1 e.symm
  have hb : (l1.var == p.var) = false := by simpa using hne
  conv => rhs; unfold clausePropagate
  rw [clauseOf_of_mem h1 hm1]
  simp only [hb, Bool.false_eq_true, if_false, setClause_self h1 hm1]
  unfold clausePropagate
  rw [clauseOf_of_mem h hm]
  simp only [Lit.neg_var, beq_self_eq_true, if_true]

/-! ### findNonFalse, swap1 -/

theorem findNonFalse_some {s : Sat} {c : Clause} {k j : Nat} (h : findNonFalse s c k = some j) :
    k ≤ j ∧ j < c.length ∧ s.value (c.getD j Lit.falseLit) ≠ some false := by
  unfold findNonFalse at h
  have h1 := List.find?_some h
  have h2 := List.mem_of_find?_eq_some h
  have h3 := List.mem_range.1 ((List.drop_sublist _ _).subset h2)
  refine ⟨?_, h3, by simpa using h1⟩
  obtain ⟨i, hi, e⟩ := List.getElem_of_mem h2
  simp only [List.getElem_drop, List.getElem_range] at e
  omega

theorem findNonFalse_none {s : Sat} {c : Clause} {k : Nat} (h : findNonFalse s c k = none) :
    ∀ j, k ≤ j → j < c.length → s.value (c.getD j Lit.falseLit) = some false := by
  unfold findNonFalse at h
  intro j hk hj
  have := List.find?_eq_none.1 h j (by
    rw [List.mem_iff_getElem]
    exact ⟨j - k, by simp; omega, by simp; omega⟩)
  simpa using this

theorem perm_set_swap {x y : Lit} : ∀ (r : List Lit) (k : Nat), r[k]? = some x → (x :: r.set k y).Perm (y :: r)
  | [], k, h => by simp at h
  | z :: r, 0, h => by
    simp only [List.getElem?_cons_zero, Option.some.injEq] at h; subst h
    simp only [List.set_cons_zero]
    exact List.Perm.swap _ _ _
  | z :: r, k + 1, h => by
    simp only [List.getElem?_cons_succ] at h
    simp only [List.set_cons_succ]
    have := perm_set_swap (x := x) (y := y) r k h
    exact (List.Perm.swap _ _ _).trans ((this.cons z).trans (List.Perm.swap _ _ _))

theorem swap1_spec {a np : Lit} {r : List Lit} {k : Nat} (hk : 2 ≤ k) (hlt : k < (a :: np :: r).length) :
    ∃ x r', swap1 (a :: np :: r) k = a :: x :: r' ∧ x = (a :: np :: r).getD k Lit.falseLit ∧ x ∈ r ∧
      (x :: r').Perm (np :: r) ∧ (∀ y ∈ r', y = np ∨ y ∈ r) := by
  obtain ⟨k', rfl⟩ : ∃ k', k = k' + 2 := ⟨k - 2, by omega⟩
  simp only [List.length_cons] at hlt
  have hk' : k' < r.length := by omega
  refine ⟨r[k'], r.set k' np, ?_, ?_, List.getElem_mem _, perm_set_swap r k' (by simp [hk']), ?_⟩
  · simp [swap1, hk']
  · simp [List.getD_eq_getElem?_getD, hk']
  · intro y hy
    rcases List.mem_or_eq_of_mem_set hy with h | h
    · exact Or.inr h
    · exact Or.inl h

end Sat
end Oratio
