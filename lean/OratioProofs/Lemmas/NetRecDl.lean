/-
C07N: what the difference-logic theories do to the SAT core.  `propagate(lit)` changes it only by
`record`ing well-shaped clauses (`Sat.GoodRec`): the scan records a lemma only for an UNDECIDED
constraint, whose literal is the head; the other literals are those of the explanation walk, all
false, and there is at least one because `src ≠ dst` (the first predecessor edge is justified by an
assigned constraint).  A conflict clause ends with `¬p`.
`edge_recs` / `propagate_recs` follow `edge_recorded` / `propagate_pathinv` of Lemmas/DlPathMain.lean.
-/
import OratioProofs.Lemmas.NetRecLra
import OratioProofs.Lemmas.DlPathMain
import OratioProofs.Lemmas.DlPathRMain

set_option linter.unusedSimpArgs false
set_option linter.unusedVariables false

namespace Oratio
namespace Dl
open Sat

theorem value_flip {s : Sat} {bb : Nat} {v : Bool} (h : s.value ⟨bb, true⟩ = some v) : s.value ⟨bb, !v⟩ = some false := by
  cases v
  · exact h
  · exact value_neg h

/-- the explanation walk between two distinct time points with a finite distance is non-empty, and all
    its literals are false -/
theorem walk_ne {s : Sat} {t : Dl Int} (hP : PathInv s t) (hdiag : ∀ i, i < t.nVars → d idlOps t i i = 0)
    {i j : Nat} (hi : i < t.nVars) (hj : j < t.nVars) (hij : i ≠ j) (hfin : d idlOps t i j ≠ idlInf) (acc : List Lit) :
    ∃ x L, walk s t i t.nVars j acc = acc ++ x :: L ∧ ∀ l ∈ x :: L, s.value l = some false := by
  obtain ⟨n, hn, hch⟩ := hP.chain i j hi hj hfin
  cases hch with
  | root => exact absurd rfl hij
  | @step n' _ hne hch' =>
    obtain ⟨t1, t2, t3, bb, w0, t4, t5⟩ := hP.tree i j hi hj hij hfin
    obtain ⟨hl, c, hc, hr⟩ := t4
    obtain ⟨v, hv⟩ : ∃ v, s.value ⟨bb, true⟩ = some v := by
      rcases hr with ⟨v1, _⟩ | ⟨v1, _⟩
      · exact ⟨_, v1⟩
      · exact ⟨_, v1⟩
    obtain ⟨k, hk⟩ : ∃ k, t.nVars = k + 1 := ⟨t.nVars - 1, by omega⟩
    rw [hk, walk_step s t k acc hne hl hv]
    obtain ⟨L, e, fl, _⟩ := walk_spec hP hdiag hi hch' t1 t3 k (by omega) (acc ++ [⟨bb, !v⟩])
    refine ⟨⟨bb, !v⟩, L, by rw [e]; simp, ?_⟩
    intro l hlm
    rcases List.mem_cons.1 hlm with rfl | hlm
    · exact value_flip hv
    · exact fl l hlm

theorem scanStep_recs {K : Int} {t : Dl Int} (hK : K < idlInf)
    (hdiag : ∀ i, i < t.nVars → d idlOps t i i = 0) (hok : ConstrsOk K t) {N : Nat} (hreg : ∀ c ∈ t.varDists, c.b < N)
    (s0 s : Sat) (b : Nat) (h : PathInv s t ∧ RecsTo s0 s ∧ s.vals.length = N) :
    PathInv (scanStep t s b) t ∧ RecsTo s0 (scanStep t s b) ∧ (scanStep t s b).vals.length = N := by
  obtain ⟨hP, hG, hN⟩ := h
  refine ⟨hP.mono (scanStep_le t s b) rfl rfl rfl rfl (fun _ _ h => h), ?_⟩
  unfold scanStep
  split
  · exact ⟨hG, hN⟩
  · rename_i c hc
    obtain ⟨hmem, hcb⟩ := constrOf_spec hc
    obtain ⟨o1, o2, o3, o4, o5⟩ := hok c hmem
    have e1 : (idlOps.lt (d idlOps t c.dst c.src) (idlOps.neg c.dist) = true) = (d idlOps t c.dst c.src < -c.dist) := by
      simp [idlOps]
    have e2 : (idlOps.le (d idlOps t c.src c.dst) c.dist = true) = (d idlOps t c.src c.dst ≤ c.dist) := by
      simp [idlOps]
    simp only [e1, e2]
    have hlt : c.b < s.vals.length := by rw [hN]; exact hreg c hmem
    split
    · exact ⟨hG, hN⟩
    · rename_i hnv
      have hnone : s.value ⟨c.b, true⟩ = none := by
        cases hv : s.value ⟨c.b, true⟩ with
        | none => rfl
        | some v => exact absurd (by rw [hv]; simp) hnv
      split
      · rename_i hlt'
        obtain ⟨x, L, e, fl⟩ := walk_ne hP hdiag o2 o1 (Ne.symm o3) (by omega) [⟨c.b, false⟩]
        rw [e]
        exact ⟨hG.trans (RecsTo.rec1 ⟨⟨c.b, false⟩, x :: L, rfl, Sat.value_neg_none hnone, hlt, fl, by simp⟩),
          by rw [record_lenVals]; exact hN⟩
      · split
        · rename_i hle
          obtain ⟨x, L, e, fl⟩ := walk_ne hP hdiag o1 o2 o3 (by omega) [⟨c.b, true⟩]
          rw [e]
          exact ⟨hG.trans (RecsTo.rec1 ⟨⟨c.b, true⟩, x :: L, rfl, hnone, hlt, fl, by simp⟩),
            by rw [record_lenVals]; exact hN⟩
        · exact ⟨hG, hN⟩

theorem scan_recs {K : Int} {t : Dl Int} (hK : K < idlInf)
    (hdiag : ∀ i, i < t.nVars → d idlOps t i i = 0) (hok : ConstrsOk K t) {s0 : Sat}
    (hreg : ∀ c ∈ t.varDists, c.b < s0.vals.length) (s0' : Sat) (he : s0' = s0) (hP : PathInv s0 t) (ups : List (Nat × Nat)) :
    PathInv (scanUpdates idlOps s0 t ups) t ∧ RecsTo s0 (scanUpdates idlOps s0 t ups) ∧
      (scanUpdates idlOps s0 t ups).vals.length = s0.vals.length :=
  scan_inv t (fun s => PathInv s t ∧ RecsTo s0 s ∧ s.vals.length = s0.vals.length)
    (fun s b h => scanStep_recs hK hdiag hok hreg s0 s b h) ups s0 ⟨hP, RecsTo.refl s0, rfl⟩

section Edge
variable {K : Int} {E : List REdge} {s : Sat} {t : Dl Int} (h : ExactM K E t) (hP : PathInv s t)
  {f g : Nat} {w : Int} {cb : Nat} (hf : f < t.nVars) (hg : g < t.nVars) (hfg : f ≠ g) (hw : -K ≤ w ∧ w ≤ K)
  (hnocycle : ∀ x, distOpt t g f = some x → 0 ≤ x + w)
  (himproves : ∀ x, distOpt t f g = some x → w < x)
  (hj : ∃ c, constrOf t cb = some c ∧
      ((s.value ⟨cb, true⟩ = some true ∧ c.src = f ∧ c.dst = g ∧ w = c.dist) ∨
       (s.value ⟨cb, true⟩ = some false ∧ c.dst = f ∧ c.src = g ∧ w = -c.dist - 1)))
include h hP hf hg hfg hw hnocycle himproves hj

theorem edge_recs (hok : ConstrsOk K t) (hreg : ∀ c ∈ t.varDists, c.b < s.vals.length) :
    Sat.RecsTo s (propagateEdge idlOps s (armed t (f, g) cb) f g w).1 := by
  have h0 := edge_pathinv0 h hP hf hg hfg hw hnocycle himproves hj
  obtain ⟨a1, a2, a3⟩ := armed_same t (f, g) cb
  obtain ⟨a4, a5⟩ := armed_tables t (f, g) cb
  have h' := h.congr_state a1 a2 a3
  have hdd : ∀ i j, d idlOps (armed t (f, g) cb) i j = d idlOps t i j := fun i j => d_congr a2 i j
  have r := update_closed_form K E s _ h' f g w (by rw [a1]; exact hf) (by rw [a1]; exact hg) hfg hw
    (by
      intro x hx
      apply hnocycle x
      obtain ⟨e1, e2⟩ := distOpt_some.mp hx
      exact distOpt_some.mpr ⟨by rw [← hdd]; exact e1, e2⟩)
    (by
      intro x hx
      apply himproves x
      obtain ⟨e1, e2⟩ := distOpt_some.mp hx
      exact distOpt_some.mpr ⟨by rw [← hdd]; exact e1, e2⟩)
  obtain ⟨fr1, fr2⟩ := propagateEdge_frame s (armed t (f, g) cb) f g w
  have hok' : ConstrsOk K (propagateEdge idlOps s (armed t (f, g) cb) f g w).2 := by
    intro c hc
    rw [fr2, a5] at hc
    have hn : (propagateEdge idlOps s (armed t (f, g) cb) f g w).2.nVars = t.nVars := by rw [r.2.1, a1]
    rw [hn]
    exact hok c hc
  obtain ⟨ups, hups⟩ := propagateEdge_fst s (armed t (f, g) cb) f g w
  rw [hups]
  have hreg' : ∀ c ∈ (propagateEdge idlOps s (armed t (f, g) cb) f g w).2.varDists, c.b < s.vals.length := by
    intro c hc; rw [fr2, a5] at hc; exact hreg c hc
  exact (scan_recs (range_K r.1) (exact_diag r.1) hok' hreg' s rfl h0 ups).2.1
end Edge

theorem propagate_recs (K : Int) (E : List REdge) (s s' : Sat) (t t' : Dl Int) (h : ExactM K E t) (hP : PathInv s t)
    (c : DConstr Int) (hc : t.constrOf c.b = some c) (b : Bool) (hv : s.value ⟨c.b, true⟩ = some b)
    (hr : c.src < t.nVars ∧ c.dst < t.nVars ∧ c.src ≠ c.dst ∧ -K ≤ c.dist ∧ c.dist + 1 ≤ K)
    (hp : propagateLit idlOps s t ⟨c.b, b⟩ = .inr (s', t')) :
    ConstrsOk K t → (∀ c ∈ t.varDists, c.b < s.vals.length) → Sat.RecsTo s s' := by
  obtain ⟨h1, h2, h3, h4, h5⟩ := hr
  have hI := h.range; rw [mulK] at hI
  have hnK := h.nK_nonneg
  have hw0 := h.weak
  have hnone : Sat.RecsTo s s := Sat.RecsTo.refl s
  cases b with
  | true =>
    rw [propagateLit_true s t c hc hv] at hp
    by_cases hlt : d idlOps t c.dst c.src < -c.dist
    · rw [if_pos hlt] at hp; cases hp
    · rw [if_neg hlt] at hp
      by_cases himp : c.dist < d idlOps t c.src c.dst
      · rw [if_pos himp] at hp
        have hpe : propagateEdge idlOps s (armed t (c.src, c.dst) c.b) c.src c.dst c.dist = (s', t') := Sum.inr.inj hp
        have hw : -K ≤ c.dist ∧ c.dist ≤ K := ⟨h4, by omega⟩
        have hnc : ∀ x, distOpt t c.dst c.src = some x → 0 ≤ x + c.dist := by
          intro x hx
          obtain ⟨e1, e2⟩ := distOpt_some.mp hx
          omega
        have him : ∀ x, distOpt t c.src c.dst = some x → c.dist < x := by
          intro x hx
          obtain ⟨e1, e2⟩ := distOpt_some.mp hx
          omega
        have hj : ∃ c', constrOf t c.b = some c' ∧
            ((s.value ⟨c.b, true⟩ = some true ∧ c'.src = c.src ∧ c'.dst = c.dst ∧ c.dist = c'.dist) ∨
             (s.value ⟨c.b, true⟩ = some false ∧ c'.dst = c.src ∧ c'.src = c.dst ∧ c.dist = -c'.dist - 1)) :=
          ⟨c, hc, Or.inl ⟨hv, rfl, rfl, rfl⟩⟩
        have r1 := edge_pathinv h hP h1 h2 h3 hw hnc him hj
        have r2 := fun hok hreg => edge_recs h hP h1 h2 h3 hw hnc him hj hok hreg
        rw [hpe] at r1 r2
        exact r2
      · rw [if_neg himp] at hp
        cases hp
        exact fun _ _ => hnone
  | false =>
    rw [propagateLit_false s t c hc hv] at hp
    by_cases hle : d idlOps t c.src c.dst ≤ c.dist
    · rw [if_pos hle] at hp; cases hp
    · rw [if_neg hle] at hp
      by_cases himp : -c.dist ≤ d idlOps t c.dst c.src
      · rw [if_pos himp] at hp
        have hpe : propagateEdge idlOps s (armed t (c.dst, c.src) c.b) c.dst c.src (-c.dist - 1) = (s', t') := Sum.inr.inj hp
        have hw : -K ≤ -c.dist - 1 ∧ -c.dist - 1 ≤ K := ⟨by omega, by omega⟩
        have hnc : ∀ x, distOpt t c.src c.dst = some x → 0 ≤ x + (-c.dist - 1) := by
          intro x hx
          obtain ⟨e1, e2⟩ := distOpt_some.mp hx
          omega
        have him : ∀ x, distOpt t c.dst c.src = some x → -c.dist - 1 < x := by
          intro x hx
          obtain ⟨e1, e2⟩ := distOpt_some.mp hx
          omega
        have hj : ∃ c', constrOf t c.b = some c' ∧
            ((s.value ⟨c.b, true⟩ = some true ∧ c'.src = c.dst ∧ c'.dst = c.src ∧ -c.dist - 1 = c'.dist) ∨
             (s.value ⟨c.b, true⟩ = some false ∧ c'.dst = c.dst ∧ c'.src = c.src ∧ -c.dist - 1 = -c'.dist - 1)) :=
          ⟨c, hc, Or.inr ⟨hv, rfl, rfl, rfl⟩⟩
        have r1 := edge_pathinv h hP h2 h1 (Ne.symm h3) hw hnc him hj
        have r2 := fun hok hreg => edge_recs h hP h2 h1 (Ne.symm h3) hw hnc him hj hok hreg
        rw [hpe] at r1 r2
        exact r2
      · rw [if_neg himp] at hp
        cases hp
        exact fun _ _ => hnone


end Dl
end Oratio

namespace Oratio
namespace DlR
open Sat Dl

theorem walk_neR {s : Sat} {t : Dl IR} (hP : PathInvR s t) (hdiag : ∀ i, i < t.nVars → dn t i i = 0)
    {i j : Nat} (hi : i < t.nVars) (hj : j < t.nVars) (hij : i ≠ j) (hfin : dn t i j ≠ ⊤) (acc : List Lit) :
    ∃ x L, walk s t i t.nVars j acc = acc ++ x :: L ∧ ∀ l ∈ x :: L, s.value l = some false := by
  obtain ⟨n, hn, hch⟩ := hP.chain i j hi hj hfin
  cases hch with
  | root => exact absurd rfl hij
  | @step n' _ hne hch' =>
    obtain ⟨t1, t2, t3, bb, w0, t4, t5⟩ := hP.tree i j hi hj hij hfin
    obtain ⟨hl, c, hc, hr⟩ := t4
    obtain ⟨v, hv⟩ : ∃ v, s.value ⟨bb, true⟩ = some v := by
      rcases hr with ⟨v1, _⟩ | ⟨v1, _⟩
      · exact ⟨_, v1⟩
      · exact ⟨_, v1⟩
    obtain ⟨k, hk⟩ : ∃ k, t.nVars = k + 1 := ⟨t.nVars - 1, by omega⟩
    rw [hk, walkR_step s t k acc hne hl hv]
    obtain ⟨L, e, fl, _⟩ := walk_specR hP hdiag hi hch' t1 t3 k (by omega) (acc ++ [⟨bb, !v⟩])
    refine ⟨⟨bb, !v⟩, L, by rw [e]; simp, ?_⟩
    intro l hlm
    rcases List.mem_cons.1 hlm with rfl | hlm
    · exact Dl.value_flip hv
    · exact fl l hlm

theorem scanStepR_recs {t : Dl IR} (hwf : ∀ i j, i < t.nVars → j < t.nVars → IR.Good (d rdlOps t i j))
    (hdiag : ∀ i, i < t.nVars → dn t i i = 0) (hok : ConstrsOkR t) {N : Nat} (hreg : ∀ c ∈ t.varDists, c.b < N)
    (s0 s : Sat) (b : Nat) (h : PathInvR s t ∧ RecsTo s0 s ∧ s.vals.length = N) :
    PathInvR (scanStepR t s b) t ∧ RecsTo s0 (scanStepR t s b) ∧ (scanStepR t s b).vals.length = N := by
  obtain ⟨hP, hG, hN⟩ := h
  refine ⟨hP.mono (scanStepR_le t s b) rfl rfl rfl rfl (fun _ _ h => h), ?_⟩
  unfold scanStepR
  split
  · exact ⟨hG, hN⟩
  · rename_i c hc
    obtain ⟨hmem, hcb⟩ := constrOfR_spec hc
    obtain ⟨o1, o2, o3, o4⟩ := hok c hmem
    have hlt : c.b < s.vals.length := by rw [hN]; exact hreg c hmem
    split
    · exact ⟨hG, hN⟩
    · rename_i hnv
      have hnone : s.value ⟨c.b, true⟩ = none := by
        cases hv : s.value ⟨c.b, true⟩ with
        | none => rfl
        | some v => exact absurd (by rw [hv]; simp) hnv
      split
      · rename_i hlt'
        have hlt'' : dn t c.dst c.src + ((IR.val c.dist : QV) : WithTop QV) < 0 := (lt_neg_iff (hwf _ _ o2 o1) o4).mp hlt'
        have hfin : dn t c.dst c.src ≠ ⊤ := (WithTop.add_ne_top.mp (ne_top_of_lt hlt'')).1
        obtain ⟨x, L, e, fl⟩ := walk_neR hP hdiag o2 o1 (Ne.symm o3) hfin [⟨c.b, false⟩]
        rw [e]
        exact ⟨hG.trans (RecsTo.rec1 ⟨⟨c.b, false⟩, x :: L, rfl, Sat.value_neg_none hnone, hlt, fl, by simp⟩),
          by rw [record_lenVals]; exact hN⟩
      · split
        · rename_i hle
          have hle' : dn t c.src c.dst ≤ ((IR.val c.dist : QV) : WithTop QV) := (le_w_iff (hwf _ _ o1 o2) o4).mp hle
          have hfin : dn t c.src c.dst ≠ ⊤ := ne_top_of_le_ne_top WithTop.coe_ne_top hle'
          obtain ⟨x, L, e, fl⟩ := walk_neR hP hdiag o1 o2 o3 hfin [⟨c.b, true⟩]
          rw [e]
          exact ⟨hG.trans (RecsTo.rec1 ⟨⟨c.b, true⟩, x :: L, rfl, hnone, hlt, fl, by simp⟩),
            by rw [record_lenVals]; exact hN⟩
        · exact ⟨hG, hN⟩

theorem scanR_recs {t : Dl IR} (hwf : ∀ i j, i < t.nVars → j < t.nVars → IR.Good (d rdlOps t i j))
    (hdiag : ∀ i, i < t.nVars → dn t i i = 0) (hok : ConstrsOkR t) {s0 : Sat}
    (hreg : ∀ c ∈ t.varDists, c.b < s0.vals.length) (hP : PathInvR s0 t) (ups : List (Nat × Nat)) :
    PathInvR (scanUpdates rdlOps s0 t ups) t ∧ RecsTo s0 (scanUpdates rdlOps s0 t ups) ∧
      (scanUpdates rdlOps s0 t ups).vals.length = s0.vals.length :=
  scanR_inv t (fun s => PathInvR s t ∧ RecsTo s0 s ∧ s.vals.length = s0.vals.length)
    (fun s b h => scanStepR_recs hwf hdiag hok hreg s0 s b h) ups s0 ⟨hP, RecsTo.refl s0, rfl⟩

section Edge
variable {E : List QEdge} {s : Sat} {t : Dl IR} (h : ExactM E t) (hP : PathInvR s t)
  {f g : Nat} {w : IR} {cb : Nat} (hf : f < t.nVars) (hg : g < t.nVars) (hfg : f ≠ g) (hw : IR.Fin w)
  (hnocycle : ∀ x, distOpt t g f = some x → 0 ≤ x + IR.val w)
  (himproves : ∀ x, distOpt t f g = some x → IR.val w < x)
  (hj : ∃ c, constrOf t cb = some c ∧
      ((s.value ⟨cb, true⟩ = some true ∧ c.src = f ∧ c.dst = g ∧ IR.val w = IR.val c.dist) ∨
       (s.value ⟨cb, true⟩ = some false ∧ c.dst = f ∧ c.src = g ∧ IR.val w = -IR.val c.dist - QV.eps)))
include h hP hf hg hfg hw hnocycle himproves hj

theorem edge_recsR (hok : ConstrsOkR t) (hreg : ∀ c ∈ t.varDists, c.b < s.vals.length) :
    Sat.RecsTo s (propagateEdge rdlOps s (armed t (f, g) cb) f g w).1 := by
  have h0 := edge_pathinvR0 h hP hf hg hfg hw hnocycle himproves hj
  obtain ⟨a1, a2, a3⟩ := armed_same t (f, g) cb
  obtain ⟨a4, a5⟩ := armedR_tables t (f, g) cb
  have h' := h.congr_state a1 a2 a3
  have hdd : ∀ i j, dn (armed t (f, g) cb) i j = dn t i j := fun i j => dn_congr a2 i j
  have r := update_closed_form E s _ h' f g w (by rw [a1]; exact hf) (by rw [a1]; exact hg) hfg hw
    (by
      intro x hx
      apply hnocycle x
      have e1 := distOpt_some.mp hx
      exact distOpt_some.mpr (by rw [← hdd]; exact e1))
    (by
      intro x hx
      apply himproves x
      have e1 := distOpt_some.mp hx
      exact distOpt_some.mpr (by rw [← hdd]; exact e1))
  obtain ⟨fr1, fr2⟩ := propagateEdge_frameR s (armed t (f, g) cb) f g w
  have hok' : ConstrsOkR (propagateEdge rdlOps s (armed t (f, g) cb) f g w).2 := by
    intro c hc
    rw [fr2, a5] at hc
    have hn : (propagateEdge rdlOps s (armed t (f, g) cb) f g w).2.nVars = t.nVars := by rw [r.2.1, a1]
    rw [hn]
    exact hok c hc
  obtain ⟨ups, hups⟩ := propagateEdgeR_fst s (armed t (f, g) cb) f g w
  rw [hups]
  have hreg' : ∀ c ∈ (propagateEdge rdlOps s (armed t (f, g) cb) f g w).2.varDists, c.b < s.vals.length := by
    intro c hc; rw [fr2, a5] at hc; exact hreg c hc
  exact (scanR_recs r.1.wf (exactR_diag r.1) hok' hreg' h0 ups).2.1
end Edge

theorem propagate_recsR (E : List QEdge) (s s' : Sat) (t t' : Dl IR) (h : ExactM E t) (hP : PathInvR s t)
    (c : DConstr IR) (hc : t.constrOf c.b = some c) (b : Bool) (hv : s.value ⟨c.b, true⟩ = some b)
    (hr : c.src < t.nVars ∧ c.dst < t.nVars ∧ c.src ≠ c.dst ∧ IR.Fin c.dist)
    (hint : b = false → c.dist.inf.den = 1 ∧ (d rdlOps t c.src c.dst).inf.den = 1)
    (hp : propagateLit rdlOps s t ⟨c.b, b⟩ = .inr (s', t')) :
    ConstrsOkR t → (∀ c ∈ t.varDists, c.b < s.vals.length) → Sat.RecsTo s s' := by
  obtain ⟨h1, h2, h3, h4⟩ := hr
  have hnone : Sat.RecsTo s s := Sat.RecsTo.refl s
  cases b with
  | true =>
    rw [propagateLit_true s t c hc hv] at hp
    by_cases hlt : rdlOps.lt (d rdlOps t c.dst c.src) (rdlOps.neg c.dist) = true
    · rw [if_pos hlt] at hp; cases hp
    · rw [if_neg hlt] at hp
      have hcyc : 0 ≤ dn t c.dst c.src + ((IR.val c.dist : QV) : WithTop QV) :=
        not_lt.mp (fun hh => hlt ((lt_neg_iff (h.wf _ _ h2 h1) h4).mpr hh))
      by_cases himp : rdlOps.lt c.dist (d rdlOps t c.src c.dst) = true
      · rw [if_pos himp] at hp
        have himp' : ((IR.val c.dist : QV) : WithTop QV) < dn t c.src c.dst := (lt_w_iff (h.wf _ _ h1 h2) h4).mp himp
        have hpe : propagateEdge rdlOps s (armed t (c.src, c.dst) c.b) c.src c.dst c.dist = (s', t') := Sum.inr.inj hp
        have hnc : ∀ x, distOpt t c.dst c.src = some x → 0 ≤ x + IR.val c.dist := by
          intro x hx
          have e1 := distOpt_some.mp hx
          rw [e1, ← WithTop.coe_add] at hcyc
          exact_mod_cast hcyc
        have him : ∀ x, distOpt t c.src c.dst = some x → IR.val c.dist < x := by
          intro x hx
          have e1 := distOpt_some.mp hx
          rw [e1] at himp'
          exact_mod_cast himp'
        have hj : ∃ c', constrOf t c.b = some c' ∧
            ((s.value ⟨c.b, true⟩ = some true ∧ c'.src = c.src ∧ c'.dst = c.dst ∧ IR.val c.dist = IR.val c'.dist) ∨
             (s.value ⟨c.b, true⟩ = some false ∧ c'.dst = c.src ∧ c'.src = c.dst ∧ IR.val c.dist = -IR.val c'.dist - QV.eps)) :=
          ⟨c, hc, Or.inl ⟨hv, rfl, rfl, rfl⟩⟩
        have r1 := edge_pathinvR h hP h1 h2 h3 h4 hnc him hj
        have r2 := fun hok hreg => edge_recsR h hP h1 h2 h3 h4 hnc him hj hok hreg
        rw [hpe] at r1 r2
        exact r2
      · rw [if_neg himp] at hp
        cases hp
        exact fun _ _ => hnone
  | false =>
    obtain ⟨i1, i2⟩ := hint rfl
    have hns := IR.fin_negStrict h4
    rw [propagateLit_false s t c hc hv] at hp
    by_cases hle : rdlOps.le (d rdlOps t c.src c.dst) c.dist = true
    · rw [if_pos hle] at hp; cases hp
    · rw [if_neg hle] at hp
      have hcyc : 0 ≤ dn t c.src c.dst + ((IR.val (rdlOps.negStrict c.dist) : QV) : WithTop QV) := by
        rw [hns.2]
        apply not_lt.mp
        intro hh
        exact hle ((le_w_iff (h.wf _ _ h1 h2) h4).mpr ((entry_step (h.wf _ _ h1 h2) h4 i2 i1).mpr hh))
      by_cases himp : rdlOps.le (rdlOps.neg c.dist) (d rdlOps t c.dst c.src) = true
      · rw [if_pos himp] at hp
        have himp' : ((-IR.val c.dist : QV) : WithTop QV) ≤ dn t c.dst c.src := (le_neg_iff (h.wf _ _ h2 h1) h4).mp himp
        have hpe : propagateEdge rdlOps s (armed t (c.dst, c.src) c.b) c.dst c.src (rdlOps.negStrict c.dist) = (s', t') :=
          Sum.inr.inj hp
        have hnc : ∀ x, distOpt t c.src c.dst = some x → 0 ≤ x + IR.val (rdlOps.negStrict c.dist) := by
          intro x hx
          have e1 := distOpt_some.mp hx
          rw [e1, ← WithTop.coe_add] at hcyc
          exact_mod_cast hcyc
        have him : ∀ x, distOpt t c.dst c.src = some x → IR.val (rdlOps.negStrict c.dist) < x := by
          intro x hx
          have e1 := distOpt_some.mp hx
          rw [e1] at himp'
          have h5 : -IR.val c.dist ≤ x := by exact_mod_cast himp'
          rw [hns.2]
          exact lt_of_lt_of_le (sub_lt_self _ QV.eps_pos) h5
        have hj : ∃ c', constrOf t c.b = some c' ∧
            ((s.value ⟨c.b, true⟩ = some true ∧ c'.src = c.dst ∧ c'.dst = c.src ∧
                IR.val (rdlOps.negStrict c.dist) = IR.val c'.dist) ∨
             (s.value ⟨c.b, true⟩ = some false ∧ c'.dst = c.dst ∧ c'.src = c.src ∧
                IR.val (rdlOps.negStrict c.dist) = -IR.val c'.dist - QV.eps)) :=
          ⟨c, hc, Or.inr ⟨hv, rfl, rfl, hns.2⟩⟩
        have r1 := edge_pathinvR h hP h2 h1 (Ne.symm h3) hns.1 hnc him hj
        have r2 := fun hok hreg => edge_recsR h hP h2 h1 (Ne.symm h3) hns.1 hnc him hj hok hreg
        rw [hpe] at r1 r2
        exact r2
      · rw [if_neg himp] at hp
        cases hp
        exact fun _ _ => hnone

/-! ### construction and growth -/


end DlR
end Oratio
