/-
Lemmas on the pulse sweep (`OratioModel/Solver/Sweep.lean`), part 1:
the order on `Time`, the pulse list, the set update `stepSet`, `pairsOf`.
-/
import OratioModel
import Mathlib.Data.Prod.Lex
import Mathlib.Tactic.Order
import Mathlib.Algebra.Order.Ring.Unbundled.Rat

namespace Oratio.Sweep

/-! ### the order on `Time` is the lexicographic order of `ℚ × ℚ` -/

/-- a time read in Mathlib's lexicographic order -/
abbrev L (t : Time) : Lex (Rat × Rat) := toLex t

theorem tlt_iff {a b : Time} : tlt a b = true ↔ L a < L b := by
  simp [tlt, L, Prod.Lex.toLex_lt_toLex]

theorem tlt_false_iff {a b : Time} : tlt a b = false ↔ L b ≤ L a := by
  rw [← not_lt, ← tlt_iff]; simp

theorem tle_iff {a b : Time} : tle a b = true ↔ L a ≤ L b := by
  simp [tle, tlt_false_iff]

theorem tle_false_iff {a b : Time} : tle a b = false ↔ L b < L a := by
  simp [tle, tlt_iff]

theorem teq_iff {a b : Time} : a = b ↔ L a = L b := by simp [L]

theorem tbeq_iff {a b : Time} : (a == b) = true ↔ L a = L b := by simp [L]

/-- turn every `tlt`/`tle`/`covers` fact into a fact of the linear order `Lex (ℚ × ℚ)` and call `order` -/
macro "torder" : tactic =>
  `(tactic| (simp only [covers, Bool.and_eq_true, Bool.not_eq_true, tlt_iff, tle_iff, tlt_false_iff,
      tle_false_iff, tbeq_iff, teq_iff, ne_eq] at * <;> order))

theorem covers_iff {a : TAtom} {t : Time} :
    covers a t = true ↔ tle a.start t = true ∧ tlt t a.stop = true := by
  simp [covers]

theorem tlt_irrefl (a : Time) : tlt a a = false := by torder
theorem tlt_trans {a b c : Time} (h1 : tlt a b = true) (h2 : tlt b c = true) : tlt a c = true := by torder
theorem tlt_trichotomy (a b : Time) : tlt a b = true ∨ a = b ∨ tlt b a = true := by
  rcases lt_trichotomy (L a) (L b) with h | h | h
  · exact Or.inl (tlt_iff.2 h)
  · exact Or.inr (Or.inl (teq_iff.2 h))
  · exact Or.inr (Or.inr (tlt_iff.2 h))

/-! ### `tadd` -/

theorem tadd_right_comm (u a b : Time) : tadd (tadd u a) b = tadd (tadd u b) a := by
  simp only [tadd, Prod.mk.injEq]
  exact ⟨by rw [Rat.add_assoc, Rat.add_comm a.1, ← Rat.add_assoc],
         by rw [Rat.add_assoc, Rat.add_comm a.2, ← Rat.add_assoc]⟩

/-! ### the pulse list -/

/-- strictly sorted -/
abbrev Sorted (l : List Time) : Prop := l.Pairwise (fun a b => tlt a b = true)

theorem mem_insertPulse {p x : Time} {l : List Time} : x ∈ insertPulse p l ↔ x = p ∨ x ∈ l := by
  induction l with
  | nil => simp [insertPulse]
  | cons q r ih =>
    unfold insertPulse
    split
    · simp
    · split
      · rename_i h
        have : p = q := by simpa using h
        subst this; simp
      · simp only [List.mem_cons, ih]; tauto

theorem sorted_insertPulse {p : Time} {l : List Time} (h : Sorted l) : Sorted (insertPulse p l) := by
  induction l with
  | nil => simp [insertPulse, Sorted]
  | cons q r ih =>
    have h' := List.pairwise_cons.1 h
    unfold insertPulse
    split
    · rename_i hpq
      refine List.Pairwise.cons ?_ h
      intro x hx
      rcases List.mem_cons.1 hx with rfl | hx
      · exact hpq
      · have := h'.1 x hx; torder
    · split
      · exact h
      · rename_i h1 h2
        refine List.Pairwise.cons ?_ (ih h'.2)
        intro x hx
        rcases mem_insertPulse.1 hx with rfl | hx
        · torder
        · exact h'.1 x hx

theorem mem_foldl_insert (extra : List Time) : ∀ (ps : List Time) (x : Time),
    x ∈ extra.foldl (fun ps p => insertPulse p ps) ps ↔ x ∈ ps ∨ x ∈ extra := by
  induction extra with
  | nil => simp
  | cons e r ih => intro ps x; simp only [List.foldl_cons, ih, mem_insertPulse, List.mem_cons]; tauto

theorem sorted_foldl_insert (extra : List Time) : ∀ (ps : List Time), Sorted ps →
    Sorted (extra.foldl (fun ps p => insertPulse p ps) ps) := by
  induction extra with
  | nil => simp
  | cons e r ih => intro ps h; exact ih _ (sorted_insertPulse h)

theorem mem_foldl_atoms (as : List TAtom) : ∀ (ps : List Time) (x : Time),
    x ∈ as.foldl (fun ps a => insertPulse a.stop (insertPulse a.start ps)) ps ↔
      x ∈ ps ∨ ∃ a ∈ as, x = a.start ∨ x = a.stop := by
  induction as with
  | nil => simp
  | cons a r ih =>
    intro ps x
    simp only [List.foldl_cons, ih, mem_insertPulse, List.mem_cons, exists_eq_or_imp]
    constructor
    · rintro ((h | h | h) | h)
      · exact Or.inr (Or.inl (Or.inr h))
      · exact Or.inr (Or.inl (Or.inl h))
      · exact Or.inl h
      · exact Or.inr (Or.inr h)
    · rintro (h | (h | h) | h)
      · exact Or.inl (Or.inr (Or.inr h))
      · exact Or.inl (Or.inr (Or.inl h))
      · exact Or.inl (Or.inl h)
      · exact Or.inr h

theorem sorted_foldl_atoms (as : List TAtom) : ∀ (ps : List Time), Sorted ps →
    Sorted (as.foldl (fun ps a => insertPulse a.stop (insertPulse a.start ps)) ps) := by
  induction as with
  | nil => simp
  | cons a r ih => intro ps h; exact ih _ (sorted_insertPulse (sorted_insertPulse h))

theorem mem_pulsesOf {as : List TAtom} {extra : List Time} {p : Time} :
    p ∈ pulsesOf as extra ↔ (∃ a ∈ as, p = a.start ∨ p = a.stop) ∨ p ∈ extra := by
  simp [pulsesOf, mem_foldl_insert, mem_foldl_atoms]

theorem sorted_pulsesOf (as : List TAtom) (extra : List Time) : Sorted (pulsesOf as extra) := by
  unfold pulsesOf
  exact sorted_foldl_insert _ _ (sorted_foldl_atoms _ _ List.Pairwise.nil)

/-! ### the set update -/

theorem mem_addIds (l : List Nat) : ∀ (cur : List Nat) (i : Nat),
    i ∈ l.foldl (fun c i => if c.contains i then c else c ++ [i]) cur ↔ i ∈ cur ∨ i ∈ l := by
  induction l with
  | nil => simp
  | cons x r ih =>
    intro cur i
    simp only [List.foldl_cons, ih, List.mem_cons]
    split
    · rename_i h
      have hx : x ∈ cur := by simpa using h
      constructor
      · tauto
      · rintro (h | rfl | h) <;> tauto
    · simp only [List.mem_append, List.mem_singleton]; tauto

theorem nodup_addIds (l : List Nat) : ∀ (cur : List Nat), cur.Nodup →
    (l.foldl (fun c i => if c.contains i then c else c ++ [i]) cur).Nodup := by
  induction l with
  | nil => simp
  | cons x r ih =>
    intro cur h
    simp only [List.foldl_cons]
    apply ih
    split
    · exact h
    · rename_i hx
      have hx : x ∉ cur := by simpa using hx
      rw [List.nodup_append]
      refine ⟨h, by simp, ?_⟩
      intro a ha b hb
      simp only [List.mem_singleton] at hb
      subst hb; rintro rfl; exact hx ha

theorem mem_stepSet {as : List TAtom} {cur : List Nat} {p : Time} {i : Nat} :
    i ∈ stepSet as cur p ↔
      (i ∈ cur ∨ ∃ a ∈ as, a.start = p ∧ a.id = i) ∧ ¬ ∃ a ∈ as, a.id = i ∧ a.stop = p := by
  unfold stepSet
  simp only [List.mem_filter, mem_addIds, List.mem_map, Bool.not_eq_true', List.any_eq_false,
    Bool.and_eq_true, beq_iff_eq, not_and, not_exists]
  constructor
  · rintro ⟨h1, h2⟩
    refine ⟨?_, fun a ha => by simpa using h2 a ha⟩
    rcases h1 with h1 | ⟨a, ⟨ha, hs⟩, hi⟩
    · exact Or.inl h1
    · exact Or.inr ⟨a, ha, hs, hi⟩
  · rintro ⟨h1, h2⟩
    refine ⟨?_, fun a ha => by simpa using h2 a ha⟩
    rcases h1 with h1 | ⟨a, ha, hs, hi⟩
    · exact Or.inl h1
    · exact Or.inr ⟨a, ⟨ha, hs⟩, hi⟩

theorem nodup_stepSet {as : List TAtom} {cur : List Nat} {p : Time} (h : cur.Nodup) :
    (stepSet as cur p).Nodup := by
  unfold stepSet
  exact (nodup_addIds _ _ h).filter _

/-! ### `pairsOf` -/

theorem pairsOf_eq_nil_of_length_le_one : ∀ (l : List Nat), ¬ l.length > 1 → pairsOf l = []
  | [], _ => rfl
  | [_], _ => rfl
  | _ :: _ :: _, h => by simp at h

theorem mem_pairsOf_of_mem {i j : Nat} : ∀ (l : List Nat), i ∈ l → j ∈ l → i ≠ j →
    (i, j) ∈ pairsOf l ∨ (j, i) ∈ pairsOf l := by
  intro l
  induction l with
  | nil => simp
  | cons x t ih =>
    intro hi hj hij
    simp only [pairsOf, List.mem_append, List.mem_map, Prod.mk.injEq]
    rcases List.mem_cons.1 hi with rfl | hi' <;> rcases List.mem_cons.1 hj with rfl | hj'
    · exact absurd rfl hij
    · exact Or.inl (Or.inl ⟨j, hj', rfl, rfl⟩)
    · exact Or.inr (Or.inl ⟨i, hi', rfl, rfl⟩)
    · rcases ih hi' hj' hij with h | h
      · exact Or.inl (Or.inr h)
      · exact Or.inr (Or.inr h)

theorem of_mem_pairsOf {i j : Nat} : ∀ (l : List Nat), l.Nodup → (i, j) ∈ pairsOf l →
    i ∈ l ∧ j ∈ l ∧ i ≠ j := by
  intro l
  induction l with
  | nil => simp [pairsOf]
  | cons x t ih =>
    intro hnd h
    have hnd' := List.nodup_cons.1 hnd
    simp only [pairsOf, List.mem_append, List.mem_map, Prod.mk.injEq] at h
    rcases h with ⟨b, hb, rfl, rfl⟩ | h
    · refine ⟨List.mem_cons_self, List.mem_cons_of_mem _ hb, ?_⟩
      rintro rfl; exact hnd'.1 hb
    · obtain ⟨h1, h2, h3⟩ := ih hnd'.2 h
      exact ⟨List.mem_cons_of_mem _ h1, List.mem_cons_of_mem _ h2, h3⟩

/-! ### overlap and covering -/

theorem overlaps_of_covers {a b : TAtom} {t : Time} (ha : covers a t = true) (hb : covers b t = true) :
    overlaps a b = true := by
  unfold overlaps
  split <;> split <;> torder

/-- two overlapping atoms both cover the later of their starts -/
theorem covers_of_overlaps {a b : TAtom} (h : overlaps a b = true) :
    ∃ t, (t = a.start ∨ t = b.start) ∧ covers a t = true ∧ covers b t = true := by
  unfold overlaps at h
  split at h <;> split at h
  · exact ⟨b.start, Or.inr rfl, covers_iff.2 ⟨by torder, by torder⟩, covers_iff.2 ⟨by torder, by torder⟩⟩
  · exact ⟨b.start, Or.inr rfl, covers_iff.2 ⟨by torder, by torder⟩, covers_iff.2 ⟨by torder, by torder⟩⟩
  · exact ⟨a.start, Or.inl rfl, covers_iff.2 ⟨by torder, by torder⟩, covers_iff.2 ⟨by torder, by torder⟩⟩
  · exact ⟨a.start, Or.inl rfl, covers_iff.2 ⟨by torder, by torder⟩, covers_iff.2 ⟨by torder, by torder⟩⟩

theorem overlaps_false_of_separate {a b : TAtom} (h : tle a.stop b.start = true ∨ tle b.stop a.start = true) :
    overlaps a b = false := by
  unfold overlaps
  rcases h with h | h <;> split <;> split <;> torder

end Oratio.Sweep
