/-
C07N (the combined network only infers what is entailed MODULO THE THEORIES): vocabulary.

`Net.TModel n α`   the boolean assignment `α` is consistent with the theories of `n`: there are
                   valuations agreeing with `α` on every registered theory atom (`v_asrts` of LRA
                   over a solution of the tableau, `var_dists` of IDL and RDL).
`Net.TEntails n F c` every `α` with `α 0 = false`, `α ⊨ F` and `TModel n α` satisfies `c`.
`Net.NetSound n orig` what the network stores / reports is T-entailed by the added clauses.
`Net.ThInv n orig fr` the invariants of the three theories (those of C09X / C10X / C10XR), together
                   with the ghost list `fr` of the states at the standing `push`es (one `Frame`
                   per decision level, newest first) which backtracking needs.
-/
import OratioModel
import OratioProofs.Lemmas.SatCore
import OratioProofs.Lemmas.UndoDl
import OratioProofs.Properties.C10Explain
import OratioProofs.Properties.C09Explain

namespace Oratio
namespace Net

/-- `α` is consistent with the theories: some ε-rational solution of the LRA tableau, some integer
    valuation of the IDL time points and some ε-rational valuation of the RDL time points agree
    with `α` on the meaning of every registered theory atom -/
def TModel (n : Net) (α : Asg) : Prop :=
  ∃ (σr σi : Nat → Rat) (σz : Nat → Int) (σq : Nat → QV),
    Lra.Solves n.lra σr σi ∧ Lra.AsrtAgrees α σr σi n.lra ∧ Dl.Agrees n.idl σz α ∧ DlR.AgreesR n.rdl σq α

/-- entailment modulo the theories of `n` -/
def TEntails (n : Net) (F : Cnf) (c : Clause) : Prop :=
  ∀ α : Asg, α 0 = false → α.cnf F = true → TModel n α → α.clause c = true

/-- unsatisfiability modulo the theories of `n` -/
def TUnsat (n : Net) (F : Cnf) : Prop := ∀ α : Asg, α 0 = false → TModel n α → α.cnf F = false

/-- what the network reports is sound modulo the theories -/
structure NetSound (n : Net) (orig : Cnf) : Prop where
  /-- every stored clause (problem, learnt, theory lemma) is T-entailed by the added clauses -/
  clauses : ∀ e ∈ n.sat.cls, TEntails n orig e.2
  /-- every clause ever recorded (learnt clauses and theory lemmas) is T-entailed -/
  log : ∀ c ∈ n.sat.log, TEntails n orig c
  /-- every assigned literal is T-entailed by the added clauses and the standing decisions -/
  trail : ∀ l ∈ n.sat.trail, TEntails n (orig ++ units n.sat.decisions) [l]
  /-- an inconsistency reported at root level: no T-consistent assignment satisfies the added clauses -/
  dead : n.sat.dead = true → TUnsat n orig

/-! ### the invariants of the theories -/

/-- ghost: the SAT core and the theories at a `push` -/
structure Frame where
  sat : Sat
  lra : Lra
  idl : Dl Int
  rdl : Dl IR

/-- every bound of the LRA theory holds of every solution of the tableau that agrees, on the
    assertion literals, with an assignment satisfying the added clauses and making the reason of
    the bound true.  (Relative to `orig`: a slack variable created at root level gets the bounds
    `lb(lin)`, `ub(lin)` with reason TRUE, computed from bounds whose reasons are root-level
    literals - facts that hold in the models of `orig` only.) -/
def LraJ (orig : Cnf) (t : Lra) : Prop :=
  ∀ (α : Asg) (σr σi : Nat → Rat), α 0 = false → α.cnf orig = true →
    Lra.Solves t σr σi → Lra.AsrtAgrees α σr σi t → Lra.BoundsJust α σr σi t

/-- the LRA invariants of C09X, `LraJ`, and "the reason of every bound is true in the SAT core" -/
structure LraBase (orig : Cnf) (s : Sat) (t : Lra) : Prop where
  inv : Lra.ExplInv t
  vals : Lra.ValsOK t
  key : Lra.AsrtKey t
  vars : Lra.AsrtVars t
  just : LraJ orig t
  reasons : Lra.ReasonsTrue s t

/-- the IDL invariants of C10 / C10X -/
structure IdlBase (s : Sat) (t : Dl Int) : Prop where
  exact : ∃ K E, t.Exact K E ∧ Dl.ConstrsOk K t
  path : Dl.PathInv s t
  sorted : Undo.SortedK t.distConstr

/-- the RDL invariants of C10R / C10XR (with the integrality of the ε parts) -/
structure RdlBase (s : Sat) (t : Dl IR) : Prop where
  exact : ∃ E, t.ExactR E
  ok : DlR.ConstrsOkR t
  path : DlR.PathInvR s t
  sorted : Undo.SortedK t.distConstr
  eps : Dl.EpsInt t
  epsC : ∀ c ∈ t.varDists, c.dist.inf.den = 1

structure ThBase (orig : Cnf) (s : Sat) (l : Lra) (i : Dl Int) (r : Dl IR) : Prop where
  lra : LraBase orig s l
  idl : IdlBase s i
  rdl : RdlBase s r

/-- the two LRA states have the same solutions and the same assertions -/
def LraSame (B l : Lra) : Prop :=
  (∀ σr σi, Lra.Solves B σr σi ↔ Lra.Solves l σr σi) ∧ l.vAsrts = B.vAsrts ∧ l.vals.length = B.vals.length

/-- the invariants hold now, and for every standing `push` the state saved then satisfied them,
    the current theories were reached from it by `push` + propagation (so that `pop` restores it:
    `C09PopInv`, `Undo.Lg`), and the SAT core still has the values it had then -/
def ThChain (orig : Cnf) : Sat → Lra → Dl Int → Dl IR → List Frame → Prop
  | s, l, i, r, [] => ThBase orig s l i r
  | s, l, i, r, f :: fs =>
    ThBase orig s l i r ∧ Lra.C09PopInv f.lra l ∧ LraSame f.lra l ∧
    Undo.Lg idlOps f.idl i ∧ Undo.Lg rdlOps f.rdl r ∧ Dl.SatLe f.sat s ∧
    ThChain orig f.sat f.lra f.idl f.rdl fs

/-- the theory invariants of the network `n`, with the ghost frames `fr` of its decision levels -/
def ThInv (n : Net) (orig : Cnf) (fr : List Frame) : Prop := ThChain orig n.sat n.lra n.idl n.rdl fr

end Net
end Oratio
