/-
Lemmas for property C13, part 2: the filtering loop (`scanJunct`, of which `scanClause` is the
instance `absorbing = true`), `newClause`, `newClauses`, and the generic "introduce a fresh
variable defined by clauses" step (`freshDef`) shared by `newEq / newConj / newDisj`, the
pairwise at-most-one and `newExctOne`.
-/
import OratioProofs.Lemmas.Enc

namespace Oratio
namespace EncL
open Enc

/-! ## the filtering loop -/

theorem scanClause_eq (s : Enc) : ∀ (rest : List Lit) (p : Option Lit) (acc : List Lit),
    scanClause s rest p acc = scanJunct s true rest p acc := by
  intro rest
  induction rest with
  | nil => intros; rfl
  | cons l rest ih => intro p acc; simp [scanClause, scanJunct, ih]

theorem bool_eq_or_eq_not (x a : Bool) : x = a ∨ x = !a := by cases x <;> cases a <;> simp

/-- `none`: some argument is the absorbing constant in every model -/
theorem scanJunct_none {s : Enc} {abs : Bool} : ∀ (rest : List Lit) (p : Option Lit) (acc : List Lit),
    (∀ q, p = some q → q ∈ acc) → scanJunct s abs rest p acc = none →
    ∀ α, Models α s → ∃ l, (l ∈ acc ∨ l ∈ rest) ∧ α.lit l = abs := by
  intro rest
  induction rest with
  | nil => intro p acc _ h; simp [scanJunct] at h
  | cons l rest ih =>
    intro p acc hp h α hα
    simp only [scanJunct] at h
    split at h
    · next hc =>
      simp only [Bool.or_eq_true, decide_eq_true_eq] at hc
      rcases hc with hc | hc
      · exact ⟨l, Or.inr (by simp), value_sound hα hc⟩
      · cases p with
        | none => simp at hc
        | some q =>
          simp only [Option.map_some, Option.some.injEq] at hc
          have hq := hp q rfl
          rcases bool_eq_or_eq_not (α.lit q) abs with h1 | h1
          · exact ⟨q, Or.inl hq, h1⟩
          · refine ⟨l, Or.inr (by simp), ?_⟩
            rw [← hc, lit_neg, h1]; simp
    · split at h
      · obtain ⟨x, hx, hx2⟩ := ih (some l) (l :: acc) (by intro q hq; cases hq; simp) h α hα
        refine ⟨x, ?_, hx2⟩
        simp only [List.mem_cons] at hx ⊢
        rcases hx with (hx | hx) | hx
        · exact Or.inr (Or.inl hx)
        · exact Or.inl hx
        · exact Or.inr (Or.inr hx)
      · obtain ⟨x, hx, hx2⟩ := ih p acc hp h α hα
        refine ⟨x, ?_, hx2⟩
        rcases hx with hx | hx
        · exact Or.inl hx
        · exact Or.inr (by simp [hx])

/-- `some ls'`: the kept literals -/
theorem scanJunct_some {s : Enc} {abs : Bool} : ∀ (rest : List Lit) (p : Option Lit) (acc : List Lit),
    (∀ q, p = some q → q ∈ acc) → ∀ ls', scanJunct s abs rest p acc = some ls' →
    (∀ l ∈ ls', l ∈ acc ∨ l ∈ rest) ∧
    (∀ l ∈ ls', l ∈ acc ∨ s.value l = none) ∧
    (∀ l ∈ acc, l ∈ ls') ∧
    (∀ α, Models α s → ∀ l ∈ rest, α.lit l = abs → ∃ l' ∈ ls', α.lit l' = abs) := by
  intro rest
  induction rest with
  | nil =>
    intro p acc _ ls' h
    simp only [scanJunct, Option.some.injEq] at h
    subst h
    exact ⟨fun l hl => Or.inl (by simpa using hl), fun l hl => Or.inl (by simpa using hl),
      fun l hl => by simpa using hl, fun _ _ l hl => by cases hl⟩
  | cons l rest ih =>
    intro p acc hp ls' h
    simp only [scanJunct] at h
    split at h
    · cases h
    · next hc1 =>
      simp only [Bool.or_eq_true, decide_eq_true_eq, not_or] at hc1
      split at h
      · next hc2 =>
        simp only [Bool.and_eq_true, ne_eq, decide_eq_true_eq] at hc2
        obtain ⟨i1, i2, i3, i4⟩ := ih (some l) (l :: acc) (by intro q hq; cases hq; simp) ls' h
        refine ⟨fun x hx => ?_, fun x hx => ?_, fun x hx => i3 x (by simp [hx]), fun α hα x hx hx2 => ?_⟩
        · have := i1 x hx
          simp only [List.mem_cons] at this ⊢
          rcases this with (h | h) | h
          · exact Or.inr (Or.inl h)
          · exact Or.inl h
          · exact Or.inr (Or.inr h)
        · have := i2 x hx
          simp only [List.mem_cons] at this
          rcases this with (h | h) | h
          · subst h
            right
            cases hv : s.value x with
            | none => rfl
            | some b =>
              exfalso
              rcases bool_eq_or_eq_not b abs with hb | hb
              · exact hc1.1 (by rw [hv, hb])
              · exact hc2.1 (by rw [hv, hb])
          · exact Or.inl h
          · exact Or.inr h
        · simp only [List.mem_cons] at hx
          rcases hx with hx | hx
          · subst hx; exact ⟨x, i3 x (by simp), hx2⟩
          · exact i4 α hα x hx hx2
      · next hc2 =>
        obtain ⟨i1, i2, i3, i4⟩ := ih p acc hp ls' h
        refine ⟨fun x hx => ?_, i2, i3, fun α hα x hx hx2 => ?_⟩
        · rcases i1 x hx with h | h
          · exact Or.inl h
          · exact Or.inr (by simp [h])
        · simp only [List.mem_cons] at hx
          rcases hx with hx | hx
          · subst hx
            simp only [Bool.and_eq_true, ne_eq, decide_eq_true_eq, not_and, Decidable.not_not] at hc2
            by_cases hv : s.value x = some (!abs)
            · have := value_sound hα hv
              rw [hx2] at this
              cases abs <;> simp at this
            · have hpx := hc2 hv
              exact ⟨x, i3 x (hp x hpx), hx2⟩
          · exact i4 α hα x hx hx2

/-- the two facts combined, from the initial call -/
theorem scanJunct_init_some {s : Enc} {abs : Bool} {ls ls' : List Lit}
    (h : scanJunct s abs ls none [] = some ls') :
    (∀ l ∈ ls', l ∈ ls) ∧ (∀ l ∈ ls', s.value l = none) ∧
    (∀ α, Models α s → ((∃ l ∈ ls', α.lit l = abs) ↔ ∃ l ∈ ls, α.lit l = abs)) := by
  obtain ⟨i1, i2, _, i4⟩ := scanJunct_some ls none [] (by simp) ls' h
  refine ⟨fun l hl => ?_, fun l hl => ?_, fun α hα => ⟨?_, ?_⟩⟩
  · simpa using i1 l hl
  · simpa using i2 l hl
  · rintro ⟨l, hl, hl2⟩; exact ⟨l, by simpa using i1 l hl, hl2⟩
  · rintro ⟨l, hl, hl2⟩; exact i4 α hα l hl hl2

theorem scanJunct_init_none {s : Enc} {abs : Bool} {ls : List Lit}
    (h : scanJunct s abs ls none [] = none) : ∀ α, Models α s → ∃ l ∈ ls, α.lit l = abs := by
  intro α hα
  obtain ⟨l, hl, hl2⟩ := scanJunct_none ls none [] (by simp) h α hα
  exact ⟨l, by simpa using hl, hl2⟩

/-! ## `newClause` -/

theorem newClause_spec {s : Enc} (hw : WF s) {c : List Lit} (hc : InRange s c) :
    WF (s.newClause c).2 ∧ (s.newClause c).2.exprs = s.exprs ∧ (s.newClause c).2.nvars = s.nvars ∧
    ((s.newClause c).1 = true → ∀ α, Models α (s.newClause c).2 ↔ (Models α s ∧ α.clause c = true)) ∧
    ((s.newClause c).1 = false → (s.newClause c).2 = s ∧ ∀ α, Models α s → α.clause c = false) := by
  unfold Enc.newClause
  rw [scanClause_eq]
  cases h : scanJunct s true (sortByVar c) none [] with
  | none =>
    refine ⟨hw, rfl, rfl, fun _ α => ⟨fun hα => ⟨hα, ?_⟩, fun hα => hα.1⟩, fun hf => by cases hf⟩
    obtain ⟨l, hl, hl2⟩ := scanJunct_init_none h α hα
    exact (clause_eq_true α c).2 ⟨l, mem_sortByVar.1 hl, hl2⟩
  | some ls' =>
    obtain ⟨j1, j2, j3⟩ := scanJunct_init_some h
    have hcl : ∀ α, Models α s → (α.clause c = true ↔ ∃ l ∈ ls', α.lit l = true) := by
      intro α hα
      rw [clause_eq_true, j3 α hα]
      constructor
      · rintro ⟨l, hl, hl2⟩; exact ⟨l, mem_sortByVar.2 hl, hl2⟩
      · rintro ⟨l, hl, hl2⟩; exact ⟨l, mem_sortByVar.1 hl, hl2⟩
    have hrange : ∀ l ∈ ls', l.var < s.nvars := fun l hl => hc l (mem_sortByVar.1 (j1 l hl))
    match ls', hcl, j2, hrange with
    | [], hcl, _, _ =>
      refine ⟨hw, rfl, rfl, (fun hf => by cases hf), fun _ => ⟨rfl, fun α hα => ?_⟩⟩
      cases hcc : α.clause c with
      | false => rfl
      | true => obtain ⟨l, hl, _⟩ := (hcl α hα).1 hcc; cases hl
    | [l], hcl, j2, hrange =>
      have hn : s.value l = none := j2 l (by simp)
      have hl : l.var < s.nvars := hrange l (by simp)
      simp only [Enc.enqueue, hn]
      refine ⟨wf_set hw hn, trivial, by simp [Enc.nvars], fun _ α => ?_, fun hf => by cases hf⟩
      rw [models_set hl hn]
      constructor
      · rintro ⟨hα, hl⟩; exact ⟨hα, (hcl α hα).2 ⟨l, by simp, hl⟩⟩
      · rintro ⟨hα, hcc⟩
        obtain ⟨l', hl', hl2⟩ := (hcl α hα).1 hcc
        simp only [List.mem_singleton] at hl'
        subst hl'
        exact ⟨hα, hl2⟩
    | l1 :: l2 :: t, hcl, _, hrange =>
      refine ⟨⟨hw.1, ?_, hw.2.2⟩, rfl, rfl, fun _ α => ?_, fun hf => by cases hf⟩
      · intro c' hc'
        simp only [List.mem_append, List.mem_singleton] at hc'
        rcases hc' with hc' | rfl
        · exact hw.2.1 c' hc'
        · exact hrange
      · simp only [models_iff, List.mem_append, List.mem_singleton]
        constructor
        · rintro ⟨h1, h2⟩
          have hα : Models α s := (models_iff α s).2 ⟨fun c' hc' => h1 c' (Or.inl hc'), h2⟩
          exact ⟨⟨fun c' hc' => h1 c' (Or.inl hc'), h2⟩,
            (hcl α hα).2 ((clause_eq_true α _).1 (h1 _ (Or.inr rfl)))⟩
        · rintro ⟨⟨h1, h2⟩, hcc⟩
          have hα : Models α s := (models_iff α s).2 ⟨h1, h2⟩
          refine ⟨fun c' hc' => ?_, h2⟩
          rcases hc' with hc' | rfl
          · exact h1 c' hc'
          · exact (clause_eq_true α _).2 ((hcl α hα).1 hcc)

/-! ## `newClauses` -/

theorem newClauses_spec : ∀ (cs : List (List Lit)) {s : Enc}, WF s → (∀ c ∈ cs, InRange s c) →
    WF (s.newClauses cs).2 ∧ (s.newClauses cs).2.exprs = s.exprs ∧ (s.newClauses cs).2.nvars = s.nvars ∧
    (∀ α, Models α (s.newClauses cs).2 → Models α s) ∧
    (∀ α, Models α s → α.cnf cs = true → Models α (s.newClauses cs).2) ∧
    ((s.newClauses cs).1 = true → ∀ α, Models α (s.newClauses cs).2 → α.cnf cs = true) ∧
    ((s.newClauses cs).1 = false → ∀ α, Models α (s.newClauses cs).2 → α.cnf cs = false) := by
  intro cs
  induction cs with
  | nil =>
    intro s hw _
    exact ⟨hw, rfl, rfl, fun _ h => h, fun _ h _ => h, fun _ _ _ => rfl, fun hf => by cases hf⟩
  | cons c cs ih =>
    intro s hw hc
    obtain ⟨k1, k2, k3, k4, k5⟩ := newClause_spec hw (hc c (by simp))
    simp only [Enc.newClauses]
    rcases hnc : s.newClause c with ⟨b, s'⟩
    rw [hnc] at k1 k2 k3 k4 k5
    simp only at k1 k2 k3 k4 k5
    cases b with
    | false =>
      obtain ⟨rfl, k5⟩ := k5 rfl
      refine ⟨hw, rfl, rfl, fun _ h => h, fun _ h _ => h, (fun hf => by cases hf), fun _ α hα => ?_⟩
      simp [Asg.cnf, k5 α hα]
    | true =>
      have k4 := k4 rfl
      have hc' : ∀ c ∈ cs, InRange s' c := fun c' hc' l hl => by
        rw [k3]; exact hc c' (by simp [hc']) l hl
      obtain ⟨i1, i2, i3, i4, i5, i6, i7⟩ := ih k1 hc'
      refine ⟨i1, i2.trans k2, i3.trans k3, fun α hα => ((k4 α).1 (i4 α hα)).1, fun α hα hcs => ?_,
        fun ht α hα => ?_, fun hf α hα => ?_⟩
      · simp only [Asg.cnf, List.all_cons, Bool.and_eq_true] at hcs
        exact i5 α ((k4 α).2 ⟨hα, hcs.1⟩) hcs.2
      · simp only [Asg.cnf, List.all_cons, Bool.and_eq_true]
        exact ⟨((k4 α).1 (i4 α hα)).2, i6 ht α hα⟩
      · have := i7 hf α hα
        simp only [Asg.cnf, List.all_cons] at this ⊢
        rw [this]; simp

/-- `Sat`-level version, with the invariant -/
theorem newClauses_sat {s : Enc} (h : Inv s) {cs : List (List Lit)} (hc : ∀ c ∈ cs, InRange s c) :
    Inv (s.newClauses cs).2 ∧ (s.newClauses cs).2.exprs = s.exprs ∧ (s.newClauses cs).2.nvars = s.nvars ∧
    (∀ α, Sat α (s.newClauses cs).2 → Sat α s) ∧
    (∀ α, Sat α s → α.cnf cs = true → Sat α (s.newClauses cs).2) ∧
    ((s.newClauses cs).1 = true → ∀ α, Sat α (s.newClauses cs).2 → α.cnf cs = true) ∧
    ((s.newClauses cs).1 = false → ∀ α, Sat α (s.newClauses cs).2 → α.cnf cs = false) := by
  obtain ⟨i1, i2, i3, i4, i5, i6, i7⟩ := newClauses_spec cs h.1 hc
  have hr : ∀ α, Sat α (s.newClauses cs).2 → Sat α s := fun α hα => ⟨hα.1, i4 α hα.2⟩
  exact ⟨inv_of_refines h i1 i2 hr, i2, i3, hr, fun α hα hcs => ⟨hα.1, i5 α hα.2 hcs⟩,
    fun ht α hα => i6 ht α hα.2, fun hf α hα => i7 hf α hα.2⟩

/-! ## a fresh variable defined by clauses -/

/-- the common tail of `newEq / newConj / newDisj / amoCore` (pairwise) `/ newExctOne` -/
def freshDef (s : Enc) (k : Key) (cs : Lit → List (List Lit)) : Lit × Enc :=
  match (s.newVar.2).newClauses (cs ⟨s.nvars, true⟩) with
  | (false, s2) => (Lit.falseLit, s2)
  | (true, s2) => (⟨s.nvars, true⟩, s2.remember k ⟨s.nvars, true⟩)

theorem freshDef_spec {s : Enc} (h : Inv s) (k : Key) (cs : Lit → List (List Lit))
    (hk : ∀ x ∈ keyLits k, x.var < s.nvars)
    (hcs : ∀ c ∈ cs ⟨s.nvars, true⟩, ∀ l ∈ c, l.var < s.nvars + 1)
    (hext : ∀ α, Sat α s → ∃ b, (upd α s.nvars b).cnf (cs ⟨s.nvars, true⟩) = true)
    (hsem : ∀ α, Sat α s → α.cnf (cs ⟨s.nvars, true⟩) = true → KeySem α k ⟨s.nvars, true⟩) :
    Inv (freshDef s k cs).2 ∧ (freshDef s k cs).1.var < (freshDef s k cs).2.nvars ∧
    Extends s (freshDef s k cs).2 ∧ Refines s (freshDef s k cs).2 ∧
    (∀ α, Sat α (freshDef s k cs).2 → KeySem α k (freshDef s k cs).1) ∧
    (∀ α b, Sat α s → (upd α s.nvars b).cnf (cs ⟨s.nvars, true⟩) = true →
      Sat (upd α s.nvars b) (freshDef s k cs).2 ∧ (upd α s.nvars b).lit (freshDef s k cs).1 = b) ∧
    (∀ e ∈ (freshDef s k cs).2.exprs, e ∈ s.exprs ∨ e = (k, ⟨s.nvars, true⟩)) ∧
    (freshDef s k cs).2.nvars = s.nvars + 1 := by
  have h1 : Inv s.newVar.2 := inv_addVars h 1
  have hn1 : s.newVar.2.nvars = s.nvars + 1 := nvars_addVars s 1
  have hcs' : ∀ c ∈ cs ⟨s.nvars, true⟩, InRange s.newVar.2 c := fun c hc l hl => by
    rw [hn1]; exact hcs c hc l hl
  obtain ⟨i1, i2, i3, i4, i5, i6, i7⟩ := newClauses_sat h1 hcs'
  have hs1 : ∀ α, Sat α s.newVar.2 ↔ Sat α s := fun α => sat_addVars α s 1
  -- every model of `s` extends to a model of the new state
  have hup : ∀ α b, Sat α s → (upd α s.nvars b).cnf (cs ⟨s.nvars, true⟩) = true →
      Sat (upd α s.nvars b) (s.newVar.2.newClauses (cs ⟨s.nvars, true⟩)).2 := by
    intro α b hα hb
    exact i5 _ ((hs1 _).2 (sat_congr h.1 (fun v hv => upd_lt α b hv) hα)) hb
  have hexprs : (s.newVar.2).exprs = s.exprs := rfl
  unfold freshDef
  rcases hnc : s.newVar.2.newClauses (cs ⟨s.nvars, true⟩) with ⟨b, s2⟩
  rw [hnc] at i1 i2 i3 i4 i5 i6 i7 hup
  simp only at i1 i2 i3 i4 i5 i6 i7 hup
  have hnv : s2.nvars = s.nvars + 1 := i3.trans hn1
  have href : Refines s s2 := ⟨by omega, fun α hα => (hs1 α).1 (i4 α hα)⟩
  cases b with
  | false =>
    have hno : ∀ α, ¬ Sat α s2 := by
      intro α hα
      obtain ⟨b, hb⟩ := hext α (href.2 α hα)
      have h2 := hup α b (href.2 α hα) hb
      have := i7 rfl _ h2
      rw [hb] at this; cases this
    refine ⟨i1, ?_, fun α hα => ?_, href, fun α hα => absurd hα (hno α), fun α b hα hb => ?_, ?_, hnv⟩
    · show 0 < s2.nvars
      omega
    · obtain ⟨b, hb⟩ := hext α hα
      exact absurd (hup α b hα hb) (hno _)
    · exact absurd (hup α b hα hb) (hno _)
    · intro e he; rw [i2] at he; exact Or.inl he
  | true =>
    have hsem' : ∀ α, Sat α s2 → KeySem α k ⟨s.nvars, true⟩ := fun α hα =>
      hsem α (href.2 α hα) (i6 rfl α hα)
    refine ⟨inv_remember i1 (by simp only [hnv]; omega) (fun x hx => by have := hk x hx; omega) hsem', ?_,
      fun α hα => ?_, href, hsem', fun α b hα hb => ⟨hup α b hα hb, ?_⟩, ?_, hnv⟩
    · show s.nvars < s2.nvars
      omega
    · obtain ⟨b, hb⟩ := hext α hα
      exact ⟨upd α s.nvars b, hup α b hα hb, fun v hv => upd_lt α b hv⟩
    · simp [lit_pos]
    · intro e he
      simp only [Enc.remember, List.mem_append, List.mem_singleton] at he
      rcases he with he | he
      · rw [i2] at he; exact Or.inl he
      · exact Or.inr he

end EncL
end Oratio
