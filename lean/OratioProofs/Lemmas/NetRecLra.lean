/-
C07N: what the LRA theory does to the SAT core.  `propagate(p)` changes it only by `record`ing
well-shaped clauses (`Sat.GoodRec`: head an unassigned existing variable, the other literals - at
least one - false), and every conflict clause it returns contains `¬p`.
-/
import OratioProofs.Lemmas.NetSatRecs
import OratioProofs.Lemmas.NetSoundLra
import OratioProofs.Lemmas.LraReachFinal

set_option linter.unusedSimpArgs false
set_option linter.unusedVariables false

namespace Oratio
namespace Sat

/-- `s'` is reached from `s` by well-shaped records -/
def RecsTo (s s' : Sat) : Prop := ∃ new, Recs s new s'

theorem RecsTo.refl (s : Sat) : RecsTo s s := ⟨[], Recs.refl s⟩

theorem RecsTo.rec1 {s : Sat} {c : Clause} (h : GoodRec s c) : RecsTo s (s.record c) :=
  ⟨[] ++ [c], Recs.step (Recs.refl s) h⟩

theorem Recs.append {a b c : Sat} {n1 n2 : List Clause} (h1 : Recs a n1 b) (h2 : Recs b n2 c) : Recs a (n1 ++ n2) c := by
  induction h2 with
  | refl => simpa using h1
  | step _ hg ih => rw [← List.append_assoc]; exact Recs.step ih hg

theorem RecsTo.trans {a b c : Sat} (h1 : RecsTo a b) (h2 : RecsTo b c) : RecsTo a c := by
  obtain ⟨n1, r1⟩ := h1
  obtain ⟨n2, r2⟩ := h2
  exact ⟨_, r1.append r2⟩

theorem record_lenVals (s : Sat) (c : Clause) : (s.record c).vals.length = s.vals.length := by
  unfold Sat.record
  dsimp only
  split
  · rfl
  · exact (enqueue_frame { s with log := s.log ++ [_] } _ _).lenVals
  · rw [(enqueue_frame _ _ _).lenVals, (Dl.addClause_same _ _).1]

theorem RecsTo.le {s s' : Sat} (h : RecsTo s s') : Dl.SatLe s s' := by
  obtain ⟨new, r⟩ := h
  induction r with
  | refl => exact Dl.SatLe.refl _
  | step _ _ ih => exact Dl.SatLe.trans ih (Dl.record_le _ _)

theorem RecsTo.len {s s' : Sat} (h : RecsTo s s') : s'.vals.length = s.vals.length := by
  obtain ⟨new, r⟩ := h
  induction r with
  | refl => rfl
  | step _ _ ih => rw [record_lenVals, ih]

end Sat

namespace Lra
open Sat

/-- the SAT core is changed by well-shaped records only, and a conflict clause contains `q` -/
def OutRC (q : Lit) (s : Sat) (r : Option (List Lit) × Sat) : Prop :=
  RecsTo s r.2 ∧ ∀ c, r.1 = some c → q ∈ c

theorem OutRC.nil (q : Lit) (s : Sat) : OutRC q s (Option.none, s) := ⟨RecsTo.refl s, fun c h => by cases h⟩
theorem OutRC.rec1 (q : Lit) {s : Sat} {c : Clause} (h : GoodRec s c) : OutRC q s (Option.none, s.record c) :=
  ⟨RecsTo.rec1 h, fun c h => by cases h⟩
theorem OutRC.confl {q : Lit} (s : Sat) {c : Clause} (h : q ∈ c) : OutRC q s (some c, s) :=
  ⟨RecsTo.refl s, fun c' h' => by cases h'; exact h⟩
theorem OutRC.trans {q : Lit} {s s1 : Sat} {r : Option (List Lit) × Sat} (h1 : RecsTo s s1) (h2 : OutRC q s1 r) : OutRC q s r :=
  ⟨h1.trans h2.1, h2.2⟩

theorem forAll_RC {q : Lit} {f : Sat → Nat → Option (List Lit) × Sat} :
    ∀ (ws : List Nat) (s : Sat), (∀ s' w, w ∈ ws → RecsTo s s' → OutRC q s' (f s' w)) → OutRC q s (forAll f s ws) := by
  intro ws
  induction ws with
  | nil => intro s _; exact OutRC.nil q s
  | cons w ws ih =>
    intro s hf
    have h1 := hf s w List.mem_cons_self (RecsTo.refl s)
    unfold forAll
    split
    · next c s' he =>
      rw [he] at h1
      exact h1
    · next s' he =>
      rw [he] at h1
      have hle : RecsTo s s' := h1.1
      exact OutRC.trans hle (ih s' (fun s'' w' hw' hle' => hf s'' w' (List.mem_cons_of_mem _ hw') (hle.trans hle')))

theorem goodRec2 {s : Sat} {h r : Lit} (hv : s.value h = none) (hlt : h.var < s.vals.length) (hr : s.value r = some false) :
    GoodRec s [h, r] :=
  ⟨h, [r], rfl, hv, hlt, fun x hx => by rw [List.mem_singleton.1 hx]; exact hr, by simp⟩

theorem goodRecCons {s : Sat} {h : Lit} {ex : List Lit} (hv : s.value h = none) (hlt : h.var < s.vals.length)
    (hex : ∀ l ∈ ex, s.value l = some false) (hne : ex ≠ []) : GoodRec s (h :: ex) :=
  ⟨h, ex, rfl, hv, hlt, hex, hne⟩

theorem asrtPropagateLb_RC {s : Sat} {t : Lra} (hr : ReasonsTrue s t) (a : LAsrt) (xi : Nat)
    (hlt : a.b.var < s.vals.length) : OutRC (t.lbReason xi).neg s (asrtPropagateLb s t a xi) := by
  have hrf := value_neg_of_true (hr xi).1
  unfold asrtPropagateLb
  cases ho : a.o <;> simp only
  · rcases hv : s.value a.b with _ | _ | _ <;> simp only
    · split
      · exact OutRC.rec1 _ (goodRec2 (value_neg_none hv) hlt hrf)
      · exact OutRC.nil _ s
    · exact OutRC.nil _ s
    · split
      · exact OutRC.confl s (by simp)
      · exact OutRC.nil _ s
  · rcases hv : s.value a.b with _ | _ | _ <;> simp only
    · split
      · exact OutRC.rec1 _ (goodRec2 hv hlt hrf)
      · exact OutRC.nil _ s
    · split
      · exact OutRC.confl s (by simp)
      · exact OutRC.nil _ s
    · exact OutRC.nil _ s

theorem asrtPropagateUb_RC {s : Sat} {t : Lra} (hr : ReasonsTrue s t) (a : LAsrt) (xi : Nat)
    (hlt : a.b.var < s.vals.length) : OutRC (t.ubReason xi).neg s (asrtPropagateUb s t a xi) := by
  have hrf := value_neg_of_true (hr xi).2
  unfold asrtPropagateUb
  cases ho : a.o <;> simp only
  · rcases hv : s.value a.b with _ | _ | _ <;> simp only
    · split
      · exact OutRC.rec1 _ (goodRec2 hv hlt hrf)
      · exact OutRC.nil _ s
    · split
      · exact OutRC.confl s (by simp)
      · exact OutRC.nil _ s
    · exact OutRC.nil _ s
  · rcases hv : s.value a.b with _ | _ | _ <;> simp only
    · split
      · exact OutRC.rec1 _ (goodRec2 (value_neg_none hv) hlt hrf)
      · exact OutRC.nil _ s
    · exact OutRC.nil _ s
    · split
      · exact OutRC.confl s (by simp)
      · exact OutRC.nil _ s

theorem scanLower_RC (t : Lra) (lbv : IR) (ex : List Lit) (q : Lit) (hq : q ∈ ex) (N : Nat) :
    ∀ (ws : List Nat) (s : Sat), (∀ b ∈ ws, ∀ a, t.asrtOf b = some a → a.b.var < N) → s.vals.length = N →
      (∀ l ∈ ex, s.value l = some false) → OutRC q s (scanLower t lbv ex s ws) := by
  have hne : ex ≠ [] := List.ne_nil_of_mem hq
  intro ws
  induction ws with
  | nil => intro s _ _ _; exact OutRC.nil _ s
  | cons b ws ih =>
    intro s hws hN hex
    have hws' : ∀ b ∈ ws, ∀ a, t.asrtOf b = some a → a.b.var < N := fun b' hb' => hws b' (List.mem_cons_of_mem _ hb')
    unfold scanLower
    cases hab : t.asrtOf b with
    | none => exact ih s hws' hN hex
    | some a =>
      have hlt : a.b.var < s.vals.length := by rw [hN]; exact hws b List.mem_cons_self a hab
      simp only
      cases ho : a.o <;> simp only
      · rcases hv : s.value a.b with _ | _ | _ <;> simp only
        · split
          · have hg : GoodRec s (a.b.neg :: ex) := goodRecCons (value_neg_none hv) hlt hex hne
            exact OutRC.trans (RecsTo.rec1 hg) (ih _ hws' (by rw [record_lenVals]; exact hN)
              (false_mono (Dl.record_le s _) hex))
          · exact ih s hws' hN hex
        · exact ih s hws' hN hex
        · split
          · exact OutRC.confl s (List.mem_cons_of_mem _ hq)
          · exact ih s hws' hN hex
      · rcases hv : s.value a.b with _ | _ | _ <;> simp only
        · split
          · have hg : GoodRec s (a.b :: ex) := goodRecCons hv hlt hex hne
            exact OutRC.trans (RecsTo.rec1 hg) (ih _ hws' (by rw [record_lenVals]; exact hN)
              (false_mono (Dl.record_le s _) hex))
          · exact ih s hws' hN hex
        · split
          · exact OutRC.confl s (List.mem_cons_of_mem _ hq)
          · exact ih s hws' hN hex
        · exact ih s hws' hN hex

theorem scanUpper_RC (t : Lra) (ubv : IR) (ex : List Lit) (q : Lit) (hq : q ∈ ex) (N : Nat) :
    ∀ (ws : List Nat) (s : Sat), (∀ b ∈ ws, ∀ a, t.asrtOf b = some a → a.b.var < N) → s.vals.length = N →
      (∀ l ∈ ex, s.value l = some false) → OutRC q s (scanUpper t ubv ex s ws) := by
  have hne : ex ≠ [] := List.ne_nil_of_mem hq
  intro ws
  induction ws with
  | nil => intro s _ _ _; exact OutRC.nil _ s
  | cons b ws ih =>
    intro s hws hN hex
    have hws' : ∀ b ∈ ws, ∀ a, t.asrtOf b = some a → a.b.var < N := fun b' hb' => hws b' (List.mem_cons_of_mem _ hb')
    unfold scanUpper
    cases hab : t.asrtOf b with
    | none => exact ih s hws' hN hex
    | some a =>
      have hlt : a.b.var < s.vals.length := by rw [hN]; exact hws b List.mem_cons_self a hab
      simp only
      cases ho : a.o <;> simp only
      · rcases hv : s.value a.b with _ | _ | _ <;> simp only
        · split
          · have hg : GoodRec s (a.b :: ex) := goodRecCons hv hlt hex hne
            exact OutRC.trans (RecsTo.rec1 hg) (ih _ hws' (by rw [record_lenVals]; exact hN)
              (false_mono (Dl.record_le s _) hex))
          · exact ih s hws' hN hex
        · split
          · exact OutRC.confl s (List.mem_cons_of_mem _ hq)
          · exact ih s hws' hN hex
        · exact ih s hws' hN hex
      · rcases hv : s.value a.b with _ | _ | _ <;> simp only
        · split
          · have hg : GoodRec s (a.b.neg :: ex) := goodRecCons (value_neg_none hv) hlt hex hne
            exact OutRC.trans (RecsTo.rec1 hg) (ih _ hws' (by rw [record_lenVals]; exact hN)
              (false_mono (Dl.record_le s _) hex))
          · exact ih s hws' hN hex
        · exact ih s hws' hN hex
        · split
          · exact OutRC.confl s (List.mem_cons_of_mem _ hq)
          · exact ih s hws' hN hex

/-- the explanation of a row bound contains the (negated) reason of the bound used for every
    variable with a positive / negative coefficient -/
theorem rowLowerSum_mem (t : Lra) :
    ∀ (vars : List (Nat × R)) (s0 : IR) (ex0 : List Lit) (sum : IR) (ex : List Lit),
      rowLowerSum t vars (s0, ex0) = some (sum, ex) →
      (∀ l ∈ ex0, l ∈ ex) ∧ ∀ p ∈ vars, (p.2.isPositive = true → (t.lbReason p.1).neg ∈ ex) ∧
        (p.2.isPositive = false → p.2.isNegative = true → (t.ubReason p.1).neg ∈ ex) := by
  intro vars
  induction vars with
  | nil =>
    intro s0 ex0 sum ex h
    simp only [rowLowerSum, Option.some.injEq, Prod.mk.injEq] at h
    rw [← h.2]; exact ⟨fun l hl => hl, fun p hp => by cases hp⟩
  | cons p rest ih =>
    obtain ⟨cv, c⟩ := p
    intro s0 ex0 sum ex h
    simp only [rowLowerSum] at h
    split at h
    · rename_i hpos
      split at h
      · cases h
      · obtain ⟨i1, i2⟩ := ih _ _ _ _ h
        refine ⟨fun l hl => i1 l (List.mem_append_left _ hl), fun p hp => ?_⟩
        rcases List.mem_cons.1 hp with rfl | hp
        · exact ⟨fun _ => i1 _ (List.mem_append_right _ (List.mem_singleton.2 rfl)), fun hn => by simp [hpos] at hn⟩
        · exact i2 p hp
    · rename_i hpos
      split at h
      · rename_i hneg
        split at h
        · cases h
        · obtain ⟨i1, i2⟩ := ih _ _ _ _ h
          refine ⟨fun l hl => i1 l (List.mem_append_left _ hl), fun p hp => ?_⟩
          rcases List.mem_cons.1 hp with rfl | hp
          · exact ⟨fun hp' => absurd hp' hpos, fun _ _ => i1 _ (List.mem_append_right _ (List.mem_singleton.2 rfl))⟩
          · exact i2 p hp
      · rename_i hneg
        obtain ⟨i1, i2⟩ := ih _ _ _ _ h
        refine ⟨i1, fun p hp => ?_⟩
        rcases List.mem_cons.1 hp with rfl | hp
        · exact ⟨fun hp' => absurd hp' hpos, fun _ hn => absurd hn hneg⟩
        · exact i2 p hp

theorem rowUpperSum_mem (t : Lra) (negTest : Nat → Nat) :
    ∀ (vars : List (Nat × R)) (s0 : IR) (ex0 : List Lit) (sum : IR) (ex : List Lit),
      rowUpperSum t negTest vars (s0, ex0) = some (sum, ex) →
      (∀ l ∈ ex0, l ∈ ex) ∧ ∀ p ∈ vars, (p.2.isPositive = true → (t.ubReason p.1).neg ∈ ex) ∧
        (p.2.isPositive = false → p.2.isNegative = true → (t.lbReason p.1).neg ∈ ex) := by
  intro vars
  induction vars with
  | nil =>
    intro s0 ex0 sum ex h
    simp only [rowUpperSum, Option.some.injEq, Prod.mk.injEq] at h
    rw [← h.2]; exact ⟨fun l hl => hl, fun p hp => by cases hp⟩
  | cons p rest ih =>
    obtain ⟨cv, c⟩ := p
    intro s0 ex0 sum ex h
    simp only [rowUpperSum] at h
    split at h
    · rename_i hpos
      split at h
      · cases h
      · obtain ⟨i1, i2⟩ := ih _ _ _ _ h
        refine ⟨fun l hl => i1 l (List.mem_append_left _ hl), fun p hp => ?_⟩
        rcases List.mem_cons.1 hp with rfl | hp
        · exact ⟨fun _ => i1 _ (List.mem_append_right _ (List.mem_singleton.2 rfl)), fun hn => by simp [hpos] at hn⟩
        · exact i2 p hp
    · rename_i hpos
      split at h
      · rename_i hneg
        split at h
        · cases h
        · obtain ⟨i1, i2⟩ := ih _ _ _ _ h
          refine ⟨fun l hl => i1 l (List.mem_append_left _ hl), fun p hp => ?_⟩
          rcases List.mem_cons.1 hp with rfl | hp
          · exact ⟨fun hp' => absurd hp' hpos, fun _ _ => i1 _ (List.mem_append_right _ (List.mem_singleton.2 rfl))⟩
          · exact i2 p hp
      · rename_i hneg
        obtain ⟨i1, i2⟩ := ih _ _ _ _ h
        refine ⟨i1, fun p hp => ?_⟩
        rcases List.mem_cons.1 hp with rfl | hp
        · exact ⟨fun hp' => absurd hp' hpos, fun _ hn => absurd hn hneg⟩
        · exact i2 p hp

theorem lowerPart_RC {s : Sat} {t : Lra} (hr : ReasonsTrue s t) (x : Nat) (l : Lin) (q : Lit)
    (hq : ∃ p ∈ l.vars, (p.2.isPositive = true ∧ (t.lbReason p.1).neg = q) ∨
      (p.2.isPositive = false ∧ p.2.isNegative = true ∧ (t.ubReason p.1).neg = q))
    (hA : ∀ b a, t.asrtOf b = some a → a.b.var < s.vals.length) : OutRC q s (lowerPart s t x l) := by
  unfold lowerPart
  split
  · exact OutRC.nil _ s
  · next sum ex hsum =>
    split
    · obtain ⟨_, hm⟩ := rowLowerSum_mem t _ _ _ _ _ hsum
      obtain ⟨p, hp, hor⟩ := hq
      have hqe : q ∈ ex := by
        rcases hor with ⟨h1, h2⟩ | ⟨h1, h2, h3⟩
        · rw [← h2]; exact (hm p hp).1 h1
        · rw [← h3]; exact (hm p hp).2 h1 h2
      exact scanLower_RC t sum ex q hqe s.vals.length _ s (fun b _ a ha => hA b a ha) rfl
        (rowLowerSum_F hr _ _ _ _ _ hsum (fun l h => by cases h))
    · exact OutRC.nil _ s

theorem upperPart_RC {s : Sat} {t : Lra} (hr : ReasonsTrue s t) (x : Nat) (l : Lin) (negTest : Nat → Nat) (q : Lit)
    (hq : ∃ p ∈ l.vars, (p.2.isPositive = true ∧ (t.ubReason p.1).neg = q) ∨
      (p.2.isPositive = false ∧ p.2.isNegative = true ∧ (t.lbReason p.1).neg = q))
    (hA : ∀ b a, t.asrtOf b = some a → a.b.var < s.vals.length) : OutRC q s (upperPart s t x l negTest) := by
  unfold upperPart
  split
  · exact OutRC.nil _ s
  · next sum ex hsum =>
    split
    · obtain ⟨_, hm⟩ := rowUpperSum_mem t negTest _ _ _ _ _ hsum
      obtain ⟨p, hp, hor⟩ := hq
      have hqe : q ∈ ex := by
        rcases hor with ⟨h1, h2⟩ | ⟨h1, h2, h3⟩
        · rw [← h2]; exact (hm p hp).1 h1
        · rw [← h3]; exact (hm p hp).2 h1 h2
      exact scanUpper_RC t sum ex q hqe s.vals.length _ s (fun b _ a ha => hA b a ha) rfl
        (rowUpperSum_F hr negTest _ _ _ _ _ hsum (fun l h => by cases h))
    · exact OutRC.nil _ s

theorem neg_of_nz {c : R} (hz : c.num ≠ 0) (hp : c.isPositive = false) : c.isNegative = true := by
  simp only [R.isPositive, R.isNegative, decide_eq_false_iff_not, decide_eq_true_eq] at hp ⊢
  omega

theorem rowPropagateLb_RC {s : Sat} {t : Lra} (hr : ReasonsTrue s t) (x v : Nat)
    (hcoef : ∃ c, Lin.find ((t.rowOf x).getD Lin.empty).vars v = some c ∧ c.num ≠ 0)
    (hA : ∀ b a, t.asrtOf b = some a → a.b.var < s.vals.length) :
    OutRC (t.lbReason v).neg s (rowPropagateLb s t x v) := by
  obtain ⟨c, hc, hz⟩ := hcoef
  have hmem := Lin.find_mem hc
  unfold rowPropagateLb
  simp only [hc, Option.getD_some]
  split
  · rename_i hpos
    exact lowerPart_RC hr _ _ _ ⟨(v, c), hmem, Or.inl ⟨hpos, rfl⟩⟩ hA
  · rename_i hpos
    have hpos' : c.isPositive = false := by simpa using hpos
    exact upperPart_RC hr _ _ _ _ ⟨(v, c), hmem, Or.inr ⟨hpos', neg_of_nz hz hpos', rfl⟩⟩ hA

theorem rowPropagateUb_RC {s : Sat} {t : Lra} (hr : ReasonsTrue s t) (x v : Nat)
    (hcoef : ∃ c, Lin.find ((t.rowOf x).getD Lin.empty).vars v = some c ∧ c.num ≠ 0)
    (hA : ∀ b a, t.asrtOf b = some a → a.b.var < s.vals.length) :
    OutRC (t.ubReason v).neg s (rowPropagateUb s t x v) := by
  obtain ⟨c, hc, hz⟩ := hcoef
  have hmem := Lin.find_mem hc
  unfold rowPropagateUb
  simp only [hc, Option.getD_some]
  split
  · rename_i hpos
    exact upperPart_RC hr _ _ _ _ ⟨(v, c), hmem, Or.inl ⟨hpos, rfl⟩⟩ hA
  · rename_i hpos
    have hpos' : c.isPositive = false := by simpa using hpos
    exact lowerPart_RC hr _ _ _ ⟨(v, c), hmem, Or.inr ⟨hpos', neg_of_nz hz hpos', rfl⟩⟩ hA

/-- a row watching `v` has a non-zero coefficient for `v` -/
theorem watched_coef {t : Lra} (ht : TabWF t) (hnz : ∀ e ∈ t.tableau, ∀ p ∈ e.2.vars, p.2.num ≠ 0) {v x : Nat}
    (hx : x ∈ t.tWatches.getD v []) :
    ∃ c, Lin.find ((t.rowOf x).getD Lin.empty).vars v = some c ∧ c.num ≠ 0 := by
  obtain ⟨e, he, rfl, p, hp, rfl⟩ := (ht.watch v x).1 hx
  have hrow : t.rowOf e.1 = some e.2 := tabFind_of_mem ht.keys he
  rw [hrow]
  simp only [Option.getD_some]
  have hs : Lin.Sorted e.2.vars := (Lin.sortedKeys_iff _).1 (ht.rows e he).1
  exact ⟨p.2, Lin.find_of_mem hs hp, hnz e he p hp⟩

theorem reason_of_set {t u : Lra} {i : Nat} {val : IR} {p : Lit} (h : u.bounds = t.bounds.set i ⟨val, p⟩)
    (hi : i < t.bounds.length) : (u.bnd i).reason = p := by
  unfold Lra.bnd
  rw [h, getD_set_eq _ _ _ _ hi]

/-- the registry facts the bound assertions need -/
structure AsrtReg (s : Sat) (t : Lra) : Prop where
  tab : TabWF t
  nz : ∀ e ∈ t.tableau, ∀ p ∈ e.2.vars, p.2.num ≠ 0
  key : AsrtKey t
  inSat : ∀ e ∈ t.vAsrts, e.1 < s.vals.length

theorem AsrtReg.asrt {s : Sat} {t : Lra} (h : AsrtReg s t) (b : Nat) (a : LAsrt) (hab : t.asrtOf b = some a) :
    a.b.var < s.vals.length := by
  have hm := asrtOf_mem hab
  rw [h.key _ hm]
  exact h.inSat _ hm

theorem AsrtReg.congr {s s' : Sat} {t u : Lra} (h : AsrtReg s t) (h1 : u.tableau = t.tableau) (h2 : u.tWatches = t.tWatches)
    (h3 : u.vals.length = t.vals.length) (h4 : u.vAsrts = t.vAsrts) (h5 : s'.vals.length = s.vals.length) : AsrtReg s' u :=
  ⟨tabWF_congr h1 h2 h3 h.tab, by rw [h1]; exact h.nz, by unfold AsrtKey; rw [h4]; exact h.key, by rw [h4, h5]; exact h.inSat⟩

theorem assertLower_RC {s : Sat} {t : Lra} (hr : ReasonsTrue s t) (hg : AsrtReg s t) (xi : Nat) (val : IR) {p : Lit}
    (hp : s.value p = some true) (hxi : lbIdx xi < t.bounds.length) :
    OutRC p.neg s ((assertLower s t xi val p).cnfl, (assertLower s t xi val p).sat) := by
  rcases assertLower_cases s t xi val p with ⟨_, e⟩ | ⟨_, _, e⟩ | ⟨_, _, r1, r2, e1, e2, e⟩
  · rw [e]; exact OutRC.nil _ s
  · rw [e]; exact OutRC.confl s (by simp)
  · have hbs := boundSet_al t xi val p
    have hr' : ReasonsTrue s (alState t xi val p) := reasonsTrue_set hbs.bounds hr hp
    have hq : ((alState t xi val p).lbReason xi).neg = p.neg := by
      unfold Lra.lbReason; rw [reason_of_set hbs.bounds hxi]
    have hg' : ∀ s', RecsTo s s' → AsrtReg s' (alState t xi val p) :=
      fun s' h' => hg.congr hbs.tableau hbs.tWatches hbs.vlen hbs.vAsrts h'.len
    have ok1 : OutRC p.neg s r1 := by
      rw [e1]
      apply forAll_RC
      intro s' b _ hle
      cases hab : (alState t xi val p).asrtOf b with
      | none => exact OutRC.nil _ s'
      | some a =>
        have := asrtPropagateLb_RC (hr'.mono hle.le) a xi ((hg' s' hle).asrt b a hab)
        rw [hq] at this; exact this
    have ok2 : OutRC p.neg r1.2 r2 := by
      rw [e2]
      apply forAll_RC
      intro s' x hx hle
      have hreg := hg' s' (ok1.1.trans hle)
      have := rowPropagateLb_RC ((hr'.mono ok1.1.le).mono hle.le) x xi (watched_coef hreg.tab hreg.nz hx) hreg.asrt
      rw [hq] at this; exact this
    rcases e with ⟨c, hc, e⟩ | ⟨hn, e⟩
    · rw [e]
      exact ⟨ok1.1, fun c' hc' => ok1.2 c' (by simp only at hc'; rw [hc, ← hc'])⟩
    · rw [e]
      exact OutRC.trans ok1.1 ok2

theorem assertUpper_RC {s : Sat} {t : Lra} (hr : ReasonsTrue s t) (hg : AsrtReg s t) (xi : Nat) (val : IR) {p : Lit}
    (hp : s.value p = some true) (hxi : ubIdx xi < t.bounds.length) :
    OutRC p.neg s ((assertUpper s t xi val p).cnfl, (assertUpper s t xi val p).sat) := by
  rcases assertUpper_cases s t xi val p with ⟨_, e⟩ | ⟨_, _, e⟩ | ⟨_, _, r1, r2, e1, e2, e⟩
  · rw [e]; exact OutRC.nil _ s
  · rw [e]; exact OutRC.confl s (by simp)
  · have hbs := boundSet_au t xi val p
    have hr' : ReasonsTrue s (auState t xi val p) := reasonsTrue_set hbs.bounds hr hp
    have hq : ((auState t xi val p).ubReason xi).neg = p.neg := by
      unfold Lra.ubReason; rw [reason_of_set hbs.bounds hxi]
    have hg' : ∀ s', RecsTo s s' → AsrtReg s' (auState t xi val p) :=
      fun s' h' => hg.congr hbs.tableau hbs.tWatches hbs.vlen hbs.vAsrts h'.len
    have ok1 : OutRC p.neg s r1 := by
      rw [e1]
      apply forAll_RC
      intro s' b _ hle
      cases hab : (auState t xi val p).asrtOf b with
      | none => exact OutRC.nil _ s'
      | some a =>
        have := asrtPropagateUb_RC (hr'.mono hle.le) a xi ((hg' s' hle).asrt b a hab)
        rw [hq] at this; exact this
    have ok2 : OutRC p.neg r1.2 r2 := by
      rw [e2]
      apply forAll_RC
      intro s' x hx hle
      have hreg := hg' s' (ok1.1.trans hle)
      have := rowPropagateUb_RC ((hr'.mono ok1.1.le).mono hle.le) x xi (watched_coef hreg.tab hreg.nz hx) hreg.asrt
      rw [hq] at this; exact this
    rcases e with ⟨c, hc, e⟩ | ⟨hn, e⟩
    · rw [e]
      exact ⟨ok1.1, fun c' hc' => ok1.2 c' (by simp only at hc'; rw [hc, ← hc'])⟩
    · rw [e]
      exact OutRC.trans ok1.1 ok2

/-- **`propagate(p)`** of LRA changes the SAT core by well-shaped records only, and a conflict clause it
    returns contains `¬p` -/
theorem propagateLit_RC {s : Sat} {t : Lra} (hr : ReasonsTrue s t) (hg : AsrtReg s t) (hblen : BoundsLen t)
    (hvars : AsrtVars t) {p : Lit} (hp : s.value p = some true) :
    OutRC p.neg s ((propagateLit s t p).cnfl, (propagateLit s t p).sat) := by
  unfold propagateLit
  cases hab : t.asrtOf p.var with
  | none => exact OutRC.nil _ s
  | some a =>
    have hx := asrt_inrange hblen hvars (asrtOf_mem hab)
    have hx' : lbIdx a.x < t.bounds.length := by unfold lbIdx; unfold ubIdx at hx; simp only at hx; omega
    simp only
    rcases hv : s.value a.b with _ | _ | _ <;> simp only
    · exact OutRC.nil _ s
    · split
      · exact assertLower_RC hr hg _ _ hp hx'
      · exact assertUpper_RC hr hg _ _ hp hx
    · split
      · exact assertUpper_RC hr hg _ _ hp hx
      · exact assertLower_RC hr hg _ _ hp hx'

end Lra
end Oratio
