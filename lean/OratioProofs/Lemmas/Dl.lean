/-
Lemmas about the difference-logic model `OratioModel/Net/Dl.lean` (integer instance):
matrix access, and the characterisation of `propagateEdge` (phase 1, phase 2) as the closed
form `DlM.upd`.
-/
import OratioModel.Net.Dl
import OratioProofs.Lemmas.DlVal

set_option linter.unusedSectionVars false

namespace Oratio
namespace Dl

/-- the lengths of the rows of the two matrices (`_dists`, `_preds`) -/
def shape (t : Dl Int) : List Nat × List Nat := (t.dists.map List.length, t.preds.map List.length)

/-- `n` time points fit into a matrix of this shape -/
def Fits (n : Nat) (shp : List Nat × List Nat) : Prop := n ≤ shp.1.length ∧ ∀ l ∈ shp.1, n ≤ l

theorem d_eq (t : Dl Int) (a b : Nat) : d idlOps t a b = (t.dists.getD a []).getD b idlInf := rfl

theorem fits_range {t : Dl Int} {n : Nat} (h : Fits n (shape t)) {i j : Nat} (hi : i < n) (hj : j < n) :
    i < t.dists.length ∧ j < (t.dists.getD i []).length := by
  obtain ⟨h1, h2⟩ := h
  have hi' : i < t.dists.length := by simp [shape] at h1; omega
  refine ⟨hi', ?_⟩
  have : (t.dists.getD i []).length ∈ (shape t).1 := by
    simp only [shape, List.mem_map]
    refine ⟨t.dists[i], List.getElem_mem hi', ?_⟩
    simp [List.getD_eq_getElem?_getD, hi']
  have := h2 _ this
  omega

theorem d_setD (t : Dl Int) (i j : Nat) (x : Int) (a b : Nat)
    (hi : i < t.dists.length) (hj : j < (t.dists.getD i []).length) :
    d idlOps (setD t i j x) a b = if a = i ∧ b = j then x else d idlOps t a b := by
  simp only [d_eq, setD, List.getD_eq_getElem?_getD, List.getElem?_set]
  by_cases hai : i = a
  · subst hai
    by_cases hbj : j = b
    · subst hbj
      simp [hi, List.getD_eq_getElem?_getD] at hj ⊢
      simp [hj]
    · have : ¬ (b = j) := fun h => hbj h.symm
      simp [hi, hbj, this]
  · have : ¬ (a = i) := fun h => hai h.symm
    simp [hai, this]

theorem map_length_set {α : Type} (D : List (List α)) (i j : Nat) (x : α) :
    (D.set i ((D.getD i []).set j x)).map List.length = D.map List.length := by
  apply List.ext_getElem?
  intro k
  simp only [List.getElem?_map, List.getElem?_set]
  by_cases hik : i = k
  · subst hik
    by_cases hi : i < D.length
    · simp [hi, List.getD_eq_getElem?_getD]
    · simp [hi]
  · simp [hik]

theorem shape_setD (t : Dl Int) (i j : Nat) (x : Int) : shape (setD t i j x) = shape t := by
  simp only [shape, setD, map_length_set]

theorem shape_setP (t : Dl Int) (i j : Nat) (x : Nat) : shape (setP t i j x) = shape t := by
  simp only [shape, setP, map_length_set]

theorem shape_setDist (t : Dl Int) (i j : Nat) (x : Int) : shape (setDist idlOps t i j x) = shape t := by
  unfold setDist
  cases t.layers with
  | nil => exact shape_setD _ _ _ _
  | cons l ls => dsimp only; split <;> exact shape_setD _ _ _ _

theorem shape_setPred (t : Dl Int) (i j : Nat) (x : Nat) : shape (setPred t i j x) = shape t := by
  unfold setPred
  cases t.layers with
  | nil => exact shape_setP _ _ _ _
  | cons l ls => dsimp only; split <;> exact shape_setP _ _ _ _

theorem nVars_setD (t : Dl Int) (i j : Nat) (x : Int) : (setD t i j x).nVars = t.nVars := rfl

theorem dists_setDist (t : Dl Int) (i j : Nat) (x : Int) :
    (setDist idlOps t i j x).dists = (setD t i j x).dists := by
  unfold setDist
  cases t.layers with
  | nil => rfl
  | cons l ls => dsimp only; split <;> rfl

theorem nVars_setDist (t : Dl Int) (i j : Nat) (x : Int) : (setDist idlOps t i j x).nVars = t.nVars := by
  unfold setDist
  cases t.layers with
  | nil => rfl
  | cons l ls => dsimp only; split <;> rfl

theorem dists_setPred (t : Dl Int) (i j : Nat) (x : Nat) : (setPred t i j x).dists = t.dists := by
  unfold setPred
  cases t.layers with
  | nil => rfl
  | cons l ls => dsimp only; split <;> rfl

theorem nVars_setPred (t : Dl Int) (i j : Nat) (x : Nat) : (setPred t i j x).nVars = t.nVars := by
  unfold setPred
  cases t.layers with
  | nil => rfl
  | cons l ls => dsimp only; split <;> rfl

theorem d_congr {t1 t2 : Dl Int} (h : t1.dists = t2.dists) (a b : Nat) : d idlOps t1 a b = d idlOps t2 a b := by
  simp only [d_eq, h]

/-- one matrix write as the C++ does it: `set_dist` followed by `set_pred` -/
def wr (t : Dl Int) (i j : Nat) (x : Int) (y : Nat) : Dl Int := setPred (setDist idlOps t i j x) i j y

theorem nVars_wr (t : Dl Int) (i j : Nat) (x : Int) (y : Nat) : (wr t i j x y).nVars = t.nVars := by
  simp only [wr, nVars_setPred, nVars_setDist]

theorem shape_wr (t : Dl Int) (i j : Nat) (x : Int) (y : Nat) : shape (wr t i j x y) = shape t := by
  rw [wr, shape_setPred, shape_setDist]

theorem d_wr {t : Dl Int} {n : Nat} (h : Fits n (shape t)) {i j : Nat} (hi : i < n) (hj : j < n) (x : Int) (y : Nat)
    (a b : Nat) : d idlOps (wr t i j x y) a b = if a = i ∧ b = j then x else d idlOps t a b := by
  obtain ⟨h1, h2⟩ := fits_range h hi hj
  rw [wr, d_congr (dists_setPred _ _ _ _), d_congr (dists_setDist _ _ _ _), d_setD _ _ _ _ _ _ h1 h2]

/-! ### phase 1 -/

theorem test_iff (x y w : Int) :
    (idlOps.finiteGuard x && idlOps.lt x (idlOps.sub y w)) = true ↔ (x ≠ idlInf ∧ x < y - w) := by
  simp [idlOps]

theorem add_eq (x y : Int) : idlOps.add x y = x + y := rfl

/-- hypotheses on the old matrix `M` and the new edge `(f, g, w)` -/
structure UHyp (n : Nat) (K B : Int) (M : DlM.Mat) (f g : Nat) (w : Int) : Prop where
  hf : f < n
  hg : g < n
  hfg : f ≠ g
  hB : 0 ≤ B
  hK : 0 ≤ K
  hInf : 4 * B + 4 * K < idlInf
  hw : -K ≤ w ∧ w ≤ K
  bnd : ∀ a b, a < n → b < n → M a b = idlInf ∨ (-B ≤ M a b ∧ M a b ≤ B)
  diag : ∀ a, a < n → M a a = 0
  closed : ∀ i j k, i < n → j < n → k < n → M i k ≠ idlInf → M k j ≠ idlInf →
    M i j ≠ idlInf ∧ M i j ≤ M i k + M k j
  cyc : M g f = idlInf ∨ 0 ≤ M g f + w
  imp : w < M f g

/-- the matrix after phase 1 -/
def D1 (M : DlM.Mat) (f g : Nat) (w : Int) : DlM.Mat := fun a b =>
  if b = g then (if M a f ≠ idlInf ∧ M a f + w < M a g then M a f + w else M a g)
  else if a = f then (if M g b ≠ idlInf ∧ M g b + w < M f b then M g b + w else M f b)
  else M a b

def Ci (M : DlM.Mat) (f g : Nat) (w : Int) (u : Nat) : Prop := u ≠ f ∧ M u f ≠ idlInf ∧ M u f + w < M u g
def Cj (M : DlM.Mat) (f g : Nat) (w : Int) (u : Nat) : Prop := u ≠ g ∧ M g u ≠ idlInf ∧ M g u + w < M f u

/-- invariant of the first loop: column `g` is final for rows `< ki`, row `f` for columns `< kj` -/
structure PP (M : DlM.Mat) (f g : Nat) (w : Int) (n : Nat) (shp : List Nat × List Nat) (ki kj : Nat)
    (t : Dl Int) (si sj : List Nat) : Prop where
  nv : t.nVars = n
  shp : shape t = shp
  mat : ∀ a b, d idlOps t a b =
    if (b = g ∧ (a < ki ∨ a = f)) ∨ (a = f ∧ b < kj) then D1 M f g w a b else M a b
  si : ∀ u, u ∈ si ↔ u < ki ∧ Ci M f g w u
  sj : ∀ u, u ∈ sj ↔ u < kj ∧ Cj M f g w u

section
variable {M : DlM.Mat} {f g : Nat} {w : Int} {n : Nat} {K B : Int} {shp : List Nat × List Nat}
  (hy : UHyp n K B M f g w) (hfit : Fits n shp)
include hy hfit

theorem D1_fg : D1 M f g w f g = w := by
  have h1 := hy.diag f hy.hf
  have h2 := hy.imp
  have h3 := hy.hInf; have h4 := hy.hB; have h5 := hy.hK
  simp only [D1, if_true]
  rw [if_pos ⟨by omega, by omega⟩]; omega

theorem D1_gg : D1 M f g w g g = 0 := by
  have h1 := hy.diag g hy.hg
  have h2 := hy.cyc
  simp only [D1, if_true]
  rw [if_neg (by omega)]; omega

theorem step1 {u : Nat} {t : Dl Int} {si sj : List Nat} (hP : PP M f g w n shp u u t si sj) (hu : u < n)
    (ups : List (Nat × Nat)) (y : Nat) {t1 : Dl Int} {si1 : List Nat} {ups1 : List (Nat × Nat)}
    (heq : (if (idlOps.finiteGuard (d idlOps t u f) && idlOps.lt (d idlOps t u f) (idlOps.sub (d idlOps t u g) w)) = true then
        (wr t u g (idlOps.add (d idlOps t u f) w) y, si ++ [u], ups ++ [(u, g), (g, u)])
      else (t, si, ups)) = (t1, si1, ups1)) :
    PP M f g w n shp (u + 1) u t1 si1 sj := by
  have hf := hy.hf; have hg := hy.hg; have hfg := hy.hfg
  have rf : d idlOps t u f = M u f := by
    rw [hP.mat]; rw [if_neg (by omega)]
  have rg : d idlOps t u g = if u = f then w else M u g := by
    rw [hP.mat]
    by_cases huf : u = f
    · subst huf; rw [if_pos (by omega), if_pos rfl, D1_fg hy hfit]
    · rw [if_neg (by omega), if_neg huf]
  have hfitt : Fits n (shape t) := by rw [hP.shp]; exact hfit
  have b1 := hy.bnd u f hu hf
  have b2 := hy.bnd u g hu hg
  have hdf := hy.diag f hf
  have hiff : ((idlOps.finiteGuard (d idlOps t u f) && idlOps.lt (d idlOps t u f) (idlOps.sub (d idlOps t u g) w)) = true)
      ↔ Ci M f g w u := by
    rw [test_iff, rf, rg]
    unfold Ci
    by_cases huf : u = f
    · subst huf; simp only [if_true]; omega
    · simp only [if_neg huf]; omega
  by_cases hc : Ci M f g w u
  · rw [if_pos (hiff.mpr hc), add_eq, rf] at heq
    cases heq
    refine ⟨by rw [nVars_wr, hP.nv], by rw [shape_wr, hP.shp], ?_, ?_, hP.sj⟩
    · intro a b
      rw [d_wr hfitt hu hg]
      by_cases hab : a = u ∧ b = g
      · rw [if_pos hab, hab.1, hab.2, if_pos (by omega)]
        unfold Ci at hc
        simp only [D1, if_true]
        rw [if_pos ⟨hc.2.1, hc.2.2⟩]
      · rw [if_neg hab, hP.mat]
        by_cases hcond : (b = g ∧ (a < u ∨ a = f)) ∨ (a = f ∧ b < u)
        · rw [if_pos hcond, if_pos (by omega)]
        · rw [if_neg hcond, if_neg (by omega)]
    · intro v
      rw [List.mem_append, hP.si, List.mem_singleton]
      constructor
      · rintro (⟨h1, h2⟩ | rfl)
        · exact ⟨by omega, h2⟩
        · exact ⟨by omega, hc⟩
      · rintro ⟨h1, h2⟩
        by_cases hvu : v = u
        · right; exact hvu
        · left; exact ⟨by omega, h2⟩
  · rw [if_neg (fun h => hc (hiff.mp h))] at heq
    cases heq
    refine ⟨hP.nv, hP.shp, ?_, ?_, hP.sj⟩
    · intro a b
      by_cases hab : a = u ∧ b = g
      · rw [hab.1, hab.2, rg, if_pos (show (g = g ∧ (u < u + 1 ∨ u = f)) ∨ (u = f ∧ g < u) from by omega)]
        by_cases huf : u = f
        · rw [if_pos huf, huf, D1_fg hy hfit]
        · rw [if_neg huf]
          unfold Ci at hc
          simp only [D1, if_true]
          rw [if_neg (fun h => hc ⟨huf, h.1, h.2⟩)]
      · rw [hP.mat]
        by_cases hcond : (b = g ∧ (a < u ∨ a = f)) ∨ (a = f ∧ b < u)
        · rw [if_pos hcond, if_pos (by omega)]
        · rw [if_neg hcond, if_neg (by omega)]
    · intro v
      rw [hP.si]
      constructor
      · rintro ⟨h1, h2⟩; exact ⟨by omega, h2⟩
      · rintro ⟨h1, h2⟩
        by_cases hvu : v = u
        · subst hvu; exact absurd h2 hc
        · exact ⟨by omega, h2⟩

theorem step2 {u : Nat} {t : Dl Int} {si sj : List Nat} (hP : PP M f g w n shp (u + 1) u t si sj) (hu : u < n) (y : Nat) :
    ((idlOps.finiteGuard (d idlOps t g u) && idlOps.lt (d idlOps t g u) (idlOps.sub (d idlOps t f u) w)) = true →
      PP M f g w n shp (u + 1) (u + 1) (wr t f u (idlOps.add (d idlOps t g u) w) y) si (sj ++ [u])) ∧
    (¬ (idlOps.finiteGuard (d idlOps t g u) && idlOps.lt (d idlOps t g u) (idlOps.sub (d idlOps t f u) w)) = true →
      PP M f g w n shp (u + 1) (u + 1) t si sj) := by
  have hf := hy.hf; have hg := hy.hg; have hfg := hy.hfg
  have rg : d idlOps t g u = M g u := by
    rw [hP.mat]
    by_cases hug : u = g
    · rw [if_pos (by omega), hug, D1_gg hy hfit, hy.diag g hg]
    · rw [if_neg (by omega)]
  have rfu : d idlOps t f u = if u = g then w else M f u := by
    rw [hP.mat]
    by_cases hug : u = g
    · rw [if_pos (by omega), if_pos hug, hug, D1_fg hy hfit]
    · rw [if_neg (by omega), if_neg hug]
  have hfitt : Fits n (shape t) := by rw [hP.shp]; exact hfit
  have b1 := hy.bnd g u hg hu
  have b2 := hy.bnd f u hf hu
  have hdg := hy.diag g hg
  have hiff : ((idlOps.finiteGuard (d idlOps t g u) && idlOps.lt (d idlOps t g u) (idlOps.sub (d idlOps t f u) w)) = true)
      ↔ Cj M f g w u := by
    rw [test_iff, rg, rfu]
    unfold Cj
    by_cases hug : u = g
    · subst hug; simp only [if_true]; omega
    · simp only [if_neg hug]; omega
  constructor
  · intro hc0
    have hc := hiff.mp hc0
    rw [add_eq, rg]
    refine ⟨by rw [nVars_wr, hP.nv], by rw [shape_wr, hP.shp], ?_, hP.si, ?_⟩
    · intro a b
      rw [d_wr hfitt hf hu]
      by_cases hab : a = f ∧ b = u
      · rw [if_pos hab, hab.1, hab.2, if_pos (by omega)]
        unfold Cj at hc
        simp only [D1, if_neg hc.1, if_true]
        rw [if_pos ⟨hc.2.1, hc.2.2⟩]
      · rw [if_neg hab, hP.mat]
        by_cases hcond : (b = g ∧ (a < u + 1 ∨ a = f)) ∨ (a = f ∧ b < u)
        · rw [if_pos hcond, if_pos (by omega)]
        · rw [if_neg hcond, if_neg (by omega)]
    · intro v
      rw [List.mem_append, hP.sj, List.mem_singleton]
      constructor
      · rintro (⟨h1, h2⟩ | rfl)
        · exact ⟨by omega, h2⟩
        · exact ⟨by omega, hc⟩
      · rintro ⟨h1, h2⟩
        by_cases hvu : v = u
        · right; exact hvu
        · left; exact ⟨by omega, h2⟩
  · intro hc0
    have hc : ¬ Cj M f g w u := fun h => hc0 (hiff.mpr h)
    refine ⟨hP.nv, hP.shp, ?_, hP.si, ?_⟩
    · intro a b
      by_cases hab : a = f ∧ b = u
      · rw [hab.1, hab.2, rfu, if_pos (show (u = g ∧ (f < u + 1 ∨ f = f)) ∨ (f = f ∧ u < u + 1) from by omega)]
        by_cases hug : u = g
        · rw [if_pos hug, hug, D1_fg hy hfit]
        · rw [if_neg hug]
          unfold Cj at hc
          simp only [D1, if_neg hug, if_true]
          rw [if_neg (fun h => hc ⟨hug, h.1, h.2⟩)]
      · rw [hP.mat]
        by_cases hcond : (b = g ∧ (a < u + 1 ∨ a = f)) ∨ (a = f ∧ b < u)
        · rw [if_pos hcond, if_pos (by omega)]
        · rw [if_neg hcond, if_neg (by omega)]
    · intro v
      rw [hP.sj]
      constructor
      · rintro ⟨h1, h2⟩; exact ⟨by omega, h2⟩
      · rintro ⟨h1, h2⟩
        by_cases hvu : v = u
        · subst hvu; exact absurd h2 hc
        · exact ⟨by omega, h2⟩

/-- the first loop establishes the phase-1 matrix `D1` and the two index sets -/
theorem phase1_spec : ∀ (fuel : Nat) (t0 : Dl Int) (u : Nat) (t : Dl Int) (si sj : List Nat) (ups : List (Nat × Nat)),
    u + fuel = n → PP M f g w n shp u u t si sj →
    PP M f g w n shp n n (phase1 idlOps t0 f g w fuel u (t, si, sj, ups)).1
      (phase1 idlOps t0 f g w fuel u (t, si, sj, ups)).2.1
      (phase1 idlOps t0 f g w fuel u (t, si, sj, ups)).2.2.1 := by
  intro fuel
  induction fuel with
  | zero =>
    intro t0 u t si sj ups hu hP
    have : u = n := by omega
    subst this
    simpa [phase1] using hP
  | succ m ih =>
    intro t0 u t si sj ups hu hP
    rw [phase1]
    split
    rename_i t1 si1 ups1 heq1
    have q1 := step1 hy hfit hP (by omega) ups f heq1
    have q2 := step2 hy hfit q1 (by omega) (p (setDist idlOps t1 f u (idlOps.add (d idlOps t1 g u) w)) g u)
    dsimp only
    split
    · rename_i hc
      exact ih _ _ _ _ _ _ (by omega) (q2.1 hc)
    · rename_i hc
      exact ih _ _ _ _ _ _ (by omega) (q2.2 hc)

/-! ### phase 2 -/

/-- the body of the inner loop of phase 2 -/
def innerF (g i : Nat) : Dl Int × List (Nat × Nat) → Nat → Dl Int × List (Nat × Nat) :=
  fun acc j =>
    let (t, ups) := acc
    if i != j && idlOps.lt (idlOps.add (d idlOps t i g) (d idlOps t g j)) (d idlOps t i j) then
      let t := setDist idlOps t i j (idlOps.add (d idlOps t i g) (d idlOps t g j))
      let t := setPred t i j (p t g j)
      (t, ups ++ [(i, j), (j, i)])
    else (t, ups)

omit hy hfit in
theorem phase2_eq (t : Dl Int) (g : Nat) (si sj : List Nat) (ups : List (Nat × Nat)) :
    phase2 idlOps t g si sj ups = si.foldl (fun acc i => sj.foldl (innerF g i) acc) (t, ups) := rfl

omit hy hfit in
theorem test2_iff (i j : Nat) (x y z : Int) :
    (i != j && idlOps.lt (idlOps.add x y) z) = true ↔ (i ≠ j ∧ x + y < z) := by
  simp [idlOps]

/-- invariant of the second loop: every entry is the phase-1 value `G` or already the final value;
    row `g` and column `g` are never written; the pairs in `S` are final -/
structure Q2 (M : DlM.Mat) (f g : Nat) (w : Int) (n : Nat) (shp : List Nat × List Nat) (G : DlM.Mat)
    (S : Nat → Nat → Prop) (t : Dl Int) : Prop where
  nv : t.nVars = n
  shp : shape t = shp
  mat : ∀ a b, d idlOps t a b = G a b ∨ (a < n ∧ b < n ∧ d idlOps t a b = DlM.upd M f g w a b)
  colg : ∀ a, d idlOps t a g = G a g
  rowg : ∀ b, d idlOps t g b = G g b
  fin : ∀ a b, S a b → d idlOps t a b = DlM.upd M f g w a b

theorem upd_diag (a : Nat) (ha : a < n) : DlM.upd M f g w a a = 0 := by
  have h0 := hy.diag a ha
  rcases DlM.upd_cases M f g w a a with hc | ⟨h1, h2, hc⟩
  · rw [hc, h0]
  · obtain ⟨hgf, hle⟩ := hy.closed g f a hy.hg hy.hf ha h2 h1
    have := DlM.upd_le_old M f g w a a
    rcases hy.cyc with hh | hh
    · exact absurd hh hgf
    · omega

theorem inner_step {G : DlM.Mat} (hG : ∀ a b, a < n → b < n → G a b = D1 M f g w a b)
    {S : Nat → Nat → Prop} {i j : Nat} (hi : i < n) (hj : j < n) (ci : Ci M f g w i) (cj : Cj M f g w j)
    (acc : Dl Int × List (Nat × Nat)) (hQ : Q2 M f g w n shp G S acc.1) :
    Q2 M f g w n shp G (fun a b => S a b ∨ (a = i ∧ b = j)) (innerF g i acc j).1 := by
  obtain ⟨t, ups⟩ := acc
  unfold innerF
  have hf := hy.hf; have hg := hy.hg; have hfg := hy.hfg
  obtain ⟨ci1, ci2, ci3⟩ := ci
  obtain ⟨cj1, cj2, cj3⟩ := cj
  have hdg := hy.diag g hg
  have hig : i ≠ g := by
    intro h; subst h
    rcases hy.cyc with hh | hh
    · exact ci2 hh
    · omega
  have r1 : d idlOps t i g = M i f + w := by
    rw [hQ.colg, hG i g hi hg]; simp only [D1, if_true]; rw [if_pos ⟨ci2, ci3⟩]
  have r2 : d idlOps t g j = M g j := by
    rw [hQ.rowg, hG g j hg hj]; simp only [D1, if_neg cj1, if_neg (Ne.symm hfg)]
  have r3 : G i j = M i j := by
    rw [hG i j hi hj]; simp only [D1, if_neg cj1, if_neg ci1]
  have hF : DlM.upd M f g w i j = if M i f + w + M g j < M i j then M i f + w + M g j else M i j := by
    unfold DlM.upd
    by_cases hlt : M i f + w + M g j < M i j
    · rw [if_pos ⟨ci2, cj2, hlt⟩, if_pos hlt]
    · rw [if_neg (fun h => hlt h.2.2), if_neg hlt]
  have hfitt : Fits n (shape t) := by rw [hQ.shp]; exact hfit
  have hcur := hQ.mat i j
  dsimp only
  by_cases hc : (i != j && idlOps.lt (idlOps.add (d idlOps t i g) (d idlOps t g j)) (d idlOps t i j)) = true
  · rw [if_pos hc]
    rw [test2_iff, r1, r2] at hc
    have hnew : M i f + w + M g j = DlM.upd M f g w i j := by
      rw [hF]
      rcases hcur with h1 | ⟨_, _, h1⟩
      · rw [h1, r3] at hc; rw [if_pos hc.2]
      · rw [h1, hF] at hc
        split at hc <;> omega
    show Q2 M f g w n shp G _ (wr t i j (idlOps.add (d idlOps t i g) (d idlOps t g j)) (p _ g j))
    rw [add_eq, r1, r2]
    refine ⟨by rw [nVars_wr, hQ.nv], by rw [shape_wr, hQ.shp], ?_, ?_, ?_, ?_⟩
    · intro a b
      rw [d_wr hfitt hi hj]
      by_cases hab : a = i ∧ b = j
      · rw [if_pos hab, hab.1, hab.2]; right; exact ⟨hi, hj, hnew⟩
      · rw [if_neg hab]; exact hQ.mat a b
    · intro a
      rw [d_wr hfitt hi hj, if_neg (by omega)]; exact hQ.colg a
    · intro b
      rw [d_wr hfitt hi hj, if_neg (by omega)]; exact hQ.rowg b
    · intro a b hS
      rw [d_wr hfitt hi hj]
      by_cases hab : a = i ∧ b = j
      · rw [if_pos hab, hab.1, hab.2]; exact hnew
      · rw [if_neg hab]
        rcases hS with hS | hS
        · exact hQ.fin a b hS
        · exact absurd hS hab
  · rw [if_neg hc]
    rw [test2_iff, r1, r2] at hc
    refine ⟨hQ.nv, hQ.shp, hQ.mat, hQ.colg, hQ.rowg, ?_⟩
    intro a b hS
    rcases hS with hS | ⟨rfl, rfl⟩
    · exact hQ.fin a b hS
    · show d idlOps t a b = DlM.upd M f g w a b
      rcases hcur with h1 | ⟨_, _, h1⟩
      · by_cases hab : a = b
        · subst hab
          rw [h1, r3, upd_diag hy hfit a hi, hy.diag a hi]
        · rw [h1, r3] at hc ⊢
          rw [hF, if_neg (fun h => hc ⟨hab, h⟩)]
      · exact h1

omit hy hfit in
theorem Q2.mono {G : DlM.Mat} {S S' : Nat → Nat → Prop} {t : Dl Int} (h : Q2 M f g w n shp G S t)
    (hS : ∀ a b, S' a b → S a b) : Q2 M f g w n shp G S' t :=
  ⟨h.nv, h.shp, h.mat, h.colg, h.rowg, fun a b hs => h.fin a b (hS a b hs)⟩

theorem inner_fold {G : DlM.Mat} (hG : ∀ a b, a < n → b < n → G a b = D1 M f g w a b)
    {i : Nat} (hi : i < n) (ci : Ci M f g w i) :
    ∀ (l : List Nat), (∀ j ∈ l, j < n ∧ Cj M f g w j) → ∀ (S : Nat → Nat → Prop) (acc : Dl Int × List (Nat × Nat)),
      Q2 M f g w n shp G S acc.1 →
      Q2 M f g w n shp G (fun a b => S a b ∨ (a = i ∧ b ∈ l)) (l.foldl (innerF g i) acc).1 := by
  intro l
  induction l with
  | nil =>
    intro _ S acc hQ
    exact hQ.mono (fun a b h => by simpa using h)
  | cons j l ih =>
    intro hl S acc hQ
    rw [List.foldl_cons]
    have h1 := inner_step hy hfit hG hi (hl j List.mem_cons_self).1 ci (hl j List.mem_cons_self).2 acc hQ
    have h2 := ih (fun j' hj' => hl j' (List.mem_cons_of_mem _ hj')) _ _ h1
    refine h2.mono ?_
    intro a b h
    rcases h with h | ⟨h3, h4⟩
    · left; left; exact h
    · rcases List.mem_cons.mp h4 with h5 | h5
      · left; right; exact ⟨h3, h5⟩
      · right; exact ⟨h3, h5⟩

theorem outer_fold {G : DlM.Mat} (hG : ∀ a b, a < n → b < n → G a b = D1 M f g w a b)
    (sj : List Nat) (hsj : ∀ j ∈ sj, j < n ∧ Cj M f g w j) :
    ∀ (l : List Nat), (∀ i ∈ l, i < n ∧ Ci M f g w i) → ∀ (S : Nat → Nat → Prop) (acc : Dl Int × List (Nat × Nat)),
      Q2 M f g w n shp G S acc.1 →
      Q2 M f g w n shp G (fun a b => S a b ∨ (a ∈ l ∧ b ∈ sj))
        (l.foldl (fun acc i => sj.foldl (innerF g i) acc) acc).1 := by
  intro l
  induction l with
  | nil =>
    intro _ S acc hQ
    exact hQ.mono (fun a b h => by simpa using h)
  | cons i l ih =>
    intro hl S acc hQ
    rw [List.foldl_cons]
    have h1 := inner_fold hy hfit hG (hl i List.mem_cons_self).1 (hl i List.mem_cons_self).2 sj hsj S acc hQ
    have h2 := ih (fun i' hi' => hl i' (List.mem_cons_of_mem _ hi')) _ _ h1
    refine h2.mono ?_
    intro a b h
    rcases h with h | ⟨h3, h4⟩
    · left; left; exact h
    · rcases List.mem_cons.mp h3 with h5 | h5
      · left; right; exact ⟨h5, h4⟩
      · right; exact ⟨h5, h4⟩

/-- outside `set_i × set_j` the phase-1 matrix is already the final one -/
theorem D1_eq_upd (a b : Nat) (ha : a < n) (hb : b < n) (hnot : ¬ (Ci M f g w a ∧ Cj M f g w b)) :
    D1 M f g w a b = DlM.upd M f g w a b := by
  have hf := hy.hf; have hg := hy.hg; have hfg := hy.hfg
  have hdg := hy.diag g hg
  have hdf := hy.diag f hf
  have hI := hy.hInf; have hB := hy.hB; have hK := hy.hK; have hw := hy.hw
  unfold D1 DlM.upd
  by_cases hbg : b = g
  · subst hbg
    rw [if_pos rfl, hdg]
    by_cases hc : M a f ≠ idlInf ∧ M a f + w < M a b
    · rw [if_pos hc, if_pos ⟨hc.1, by omega, by omega⟩]; omega
    · rw [if_neg hc, if_neg (fun h => hc ⟨h.1, by omega⟩)]
  · rw [if_neg hbg]
    by_cases haf : a = f
    · subst haf
      rw [if_pos rfl, hdf]
      by_cases hc : M g b ≠ idlInf ∧ M g b + w < M a b
      · rw [if_pos hc, if_pos ⟨by omega, hc.1, by omega⟩]; omega
      · rw [if_neg hc, if_neg (fun h => hc ⟨h.2.1, by omega⟩)]
    · rw [if_neg haf]
      by_cases hc : M a f ≠ idlInf ∧ M g b ≠ idlInf ∧ M a f + w + M g b < M a b
      · exfalso
        obtain ⟨c1, c2, c3⟩ := hc
        have b1 := hy.bnd a f ha hf
        have b2 := hy.bnd g b hg hb
        have b3 := hy.bnd a g ha hg
        have b4 := hy.bnd f b hf hb
        by_cases hci : Ci M f g w a
        · have hcj : ¬ Cj M f g w b := fun h => hnot ⟨hci, h⟩
          have h1 : ¬ (M g b + w < M f b) := fun h => hcj ⟨hbg, c2, h⟩
          have hfb : M f b ≠ idlInf := by omega
          have := (hy.closed a b f ha hb hf c1 hfb).2
          omega
        · have h1 : ¬ (M a f + w < M a g) := fun h => hci ⟨haf, c1, h⟩
          have hag : M a g ≠ idlInf := by omega
          have := (hy.closed a b g ha hb hg hag c2).2
          omega
      · rw [if_neg hc]

/-- the effect of `propagate(from, to, dist)` on the distance matrix -/
theorem propagateEdge_spec (s : Sat) (t : Dl Int) (hM : M = d idlOps t) (hn : t.nVars = n) (hshp : shape t = shp) :
    let t' := (propagateEdge idlOps s t f g w).2
    t'.nVars = n ∧ shape t' = shp ∧
    ∀ a b, d idlOps t' a b = if a < n ∧ b < n then DlM.upd M f g w a b else M a b := by
  have hf := hy.hf; have hg := hy.hg; have hfg := hy.hfg
  have hfitt : Fits n (shape t) := by rw [hshp]; exact hfit
  -- the two initial writes
  have hP0 : PP M f g w n shp 0 0 (wr t f g w f) [] [] := by
    refine ⟨by rw [nVars_wr, hn], by rw [shape_wr, hshp], ?_, by simp, by simp⟩
    intro a b
    rw [d_wr hfitt hf hg]
    by_cases hab : a = f ∧ b = g
    · rw [if_pos hab, hab.1, hab.2, if_pos (by omega), D1_fg hy hfit]
    · rw [if_neg hab, if_neg (by omega), hM]
  have hnv0 : (wr t f g w f).nVars = n := by rw [nVars_wr, hn]
  have hP1 := phase1_spec hy hfit n (wr t f g w f) 0 (wr t f g w f) [] [] [(f, g), (g, f)] (by omega) hP0
  -- phase 2
  have e : ∀ m, m = (wr t f g w f).nVars → (propagateEdge idlOps s t f g w).2 =
      (phase2 idlOps (phase1 idlOps (wr t f g w f) f g w m 0 (wr t f g w f, [], [], [(f, g), (g, f)])).1 g
        (phase1 idlOps (wr t f g w f) f g w m 0 (wr t f g w f, [], [], [(f, g), (g, f)])).2.1
        (phase1 idlOps (wr t f g w f) f g w m 0 (wr t f g w f, [], [], [(f, g), (g, f)])).2.2.1
        (phase1 idlOps (wr t f g w f) f g w m 0 (wr t f g w f, [], [], [(f, g), (g, f)])).2.2.2).1 := by
    intro m hm; subst hm; rfl
  have e' := e n hnv0.symm
  generalize phase1 idlOps (wr t f g w f) f g w n 0 (wr t f g w f, [], [], [(f, g), (g, f)]) = r at hP1 e'
  obtain ⟨t1, si, sj, ups⟩ := r
  simp only at hP1 e'
  have hG : ∀ a b, a < n → b < n → d idlOps t1 a b = D1 M f g w a b := by
    intro a b ha hb
    rw [hP1.mat]
    by_cases hcond : (b = g ∧ (a < n ∨ a = f)) ∨ (a = f ∧ b < n)
    · rw [if_pos hcond]
    · rw [if_neg hcond]
      unfold D1
      rw [if_neg (by omega), if_neg (by omega)]
  have hGout : ∀ a b, ¬ (a < n ∧ b < n) → d idlOps t1 a b = M a b := by
    intro a b hab
    rw [hP1.mat, if_neg (by omega)]
  have hQ0 : Q2 M f g w n shp (d idlOps t1) (fun _ _ => False) (t1, ups).1 :=
    ⟨hP1.nv, hP1.shp, fun a b => Or.inl rfl, fun a => rfl, fun b => rfl, fun a b h => h.elim⟩
  have hQ := outer_fold hy hfit hG sj (fun j hj => ⟨((hP1.sj j).mp hj).1, ((hP1.sj j).mp hj).2⟩)
    si (fun i hi => ⟨((hP1.si i).mp hi).1, ((hP1.si i).mp hi).2⟩) _ _ hQ0
  rw [← phase2_eq, ← e'] at hQ
  refine ⟨hQ.nv, hQ.shp, ?_⟩
  intro a b
  by_cases hab : a < n ∧ b < n
  · rw [if_pos hab]
    by_cases hc : Ci M f g w a ∧ Cj M f g w b
    · exact hQ.fin a b (Or.inr ⟨(hP1.si a).mpr ⟨hab.1, hc.1⟩, (hP1.sj b).mpr ⟨hab.2, hc.2⟩⟩)
    · rcases hQ.mat a b with h1 | ⟨_, _, h1⟩
      · rw [h1, hG a b hab.1 hab.2, D1_eq_upd hy hfit a b hab.1 hab.2 hc]
      · exact h1
  · rw [if_neg hab]
    rcases hQ.mat a b with h1 | ⟨h2, h3, _⟩
    · rw [h1, hGout a b hab]
    · exact absurd ⟨h2, h3⟩ hab
end

end Dl
end Oratio
