/-
Helper lemmas for `Properties/C09Reach.lean`, part 5: the value moves of `pivot_and_update`
(`Lra.pauPre`): the row equations keep holding at the current assignment, all values stay finite.
-/
import OratioModel
import OratioProofs.Lemmas.LraBridgeCheck
import OratioProofs.Lemmas.LraReachOrd

namespace Oratio
namespace Lra
open Lin

/-- the loop body of `pivot_and_update` on `vals` -/
def pauStepV (t : Lra) (xi xj : Nat) (θ : IR) (vals : List IR) (x : Nat) : List IR :=
  if x != xi then
    vals.set x (IR.addAssign (vals.getD x (IR.ofR R.zero)) (IR.rMul (updCoef t xj x) θ))
  else vals

theorem pau_fold_r (t : Lra) (xi xj : Nat) (θ : IR) : ∀ (W : List Nat) (u : Lra), u.tableau = t.tableau →
    W.foldl (fun t x =>
      if x != xi then
        let a := (Lin.find ((t.rowOf x).getD Lin.empty).vars xj).getD R.zero
        t.setVal x (IR.addAssign (t.value x) (IR.rMul a θ))
      else t) u =
      { u with vals := W.foldl (pauStepV t xi xj θ) u.vals } := by
  intro W
  induction W with
  | nil => intro u _; rfl
  | cons x W ih =>
    intro u hu
    rw [List.foldl_cons, List.foldl_cons]
    have hrow : u.rowOf x = t.rowOf x := by rw [rowOf_eq, rowOf_eq, hu]
    have hstep : (if x != xi then
          let a := (Lin.find ((u.rowOf x).getD Lin.empty).vars xj).getD R.zero
          u.setVal x (IR.addAssign (u.value x) (IR.rMul a θ))
        else u) = { u with vals := pauStepV t xi xj θ u.vals x } := by
      unfold pauStepV
      split
      · simp only [hrow]
        rfl
      · rfl
    rw [hstep, ih { u with vals := pauStepV t xi xj θ u.vals x } hu]

/-- the increment of `x_j` -/
def pauTheta (t : Lra) (xi xj : Nat) (v : IR) : IR := IR.divR (IR.sub v (t.value xi)) (updCoef t xj xi)

/-- the values after the moves -/
def pauVals (t : Lra) (xi xj : Nat) (v : IR) : List IR :=
  (t.tWatches.getD xj []).foldl (pauStepV t xi xj (pauTheta t xi xj v))
    ((t.vals.set xi v).set xj (IR.addAssign ((t.vals.set xi v).getD xj (IR.ofR R.zero)) (pauTheta t xi xj v)))

theorem pauPre_eq_r (t : Lra) (xi xj : Nat) (v : IR) :
    pauPre t xi xj v =
      { t with vals := pauVals t xi xj v } := by
  unfold pauPre
  simp only
  have := pau_fold_r t xi xj (pauTheta t xi xj v) (t.tWatches.getD xj [])
    ((t.setVal xi v).setVal xj (IR.addAssign ((t.setVal xi v).value xj) (pauTheta t xi xj v))) rfl
  exact this

theorem pauFold_spec_r (t : Lra) (xi xj : Nat) (θ : IR) : ∀ (W : List Nat) (vals : List IR),
    W.Nodup → (∀ x ∈ W, x < vals.length) →
    (W.foldl (pauStepV t xi xj θ) vals).length = vals.length ∧
    ∀ y, (W.foldl (pauStepV t xi xj θ) vals).getD y (IR.ofR R.zero) =
      if y ∈ W ∧ y ≠ xi then IR.addAssign (vals.getD y (IR.ofR R.zero)) (IR.rMul (updCoef t xj y) θ)
      else vals.getD y (IR.ofR R.zero) := by
  intro W
  induction W with
  | nil => intro vals _ _; exact ⟨rfl, fun y => by simp⟩
  | cons x W ih =>
    intro vals hnd hb
    rw [List.nodup_cons] at hnd
    have hlen1 : (pauStepV t xi xj θ vals x).length = vals.length := by
      unfold pauStepV; split <;> simp
    have hxlt : x < vals.length := hb x List.mem_cons_self
    obtain ⟨i1, i2⟩ := ih (pauStepV t xi xj θ vals x) hnd.2
      (fun y hy => by rw [hlen1]; exact hb y (List.mem_cons_of_mem _ hy))
    rw [List.foldl_cons]
    refine ⟨i1.trans hlen1, ?_⟩
    intro y
    rw [i2 y]
    by_cases hyW : y ∈ W
    · have hyx : x ≠ y := fun h => hnd.1 (h ▸ hyW)
      have hget : (pauStepV t xi xj θ vals x).getD y (IR.ofR R.zero) = vals.getD y (IR.ofR R.zero) := by
        unfold pauStepV
        split
        · rw [getD_set_ne _ _ _ _ _ hyx]
        · rfl
      by_cases hyi : y = xi
      · rw [if_neg (fun h => h.2 hyi), if_neg (fun h => h.2 hyi), hget]
      · rw [if_pos ⟨hyW, hyi⟩, if_pos ⟨List.mem_cons_of_mem _ hyW, hyi⟩, hget]
    · rw [if_neg (fun h => hyW h.1)]
      by_cases hyx : y = x
      · subst hyx
        unfold pauStepV
        by_cases hyi : y = xi
        · rw [if_neg (by simp [hyi]), if_neg (fun h => h.2 hyi)]
        · rw [if_pos (by simp [hyi]), if_pos ⟨List.mem_cons_self, hyi⟩, getD_set_self _ _ _ _ hxlt]
      · rw [if_neg (by simp [hyx, hyW])]
        unfold pauStepV
        split
        · rw [getD_set_ne _ _ _ _ _ (fun h => hyx h.symm)]
        · rfl

/-- `π` commutes with the division by a rational -/
def IsCompDiv (π : IR → R) : Prop := ∀ a c, π (IR.divR a c) = R.div (π a) c

theorem isCompDiv_rat : IsCompDiv IR.rat := fun _ _ => rfl
theorem isCompDiv_inf : IsCompDiv IR.inf := fun _ _ => rfl

/-- the value moves of `pivot_and_update(x_i, x_j, v)` (before the pivot) for one component `π` of
    the values: `x_i` gets `v`, the other basic variables and `x_j` move so that every row keeps
    holding; everything stays finite -/
theorem pau_holds {π : IR → R} (hπ : IsComp π) (hπd : IsCompDiv π) {t : Lra} (ht : TabWF t) {xi xj : Nat}
    {l : Lin} (hl : t.rowOf xi = some l) {aij : R} (hcf : Lin.find l.vars xj = some aij) (hn : aij.num ≠ 0)
    (hfin : ∀ x, R.FinWF (π (t.value x))) {v : IR} (hv : R.FinWF (π v)) (c : Lin → Rat)
    (h : ∀ e ∈ t.tableau, (π (t.value e.1)).toRat = Lin.evalS e.2 (fun x => (π (t.value x)).toRat) - c e.2) :
    (pauPre t xi xj v).tableau = t.tableau ∧ (pauPre t xi xj v).tWatches = t.tWatches ∧
    (pauPre t xi xj v).vals.length = t.vals.length ∧
    (pauPre t xi xj v).value xi = v ∧
    (∀ x, t.rowOf x = none → x ≠ xj → (pauPre t xi xj v).value x = t.value x) ∧
    (∀ x, R.FinWF (π ((pauPre t xi xj v).value x))) ∧
    (∀ e ∈ (pauPre t xi xj v).tableau,
      (π ((pauPre t xi xj v).value e.1)).toRat =
        Lin.evalS e.2 (fun x => (π ((pauPre t xi xj v).value x)).toRat) - c e.2) := by
  obtain ⟨hi, hlen⟩ := (tabWF_iff t).1 ht
  have hkxj : (Lin.find l.vars xj).isSome = true := by rw [hcf]; rfl
  have hxjnb : t.rowOf xj = none := hi.nonbasic xi l xj hl hkxj
  have hxjlen : xj < t.vals.length := hlen ▸ (hi.bound xi l hl).2 xj hkxj
  have hxilen : xi < t.vals.length := hlen ▸ (hi.bound xi l hl).1
  have hne : xj ≠ xi := by
    rintro rfl
    rw [hl] at hxjnb
    cases hxjnb
  have hWnd : (t.tWatches.getD xj []).Nodup :=
    List.Pairwise.imp (fun h => Nat.ne_of_lt h) (getD_sorted hi.wsorted xj)
  have hWbasic : ∀ x ∈ t.tWatches.getD xj [], ∃ l', t.rowOf x = some l' ∧ (Lin.find l'.vars xj).isSome = true :=
    fun x hx => (hi.watch xj x).1 hx
  have hxjW : xj ∉ t.tWatches.getD xj [] := by
    intro hx
    obtain ⟨l', hl', -⟩ := hWbasic xj hx
    rw [hxjnb] at hl'
    cases hl'
  have hWb : ∀ x ∈ t.tWatches.getD xj [], x < t.vals.length := by
    intro x hx
    obtain ⟨l', hl', -⟩ := hWbasic x hx
    rw [← hlen]
    exact (hi.bound x l' hl').1
  -- the values before the loop
  have hlen0 : ((t.vals.set xi v).set xj (IR.addAssign ((t.vals.set xi v).getD xj (IR.ofR R.zero))
      (pauTheta t xi xj v))).length = t.vals.length := by
    rw [List.length_set, List.length_set]
  have hxj0 : (t.vals.set xi v).getD xj (IR.ofR R.zero) = t.value xj := by
    rw [getD_set_ne _ _ _ _ _ (fun h => hne h.symm)]
    rfl
  have hval0 : ∀ y, ((t.vals.set xi v).set xj (IR.addAssign ((t.vals.set xi v).getD xj (IR.ofR R.zero))
      (pauTheta t xi xj v))).getD y (IR.ofR R.zero) =
      if y = xj then IR.addAssign (t.value xj) (pauTheta t xi xj v) else if y = xi then v else t.value y := by
    intro y
    rw [hxj0, getD_set]
    by_cases hy : y = xj
    · subst hy
      rw [if_pos ⟨rfl, by rw [List.length_set]; exact hxjlen⟩, if_pos rfl]
    · rw [if_neg (fun h => hy h.1.symm), if_neg hy, getD_set]
      by_cases hy2 : y = xi
      · subst hy2
        rw [if_pos ⟨rfl, hxilen⟩, if_pos rfl]
      · rw [if_neg (fun h => hy2 h.1.symm), if_neg hy2]
        rfl
  obtain ⟨f1, f2⟩ := pauFold_spec_r t xi xj (pauTheta t xi xj v) _ _ hWnd (fun x hx => by rw [hlen0]; exact hWb x hx)
  -- values after the moves
  have hval : ∀ y, (pauPre t xi xj v).value y =
      if y = xi then v
      else if y = xj then IR.addAssign (t.value xj) (pauTheta t xi xj v)
      else if y ∈ t.tWatches.getD xj [] then
        IR.addAssign (t.value y) (IR.rMul (updCoef t xj y) (pauTheta t xi xj v))
      else t.value y := by
    intro y
    rw [pauPre_eq_r]
    show ((t.tWatches.getD xj []).foldl (pauStepV t xi xj (pauTheta t xi xj v)) _).getD y (IR.ofR R.zero) = _
    rw [f2 y, hval0 y]
    by_cases hyi : y = xi
    · rw [hyi, if_neg (fun h => h.2 rfl), if_neg (fun h => hne h.symm), if_pos rfl, if_pos rfl]
    · by_cases hyj : y = xj
      · rw [hyj, if_neg (fun h => hxjW h.1), if_pos rfl, if_neg hne, if_pos rfl]
      · rw [if_neg hyj, if_neg hyi, if_neg hyi, if_neg hyj]
        by_cases hyW : y ∈ t.tWatches.getD xj []
        · rw [if_pos ⟨hyW, hyi⟩, if_pos hyW]
        · rw [if_neg (fun h => hyW h.1), if_neg hyW]
  have hcoef : ∀ y, R.FinWF (updCoef t xj y) := by
    intro y
    unfold updCoef
    cases hr : t.rowOf y with
    | none => exact R.finWF_zero
    | some l' => exact getD_finWF ((wf_iff l').1 (hi.rows y l' hr)).2.1 xj
  have haij : updCoef t xj xi = aij := by
    unfold updCoef
    rw [hl, Option.getD_some, hcf]
    rfl
  have haw : R.FinWF aij := haij ▸ hcoef xi
  have ha0 : aij.toRat ≠ 0 := toRat_ne_zero haw hn
  have hdelta := toRat_sub hv (hfin xi)
  -- the component of theta
  have hth : R.FinWF (π (pauTheta t xi xj v)) ∧
      (π (pauTheta t xi xj v)).toRat = ((π v).toRat - (π (t.value xi)).toRat) / aij.toRat := by
    unfold pauTheta
    rw [hπd, hπ.sub, haij]
    obtain ⟨d1, d2⟩ := R.div_fin hdelta.1 haw hn
    exact ⟨d1, by rw [d2, hdelta.2]⟩
  have hnewj : R.FinWF (π (IR.addAssign (t.value xj) (pauTheta t xi xj v))) ∧
      (π (IR.addAssign (t.value xj) (pauTheta t xi xj v))).toRat =
        (π (t.value xj)).toRat + (π (pauTheta t xi xj v)).toRat := by
    rw [hπ.add]
    exact ⟨R.finWF_addAssign (hfin xj) hth.1, R.toRat_addAssign (hfin xj) hth.1⟩
  have hnew : ∀ y, R.FinWF (π (IR.addAssign (t.value y) (IR.rMul (updCoef t xj y) (pauTheta t xi xj v)))) ∧
      (π (IR.addAssign (t.value y) (IR.rMul (updCoef t xj y) (pauTheta t xi xj v)))).toRat =
        (π (t.value y)).toRat + (updCoef t xj y).toRat * (π (pauTheta t xi xj v)).toRat := by
    intro y
    rw [hπ.add, hπ.mul]
    have hm := R.mul_fin (hcoef y) hth.1
    refine ⟨R.finWF_addAssign (hfin y) hm.1, ?_⟩
    rw [R.toRat_addAssign (hfin y) hm.1, hm.2]
  have htab : (pauPre t xi xj v).tableau = t.tableau := by rw [pauPre_eq_r]
  refine ⟨htab, by rw [pauPre_eq_r], ?_, ?_, ?_, ?_, ?_⟩
  · rw [pauPre_eq_r]
    show ((t.tWatches.getD xj []).foldl (pauStepV t xi xj (pauTheta t xi xj v)) _).length = _
    rw [f1, hlen0]
  · rw [hval, if_pos rfl]
  · intro x hx hnej
    rw [hval]
    have hxi' : x ≠ xi := by
      rintro rfl
      rw [hl] at hx
      cases hx
    rw [if_neg hxi', if_neg hnej, if_neg]
    intro hxW
    obtain ⟨l', hl', -⟩ := hWbasic x hxW
    rw [hx] at hl'
    cases hl'
  · intro x
    rw [hval]
    split
    · exact hv
    · split
      · exact hnewj.1
      · split
        · exact (hnew x).1
        · exact hfin x
  · rw [htab]
    intro e he
    have hr : t.rowOf e.1 = some e.2 := tabFind_of_mem hi.keys he
    have hexj : e.1 ≠ xj := by
      intro hex
      rw [hex, hxjnb] at hr
      cases hr
    -- the variables of the row other than `xj` keep their values
    have hkeep : ∀ k, (Lin.find e.2.vars k).isSome = true → k ≠ xj →
        (π ((pauPre t xi xj v).value k)).toRat = (π (t.value k)).toRat := by
      intro k hk hkx
      have hknb : t.rowOf k = none := hi.nonbasic e.1 e.2 k hr hk
      have hki : k ≠ xi := by
        rintro rfl
        rw [hl] at hknb
        cases hknb
      rw [hval, if_neg hki, if_neg hkx, if_neg]
      intro hkW
      obtain ⟨l', hl', -⟩ := hWbasic k hkW
      rw [hknb] at hl'
      cases hl'
    have hold := h e he
    rw [evalS_change_one (hi.rows e.1 e.2 hr) xj hkeep]
    have hxjv : (π ((pauPre t xi xj v).value xj)).toRat - (π (t.value xj)).toRat =
        (π (pauTheta t xi xj v)).toRat := by
      rw [hval, if_neg hne, if_pos rfl, hnewj.2]
      ring
    rw [hxjv, hval]
    by_cases hei : e.1 = xi
    · rw [if_pos hei]
      have hel : e.2 = l := by
        rw [hei, hl] at hr
        exact (Option.some.inj hr).symm
      rw [hel, hcf, Option.getD_some, hth.2]
      have hold' := hold
      rw [hei, hel] at hold'
      field_simp
      linarith
    · rw [if_neg hei, if_neg hexj]
      by_cases hW : e.1 ∈ t.tWatches.getD xj []
      · rw [if_pos hW, (hnew e.1).2, hold]
        have hc : updCoef t xj e.1 = (Lin.find e.2.vars xj).getD R.zero := by
          unfold updCoef
          rw [hr]
          rfl
        rw [hc]
        ring
      · rw [if_neg hW]
        have : Lin.find e.2.vars xj = none := by
          cases hf : Lin.find e.2.vars xj with
          | none => rfl
          | some c' => exact absurd ((hi.watch xj e.1).2 ⟨e.2, hr, by rw [hf]; rfl⟩) hW
        rw [this, hold]
        show _ = _ + R.zero.toRat * _ - _
        rw [R.toRat_zero]
        ring

end Lra
end Oratio
