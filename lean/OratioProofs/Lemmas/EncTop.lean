/-
Lemmas for property C13, part 7: initial state, `newVar`, `newClause` at the level of `Sat`;
this file gathers everything `OratioProofs/Properties/C13.lean` needs.
-/
import OratioProofs.Lemmas.EncOps
import OratioProofs.Lemmas.EncProp

namespace Oratio
namespace EncL
open Enc

theorem init_inv : Inv Enc.init := by
  refine ⟨⟨rfl, ?_, ?_⟩, ?_⟩
  · intro c hc; cases hc
  · intro e he; cases he
  · intro e he; cases he

theorem newVar_spec {s : Enc} (h : Inv s) :
    Inv (s.newVar).2 ∧ Extends s (s.newVar).2 ∧ Refines s (s.newVar).2 :=
  ⟨inv_addVars h 1, extends_addVars 1, refines_addVars s 1⟩

theorem new_clause_sem {s : Enc} {c : List Lit} (h : Inv s) (hc : InRange s c) :
    Inv (s.newClause c).2 ∧
    ((s.newClause c).1 = true → ∀ α, Sat α (s.newClause c).2 ↔ (Sat α s ∧ α.clause c = true)) ∧
    ((s.newClause c).1 = false → ∀ α, Sat α s → α.clause c = false) := by
  obtain ⟨k1, k2, _, k4, k5⟩ := newClause_spec h.1 hc
  refine ⟨?_, fun ht α => ?_, fun hf α hα => (k5 hf).2 α hα.2⟩
  · cases hb : (s.newClause c).1 with
    | true =>
      exact inv_of_refines h k1 k2 (fun α hα => ⟨hα.1, ((k4 hb α).1 hα.2).1⟩)
    | false =>
      rw [(k5 hb).1]; exact h
  · constructor
    · rintro ⟨h0, hm⟩
      exact ⟨⟨h0, ((k4 ht α).1 hm).1⟩, ((k4 ht α).1 hm).2⟩
    · rintro ⟨⟨h0, hm⟩, hcl⟩
      exact ⟨h0, (k4 ht α).2 ⟨hm, hcl⟩⟩

end EncL
end Oratio
