/-
Soundness of the interval evaluation `Lra.lbLin` / `Lra.ubLin` (property C11, semantic version), with
infinite bounds and infinitesimal parts; the four tests of `newRel` against a finite constant; what
`propagateLit` asserts for a false literal is the negation.
-/
import OratioModel
import OratioProofs.Lemmas.LraRelSemDefs
import Mathlib.Tactic.Ring
import Mathlib.Tactic.Linarith
import Mathlib.Tactic.NormNum
import Mathlib.Algebra.Order.Field.Rat

namespace Oratio
namespace Lra

/-! ### `R`-level facts on the infinities -/

theorem wf_pinf : R.pinf.WF := by decide
theorem wf_ninf : R.ninf.WF := by decide

theorem infSign_neg_pos {y : Int} (hy : 0 < y) : R.infSign (-1) y = -1 := by
  unfold R.infSign; rw [if_neg]; simp; omega

theorem infSign_pos_neg {y : Int} (hy : y < 0) : R.infSign 1 y = -1 := by
  unfold R.infSign; rw [if_neg]; simp; omega

theorem infSign_pos_pos {y : Int} (hy : 0 < y) : R.infSign 1 y = 1 := by
  unfold R.infSign; rw [if_pos]; simp; omega

theorem infSign_neg_neg {y : Int} (hy : y < 0) : R.infSign (-1) y = 1 := by
  unfold R.infSign; rw [if_pos]; simp; omega

theorem mul_ninf_pos {c : R} (hc : c.WF) (hp : 0 < c.num) : R.mul R.ninf c = R.ninf := by
  rw [R.mul_inf wf_ninf hc (Or.inl rfl)]
  show (if R.infSign (-1) c.num = 1 then R.pinf else R.ninf) = R.ninf
  rw [infSign_neg_pos hp]; rfl

theorem mul_pinf_neg {c : R} (hc : c.WF) (hn : c.num < 0) : R.mul R.pinf c = R.ninf := by
  rw [R.mul_inf wf_pinf hc (Or.inl rfl)]
  show (if R.infSign 1 c.num = 1 then R.pinf else R.ninf) = R.ninf
  rw [infSign_pos_neg hn]; rfl

theorem mul_pinf_pos {c : R} (hc : c.WF) (hp : 0 < c.num) : R.mul R.pinf c = R.pinf := by
  rw [R.mul_inf wf_pinf hc (Or.inl rfl)]
  show (if R.infSign 1 c.num = 1 then R.pinf else R.ninf) = R.pinf
  rw [infSign_pos_pos hp]; rfl

theorem mul_ninf_neg {c : R} (hc : c.WF) (hn : c.num < 0) : R.mul R.ninf c = R.pinf := by
  rw [R.mul_inf wf_ninf hc (Or.inl rfl)]
  show (if R.infSign (-1) c.num = 1 then R.pinf else R.ninf) = R.pinf
  rw [infSign_neg_neg hn]; rfl

theorem add_inf_right (a : R) {b : R} (hb : b.den = 0) : R.add a b = b := by
  unfold R.add; rw [if_pos]; simp [R.isInfinite, hb]

theorem add_ninf_fin {b : R} (hb : b.den ≠ 0) : R.add R.ninf b = R.ninf := by
  unfold R.add
  rw [if_neg (by simp [R.isInfinite, hb, R.ninf]), if_pos (by simp [R.isInfinite, R.ninf])]

theorem add_pinf_fin {b : R} (hb : b.den ≠ 0) : R.add R.pinf b = R.pinf := by
  unfold R.add
  rw [if_neg (by simp [R.isInfinite, hb, R.pinf]), if_pos (by simp [R.isInfinite, R.pinf])]

/-! ### scaling a bound -/

theorem pos_of_isPositive {c : R} (h : c.isPositive = true) : 0 < c.num := by
  simpa [R.isPositive] using h

theorem neg_of_not_isPositive {c : R} (hz : c.num ≠ 0) (h : ¬ c.isPositive = true) : c.num < 0 := by
  have : ¬ 0 < c.num := by simpa [R.isPositive] using h
  omega

/-- positive coefficient, lower bound -/
theorem mulR_low_pos {b : IR} {c : R} (hb : LowOK b) (hc : R.FinWF c) (hp : 0 < c.num) :
    LowOK (IR.mulR b c) ∧ ∀ y, IRBelow b y → IRBelow (IR.mulR b c) (c.toRat * y) := by
  have hcp : 0 < c.toRat := (R.toRat_pos_iff hc).mpr hp
  obtain ⟨hbi, hbr⟩ := hb
  obtain ⟨hi1, hi2⟩ := R.mul_fin hbi hc
  rcases hbr with hbr | hbr
  · obtain ⟨hr1, hr2⟩ := R.mul_fin hbr hc
    refine ⟨⟨hi1, Or.inl hr1⟩, fun y hy => ?_⟩
    rcases hy with hy | ⟨_, hy⟩
    · exact absurd (by rw [hy]; rfl) hbr.2
    · refine Or.inr ⟨hr1.2, ?_⟩
      show (R.mul b.rat c).toRat < c.toRat * y ∨
        ((R.mul b.rat c).toRat = c.toRat * y ∧ (R.mul b.inf c).toRat ≤ 0)
      rw [hr2, hi2]
      rcases hy with hy | ⟨hy1, hy2⟩
      · left; nlinarith
      · right; rw [hy1]; exact ⟨mul_comm _ _, by nlinarith⟩
  · have e : R.mul b.rat c = R.ninf := by rw [hbr]; exact mul_ninf_pos hc.1 hp
    exact ⟨⟨hi1, Or.inr e⟩, fun y _ => Or.inl e⟩

/-- negative coefficient, upper bound -/
theorem mulR_up_neg {b : IR} {c : R} (hb : UpOK b) (hc : R.FinWF c) (hn : c.num < 0) :
    LowOK (IR.mulR b c) ∧ ∀ y, IRAbove b y → IRBelow (IR.mulR b c) (c.toRat * y) := by
  have hcp : c.toRat < 0 := (R.toRat_neg_iff hc).mpr hn
  obtain ⟨hbi, hbr⟩ := hb
  obtain ⟨hi1, hi2⟩ := R.mul_fin hbi hc
  rcases hbr with hbr | hbr
  · obtain ⟨hr1, hr2⟩ := R.mul_fin hbr hc
    refine ⟨⟨hi1, Or.inl hr1⟩, fun y hy => ?_⟩
    rcases hy with hy | ⟨_, hy⟩
    · exact absurd (by rw [hy]; rfl) hbr.2
    · refine Or.inr ⟨hr1.2, ?_⟩
      show (R.mul b.rat c).toRat < c.toRat * y ∨
        ((R.mul b.rat c).toRat = c.toRat * y ∧ (R.mul b.inf c).toRat ≤ 0)
      rw [hr2, hi2]
      rcases hy with hy | ⟨hy1, hy2⟩
      · left; nlinarith
      · right; rw [hy1]; exact ⟨mul_comm _ _, by nlinarith⟩
  · have e : R.mul b.rat c = R.ninf := by rw [hbr]; exact mul_pinf_neg hc.1 hn
    exact ⟨⟨hi1, Or.inr e⟩, fun y _ => Or.inl e⟩

/-- positive coefficient, upper bound -/
theorem mulR_up_pos {b : IR} {c : R} (hb : UpOK b) (hc : R.FinWF c) (hp : 0 < c.num) :
    UpOK (IR.mulR b c) ∧ ∀ y, IRAbove b y → IRAbove (IR.mulR b c) (c.toRat * y) := by
  have hcp : 0 < c.toRat := (R.toRat_pos_iff hc).mpr hp
  obtain ⟨hbi, hbr⟩ := hb
  obtain ⟨hi1, hi2⟩ := R.mul_fin hbi hc
  rcases hbr with hbr | hbr
  · obtain ⟨hr1, hr2⟩ := R.mul_fin hbr hc
    refine ⟨⟨hi1, Or.inl hr1⟩, fun y hy => ?_⟩
    rcases hy with hy | ⟨_, hy⟩
    · exact absurd (by rw [hy]; rfl) hbr.2
    · refine Or.inr ⟨hr1.2, ?_⟩
      show c.toRat * y < (R.mul b.rat c).toRat ∨
        (c.toRat * y = (R.mul b.rat c).toRat ∧ 0 ≤ (R.mul b.inf c).toRat)
      rw [hr2, hi2]
      rcases hy with hy | ⟨hy1, hy2⟩
      · left; nlinarith
      · right; rw [hy1]; exact ⟨mul_comm _ _, by nlinarith⟩
  · have e : R.mul b.rat c = R.pinf := by rw [hbr]; exact mul_pinf_pos hc.1 hp
    exact ⟨⟨hi1, Or.inr e⟩, fun y _ => Or.inl e⟩

/-- negative coefficient, lower bound -/
theorem mulR_low_neg {b : IR} {c : R} (hb : LowOK b) (hc : R.FinWF c) (hn : c.num < 0) :
    UpOK (IR.mulR b c) ∧ ∀ y, IRBelow b y → IRAbove (IR.mulR b c) (c.toRat * y) := by
  have hcp : c.toRat < 0 := (R.toRat_neg_iff hc).mpr hn
  obtain ⟨hbi, hbr⟩ := hb
  obtain ⟨hi1, hi2⟩ := R.mul_fin hbi hc
  rcases hbr with hbr | hbr
  · obtain ⟨hr1, hr2⟩ := R.mul_fin hbr hc
    refine ⟨⟨hi1, Or.inl hr1⟩, fun y hy => ?_⟩
    rcases hy with hy | ⟨_, hy⟩
    · exact absurd (by rw [hy]; rfl) hbr.2
    · refine Or.inr ⟨hr1.2, ?_⟩
      show c.toRat * y < (R.mul b.rat c).toRat ∨
        (c.toRat * y = (R.mul b.rat c).toRat ∧ 0 ≤ (R.mul b.inf c).toRat)
      rw [hr2, hi2]
      rcases hy with hy | ⟨hy1, hy2⟩
      · left; nlinarith
      · right; rw [hy1]; exact ⟨mul_comm _ _, by nlinarith⟩
  · have e : R.mul b.rat c = R.pinf := by rw [hbr]; exact mul_ninf_neg hc.1 hn
    exact ⟨⟨hi1, Or.inr e⟩, fun y _ => Or.inl e⟩

/-! ### adding bounds -/

theorem addAssign_low {a b : IR} (ha : LowOK a) (hb : LowOK b) :
    LowOK (IR.addAssign a b) ∧
      ∀ y z, IRBelow a y → IRBelow b z → IRBelow (IR.addAssign a b) (y + z) := by
  obtain ⟨hai, har⟩ := ha
  obtain ⟨hbi, hbr⟩ := hb
  have hi : R.FinWF (R.addAssign a.inf b.inf) := R.finWF_addAssign hai hbi
  have hiv := R.toRat_addAssign hai hbi
  rcases hbr with hbr | hbr
  · rcases har with har | har
    · have hr : R.FinWF (R.addAssign a.rat b.rat) := R.finWF_addAssign har hbr
      have hrv := R.toRat_addAssign har hbr
      refine ⟨⟨hi, Or.inl hr⟩, fun y z hy hz => ?_⟩
      rcases hy with hy | ⟨_, hy⟩
      · exact absurd (by rw [hy]; rfl) har.2
      rcases hz with hz | ⟨_, hz⟩
      · exact absurd (by rw [hz]; rfl) hbr.2
      refine Or.inr ⟨hr.2, ?_⟩
      show (R.addAssign a.rat b.rat).toRat < y + z ∨
        ((R.addAssign a.rat b.rat).toRat = y + z ∧ (R.addAssign a.inf b.inf).toRat ≤ 0)
      rw [hrv, hiv]
      rcases hy with hy | ⟨hy1, hy2⟩ <;> rcases hz with hz | ⟨hz1, hz2⟩
      · left; linarith
      · left; linarith
      · left; linarith
      · right; exact ⟨by rw [hy1, hz1], by linarith⟩
    · have e : R.addAssign a.rat b.rat = R.ninf := by
        rw [R.addAssign_eq_add, har]; exact add_ninf_fin hbr.2
      exact ⟨⟨hi, Or.inr e⟩, fun _ _ _ _ => Or.inl e⟩
  · have e : R.addAssign a.rat b.rat = R.ninf := by
      rw [R.addAssign_eq_add, hbr]; exact add_inf_right _ rfl
    exact ⟨⟨hi, Or.inr e⟩, fun _ _ _ _ => Or.inl e⟩

theorem addAssign_up {a b : IR} (ha : UpOK a) (hb : UpOK b) :
    UpOK (IR.addAssign a b) ∧
      ∀ y z, IRAbove a y → IRAbove b z → IRAbove (IR.addAssign a b) (y + z) := by
  obtain ⟨hai, har⟩ := ha
  obtain ⟨hbi, hbr⟩ := hb
  have hi : R.FinWF (R.addAssign a.inf b.inf) := R.finWF_addAssign hai hbi
  have hiv := R.toRat_addAssign hai hbi
  rcases hbr with hbr | hbr
  · rcases har with har | har
    · have hr : R.FinWF (R.addAssign a.rat b.rat) := R.finWF_addAssign har hbr
      have hrv := R.toRat_addAssign har hbr
      refine ⟨⟨hi, Or.inl hr⟩, fun y z hy hz => ?_⟩
      rcases hy with hy | ⟨_, hy⟩
      · exact absurd (by rw [hy]; rfl) har.2
      rcases hz with hz | ⟨_, hz⟩
      · exact absurd (by rw [hz]; rfl) hbr.2
      refine Or.inr ⟨hr.2, ?_⟩
      show y + z < (R.addAssign a.rat b.rat).toRat ∨
        (y + z = (R.addAssign a.rat b.rat).toRat ∧ 0 ≤ (R.addAssign a.inf b.inf).toRat)
      rw [hrv, hiv]
      rcases hy with hy | ⟨hy1, hy2⟩ <;> rcases hz with hz | ⟨hz1, hz2⟩
      · left; linarith
      · left; linarith
      · left; linarith
      · right; exact ⟨by rw [hy1, hz1], by linarith⟩
    · have e : R.addAssign a.rat b.rat = R.pinf := by
        rw [R.addAssign_eq_add, har]; exact add_pinf_fin hbr.2
      exact ⟨⟨hi, Or.inr e⟩, fun _ _ _ _ => Or.inl e⟩
  · have e : R.addAssign a.rat b.rat = R.pinf := by
      rw [R.addAssign_eq_add, hbr]; exact add_inf_right _ rfl
    exact ⟨⟨hi, Or.inr e⟩, fun _ _ _ _ => Or.inl e⟩

/-! ### the interval evaluation of a linear expression -/

/-- one term of `lbLin` -/
theorem term_low {t : Lra} (hb : BndWF t) {e : Nat × R} (hc : R.FinWF e.2) (hz : e.2.num ≠ 0)
    (hv : e.1 < t.vals.length) :
    LowOK (IR.mulR (if e.2.isPositive then t.lb e.1 else t.ub e.1) e.2) ∧
      ∀ σ, InBounds t σ →
        IRBelow (IR.mulR (if e.2.isPositive then t.lb e.1 else t.ub e.1) e.2) (e.2.toRat * σ e.1) := by
  by_cases hp : e.2.isPositive = true
  · rw [if_pos hp]
    obtain ⟨h1, h2⟩ := mulR_low_pos (hb e.1 hv).1 hc (pos_of_isPositive hp)
    exact ⟨h1, fun σ hσ => h2 _ (hσ e.1 hv).1⟩
  · rw [if_neg hp]
    obtain ⟨h1, h2⟩ := mulR_up_neg (hb e.1 hv).2 hc (neg_of_not_isPositive hz hp)
    exact ⟨h1, fun σ hσ => h2 _ (hσ e.1 hv).2⟩

/-- one term of `ubLin` -/
theorem term_up {t : Lra} (hb : BndWF t) {e : Nat × R} (hc : R.FinWF e.2) (hz : e.2.num ≠ 0)
    (hv : e.1 < t.vals.length) :
    UpOK (IR.mulR (if e.2.isPositive then t.ub e.1 else t.lb e.1) e.2) ∧
      ∀ σ, InBounds t σ →
        IRAbove (IR.mulR (if e.2.isPositive then t.ub e.1 else t.lb e.1) e.2) (e.2.toRat * σ e.1) := by
  by_cases hp : e.2.isPositive = true
  · rw [if_pos hp]
    obtain ⟨h1, h2⟩ := mulR_up_pos (hb e.1 hv).2 hc (pos_of_isPositive hp)
    exact ⟨h1, fun σ hσ => h2 _ (hσ e.1 hv).2⟩
  · rw [if_neg hp]
    obtain ⟨h1, h2⟩ := mulR_low_neg (hb e.1 hv).1 hc (neg_of_not_isPositive hz hp)
    exact ⟨h1, fun σ hσ => h2 _ (hσ e.1 hv).1⟩

theorem fold_low {t : Lra} (hb : BndWF t) : ∀ (vs : List (Nat × R)) (acc : IR),
    Lin.CoefWF vs → (∀ p ∈ vs, p.2.num ≠ 0) → (∀ p ∈ vs, p.1 < t.vals.length) → LowOK acc →
    LowOK (vs.foldl (fun b e => IR.addAssign b
        (IR.mulR (if e.2.isPositive then t.lb e.1 else t.ub e.1) e.2)) acc) ∧
      ∀ σ, InBounds t σ → ∀ s, IRBelow acc s →
        IRBelow (vs.foldl (fun b e => IR.addAssign b
          (IR.mulR (if e.2.isPositive then t.lb e.1 else t.ub e.1) e.2)) acc) (s + Lin.sumS σ vs)
  | [], acc, _, _, _, ha => by
    refine ⟨ha, fun σ _ s hs => ?_⟩
    rw [Lin.sumS_nil, add_zero]; exact hs
  | e :: vs, acc, hw, hz, hv, ha => by
    obtain ⟨k, c⟩ := e
    obtain ⟨hw1, hw2⟩ := Lin.coefWF_cons.mp hw
    obtain ⟨t1, t2⟩ := term_low hb (e := (k, c)) hw1 (hz _ List.mem_cons_self)
      (hv _ List.mem_cons_self)
    obtain ⟨a1, a2⟩ := addAssign_low ha t1
    obtain ⟨r1, r2⟩ := fold_low hb vs _ hw2 (fun p hp => hz p (List.mem_cons_of_mem _ hp))
      (fun p hp => hv p (List.mem_cons_of_mem _ hp)) a1
    rw [List.foldl_cons]
    refine ⟨r1, fun σ hσ s hs => ?_⟩
    have := r2 σ hσ _ (a2 _ _ hs (t2 σ hσ))
    rw [Lin.sumS_cons, ← add_assoc]; exact this

theorem fold_up {t : Lra} (hb : BndWF t) : ∀ (vs : List (Nat × R)) (acc : IR),
    Lin.CoefWF vs → (∀ p ∈ vs, p.2.num ≠ 0) → (∀ p ∈ vs, p.1 < t.vals.length) → UpOK acc →
    UpOK (vs.foldl (fun b e => IR.addAssign b
        (IR.mulR (if e.2.isPositive then t.ub e.1 else t.lb e.1) e.2)) acc) ∧
      ∀ σ, InBounds t σ → ∀ s, IRAbove acc s →
        IRAbove (vs.foldl (fun b e => IR.addAssign b
          (IR.mulR (if e.2.isPositive then t.ub e.1 else t.lb e.1) e.2)) acc) (s + Lin.sumS σ vs)
  | [], acc, _, _, _, ha => by
    refine ⟨ha, fun σ _ s hs => ?_⟩
    rw [Lin.sumS_nil, add_zero]; exact hs
  | e :: vs, acc, hw, hz, hv, ha => by
    obtain ⟨k, c⟩ := e
    obtain ⟨hw1, hw2⟩ := Lin.coefWF_cons.mp hw
    obtain ⟨t1, t2⟩ := term_up hb (e := (k, c)) hw1 (hz _ List.mem_cons_self)
      (hv _ List.mem_cons_self)
    obtain ⟨a1, a2⟩ := addAssign_up ha t1
    obtain ⟨r1, r2⟩ := fold_up hb vs _ hw2 (fun p hp => hz p (List.mem_cons_of_mem _ hp))
      (fun p hp => hv p (List.mem_cons_of_mem _ hp)) a1
    rw [List.foldl_cons]
    refine ⟨r1, fun σ hσ s hs => ?_⟩
    have := r2 σ hσ _ (a2 _ _ hs (t2 σ hσ))
    rw [Lin.sumS_cons, ← add_assoc]; exact this

theorem ofR_low {k : R} (hk : R.FinWF k) : LowOK (IR.ofR k) ∧ IRBelow (IR.ofR k) k.toRat :=
  ⟨⟨R.finWF_zero, Or.inl hk⟩, Or.inr ⟨hk.2, Or.inr ⟨rfl, by
    show R.zero.toRat ≤ 0
    rw [R.toRat_zero]⟩⟩⟩

theorem ofR_up {k : R} (hk : R.FinWF k) : UpOK (IR.ofR k) ∧ IRAbove (IR.ofR k) k.toRat :=
  ⟨⟨R.finWF_zero, Or.inl hk⟩, Or.inr ⟨hk.2, Or.inr ⟨rfl, by
    show 0 ≤ R.zero.toRat
    rw [R.toRat_zero]⟩⟩⟩

theorem lbLin_ok_s {t : Lra} (hb : BndWF t) {l : Lin} (hl : l.WF) (hnz : NoZero l)
    (hlv : ∀ p ∈ l.vars, p.1 < t.vals.length) : LowOK (t.lbLin l) := by
  obtain ⟨_, hw, hk⟩ := (Lin.wf_iff l).mp hl
  exact (fold_low hb l.vars _ hw hnz hlv (ofR_low hk).1).1

theorem ubLin_ok_s {t : Lra} (hb : BndWF t) {l : Lin} (hl : l.WF) (hnz : NoZero l)
    (hlv : ∀ p ∈ l.vars, p.1 < t.vals.length) : UpOK (t.ubLin l) := by
  obtain ⟨_, hw, hk⟩ := (Lin.wf_iff l).mp hl
  exact (fold_up hb l.vars _ hw hnz hlv (ofR_up hk).1).1

theorem lbLin_below {t : Lra} (hb : BndWF t) {l : Lin} (hl : l.WF) (hnz : NoZero l)
    (hlv : ∀ p ∈ l.vars, p.1 < t.vals.length) {σ : Nat → Rat} (hσ : InBounds t σ) :
    IRBelow (t.lbLin l) (Lin.evalS l σ) := by
  obtain ⟨_, hw, hk⟩ := (Lin.wf_iff l).mp hl
  have := (fold_low hb l.vars _ hw hnz hlv (ofR_low hk).1).2 σ hσ _ (ofR_low hk).2
  rw [Lin.evalS_eq, add_comm]; exact this

theorem ubLin_above {t : Lra} (hb : BndWF t) {l : Lin} (hl : l.WF) (hnz : NoZero l)
    (hlv : ∀ p ∈ l.vars, p.1 < t.vals.length) {σ : Nat → Rat} (hσ : InBounds t σ) :
    IRAbove (t.ubLin l) (Lin.evalS l σ) := by
  obtain ⟨_, hw, hk⟩ := (Lin.wf_iff l).mp hl
  have := (fold_up hb l.vars _ hw hnz hlv (ofR_up hk).1).2 σ hσ _ (ofR_up hk).2
  rw [Lin.evalS_eq, add_comm]; exact this

/-! ### the comparisons of `inf_rational` on finite canonical operands -/

theorem R_lt_fin {a b : R} (ha : R.FinWF a) (hb : R.FinWF b) :
    R.lt a b = true ↔ a.toRat < b.toRat := by
  rw [R.lt_eq_not_le, R.le_fin hb ha]; simp

theorem R_le_fin {a b : R} (ha : R.FinWF a) (hb : R.FinWF b) :
    R.le a b = true ↔ a.toRat ≤ b.toRat := by
  rw [R.le_fin ha hb]; simp

theorem R_eq_fin {a b : R} (ha : R.FinWF a) (hb : R.FinWF b) :
    R.eq a b = true ↔ a.toRat = b.toRat := by
  rw [R.eq_eq_decide, decide_eq_true_iff]
  exact ⟨fun h => by rw [h], R.FinWF.ext ha hb⟩

theorem IR_le_fin {a b : IR} (ha : FinIR_s a) (hb : FinIR_s b) :
    IR.le a b = true ↔
      a.rat.toRat < b.rat.toRat ∨ (a.rat.toRat = b.rat.toRat ∧ a.inf.toRat ≤ b.inf.toRat) := by
  unfold IR.le
  rw [Bool.or_eq_true, Bool.and_eq_true, R_lt_fin ha.1 hb.1, R_eq_fin ha.1 hb.1, R_le_fin ha.2 hb.2]

theorem IR_lt_fin {a b : IR} (ha : FinIR_s a) (hb : FinIR_s b) :
    IR.lt a b = true ↔
      a.rat.toRat < b.rat.toRat ∨ (a.rat.toRat = b.rat.toRat ∧ a.inf.toRat < b.inf.toRat) := by
  unfold IR.lt
  rw [Bool.or_eq_true, Bool.and_eq_true, R_lt_fin ha.1 hb.1, R_eq_fin ha.1 hb.1, R_lt_fin ha.2 hb.2]

theorem IR_ge_fin {a b : IR} (ha : FinIR_s a) (hb : FinIR_s b) :
    IR.ge a b = true ↔
      b.rat.toRat < a.rat.toRat ∨ (a.rat.toRat = b.rat.toRat ∧ b.inf.toRat ≤ a.inf.toRat) := by
  unfold IR.ge
  rw [Bool.or_eq_true, Bool.and_eq_true, R.gt_eq_lt, R.ge_eq_le, R_lt_fin hb.1 ha.1,
    R_eq_fin ha.1 hb.1, R_le_fin hb.2 ha.2]

theorem IR_gt_fin {a b : IR} (ha : FinIR_s a) (hb : FinIR_s b) :
    IR.gt a b = true ↔
      b.rat.toRat < a.rat.toRat ∨ (a.rat.toRat = b.rat.toRat ∧ b.inf.toRat < a.inf.toRat) := by
  unfold IR.gt
  rw [Bool.or_eq_true, Bool.and_eq_true, R.gt_eq_lt, R.gt_eq_lt, R_lt_fin hb.1 ha.1,
    R_eq_fin ha.1 hb.1, R_lt_fin hb.2 ha.2]

theorem R_lt_pinf_fin {c : R} (hc : R.FinWF c) : R.lt R.pinf c = false := by
  rw [R.lt_spec wf_pinf hc.1, R.toE_pinf, hc.toE]; rfl

theorem R_lt_fin_ninf {c : R} (hc : R.FinWF c) : R.lt c R.ninf = false := by
  rw [R.lt_spec hc.1 wf_ninf, R.toE_ninf, hc.toE]; rfl

theorem R_eq_inf_fin {a c : R} (ha : a.den = 0) (hc : R.FinWF c) : R.eq a c = false := by
  rw [R.eq_eq_decide, decide_eq_false_iff_not]
  intro h; rw [h] at ha; exact hc.2 ha

/-! ### the four tests of `newRel` -/

theorem above_of_le {hi c : IR} (hhi : UpOK hi) (hc : FinIR_s c) (h : IR.le hi c = true) {y : Rat}
    (hy : IRAbove hi y) : IRAbove c y := by
  obtain ⟨hi2, hi1⟩ := hhi
  rcases hi1 with hi1 | hi1
  · rw [IR_le_fin ⟨hi1, hi2⟩ hc] at h
    rcases hy with hy | ⟨_, hy⟩
    · exact absurd (by rw [hy]; rfl) hi1.2
    refine Or.inr ⟨hc.1.2, ?_⟩
    rcases h with h | ⟨h1, h2⟩ <;> rcases hy with hy | ⟨hy1, hy2⟩
    · left; linarith
    · left; linarith
    · left; linarith
    · right; exact ⟨by rw [hy1, h1], by linarith⟩
  · exfalso
    unfold IR.le at h
    rw [hi1, R_lt_pinf_fin hc.1, R_eq_inf_fin rfl hc.1] at h
    simp at h

theorem not_above_of_gt {lo c : IR} (hlo : LowOK lo) (hc : FinIR_s c) (h : IR.gt lo c = true) {y : Rat}
    (hy : IRBelow lo y) : ¬ IRAbove c y := by
  obtain ⟨lo2, lo1⟩ := hlo
  rcases lo1 with lo1 | lo1
  · rw [IR_gt_fin ⟨lo1, lo2⟩ hc] at h
    rcases hy with hy | ⟨_, hy⟩
    · exact absurd (by rw [hy]; rfl) lo1.2
    rintro (hc' | ⟨_, hc'⟩)
    · exact absurd (by rw [hc']; rfl) hc.1.2
    rcases h with h | ⟨h1, h2⟩ <;> rcases hy with hy | ⟨hy1, hy2⟩ <;>
      rcases hc' with hc' | ⟨hc1, hc2⟩ <;> linarith
  · exfalso
    unfold IR.gt at h
    rw [lo1, R.gt_eq_lt, R_lt_fin_ninf hc.1, R_eq_inf_fin rfl hc.1] at h
    simp at h

theorem below_of_ge {lo c : IR} (hlo : LowOK lo) (hc : FinIR_s c) (h : IR.ge lo c = true) {y : Rat}
    (hy : IRBelow lo y) : IRBelow c y := by
  obtain ⟨lo2, lo1⟩ := hlo
  rcases lo1 with lo1 | lo1
  · rw [IR_ge_fin ⟨lo1, lo2⟩ hc] at h
    rcases hy with hy | ⟨_, hy⟩
    · exact absurd (by rw [hy]; rfl) lo1.2
    refine Or.inr ⟨hc.1.2, ?_⟩
    rcases h with h | ⟨h1, h2⟩ <;> rcases hy with hy | ⟨hy1, hy2⟩
    · left; linarith
    · left; linarith
    · left; linarith
    · right; exact ⟨by rw [← hy1, h1], by linarith⟩
  · exfalso
    unfold IR.ge at h
    rw [lo1, R.gt_eq_lt, R_lt_fin_ninf hc.1, R_eq_inf_fin rfl hc.1] at h
    simp at h

theorem not_below_of_lt {hi c : IR} (hhi : UpOK hi) (hc : FinIR_s c) (h : IR.lt hi c = true) {y : Rat}
    (hy : IRAbove hi y) : ¬ IRBelow c y := by
  obtain ⟨hi2, hi1⟩ := hhi
  rcases hi1 with hi1 | hi1
  · rw [IR_lt_fin ⟨hi1, hi2⟩ hc] at h
    rcases hy with hy | ⟨_, hy⟩
    · exact absurd (by rw [hy]; rfl) hi1.2
    rintro (hc' | ⟨_, hc'⟩)
    · exact absurd (by rw [hc']; rfl) hc.1.2
    rcases h with h | ⟨h1, h2⟩ <;> rcases hy with hy | ⟨hy1, hy2⟩ <;>
      rcases hc' with hc' | ⟨hc1, hc2⟩ <;> linarith
  · exfalso
    unfold IR.lt at h
    rw [hi1, R_lt_pinf_fin hc.1, R_eq_inf_fin rfl hc.1] at h
    simp at h

/-! ### adding / subtracting `ε` to a simple constant -/

theorem simpleC_inf {v : IR} (hv : SimpleC v) :
    R.FinWF v.inf ∧ (v.inf.toRat = 0 ∨ v.inf.toRat = 1 ∨ v.inf.toRat = -1) := by
  rcases hv.2 with h | h | h <;> rw [h]
  · exact ⟨R.finWF_zero, Or.inl R.toRat_zero⟩
  · exact ⟨R.finWF_ofInt 1, Or.inr (Or.inl R.toRat_one)⟩
  · exact ⟨R.finWF_neg (R.finWF_ofInt 1),
      Or.inr (Or.inr (by decide))⟩

theorem add_zero_fin {a : R} (ha : R.FinWF a) : R.add a R.zero = a := by
  obtain ⟨h1, h2⟩ := R.add_fin ha R.finWF_zero
  apply R.FinWF.ext h1 ha
  rw [h2, R.toRat_zero, add_zero]

theorem below_add_eps_iff {v : IR} (hv : SimpleC v) (y : Rat) :
    IRBelow (IR.add v ⟨R.zero, R.one⟩) y ↔ ¬ IRAbove v y := by
  obtain ⟨hi, hk⟩ := simpleC_inf hv
  have hr := hv.1
  obtain ⟨h1, h2⟩ := R.add_fin hi (R.finWF_ofInt 1)
  have e1 : (IR.add v ⟨R.zero, R.one⟩).rat = v.rat := add_zero_fin hr
  have e2 : (IR.add v ⟨R.zero, R.one⟩).inf.toRat = v.inf.toRat + 1 := by
    show (R.add v.inf R.one).toRat = _
    rw [show R.one = R.ofInt 1 from rfl, h2, R.toRat_ofInt]; norm_num
  unfold IRBelow IRAbove
  rw [e1, e2]
  constructor
  · rintro (h | ⟨_, h⟩)
    · exact absurd (by rw [h]; rfl) hr.2
    rintro (h' | ⟨_, h'⟩)
    · exact absurd (by rw [h']; rfl) hr.2
    rcases h with h | ⟨h3, h4⟩ <;> rcases h' with h' | ⟨h5, h6⟩ <;> linarith
  · intro h
    refine Or.inr ⟨hr.2, ?_⟩
    by_contra hcon
    apply h
    refine Or.inr ⟨hr.2, ?_⟩
    rw [not_or, not_and_or] at hcon
    obtain ⟨c1, c2⟩ := hcon
    rcases lt_or_eq_of_le (not_lt.mp c1) with c3 | c3
    · left; exact c3
    · right
      refine ⟨c3, ?_⟩
      rcases c2 with c2 | c2
      · exact absurd c3.symm c2
      · rw [not_le] at c2
        rcases hk with hk | hk | hk <;> linarith

theorem above_sub_eps_iff {v : IR} (hv : SimpleC v) (y : Rat) :
    IRAbove (IR.sub v ⟨R.zero, R.one⟩) y ↔ ¬ IRBelow v y := by
  obtain ⟨hi, hk⟩ := simpleC_inf hv
  have hr := hv.1
  obtain ⟨h1, h2⟩ := R.add_fin hi (R.finWF_neg (R.finWF_ofInt 1))
  have e1 : (IR.sub v ⟨R.zero, R.one⟩).rat = v.rat := add_zero_fin hr
  have e2 : (IR.sub v ⟨R.zero, R.one⟩).inf.toRat = v.inf.toRat - 1 := by
    show (R.add v.inf (R.neg R.one)).toRat = _
    rw [show R.one = R.ofInt 1 from rfl, h2, R.toRat_neg (R.finWF_ofInt 1), R.toRat_ofInt]; norm_num
    ring
  unfold IRBelow IRAbove
  rw [e1, e2]
  constructor
  · rintro (h | ⟨_, h⟩)
    · exact absurd (by rw [h]; rfl) hr.2
    rintro (h' | ⟨_, h'⟩)
    · exact absurd (by rw [h']; rfl) hr.2
    rcases h with h | ⟨h3, h4⟩ <;> rcases h' with h' | ⟨h5, h6⟩ <;> linarith
  · intro h
    refine Or.inr ⟨hr.2, ?_⟩
    by_contra hcon
    apply h
    refine Or.inr ⟨hr.2, ?_⟩
    rw [not_or, not_and_or] at hcon
    obtain ⟨c1, c2⟩ := hcon
    rcases lt_or_eq_of_le (not_lt.mp c1) with c3 | c3
    · left; exact c3
    · right
      refine ⟨c3, ?_⟩
      rcases c2 with c2 | c2
      · exact absurd c3.symm c2
      · rw [not_le] at c2
        rcases hk with hk | hk | hk <;> linarith

end Lra
end Oratio
