/-
C07N: `record` of an ADDED clause (the blocking clause of `next()`): besides `record_wfs`, the clause
is kept in the "nothing is forgotten" part `K` of the semantic invariant.
-/
import OratioProofs.Lemmas.NetSatClause

set_option linter.unusedSimpArgs false
set_option linter.unusedVariables false

namespace Oratio
namespace Sat

theorem record_wfs_keeps {orig K : Cnf} {m : Nat} {t : Sat} (hw : t.WfS) (he : t.Ent orig K) (hd : t.DecOK m)
    (l0 : Lit) (rest : List Lit) (hv : t.value l0 = none) (hlt : l0.var < t.vals.length)
    (hrest : ∀ x ∈ rest, x.neg ∈ t.trail ∨ x = Lit.falseLit)
    (h0' : rest = [] → t.decisionLevel = 0)
    (hent : Ents orig (l0 :: rest)) :
    (t.record (l0 :: rest)).WfS ∧ (t.record (l0 :: rest)).Ent orig (K ++ [l0 :: rest]) ∧ (t.record (l0 :: rest)).DecOK m ∧
      RecRel t (t.record (l0 :: rest)) (l0 :: rest) l0 := by
  have h0 : rest = [] → t.decisionLevel = 0 ∨ ∀ x ∈ t.trail, t.lvl x < t.decisionLevel := fun e => Or.inl (h0' e)
  have hlogw : ({ t with log := t.log ++ [l0 :: rest] } : Sat).WfS := hw.of_eq rfl rfl rfl rfl rfl rfl rfl rfl rfl rfl rfl
  have hloge : ({ t with log := t.log ++ [l0 :: rest] } : Sat).Ent orig K := by
    refine ⟨he.clauses, he.trail, ?_, he.dead, he.keeps⟩
    intro c hc
    rcases List.mem_append.1 hc with hc | hc
    · exact he.log c hc
    · simp only [List.mem_singleton] at hc; subst hc; exact hent
  have hlogd : ({ t with log := t.log ++ [l0 :: rest] } : Sat).DecOK m := hd
  generalize hu : ({ t with log := t.log ++ [l0 :: rest] } : Sat) = u at hlogw hloge hlogd
  have huq : u.queue = t.queue := by subst hu; rfl
  have hutr : u.trail = t.trail := by subst hu; rfl
  have huv : u.value l0 = none := by subst hu; exact hv
  have hult : l0.var < u.vals.length := by subst hu; exact hlt
  have hut : ∀ x ∈ rest, x.neg ∈ u.trail ∨ x = Lit.falseLit := by subst hu; exact hrest
  have hu0 : rest = [] → u.decisionLevel = 0 ∨ ∀ x ∈ u.trail, u.lvl x < u.decisionLevel := by subst hu; exact h0
  have hudec : u.decisions = t.decisions := by subst hu; rfl
  have hulim : u.trailLim = t.trailLim := by subst hu; rfl
  have hulog : u.log = t.log ++ [l0 :: rest] := by subst hu; rfl
  have hudead : u.dead = t.dead := by subst hu; rfl
  have hulen : u.vals.length = t.vals.length := by subst hu; rfl
  have hue : u.exprs = t.exprs := by subst hu; rfl
  have hrec : t.record (l0 :: rest) = match rest with
      | [] => (u.enqueue l0 none).2
      | _ :: _ => ((u.addClause (l0 :: rest.foldr (insertByLevel u) [])).2.enqueue l0
            (some (u.addClause (l0 :: rest.foldr (insertByLevel u) [])).1)).2 := by
    subst hu
    cases rest with
    | nil => rfl
    | cons y ys => rfl
  rw [hrec]
  cases rest with
  | nil =>
    simp only
    rw [enqueue_none _ huv]
    refine ⟨hlogw.enq huv hult (fun _ => hu0 rfl) (fun id e => by cases e), ?_, hlogd.enq hlogw.a huv,
      ⟨by simp [enq, huq], by simp [enq, hutr], hudec, hulim, hulog, hudead, by simp [enq, hulen], hue,
        fun x hx => by
          have hx' : x ∈ u.trail := by rw [hutr]; exact hx
          rw [enq_lvl_ne (hlogw.a.trail_var_ne hx' huv)]; subst hu; rfl⟩⟩
    apply (hloge.enq hlogw.a huv hult (hent.mono (fun d hd => List.mem_append_left _ hd))).keeps_add
    intro _ α _ _ hroot
    have hdl0 : u.decisionLevel = 0 := by subst hu; exact h0' rfl
    have := hroot l0 (List.mem_cons_self ..) (by rw [enq_lvl_self hlogw.a hult]; exact hdl0)
    simp [Asg.clause, this]
  | cons y ys =>
    simp only
    have hperm := sortByLevel_perm u (y :: ys)
    generalize hs : (y :: ys).foldr (insertByLevel u) [] = sorted at hperm
    cases sorted with
    | nil => exact absurd hperm.length_eq (by simp)
    | cons z zs =>
      rw [addClause_fst]
      have hmem : ∀ x, x ∈ z :: zs ↔ x ∈ y :: ys := fun x => hperm.mem_iff
      have hzt : ∀ x ∈ z :: zs, x.neg ∈ u.trail ∨ x = Lit.falseLit := fun x hx => hut x ((hmem x).1 hx)
      have hrange : ∀ l ∈ l0 :: z :: zs, l.var < u.vals.length := by
        intro l hl
        rcases List.mem_cons.1 hl with rfl | hl
        · exact hult
        · rcases hzt l hl with h | h
          · exact hlogw.a.trail_lt (l := l.neg) h
          · rw [h]; exact hlogw.zero_lt
      generalize hA : (u.addClause (l0 :: z :: zs)).2 = w
      have hwf : w.WfS := by rw [← hA]; exact hlogw.addClause hrange
      have hwv : w.value l0 = none := by rw [← hA]; exact huv
      have hwlt : l0.var < w.vals.length := by rw [← hA]; exact hult
      have hwcls : (u.nextId, l0 :: z :: zs) ∈ w.cls := by
        rw [← hA, addClause_cls]; exact List.mem_append_right _ (List.mem_singleton.2 rfl)
      have hwent : w.Ent orig K := by
        rw [← hA]
        refine ⟨?_, hloge.trail, hloge.log, hloge.dead, ?_⟩
        · intro e he'
          rw [addClause_cls] at he'
          rcases List.mem_append.1 he' with he' | he'
          · exact hloge.clauses e he'
          · simp only [List.mem_singleton] at he'; subst he'
            exact hent.weaken (fun l hl => by
              rcases List.mem_cons.1 hl with rfl | hl
              · exact List.mem_cons_self ..
              · exact List.mem_cons_of_mem _ ((hmem l).2 hl))
        · intro hd' α ha0 hc hroot
          apply hloge.keeps hd' α ha0 _ hroot
          rw [addClause_cls, List.map_append, Asg.cnf_append] at hc
          simp only [Bool.and_eq_true] at hc
          exact hc.1
      have hwtrail : w.trail = u.trail := by rw [← hA]; rfl
      have hwq : w.queue = u.queue := by rw [← hA]; rfl
      have hwd : w.DecOK m := by rw [← hA]; exact hlogd
      have hzt' : ∀ x ∈ z :: zs, x.neg ∈ w.trail ∨ x = Lit.falseLit := fun x hx => by rw [hwtrail]; exact hzt x hx
      rw [enqueue_none _ hwv]
      refine ⟨hwf.enq hwv hwlt (fun e => by cases e) ?_, ?_, hwd.enq hwf.a hwv,
        ⟨by simp [enq, hwq, huq], by simp [enq, hwtrail, hutr],
        by rw [← hA]; exact hudec, by rw [← hA]; exact hulim, by rw [← hA]; exact hulog,
        by rw [← hA]; exact hudead, by rw [← hA]; simp [enq]; exact hulen, by rw [← hA]; exact hue,
        fun x hx => by
          have hx' : x ∈ w.trail := by rw [hwtrail, hutr]; exact hx
          rw [enq_lvl_ne (hwf.a.trail_var_ne hx' hwv), ← hA]; subst hu; rfl⟩⟩
      · intro id e
        simp only [Option.some.injEq] at e; subst e
        exact ⟨z :: zs, hwcls, hzt'⟩
      · apply (hwent.enq hwf.a hwv hwlt (ents_unitN hwf.a hwent (hwent.clauses _ hwcls) hzt')).keeps_add
        intro _ α _ hcl _
        simp only [Asg.cnf, List.all_map, List.all_eq_true, Function.comp] at hcl
        have := hcl _ (show (u.nextId, l0 :: z :: zs) ∈ (w.enq l0 (some u.nextId)).cls from hwcls)
        rw [← Asg.clause_perm α (hperm.cons l0)]
        exact this

end Sat
end Oratio
