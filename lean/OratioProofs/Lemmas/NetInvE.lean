/-
C07N, target 4: `new_clause` (root level) and `next()` keep the network invariant; the ghost set of
added clauses grows.
-/
import OratioProofs.Lemmas.NetInvC
import OratioProofs.Lemmas.NetSatNext

set_option linter.unusedSimpArgs false
set_option linter.unusedVariables false

namespace Oratio
namespace Net
open Sat

/-- adding the clause `c` to the ghost set when the SAT core goes from `n.sat` to `s'` -/
theorem NetInv.addOrig {n : Net} {orig L : Cnf} {fr : List Frame} (h : NetInv n orig L fr) (c : Clause) (s' : Sat)
    (hs : SInv ((orig ++ L) ++ [c]) (orig ++ [c]) s') (hk : AssignedKeep n.sat s') (hl : s'.trailLim = n.sat.trailLim)
    (hlen : s'.vals.length = n.sat.vals.length) : NetInv { n with sat := s' } (orig ++ [c]) L fr := by
  have hsub : ∀ d ∈ orig, d ∈ orig ++ [c] := fun d hd => List.mem_append_left _ hd
  refine ⟨hs.mono_orig (fun d hd => ?_), fun d hd => (h.lemmas d hd).mono_F hsub,
    ThInv.assign (n := n) (orig := (orig ++ [c]) ++ L) (h.th.mono_origN (fun d hd => by
      rcases List.mem_append.1 hd with hd | hd
      · exact List.mem_append_left _ (List.mem_append_left _ hd)
      · exact List.mem_append_right _ hd)) s' hk.le,
    FramesLv.keep hk fr h.flv, ?_, ?_⟩
  · rcases List.mem_append.1 hd with hd | hd
    · rcases List.mem_append.1 hd with hd | hd
      · exact List.mem_append_left _ (List.mem_append_left _ hd)
      · exact List.mem_append_right _ hd
    · exact List.mem_append_left _ (List.mem_append_right _ hd)
  · show fr.length = s'.trailLim.length
    rw [hl]; exact h.flen
  · show ThReg s'.vals.length n.lra n.idl n.rdl
    rw [hlen]; exact h.reg

/-! ### new_clause -/

theorem NetInv.clause {n : Net} {orig L : Cnf} {fr : List Frame} (h : NetInv n orig L fr) (hroot : n.sat.trailLim = [])
    (c : List Lit) (hr : ∀ l ∈ c, l.var < n.sat.vals.length) :
    NetInv { n with sat := (n.sat.newClause c).2 } (orig ++ [c]) L fr ∧ (n.sat.newClause c).2.trailLim = [] ∧
    ((n.sat.newClause c).1 = false → (n.sat.newClause c).2.dead = true) := by
  obtain ⟨k1, k2, k3, k4, k5, k6, k7, k8, k9⟩ := newClause_sinv h.sat hroot c hr
  exact ⟨h.addOrig c _ k1 k2 (by rw [k3, hroot]) k8, k3, k4⟩

/-! ### next -/

/-- the network when `next()` calls `propagate`: one level popped, the blocking clause recorded -/
def nextStart (n : Net) : Net := { n.pop with sat := n.sat.pop.record (n.sat.decisions.map Lit.neg) }

theorem next_eq {n : Net} (hroot : n.sat.rootLevel = false) (fuel : Nat) : n.next fuel = propagate (nextStart n) fuel := by
  unfold Net.next
  rw [if_neg (by simp [hroot])]
  rfl

theorem NetInv.atNext {n : Net} {orig L : Cnf} {fr : List Frame} (h : NetInv n orig L fr) (hq : n.sat.queue = [])
    (hne : n.sat.trailLim ≠ []) : ∃ fr', NetInv (nextStart n) (orig ++ [n.sat.decisions.map Lit.neg]) L fr' := by
  obtain ⟨fr', hp⟩ := h.pop hq hne
  obtain ⟨k1, k2, k3, k4, k5⟩ := nextStart_sinv h.sat hq hne
  exact ⟨fr', hp.addOrig _ _ k1 k2 k3 (by rw [k4]; exact ((pop_frame n.sat).2.2.2.2.2.2.2).symm)⟩

theorem NetInv.next {n : Net} {orig L : Cnf} {fr : List Frame} (h : NetInv n orig L fr) (hq : n.sat.queue = [])
    (hd : n.sat.dead = false) (hroot : n.sat.rootLevel = false) (fuel : Nat) (hg : ConflictsCurrent (nextStart n) fuel)
    (b : Bool) (n' : Net) (he : n.next fuel = some (b, n')) :
    PropOut n n' (orig ++ [n.sat.decisions.map Lit.neg]) b := by
  have hne : n.sat.trailLim ≠ [] := by simpa [rootLevel] using hroot
  rw [next_eq hroot] at he
  obtain ⟨fr', hi⟩ := h.atNext hq hne
  have hd' : (nextStart n).sat.dead = false := by
    show (n.sat.pop.record (n.sat.decisions.map Lit.neg)).dead = false
    rw [(nextStart_sinv h.sat hq hne).2.2.2.2]; exact hd
  refine (propagate_inv fuel _ _ _ hi hd' hg b n' he).trans (fun α => ?_)
  exact (TModel.congr (n := n.pop) (n' := nextStart n) (LraSame.refl _) rfl rfl α).trans (TModel.pop n α)

end Net
end Oratio
