/-
C07N: the SAT-level steps of the API calls under the weak invariant `SInv`: `new_var`, opening a
decision level and enqueueing the decision (`assume`), `pop`.
-/
import OratioProofs.Lemmas.NetSatRecs

set_option linter.unusedSimpArgs false
set_option linter.unusedVariables false

namespace Oratio
namespace Sat

/-! ### new_var -/

theorem WfS.newVar {s : Sat} (h : s.WfS) : s.newVar.2.WfS := by
  have hr : ∀ i, s.newVar.2.reason.getD i none = s.reason.getD i none := fun i => getD_append_none _ _
  have hv : ∀ i, s.newVar.2.vals.getD i none = s.vals.getD i none := fun i => getD_append_none _ _
  have hw : ∀ i, s.newVar.2.watches.getD i [] = s.watches.getD i [] := fun i => getD_append_nils _ _
  refine ⟨⟨?_, ?_, ?_, ?_, h.a.trailNodup, ?_, h.a.decLen, h.a.limLe, h.a.limSorted, ?_, ?_, ?_, ?_⟩,
    ?_, h.idlt, h.ids, ?_, ?_, ?_⟩
  · simp [Sat.newVar, h.a.lenLevel]
  · simp [Sat.newVar, h.a.lenReason]
  · rw [hv]; exact h.a.val0
  · intro l hl; rw [hv]; exact h.a.trailVal l hl
  · intro v b hb; rw [hv] at hb; exact h.a.valTrail v b hb
  · intro l b hs; rw [newVar_lvl]; exact h.a.levelOK l b hs
  · intro p hp; rw [newVar_lvl]; exact h.a.queueOK p hp
  · intro l b hs hn
    rw [hr] at hn
    simp only [newVar_lvl]
    exact h.a.reasonNone l b hs hn
  · intro e he
    have := h.a.exprsRange e he
    simp only [Sat.newVar, List.length_append]; show e.2.var < s.vals.length + 1; omega
  · show s.newVar.2.level.getD 0 0 = 0
    simp only [Sat.newVar]; rw [getD_append_zero]; exact h.lvl0
  · intro e he l hl
    have := h.rng e he l hl
    simp only [Sat.newVar, List.length_append]; show l.var < s.vals.length + 1; omega
  · intro l b hs id hid
    rw [hr] at hid
    exact h.r l b hs id hid
  · intro i id hm; rw [hw] at hm; exact h.w i id hm

theorem SInv.newVar {orig K : Cnf} {s : Sat} (h : SInv orig K s) : SInv orig K s.newVar.2 := by
  refine ⟨h.wf.newVar, ⟨h.ent.clauses, ?_, h.ent.log, h.ent.dead, ?_⟩, fun m => ?_⟩
  · intro l hl
    have := h.ent.trail l hl
    rw [newVar_lvl]; exact this
  · intro hd α h0 hc hr
    apply h.ent.keeps hd α h0 hc
    intro l hl hl0
    exact hr l hl (by rw [newVar_lvl]; exact hl0)
  · intro a d b hd hb
    have := h.dec m a d b hd hb
    exact ⟨this.1, by rw [newVar_lvl]; exact this.2⟩

theorem newVar_keep (s : Sat) : AssignedKeep s s.newVar.2 := by
  intro v b hv
  refine ⟨by show (s.vals ++ [none]).getD v none = some b; rw [getD_append_none]; exact hv, ?_⟩
  show (s.level ++ [0]).getD v 0 = s.level.getD v 0
  rw [getD_append_zero]

/-! ### assume: the new level and its decision -/

theorem WfS.pushLevel {s : Sat} (h : s.WfS) (hq : s.queue = []) (p : Lit) : (s.pushLevel p).WfS := by
  have ha := h.a
  refine ⟨⟨ha.lenLevel, ha.lenReason, ha.val0, ha.trailVal, ha.trailNodup, ha.valTrail, ?_, ?_, ?_, ?_, ?_, ?_,
    ha.exprsRange⟩, h.lvl0, h.idlt, h.ids, h.rng, h.r, h.w⟩
  · simp [Sat.pushLevel, ha.decLen]
  · intro lim hl
    rcases List.mem_cons.1 hl with rfl | hl
    · exact Nat.le_refl _
    · exact ha.limLe lim hl
  · show (s.trail.length :: s.trailLim).Pairwise (· ≥ ·)
    rw [List.pairwise_cons]
    exact ⟨fun x hx => ha.limLe x hx, ha.limSorted⟩
  · intro l b hs
    have hs : (l :: b) <:+ s.trail := hs
    have h1 := ha.levelOK l b hs
    show s.lvl l = ((s.trail.length :: s.trailLim).filter (· ≤ b.length)).length
    have : ¬ s.trail.length ≤ b.length := by
      have := hs.length_le; simp only [List.length_cons] at this; omega
    simp only [List.filter_cons, decide_eq_true_eq, this, if_false]
    exact h1
  · show ∀ q ∈ s.queue, _
    rw [hq]; intro q hq'; cases hq'
  · exact ha.reasonNone

theorem Ent.pushLevel {orig K : Cnf} {s : Sat} (ha : s.WfA) (h : s.Ent orig K) (p : Lit) : (s.pushLevel p).Ent orig K := by
  refine ⟨h.clauses, ?_, h.log, h.dead, h.keeps⟩
  intro l hl
  have hle : s.lvl l ≤ s.decisions.length := by
    have := ha.lvl_le hl; rw [ha.decLen]; exact this
  show Ents (orig ++ units ((s.pushLevel p).decsUpTo (s.lvl l))) [l]
  rw [decsUpTo_push s p _ hle]
  exact h.trail l hl

/-- `assume(p)` up to the call of `propagate`: the level is opened and the decision enqueued -/
theorem SInv.pushEnq {orig K : Cnf} {s : Sat} (h : SInv orig K s) (hq : s.queue = []) {p : Lit}
    (hv : s.value p = none) (hp : p.var < s.vals.length) :
    SInv orig K ((s.pushLevel p).enq p none) ∧ AssignedKeep s ((s.pushLevel p).enq p none) := by
  have hw := h.wf.pushLevel hq p
  have hv' : (s.pushLevel p).value p = none := hv
  have hlt' : p.var < (s.pushLevel p).vals.length := hp
  have hw2 : ((s.pushLevel p).enq p none).WfS := by
    refine hw.enq hv' hlt' (fun _ => Or.inr ?_) (fun id e => by cases e)
    intro x hx
    have := h.wf.a.lvl_le hx
    show s.lvl x < (s.trail.length :: s.trailLim).length
    simp only [List.length_cons]
    exact Nat.lt_succ_of_le this
  refine ⟨⟨hw2, ?_, fun m => DecOK.assume h.wf.a (h.dec m) hv hp⟩, ?_⟩
  · exact (h.ent.pushLevel h.wf.a p).enq hw.a hv' hlt' (Ents.of_mem (by
      apply List.mem_append_right
      simp [units, Sat.pushLevel]))
  · apply assignedKeep_of_trail h.wf hw2.lvl0
    · intro v b hb
      have hne : v ≠ p.var := by
        intro e; rw [value_eq_none, ← e, hb] at hv; cases hv
      show (((s.pushLevel p).enq p none).vals).getD v none = some b
      simp only [enq]
      rw [getD_set_ne _ _ _ _ _ (Ne.symm hne)]; exact hb
    · intro x hx
      exact enq_lvl_ne (h.wf.a.trail_var_ne hx hv)

/-! ### pop -/

theorem SInv.pop {orig K : Cnf} {s : Sat} (h : SInv orig K s) (hq : s.queue = []) : SInv orig K s.pop :=
  ⟨h.wf.pop hq, h.ent.popA h.wf.a, fun m => (h.dec m).popA h.wf.a⟩

end Sat
end Oratio
