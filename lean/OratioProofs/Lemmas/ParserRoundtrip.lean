/-
The round-trip induction for the expression parser model (property C16, parser part):
for every well-formed tree `e`, parsing the unparenthesised print of `e` at a precedence not
above the level of `e` reaches the operator loop with exactly `e` built (`MProp`), hence
parsing an operand position returns `e` and leaves the rest of the input untouched.

Fuel bookkeeping: every statement carries the hypothesis `3 * (number of tokens) + c ≤ F`,
which is what the entry point `parseExpr` passes (`exprFuel`).
-/
import OratioProofs.Lemmas.ParserBasic

namespace Oratio.Riddle

/-- tokens with which `_expression` can begin -/
def primStart : Tok → Bool
  | .bool _ | .int _ | .real _ | .str _ | .id _ => true
  | .sym .LPAREN | .sym .PLUS | .sym .MINUS | .sym .BANG | .sym .NEW => true
  | _ => false

theorem wrap_head (b : Bool) (ts : List Tok) (h : ∃ t r, ts = t :: r ∧ primStart t = true) :
    ∃ t r, wrap b ts = t :: r ∧ primStart t = true := by
  cases b with
  | false => simpa [wrap] using h
  | true => exact ⟨.sym .LPAREN, ts ++ [.sym .RPAREN], rfl, rfl⟩

theorem append_head {ts : List Tok} (us : List Tok) (h : ∃ t r, ts = t :: r ∧ primStart t = true) :
    ∃ t r, ts ++ us = t :: r ∧ primStart t = true := by
  obtain ⟨t, r, rfl, ht⟩ := h
  exact ⟨t, r ++ us, rfl, ht⟩

theorem printE_head : (e : Expr) → e.WF → ∃ t r, printE e = t :: r ∧ primStart t = true
  | .bool _, _ => ⟨_, _, rfl, rfl⟩
  | .int _, _ => ⟨_, _, rfl, rfl⟩
  | .real _, _ => ⟨_, _, rfl, rfl⟩
  | .str _, _ => ⟨_, _, rfl, rfl⟩
  | .cast _ _, _ => ⟨_, _, by rw [printE]; rfl, rfl⟩
  | .un op _, _ => ⟨_, _, by rw [printE], by cases op <;> rfl⟩
  | .ctor _ _, _ => ⟨_, _, by rw [printE]; rfl, rfl⟩
  | .bin op l r, h => by
    rw [printE]
    exact append_head _ (wrap_head _ _ (printE_head l (by simp [Expr.WF] at h; exact h.1)))
  | .call ids fn args, _ => by
    rw [printE]
    cases ids <;> exact ⟨_, _, rfl, rfl⟩
  | .id ids, h => by
    rw [printE]
    cases ids with
    | nil => simp [Expr.WF] at h
    | cons n ns => exact ⟨_, _, rfl, rfl⟩
  | .nary op [], h => by simp [Expr.WF] at h
  | .nary op (e :: es), h => by
    rw [printE]
    exact append_head _ (wrap_head _ _ (printE_head e (by simp [Expr.WF, WFs] at h; exact h.2.1)))


theorem WF_bin {op : BOp} {l r : Expr} (h : (Expr.bin op l r).WF) : l.WF ∧ r.WF := by simpa [Expr.WF] using h
theorem WF_un {op : UOp} {e : Expr} (h : (Expr.un op e).WF) : e.WF := by simpa [Expr.WF] using h
theorem WF_cast {tp : QId} {e : Expr} (h : (Expr.cast tp e).WF) : tp ≠ [] ∧ e.WF := by simpa [Expr.WF] using h
theorem WF_ctor {tp : QId} {args : List Expr} (h : (Expr.ctor tp args).WF) : tp ≠ [] ∧ WFs args := by simpa [Expr.WF] using h
theorem WF_call {ids : QId} {fn : Name} {args : List Expr} (h : (Expr.call ids fn args).WF) : WFs args := by simpa [Expr.WF] using h
theorem WF_id {ids : QId} (h : (Expr.id ids).WF) : ids ≠ [] := by simpa [Expr.WF] using h
theorem WF_nary {op : NOp} {es : List Expr} (h : (Expr.nary op es).WF) : 2 ≤ es.length ∧ WFs es := by simpa [Expr.WF] using h
theorem WFs_cons {e : Expr} {es : List Expr} (h : WFs (e :: es)) : e.WF ∧ WFs es := by simpa [WFs] using h

theorem isId_printE {e : Expr} (h : e.isId = true) : ∃ q, e = .id q := by
  cases e <;> simp_all [Expr.isId]

theorem castLook_left (l : Expr) (s : Sym) (b : Bool) (tl : List Tok) (hwf : l.WF)
    (hs1 : s ≠ .DOT) (hs2 : s ≠ .RPAREN)
    (ih : l.isId = false → ∀ suffix, castLook (printE l ++ suffix) = .ok false) :
    castLook (wrap b (printE l) ++ .sym s :: tl) = .ok false := by
  cases b with
  | true => exact castLook_not_id _ (by intro n r h; simp [wrap, paren] at h)
  | false =>
    simp only [wrap, Bool.false_eq_true, if_false]
    cases hid : l.isId with
    | false => exact ih hid _
    | true =>
      obtain ⟨q, rfl⟩ := isId_printE hid
      rw [printE]
      cases q with
      | nil => simp [Expr.WF] at hwf
      | cons n ns =>
        simp only [qidToks, List.cons_append]
        exact castLook_ids_other n ns _ _ (by simpa using hs1) (by simpa using hs2)

theorem castLook_printE : (e : Expr) → e.WF → e.isId = false → ∀ suffix, castLook (printE e ++ suffix) = .ok false
  | .bool _, _, _, _ => castLook_not_id _ (by intro n r h; simp [printE] at h)
  | .int _, _, _, _ => castLook_not_id _ (by intro n r h; simp [printE] at h)
  | .real _, _, _, _ => castLook_not_id _ (by intro n r h; simp [printE] at h)
  | .str _, _, _, _ => castLook_not_id _ (by intro n r h; simp [printE] at h)
  | .cast _ _, _, _, _ => castLook_not_id _ (by intro n r h; simp [printE] at h)
  | .un _ _, _, _, _ => castLook_not_id _ (by intro n r h; simp [printE] at h)
  | .ctor _ _, _, _, _ => castLook_not_id _ (by intro n r h; simp [printE] at h)
  | .bin op l r, h, _, suffix => by
    rw [printE, List.append_assoc, List.cons_append]
    exact castLook_left l op.sym _ _ (WF_bin h).1 op.sym_ne_dot op.sym_ne_rparen
      (castLook_printE l (WF_bin h).1)
  | .call ids fn args, _, _, suffix => by
    rw [printE]
    cases hq : ids ++ [fn] with
    | nil => simp at hq
    | cons n ns =>
      simp only [qidToks, List.cons_append, List.append_assoc]
      exact castLook_ids_other n ns _ _ (by simp) (by simp)
  | .id _, _, hid, _ => by simp [Expr.isId] at hid
  | .nary op [], h, _, _ => by simp [Expr.WF] at h
  | .nary op [_], h, _, _ => by simp [Expr.WF] at h
  | .nary op (e :: e' :: es), h, _, suffix => by
    rw [printE, printTail, List.append_assoc, List.cons_append]
    exact castLook_left e op.sym _ _ (WFs_cons (WF_nary h).2).1 op.sym_ne_dot op.sym_ne_rparen
      (castLook_printE e (WFs_cons (WF_nary h).2).1)

theorem pLoop_stop (F p : Nat) (e : Expr) (rest : List Tok) (hF : 1 ≤ F) (h : stopsAt p rest = true) :
    pLoop F p e rest = .ok (e, rest) := by
  obtain ⟨f, rfl⟩ : ∃ f, F = f + 1 := ⟨F - 1, by omega⟩
  cases rest with
  | nil => simp [stopsAt] at h
  | cons t r =>
    cases t with
    | sym s =>
      rw [pLoop.eq_2]
      simp only [stopsAt, Bool.and_eq_true] at h
      cases hs : opInfo s with
      | none => rfl
      | some kl =>
        obtain ⟨k, l⟩ := kl
        have hl : l < p := by simpa [hs] using h.2
        cases k with
        | bin op => simp only []; rw [if_neg (by omega)]; rfl
        | nary op => simp only []; rw [if_neg (by omega)]; rfl
    | _ => rw [pLoop.eq_4] <;> simp


/-- parsing the unparenthesised print of `e` at a level `pr` not above the level of `e`
    reaches the operator loop with exactly `e` built and the rest of the input untouched -/
def MProp (e : Expr) : Prop :=
  ∀ (pr : Nat) (rest : List Tok) (F : Nat), pr ≤ e.level → follows e rest = true →
    3 * (printE e ++ rest).length + 2 ≤ F →
    ∃ F', 3 * rest.length + 2 ≤ F' ∧ pExpr F pr (printE e ++ rest) = pLoop F' pr e rest

theorem parse_raw {x : Expr} (hM : MProp x) (p : Nat) (rest : List Tok) (F : Nat) (hp : p ≤ x.level)
    (hs : stopsAt p rest = true) (hF : 3 * (printE x ++ rest).length + 2 ≤ F) :
    pExpr F p (printE x ++ rest) = .ok (x, rest) := by
  obtain ⟨F', hF', h⟩ := hM p rest F hp (follows_of_stopsAt hp hs) hF
  rw [h]
  exact pLoop_stop F' p x rest (by omega) hs

/-- a parenthesis around the print of `x`, when the look-ahead does not take it for a cast -/
theorem primary_paren' {x : Expr} (hM : MProp x) (rest : List Tok) (F : Nat)
    (hcl : castLook (printE x ++ .sym .RPAREN :: rest) = .ok false)
    (hr : rest ≠ []) (hF : 3 * (paren (printE x) ++ rest).length + 1 ≤ F) :
    pPrimary F (paren (printE x) ++ rest) = .ok (x, rest) := by
  obtain ⟨f, rfl⟩ : ∃ f, F = f + 1 := ⟨F - 1, by omega⟩
  have e1 : paren (printE x) ++ rest = .sym .LPAREN :: (printE x ++ .sym .RPAREN :: rest) := by simp [paren]
  rw [e1] at hF ⊢
  simp only [List.length_cons, List.length_append] at hF
  rw [pPrimary.eq_7, adv_cons _ (by simp), ok_bind, hcl, ok_bind]
  have h2 : pExpr f 0 (printE x ++ .sym .RPAREN :: rest) = .ok (x, .sym .RPAREN :: rest) :=
    parse_raw hM 0 _ f (Nat.zero_le _) rfl (by simp only [List.length_cons, List.length_append]; omega)
  simp [h2, expectSym, isSym, adv_cons _ hr]

theorem primary_paren {x : Expr} (hwf : x.WF) (hM : MProp x) (hid : x.isId = false) (rest : List Tok) (F : Nat)
    (hr : rest ≠ []) (hF : 3 * (paren (printE x) ++ rest).length + 1 ≤ F) :
    pPrimary F (paren (printE x) ++ rest) = .ok (x, rest) :=
  primary_paren' hM rest F (castLook_printE x hwf hid _) hr hF

theorem loop_wrap {x : Expr} (hwf : x.WF) (hM : MProp x) (b : Bool) (pr : Nat) (rest : List Tok) (F : Nat)
    (hb0 : b = false → pr ≤ x.level ∧ follows x rest = true) (hb1 : b = true → x.isId = false)
    (hr : rest ≠ []) (hF : 3 * (wrap b (printE x) ++ rest).length + 2 ≤ F) :
    ∃ F', 3 * rest.length + 2 ≤ F' ∧ pExpr F pr (wrap b (printE x) ++ rest) = pLoop F' pr x rest := by
  cases b with
  | false =>
    simp only [wrap, Bool.false_eq_true, if_false] at hF ⊢
    exact hM pr rest F (hb0 rfl).1 (hb0 rfl).2 hF
  | true =>
    simp only [wrap, if_true] at hF ⊢
    obtain ⟨f, rfl⟩ : ∃ f, F = f + 1 := ⟨F - 1, by omega⟩
    refine ⟨f, ?_, ?_⟩
    · simp only [paren, List.length_cons, List.length_append] at hF; omega
    · rw [pExpr.eq_2, primary_paren hwf hM (hb1 rfl) rest f hr (by omega)]
      rfl

theorem parse_wrap {x : Expr} (hwf : x.WF) (hM : MProp x) (b : Bool) (p : Nat) (rest : List Tok) (F : Nat)
    (hb0 : b = false → p ≤ x.level) (hb1 : b = true → x.isId = false)
    (hs : stopsAt p rest = true) (hF : 3 * (wrap b (printE x) ++ rest).length + 2 ≤ F) :
    pExpr F p (wrap b (printE x) ++ rest) = .ok (x, rest) := by
  obtain ⟨F', hF', h⟩ := loop_wrap hwf hM b p rest F (fun hb => ⟨hb0 hb, follows_of_stopsAt (hb0 hb) hs⟩) hb1
    (stopsAt_ne_nil hs) hF
  rw [h]
  exact pLoop_stop F' p x rest (by omega) hs


theorem isId_level {e : Expr} (h : e.isId = true) : e.level = 4 := by
  cases e <;> simp_all [Expr.isId, Expr.level]

theorem not_isId_of_level {e : Expr} (h : e.level < 4) : e.isId = false := by
  cases hid : e.isId with
  | false => rfl
  | true => have := isId_level hid; omega

def AllM : List Expr → Prop
  | [] => True
  | e :: es => MProp e ∧ AllM es

theorem stopsAt_nop (op : NOp) (p : Nat) (hp : op.level < p) (r : List Tok) : stopsAt p (.sym op.sym :: r) = true := by
  simp [stopsAt, opInfo_nop, op.sym_ne_dot, op.sym_ne_lparen, hp]

theorem stopsAt_tail (op : NOp) (xs : List Expr) (rest : List Tok) (hs : stopsAt (op.level + 1) rest = true) :
    stopsAt (op.level + 1) (printTail op xs ++ rest) = true := by
  cases xs with
  | nil => simpa [printTail] using hs
  | cons x xs => simpa [printTail] using stopsAt_nop op _ (Nat.lt_succ_self _) _

theorem pNary_tail (op : NOp) : ∀ (xs : List Expr), WFs xs → AllM xs → ∀ (acc : List Expr) (rest : List Tok) (F : Nat),
    stopsAt (op.level + 1) rest = true → isSym op.sym rest = false →
    3 * (printTail op xs ++ rest).length + 1 ≤ F →
    pNary F op.sym (op.level + 1) acc (printTail op xs ++ rest) = .ok (acc ++ xs, rest)
  | [], _, _, acc, rest, F, _, hn, hF => by
    obtain ⟨f, rfl⟩ : ∃ f, F = f + 1 := ⟨F - 1, by omega⟩
    simp [printTail, pNary.eq_2, hn]
  | x :: xs, hwf, hM, acc, rest, F, hs, hn, hF => by
    obtain ⟨f, rfl⟩ : ∃ f, F = f + 1 := ⟨F - 1, by omega⟩
    have hlen : (printTail op (x :: xs) ++ rest).length =
        1 + (wrap (decide (x.level < op.level + 1)) (printE x) ++ (printTail op xs ++ rest)).length := by
      simp [printTail]; omega
    have e1 : printTail op (x :: xs) ++ rest =
        .sym op.sym :: (wrap (decide (x.level < op.level + 1)) (printE x) ++ (printTail op xs ++ rest)) := by
      simp [printTail]
    rw [hlen] at hF
    rw [e1, pNary.eq_2]
    have hne : wrap (decide (x.level < op.level + 1)) (printE x) ++ (printTail op xs ++ rest) ≠ [] := by
      have := stopsAt_ne_nil (stopsAt_tail op xs rest hs)
      simp [this]
    have hx : pExpr f (op.level + 1) (wrap (decide (x.level < op.level + 1)) (printE x) ++ (printTail op xs ++ rest))
        = .ok (x, printTail op xs ++ rest) :=
      parse_wrap (WFs_cons hwf).1 hM.1 _ _ _ f (by simp) (by
          intro hb
          have := op.level_le
          exact not_isId_of_level (by simp at hb; omega))
        (stopsAt_tail op xs rest hs) (by omega)
    simp only [isSym, beq_self_eq_true, if_true, adv_cons _ hne, ok_bind, hx]
    rw [pNary_tail op xs (WFs_cons hwf).2 hM.2 (acc ++ [x]) rest f hs hn (by
      simp only [List.length_append] at hF ⊢; omega)]
    simp


theorem isSym_rparen_primStart {t : Tok} (r : List Tok) (h : primStart t = true) : isSym .RPAREN (t :: r) = false := by
  cases t with
  | sym s => cases s <;> simp_all [primStart, isSym]
  | _ => rfl

theorem printArgs_cons_head (x : Expr) (xs : List Expr) (hwf : x.WF) :
    ∃ t r, printArgs (x :: xs) = t :: r ∧ primStart t = true := by
  cases xs with
  | nil => simpa [printArgs] using printE_head x hwf
  | cons y ys =>
    rw [printArgs.eq_3 _ _ (by simp)]
    exact append_head _ (printE_head x hwf)

theorem pArgs_print : ∀ (x : Expr) (xs : List Expr), WFs (x :: xs) → AllM (x :: xs) → ∀ (rest : List Tok) (F : Nat),
    3 * (printArgs (x :: xs) ++ .sym .RPAREN :: rest).length + 3 ≤ F →
    pArgs F (printArgs (x :: xs) ++ .sym .RPAREN :: rest) = .ok (x :: xs, .sym .RPAREN :: rest)
  | x, [], _, hM, rest, F, hF => by
    obtain ⟨f, rfl⟩ : ∃ f, F = f + 1 := ⟨F - 1, by omega⟩
    simp only [printArgs] at hF ⊢
    rw [pArgs.eq_2, parse_raw hM.1 0 _ f (Nat.zero_le _) rfl (by omega)]
    simp [matchSym, isSym]
  | x, y :: ys, hwf, hM, rest, F, hF => by
    obtain ⟨f, rfl⟩ : ∃ f, F = f + 1 := ⟨F - 1, by omega⟩
    have e1 : printArgs (x :: y :: ys) ++ .sym .RPAREN :: rest =
        printE x ++ .sym .COMMA :: (printArgs (y :: ys) ++ .sym .RPAREN :: rest) := by
      simp [printArgs]
    rw [e1] at hF ⊢
    simp only [List.length_append, List.length_cons] at hF
    rw [pArgs.eq_2, parse_raw hM.1 0 _ f (Nat.zero_le _) rfl (by simp only [List.length_append, List.length_cons]; omega)]
    have ih := pArgs_print y ys (WFs_cons hwf).2 hM.2 rest f (by simp only [List.length_append, List.length_cons]; omega)
    simp [matchSym, isSym, adv_cons, ih]

theorem pCallArgs_print (args : List Expr) (hwf : WFs args) (hM : AllM args) (rest : List Tok) (F : Nat) (hr : rest ≠ [])
    (hF : 3 * (printArgs args ++ .sym .RPAREN :: rest).length + 4 ≤ F) :
    pCallArgs F (printArgs args ++ .sym .RPAREN :: rest) = .ok (args, rest) := by
  obtain ⟨f, rfl⟩ : ∃ f, F = f + 1 := ⟨F - 1, by omega⟩
  cases args with
  | nil => simp [printArgs, pCallArgs.eq_2, matchSym, isSym, adv_cons _ hr]
  | cons x xs =>
    obtain ⟨t, r, e1, ht⟩ := printArgs_cons_head x xs (WFs_cons hwf).1
    have h1 : isSym .RPAREN (printArgs (x :: xs) ++ .sym .RPAREN :: rest) = false := by
      rw [e1]; exact isSym_rparen_primStart _ ht
    rw [pCallArgs.eq_2]
    simp only [matchSym, h1]
    rw [pArgs_print x xs hwf hM rest f (by omega)]
    simp [expectSym, isSym, adv_cons _ hr]


theorem isSym_false_of_ne {s : Sym} {t : Tok} (r : List Tok) (h : t ≠ .sym s) : isSym s (t :: r) = false := by
  cases t with
  | sym s' =>
    simp only [isSym]
    cases hb : (s == s') with
    | false => rfl
    | true => exact absurd (by rw [eq_of_beq hb]) h
  | _ => rfl

theorem pPrimary_un (op : UOp) (f : Nat) (tail : List Tok) :
    pPrimary (f + 1) (.sym op.sym :: tail) =
      (adv (.sym op.sym :: tail) >>= fun t1 => pExpr f 4 t1 >>= fun x => pure (.un op x.1, x.2)) := by
  cases op
  · exact pPrimary.eq_8 f tail
  · exact pPrimary.eq_9 f tail
  · exact pPrimary.eq_10 f tail

theorem stopsAt4_of_follows {e : Expr} {rest : List Tok} (h : follows e rest = true) : stopsAt 4 rest = true := by
  cases rest with
  | nil => simp [follows] at h
  | cons t r =>
    cases t with
    | sym s =>
      simp only [follows, Bool.and_eq_true] at h
      simp only [stopsAt, Bool.and_eq_true]
      refine ⟨h.1, ?_⟩
      cases hs : opInfo s with
      | none => rfl
      | some kl =>
        obtain ⟨k, l⟩ := kl
        have := opInfo_level_le s k l hs
        simp; omega
    | _ => rfl

theorem mprop_lit (e : Expr) (t : Tok) (hpr : printE e = [t])
    (hprim : ∀ f tail, pPrimary (f + 1) (t :: tail) = (adv (t :: tail) >>= fun u => pure (e, u))) : MProp e := by
  intro pr rest F _ hf hF
  have hr := follows_ne_nil hf
  rw [hpr] at hF ⊢
  simp only [List.cons_append, List.nil_append, List.length_cons] at hF ⊢
  obtain ⟨g, rfl⟩ : ∃ g, F = g + 2 := ⟨F - 2, by omega⟩
  refine ⟨g + 1, by omega, ?_⟩
  rw [pExpr.eq_2, hprim, adv_cons _ hr]
  rfl


theorem mprop_id (q : QId) (hq : q ≠ []) : MProp (.id q) := by
  intro pr rest F _ hf hF
  cases rest with
  | nil => simp [follows] at hf
  | cons t r =>
    obtain ⟨ht1, ht2⟩ := follows_head hf
    cases q with
    | nil => exact absurd rfl hq
    | cons n ns =>
      rw [printE] at hF ⊢
      simp only [qidToks, List.cons_append, List.length_cons, List.length_append] at hF ⊢
      obtain ⟨g, rfl⟩ : ∃ g, F = g + 2 := ⟨F - 2, by omega⟩
      refine ⟨g + 1, by omega, ?_⟩
      rw [pExpr.eq_2, pPrimary.eq_12, adv_cons _ (dotToks_append_ne_nil ns t r), ok_bind, dotIds_dotToks ns t r ht1]
      simp [matchSym, isSym_false_of_ne r ht2]

theorem mprop_un (op : UOp) (x : Expr) (hwf : x.WF) (hM : MProp x) : MProp (.un op x) := by
  intro pr rest F _ hf hF
  rw [printE] at hF ⊢
  simp only [List.cons_append, List.length_cons] at hF ⊢
  obtain ⟨g, rfl⟩ : ∃ g, F = g + 2 := ⟨F - 2, by omega⟩
  have hs := stopsAt4_of_follows hf
  have hlen : (wrap (decide (x.level < 4)) (printE x) ++ rest).length = (wrap (decide (x.level < 4)) (printE x)).length + rest.length :=
    List.length_append
  have hne : wrap (decide (x.level < 4)) (printE x) ++ rest ≠ [] := by simp [follows_ne_nil hf]
  have hx := parse_wrap hwf hM (decide (x.level < 4)) 4 rest g (by simp) (by
    intro hb; exact not_isId_of_level (by simpa using hb)) hs (by omega)
  refine ⟨g + 1, by omega, ?_⟩
  rw [pExpr.eq_2, pPrimary_un, adv_cons _ hne, ok_bind, hx]
  rfl


theorem operandStart_append {ts : List Tok} (us : List Tok) (h : operandStart ts = true) : operandStart (ts ++ us) = true := by
  cases ts with
  | nil => simp [operandStart] at h
  | cons t r =>
    cases t with
    | sym s => cases s <;> simp_all [operandStart]
    | _ => rfl

theorem operandStart_wrap (ts rest : List Tok) : operandStart (wrap (!operandStart ts) ts ++ rest) = true := by
  cases h : operandStart ts with
  | true => simpa [wrap] using operandStart_append rest h
  | false => rfl

theorem operandStart_id {x : Expr} (hwf : x.WF) (hid : x.isId = true) : operandStart (printE x) = true := by
  obtain ⟨q, rfl⟩ := isId_printE hid
  cases q with
  | nil => exact absurd rfl (WF_id hwf)
  | cons n ns => rw [printE]; rfl

theorem stopsAt0_of_follows_cast {tp : QId} {x : Expr} {rest : List Tok} (h : follows (.cast tp x) rest = true) :
    stopsAt 0 rest = true := by
  cases rest with
  | nil => simp [follows] at h
  | cons t r =>
    cases t with
    | sym s =>
      simp only [follows, Bool.and_eq_true] at h
      simp only [stopsAt, Bool.and_eq_true]
      refine ⟨h.1, ?_⟩
      cases hs : opInfo s with
      | none => rfl
      | some kl =>
        obtain ⟨k, l⟩ := kl
        have h2 := h.2
        simp [hs, Expr.isCast] at h2
    | _ => rfl

theorem mprop_cast (tp : QId) (x : Expr) (htp : tp ≠ []) (hwf : x.WF) (hM : MProp x) : MProp (.cast tp x) := by
  intro pr rest F _ hf hF
  have hs := stopsAt0_of_follows_cast hf
  have hr := follows_ne_nil hf
  cases tp with
  | nil => exact absurd rfl htp
  | cons n ns =>
    generalize hb : (!operandStart (printE x)) = b at *
    have e1 : printE (.cast (n :: ns) x) ++ rest =
        .sym .LPAREN :: (.id n :: (dotToks ns ++ .sym .RPAREN :: (wrap b (printE x) ++ rest))) := by
      rw [printE, hb]; simp [qidToks]
    rw [e1] at hF ⊢
    simp only [List.length_cons, List.length_append] at hF
    have hlen : (wrap b (printE x) ++ rest).length = (wrap b (printE x)).length + rest.length := List.length_append
    obtain ⟨g, rfl⟩ : ∃ g, F = g + 2 := ⟨F - 2, by omega⟩
    have hne : wrap b (printE x) ++ rest ≠ [] := by simp [hr]
    obtain ⟨t, r, e2⟩ : ∃ t r, wrap b (printE x) ++ rest = t :: r := by
      cases h : wrap b (printE x) ++ rest with
      | nil => exact absurd h hne
      | cons t r => exact ⟨t, r, rfl⟩
    have hos : operandStart (t :: r) = true := by rw [← e2, ← hb]; exact operandStart_wrap _ _
    have hx : pExpr g 0 (t :: r) = .ok (x, rest) := by
      rw [← e2]
      exact parse_wrap hwf hM b 0 rest g (fun _ => Nat.zero_le _) (by
        intro hb1
        cases hid : x.isId with
        | false => rfl
        | true =>
          have := operandStart_id hwf hid
          rw [hb1] at hb
          simp [this] at hb) hs (by omega)
    refine ⟨g + 1, by omega, ?_⟩
    rw [pExpr.eq_2, pPrimary.eq_7, adv_cons2, ok_bind, e2, castLook_ids_rparen, hos, ok_bind]
    have hq := qid_qidToks (n :: ns) (by simp) (.sym .RPAREN) (t :: r) (by simp)
    simp only [qidToks, List.cons_append] at hq
    simp [hq, expectSym, isSym, hx]


theorem mprop_ctor (tp : QId) (args : List Expr) (htp : tp ≠ []) (hwf : WFs args) (hM : AllM args) : MProp (.ctor tp args) := by
  intro pr rest F _ hf hF
  have hr := follows_ne_nil hf
  have e1 : printE (.ctor tp args) ++ rest =
      .sym .NEW :: (qidToks tp ++ .sym .LPAREN :: (printArgs args ++ .sym .RPAREN :: rest)) := by
    rw [printE]; simp
  rw [e1] at hF ⊢
  simp only [List.length_cons, List.length_append] at hF
  obtain ⟨g, rfl⟩ : ∃ g, F = g + 2 := ⟨F - 2, by omega⟩
  have hne : qidToks tp ++ .sym .LPAREN :: (printArgs args ++ .sym .RPAREN :: rest) ≠ [] := by simp
  have hc := pCallArgs_print args hwf hM rest g hr (by simp only [List.length_cons, List.length_append]; omega)
  refine ⟨g + 1, by omega, ?_⟩
  rw [pExpr.eq_2, pPrimary.eq_11, adv_cons _ hne, ok_bind, qid_qidToks tp htp _ _ (by simp)]
  simp [expectSym, isSym, adv_cons, hc]

theorem mprop_call (ids : QId) (fn : Name) (args : List Expr) (hwf : WFs args) (hM : AllM args) : MProp (.call ids fn args) := by
  intro pr rest F _ hf hF
  have hr := follows_ne_nil hf
  obtain ⟨n, ns, hq⟩ : ∃ n ns, n :: ns = ids ++ [fn] := by
    cases h : ids ++ [fn] with
    | nil => simp at h
    | cons n ns => exact ⟨n, ns, rfl⟩
  have e1 : printE (.call ids fn args) ++ rest =
      .id n :: (dotToks ns ++ .sym .LPAREN :: (printArgs args ++ .sym .RPAREN :: rest)) := by
    rw [printE, ← hq]; simp [qidToks]
  rw [e1] at hF ⊢
  simp only [List.length_cons, List.length_append] at hF
  obtain ⟨g, rfl⟩ : ∃ g, F = g + 2 := ⟨F - 2, by omega⟩
  have hc := pCallArgs_print args hwf hM rest g hr (by simp only [List.length_cons, List.length_append]; omega)
  refine ⟨g + 1, by omega, ?_⟩
  rw [pExpr.eq_2, pPrimary.eq_12, adv_cons _ (dotToks_append_ne_nil _ _ _), ok_bind, dotIds_dotToks ns _ _ (by simp)]
  simp [matchSym, isSym, adv_cons, hc, splitLast_concat n ns ids fn hq]


theorem stopsAt_succ_of_follows {e : Expr} {rest : List Tok} (h : follows e rest = true) : stopsAt (e.level + 1) rest = true := by
  cases rest with
  | nil => simp [follows] at h
  | cons t r =>
    cases t with
    | sym s =>
      simp only [follows, Bool.and_eq_true] at h
      simp only [stopsAt, Bool.and_eq_true]
      refine ⟨h.1, ?_⟩
      cases hs : opInfo s with
      | none => rfl
      | some kl =>
        obtain ⟨k, l⟩ := kl
        have h2 := h.2
        simp only [hs, Bool.and_eq_true, decide_eq_true_eq] at h2
        simp; omega
    | _ => rfl

theorem not_isId_of_isCast {e : Expr} (h : e.isCast = true) : e.isId = false := by
  cases e <;> simp_all [Expr.isCast, Expr.isId]

theorem mprop_bin (op : BOp) (l r : Expr) (hl : l.WF) (hr : r.WF) (hMl : MProp l) (hMr : MProp r) : MProp (.bin op l r) := by
  intro pr rest F hp hf hF
  have hp' : pr ≤ op.level := hp
  have hs := stopsAt_succ_of_follows hf
  have hs' : stopsAt (op.level + 1) rest = true := hs
  have hrest := follows_ne_nil hf
  generalize hbl : (decide (l.level < op.level) || l.isCast) = bl at *
  generalize hbr : decide (r.level < op.level + 1) = br at *
  have e1 : printE (.bin op l r) ++ rest = wrap bl (printE l) ++ (.sym op.sym :: (wrap br (printE r) ++ rest)) := by
    rw [printE, hbl, hbr]; simp
  rw [e1] at hF ⊢
  have hlv := op.level_le
  obtain ⟨F1, hF1, h1⟩ := loop_wrap hl hMl bl pr (.sym op.sym :: (wrap br (printE r) ++ rest)) F
    (by
      intro hb
      rw [hb] at hbl
      simp only [Bool.or_eq_false_iff, decide_eq_false_iff_not] at hbl
      refine ⟨by omega, ?_⟩
      simp [follows, opInfo_bop, op.sym_ne_dot, op.sym_ne_lparen, hbl.2]
      omega)
    (by
      intro hb
      rw [hb] at hbl
      simp only [Bool.or_eq_true, decide_eq_true_eq] at hbl
      cases hbl with
      | inl h => exact not_isId_of_level (by omega)
      | inr h => exact not_isId_of_isCast h)
    (by simp) hF
  simp only [List.length_cons] at hF1
  have hlen : (wrap br (printE r) ++ rest).length = (wrap br (printE r)).length + rest.length := List.length_append
  obtain ⟨f1, rfl⟩ : ∃ f1, F1 = f1 + 1 := ⟨F1 - 1, by omega⟩
  have hne : wrap br (printE r) ++ rest ≠ [] := by simp [hrest]
  have hx := parse_wrap hr hMr br (op.level + 1) rest f1
    (by intro hb; rw [hb] at hbr; simpa using hbr)
    (by intro hb; rw [hb] at hbr; exact not_isId_of_level (by simp at hbr; omega))
    hs' (by omega)
  refine ⟨f1, by omega, ?_⟩
  rw [h1, pLoop.eq_2, opInfo_bop]
  simp only []
  rw [if_pos hp', adv_cons _ hne, ok_bind, hx]
  rfl


theorem not_isId_of_isNary {e : Expr} {op : NOp} (h : e.isNary op = true) : e.isId = false := by
  cases e <;> simp_all [Expr.isNary, Expr.isId]

theorem isSym_nop_of_follows {op : NOp} {es : List Expr} {rest : List Tok} (h : follows (.nary op es) rest = true) :
    isSym op.sym rest = false := by
  cases rest with
  | nil => rfl
  | cons t r =>
    cases t with
    | sym s =>
      simp only [isSym]
      cases hb : (op.sym == s) with
      | false => rfl
      | true =>
        have := eq_of_beq hb
        subst this
        simp [follows, opInfo_nop, Expr.isNary] at h
    | _ => rfl

theorem mprop_nary (op : NOp) (x y : Expr) (ys : List Expr) (hx : x.WF) (hys : WFs (y :: ys))
    (hMx : MProp x) (hMys : AllM (y :: ys)) : MProp (.nary op (x :: y :: ys)) := by
  intro pr rest F hp hf hF
  have hp' : pr ≤ op.level := hp
  have hs : stopsAt (op.level + 1) rest = true := stopsAt_succ_of_follows hf
  have hn := isSym_nop_of_follows hf
  generalize hb1 : (decide (x.level < op.level) || x.isCast || x.isNary op) = b1 at *
  have e1 : printE (.nary op (x :: y :: ys)) ++ rest = wrap b1 (printE x) ++ (printTail op (y :: ys) ++ rest) := by
    rw [printE, hb1]; simp
  obtain ⟨tl, e2⟩ : ∃ tl, printTail op (y :: ys) ++ rest = .sym op.sym :: tl := ⟨_, by rw [printTail]; rfl⟩
  rw [e1] at hF ⊢
  have hlv := op.level_le
  obtain ⟨F1, hF1, h1⟩ := loop_wrap hx hMx b1 pr (printTail op (y :: ys) ++ rest) F
    (by
      intro hb
      rw [hb] at hb1
      simp only [Bool.or_eq_false_iff, decide_eq_false_iff_not] at hb1
      refine ⟨by omega, ?_⟩
      rw [e2]
      simp [follows, opInfo_nop, op.sym_ne_dot, op.sym_ne_lparen, hb1.1.2, hb1.2]
      omega)
    (by
      intro hb
      rw [hb] at hb1
      simp only [Bool.or_eq_true, decide_eq_true_eq] at hb1
      rcases hb1 with (h | h) | h
      · exact not_isId_of_level (by omega)
      · exact not_isId_of_isCast h
      · exact not_isId_of_isNary h)
    (by rw [e2]; simp) hF
  have hlen : 1 + rest.length ≤ (printTail op (y :: ys) ++ rest).length := by
    rw [printTail]; simp only [List.cons_append, List.length_cons, List.length_append]; omega
  obtain ⟨f1, rfl⟩ : ∃ f1, F1 = f1 + 1 := ⟨F1 - 1, by omega⟩
  have ht := pNary_tail op (y :: ys) hys hMys [x] rest f1 hs hn (by omega)
  refine ⟨f1, by omega, ?_⟩
  rw [h1]
  rw [e2] at ht ⊢
  rw [pLoop.eq_2, opInfo_nop]
  simp only []
  rw [if_pos hp', ht]
  rfl


mutual
theorem mprop : (e : Expr) → e.WF → MProp e
  | .bool b, _ => mprop_lit _ (.bool b) (by rw [printE]) (fun f tail => pPrimary.eq_3 f b tail)
  | .int n, _ => mprop_lit _ (.int n) (by rw [printE]) (fun f tail => pPrimary.eq_4 f n tail)
  | .real r, _ => mprop_lit _ (.real r) (by rw [printE]) (fun f tail => pPrimary.eq_5 f r tail)
  | .str s, _ => mprop_lit _ (.str s) (by rw [printE]) (fun f tail => pPrimary.eq_6 f s tail)
  | .cast tp x, h => mprop_cast tp x (WF_cast h).1 (WF_cast h).2 (mprop x (WF_cast h).2)
  | .un op x, h => mprop_un op x (WF_un h) (mprop x (WF_un h))
  | .ctor tp args, h => mprop_ctor tp args (WF_ctor h).1 (WF_ctor h).2 (mprops args (WF_ctor h).2)
  | .bin op l r, h => mprop_bin op l r (WF_bin h).1 (WF_bin h).2 (mprop l (WF_bin h).1) (mprop r (WF_bin h).2)
  | .call ids fn args, h => mprop_call ids fn args (WF_call h) (mprops args (WF_call h))
  | .id q, h => mprop_id q (WF_id h)
  | .nary _ [], h => absurd (WF_nary h).1 (by simp)
  | .nary _ [_], h => absurd (WF_nary h).1 (by simp)
  | .nary op (x :: y :: ys), h =>
    mprop_nary op x y ys (WFs_cons (WF_nary h).2).1 (WFs_cons (WF_nary h).2).2
      (mprop x (WFs_cons (WF_nary h).2).1) (mprops (y :: ys) (WFs_cons (WF_nary h).2).2)
theorem mprops : (es : List Expr) → WFs es → AllM es
  | [], _ => trivial
  | e :: es, h => ⟨mprop e (WFs_cons h).1, mprops es (WFs_cons h).2⟩
end


end Oratio.Riddle
