/-
Helper lemmas for `Properties/C09Reach.lean`, part 4: `Lra.pivot` creates no zero coefficient
(a coefficient that cancels is erased from the row).
-/
import OratioModel
import OratioProofs.Lemmas.LraReachNZ

namespace Oratio
namespace Lra
open Lin

/-- no row has a zero coefficient -/
def RowsNZ (t : Lra) : Prop := ∀ e ∈ t.tableau, NZ e.2.vars

theorem pivStepW_fst (cc : R) (r : Nat) (m : List (Nat × R)) (tw : List (List Nat)) (e : Nat × R) :
    (pivStepW cc r (m, tw) e).1 = addTerm m (e.1, R.mul e.2 cc) := by
  unfold pivStepW addTerm
  simp only
  cases hf : Lin.find m e.1 with
  | none => rfl
  | some old =>
    simp only
    split <;> rfl

theorem pivStepW_fold_fst (cc : R) (r : Nat) : ∀ (es : List (Nat × R)) (m : List (Nat × R)) (tw : List (List Nat)),
    (es.foldl (pivStepW cc r) (m, tw)).1 = (mapC (fun x => R.mul x cc) es).foldl addTerm m := by
  intro es
  induction es with
  | nil => intro m tw; rfl
  | cons e es ih =>
    intro m tw
    rw [List.foldl_cons]
    have : pivStepW cc r (m, tw) e = ((pivStepW cc r (m, tw) e).1, (pivStepW cc r (m, tw) e).2) := rfl
    rw [this, ih, pivStepW_fst]
    rfl

/-- the row rewritten by `pivotRow` has no zero coefficient -/
theorem nz_pivNewRow {xj : Nat} {ex rl : Lin} (hex : ex.WF) (hexn : NZ ex.vars) (hrl : rl.WF) (hrln : NZ rl.vars)
    (hxj : (Lin.find rl.vars xj).isSome = true) (r : Nat) (tw : List (List Nat)) :
    NZ (pivNewRow xj ex r rl tw).vars := by
  obtain ⟨es, ew, -⟩ := (wf_iff ex).1 hex
  obtain ⟨rs, rw', -⟩ := (wf_iff rl).1 hrl
  obtain ⟨c, hc⟩ := Option.isSome_iff_exists.1 hxj
  have hcc : pivCC xj rl = c := by unfold pivCC; rw [hc]; rfl
  have hcw : R.FinWF c := coefWF_find rw' hc
  have hcn : c.num ≠ 0 := nz_find hrln hc
  show NZ (pivW xj ex r rl tw).1
  unfold pivW
  rw [pivStepW_fold_fst, hcc]
  exact nz_foldl_addTerm _ _ (sorted_erase _ rs) (coefWF_erase rw') (nz_erase hrln)
    (coefWF_mapC (fun x hx => (R.mul_fin hx hcw).1) ew)
    (nz_mapC ew hexn (fun x hx hn => mul_nz hx hcw hn hcn))

theorem mem_pivotRow {u : Lra} {xj : Nat} {ex : Lin} {r : Nat} {rl : Lin} (hr : u.rowOf r = some rl)
    {e : Nat × Lin} (he : e ∈ (pivotRow u xj ex r).tableau) :
    e ∈ u.tableau ∨ e = (r, pivNewRow xj ex r rl u.tWatches) := by
  rw [pivotRow_explicit hr] at he
  obtain ⟨e0, he0, h⟩ := List.mem_map.1 he
  by_cases hk : (e0.1 == r) = true
  · rw [if_pos hk] at h
    exact Or.inr h.symm
  · rw [if_neg hk] at h
    exact Or.inl (h ▸ he0)

/-- the loop of `pivot` over the rows watching `xj` -/
theorem nz_pivotLoop (xj : Nat) (ex : Lin) (hexn : NZ ex.vars) : ∀ (rs : List Nat) (u : Lra),
    PInv xj u → ExOk xj ex u → rs.Nodup →
    (∀ r ∈ rs, ∃ rl, u.rowOf r = some rl ∧ (Lin.find rl.vars xj).isSome = true) → RowsNZ u →
    RowsNZ (rs.foldl (fun t r => pivotRow t xj ex r) u) := by
  intro rs
  induction rs with
  | nil => intro u _ _ _ _ h; exact h
  | cons r rs ih =>
    intro u hu hex hnd hrs hnz
    obtain ⟨hr', hnd'⟩ := List.nodup_cons.1 hnd
    obtain ⟨rl, hr, hxj⟩ := hrs r List.mem_cons_self
    have st := pivotRow_spec hu hex hr
    rw [List.foldl_cons]
    refine ih _ st.pinv st.exok hnd' ?_ ?_
    · intro r2 hr2
      obtain ⟨rl2, h2, hx2⟩ := hrs r2 (List.mem_cons_of_mem _ hr2)
      exact ⟨rl2, by rw [st.other r2 (fun h => hr' (h ▸ hr2))]; exact h2, hx2⟩
    · intro e he
      rcases mem_pivotRow hr he with h | h
      · exact hnz e h
      · rw [h]
        exact nz_pivNewRow hex.wf hexn (hu.rows r rl hr) (hnz (r, rl) (tabFind_some_mem hr)) hxj r _

/-- the row of `xi` solved for `xj` has no zero coefficient -/
theorem nz_pivExpr {l : Lin} (hl : l.WF) (hln : NZ l.vars) {xi xj : Nat} {cf : R}
    (hcf : Lin.find l.vars xj = some cf) : NZ (pivExpr l xi xj).vars := by
  obtain ⟨ls, lw, -⟩ := (wf_iff l).1 hl
  have hcw : R.FinWF cf := coefWF_find lw hcf
  have hcn : cf.num ≠ 0 := nz_find hln hcf
  have hnw : R.FinWF (R.neg cf) := R.finWF_neg hcw
  have hnn : (R.neg cf).num ≠ 0 := neg_nz hcn
  have hninf : (R.neg cf).isInfinite = false := by
    unfold R.isInfinite
    simp only [beq_eq_false_iff_ne]
    exact hnw.2
  unfold pivExpr
  simp only [hcf, Option.getD_some]
  apply nz_insert
  · unfold Lin.divAssignR
    rw [hninf]
    simp only [Bool.false_eq_true, if_false]
    exact nz_mapC (f := fun x => R.divAssign x (R.neg cf)) (coefWF_erase lw) (nz_erase hln)
      (fun x hx hn => by rw [R.divAssign_eq_div]; exact div_nz hx hnw hn hnn)
  · exact div_nz finWF_one hcw (by decide) hcn

/-- `pivot(x_i, x_j)` creates no zero coefficient -/
theorem nz_pivot {t : Lra} (ht : Inv t) (hnz : RowsNZ t) {xi xj : Nat} {l : Lin} (hl : t.rowOf xi = some l)
    {cf : R} (hcf : Lin.find l.vars xj = some cf) : RowsNZ (t.pivot xi xj) := by
  have hln : NZ l.vars := hnz (xi, l) (tabFind_some_mem hl)
  have hn : cf.num ≠ 0 := nz_find hln hcf
  have hkxj : (Lin.find l.vars xj).isSome = true := by rw [hcf]; rfl
  have hxjnb : t.rowOf xj = none := ht.nonbasic xi l xj hl hkxj
  have hxjlen : xj < t.tWatches.length := (ht.bound xi l hl).2 xj hkxj
  have hxilen : xi < t.tWatches.length := (ht.bound xi l hl).1
  have hxi : Lin.find l.vars xi = none := by
    cases h : Lin.find l.vars xi with
    | none => rfl
    | some c =>
      have := ht.nonbasic xi l xi hl (by rw [h]; rfl)
      rw [hl] at this
      cases this
  have hne : xj ≠ xi := by
    rintro rfl
    rw [hl] at hxjnb
    cases hxjnb
  obtain ⟨e1, e2, -, -⟩ := pivExpr_spec (ht.rows xi l hl) hcf hn hxi
  obtain ⟨tw, a1, a2, a3⟩ := removeRow_spec ht hl
  rw [pivot_eq t xi xj hl tw a1]
  have hrow2 : ∀ (tw' : List (List Nat)) r,
      Lra.rowOf { t with tableau := t.tableau.filter (fun e => e.1 != xi), tWatches := tw' } r =
        if r = xi then none else t.rowOf r := by
    intro tw' r
    rw [rowOf_eq]
    show tabFind (t.tableau.filter _) r = _
    rw [tabFind_filter]
    rfl
  have hp3 : PInv xj { t with tableau := t.tableau.filter (fun e => e.1 != xi), tWatches := tw.set xj [] } := by
    refine ⟨⟨a3.keys, ?_, ?_, ?_, ?_⟩, ?_, ?_⟩
    · intro r l' h
      exact a3.rows r l' h
    · intro r l' h
      show r < (tw.set xj []).length ∧ ∀ v, _ → v < (tw.set xj []).length
      rw [List.length_set]
      exact a3.bound r l' h
    · intro r l' v h hv
      exact a3.nonbasic r l' v h hv
    · exact forall_mem_set a3.wsorted List.Pairwise.nil
    · intro v hv r
      show r ∈ (tw.set xj []).getD v [] ↔ _
      rw [getD_set, if_neg (fun h => hv h.1.symm)]
      exact a3.watch v r
    · show (tw.set xj []).getD xj [] = []
      rw [getD_set, if_pos ⟨rfl, by rw [a2]; exact hxjlen⟩]
  have hex3 : ExOk xj (pivExpr l xi xj)
      { t with tableau := t.tableau.filter (fun e => e.1 != xi), tWatches := tw.set xj [] } := by
    refine ⟨e1, ?_, ?_⟩
    · intro v hv
      show v < (tw.set xj []).length ∧ _
      rw [List.length_set, a2, hrow2]
      rcases (e2 v).1 hv with rfl | ⟨-, hk⟩
      · exact ⟨hxilen, by rw [if_pos rfl]⟩
      · refine ⟨(ht.bound xi l hl).2 v hk, ?_⟩
        split
        · rfl
        · exact ht.nonbasic xi l v hl hk
    · cases h : Lin.find (pivExpr l xi xj).vars xj with
      | none => rfl
      | some c =>
        rcases (e2 xj).1 (by rw [h]; rfl) with h' | ⟨h', -⟩
        · exact absurd h' hne
        · exact absurd rfl h'
  have hexn := nz_pivExpr (xi := xi) (ht.rows xi l hl) hln hcf
  have hnd : (tw.getD xj []).Nodup :=
    List.Pairwise.imp (fun h => Nat.ne_of_lt h) (getD_sorted a3.wsorted xj)
  have hrs : ∀ r ∈ tw.getD xj [], ∃ rl,
      Lra.rowOf { t with tableau := t.tableau.filter (fun e => e.1 != xi), tWatches := tw.set xj [] } r = some rl ∧
        (Lin.find rl.vars xj).isSome = true := by
    intro r hr
    obtain ⟨l', hl', hk⟩ := (a3.watch xj r).1 hr
    refine ⟨l', ?_, hk⟩
    rw [hrow2] at hl' ⊢
    exact hl'
  have hnz0 : RowsNZ { t with tableau := t.tableau.filter (fun e => e.1 != xi), tWatches := tw.set xj [] } :=
    fun e he => hnz e (List.mem_of_mem_filter he)
  have hloop := nz_pivotLoop xj (pivExpr l xi xj) hexn (tw.getD xj []) _ hp3 hex3 hnd hrs hnz0
  intro e he
  rw [newRow_tableau] at he
  rcases mem_tabInsert_iff he with h | h
  · exact hloop e h
  · rw [h]; exact hexn

end Lra
end Oratio
