/-
C07NC, non-vacuity: after the history `NetEx3.hist` (from `Net.init`; level 1, decision `b2`, `¬b3` propagated, one
tableau row) `check [b2, b4]` is run.  `b2` is ALREADY TRUE: `assume b2` opens level 2 and puts nothing on the trail,
so `DecOK 2` fails of the network `mid` after the first round; `b4` is then assumed at level 3 (it propagates
`b5 := b2 ∧ b4`), `check` answers `true` and pops back to level 1.  The side conditions `CheckGuard` are established by
evaluation (`ccB_sound`).
-/
import OratioProofs.Lemmas.NetCheckB
import OratioProofs.Lemmas.NetInvEx3

namespace Oratio
namespace NetCheckEx
open Net Sat NetCheck

/-- the network at the call -/
def n0 : Net := (NetEx3.st 10).n

def b2 : Lit := ⟨2, true⟩
def b4 : Lit := ⟨4, true⟩

/-- round 1: after `assume b2` / after the `propagate` that follows -/
def a1 : Net := ((n0.assume b2 100).getD (false, Net.init)).2
def mid : Net := ((a1.propagate 100).getD (false, Net.init)).2
/-- round 2 -/
def a3 : Net := ((mid.assume b4 100).getD (false, Net.init)).2
def a4 : Net := ((a3.propagate 100).getD (false, Net.init)).2
/-- the network `check` returns -/
def final : Net := Net.popTo a4 1

set_option maxRecDepth 100000 in
theorem e1 : n0.assume b2 100 = some (true, a1) := by rfl
set_option maxRecDepth 100000 in
theorem e2 : a1.propagate 100 = some (true, mid) := by rfl
set_option maxRecDepth 100000 in
theorem e3 : mid.assume b4 100 = some (true, a3) := by rfl
set_option maxRecDepth 100000 in
theorem e4 : a3.propagate 100 = some (true, a4) := by rfl

set_option maxRecDepth 100000 in
theorem run : Net.check (NetEx3.st 10).n [⟨2, true⟩, ⟨4, true⟩] 100 = some (true, final) := by rfl

set_option maxRecDepth 100000 in
theorem guard : CheckGuard 100 (NetEx3.st 10).n [⟨2, true⟩, ⟨4, true⟩] := by
  show CheckGuard 100 n0 [b2, b4]
  unfold CheckGuard
  refine ⟨by decide, fun _ => ccB_sound 100 _ (by decide), ?_⟩
  rw [e1]
  refine ⟨ccB_sound 100 _ (by decide), ?_⟩
  rw [e2]
  intro _
  unfold CheckGuard
  refine ⟨by decide, fun _ => ccB_sound 100 _ (by decide), ?_⟩
  rw [e3]
  refine ⟨ccB_sound 100 _ (by decide), ?_⟩
  rw [e4]
  intro _
  unfold CheckGuard
  trivial

set_option maxRecDepth 100000 in
theorem facts :
    ((NetEx3.st 10).n.sat.queue = [] ∧ (NetEx3.st 10).n.sat.dead = false ∧ (NetEx3.st 10).n.sat.decisionLevel = 1 ∧
      (NetEx3.st 10).n.sat.value ⟨2, true⟩ = some true ∧ (NetEx3.st 10).n.sat.value ⟨4, true⟩ = none) ∧
    (mid.sat.decisionLevel = 2 ∧ ¬ mid.sat.DecOK 2) ∧ final.sat.decisionLevel = 1 := by
  refine ⟨⟨by decide, by decide, by decide, by decide, by decide⟩, ⟨by decide, fun h => ?_⟩, by decide⟩
  have := (h [] ⟨2, true⟩ [⟨2, true⟩] (by decide) (by decide)).2
  revert this
  decide

end NetCheckEx
end Oratio
