/-
Pure mathematics behind C10 (real-valued instance): distance matrices with entries in
`WithTop G` for a linearly ordered abelian group `G` (`⊤` = +∞), valuations `σ : Nat → G`,
feasibility potentials, tight witnesses and the closed form of the incremental update.

Counterpart of OratioProofs/Lemmas/DlVal.lean; no overflow range is needed, so the `bnd`
component and the gap/pigeonhole argument disappear.
-/
import Mathlib.Algebra.Order.Group.Defs
import Mathlib.Algebra.Order.Monoid.WithTop
import Mathlib.Algebra.Order.Group.MinMax
import Mathlib.Tactic.GCongr
import Mathlib.Tactic.Abel

set_option linter.unusedSectionVars false

namespace Oratio
namespace DlW

variable {G : Type} [AddCommGroup G] [LinearOrder G] [IsOrderedAddMonoid G]

abbrev Mat (G : Type) := Nat → Nat → WithTop G
abbrev Edge (G : Type) := Nat × Nat × G

/-- the valuation satisfies every edge `(f, t, w)`: `σ t - σ f ≤ w` -/
def Sat (σ : Nat → G) (E : List (Edge G)) : Prop := ∀ e ∈ E, σ e.2.1 - σ e.1 ≤ e.2.2

/-- exactness of a matrix relative to `E` -/
structure Weak (n : Nat) (E : List (Edge G)) (M : Mat G) : Prop where
  edges_in : ∀ e ∈ E, e.1 < n ∧ e.2.1 < n
  diag : ∀ i, i < n → M i i = 0
  respects : ∀ e ∈ E, M e.1 e.2.1 ≤ ((e.2.2 : G) : WithTop G)
  closed : ∀ i j k, i < n → j < n → k < n → M i j ≤ M i k + M k j
  implied : ∀ i j, i < n → j < n → ∀ σ, Sat σ E → (((σ j - σ i : G)) : WithTop G) ≤ M i j

theorem Weak.congr {n : Nat} {E : List (Edge G)} {M M' : Mat G} (h : Weak n E M)
    (heq : ∀ a b, a < n → b < n → M' a b = M a b) : Weak n E M' := by
  refine ⟨h.edges_in, ?_, ?_, ?_, ?_⟩
  · intro i hi; rw [heq i i hi hi]; exact h.diag i hi
  · intro e he
    obtain ⟨h1, h2⟩ := h.edges_in e he
    rw [heq _ _ h1 h2]; exact h.respects e he
  · intro i j k hi hj hk
    rw [heq i k hi hk, heq k j hk hj, heq i j hi hj]; exact h.closed i j k hi hj hk
  · intro i j hi hj
    rw [heq i j hi hj]; exact h.implied i j hi hj

/-- adding an isolated node `n` (distance `0` to itself, `∞` to and from everything else) -/
theorem Weak.extend {n : Nat} {E : List (Edge G)} {M M' : Mat G} (h : Weak n E M)
    (hold : ∀ a b, a < n → b < n → M' a b = M a b)
    (hnew : ∀ a b, a < n + 1 → b < n + 1 → (a = n ∨ b = n) → M' a b = if a = b then 0 else ⊤) :
    Weak (n + 1) E M' := by
  have hnn : M' n n = 0 := by rw [hnew n n (by omega) (by omega) (Or.inl rfl), if_pos rfl]
  have htop : ∀ a b, a < n + 1 → b < n + 1 → (a = n ∨ b = n) → a ≠ b → M' a b = ⊤ := by
    intro a b ha hb hab hne
    rw [hnew a b ha hb hab, if_neg hne]
  refine ⟨?_, ?_, ?_, ?_, ?_⟩
  · intro e he
    obtain ⟨h1, h2⟩ := h.edges_in e he
    exact ⟨by omega, by omega⟩
  · intro i hi
    by_cases hin : i = n
    · rw [hin, hnn]
    · rw [hold i i (by omega) (by omega)]; exact h.diag i (by omega)
  · intro e he
    obtain ⟨h1, h2⟩ := h.edges_in e he
    rw [hold _ _ h1 h2]; exact h.respects e he
  · intro i j k hi hj hk
    by_cases hkn : k = n
    · by_cases hin : i = n
      · by_cases hjn : j = n
        · rw [hkn, hin, hjn, hnn]; simp
        · rw [htop k j hk hj (Or.inl hkn) (by omega), WithTop.add_top]; exact le_top
      · rw [htop i k hi hk (Or.inr hkn) (by omega), WithTop.top_add]; exact le_top
    · by_cases hin : i = n
      · rw [htop i k hi hk (Or.inl hin) (by omega), WithTop.top_add]; exact le_top
      · by_cases hjn : j = n
        · rw [htop k j hk hj (Or.inr hjn) (by omega), WithTop.add_top]; exact le_top
        · rw [hold i k (by omega) (by omega), hold k j (by omega) (by omega), hold i j (by omega) (by omega)]
          exact h.closed i j k (by omega) (by omega) (by omega)
  · intro i j hi hj σ hσ
    by_cases hab : i = n ∨ j = n
    · by_cases hij : i = j
      · rw [hnew i j hi hj hab, if_pos hij, hij]; simp
      · rw [htop i j hi hj hab hij]; exact le_top
    · rw [hold i j (by omega) (by omega)]
      exact h.implied i j (by omega) (by omega) σ hσ

/-! ### a feasible valuation: the Bellman–Ford potential with a virtual source -/

/-- minimum of `0` and the entries `M 0 k, …, M (m-1) k` -/
def pot (M : Mat G) (k : Nat) : Nat → WithTop G
  | 0 => 0
  | m + 1 => min (pot M k m) (M m k)

theorem pot_le_zero (M : Mat G) (k : Nat) : ∀ m, pot M k m ≤ 0
  | 0 => le_refl _
  | m + 1 => le_trans (min_le_left _ _) (pot_le_zero M k m)

theorem pot_le (M : Mat G) (k : Nat) : ∀ m j, j < m → pot M k m ≤ M j k
  | 0, j, h => by omega
  | m + 1, j, h => by
    by_cases hjm : j = m
    · subst hjm; exact min_le_right _ _
    · exact le_trans (min_le_left _ _) (pot_le M k m j (by omega))

theorem pot_attained (M : Mat G) (k : Nat) : ∀ m, pot M k m = 0 ∨ ∃ j, j < m ∧ pot M k m = M j k
  | 0 => Or.inl rfl
  | m + 1 => by
    show min (pot M k m) (M m k) = 0 ∨ ∃ j, j < m + 1 ∧ min (pot M k m) (M m k) = M j k
    rcases le_total (pot M k m) (M m k) with hc | hc
    · rw [min_eq_left hc]
      rcases pot_attained M k m with h0 | ⟨j, hj, he⟩
      · left; exact h0
      · right; exact ⟨j, by omega, he⟩
    · rw [min_eq_right hc]
      right; exact ⟨m, by omega, rfl⟩

theorem pot_ne_top (M : Mat G) (k m : Nat) : pot M k m ≠ ⊤ := by
  intro h
  have := pot_le_zero M k m
  rw [h] at this
  exact absurd (top_le_iff.mp this) WithTop.zero_ne_top

/-- the potential as a group element -/
noncomputable def potv (M : Mat G) (k m : Nat) : G := (pot M k m).untopD 0

theorem coe_potv (M : Mat G) (k m : Nat) : ((potv M k m : G) : WithTop G) = pot M k m := by
  unfold potv
  cases h : pot M k m with
  | top => exact absurd h (pot_ne_top M k m)
  | coe x => rfl

theorem potv_le_zero (M : Mat G) (k m : Nat) : potv M k m ≤ 0 := by
  have := pot_le_zero M k m
  rw [← coe_potv] at this
  exact_mod_cast this

theorem pot_edge {n : Nat} {E : List (Edge G)} {M : Mat G} (h : Weak n E M) (a b : Nat) (ha : a < n) (hb : b < n) :
    pot M b n ≤ pot M a n + M a b := by
  rcases pot_attained M a n with h0 | ⟨j, hj, hej⟩
  · rw [h0, zero_add]; exact pot_le M b n a ha
  · rw [hej]
    exact le_trans (pot_le M b n j hj) (h.closed j b a hj hb ha)

theorem feasible0 {n : Nat} {E : List (Edge G)} {M : Mat G} (h : Weak n E M) :
    Sat (fun k => potv M k n) E := by
  intro e he
  obtain ⟨ha, hb⟩ := h.edges_in e he
  have h1 := pot_edge h e.1 e.2.1 ha hb
  have h2 : pot M e.2.1 n ≤ pot M e.1 n + ((e.2.2 : G) : WithTop G) :=
    le_trans h1 (add_le_add le_rfl (h.respects e he))
  rw [← coe_potv, ← coe_potv, ← WithTop.coe_add, WithTop.coe_le_coe] at h2
  show potv M e.2.1 n - potv M e.1 n ≤ e.2.2
  rw [sub_le_iff_le_add']
  exact h2

/-! ### tight witnesses -/

/-- the row `i` of the matrix, completed at distance `L` on the unreachable nodes, is a valuation
    as soon as `L` dominates finitely many differences of finite entries -/
theorem witness {n : Nat} {E : List (Edge G)} {M : Mat G} (h : Weak n E M)
    (i : Nat) (hi : i < n) (L : G)
    (hL : ∀ a b, a < n → b < n → ∀ z y : G, M i b = (z : WithTop G) → M a b = (y : WithTop G) →
      z - y - potv M a n ≤ L) :
    ∃ σ : Nat → G, Sat σ E ∧ (∀ k, k < n → ∀ x : G, M i k = (x : WithTop G) → σ k = x) ∧
      (∀ k, k < n → M i k = ⊤ → σ k = L + potv M k n) := by
  have hs0 := feasible0 h
  refine ⟨fun k => if M i k = ⊤ then L + potv M k n else (M i k).untopD 0, ?_, ?_, ?_⟩
  · intro e he
    obtain ⟨ha, hb⟩ := h.edges_in e he
    have hresp := h.respects e he
    have he0 : potv M e.2.1 n - potv M e.1 n ≤ e.2.2 := hs0 e he
    show (if M i e.2.1 = ⊤ then L + potv M e.2.1 n else (M i e.2.1).untopD 0) -
      (if M i e.1 = ⊤ then L + potv M e.1 n else (M i e.1).untopD 0) ≤ e.2.2
    -- the entry of the edge is finite
    obtain ⟨y, hy⟩ : ∃ y : G, M e.1 e.2.1 = (y : WithTop G) := by
      cases hc : M e.1 e.2.1 with
      | top => rw [hc] at hresp; exact absurd (top_le_iff.mp hresp) (WithTop.coe_ne_top)
      | coe y => exact ⟨y, rfl⟩
    have hyw : y ≤ e.2.2 := by rw [hy] at hresp; exact_mod_cast hresp
    cases h1 : M i e.1 with
    | coe x =>
      have hcl := h.closed i e.2.1 e.1 hi hb ha
      rw [h1, hy, ← WithTop.coe_add] at hcl
      cases h2 : M i e.2.1 with
      | top => rw [h2] at hcl; exact absurd (top_le_iff.mp hcl) (WithTop.coe_ne_top)
      | coe z =>
        rw [h2] at hcl
        have hzl : z ≤ x + y := by exact_mod_cast hcl
        rw [if_neg WithTop.coe_ne_top, if_neg WithTop.coe_ne_top]
        simp only [WithTop.untopD_coe]
        rw [sub_le_iff_le_add']
        exact le_trans hzl (add_le_add le_rfl hyw)
    | top =>
      rw [if_pos rfl]
      cases h2 : M i e.2.1 with
      | top =>
        rw [if_pos rfl]
        have : L + potv M e.2.1 n - (L + potv M e.1 n) = potv M e.2.1 n - potv M e.1 n := by abel
        rw [this]; exact he0
      | coe z =>
        rw [if_neg WithTop.coe_ne_top]
        simp only [WithTop.untopD_coe]
        have hb1 := hL e.1 e.2.1 ha hb z y h2 hy
        have e1 : z - (L + potv M e.1 n) = (z - y - potv M e.1 n) - L + y := by abel
        rw [e1]
        have : z - y - potv M e.1 n - L ≤ 0 := sub_nonpos.mpr hb1
        calc z - y - potv M e.1 n - L + y ≤ 0 + y := add_le_add this le_rfl
          _ = y := zero_add y
          _ ≤ e.2.2 := hyw
  · intro k _ x hx
    show (if M i k = ⊤ then L + potv M k n else (M i k).untopD 0) = x
    rw [hx, if_neg WithTop.coe_ne_top]; rfl
  · intro k _ hx
    show (if M i k = ⊤ then L + potv M k n else (M i k).untopD 0) = L + potv M k n
    rw [if_pos hx]

theorem exists_upper (S : List G) : ∃ L : G, ∀ x ∈ S, x ≤ L := by
  induction S with
  | nil => exact ⟨0, by simp⟩
  | cons a S ih =>
    obtain ⟨L, hL⟩ := ih
    refine ⟨max a L, ?_⟩
    intro x hx
    rcases List.mem_cons.mp hx with rfl | hx
    · exact le_max_left _ _
    · exact le_trans (hL x hx) (le_max_right _ _)

/-- a bound `L` as required by `witness`, additionally above a given `L0` -/
theorem exists_L (n : Nat) (M : Mat G) (i : Nat) (L0 : G) :
    ∃ L : G, L0 ≤ L ∧ ∀ a b, a < n → b < n → ∀ z y : G, M i b = (z : WithTop G) → M a b = (y : WithTop G) →
      z - y - potv M a n ≤ L := by
  obtain ⟨L, hL⟩ := exists_upper (L0 :: (List.range n).flatMap (fun a => (List.range n).map (fun b =>
    (M i b).untopD 0 - (M a b).untopD 0 - potv M a n)))
  refine ⟨L, hL L0 List.mem_cons_self, ?_⟩
  intro a b ha hb z y hz hy
  apply hL
  apply List.mem_cons_of_mem
  rw [List.mem_flatMap]
  refine ⟨a, List.mem_range.mpr ha, ?_⟩
  rw [List.mem_map]
  refine ⟨b, List.mem_range.mpr hb, ?_⟩
  rw [hz, hy]; rfl

/-! ### the closed form of the incremental update -/

/-- `min (M a b) (M a f + w + M g b)` -/
def upd (M : Mat G) (f g : Nat) (w : G) : Mat G := fun a b =>
  min (M a b) (M a f + ((w : G) : WithTop G) + M g b)

theorem upd_le_old (M : Mat G) (f g : Nat) (w : G) (a b : Nat) : upd M f g w a b ≤ M a b := min_le_left _ _

theorem upd_le_cand (M : Mat G) (f g : Nat) (w : G) (a b : Nat) :
    upd M f g w a b ≤ M a f + ((w : G) : WithTop G) + M g b := min_le_right _ _

/-- going around the new cycle through `k` costs nothing negative -/
theorem cyc_through {n : Nat} {E : List (Edge G)} {M : Mat G} (h : Weak n E M) {f g : Nat} {w : G}
    (hf : f < n) (hg : g < n) (hcyc : 0 ≤ M g f + ((w : G) : WithTop G)) (k : Nat) (hk : k < n) :
    0 ≤ M g k + M k f + ((w : G) : WithTop G) :=
  le_trans hcyc (add_le_add (h.closed g f k hg hf hk) le_rfl)

theorem update_weak {n : Nat} {E : List (Edge G)} {M : Mat G} (h : Weak n E M) {f g : Nat} {w : G}
    (hf : f < n) (hg : g < n) (hcyc : 0 ≤ M g f + ((w : G) : WithTop G)) :
    Weak n ((f, g, w) :: E) (upd M f g w) := by
  have hSat : ∀ σ : Nat → G, Sat σ ((f, g, w) :: E) → Sat σ E ∧ σ g - σ f ≤ w := by
    intro σ hs
    exact ⟨fun e he => hs e (List.mem_cons_of_mem _ he), hs (f, g, w) List.mem_cons_self⟩
  refine ⟨?_, ?_, ?_, ?_, ?_⟩
  · intro e he
    rcases List.mem_cons.mp he with rfl | he
    · exact ⟨hf, hg⟩
    · exact h.edges_in e he
  · intro a ha
    show min (M a a) (M a f + ((w : G) : WithTop G) + M g a) = 0
    rw [h.diag a ha]
    apply min_eq_left
    have := cyc_through h hf hg hcyc a ha
    calc (0 : WithTop G) ≤ M g a + M a f + ((w : G) : WithTop G) := this
      _ = M a f + ((w : G) : WithTop G) + M g a := by ac_rfl
  · intro e he
    rcases List.mem_cons.mp he with rfl | he
    · show upd M f g w f g ≤ ((w : G) : WithTop G)
      have := upd_le_cand M f g w f g
      rw [h.diag f hf, h.diag g hg, zero_add, add_zero] at this
      exact this
    · exact le_trans (upd_le_old M f g w _ _) (h.respects e he)
  · intro i j k hi hj hk
    show upd M f g w i j ≤ min (M i k) (M i f + ((w : G) : WithTop G) + M g k) +
      min (M k j) (M k f + ((w : G) : WithTop G) + M g j)
    rcases min_choice (M i k) (M i f + ((w : G) : WithTop G) + M g k) with c1 | c1 <;>
    rcases min_choice (M k j) (M k f + ((w : G) : WithTop G) + M g j) with c2 | c2 <;>
    rw [c1, c2]
    · exact le_trans (upd_le_old M f g w i j) (h.closed i j k hi hj hk)
    · calc upd M f g w i j ≤ M i f + ((w : G) : WithTop G) + M g j := upd_le_cand M f g w i j
        _ ≤ (M i k + M k f) + ((w : G) : WithTop G) + M g j :=
          add_le_add (add_le_add (h.closed i f k hi hf hk) le_rfl) le_rfl
        _ = M i k + (M k f + ((w : G) : WithTop G) + M g j) := by ac_rfl
    · calc upd M f g w i j ≤ M i f + ((w : G) : WithTop G) + M g j := upd_le_cand M f g w i j
        _ ≤ M i f + ((w : G) : WithTop G) + (M g k + M k j) :=
          add_le_add le_rfl (h.closed g j k hg hj hk)
        _ = M i f + ((w : G) : WithTop G) + M g k + M k j := by ac_rfl
    · have hc := cyc_through h hf hg hcyc k hk
      calc upd M f g w i j ≤ M i f + ((w : G) : WithTop G) + M g j := upd_le_cand M f g w i j
        _ = M i f + ((w : G) : WithTop G) + 0 + M g j := by rw [add_zero]
        _ ≤ M i f + ((w : G) : WithTop G) + (M g k + M k f + ((w : G) : WithTop G)) + M g j :=
          add_le_add (add_le_add le_rfl hc) le_rfl
        _ = M i f + ((w : G) : WithTop G) + M g k + (M k f + ((w : G) : WithTop G) + M g j) := by ac_rfl
  · intro i j hi hj σ hs
    obtain ⟨hsE, hnew⟩ := hSat σ hs
    apply le_min
    · exact h.implied i j hi hj σ hsE
    · have h1 := h.implied i f hi hf σ hsE
      have h2 := h.implied g j hg hj σ hsE
      have h3 : (((σ g - σ f : G)) : WithTop G) ≤ ((w : G) : WithTop G) := by exact_mod_cast hnew
      have e : (((σ j - σ i : G)) : WithTop G) =
          (((σ f - σ i : G)) : WithTop G) + (((σ g - σ f : G)) : WithTop G) + (((σ j - σ g : G)) : WithTop G) := by
        rw [← WithTop.coe_add, ← WithTop.coe_add]
        congr 1; abel
      rw [e]
      exact add_le_add (add_le_add h1 h3) h2

end DlW
end Oratio
