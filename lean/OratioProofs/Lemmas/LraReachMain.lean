/-
Helper lemmas for `Properties/C09Reach.lean`, part 10: `new_lt … new_gt`, `new_eq` keep the
invariant; every operation does (`step_good`); every reachable state is good (`run_good`).
-/
import OratioModel
import OratioProofs.Lemmas.LraReachNew

namespace Oratio
namespace Lra
open Lin

/-! ### expressions -/

theorem LinOK.mono {t u : Lra} {l : Lin} (h : LinOK t l) (hle : t.vals.length ≤ u.vals.length) : LinOK u l :=
  ⟨h.1, fun p hp => ⟨Nat.lt_of_lt_of_le (h.2 p hp).1 hle, (h.2 p hp).2⟩⟩

theorem linOK_sub {t : Lra} {a b : Lin} (ha : LinOK t a) (hb : LinOK t b) : LinOK t (Lin.sub a b) := by
  obtain ⟨as, aw, -⟩ := (wf_iff a).1 ha.1
  obtain ⟨-, bw, -⟩ := (wf_iff b).1 hb.1
  refine ⟨(sub_spec a b ha.1 hb.1).1, ?_⟩
  have hnz := nz_sub ha.1 hb.1 (fun p hp => (ha.2 p hp).2) (fun p hp => (hb.2 p hp).2)
  intro p hp
  refine ⟨?_, hnz p hp⟩
  have hk : (Lin.find (Lin.sub a b).vars p.1).isSome = true := find_isSome_of_mem (c := p.2) hp
  have hv : (Lin.sub a b).vars = (mapC R.neg b.vars).foldl addTerm a.vars := foldl_subTerm b.vars a.vars
  rw [hv] at hk
  rcases foldl_addTerm_keys _ _ as aw (coefWF_mapC (fun c hc => R.finWF_neg hc) bw) p.1 hk with h | h
  · obtain ⟨q, hq, hq1⟩ := hasKey_iff_exists.1 h
    rw [← hq1]; exact (ha.2 q hq).1
  · rw [find_mapC_isSome] at h
    obtain ⟨q, hq, hq1⟩ := hasKey_iff_exists.1 h
    rw [← hq1]; exact (hb.2 q hq).1

theorem linOK_substBasic {t : Lra} (g : GoodState t) {l : Lin} (hl : LinOK t l) : LinOK t (substBasic t l) := by
  obtain ⟨hi, hlen⟩ := (tabWF_iff t).1 g.tab
  obtain ⟨s1, -, s3, -⟩ := substBasic_spec (t := t) hi.rows hl.1
  have hnz := nz_substBasic hi.rows (fun r l' h => g.nz (r, l') (tabFind_some_mem h)) hi.nonbasic hl.1
    (fun p hp => (hl.2 p hp).2)
  refine ⟨s1, fun p hp => ⟨?_, hnz p hp⟩⟩
  rcases s3 p.1 (find_isSome_of_mem (c := p.2) hp) with h | ⟨r, rl, hr, h⟩
  · obtain ⟨q, hq, hq1⟩ := hasKey_iff_exists.1 h
    rw [← hq1]; exact (hl.2 q hq).1
  · rw [← hlen]; exact (hi.bound r rl hr).2 p.1 h

theorem linOK_known_zero {t : Lra} {l : Lin} (hl : LinOK t l) : LinOK t { l with known := R.zero } := by
  obtain ⟨a, b, -⟩ := (wf_iff l).1 hl.1
  exact ⟨(wf_iff _).2 ⟨a, b, R.finWF_zero⟩, hl.2⟩

theorem linOK_relE {t : Lra} (g : GoodState t) {a b : Lin} (ha : LinOK t a) (hb : LinOK t b) :
    LinOK t (relE t a b) :=
  linOK_known_zero (linOK_substBasic g (linOK_sub ha hb))

theorem finIR_relC {t : Lra} (g : GoodState t) (r : LRel) {a b : Lin} (ha : LinOK t a) (hb : LinOK t b) :
    FinIR (relC t r a b) := by
  have hk : R.FinWF (substBasic t (Lin.sub a b)).known :=
    ((wf_iff _).1 (linOK_substBasic g (linOK_sub ha hb)).1).2.2
  unfold relC
  cases r
  · exact ⟨R.finWF_neg hk, R.finWF_ofInt _⟩
  · exact ⟨R.finWF_neg hk, R.finWF_neg R.finWF_zero⟩
  · exact ⟨R.finWF_neg hk, R.finWF_neg R.finWF_zero⟩
  · exact ⟨R.finWF_neg hk, R.finWF_ofInt _⟩

/-! ### `new_lt … new_gt`, `new_eq` -/

theorem relReg_good {t : Lra} (g : GoodState t) (up : Bool) {slack : Nat} (hs : slack < t.vals.length) {c : IR}
    (hc : FinIR c) (ctr : Nat) : GoodState (relReg t up slack c ctr) := by
  have gc := g.toGoodCore
  refine ⟨⟨tabWF_congr (t := t) rfl rfl rfl gc.tab, gc.nz, gc.vfin, gc.rowsRat, gc.rowsInf, gc.blen, gc.bwf, ?_, gc.lay,
    gc.exprs⟩, g.nbin⟩
  intro e he
  rcases List.mem_append.1 (show e ∈ t.vAsrts ++ [_] from he) with h | h
  · exact gc.asrts e h
  · rw [List.mem_singleton.1 h]
    exact ⟨hs, hc⟩

theorem newRel_good {s : Sat} {t : Lra} (g : GoodState t) {r : LRel} {a b : Lin} (ha : LinOK t a) (hb : LinOK t b)
    {l : Lit} {s' : Sat} {t' : Lra} {bd : Option Nat} (h : newRel s t r a b = some (l, s', t', bd)) :
    GoodState t' ∧ t.vals.length ≤ t'.vals.length := by
  have he := linOK_relE g ha hb
  rcases newRel_outcome h with ⟨-, -, rfl, -⟩ | ⟨slack, -, hv, -, -, -⟩ | ⟨slack, -, hv, -, -, -, -⟩ |
    ⟨slack, t1, -, hv, -, -, -, -, rfl, -⟩
  · exact ⟨g, Nat.le_refl _⟩
  · obtain ⟨g1, -, l1⟩ := newVarLin_good g he hv
    exact ⟨g1, l1⟩
  · obtain ⟨g1, -, l1⟩ := newVarLin_good g he hv
    exact ⟨g1, l1⟩
  · obtain ⟨g1, s1, l1⟩ := newVarLin_good g he hv
    exact ⟨relReg_good g1 _ s1 (finIR_relC g r ha hb) _, l1⟩

theorem newEq_good {s : Sat} {t : Lra} (g : GoodState t) {a b : Lin} (ha : LinOK t a) (hb : LinOK t b)
    {l : Lit} {s' : Sat} {t' : Lra} {bd : List Nat} (h : newEq s t a b = some (l, s', t', bd)) :
    GoodState t' := by
  unfold newEq at h
  split at h
  · cases h
  · next l1 s1 t1 b1 h1 =>
    obtain ⟨g1, len1⟩ := newRel_good g ha hb h1
    split at h
    · cases h
    · next l2 s2 t2 b2 h2 =>
      obtain ⟨g2, -⟩ := newRel_good g1 (ha.mono len1) (hb.mono len1) h2
      simp only [Option.some.injEq, Prod.mk.injEq] at h
      rw [← h.2.2.1]
      exact g2

/-! ### every operation keeps the invariant -/

theorem init_good : GoodState Lra.init := by
  refine ⟨⟨tabWF_init, ?_, ?_, ?_, ?_, rfl, ?_, ?_, trivial, ?_⟩, ?_⟩
  · intro e he; cases he
  · intro v hv; cases hv
  · intro e he; cases he
  · intro e he; cases he
  · intro x hx; exact absurd hx (Nat.not_lt_zero _)
  · intro e he; cases he
  · intro e he; cases he
  · intro x hx; exact absurd hx (Nat.not_lt_zero _)

theorem step_good (st : Sat × Lra) (op : LraOp) (g : GoodState st.2) (hv : ValidOp st.2 op) :
    GoodState (step st op).2 := by
  cases op with
  | newVar => exact newVar_good g
  | newVarLin l =>
    show GoodState (match Lra.newVarLin st.1 st.2 l with | some (_, t) => (st.1, t) | none => st).2
    cases h : Lra.newVarLin st.1 st.2 l with
    | none => exact g
    | some p => exact (newVarLin_good g hv (slack := p.1) (t1 := p.2) h).1
  | newRel r a b =>
    show GoodState (match Lra.newRel st.1 st.2 r a b with | some (_, s, t, _) => (s, t) | none => st).2
    cases h : Lra.newRel st.1 st.2 r a b with
    | none => exact g
    | some p =>
      obtain ⟨l, s', t', bd⟩ := p
      exact (newRel_good g hv.1 hv.2 h).1
  | newEq a b =>
    show GoodState (match Lra.newEq st.1 st.2 a b with | some (_, s, t, _) => (s, t) | none => st).2
    cases h : Lra.newEq st.1 st.2 a b with
    | none => exact g
    | some p =>
      obtain ⟨l, s', t', bd⟩ := p
      exact newEq_good g hv.1 hv.2 h
  | setLb x v p =>
    obtain ⟨hx, hw, hi, hr⟩ := hv
    exact (assertLower_good g hx ⟨hw.1, hr, hw.2, hi⟩).1
  | setUb x v p =>
    obtain ⟨hx, hw, hi, hr⟩ := hv
    exact (assertUpper_good g hx ⟨hw.1, hr, hw.2, hi⟩).1
  | setEq x v p =>
    obtain ⟨hx, hw, hi, hr⟩ := hv
    exact setEq_good g hx ⟨⟨hw.1, hr⟩, ⟨hw.2, hi⟩⟩
  | propagateLit p => exact propagateLit_good g
  | check fuel =>
    show GoodState (match st.2.check fuel with | some (_, t) => (st.1, t) | none => st).2
    cases h : st.2.check fuel with
    | none => exact g
    | some p =>
      obtain ⟨c, t'⟩ := p
      exact check_good fuel _ _ _ g h
  | push => exact push_good g
  | pop => exact pop_good g
  | satMove s' => exact g

theorem run_good : ∀ (ops : List LraOp) (st : Sat × Lra), GoodState st.2 → ValidRun st ops →
    GoodState (run st ops).2 := by
  intro ops
  induction ops with
  | nil => intro st g _; exact g
  | cons op ops ih =>
    intro st g hv
    exact ih _ (step_good st op g hv.1) hv.2

end Lra
end Oratio
