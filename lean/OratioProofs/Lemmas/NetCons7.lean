/-
C07N, target 4: `lra.new_eq(left, right)` = `new_geq`, `new_leq` and the reified conjunction of the two answers
(`Sat.newConj`), at root level: the invariant is kept, the ghost set growing by the CNF of the resulting SAT core.
-/
import OratioProofs.Lemmas.NetCons6

set_option linter.unusedSimpArgs false
set_option linter.unusedVariables false

namespace Oratio
namespace Net
open Sat

/-- the literal answered by a relation request names an existing SAT variable -/
theorem lraNewRel_lit {n : Net} {orig L : Cnf} {fr : List Frame} (h : NetInv n orig L fr)
    {r : LRel} {a b : Lin} (ha : Lra.LinOK n.lra a) (hb : Lra.LinOK n.lra b) {l : Lit} {n' : Net}
    (he : lraNewRel n r a b = some (l, n')) :
    l.var < n'.sat.vals.length ∧ n.lra.vals.length ≤ n'.lra.vals.length := by
  unfold lraNewRel at he
  cases hv : Lra.newRel n.sat n.lra r a b with
  | none => rw [hv] at he; simp at he
  | some res =>
    obtain ⟨l1, s', t', bs⟩ := res
    rw [hv] at he
    simp only [Option.map_some, Option.some.injEq, Prod.mk.injEq] at he
    obtain ⟨rfl, rfl⟩ := he
    have hlen := (Lra.newRel_good h.reg.good ha hb hv).2
    refine ⟨?_, hlen⟩
    have hpos := vals_pos h.sat
    have hconst : ∀ {x : Lit}, (x = Lit.trueLit ∨ x = Lit.falseLit) → x.var < n.sat.vals.length := by
      intro x hx
      rcases hx with rfl | rfl <;> exact hpos
    show l1.var < s'.vals.length
    cases Lra.newRel_outcome hv with
    | decidedExpr h0 hs ht hb' => rw [hs]; exact hconst (Lra.relSat_const h0)
    | decidedSlack slack h0 hvl h1 hs hb' => rw [hs]; exact hconst (Lra.relSat_const h1)
    | cached slack h0 hvl h1 hf hs hb' =>
      rw [hs]
      obtain ⟨e, he, hel⟩ := Lra.findKey_some_mem hf
      rw [(Lra.newVarLin_spec hvl).1] at he
      rw [← hel]; exact h.reg.sa e he
    | fresh slack t1 h0 hvl h1 hf hl hs ht hb' =>
      rw [hs, hl]
      show n.sat.nvars < (n.sat.vals ++ [none]).length
      simp [Sat.nvars]

theorem linOK_mono {t t' : Lra} {l : Lin} (h : Lra.LinOK t l) (hlen : t.vals.length ≤ t'.vals.length) : Lra.LinOK t' l :=
  ⟨h.1, fun p hp => ⟨Nat.lt_of_lt_of_le (h.2 p hp).1 hlen, (h.2 p hp).2⟩⟩

/-- **`lra.new_eq`** at root level for canonical expressions over existing variables -/
theorem NetInv.at_lraNewEq {n : Net} {orig L : Cnf} {fr : List Frame} (h : NetInv n orig L fr) (hroot : n.sat.trailLim = [])
    (hd : n.sat.dead = false) {a b : Lin} (ha : Lra.LinOK n.lra a) (hb : Lra.LinOK n.lra b) {l : Lit} {n' : Net}
    (he : lraNewEq n a b = some (l, n')) :
    NetInv n' (orig ++ n'.sat.toEnc.cnf) L [] ∧ (∀ α, TModel n' α → TModel n α) := by
  unfold lraNewEq at he
  cases hv : Lra.newEq n.sat n.lra a b with
  | none => rw [hv] at he; simp at he
  | some res =>
    obtain ⟨l0, s', t', bs⟩ := res
    rw [hv] at he
    simp only [Option.map_some, Option.some.injEq, Prod.mk.injEq] at he
    obtain ⟨rfl, rfl⟩ := he
    unfold Lra.newEq at hv
    cases h1 : Lra.newRel n.sat n.lra .geq a b with
    | none => rw [h1] at hv; simp at hv
    | some res1 =>
      obtain ⟨l1, s1, t1, b1⟩ := res1
      rw [h1] at hv
      simp only at hv
      cases h2 : Lra.newRel s1 t1 .leq a b with
      | none => rw [h2] at hv; simp at hv
      | some res2 =>
        obtain ⟨l2, s2, t2, b2⟩ := res2
        rw [h2] at hv
        simp only [Option.some.injEq, Prod.mk.injEq] at hv
        obtain ⟨hl, hs, ht, hbs⟩ := hv
        subst ht
        -- the two relation requests as requests of the network
        have e1 : lraNewRel n .geq a b = some (l1, { n with sat := s1, lra := t1, bound := n.bound ++ b1.toList.map (fun v => (v, Th.lra)) }) := by
          simp [lraNewRel, h1]
        obtain ⟨i1, m1, r1, d1, _⟩ := h.at_lraNewRelG hroot ha hb e1
        obtain ⟨lit1, len1⟩ := lraNewRel_lit h ha hb e1
        have ha1 := linOK_mono ha len1
        have hb1 := linOK_mono hb len1
        have e2 : lraNewRel { n with sat := s1, lra := t1, bound := n.bound ++ b1.toList.map (fun v => (v, Th.lra)) } .leq a b =
            some (l2, { n with sat := s2, lra := t2, bound := (n.bound ++ b1.toList.map (fun v => (v, Th.lra))) ++ b2.toList.map (fun v => (v, Th.lra)) }) := by
          simp [lraNewRel, h2]
        obtain ⟨i2, m2, r2, d2, _⟩ := i1.at_lraNewRelG r1 ha1 hb1 e2
        obtain ⟨lit2, _⟩ := lraNewRel_lit i1 ha1 hb1 e2
        have hle12 : s1.vals.length ≤ s2.vals.length := by
          cases Lra.newRel_outcome h2 with
          | decidedExpr h0 hs' ht' hb' => rw [hs']
          | decidedSlack slack h0 hvl h1' hs' hb' => rw [hs']
          | cached slack h0 hvl h1' hf hs' hb' => rw [hs']
          | fresh slack t3 h0 hvl h1' hf hl' hs' ht' hb' =>
            rw [hs']; show s1.vals.length ≤ (s1.vals ++ [none]).length; simp
        have hd2 : s2.dead = false := by
          have : s2.dead = s1.dead := d2
          rw [this]
          have : s1.dead = n.sat.dead := d1
          rw [this]; exact hd
        have hr : ∀ x ∈ [l1, l2], x.var < s2.nvars := by
          intro x hx
          simp only [List.mem_cons, List.not_mem_nil, or_false] at hx
          rcases hx with rfl | rfl
          · exact Nat.lt_of_lt_of_le lit1 hle12
          · exact lit2
        obtain ⟨g1, g2, _⟩ := Sat.newConj_good goodN_closed s2 ⟨⟨_, _, i2.sat⟩, r2⟩ [l1, l2] hr
        have i3 := i2.consSat r2 hd2 g1 g2
        have es : (Sat.newConj s2 [l1, l2]).2 = s' := hs
        rw [es] at i3
        exact ⟨i3.congrN rfl rfl rfl rfl, fun α hm => m1 α (m2 α ((TModel.congrN rfl rfl rfl α).1 hm))⟩

end Net
end Oratio
