/-
Helper lemmas for `Properties/C09Bridge.lean`, part 9: `pivot` leaves `vals` alone; the
value-level soundness of `Lra.update` (the current assignment keeps satisfying the rows).
-/
import OratioModel
import OratioProofs.Lemmas.Lra
import OratioProofs.Lemmas.LraBridgeNew

namespace Oratio
namespace Lra
open Lin

/-! ### `pivot` and `vals` -/

theorem pivotRow_vals (t : Lra) (xj : Nat) (ex : Lin) (r : Nat) : (pivotRow t xj ex r).vals = t.vals := by
  rw [pivotRow_eq]
  simp only [pivStep_fold]
  rfl

theorem pivot_vals_bounds (t : Lra) (xi xj : Nat) :
    (t.pivot xi xj).vals = t.vals ∧ (t.pivot xi xj).bounds = t.bounds := by
  refine ⟨?_, ((C09_core_iff _ _).1 (C09_core_pivot t xi xj)).1⟩
  unfold pivot
  simp only [newRow_vals]
  refine C09_foldl_inv (fun u => u.vals = t.vals) _ (fun u r hu => (pivotRow_vals u xj _ r).trans hu) _ _ ?_
  show (List.foldl (fun t e => unwatchRow t e.1 xi)
    { t with tableau := t.tableau.filter (fun e => e.1 != xi) } ((t.rowOf xi).getD Lin.empty).vars).vals = t.vals
  exact C09_foldl_inv (fun (u : Lra) => u.vals = t.vals) (fun (u : Lra) (e : Nat × R) => unwatchRow u e.1 xi)
    (fun _ _ hu => hu) _ _ rfl

/-! ### one variable of a valuation changes -/

theorem evalS_change_one {l : Lin} (hl : l.WF) (x : Nat) {σ σ' : Nat → Rat}
    (h : ∀ k, (Lin.find l.vars k).isSome = true → k ≠ x → σ' k = σ k) :
    Lin.evalS l σ' = Lin.evalS l σ + ((Lin.find l.vars x).getD R.zero).toRat * (σ' x - σ x) := by
  obtain ⟨ls, lw, lk⟩ := (wf_iff l).1 hl
  have h1 : Lin.evalS l σ' = Lin.evalS l (Function.update σ x (σ' x)) := by
    apply eval_coeff_spec l hl
    intro k hk
    by_cases hkx : k = x
    · subst hkx
      simp
    · rw [Function.update_of_ne hkx]
      apply h k _ hkx
      cases hf : Lin.find l.vars k with
      | none =>
        exfalso
        apply hk
        show ((Lin.find l.vars k).getD R.zero).toRat = 0
        rw [hf]
        exact R.toRat_zero
      | some c => rfl
  have he : ({ l with vars := Lin.erase l.vars x } : Lin).WF :=
    (wf_iff _).2 ⟨sorted_erase _ ls, coefWF_erase lw, lk⟩
  have hno : Lin.find (Lin.erase l.vars x) x = none := by
    rw [find_erase _ _ ls, if_pos rfl]
  have h2 := evalS_update he hno σ (σ' x)
  rw [evalS_eq, evalS_eq] at h2
  have h3 := sumS_erase_getD (m := l.vars) x σ
  have h4 := sumS_erase_getD (m := l.vars) x (Function.update σ x (σ' x))
  rw [Function.update_self] at h4
  rw [h1, evalS_eq, evalS_eq]
  have h2' : sumS (Function.update σ x (σ' x)) (Lin.erase l.vars x) = sumS σ (Lin.erase l.vars x) := by
    have : ({ l with vars := Lin.erase l.vars x } : Lin).vars = Lin.erase l.vars x := rfl
    rw [this] at h2
    linarith
  linarith

/-! ### the loop of `update` on `vals` -/

/-- the coefficient of `xi` in the row of `x` -/
def updCoef (t : Lra) (xi x : Nat) : R := (Lin.find ((t.rowOf x).getD Lin.empty).vars xi).getD R.zero

/-- the loop body of `update` on `vals` -/
def updStep (t : Lra) (xi : Nat) (v : IR) (vals : List IR) (x : Nat) : List IR :=
  vals.set x (IR.addAssign (vals.getD x (IR.ofR R.zero))
    (IR.rMul (updCoef t xi x) (IR.sub v (vals.getD xi (IR.ofR R.zero)))))

theorem update_fold (t : Lra) (xi : Nat) (v : IR) : ∀ (W : List Nat) (u : Lra), u.tableau = t.tableau →
    W.foldl (fun t x =>
      let a := (Lin.find ((t.rowOf x).getD Lin.empty).vars xi).getD R.zero
      t.setVal x (IR.addAssign (t.value x) (IR.rMul a (IR.sub v (t.value xi))))) u =
      { u with vals := W.foldl (updStep t xi v) u.vals } := by
  intro W
  induction W with
  | nil => intro u _; rfl
  | cons x W ih =>
    intro u hu
    rw [List.foldl_cons, List.foldl_cons]
    have hrow : u.rowOf x = t.rowOf x := by rw [rowOf_eq, rowOf_eq, hu]
    have hstep : (let a := (Lin.find ((u.rowOf x).getD Lin.empty).vars xi).getD R.zero
        u.setVal x (IR.addAssign (u.value x) (IR.rMul a (IR.sub v (u.value xi))))) =
        { u with vals := updStep t xi v u.vals x } := by
      simp only [hrow]
      rfl
    rw [hstep, ih { u with vals := updStep t xi v u.vals x } hu]

theorem update_eq (t : Lra) (xi : Nat) (v : IR) :
    t.update xi v = { t with vals := ((t.tWatches.getD xi []).foldl (updStep t xi v) t.vals).set xi v } := by
  unfold update
  simp only
  rw [update_fold t xi v _ t rfl]
  rfl

theorem updFold_spec (t : Lra) (xi : Nat) (v : IR) : ∀ (W : List Nat) (vals : List IR),
    W.Nodup → xi ∉ W → (∀ x ∈ W, x < vals.length) →
    (W.foldl (updStep t xi v) vals).length = vals.length ∧
    ∀ y, (W.foldl (updStep t xi v) vals).getD y (IR.ofR R.zero) =
      if y ∈ W then IR.addAssign (vals.getD y (IR.ofR R.zero))
        (IR.rMul (updCoef t xi y) (IR.sub v (vals.getD xi (IR.ofR R.zero))))
      else vals.getD y (IR.ofR R.zero) := by
  intro W
  induction W with
  | nil => intro vals _ _ _; exact ⟨rfl, fun y => by simp⟩
  | cons x W ih =>
    intro vals hnd hxi hb
    rw [List.nodup_cons] at hnd
    have hx : x ≠ xi := fun h => hxi (h ▸ List.mem_cons_self)
    have hlen1 : (updStep t xi v vals x).length = vals.length := by simp [updStep]
    have hxlt : x < vals.length := hb x List.mem_cons_self
    obtain ⟨i1, i2⟩ := ih (updStep t xi v vals x) hnd.2 (fun h => hxi (List.mem_cons_of_mem _ h))
      (fun y hy => by rw [hlen1]; exact hb y (List.mem_cons_of_mem _ hy))
    rw [List.foldl_cons]
    refine ⟨i1.trans hlen1, ?_⟩
    intro y
    rw [i2 y]
    have hxi1 : (updStep t xi v vals x).getD xi (IR.ofR R.zero) = vals.getD xi (IR.ofR R.zero) := by
      unfold updStep
      rw [getD_set_ne _ _ _ _ _ hx]
    by_cases hyW : y ∈ W
    · have hyx : x ≠ y := fun h => hnd.1 (h ▸ hyW)
      rw [if_pos hyW, if_pos (List.mem_cons_of_mem _ hyW), hxi1]
      unfold updStep
      rw [getD_set_ne _ _ _ _ _ hyx]
    · rw [if_neg hyW]
      by_cases hyx : y = x
      · subst hyx
        rw [if_pos List.mem_cons_self]
        unfold updStep
        rw [getD_set_self _ _ _ _ hxlt]
      · rw [if_neg (by simp [hyx, hyW])]
        unfold updStep
        rw [getD_set_ne _ _ _ _ _ (fun h => hyx h.symm)]

/-! ### `update` keeps the rows satisfied by the current assignment -/

/-- `π` is one of the two components of `inf_rational` -/
structure IsComp (π : IR → R) : Prop where
  add : ∀ a b, π (IR.addAssign a b) = R.addAssign (π a) (π b)
  mul : ∀ c b, π (IR.rMul c b) = R.mul c (π b)
  sub : ∀ a b, π (IR.sub a b) = R.sub (π a) (π b)

theorem isComp_rat : IsComp IR.rat := ⟨fun _ _ => rfl, fun _ _ => rfl, fun _ _ => rfl⟩
theorem isComp_inf : IsComp IR.inf := ⟨fun _ _ => rfl, fun _ _ => rfl, fun _ _ => rfl⟩

theorem toRat_sub {a b : R} (ha : R.FinWF a) (hb : R.FinWF b) :
    R.FinWF (R.sub a b) ∧ (R.sub a b).toRat = a.toRat - b.toRat := by
  rw [← R.subAssign_eq_sub]
  exact ⟨R.finWF_subAssign ha hb, R.toRat_subAssign ha hb⟩

theorem update_holds {π : IR → R} (hπ : IsComp π) {t : Lra} (ht : TabWF t) {xi : Nat}
    (hnb : t.rowOf xi = none) (hxi : xi < t.vals.length)
    (hfin : ∀ x, R.FinWF (π (t.value x))) {v : IR} (hv : R.FinWF (π v)) (c : Lin → Rat)
    (h : ∀ e ∈ t.tableau, (π (t.value e.1)).toRat = Lin.evalS e.2 (fun x => (π (t.value x)).toRat) - c e.2) :
    (t.update xi v).tableau = t.tableau ∧ (t.update xi v).tWatches = t.tWatches ∧
    (t.update xi v).vals.length = t.vals.length ∧
    (t.update xi v).value xi = v ∧
    (∀ x, t.rowOf x = none → x ≠ xi → (t.update xi v).value x = t.value x) ∧
    (∀ x, R.FinWF (π ((t.update xi v).value x))) ∧
    (∀ e ∈ (t.update xi v).tableau,
      (π ((t.update xi v).value e.1)).toRat =
        Lin.evalS e.2 (fun x => (π ((t.update xi v).value x)).toRat) - c e.2) := by
  obtain ⟨hi, hlen⟩ := (tabWF_iff t).1 ht
  have hWnd : (t.tWatches.getD xi []).Nodup :=
    List.Pairwise.imp (fun h => Nat.ne_of_lt h) (getD_sorted hi.wsorted xi)
  have hWbasic : ∀ x ∈ t.tWatches.getD xi [], ∃ l, t.rowOf x = some l ∧ (Lin.find l.vars xi).isSome = true :=
    fun x hx => (hi.watch xi x).1 hx
  have hxiW : xi ∉ t.tWatches.getD xi [] := by
    intro hx
    obtain ⟨l, hl, -⟩ := hWbasic xi hx
    rw [hnb] at hl
    cases hl
  have hWb : ∀ x ∈ t.tWatches.getD xi [], x < t.vals.length := by
    intro x hx
    obtain ⟨l, hl, -⟩ := hWbasic x hx
    rw [← hlen]
    exact (hi.bound x l hl).1
  obtain ⟨f1, f2⟩ := updFold_spec t xi v _ t.vals hWnd hxiW hWb
  -- values after the update
  have hval : ∀ y, (t.update xi v).value y =
      if y = xi then v
      else if y ∈ t.tWatches.getD xi [] then
        IR.addAssign (t.value y) (IR.rMul (updCoef t xi y) (IR.sub v (t.value xi)))
      else t.value y := by
    intro y
    rw [update_eq]
    show (((t.tWatches.getD xi []).foldl (updStep t xi v) t.vals).set xi v).getD y (IR.ofR R.zero) = _
    rw [getD_set]
    by_cases hy : y = xi
    · subst hy
      rw [if_pos ⟨rfl, by rw [f1]; exact hxi⟩, if_pos rfl]
    · rw [if_neg (fun h => hy h.1.symm), if_neg hy, f2 y]
      rfl
  have hcoef : ∀ y, R.FinWF (updCoef t xi y) := by
    intro y
    unfold updCoef
    cases hr : t.rowOf y with
    | none => exact R.finWF_zero
    | some l => exact getD_finWF ((wf_iff l).1 (hi.rows y l hr)).2.1 xi
  have hdelta := toRat_sub hv (hfin xi)
  have hnew : ∀ y, R.FinWF (π (IR.addAssign (t.value y) (IR.rMul (updCoef t xi y) (IR.sub v (t.value xi))))) ∧
      (π (IR.addAssign (t.value y) (IR.rMul (updCoef t xi y) (IR.sub v (t.value xi))))).toRat =
        (π (t.value y)).toRat + (updCoef t xi y).toRat * ((π v).toRat - (π (t.value xi)).toRat) := by
    intro y
    rw [hπ.add, hπ.mul, hπ.sub]
    have hm := R.mul_fin (hcoef y) hdelta.1
    refine ⟨R.finWF_addAssign (hfin y) hm.1, ?_⟩
    rw [R.toRat_addAssign (hfin y) hm.1, hm.2, hdelta.2]
  have htab : (t.update xi v).tableau = t.tableau := by rw [update_eq]
  refine ⟨htab, by rw [update_eq], ?_, ?_, ?_, ?_, ?_⟩
  · rw [update_eq]
    show (((t.tWatches.getD xi []).foldl (updStep t xi v) t.vals).set xi v).length = _
    rw [List.length_set, f1]
  · rw [hval, if_pos rfl]
  · intro x hx hne
    rw [hval, if_neg hne, if_neg]
    intro hxW
    obtain ⟨l, hl, -⟩ := hWbasic x hxW
    rw [hx] at hl
    cases hl
  · intro x
    rw [hval]
    split
    · exact hv
    · split
      · exact (hnew x).1
      · exact hfin x
  · rw [htab]
    intro e he
    have hr : t.rowOf e.1 = some e.2 := tabFind_of_mem hi.keys he
    have hexi : e.1 ≠ xi := by
      intro hex
      rw [hex, hnb] at hr
      cases hr
    -- the variables of the row other than `xi` keep their values
    have hkeep : ∀ k, (Lin.find e.2.vars k).isSome = true → k ≠ xi →
        (π ((t.update xi v).value k)).toRat = (π (t.value k)).toRat := by
      intro k hk hkx
      rw [hval, if_neg hkx, if_neg]
      intro hkW
      obtain ⟨l, hl, -⟩ := hWbasic k hkW
      rw [hi.nonbasic e.1 e.2 k hr hk] at hl
      cases hl
    have hold := h e he
    rw [evalS_change_one (hi.rows e.1 e.2 hr) xi hkeep]
    have hxiv : (π ((t.update xi v).value xi)).toRat = (π v).toRat := by rw [hval, if_pos rfl]
    rw [hxiv, hval, if_neg hexi]
    by_cases hW : e.1 ∈ t.tWatches.getD xi []
    · rw [if_pos hW, (hnew e.1).2, hold]
      have hc : updCoef t xi e.1 = (Lin.find e.2.vars xi).getD R.zero := by
        unfold updCoef
        rw [hr]
        rfl
      rw [hc]
      ring
    · rw [if_neg hW]
      have : Lin.find e.2.vars xi = none := by
        cases hf : Lin.find e.2.vars xi with
        | none => rfl
        | some c => exact absurd ((hi.watch xi e.1).2 ⟨e.2, hr, by rw [hf]; rfl⟩) hW
      rw [this, hold]
      show _ = _ + R.zero.toRat * _ - _
      rw [R.toRat_zero]
      ring

end Lra
end Oratio
