/-
C07: vocabulary of the inductive invariant of the concrete CDCL model `Sat`
(OratioModel/Sat/Core.lean).  Definitions only.
-/
import OratioModel

namespace Oratio

/-! ### semantics (same bodies as `Entails`, `Unsat`, `unitsOf` of Properties/C07.lean) -/

def Ents (F : Cnf) (c : Clause) : Prop := ∀ α : Asg, α 0 = false → α.cnf F = true → α.clause c = true
def Uns (F : Cnf) : Prop := ∀ α : Asg, α 0 = false → α.cnf F = false
def units (ls : List Lit) : Cnf := ls.map (fun l => [l])

namespace Sat

/-- level of (the variable of) a literal -/
def lvl (s : Sat) (l : Lit) : Nat := s.level.getD l.var 0

/-- the decisions of levels `≤ k` (`decisions` is most-recent-first) -/
def decsUpTo (s : Sat) (k : Nat) : List Lit := s.decisions.drop (s.decisions.length - k)

/-- values, trail, levels, queue -/
structure WfA (s : Sat) : Prop where
  lenLevel : s.level.length = s.vals.length
  lenReason : s.reason.length = s.vals.length
  val0 : s.vals.getD 0 none = some false
  trailVal : ∀ l ∈ s.trail, s.vals.getD l.var none = some l.sign ∧ l.var ≠ 0
  trailNodup : (s.trail.map Lit.var).Nodup
  valTrail : ∀ v b, s.vals.getD v none = some b → v = 0 ∨ (⟨v, b⟩ : Lit) ∈ s.trail
  decLen : s.decisions.length = s.trailLim.length
  limLe : ∀ lim ∈ s.trailLim, lim ≤ s.trail.length
  limSorted : s.trailLim.Pairwise (· ≥ ·)
  levelOK : ∀ l b, (l :: b) <:+ s.trail → s.lvl l = (s.trailLim.filter (· ≤ b.length)).length
  queueOK : ∀ p ∈ s.queue, p ∈ s.trail ∧ s.lvl p = s.decisionLevel
  reasonNone : ∀ l b, (l :: b) <:+ s.trail → s.reason.getD l.var none = none →
      s.lvl l = 0 ∨ ∀ x ∈ b, s.lvl x < s.lvl l
  exprsRange : ∀ e ∈ s.exprs, e.2.var < s.vals.length

/-- stored clauses -/
structure WfC (s : Sat) : Prop where
  clsId : ∀ e ∈ s.cls, e.1 < s.nextId
  clsIdNodup : (s.cls.map (·.1)).Nodup
  clsLen : ∀ e ∈ s.cls, 2 ≤ e.2.length
  clsNodup : ∀ e ∈ s.cls, (e.2.map Lit.var).Nodup
  clsRange : ∀ e ∈ s.cls, ∀ l ∈ e.2, l.var < s.vals.length
  clsVar0 : ∀ e ∈ s.cls, ∀ l ∈ e.2, l.var ≠ 0

/-- reasons: the reason clause of a trail literal has that literal as head and all its other
    literals are false and were assigned earlier -/
def WfR (s : Sat) : Prop :=
  ∀ l b, (l :: b) <:+ s.trail → ∀ id, s.reason.getD l.var none = some id →
    ∃ rest, (id, l :: rest) ∈ s.cls ∧ ∀ r ∈ rest, r.neg ∈ b

/-- watch lists: a clause is watched exactly by the negations of its first two literals -/
structure WfW (s : Sat) : Prop where
  lenWatches : s.watches.length = 2 * s.vals.length
  sound : ∀ i id, id ∈ s.watches.getD i [] →
    ∃ l0 l1 rest, (id, l0 :: l1 :: rest) ∈ s.cls ∧ (l0.neg.idx = i ∨ l1.neg.idx = i)
  complete : ∀ id l0 l1 rest, (id, l0 :: l1 :: rest) ∈ s.cls →
    id ∈ s.watches.getD l0.neg.idx [] ∧ id ∈ s.watches.getD l1.neg.idx []
  nodup : ∀ i, (s.watches.getD i []).Nodup

/-- the semantic watch invariant, relative to a set `P id x` of literals `x` whose propagation
    is still pending for clause `id` -/
def W2 (P : Nat → Lit → Prop) (s : Sat) : Prop :=
  ∀ id l0 l1 rest, (id, l0 :: l1 :: rest) ∈ s.cls →
    (s.value l0 = some false → P id l0.neg ∨ (s.value l1 = some true ∧ s.lvl l1 ≤ s.lvl l0)) ∧
    (s.value l1 = some false → P id l1.neg ∨ (s.value l0 = some true ∧ s.lvl l0 ≤ s.lvl l1))

/-- semantic part.  `orig`: the formula the stored information is entailed by; `K`: the formula the stored
    information still implies (equal to `orig` between API calls) -/
structure Ent (orig : Cnf) (s : Sat) (K : Cnf := orig) : Prop where
  clauses : ∀ e ∈ s.cls, Ents orig e.2
  trail : ∀ l ∈ s.trail, Ents (orig ++ units (s.decsUpTo (s.lvl l))) [l]
  log : ∀ c ∈ s.log, Ents orig c
  dead : s.dead = true → Uns orig
  keeps : s.dead = false → ∀ α : Asg, α 0 = false → α.cnf (s.cls.map (·.2)) = true →
            (∀ l ∈ s.trail, s.lvl l = 0 → α.lit l = true) → α.cnf K = true

/-- the standing decisions of the first `m` levels are the first literals of their levels -/
def DecOK (m : Nat) (s : Sat) : Prop :=
  ∀ a d b, s.decisions = a ++ d :: b → b.length < m → d ∈ s.trail ∧ s.lvl d = b.length + 1

/-- the structural invariant -/
structure Wf (s : Sat) : Prop where
  a : WfA s
  c : WfC s
  r : WfR s
  w : WfW s

/-- the state with the not yet visited watchers `rest` of `p` put back -/
def putBack (s : Sat) (p : Lit) (rest : List Nat) : Sat :=
  { s with watches := s.watches.set p.idx (s.watches.getD p.idx [] ++ rest) }

/-- `pop_one()` iterated -/
def popN : Nat → Sat → Sat
  | 0, s => s
  | n + 1, s => popN n s.popOne

end Sat
end Oratio
