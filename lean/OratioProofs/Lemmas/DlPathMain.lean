/-
C10X: the theorems of `Properties/C10Explain.lean` in the mirrored vocabulary (`ExactM`).
-/
import OratioProofs.Lemmas.DlPathWalk

set_option linter.unusedSectionVars false
set_option linter.unusedVariables false

namespace Oratio
namespace Dl

theorem range_K {K : Int} {E : List REdge} {t : Dl Int} (h : ExactM K E t) : K < idlInf := by
  have hI := h.range; rw [mulK] at hI
  have hnK := h.nK_nonneg
  omega

theorem exact_diag {K : Int} {E : List REdge} {t : Dl Int} (h : ExactM K E t) : ∀ i, i < t.nVars → d idlOps t i i = 0 :=
  h.weak.diag

/-! ### the conflict clause -/

theorem conflict_clause_valid (K : Int) (E : List REdge) (s : Sat) (t : Dl Int) (h : ExactM K E t) (hP : PathInv s t)
    (c : DConstr Int) (hc : t.constrOf c.b = some c) (b : Bool) (hv : s.value ⟨c.b, true⟩ = some b)
    (hr : c.src < t.nVars ∧ c.dst < t.nVars ∧ c.src ≠ c.dst ∧ -K ≤ c.dist ∧ c.dist + 1 ≤ K)
    (cl : List Lit) (hcl : propagateLit idlOps s t ⟨c.b, b⟩ = .inl cl) :
    (∀ l ∈ cl, s.value l = some false) ∧
    ∀ (σ : Nat → Int) (α : Asg), Agrees t σ α → α.clause cl = true := by
  obtain ⟨h1, h2, h3, h4, h5⟩ := hr
  have hK := range_K h
  have hdiag := exact_diag h
  obtain ⟨hmem, _⟩ := constrOf_spec hc
  cases b with
  | true =>
    rw [propagateLit_true s t c hc hv] at hcl
    by_cases hlt : d idlOps t c.dst c.src < -c.dist
    · rw [if_pos hlt] at hcl
      have hcl' : walk s t c.dst t.nVars c.src [] ++ [(⟨c.b, true⟩ : Lit).neg] = cl := Sum.inl.inj hcl
      obtain ⟨L, e, fl, val⟩ := explain hP hdiag h2 h1 (by omega) []
      rw [e] at hcl'
      subst hcl'
      constructor
      · intro l hl
        simp only [List.nil_append, List.mem_append, List.mem_singleton] at hl
        rcases hl with hl | rfl
        · exact fl l hl
        · exact value_neg hv
      · intro σ α hag
        apply clause_true_of
        intro hall
        have g1 := val σ α hag (fun l hl => hall l (by simp [hl]))
        have g2 := hall (⟨c.b, true⟩ : Lit).neg (by simp)
        have g3 : α c.b = true := by simpa [Asg.lit, Lit.neg] using g2
        have g4 := (hag c hmem).1 g3
        omega
    · rw [if_neg hlt] at hcl
      split at hcl <;> cases hcl
  | false =>
    rw [propagateLit_false s t c hc hv] at hcl
    by_cases hle : d idlOps t c.src c.dst ≤ c.dist
    · rw [if_pos hle] at hcl
      have hcl' : walk s t c.src t.nVars c.dst [] ++ [(⟨c.b, false⟩ : Lit).neg] = cl := Sum.inl.inj hcl
      obtain ⟨L, e, fl, val⟩ := explain hP hdiag h1 h2 (by omega) []
      rw [e] at hcl'
      subst hcl'
      constructor
      · intro l hl
        simp only [List.nil_append, List.mem_append, List.mem_singleton] at hl
        rcases hl with hl | rfl
        · exact fl l hl
        · exact hv
      · intro σ α hag
        apply clause_true_of
        intro hall
        have g1 := val σ α hag (fun l hl => hall l (by simp [hl]))
        have g2 := hall (⟨c.b, false⟩ : Lit).neg (by simp)
        have g3 : α c.b = false := by simpa [Asg.lit, Lit.neg] using g2
        have g4 := (hag c hmem).2 g3
        omega
    · rw [if_neg hle] at hcl
      split at hcl <;> cases hcl

/-! ### asserting an edge -/

theorem saveConstr_tables (t : Dl Int) (k : Nat × Nat) :
    (saveConstr t k).distConstr = t.distConstr ∧ (saveConstr t k).varDists = t.varDists := by
  unfold saveConstr
  cases t.layers with
  | nil => exact ⟨rfl, rfl⟩
  | cons l ls => dsimp only; split <;> exact ⟨rfl, rfl⟩

theorem armed_tables (t : Dl Int) (k : Nat × Nat) (b : Nat) :
    (armed t k b).distConstr = assignPair t.distConstr k b ∧ (armed t k b).varDists = t.varDists := by
  unfold armed
  exact ⟨by rw [(saveConstr_tables t k).1], (saveConstr_tables t k).2⟩

theorem SizeOk.fitsP {nv : Nat} {shp : List Nat × List Nat} (h : SizeOk nv shp) : FitsP nv shp := by
  obtain ⟨_, h2, _, h4, h5⟩ := h
  exact ⟨by rw [h4]; exact h2, fun l hl => by rw [h5 l hl]; exact h2⟩

section Edge
variable {K : Int} {E : List REdge} {s : Sat} {t : Dl Int} (h : ExactM K E t) (hP : PathInv s t)
  {f g : Nat} {w : Int} {cb : Nat} (hf : f < t.nVars) (hg : g < t.nVars) (hfg : f ≠ g) (hw : -K ≤ w ∧ w ≤ K)
  (hnocycle : ∀ x, distOpt t g f = some x → 0 ≤ x + w)
  (himproves : ∀ x, distOpt t f g = some x → w < x)
  (hj : ∃ c, constrOf t cb = some c ∧
      ((s.value ⟨cb, true⟩ = some true ∧ c.src = f ∧ c.dst = g ∧ w = c.dist) ∨
       (s.value ⟨cb, true⟩ = some false ∧ c.dst = f ∧ c.src = g ∧ w = -c.dist - 1)))
include h hP hf hg hfg hw hnocycle himproves hj

/-- the matrix part: the state after `propagate(from, to, dist)` satisfies the invariant with the
    SAT state before the scan -/
theorem edge_pathinv0 : PathInv s (propagateEdge idlOps s (armed t (f, g) cb) f g w).2 := by
  obtain ⟨a1, a2, a3⟩ := armed_same t (f, g) cb
  obtain ⟨a4, a5⟩ := armed_tables t (f, g) cb
  have hy := h.uhyp hf hg hfg hw hnocycle himproves
  have hs : SizeOk t.nVars (shape t) := (sizeOk_iff t).mp h.size_ok
  have hdM : d idlOps t = d idlOps (armed t (f, g) cb) := by
    funext a b; exact (d_congr a2 a b).symm
  have hpM : p t = p (armed t (f, g) cb) := by
    funext a b; exact (p_congr a3 a b).symm
  have hshape : shape (armed t (f, g) cb) = shape t := by simp only [shape, a2, a3]
  obtain ⟨hnv, _, hmat⟩ := propagateEdge_spec hy hs.fits s (armed t (f, g) cb) hdM a1 hshape
  have hpred := propagateEdge_pred_spec hy hs.fits hs.fitsP s (armed t (f, g) cb) hdM hpM a1 hshape
  obtain ⟨fr1, fr2⟩ := propagateEdge_frame s (armed t (f, g) cb) f g w
  refine pathInv_update hy hP hnv ?_ hpred (by rw [fr1, a4]) (by rw [fr2, a5]) hj
  intro a b ha hb
  rw [hmat a b, if_pos ⟨ha, hb⟩]

theorem edge_pathinv :
    PathInv (propagateEdge idlOps s (armed t (f, g) cb) f g w).1 (propagateEdge idlOps s (armed t (f, g) cb) f g w).2 ∧
    SatLe s (propagateEdge idlOps s (armed t (f, g) cb) f g w).1 := by
  have h0 := edge_pathinv0 h hP hf hg hfg hw hnocycle himproves hj
  obtain ⟨ups, hups⟩ := propagateEdge_fst s (armed t (f, g) cb) f g w
  rw [hups]
  have hle := scan_le (propagateEdge idlOps s (armed t (f, g) cb) f g w).2 s ups
  exact ⟨h0.mono hle rfl rfl rfl rfl (fun _ _ hh => hh), hle⟩

theorem edge_recorded (hok : ConstrsOk K t) :
    LogGood (propagateEdge idlOps s (armed t (f, g) cb) f g w).2 s (propagateEdge idlOps s (armed t (f, g) cb) f g w).1 := by
  have h0 := edge_pathinv0 h hP hf hg hfg hw hnocycle himproves hj
  obtain ⟨a1, a2, a3⟩ := armed_same t (f, g) cb
  obtain ⟨a4, a5⟩ := armed_tables t (f, g) cb
  have h' := h.congr_state a1 a2 a3
  have hdd : ∀ i j, d idlOps (armed t (f, g) cb) i j = d idlOps t i j := fun i j => d_congr a2 i j
  have r := update_closed_form K E s _ h' f g w (by rw [a1]; exact hf) (by rw [a1]; exact hg) hfg hw
    (by
      intro x hx
      apply hnocycle x
      obtain ⟨e1, e2⟩ := distOpt_some.mp hx
      exact distOpt_some.mpr ⟨by rw [← hdd]; exact e1, e2⟩)
    (by
      intro x hx
      apply himproves x
      obtain ⟨e1, e2⟩ := distOpt_some.mp hx
      exact distOpt_some.mpr ⟨by rw [← hdd]; exact e1, e2⟩)
  obtain ⟨fr1, fr2⟩ := propagateEdge_frame s (armed t (f, g) cb) f g w
  have hok' : ConstrsOk K (propagateEdge idlOps s (armed t (f, g) cb) f g w).2 := by
    intro c hc
    rw [fr2, a5] at hc
    have hn : (propagateEdge idlOps s (armed t (f, g) cb) f g w).2.nVars = t.nVars := by rw [r.2.1, a1]
    rw [hn]
    exact hok c hc
  obtain ⟨ups, hups⟩ := propagateEdge_fst s (armed t (f, g) cb) f g w
  rw [hups]
  exact (scan_good (range_K r.1) (exact_diag r.1) hok' s h0 ups).2
end Edge

/-! ### `propagate(lit)` without conflict -/

theorem propagate_pathinv (K : Int) (E : List REdge) (s s' : Sat) (t t' : Dl Int) (h : ExactM K E t) (hP : PathInv s t)
    (c : DConstr Int) (hc : t.constrOf c.b = some c) (b : Bool) (hv : s.value ⟨c.b, true⟩ = some b)
    (hr : c.src < t.nVars ∧ c.dst < t.nVars ∧ c.src ≠ c.dst ∧ -K ≤ c.dist ∧ c.dist + 1 ≤ K)
    (hp : propagateLit idlOps s t ⟨c.b, b⟩ = .inr (s', t')) :
    PathInv s' t' ∧ SatLe s s' ∧ (ConstrsOk K t → LogGood t' s s') := by
  obtain ⟨h1, h2, h3, h4, h5⟩ := hr
  have hI := h.range; rw [mulK] at hI
  have hnK := h.nK_nonneg
  have hw0 := h.weak
  have hnone : LogGood t' s s := ⟨[], by simp, by simp⟩
  cases b with
  | true =>
    rw [propagateLit_true s t c hc hv] at hp
    by_cases hlt : d idlOps t c.dst c.src < -c.dist
    · rw [if_pos hlt] at hp; cases hp
    · rw [if_neg hlt] at hp
      by_cases himp : c.dist < d idlOps t c.src c.dst
      · rw [if_pos himp] at hp
        have hpe : propagateEdge idlOps s (armed t (c.src, c.dst) c.b) c.src c.dst c.dist = (s', t') := Sum.inr.inj hp
        have hw : -K ≤ c.dist ∧ c.dist ≤ K := ⟨h4, by omega⟩
        have hnc : ∀ x, distOpt t c.dst c.src = some x → 0 ≤ x + c.dist := by
          intro x hx
          obtain ⟨e1, e2⟩ := distOpt_some.mp hx
          omega
        have him : ∀ x, distOpt t c.src c.dst = some x → c.dist < x := by
          intro x hx
          obtain ⟨e1, e2⟩ := distOpt_some.mp hx
          omega
        have hj : ∃ c', constrOf t c.b = some c' ∧
            ((s.value ⟨c.b, true⟩ = some true ∧ c'.src = c.src ∧ c'.dst = c.dst ∧ c.dist = c'.dist) ∨
             (s.value ⟨c.b, true⟩ = some false ∧ c'.dst = c.src ∧ c'.src = c.dst ∧ c.dist = -c'.dist - 1)) :=
          ⟨c, hc, Or.inl ⟨hv, rfl, rfl, rfl⟩⟩
        have r1 := edge_pathinv h hP h1 h2 h3 hw hnc him hj
        have r2 := fun hok => edge_recorded h hP h1 h2 h3 hw hnc him hj hok
        rw [hpe] at r1 r2
        exact ⟨r1.1, r1.2, r2⟩
      · rw [if_neg himp] at hp
        cases hp
        exact ⟨hP, SatLe.refl s, fun _ => hnone⟩
  | false =>
    rw [propagateLit_false s t c hc hv] at hp
    by_cases hle : d idlOps t c.src c.dst ≤ c.dist
    · rw [if_pos hle] at hp; cases hp
    · rw [if_neg hle] at hp
      by_cases himp : -c.dist ≤ d idlOps t c.dst c.src
      · rw [if_pos himp] at hp
        have hpe : propagateEdge idlOps s (armed t (c.dst, c.src) c.b) c.dst c.src (-c.dist - 1) = (s', t') := Sum.inr.inj hp
        have hw : -K ≤ -c.dist - 1 ∧ -c.dist - 1 ≤ K := ⟨by omega, by omega⟩
        have hnc : ∀ x, distOpt t c.src c.dst = some x → 0 ≤ x + (-c.dist - 1) := by
          intro x hx
          obtain ⟨e1, e2⟩ := distOpt_some.mp hx
          omega
        have him : ∀ x, distOpt t c.dst c.src = some x → -c.dist - 1 < x := by
          intro x hx
          obtain ⟨e1, e2⟩ := distOpt_some.mp hx
          omega
        have hj : ∃ c', constrOf t c.b = some c' ∧
            ((s.value ⟨c.b, true⟩ = some true ∧ c'.src = c.dst ∧ c'.dst = c.src ∧ -c.dist - 1 = c'.dist) ∨
             (s.value ⟨c.b, true⟩ = some false ∧ c'.dst = c.dst ∧ c'.src = c.src ∧ -c.dist - 1 = -c'.dist - 1)) :=
          ⟨c, hc, Or.inr ⟨hv, rfl, rfl, rfl⟩⟩
        have r1 := edge_pathinv h hP h2 h1 (Ne.symm h3) hw hnc him hj
        have r2 := fun hok => edge_recorded h hP h2 h1 (Ne.symm h3) hw hnc him hj hok
        rw [hpe] at r1 r2
        exact ⟨r1.1, r1.2, r2⟩
      · rw [if_neg himp] at hp
        cases hp
        exact ⟨hP, SatLe.refl s, fun _ => hnone⟩

/-! ### construction and growth -/

theorem init_pathinv (s : Sat) : PathInv s (init idlOps 16 : Dl Int) := by
  refine ⟨?_, ?_, ?_⟩
  · intro k j bb hl
    simp [init, lookupPair] at hl
  · intro i j hi hj hij
    have h1 : (init idlOps 16 : Dl Int).nVars = 1 := rfl
    rw [h1] at hi hj
    omega
  · intro i j hi hj _
    have h1 : (init idlOps 16 : Dl Int).nVars = 1 := rfl
    rw [h1] at hi hj ⊢
    have : i = 0 := by omega
    have : j = 0 := by omega
    subst_vars
    exact ⟨0, by omega, ChainN.root⟩

/-- adding an isolated time point -/
theorem pathInv_extend {s : Sat} {t t' : Dl Int} (hP : PathInv s t) (hn : t'.nVars = t.nVars + 1)
    (hold : ∀ a b, a < t.nVars → b < t.nVars → d idlOps t' a b = d idlOps t a b ∧ p t' a b = p t a b)
    (hnew : ∀ a b, a < t.nVars + 1 → b < t.nVars + 1 → (a = t.nVars ∨ b = t.nVars) → a ≠ b → d idlOps t' a b = idlInf)
    (hdc : t'.distConstr = t.distConstr) (hvd : t'.varDists = t.varDists) : PathInv s t' := by
  have hco : ∀ b, constrOf t' b = constrOf t b := by
    intro b; unfold constrOf; rw [hvd]
  have hj : ∀ k j bb w, Just s t k j bb w → Just s t' k j bb w :=
    fun k j bb w hh => hh.transfer (by rw [hdc]) (fun b c h => by rw [hco]; exact h) (SatLe.refl s)
  have hboth : ∀ i j, i < t.nVars + 1 → j < t.nVars + 1 → i ≠ j → d idlOps t' i j ≠ idlInf → i < t.nVars ∧ j < t.nVars := by
    intro i j hi hj hij hfin
    by_contra hcon
    exact hfin (hnew i j hi hj (by omega) hij)
  refine ⟨?_, ?_, ?_⟩
  · intro k j bb hl
    rw [hdc] at hl
    obtain ⟨h1, h2, h3, w, h4, h5, h6⟩ := hP.dc k j bb hl
    rw [hn, (hold k j h1 h2).1]
    exact ⟨by omega, by omega, h3, w, hj _ _ _ _ h4, h5, h6⟩
  · intro i j hi hjn hij hfin
    rw [hn] at hi hjn
    obtain ⟨hi', hj'⟩ := hboth i j hi hjn hij hfin
    rw [(hold i j hi' hj').1] at hfin
    obtain ⟨h1, h2, h3, bb, w, h4, h5⟩ := hP.tree i j hi' hj' hij hfin
    rw [hn, (hold i j hi' hj').2, (hold i j hi' hj').1, (hold i _ hi' h1).1]
    exact ⟨by omega, h2, h3, bb, w, hj _ _ _ _ h4, h5⟩
  · intro i j hi hjn hfin
    rw [hn] at hi hjn ⊢
    by_cases hij : i = j
    · subst hij
      exact ⟨0, by omega, ChainN.root⟩
    · obtain ⟨hi', hj'⟩ := hboth i j hi hjn hij hfin
      rw [(hold i j hi' hj').1] at hfin
      obtain ⟨m, hm, hch⟩ := hP.chain i j hi' hj' hfin
      refine ⟨m, by omega, ?_⟩
      refine ChainN.transfer (fun x => x < t.nVars ∧ d idlOps t i x ≠ idlInf) ?_ hch ⟨hj', hfin⟩
      intro x ⟨x1, x2⟩ hxi
      obtain ⟨h1, _, h3, _⟩ := hP.tree i x hi' x1 (Ne.symm hxi) x2
      exact ⟨⟨h1, h3⟩, (hold i x hi' x1).2⟩

theorem p_resize (t : Dl Int) (N a b : Nat) (ha : a < N) (hb : b < N) :
    p (resize idlOps t N) a b =
      if a < t.dists.length ∧ b < t.dists.length then p t a b
      else if a = b ∧ t.dists.length ≤ a then noPred else a := by
  rw [p_eq]
  simp [resize, List.getD_eq_getElem?_getD, ha, hb]

theorem newVar_pathinv (K : Int) (E : List REdge) (s : Sat) (t : Dl Int) (h : ExactM K E t) (hP : PathInv s t) :
    PathInv s (newVar idlOps t).2 := by
  obtain ⟨s1, s2, s3, s4, s5⟩ := h.size_ok
  unfold newVar
  dsimp only
  split
  · rename_i hlen
    have hlen' : t.dists.length = t.nVars := hlen
    have hN : t.nVars + 1 ≤ t.dists.length * 3 / 2 + 1 := by omega
    refine pathInv_extend hP rfl ?_ ?_ rfl rfl
    · intro a b ha hb
      constructor
      · rw [d_resize _ _ a b (by omega) (by omega), if_pos (by show a < t.dists.length ∧ b < t.dists.length; omega)]
        rfl
      · rw [p_resize _ _ a b (by omega) (by omega), if_pos (by show a < t.dists.length ∧ b < t.dists.length; omega)]
        rfl
    · intro a b ha hb hab hne
      rw [d_resize _ _ a b (by omega) (by omega), if_neg (by show ¬ (a < t.dists.length ∧ b < t.dists.length); omega),
        if_neg hne]
  · rename_i hlen
    have hlen' : t.dists.length ≠ t.nVars := hlen
    refine pathInv_extend (t' := { t with nVars := t.nVars + 1 }) hP rfl ?_ ?_ rfl rfl
    · intro a b _ _; exact ⟨rfl, rfl⟩
    · intro a b ha hb hab hne
      have := h.fresh a b (by omega) (by omega) (by omega)
      rw [if_neg hne] at this
      exact this

theorem newDistance_pathinv (s : Sat) (t : Dl Int) (hP : PathInv s t) (f g : Nat) (w : Int) :
    PathInv (newDistance idlOps s t f g w).2.1 (newDistance idlOps s t f g w).2.2 := by
  unfold newDistance
  split
  · exact hP
  · split
    · exact hP
    · refine hP.mono ?_ rfl rfl rfl rfl ?_
      · intro v b hvb
        show (s.vals ++ [none]).getD v none = some b
        rw [List.getD_eq_getElem?_getD] at hvb ⊢
        by_cases hlt : v < s.vals.length
        · rw [List.getElem?_append_left hlt]; exact hvb
        · rw [List.getElem?_eq_none (by omega)] at hvb
          cases hvb
      · intro b c hbc
        unfold constrOf at hbc ⊢
        show (t.varDists ++ [_]).find? _ = some c
        rw [List.find?_append, hbc]
        rfl

theorem newDistance_same (s : Sat) (t : Dl Int) (f g : Nat) (w : Int) :
    (newDistance idlOps s t f g w).2.2.nVars = t.nVars ∧ (newDistance idlOps s t f g w).2.2.dists = t.dists ∧
    (newDistance idlOps s t f g w).2.2.preds = t.preds := by
  unfold newDistance
  split
  · exact ⟨rfl, rfl, rfl⟩
  · split <;> exact ⟨rfl, rfl, rfl⟩

theorem propagateLit_varDists (s s' : Sat) (t t' : Dl Int) (pl : Lit)
    (he : propagateLit idlOps s t pl = .inr (s', t')) : t'.varDists = t.varDists := by
  unfold propagateLit at he
  split at he
  · cases he; rfl
  · rename_i c hc
    split at he
    · split at he
      · cases he
      · split at he
        · have he' : _ = t' := congrArg Prod.snd (Sum.inr.inj he)
          rw [← he', (propagateEdge_frame s _ _ _ _).2]
          exact (saveConstr_tables t _).2
        · cases he; rfl
    · split at he
      · cases he
      · split at he
        · have he' : _ = t' := congrArg Prod.snd (Sum.inr.inj he)
          rw [← he', (propagateEdge_frame s _ _ _ _).2]
          exact (saveConstr_tables t _).2
        · cases he; rfl
    · cases he; rfl

/-! ### backtracking -/

/-- `pop()` returns to the state at the matching `push()` (C08), so the invariant that held there
    holds again for any SAT state that keeps the values it had then -/
theorem pop_pathinv {B cur : Dl Int} (hL : Undo.Lg idlOps B cur) {sB s' : Sat} (hP : PathInv sB B) (hs : SatLe sB s') :
    PathInv s' cur.pop := by
  rw [Undo.pop_of_Lg idlOps hL]
  exact hP.mono hs rfl rfl rfl rfl (fun _ _ h => h)

theorem push_pathinv {s : Sat} {t : Dl Int} (hP : PathInv s t) : PathInv s t.push :=
  hP.mono (SatLe.refl s) rfl rfl rfl rfl (fun _ _ h => h)

end Dl
end Oratio
