/-
C07N, non-vacuity of the history theorem WITH A TABLEAU ROW: two LRA variables y0 y1;  `lraNewRel .leq (y0 + y1) 3`
creates the slack variable y2 = y0 + y1 with its row and the assertion b1 : y2 ≤ 3;  b2 : y0 ≥ 2,  b3 : y1 ≥ 2;
`lraNewEq y0 2` answers b2 from the cache for `y0 ≥ 2`, creates b4 : y0 ≤ 2 and the reified conjunction b5 := b2 ∧ b4;
clause [b1];  `propagate` (b1 is handed to LRA: the bound y2 ≤ 3 is asserted, `check` succeeds);  `assume b2`
(`check` pivots);  `assume b3`: `lra.check` finds the conflict `[¬b1, ¬b2, ¬b3]` ABOVE ROOT LEVEL - it cites b3,
a literal of the current level, so the side condition `ConflictsCurrent` holds -, `[¬b3, ¬b2]` is learnt, the
network backjumps to level 1 and propagates ¬b3.
-/
import OratioProofs.Lemmas.NetInvD
import OratioProofs.Lemmas.NetInvF

namespace Oratio
namespace NetEx3
open Net Sat

def y01 : Lin := ⟨[(0, R.one), (1, R.one)], R.zero⟩
def y0 : Lin := Lin.var 0 R.one
def y1 : Lin := Lin.var 1 R.one
def c3 : Lin := Lin.const (R.ofInt 3)
def c2 : Lin := Lin.const (R.ofInt 2)

def hist : List NetOp := [.lraNewVar, .lraNewVar, .lraNewRel .leq y01 c3, .lraNewRel .geq y0 c2, .lraNewRel .geq y1 c2,
  .lraNewEq y0 c2, .clause [⟨1, true⟩], .propagate, .assume ⟨2, true⟩, .assume ⟨3, true⟩]

/-- the state after the first `k` operations -/
def st (k : Nat) : NetRun := (NetRun.steps 100 ⟨Net.init, []⟩ (hist.take k)).getD ⟨Net.init, []⟩

set_option maxRecDepth 100000 in
theorem step0 : NetRun.step 100 (st 0) .lraNewVar = some (st 1, true) := by rfl
set_option maxRecDepth 100000 in
theorem step1 : NetRun.step 100 (st 1) .lraNewVar = some (st 2, true) := by rfl
set_option maxRecDepth 100000 in
theorem step2 : NetRun.step 100 (st 2) (.lraNewRel .leq y01 c3) = some (st 3, true) := by rfl
set_option maxRecDepth 100000 in
theorem step3 : NetRun.step 100 (st 3) (.lraNewRel .geq y0 c2) = some (st 4, true) := by rfl
set_option maxRecDepth 100000 in
theorem step4 : NetRun.step 100 (st 4) (.lraNewRel .geq y1 c2) = some (st 5, true) := by rfl
set_option maxRecDepth 100000 in
theorem step5 : NetRun.step 100 (st 5) (.lraNewEq y0 c2) = some (st 6, true) := by rfl
set_option maxRecDepth 100000 in
theorem step6 : NetRun.step 100 (st 6) (.clause [⟨1, true⟩]) = some (st 7, true) := by rfl
set_option maxRecDepth 100000 in
theorem step7 : NetRun.step 100 (st 7) .propagate = some (st 8, true) := by rfl
set_option maxRecDepth 100000 in
theorem step8 : NetRun.step 100 (st 8) (.assume ⟨2, true⟩) = some (st 9, true) := by rfl
set_option maxRecDepth 100000 in
theorem step9 : NetRun.step 100 (st 9) (.assume ⟨3, true⟩) = some (st 10, true) := by rfl
set_option maxRecDepth 100000 in
theorem run_all : NetRun.steps 100 ⟨Net.init, []⟩ hist = some (st 10) := by rfl

theorem wf_one : R.one.WF ∧ R.one.den ≠ 0 := ⟨by decide, by decide⟩

theorem linOK_var {t : Lra} (v : Nat) (h : v < t.vals.length) : Lra.LinOK t (Lin.var v R.one) := by
  refine ⟨⟨trivial, fun p hp => ?_, (by show R.zero.WF; decide), (by show R.zero.den ≠ 0; decide)⟩, fun p hp => ?_⟩
  · simp only [Lin.var, List.mem_singleton] at hp
    subst hp; exact wf_one
  · simp only [Lin.var, List.mem_singleton] at hp
    subst hp; exact ⟨h, (by show R.one.num ≠ 0; decide)⟩

theorem linOK_const {t : Lra} (k : R) (hk : k.WF ∧ k.den ≠ 0) : Lra.LinOK t (Lin.const k) :=
  ⟨⟨trivial, (fun p hp => by cases hp), hk.1, hk.2⟩, fun p hp => by cases hp⟩

theorem linOK_y01 {t : Lra} (h : 2 ≤ t.vals.length) : Lra.LinOK t y01 := by
  refine ⟨⟨⟨by decide, trivial⟩, fun p hp => ?_, by decide, by decide⟩, fun p hp => ?_⟩
  · simp only [y01, List.mem_cons, List.not_mem_nil, or_false] at hp
    rcases hp with rfl | rfl <;> exact wf_one
  · simp only [y01, List.mem_cons, List.not_mem_nil, or_false] at hp
    rcases hp with rfl | rfl
    · exact ⟨by show 0 < t.vals.length; omega, by decide⟩
    · exact ⟨by show 1 < t.vals.length; omega, by decide⟩

set_option maxRecDepth 100000 in
theorem len2 : (st 2).n.lra.vals.length = 2 := by rfl
set_option maxRecDepth 100000 in
theorem len3 : (st 3).n.lra.vals.length = 3 := by rfl
set_option maxRecDepth 100000 in
theorem len4 : (st 4).n.lra.vals.length = 3 := by rfl
set_option maxRecDepth 100000 in
theorem len5 : (st 5).n.lra.vals.length = 3 := by rfl

theorem hist_rooms : (st 0).rooms 100 hist := by
  refine ⟨trivial, fun r' b hs => ?_⟩
  rw [step0] at hs; cases hs
  refine ⟨trivial, fun r' b hs => ?_⟩
  rw [step1] at hs; cases hs
  refine ⟨⟨linOK_y01 (by rw [len2]), linOK_const _ ⟨by decide, by decide⟩⟩, fun r' b hs => ?_⟩
  rw [step2] at hs; cases hs
  refine ⟨⟨linOK_var 0 (by rw [len3]; decide), linOK_const _ ⟨by decide, by decide⟩⟩, fun r' b hs => ?_⟩
  rw [step3] at hs; cases hs
  refine ⟨⟨linOK_var 1 (by rw [len4]; decide), linOK_const _ ⟨by decide, by decide⟩⟩, fun r' b hs => ?_⟩
  rw [step4] at hs; cases hs
  refine ⟨⟨linOK_var 0 (by rw [len5]; decide), linOK_const _ ⟨by decide, by decide⟩⟩, fun r' b hs => ?_⟩
  rw [step5] at hs; cases hs
  refine ⟨trivial, fun r' b hs => ?_⟩
  rw [step6] at hs; cases hs
  refine ⟨trivial, fun r' b hs => ?_⟩
  rw [step7] at hs; cases hs
  refine ⟨trivial, fun r' b hs => ?_⟩
  rw [step8] at hs; cases hs
  exact ⟨trivial, fun r' b hs => trivial⟩

set_option maxRecDepth 100000 in
/-- the side condition: the conflict of `lra.check` during `assume b3` (level 2) cites `b3` -/
theorem hist_guards : (st 0).guards 100 hist := by
  refine ⟨trivial, fun r' b hs => ?_⟩
  rw [step0] at hs; cases hs
  refine ⟨trivial, fun r' b hs => ?_⟩
  rw [step1] at hs; cases hs
  refine ⟨trivial, fun r' b hs => ?_⟩
  rw [step2] at hs; cases hs
  refine ⟨trivial, fun r' b hs => ?_⟩
  rw [step3] at hs; cases hs
  refine ⟨trivial, fun r' b hs => ?_⟩
  rw [step4] at hs; cases hs
  refine ⟨trivial, fun r' b hs => ?_⟩
  rw [step5] at hs; cases hs
  refine ⟨trivial, fun r' b hs => ?_⟩
  rw [step6] at hs; cases hs
  refine ⟨ccB_sound 100 (st 7).n (by decide), fun r' b hs => ?_⟩
  rw [step7] at hs; cases hs
  refine ⟨ccB_sound 100 (assumeStart (st 8).n ⟨2, true⟩) (by decide), fun r' b hs => ?_⟩
  rw [step8] at hs; cases hs
  exact ⟨ccB_sound 100 (assumeStart (st 9).n ⟨3, true⟩) (by decide), fun r' b hs => trivial⟩

/-- the history runs from `Net.init`, its side conditions `rooms` and `guards` hold, and by the theorem the final
    network satisfies the invariant; concretely: the tableau has one row (the slack y2 = y0 + y1), the clause
    `[¬b3, ¬b2]` was learnt from the conflict of `lra.check`, the network backjumped from level 2 to level 1 and
    `¬b3` is assigned -/
theorem final_ok : NetOK (st 10) ∧ (st 10).n.sat.log = [[⟨3, false⟩, ⟨2, false⟩]] ∧ (st 10).n.lra.tableau.length = 1 ∧
    (st 10).n.lra.vals.length = 3 ∧ (st 10).n.sat.decisionLevel = 1 ∧ (st 10).n.sat.value ⟨3, true⟩ = some false ∧
    (st 10).n.sat.dead = false ∧ (st 10).n.lra.vAsrts.map (·.1) = [1, 2, 3, 4] :=
  ⟨(steps_ok hist ⟨Net.init, []⟩ (st 10) netOK_init hist_guards hist_rooms run_all).1,
    by decide, by decide, by decide, by decide, by decide, by decide, by decide⟩

end NetEx3
end Oratio
