/-
Lemmas for property C03: satisfaction of the clauses posted around flaws and resolvers
(`OratioModel/Solver/Flaw.lean`) and walks in the support relation.  Core Lean only, self-contained.
-/
import OratioModel

namespace Oratio
namespace FlawL
open Flaw

/-! ## assignments -/

theorem lit_neg (α : Asg) (l : Lit) : α.lit l.neg = !α.lit l := by
  cases l with
  | mk v s => cases s <;> simp [Asg.lit, Lit.neg]

theorem cnf_append (α : Asg) (f g : Cnf) : α.cnf (f ++ g) = (α.cnf f && α.cnf g) := by
  simp [Asg.cnf]

theorem cnf_mem {α : Asg} {f : Cnf} (h : α.cnf f = true) {c : Clause} (hc : c ∈ f) : α.clause c = true := by
  simp only [Asg.cnf, List.all_eq_true] at h
  exact h c hc

/-- a binary clause `¬a ∨ b` is an implication -/
theorem imp_of_clause {α : Asg} {a b : Lit} (h : α.clause [a.neg, b] = true) (ha : α.lit a = true) :
    α.lit b = true := by
  simp [Asg.clause, lit_neg, ha] at h
  exact h

/-- a binary clause `b ∨ ¬a` is an implication -/
theorem imp_of_clause' {α : Asg} {a b : Lit} (h : α.clause [b, a.neg] = true) (ha : α.lit a = true) :
    α.lit b = true := by
  simp [Asg.clause, lit_neg, ha] at h
  exact h

/-- a binary clause `¬a ∨ ¬b` excludes both -/
theorem excl_of_clause {α : Asg} {a b : Lit} (h : α.clause [a.neg, b.neg] = true) (ha : α.lit a = true)
    (hb : α.lit b = true) : False := by
  simp [Asg.clause, lit_neg, ha, hb] at h

/-! ## `pairwise`, `expandClauses` -/

theorem pairwise_lt (α : Asg) : ∀ (rs : List Lit), α.cnf (pairwise rs) = true →
    ∀ i j (hi : i < rs.length) (hj : j < rs.length), i < j → α.lit rs[i] = true → α.lit rs[j] = true → False
  | [], _, i, _, hi, _, _, _, _ => by simp at hi
  | r :: rs, h, i, j, hi, hj, hij, hti, htj => by
    rw [pairwise, cnf_append, Bool.and_eq_true] at h
    cases j with
    | zero => omega
    | succ j =>
      have hj' : j < rs.length := by simpa using hj
      cases i with
      | zero =>
        have hc : [r.neg, rs[j].neg] ∈ rs.map (fun q => [r.neg, q.neg]) :=
          List.mem_map.mpr ⟨rs[j], List.getElem_mem hj', rfl⟩
        have := cnf_mem h.1 hc
        simp only [List.getElem_cons_zero] at hti
        simp only [List.getElem_cons_succ] at htj
        exact excl_of_clause this hti htj
      | succ i =>
        have hi' : i < rs.length := by simpa using hi
        simp only [List.getElem_cons_succ] at hti htj
        exact pairwise_lt α rs h.2 i j hi' hj' (by omega) hti htj

theorem pairwise_amo (α : Asg) (rs : List Lit) (h : α.cnf (pairwise rs) = true)
    (i j : Nat) (hi : i < rs.length) (hj : j < rs.length) (hti : α.lit rs[i] = true) (htj : α.lit rs[j] = true) :
    i = j := by
  rcases Nat.lt_trichotomy i j with hlt | heq | hgt
  · exact (pairwise_lt α rs h i j hi hj hlt hti htj).elim
  · exact heq
  · exact (pairwise_lt α rs h j i hj hi hgt htj hti).elim

/-- the `add_resolver` part: every applied resolver implies its flaw -/
theorem expand_resolver {α : Asg} {phi : Lit} {rhos : List Lit} {ex : Bool}
    (h : α.cnf (expandClauses phi rhos ex) = true) {r : Lit} (hr : r ∈ rhos) (hrho : α.lit r = true) :
    α.lit phi = true := by
  rw [expandClauses, cnf_append, Bool.and_eq_true] at h
  have hc : [r.neg, phi] ∈ rhos.map (fun r => [r.neg, phi]) := List.mem_map.mpr ⟨r, hr, rfl⟩
  exact imp_of_clause (cnf_mem h.1 hc) hrho

/-- the `expand` part for a flaw with at least one resolver -/
theorem expand_some {α : Asg} {phi : Lit} {rhos : List Lit} {ex : Bool}
    (h : α.cnf (expandClauses phi rhos ex) = true) (hne : rhos ≠ []) :
    α.clause (phi.neg :: rhos) = true ∧ (ex = true → α.cnf (pairwise rhos) = true) := by
  rw [expandClauses, cnf_append, Bool.and_eq_true] at h
  have hemp : rhos.isEmpty = false := by
    cases rhos with
    | nil => exact absurd rfl hne
    | cons _ _ => rfl
  have h2 := h.2
  rw [hemp] at h2
  simp only [Bool.false_eq_true, if_false] at h2
  rw [cnf_append, Bool.and_eq_true] at h2
  refine ⟨cnf_mem h2.1 (List.mem_singleton.mpr rfl), ?_⟩
  intro hex
  have := h2.2
  simpa [hex] using this

/-- the `expand` part for a flaw without resolvers -/
theorem expand_none {α : Asg} {phi : Lit} {ex : Bool}
    (h : α.cnf (expandClauses phi [] ex) = true) : α.lit phi = false := by
  simp [expandClauses, Asg.cnf, Asg.clause, lit_neg] at h
  exact h

/-! ## walks -/

def PosOK (pos : Nat → Int) : Edge → Prop
  | .sub p c => pos c ≤ pos p - 1
  | .uni x t => pos t ≤ pos x

def UniOK (active : Nat → Bool) : Edge → Prop
  | .sub _ _ => True
  | .uni x t => active x = false ∧ active t = true

/-- number of `sub` edges -/
def nsub : List Edge → Nat
  | [] => 0
  | .sub _ _ :: es => nsub es + 1
  | .uni _ _ :: es => nsub es

/-- along a walk the position drops by at least the number of `sub` edges -/
theorem walk_pos (pos : Nat → Int) : ∀ (es : List Edge), (∀ e ∈ es, PosOK pos e) →
    ∀ a b, Walk a es b → pos b ≤ pos a - (nsub es : Int)
  | [], _, a, b, h => by
    have : a = b := h
    subst this
    simp [nsub]
  | e :: es, hpos, a, b, h => by
    obtain ⟨h1, h2⟩ := h
    have ih := walk_pos pos es (fun e' he' => hpos e' (List.mem_cons_of_mem _ he')) _ _ h2
    have he := hpos e List.mem_cons_self
    cases e with
    | sub p c =>
      simp only [Edge.src] at h1
      simp only [Edge.dst] at ih
      simp only [PosOK] at he
      subst h1
      simp only [nsub]
      omega
    | uni x t =>
      simp only [Edge.src] at h1
      simp only [Edge.dst] at ih
      simp only [PosOK] at he
      subst h1
      simp only [nsub]
      omega

/-- no closed non-empty walk -/
theorem no_closed_walk (pos : Nat → Int) (active : Nat → Bool) (es : List Edge) (a : Nat)
    (hpos : ∀ e ∈ es, PosOK pos e) (huni : ∀ e ∈ es, UniOK active e) (hne : es ≠ []) : ¬ Walk a es a := by
  intro hw
  have hp := walk_pos pos es hpos a a hw
  have h0 : nsub es = 0 := by omega
  cases es with
  | nil => exact hne rfl
  | cons e es =>
    obtain ⟨h1, h2⟩ := hw
    have hu := huni e List.mem_cons_self
    cases e with
    | sub p c => simp [nsub] at h0
    | uni x t =>
      simp only [Edge.src] at h1
      simp only [Edge.dst] at h2
      simp only [UniOK] at hu
      simp only [nsub] at h0
      subst h1
      cases es with
      | nil =>
        have : t = x := h2
        subst this
        rw [hu.1] at hu
        exact Bool.noConfusion hu.2
      | cons e2 es =>
        obtain ⟨h3, _⟩ := h2
        have hu2 := huni e2 (List.mem_cons_of_mem _ List.mem_cons_self)
        cases e2 with
        | sub p c => simp [nsub] at h0
        | uni y u =>
          simp only [Edge.src] at h3
          simp only [UniOK] at hu2
          subst h3
          rw [hu2.1] at hu
          exact Bool.noConfusion hu.2

end FlawL
end Oratio
