/-
Lemmas for property C13, part 6: `newAtMostOne` and `newExctOne`.
-/
import OratioProofs.Lemmas.EncAmo

namespace Oratio
namespace EncL
open Enc

/-! ## copies of the two cache predicates of Properties/C13.lean -/

def amoCached (s : Enc) (ls : List Lit) : Bool :=
  match Enc.scanCard s (Enc.sortDedup ls) none [] with
  | .open ls' => decide (1 < ls'.length) && (s.lookup (.amo ls')).isSome
  | _ => false

def exoFresh (s : Enc) (ls : List Lit) : Bool :=
  match Enc.scanCard s (Enc.sortDedup ls) none [] with
  | .open ls' => (s.lookup (.exo ls')).isNone && (s.lookup (.amo ls')).isNone
  | _ => true

/-! ## what the filtering loop tells about the argument list -/

theorem open_facts {s : Enc} {ls ls' : List Lit} (hsc : scanCard s (sortDedup ls) none [] = .open ls') :
    (∀ l ∈ ls', l ∈ ls) ∧ (∀ α, Models α s → ∀ l ∈ ls, l ∈ ls' ∨ α.lit l = false) ∧ ls'.Nodup := by
  obtain ⟨o1, _, _, o4, o5⟩ := scanCard_open (sortDedup ls) none [] (by simp) ls' hsc
  refine ⟨fun l hl => ?_, fun α hα l hl => ?_, ?_⟩
  · exact mem_sortDedup.1 (by simpa using o1 l hl)
  · rcases o4 l (mem_sortDedup.2 hl) with h | h
    · exact Or.inl h
    · exact Or.inr (value_sound hα h)
  · exact (sortDedup_nodup ls).sublist (by simpa using o5)

theorem one_facts {s : Enc} {ls others : List Lit} (hsc : scanCard s (sortDedup ls) none [] = .oneTrue others) :
    ∃ t ∈ ls, s.value t = some true ∧ (∀ l ∈ ls, l = t ∨ l ∈ others ∨ s.value l = some false) ∧
      (∀ l ∈ others, s.value l = none) ∧ (∀ l ∈ others, l ∈ ls) := by
  obtain ⟨t, ht, ht2, j1, j2, j3⟩ := scanCard_one (sortDedup ls) none [] (by simp) (by simp) others hsc
  exact ⟨t, mem_sortDedup.1 ht, ht2, fun l hl => j1 l (mem_sortDedup.2 hl), j2,
    fun l hl => mem_sortDedup.1 (by simpa using j3 l hl)⟩

theorem two_facts {s : Enc} {ls : List Lit} (hsc : scanCard s (sortDedup ls) none [] = .twoTrue) :
    ∀ α, Models α s → ¬ AtMostOne α ls := by
  intro α hα hA
  obtain ⟨a, b, ha, hb, hab, hta, htb⟩ :=
    scanCard_two (sortDedup ls) none [] (by simp) (by simp) (sortDedup_nodup ls) hsc α hα
  exact hab (hA a (mem_sortDedup.1 (by simpa using ha)) b (mem_sortDedup.1 (by simpa using hb)) hta htb)

theorem exo_transfer {α : Asg} {ls ls' : List Lit} (h1 : ∀ l ∈ ls', l ∈ ls)
    (h2 : ∀ l ∈ ls, l ∈ ls' ∨ α.lit l = false) : ExactlyOne α ls' ↔ ExactlyOne α ls := by
  constructor
  · rintro ⟨hA, a, ha, hta⟩
    exact ⟨amo_of_sub h2 hA, a, h1 a ha, hta⟩
  · rintro ⟨hA, a, ha, hta⟩
    refine ⟨amo_of_sub (fun l hl => Or.inl (h1 l hl)) hA, a, ?_, hta⟩
    rcases h2 a ha with h | h
    · exact h
    · rw [hta] at h; cases h

/-! ## one argument is true at root: both constructors return "all the others are false" -/

theorem oneTrue_spec {s : Enc} {ls others : List Lit} (h : Inv s) (hl : InRange s ls)
    (hsc : scanCard s (sortDedup ls) none [] = .oneTrue others) :
    Inv (s.newConj (others.map Lit.neg)).2 ∧
    (s.newConj (others.map Lit.neg)).1.var < (s.newConj (others.map Lit.neg)).2.nvars ∧
    (∀ α, Sat α (s.newConj (others.map Lit.neg)).2 → α.lit (s.newConj (others.map Lit.neg)).1 = true →
      ExactlyOne α ls) ∧
    Extends s (s.newConj (others.map Lit.neg)).2 ∧ Refines s (s.newConj (others.map Lit.neg)).2 ∧
    (∀ α, Sat α s → AtMostOne α ls → ∃ α', Sat α' (s.newConj (others.map Lit.neg)).2 ∧
      (∀ v, v < s.nvars → α' v = α v) ∧ α'.lit (s.newConj (others.map Lit.neg)).1 = true) := by
  obtain ⟨t, ht, ht2, j1, j2, j3⟩ := one_facts hsc
  have hr : InRange s (others.map Lit.neg) := by
    intro l hl'
    obtain ⟨x, hx, rfl⟩ := List.mem_map.1 hl'
    exact hl x (j3 x hx)
  obtain ⟨c1, c2, c3, c4, c5, _⟩ := conj_spec h hr
  refine ⟨c1, c2, fun α hα hlt => ?_, c4, c5, fun α hα hA => ?_⟩
  · have hαs := c5.2 α hα
    have hall := c3 α hα
    rw [hlt] at hall
    have hfalse : ∀ o ∈ others, α.lit o = false := by
      intro o ho
      have := (List.all_eq_true.1 hall.symm) o.neg (List.mem_map.2 ⟨o, ho, rfl⟩)
      rw [lit_neg] at this
      cases hx : α.lit o <;> simp_all
    have htt : α.lit t = true := value_sound hαs.2 ht2
    have honly : ∀ a ∈ ls, α.lit a = true → a = t := by
      intro a ha hta
      rcases j1 a ha with h1 | h1 | h1
      · exact h1
      · rw [hfalse a h1] at hta; cases hta
      · rw [value_sound hαs.2 h1] at hta; cases hta
    exact ⟨fun a ha b hb hta htb => (honly a ha hta).trans (honly b hb htb).symm, t, ht, htt⟩
  · obtain ⟨α', hα', e⟩ := c4 α hα
    refine ⟨α', hα', e, ?_⟩
    rw [c3 α' hα', List.all_eq_true]
    intro l hl'
    obtain ⟨o, ho, rfl⟩ := List.mem_map.1 hl'
    rw [lit_neg, lit_congr (e o.var (hl o (j3 o ho)))]
    cases hx : α.lit o with
    | false => rfl
    | true =>
      exfalso
      have := hA o (j3 o ho) t ht hx (value_sound hα.2 ht2)
      have hn := j2 o ho
      rw [this, ht2] at hn
      cases hn

/-! ## `newAtMostOne` -/

theorem amo_spec {s : Enc} (h : Inv s) {ls : List Lit} (hl : InRange s ls) :
    Inv (s.newAtMostOne ls).2 ∧ (s.newAtMostOne ls).1.var < (s.newAtMostOne ls).2.nvars ∧
    (∀ α, Sat α (s.newAtMostOne ls).2 → α.lit (s.newAtMostOne ls).1 = true → AtMostOne α ls) ∧
    Extends s (s.newAtMostOne ls).2 ∧ Refines s (s.newAtMostOne ls).2 := by
  unfold Enc.newAtMostOne
  cases hsc : scanCard s (sortDedup ls) none [] with
  | twoTrue =>
    refine ⟨h, nvars_pos h.1, fun α hα ht => ?_, Extends.refl s, Refines.refl s⟩
    change α.lit Lit.falseLit = true at ht
    rw [lit_falseLit hα.1] at ht; cases ht
  | oneTrue others =>
    obtain ⟨c1, c2, c3, c4, c5, _⟩ := oneTrue_spec h hl hsc
    exact ⟨c1, c2, fun α hα ht => (c3 α hα ht).1, c4, c5⟩
  | «open» ls' =>
    obtain ⟨o1, o2, _⟩ := open_facts hsc
    obtain ⟨a1, a2, a3, a4, a5, _, _⟩ := amoCore_good ls'.length s ls' h (fun l hl' => hl l (o1 l hl'))
    exact ⟨a1, a2, fun α hα ht => amo_of_sub (o2 α (a5.2 α hα).2) (a3 α hα ht), a4, a5⟩

theorem amo_complete {s : Enc} (h : Inv s) {ls : List Lit} (hl : InRange s ls) :
    (amoCached s ls = false →
      ∀ α, Sat α s → AtMostOne α ls →
        ∃ α', Sat α' (s.newAtMostOne ls).2 ∧ (∀ v, v < s.nvars → α' v = α v) ∧
          α'.lit (s.newAtMostOne ls).1 = true) ∧
    (amoCached s ls = true → (s.newAtMostOne ls).2 = s) := by
  unfold amoCached Enc.newAtMostOne
  cases hsc : scanCard s (sortDedup ls) none [] with
  | twoTrue =>
    exact ⟨fun _ α hα hA => absurd hA (two_facts hsc α hα.2), fun hf => by cases hf⟩
  | oneTrue others =>
    obtain ⟨_, _, _, _, _, c6⟩ := oneTrue_spec h hl hsc
    exact ⟨fun _ => c6, fun hf => by cases hf⟩
  | «open» ls' =>
    obtain ⟨o1, o2, o3⟩ := open_facts hsc
    obtain ⟨_, _, _, _, _, _, a7⟩ := amoCore_good ls'.length s ls' h (fun l hl' => hl l (o1 l hl'))
    dsimp only
    refine ⟨fun hc α hα hA => ?_, fun hc => ?_⟩
    · refine a7 o3 (Nat.le_refl _) ?_ α hα (amo_of_sub (fun l hl' => Or.inl (o1 l hl')) hA)
      by_cases h1 : ls'.length ≤ 1
      · exact Or.inl h1
      · right
        cases hlk : s.lookup (.amo ls') with
        | none => rfl
        | some l => simp [hlk] at hc; omega
    · simp only [Bool.and_eq_true, decide_eq_true_eq] at hc
      cases hlk : s.lookup (.amo ls') with
      | none => rw [hlk] at hc; simp at hc
      | some l => rw [amoCore_hit _ s ls' (by omega) hlk]

/-! ## `newExctOne` -/

theorem exo_clauses (β : Asg) (ctr amo : Lit) (ls : List Lit) :
    β.cnf [[ctr.neg, amo], ls ++ [ctr.neg]] = true ↔
      (β.lit ctr = true → β.lit amo = true ∧ ∃ l ∈ ls, β.lit l = true) := by
  cases hc : β.lit ctr <;> simp [Asg.cnf, Asg.clause, lit_neg, hc, List.any_append]

/-- the "fresh" tail of `newExctOne` -/
theorem exo_fresh_spec {s : Enc} (h : Inv s) {ls' : List Lit} (hl : InRange s ls') :
    let r1 := amoCore ls'.length s ls'
    let r := freshDef r1.2 (.exo ls') (fun ctr => [[ctr.neg, r1.1], ls' ++ [ctr.neg]])
    Inv r.2 ∧ r.1.var < r.2.nvars ∧ (∀ α, Sat α r.2 → α.lit r.1 = true → ExactlyOne α ls') ∧
    Extends s r.2 ∧ Refines s r.2 ∧
    (ls'.Nodup → s.lookup (.amo ls') = none → ∀ α, Sat α s → ExactlyOne α ls' →
      ∃ α', Sat α' r.2 ∧ (∀ v, v < s.nvars → α' v = α v) ∧ α'.lit r.1 = true) := by
  intro r1 r
  obtain ⟨a1, a2, a3, a4, a5, _, a7⟩ := amoCore_good ls'.length s ls' h hl
  have hl1 : ∀ x ∈ ls', x.var < r1.2.nvars := fun x hx => Nat.lt_of_lt_of_le (hl x hx) a5.1
  have hctr : ∀ (β : Asg), β.lit (⟨r1.2.nvars, true⟩ : Lit) = β r1.2.nvars := fun β => lit_pos β _
  obtain ⟨f1, f2, f3, f4, f5, f6, _, _⟩ := freshDef_spec a1 (.exo ls')
    (fun ctr => [[ctr.neg, r1.1], ls' ++ [ctr.neg]]) hl1
    (by
      intro c hc x hx
      simp only [List.mem_cons, List.not_mem_nil, or_false] at hc
      rcases hc with rfl | rfl
      · simp only [List.mem_cons, List.not_mem_nil, or_false] at hx
        rcases hx with rfl | rfl
        · simp
        · exact Nat.lt_succ_of_lt a2
      · simp only [List.mem_append, List.mem_singleton] at hx
        rcases hx with hx | rfl
        · exact Nat.lt_succ_of_lt (hl1 x hx)
        · simp)
    (by
      intro α _
      refine ⟨false, ?_⟩
      rw [exo_clauses, hctr, upd_same]
      intro hf; cases hf)
    (by
      intro α hα hc ht
      obtain ⟨t1, t2⟩ := (exo_clauses α _ _ ls').1 hc ht
      exact ⟨a3 α hα t1, t2⟩)
  refine ⟨f1, f2, fun α hα => f5 α hα, Extends.trans a5.1 a4 f3, Refines.trans a5 f4,
    fun hnd hlk α hα hE => ?_⟩
  obtain ⟨α1, hα1, e1, t1⟩ := a7 hnd (Nat.le_refl _) (Or.inr hlk) α hα hE.1
  obtain ⟨a, ha, hta⟩ := hE.2
  have := f6 α1 true hα1 (by
    rw [exo_clauses]
    intro _
    refine ⟨?_, a, ha, ?_⟩
    · rw [lit_congr (upd_lt α1 _ a2)]; exact t1
    · rw [lit_congr (upd_lt α1 _ (hl1 a ha)), lit_congr (e1 _ (hl a ha))]; exact hta)
  exact ⟨_, this.1, fun v hv => by rw [upd_lt α1 _ (Nat.lt_of_lt_of_le hv a5.1), e1 v hv], this.2⟩

theorem newExctOne_open_cons (s : Enc) (ls : List Lit) (x : Lit) (t : List Lit)
    (hsc : scanCard s (sortDedup ls) none [] = .open (x :: t)) :
    s.newExctOne ls =
      if t.length + 1 = 1 ∧ x.sign then (x, s)
      else match s.lookup (.exo (x :: t)) with
        | some l => (l, s)
        | none => freshDef (amoCore (t.length + 1) s (x :: t)).2 (.exo (x :: t))
            (fun ctr => [[ctr.neg, (amoCore (t.length + 1) s (x :: t)).1], (x :: t) ++ [ctr.neg]]) := by
  unfold Enc.newExctOne
  rw [hsc]
  rfl

theorem exo_spec {s : Enc} (h : Inv s) {ls : List Lit} (hl : InRange s ls) :
    Inv (s.newExctOne ls).2 ∧ (s.newExctOne ls).1.var < (s.newExctOne ls).2.nvars ∧
    (∀ α, Sat α (s.newExctOne ls).2 → α.lit (s.newExctOne ls).1 = true → ExactlyOne α ls) ∧
    Extends s (s.newExctOne ls).2 ∧ Refines s (s.newExctOne ls).2 := by
  cases hsc : scanCard s (sortDedup ls) none [] with
  | twoTrue =>
    have : s.newExctOne ls = (Lit.falseLit, s) := by unfold Enc.newExctOne; rw [hsc]
    rw [this]
    refine ⟨h, nvars_pos h.1, fun α hα ht => ?_, Extends.refl s, Refines.refl s⟩
    change α.lit Lit.falseLit = true at ht
    rw [lit_falseLit hα.1] at ht; cases ht
  | oneTrue others =>
    have : s.newExctOne ls = s.newConj (others.map Lit.neg) := by unfold Enc.newExctOne; rw [hsc]
    rw [this]
    obtain ⟨c1, c2, c3, c4, c5, _⟩ := oneTrue_spec h hl hsc
    exact ⟨c1, c2, c3, c4, c5⟩
  | «open» ls' =>
    obtain ⟨o1, o2, _⟩ := open_facts hsc
    cases ls' with
    | nil =>
      have : s.newExctOne ls = (Lit.falseLit, s) := by unfold Enc.newExctOne; rw [hsc]
      rw [this]
      refine ⟨h, nvars_pos h.1, fun α hα ht => ?_, Extends.refl s, Refines.refl s⟩
      change α.lit Lit.falseLit = true at ht
      rw [lit_falseLit hα.1] at ht; cases ht
    | cons x t =>
      rw [newExctOne_open_cons s ls x t hsc]
      have hl' : InRange s (x :: t) := fun l hl' => hl l (o1 l hl')
      have htr : ∀ α, Sat α s → (ExactlyOne α (x :: t) ↔ ExactlyOne α ls) := fun α hα =>
        exo_transfer o1 (o2 α hα.2)
      split
      · next hc =>
        have ht : t = [] := by
          cases t with
          | nil => rfl
          | cons _ _ => simp at hc
        subst ht
        refine ⟨h, hl' x (by simp), fun α hα hlt => ?_, Extends.refl s, Refines.refl s⟩
        exact (htr α hα).1 ⟨amo_short (by simp), x, by simp, hlt⟩
      · cases hlk : s.lookup (.exo (x :: t)) with
        | some l =>
          obtain ⟨k1, k2⟩ := cache_hit h hlk
          exact ⟨h, k1, fun α hα hlt => (htr α hα).1 (k2 α hα hlt), Extends.refl s, Refines.refl s⟩
        | none =>
          obtain ⟨f1, f2, f3, f4, f5, _⟩ := exo_fresh_spec h hl'
          exact ⟨f1, f2, fun α hα hlt => (htr α (f5.2 α hα)).1 (f3 α hα hlt), f4, f5⟩

theorem exo_complete {s : Enc} (h : Inv s) {ls : List Lit} (hl : InRange s ls) (hf : exoFresh s ls = true) :
    ∀ α, Sat α s → ExactlyOne α ls →
      ∃ α', Sat α' (s.newExctOne ls).2 ∧ (∀ v, v < s.nvars → α' v = α v) ∧ α'.lit (s.newExctOne ls).1 = true := by
  intro α hα hE
  unfold exoFresh at hf
  cases hsc : scanCard s (sortDedup ls) none [] with
  | twoTrue => exact absurd hE.1 (two_facts hsc α hα.2)
  | oneTrue others =>
    have : s.newExctOne ls = s.newConj (others.map Lit.neg) := by unfold Enc.newExctOne; rw [hsc]
    rw [this]
    obtain ⟨_, _, _, _, _, c6⟩ := oneTrue_spec h hl hsc
    exact c6 α hα hE.1
  | «open» ls' =>
    obtain ⟨o1, o2, o3⟩ := open_facts hsc
    have hE' : ExactlyOne α ls' := (exo_transfer o1 (o2 α hα.2)).2 hE
    rw [hsc] at hf
    simp only [Bool.and_eq_true, Option.isNone_iff_eq_none] at hf
    cases ls' with
    | nil => obtain ⟨a, ha, _⟩ := hE'.2; cases ha
    | cons x t =>
      rw [newExctOne_open_cons s ls x t hsc]
      have hl' : InRange s (x :: t) := fun l hl' => hl l (o1 l hl')
      split
      · next hc =>
        have ht : t = [] := by
          cases t with
          | nil => rfl
          | cons _ _ => simp at hc
        subst ht
        refine ⟨α, hα, fun _ _ => rfl, ?_⟩
        obtain ⟨a, ha, hta⟩ := hE'.2
        simp only [List.mem_singleton] at ha
        subst ha; exact hta
      · rw [hf.1]
        obtain ⟨_, _, _, _, _, f6⟩ := exo_fresh_spec h hl'
        exact f6 o3 hf.2 α hα hE'

end EncL
end Oratio
