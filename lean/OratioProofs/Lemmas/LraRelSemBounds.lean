/-
Lemmas for property C11 (semantic version), part 3: the bounds of the variable `newVarLin` returns contain the
value of the expression, the bounds stay canonical (`BndWF`), and a constant answer of `newRel` is sound.
-/
import OratioModel
import OratioProofs.Lemmas.LraRelSemIval
import OratioProofs.Lemmas.LraRelSemMain

namespace Oratio
namespace Lra
open Lin

theorem foldl_congr_mem {α β : Type} (f g : β → α → β) (l : List α) (h : ∀ b, ∀ a ∈ l, f b a = g b a) :
    ∀ b, l.foldl f b = l.foldl g b := by
  induction l with
  | nil => intro b; rfl
  | cons a l ih =>
    intro b
    rw [List.foldl_cons, List.foldl_cons, h b a List.mem_cons_self]
    exact ih (fun b a ha => h b a (List.mem_cons_of_mem _ ha)) _

theorem lbLin_congr_s {t u : Lra} {l : Lin} (h : ∀ p ∈ l.vars, u.lb p.1 = t.lb p.1 ∧ u.ub p.1 = t.ub p.1) :
    u.lbLin l = t.lbLin l ∧ u.ubLin l = t.ubLin l := by
  constructor
  · unfold lbLin
    apply foldl_congr_mem
    intro b a ha
    rw [(h a ha).1, (h a ha).2]
  · unfold ubLin
    apply foldl_congr_mem
    intro b a ha
    rw [(h a ha).1, (h a ha).2]

/-- the intermediate states of `newVarLin` when a slack variable is created -/
def nvE (t : Lra) (l : Lin) : Lra :=
  let u := t.newVar.2
  let ex := emplaceKey (emplaceKey u.exprs (Lin.toStr l) t.vals.length) (Lin.toStr (substBasic t l)) t.vals.length
  { u with exprs := ex }
def nvL (t : Lra) (l : Lin) : Lra :=
  (nvE t l).setBound (lbIdx t.vals.length) ⟨(nvE t l).lbLin (substBasic t l), Lit.trueLit⟩
def nvU (t : Lra) (l : Lin) : Lra :=
  (nvL t l).setBound (ubIdx t.vals.length) ⟨(nvL t l).ubLin (substBasic t l), Lit.trueLit⟩

theorem newVarLin_new_eq {s : Sat} {t : Lra} {l : Lin} {slack : Nat} {t1 : Lra}
    (h : newVarLin s t l = some (slack, t1)) (hnew : t1.vals.length = t.vals.length + 1) :
    slack = t.vals.length ∧
    t1 = ((nvU t l).setVal t.vals.length ((nvU t l).valueLin (substBasic t l))).newRow t.vals.length (substBasic t l) := by
  unfold newVarLin at h
  split at h
  · cases h
  · simp only [] at h
    split at h
    · cases h; omega
    · split at h
      · cases h
        have : t.vals.length = t.vals.length + 1 := hnew
        omega
      · split at h
        · cases h
        · cases h
          exact ⟨rfl, rfl⟩

theorem nvU_bounds (t : Lra) (l : Lin) :
    (nvU t l).bounds = ((t.bounds ++ [(⟨IR.ofR R.ninf, Lit.trueLit⟩ : LBound), ⟨IR.ofR R.pinf, Lit.trueLit⟩]).set
      (lbIdx t.vals.length) ⟨(nvE t l).lbLin (substBasic t l), Lit.trueLit⟩).set
      (ubIdx t.vals.length) ⟨(nvL t l).ubLin (substBasic t l), Lit.trueLit⟩ := rfl

theorem nvE_lb_ub {t : Lra} (l : Lin) (hB : t.bounds.length = 2 * t.vals.length) {v : Nat} (hv : v < t.vals.length) :
    (nvE t l).lb v = t.lb v ∧ (nvE t l).ub v = t.ub v := by
  constructor
  · show ((t.bounds ++ _).getD _ _).value = _
    rw [getD_append_left _ _ _ _ (by unfold lbIdx; omega)]; rfl
  · show ((t.bounds ++ _).getD _ _).value = _
    rw [getD_append_left _ _ _ _ (by unfold ubIdx; omega)]; rfl

theorem nvL_lb_ub {t : Lra} (l : Lin) (hB : t.bounds.length = 2 * t.vals.length) {v : Nat} (hv : v < t.vals.length) :
    (nvL t l).lb v = t.lb v ∧ (nvL t l).ub v = t.ub v := by
  constructor
  · show (((t.bounds ++ _).set _ _).getD _ _).value = _
    rw [getD_set_ne _ _ _ _ _ (by unfold lbIdx; omega), getD_append_left _ _ _ _ (by unfold lbIdx; omega)]; rfl
  · show (((t.bounds ++ _).set _ _).getD _ _).value = _
    rw [getD_set_ne _ _ _ _ _ (by unfold lbIdx ubIdx; omega), getD_append_left _ _ _ _ (by unfold ubIdx; omega)]; rfl

theorem newVarLin_new_bounds {s : Sat} {t : Lra} {l : Lin} {slack : Nat} {t1 : Lra}
    (h : newVarLin s t l = some (slack, t1)) (hnew : t1.vals.length = t.vals.length + 1)
    (hB : t.bounds.length = 2 * t.vals.length) (hv : ∀ p ∈ (substBasic t l).vars, p.1 < t.vals.length) :
    slack = t.vals.length ∧
    t1.lb slack = t.lbLin (substBasic t l) ∧ t1.ub slack = t.ubLin (substBasic t l) := by
  obtain ⟨hs, ht1⟩ := newVarLin_new_eq h hnew
  subst hs
  have hb : t1.bounds = (nvU t l).bounds := by rw [ht1, newRow_bounds]; rfl
  refine ⟨rfl, ?_, ?_⟩
  · unfold lb bnd
    rw [hb, nvU_bounds, getD_set_ne _ _ _ _ _ (by unfold lbIdx ubIdx; omega),
      getD_set_self _ _ _ _ (by rw [List.length_append, hB]; unfold lbIdx; simp)]
    exact (lbLin_congr_s (fun p hp => nvE_lb_ub l hB (hv p hp))).1
  · unfold ub bnd
    rw [hb, nvU_bounds, getD_set_self _ _ _ _ (by rw [List.length_set, List.length_append, hB]; unfold ubIdx; simp)]
    exact (lbLin_congr_s (fun p hp => nvL_lb_ub l hB (hv p hp))).2

/-! ## `substBasic` on an expression without basic variables -/

theorem substFold_nonbasic (t : Lra) : ∀ (vs : List Nat) (e : Lin), (∀ v ∈ vs, t.rowOf v = none) →
    vs.foldl (substStep t) e = e := by
  intro vs
  induction vs with
  | nil => intro e _; rfl
  | cons v vs ih =>
    intro e h
    rw [List.foldl_cons]
    have hv : substStep t e v = e := by
      unfold substStep
      rw [h v List.mem_cons_self]
    rw [hv]
    exact ih e (fun w hw => h w (List.mem_cons_of_mem _ hw))

theorem substBasic_nonbasic {t : Lra} {l : Lin} (h : ∀ p ∈ l.vars, t.rowOf p.1 = none) : substBasic t l = l := by
  rw [substBasic_eq]
  apply substFold_nonbasic
  intro v hv
  obtain ⟨p, hp, rfl⟩ := List.mem_map.1 hv
  exact h p hp

theorem substBasic_vars_lt {t : Lra} (ht : TabWF t) {l : Lin} (hl : l.WF)
    (hlv : ∀ p ∈ l.vars, p.1 < t.vals.length) : ∀ p ∈ (substBasic t l).vars, p.1 < t.vals.length := by
  obtain ⟨hi, hlen⟩ := (tabWF_iff t).1 ht
  obtain ⟨-, -, s3, -⟩ := substBasic_spec (t := t) hi.rows hl
  intro p hp
  rcases s3 p.1 (find_isSome_iff.2 ⟨p.2, hp⟩) with h | ⟨r, rl, hrl, h⟩
  · obtain ⟨c, hc⟩ := find_isSome_iff.1 h
    exact hlv (p.1, c) hc
  · rw [← hlen]; exact (hi.bound r rl hrl).2 _ h

/-- the rewritten difference has no basic variable left: `newVarLin` rewrites it to itself -/
theorem relE_subst_id {t : Lra} (ht : TabWF t) {left right : Lin} (hl : left.WF) (hr : right.WF) :
    substBasic t (relE t left right) = relE t left right := by
  obtain ⟨hi, -⟩ := (tabWF_iff t).1 ht
  obtain ⟨d1, -⟩ := Lin.sub_spec left right hl hr
  obtain ⟨-, -, -, s4⟩ := substBasic_spec (t := t) hi.rows d1
  apply substBasic_nonbasic
  intro p hp
  exact s4 hi.nonbasic p.1 (find_isSome_iff.2 ⟨p.2, hp⟩)

/-! ## the bounds of the variable returned by `newVarLin` -/

theorem newVarLin_slack_bounds {s : Sat} {t : Lra} (ht : TabWF t) (ri : RelInv s t) (si : SemInv t)
    (hb : BndWF t) {l : Lin} (hl : l.WF) (hnz : NoZero (substBasic t l))
    (hlv : ∀ p ∈ l.vars, p.1 < t.vals.length) {slack : Nat} {t1 : Lra}
    (h : newVarLin s t l = some (slack, t1)) :
    BndWF t1 ∧ LowOK (t1.lb slack) ∧ UpOK (t1.ub slack) ∧
    ∀ σ, RowsS t σ → InBounds t σ → IRBelow (t1.lb slack) (Lin.evalS l σ) ∧ IRAbove (t1.ub slack) (Lin.evalS l σ) := by
  obtain ⟨s1, s2⟩ := substBasic_holds (t := t) ht.rows hl
  have hv := substBasic_vars_lt ht hl hlv
  obtain ⟨-, -, -, -, -, ⟨hbs, hvs, -, e, he, hes⟩ | ⟨hs, -, ⟨x0, x1, hvs⟩, -⟩⟩ := newVarLin_spec h
  · -- a variable known to `exprs`
    have hlt : slack < t.vals.length := hes ▸ ri.exprs_lt e he
    have hlb : ∀ x, t1.lb x = t.lb x := fun x => by unfold lb bnd; rw [hbs]
    have hub : ∀ x, t1.ub x = t.ub x := fun x => by unfold ub bnd; rw [hbs]
    have htab : t1.tableau = t.tableau := by
      rcases newVarLin_sound ht hl hlv h with h1 | h2
      · exact h1.1
      · have := h2.2.1; rw [hvs] at this; omega
    obtain ⟨n1, -⟩ := newVarLin_sem ht si hl hlv h
    refine ⟨?_, ?_, ?_, ?_⟩
    · intro x hx
      rw [hlb, hub]; exact hb x (hvs ▸ hx)
    · rw [hlb]; exact (hb slack hlt).1
    · rw [hub]; exact (hb slack hlt).2
    · intro σ hσ hin
      rw [hlb, hub, ← (n1 σ ((rowsS_congr htab σ).2 hσ)).2]
      exact hin slack hlt
  · -- a new slack variable
    have hnew : t1.vals.length = t.vals.length + 1 := by
      rw [hvs, List.length_set, List.length_append]; rfl
    obtain ⟨-, hlb, hub⟩ := newVarLin_new_bounds h hnew ri.bounds_len hv
    have hlo : LowOK (t1.lb slack) := hlb ▸ lbLin_ok_s hb s1 hnz hv
    have hup : UpOK (t1.ub slack) := hub ▸ ubLin_ok_s hb s1 hnz hv
    refine ⟨?_, hlo, hup, ?_⟩
    · intro x hx
      by_cases hxs : x = slack
      · rw [hxs]; exact ⟨hlo, hup⟩
      · have hx' : x < t.vals.length := by omega
        have h1 := newVarLin_bnd h (Nat.le_of_eq ri.bounds_len) (lbIdx x) (by rw [ri.bounds_len]; unfold lbIdx; omega)
        have h2 := newVarLin_bnd h (Nat.le_of_eq ri.bounds_len) (ubIdx x) (by rw [ri.bounds_len]; unfold ubIdx; omega)
        unfold lb ub
        rw [h1, h2]
        exact hb x hx'
    · intro σ hσ hin
      rw [hlb, hub, ← s2 σ hσ]
      exact ⟨lbLin_below hb s1 hnz hv hin, ubLin_above hb s1 hnz hv hin⟩

/-! ## the bounds stay canonical -/

theorem BndWF.init : BndWF Lra.init := fun _ hx => absurd hx (Nat.not_lt_zero _)

theorem BndWF.newVar {t : Lra} (hb : BndWF t) (hB : t.bounds.length = 2 * t.vals.length) : BndWF t.newVar.2 := by
  intro x hx
  have hx' : x < t.vals.length + 1 := by
    have : t.newVar.2.vals.length = t.vals.length + 1 := by
      show (t.vals ++ [_]).length = _
      rw [List.length_append]; rfl
    omega
  by_cases hxs : x = t.vals.length
  · subst hxs
    have h1 : t.newVar.2.lb t.vals.length = IR.ofR R.ninf := by
      show ((t.bounds ++ _).getD _ _).value = _
      simp [lbIdx, hB, List.getD_eq_getElem?_getD]
    have h2 : t.newVar.2.ub t.vals.length = IR.ofR R.pinf := by
      show ((t.bounds ++ _).getD _ _).value = _
      simp [ubIdx, hB, List.getD_eq_getElem?_getD]
    rw [h1, h2]
    exact ⟨⟨R.finWF_zero, Or.inr rfl⟩, ⟨R.finWF_zero, Or.inr rfl⟩⟩
  · have hlt : x < t.vals.length := by omega
    have h1 : t.newVar.2.lb x = t.lb x := by
      show ((t.bounds ++ _).getD _ _).value = _
      rw [getD_append_left _ _ _ _ (by unfold lbIdx; omega)]; rfl
    have h2 : t.newVar.2.ub x = t.ub x := by
      show ((t.bounds ++ _).getD _ _).value = _
      rw [getD_append_left _ _ _ _ (by unfold ubIdx; omega)]; rfl
    rw [h1, h2]
    exact hb x hlt

/-! ## a constant answer is sound -/

theorem simpleC_finIR {c : IR} (h : SimpleC c) : FinIR_s c := by
  refine ⟨h.1, ?_⟩
  rcases h.2 with h | h | h <;> rw [h]
  · exact R.finWF_zero
  · exact ⟨by decide, by decide⟩
  · exact ⟨by decide, by decide⟩

/-- the test `sat?` of `newRel` on an interval that contains `y` -/
theorem relSat_sound {up : Bool} {c lo hi : IR} {l : Lit} (hc : FinIR_s c) (hlo : LowOK lo) (hhi : UpOK hi) {y : Rat}
    (h1 : IRBelow lo y) (h2 : IRAbove hi y) (h : relSat up c lo hi = some l) :
    (l = Lit.trueLit → if up then IRAbove c y else IRBelow c y) ∧
    (l = Lit.falseLit → ¬ (if up then IRAbove c y else IRBelow c y)) := by
  have hne : Lit.trueLit ≠ Lit.falseLit := by decide
  rcases relSat_some h with ⟨hu, hl, hx⟩ | ⟨hu, hl, hx⟩ | ⟨hu, hl, hx⟩ | ⟨hu, hl, hx⟩ <;> subst hu hl
  · exact ⟨fun _ => above_of_le hhi hc hx h2, fun hf => absurd hf hne⟩
  · exact ⟨fun hf => absurd hf.symm hne, fun _ => not_above_of_gt hlo hc hx h1⟩
  · exact ⟨fun _ => below_of_ge hlo hc hx h1, fun hf => absurd hf hne⟩
  · exact ⟨fun hf => absurd hf.symm hne, fun _ => not_below_of_lt hhi hc hx h2⟩

/-- TARGET 2.  A constant answer of `newRel`: TRUE only if the relation holds for every solution of the tableau
    within the bounds, FALSE only if it holds for none. -/
theorem newRel_constant_sound {s : Sat} {t : Lra} {r : LRel} {left right : Lin} {l : Lit} {s' : Sat} {t' : Lra}
    {b : Option Nat} (ht : TabWF t) (ri : RelInv s t) (si : SemInv t) (hb : BndWF t) (hl : left.WF) (hr : right.WF)
    (hlv : ∀ p ∈ left.vars, p.1 < t.vals.length) (hrv : ∀ p ∈ right.vars, p.1 < t.vals.length)
    (hnz : NoZero (relE t left right)) (h : newRel s t r left right = some (l, s', t', b)) :
    (l = Lit.trueLit → ∀ σ, RowsS t σ → InBounds t σ → RelHolds r (Lin.evalS left σ) (Lin.evalS right σ)) ∧
    (l = Lit.falseLit → ∀ σ, RowsS t σ → InBounds t σ → ¬ RelHolds r (Lin.evalS left σ) (Lin.evalS right σ)) := by
  obtain ⟨e1, e2, e3, e4⟩ := relE_spec ht hl hr hlv hrv
  have hc := simpleC_finIR (relC_simple (t := t) r (left := left) (right := right) e3)
  -- from an interval of the rewritten difference to the relation
  have key : ∀ {lo hi : IR}, LowOK lo → UpOK hi →
      (∀ σ, RowsS t σ → InBounds t σ → IRBelow lo (Lin.evalS (relE t left right) σ) ∧
        IRAbove hi (Lin.evalS (relE t left right) σ)) →
      relSat (relUp r) (relC t r left right) lo hi = some l →
      (l = Lit.trueLit → ∀ σ, RowsS t σ → InBounds t σ → RelHolds r (Lin.evalS left σ) (Lin.evalS right σ)) ∧
      (l = Lit.falseLit → ∀ σ, RowsS t σ → InBounds t σ → ¬ RelHolds r (Lin.evalS left σ) (Lin.evalS right σ)) := by
    intro lo hi hlo hhi hin h0
    constructor
    · intro hlt σ hσ hσb
      obtain ⟨b1, b2⟩ := hin σ hσ hσb
      have := (relSat_sound hc hlo hhi b1 b2 h0).1 hlt
      rw [e4 σ hσ] at this
      exact (relC_means r e3 _ _).1 this
    · intro hlf σ hσ hσb
      obtain ⟨b1, b2⟩ := hin σ hσ hσb
      have := (relSat_sound hc hlo hhi b1 b2 h0).2 hlf
      rw [e4 σ hσ] at this
      exact fun hrel => this ((relC_means r e3 _ _).2 hrel)
  cases newRel_outcome h with
  | decidedExpr h0 hs' ht' hb' =>
    exact key (lbLin_ok_s hb e1 hnz e2) (ubLin_ok_s hb e1 hnz e2)
      (fun σ _ hσb => ⟨lbLin_below hb e1 hnz e2 hσb, ubLin_above hb e1 hnz e2 hσb⟩) h0
  | decidedSlack slack h0 hv h1 hs' hb' =>
    have hnz' : NoZero (substBasic t (relE t left right)) := by rw [relE_subst_id ht hl hr]; exact hnz
    obtain ⟨-, b2, b3, b4⟩ := newVarLin_slack_bounds ht ri si hb e1 hnz' e2 hv
    exact key b2 b3 b4 h1
  | cached slack h0 hv h1 hf hs' hb' =>
    obtain ⟨e0, he0, hl0⟩ := findKey_some_mem hf
    have := ri.sAsrts_nonconst e0 ((newVarLin_spec hv).1 ▸ he0)
    rw [hl0] at this
    exact ⟨fun hc' => absurd hc' this.1, fun hc' => absurd hc' this.2⟩
  | fresh slack t1 h0 hv h1 hf hl' hs' ht' hb' =>
    constructor
    · intro hc'
      have h2 : true = false := by rw [hl'] at hc'; exact congrArg Lit.sign hc'
      cases h2
    · intro hc'
      have h2 : s.nvars = 0 := by rw [hl'] at hc'; exact congrArg Lit.var hc'
      have := ri.nvars_pos
      omega

/-- `newRel` keeps the bounds canonical -/
theorem BndWF.newRel {s : Sat} {t : Lra} {r : LRel} {left right : Lin} {l : Lit} {s' : Sat} {t' : Lra}
    {b : Option Nat} (ht : TabWF t) (ri : RelInv s t) (si : SemInv t) (hb : BndWF t) (hl : left.WF) (hr : right.WF)
    (hlv : ∀ p ∈ left.vars, p.1 < t.vals.length) (hrv : ∀ p ∈ right.vars, p.1 < t.vals.length)
    (hnz : NoZero (relE t left right)) (h : newRel s t r left right = some (l, s', t', b)) : BndWF t' := by
  obtain ⟨e1, e2, -, -⟩ := relE_spec ht hl hr hlv hrv
  have hnz' : NoZero (substBasic t (relE t left right)) := by rw [relE_subst_id ht hl hr]; exact hnz
  cases newRel_outcome h with
  | decidedExpr h0 hs' ht' hb' => subst ht'; exact hb
  | decidedSlack slack h0 hv h1 hs' hb' => exact (newVarLin_slack_bounds ht ri si hb e1 hnz' e2 hv).1
  | cached slack h0 hv h1 hf hs' hb' => exact (newVarLin_slack_bounds ht ri si hb e1 hnz' e2 hv).1
  | fresh slack t1 h0 hv h1 hf hl' hs' ht' hb' =>
    subst ht'
    exact (newVarLin_slack_bounds ht ri si hb e1 hnz' e2 hv).1

end Lra
end Oratio
