/-
Pretty-printer of RIDDLE expression trees to token lists, well-formedness of trees, and the
side conditions on the token that follows an expression (property C16, parser part).
-/
import OratioModel.Riddle.Parser

namespace Oratio.Riddle

/-! ### operators and their tokens -/

def UOp.sym : UOp → Sym
  | .plus => .PLUS | .minus => .MINUS | .not => .BANG

def BOp.sym : BOp → Sym
  | .eq => .EQEQ | .neq => .BANGEQ | .lt => .LT | .leq => .LTEQ | .geq => .GTEQ | .gt => .GT | .impl => .IMPLICATION

def NOp.sym : NOp → Sym
  | .disj => .BAR | .conj => .AMP | .xor => .CARET | .add => .PLUS | .sub => .MINUS | .mul => .STAR | .div => .SLASH

/-- the level at which `_expression(pr)` accepts the operator (`level ≥ pr`) -/
def BOp.level : BOp → Nat
  | .eq | .neq => 0
  | _ => 1

def NOp.level : NOp → Nat
  | .disj | .conj | .xor => 1
  | .add | .sub => 2
  | .mul | .div => 3

theorem opInfo_bop (op : BOp) : opInfo op.sym = some (.bin op, op.level) := by cases op <;> rfl
theorem opInfo_nop (op : NOp) : opInfo op.sym = some (.nary op, op.level) := by cases op <;> rfl

/-- level of the top operator of a tree: 0 `== !=` (and casts, which extend as far to the right
    as possible), 1 relational / implication / `| & ^`, 2 `+ -`, 3 `* /`, 4 everything else -/
def Expr.level : Expr → Nat
  | .bin op _ _ => op.level
  | .nary op _ => op.level
  | .cast _ _ => 0
  | _ => 4

def Expr.isCast : Expr → Bool
  | .cast _ _ => true
  | _ => false

def Expr.isId : Expr → Bool
  | .id _ => true
  | _ => false

/-- is the tree an n-ary node with this operator -/
def Expr.isNary (op : NOp) : Expr → Bool
  | .nary op' _ => op == op'
  | _ => false

/-! ### printing -/

/-- `'.' ID` repeated -/
def dotToks : List Name → List Tok
  | [] => []
  | n :: ns => .sym .DOT :: .id n :: dotToks ns

/-- `ID {'.' ID}` -/
def qidToks : QId → List Tok
  | [] => []
  | n :: ns => .id n :: dotToks ns

def paren (ts : List Tok) : List Tok := .sym .LPAREN :: ts ++ [.sym .RPAREN]

/-- parenthesise when `b` -/
def wrap (b : Bool) (ts : List Tok) : List Tok := if b then paren ts else ts

mutual
/-- the tokens of a tree, without enclosing parentheses -/
def printE : Expr → List Tok
  | .bool b => [.bool b]
  | .int n => [.int n]
  | .real r => [.real r]
  | .str s => [.str s]
  -- the operand of a cast must begin like an operand (else the parser reads a parenthesis)
  | .cast tp e => .sym .LPAREN :: qidToks tp ++ .sym .RPAREN :: wrap (!operandStart (printE e)) (printE e)
  | .un op e => .sym op.sym :: wrap (decide (e.level < 4)) (printE e)
  | .ctor tp args => .sym .NEW :: qidToks tp ++ .sym .LPAREN :: printArgs args ++ [.sym .RPAREN]
  -- left operand: parenthesised when it binds less tightly, and when it is a cast
  | .bin op l r =>
    wrap (decide (l.level < op.level) || l.isCast) (printE l) ++ .sym op.sym :: wrap (decide (r.level < op.level + 1)) (printE r)
  | .call ids fn args => qidToks (ids ++ [fn]) ++ .sym .LPAREN :: printArgs args ++ [.sym .RPAREN]
  | .id ids => qidToks ids
  -- first operand: as a left operand, and parenthesised when it is the same n-ary operator
  | .nary _ [] => []
  | .nary op (e :: es) =>
    wrap (decide (e.level < op.level) || e.isCast || e.isNary op) (printE e) ++ printTail op es
/-- `e1, e2, …` -/
def printArgs : List Expr → List Tok
  | [] => []
  | [e] => printE e
  | e :: es => printE e ++ .sym .COMMA :: printArgs es
/-- `op e2 op e3 …` -/
def printTail (op : NOp) : List Expr → List Tok
  | [] => []
  | e :: es => .sym op.sym :: wrap (decide (e.level < op.level + 1)) (printE e) ++ printTail op es
end

/-- operand position of level `p`: parenthesise iff the tree binds less tightly -/
def printP (p : Nat) (e : Expr) : List Tok := wrap (decide (e.level < p)) (printE e)

/-- the printer of the round-trip theorem: no enclosing parentheses -/
def printExpr (e : Expr) : List Tok := printE e

/-! ### well-formed trees: what the parser can build -/

mutual
def Expr.WF : Expr → Prop
  | .cast tp e => tp ≠ [] ∧ e.WF
  | .un _ e => e.WF
  | .ctor tp args => tp ≠ [] ∧ WFs args
  | .bin _ l r => l.WF ∧ r.WF
  | .call _ _ args => WFs args
  | .id ids => ids ≠ []
  | .nary _ es => 2 ≤ es.length ∧ WFs es
  | _ => True
def WFs : List Expr → Prop
  | [] => True
  | e :: es => e.WF ∧ WFs es
end

end Oratio.Riddle
