/-
C07N, difference logic: one call of `propagate(lit)` of IDL / RDL under the invariants
`Net.IdlBase` / `Net.RdlBase` (instances of C10X / C10XR).
-/
import OratioProofs.Lemmas.NetSoundDefs

namespace Oratio
namespace Net

/-! ### `dist_constr` stays sorted -/

section sorted
variable {α : Type} (O : DOps α)

theorem setDist_dc (t : Dl α) (i j : Nat) (x : α) : (Dl.setDist O t i j x).distConstr = t.distConstr := by
  unfold Dl.setDist
  cases t.layers with
  | nil => rfl
  | cons l ls => dsimp only; split <;> rfl

theorem setPred_dc (t : Dl α) (i j : Nat) (x : Nat) : (Dl.setPred t i j x).distConstr = t.distConstr := by
  unfold Dl.setPred
  cases t.layers with
  | nil => rfl
  | cons l ls => dsimp only; split <;> rfl

theorem saveConstr_dc (t : Dl α) (k : Nat × Nat) : (Dl.saveConstr t k).distConstr = t.distConstr := by
  unfold Dl.saveConstr
  cases t.layers with
  | nil => rfl
  | cons l ls => dsimp only; split <;> rfl

theorem propagateEdge_sorted (s : Sat) (t : Dl α) (a b : Nat) (x : α) (h : Undo.SortedK t.distConstr) :
    Undo.SortedK (Dl.propagateEdge O s t a b x).2.distConstr :=
  Undo.propagateEdge_pres O (fun t' => Undo.SortedK t'.distConstr)
    (fun t' i j x h => by rw [setDist_dc]; exact h) (fun t' i j x h => by rw [setPred_dc]; exact h) s t a b x h

theorem propagateLit_sorted {s : Sat} {t : Dl α} (h : Undo.SortedK t.distConstr) (pl : Lit) {s' : Sat} {t' : Dl α}
    (he : Dl.propagateLit O s t pl = .inr (s', t')) : Undo.SortedK t'.distConstr := by
  unfold Dl.propagateLit at he
  split at he
  · cases he; exact h
  · rename_i c hc
    split at he
    · split at he
      · cases he
      · split at he
        · cases he
          refine propagateEdge_sorted O s _ _ _ _ ?_
          show Undo.SortedK (Dl.assignPair (Dl.saveConstr t (c.src, c.dst)).distConstr _ _)
          rw [saveConstr_dc]
          exact Undo.sorted_assign h _ _
        · cases he; exact h
    · split at he
      · cases he
      · split at he
        · cases he
          refine propagateEdge_sorted O s _ _ _ _ ?_
          show Undo.SortedK (Dl.assignPair (Dl.saveConstr t (c.dst, c.src)).distConstr _ _)
          rw [saveConstr_dc]
          exact Undo.sorted_assign h _ _
        · cases he; exact h
    · cases he; exact h

theorem setDist_nv (t : Dl α) (i j : Nat) (x : α) : (Dl.setDist O t i j x).nVars = t.nVars := by
  unfold Dl.setDist
  cases t.layers with
  | nil => rfl
  | cons l ls => dsimp only; split <;> rfl

theorem setPred_nv (t : Dl α) (i j : Nat) (x : Nat) : (Dl.setPred t i j x).nVars = t.nVars := by
  unfold Dl.setPred
  cases t.layers with
  | nil => rfl
  | cons l ls => dsimp only; split <;> rfl

theorem saveConstr_nv (t : Dl α) (k : Nat × Nat) : (Dl.saveConstr t k).nVars = t.nVars := by
  unfold Dl.saveConstr
  cases t.layers with
  | nil => rfl
  | cons l ls => dsimp only; split <;> rfl

theorem propagateEdge_nv (s : Sat) (t : Dl α) (a b : Nat) (x : α) :
    (Dl.propagateEdge O s t a b x).2.nVars = t.nVars :=
  Undo.propagateEdge_pres O (fun t' => t'.nVars = t.nVars)
    (fun t' i j x h => by rw [setDist_nv]; exact h) (fun t' i j x h => by rw [setPred_nv]; exact h) s t a b x rfl

theorem propagateLit_nVars {s : Sat} {t : Dl α} (pl : Lit) {s' : Sat} {t' : Dl α}
    (he : Dl.propagateLit O s t pl = .inr (s', t')) : t'.nVars = t.nVars := by
  unfold Dl.propagateLit at he
  split at he
  · cases he; rfl
  · rename_i c hc
    split at he
    · split at he
      · cases he
      · split at he
        · cases he
          refine (propagateEdge_nv O s _ _ _ _).trans ?_
          show (Dl.saveConstr t (c.src, c.dst)).nVars = _
          rw [saveConstr_nv]
        · cases he; rfl
    · split at he
      · cases he
      · split at he
        · cases he
          refine (propagateEdge_nv O s _ _ _ _).trans ?_
          show (Dl.saveConstr t (c.dst, c.src)).nVars = _
          rw [saveConstr_nv]
        · cases he; rfl
    · cases he; rfl

theorem propagateLit_none {s : Sat} {t : Dl α} {pl : Lit} (h : t.constrOf pl.var = none) :
    Dl.propagateLit O s t pl = .inr (s, t) := by
  unfold Dl.propagateLit
  rw [h]

end sorted

theorem lit_eta (p : Lit) : (⟨p.var, p.sign⟩ : Lit) = p := rfl

/-! ### IDL -/

/-- result of one theory call on `(s, t)`: a conflict clause all of whose literals are false and
    which is valid (`V`), or new states with more SAT values, the same atoms, and a log extended by
    valid clauses -/
theorem idl_propagate {s : Sat} {t : Dl Int} (h : IdlBase s t) (p : Lit) (hp : s.value p = some true) :
    match Dl.propagateLit idlOps s t p with
    | .inl cl => (∀ l ∈ cl, s.value l = some false) ∧ ∀ σ α, Dl.Agrees t σ α → α.clause cl = true
    | .inr (s', t') =>
      IdlBase s' t' ∧ Dl.SatLe s s' ∧ t'.varDists = t.varDists ∧
      (∀ B, Undo.Lg idlOps B t → Undo.Lg idlOps B t') ∧
      ∃ new, s'.log = s.log ++ new ∧ ∀ cl ∈ new, ∀ σ α, Dl.Agrees t σ α → α.clause cl = true := by
  cases hc : t.constrOf p.var with
  | none =>
    rw [propagateLit_none idlOps hc]
    exact ⟨h, Dl.SatLe.refl s, rfl, fun _ hB => hB, [], by simp, fun _ hcl => by cases hcl⟩
  | some c =>
    obtain ⟨K, E, hE, hok⟩ := h.exact
    obtain ⟨hmem, hb⟩ := Dl.constrOf_spec hc
    have hr := hok c hmem
    have hv : s.value ⟨c.b, true⟩ = some p.sign := by rw [hb]; exact Lra.value_of_var hp
    have hc' : t.constrOf c.b = some c := by rw [hb]; exact hc
    have hpe : (⟨c.b, p.sign⟩ : Lit) = p := by rw [hb]
    cases hres : Dl.propagateLit idlOps s t p with
    | inl cl =>
      simp only
      exact C10X_conflict_clause_valid K E s t hE h.path c hc' p.sign hv hr cl (by rw [hpe]; exact hres)
    | inr r =>
      obtain ⟨s', t'⟩ := r
      simp only
      have hres' : Dl.propagateLit idlOps s t ⟨c.b, p.sign⟩ = .inr (s', t') := by rw [hpe]; exact hres
      obtain ⟨q1, q2, q3, q4⟩ := C10X_propagate_pathinv K E s s' t t' hE h.path c hc' p.sign hv hr hres'
      obtain ⟨new, n1, n2⟩ := C10X_recorded_clause_valid K E s s' t t' hE h.path hok c hc' p.sign hv hres'
      refine ⟨⟨⟨K, _, q2, ?_⟩, q1, propagateLit_sorted idlOps h.sorted p hres⟩, q3, q4,
        fun B hB => Undo.Lg_propagateLit idlOps hB s p hres, new, n1, fun cl hcl σ α ha => (n2 cl hcl).1 σ α ha⟩
      intro c' hc'm
      rw [q4] at hc'm
      have := hok c' hc'm
      rw [propagateLit_nVars idlOps p hres]; exact this

/-! ### RDL -/

theorem rdl_propagate {s : Sat} {t : Dl IR} (h : RdlBase s t) (p : Lit) (hp : s.value p = some true) :
    match Dl.propagateLit rdlOps s t p with
    | .inl cl => (∀ l ∈ cl, s.value l = some false) ∧ ∀ σ α, DlR.AgreesR t σ α → α.clause cl = true
    | .inr (s', t') =>
      RdlBase s' t' ∧ Dl.SatLe s s' ∧ t'.varDists = t.varDists ∧
      (∀ B, Undo.Lg rdlOps B t → Undo.Lg rdlOps B t') ∧
      ∃ new, s'.log = s.log ++ new ∧ ∀ cl ∈ new, ∀ σ α, DlR.AgreesR t σ α → α.clause cl = true := by
  cases hc : t.constrOf p.var with
  | none =>
    rw [propagateLit_none rdlOps hc]
    exact ⟨h, Dl.SatLe.refl s, rfl, fun _ hB => hB, [], by simp, fun _ hcl => by cases hcl⟩
  | some c =>
    obtain ⟨E, hE⟩ := h.exact
    have hok := h.ok
    obtain ⟨hmem, hb⟩ := DlR.constrOfR_spec hc
    have hr := hok c hmem
    have hv : s.value ⟨c.b, true⟩ = some p.sign := by rw [hb]; exact Lra.value_of_var hp
    have hc' : t.constrOf c.b = some c := by rw [hb]; exact hc
    have hpe : (⟨c.b, p.sign⟩ : Lit) = p := by rw [hb]
    cases hres : Dl.propagateLit rdlOps s t p with
    | inl cl =>
      simp only
      exact C10XR_conflict_clause_valid E s t hE h.path c hc' p.sign hv hr cl (by rw [hpe]; exact hres)
    | inr r =>
      obtain ⟨s', t'⟩ := r
      simp only
      have hres' : Dl.propagateLit rdlOps s t ⟨c.b, p.sign⟩ = .inr (s', t') := by rw [hpe]; exact hres
      obtain ⟨q1, q2, q3, q4⟩ := C10XR_propagate_pathinv E s s' t t' hE h.path c hc' p.sign hv hr
        (fun _ => ⟨h.epsC c hmem, h.eps _ _, h.eps _ _⟩) hres'
      obtain ⟨new, n1, n2⟩ := C10XR_recorded_clause_valid E s s' t t' hE h.path hok c hc' p.sign hv
        (fun _ => ⟨h.epsC c hmem, h.eps _ _⟩) hres'
      refine ⟨⟨⟨_, q2⟩, ?_, q1, propagateLit_sorted rdlOps h.sorted p hres, ?_, ?_⟩, q3, q4,
        fun B hB => Undo.Lg_propagateLit rdlOps hB s p hres, new, n1, fun cl hcl σ α ha => (n2 cl hcl).1 σ α ha⟩
      · intro c' hc'm
        rw [q4] at hc'm
        have := hok c' hc'm
        rw [propagateLit_nVars rdlOps p hres]; exact this
      · exact C10R_epsInt_propagate s s' t t' p h.eps
          (fun c0 hc0 => h.epsC c0 (DlR.constrOfR_spec hc0).1) hres
      · intro c' hc'm
        rw [q4] at hc'm
        exact h.epsC c' hc'm

end Net
end Oratio
