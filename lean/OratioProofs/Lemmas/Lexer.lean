/-
Helper lemmas about the model of `riddle::lexer` (property C16, lexical part): character codes,
`takeRun`, the identifier / number / white-space / comment branches of `nextTok`.
-/
import OratioModel
namespace Oratio
namespace Riddle

/-! ## character codes -/
theorem ch_48 : ch '0' = 48 := rfl
theorem ch_57 : ch '9' = 57 := rfl
theorem ch_95 : ch '_' = 95 := rfl
theorem ch_97 : ch 'a' = 97 := rfl
theorem ch_122 : ch 'z' = 122 := rfl
theorem ch_65 : ch 'A' = 65 := rfl
theorem ch_90 : ch 'Z' = 90 := rfl
theorem ch_32 : ch ' ' = 32 := rfl
theorem ch_9 : ch '\t' = 9 := rfl
theorem ch_13 : ch '\r' = 13 := rfl
theorem ch_10 : ch '\n' = 10 := rfl
theorem ch_34 : ch '\"' = 34 := rfl
theorem ch_92 : ch '\\' = 92 := rfl
theorem ch_47 : ch '/' = 47 := rfl
theorem ch_42 : ch '*' = 42 := rfl
theorem ch_61 : ch '=' = 61 := rfl
theorem ch_62 : ch '>' = 62 := rfl
theorem ch_60 : ch '<' = 60 := rfl
theorem ch_43 : ch '+' = 43 := rfl
theorem ch_45 : ch '-' = 45 := rfl
theorem ch_124 : ch '|' = 124 := rfl
theorem ch_38 : ch '&' = 38 := rfl
theorem ch_94 : ch '^' = 94 := rfl
theorem ch_33 : ch '!' = 33 := rfl
theorem ch_46 : ch '.' = 46 := rfl
theorem ch_44 : ch ',' = 44 := rfl
theorem ch_59 : ch ';' = 59 := rfl
theorem ch_58 : ch ':' = 58 := rfl
theorem ch_40 : ch '(' = 40 := rfl
theorem ch_41 : ch ')' = 41 := rfl
theorem ch_91 : ch '[' = 91 := rfl
theorem ch_93 : ch ']' = 93 := rfl
theorem ch_123 : ch '{' = 123 := rfl
theorem ch_125 : ch '}' = 125 := rfl

theorem isDigit_iff {c : Int} : isDigit c = true ↔ 48 ≤ c ∧ c ≤ 57 := by
  simp only [isDigit, Bool.and_eq_true, decide_eq_true_eq]
  simp only [ch_48, ch_57]
theorem isDigit_false_iff {c : Int} : isDigit c = false ↔ ¬ (48 ≤ c ∧ c ≤ 57) := by
  rw [← isDigit_iff]; simp
theorem isIdStart_iff {c : Int} : isIdStart c = true ↔ (c = 95 ∨ (97 ≤ c ∧ c ≤ 122) ∨ (65 ≤ c ∧ c ≤ 90)) := by
  simp only [isIdStart, Bool.or_eq_true, Bool.and_eq_true, decide_eq_true_eq, beq_iff_eq]
  simp only [ch_95, ch_97, ch_122, ch_65, ch_90, or_assoc]
theorem isIdPart_iff {c : Int} : isIdPart c = true ↔ (c = 95 ∨ (97 ≤ c ∧ c ≤ 122) ∨ (65 ≤ c ∧ c ≤ 90) ∨ (48 ≤ c ∧ c ≤ 57)) := by
  simp only [isIdPart, isDigit, Bool.or_eq_true, Bool.and_eq_true, decide_eq_true_eq, beq_iff_eq]
  simp only [ch_95, ch_97, ch_122, ch_65, ch_90, ch_48, ch_57, or_assoc]
theorem isSpace_iff {c : Int} : isSpace c = true ↔ (c = 32 ∨ c = 9 ∨ c = 13 ∨ c = 10) := by
  simp only [isSpace, Bool.or_eq_true, beq_iff_eq, ch_32, ch_9, ch_13, ch_10, or_assoc]
theorem isSpace_false_iff {c : Int} : isSpace c = false ↔ ¬ (c = 32 ∨ c = 9 ∨ c = 13 ∨ c = 10) := by
  rw [← isSpace_iff]; simp

/-! ## takeRun -/

theorem takeRun_append (p : Int → Bool) (w : List Int) (rest : Stream)
    (hall : ∀ c ∈ w, p c = true) (hr : p (cur rest) = false) :
    takeRun p (w ++ rest) = (w, rest) := by
  induction w with
  | nil =>
    cases rest with
    | nil => simp [takeRun]
    | cons d r =>
      have : p d = false := by simpa [cur] using hr
      simp [takeRun, this]
  | cons c w ih =>
    have hc : p c = true := hall c (by simp)
    have := ih (fun c hc => hall c (by simp [hc]))
    simp only [List.cons_append, takeRun, hc, if_true, this]

theorem takeRun_length (p : Int → Bool) (s : Stream) :
    (takeRun p s).1.length + (takeRun p s).2.length = s.length := by
  induction s with
  | nil => simp [takeRun]
  | cons c r ih =>
    by_cases hc : p c = true
    · simp only [takeRun, hc, if_true, List.length_cons]; omega
    · simp [takeRun, hc]

theorem takeRun_snd_length_le (p : Int → Bool) (s : Stream) : (takeRun p s).2.length ≤ s.length := by
  have := takeRun_length p s; omega

theorem takeRun_snd_length_lt (p : Int → Bool) (c : Int) (r : Stream) (h : p c = true) :
    (takeRun p (c :: r)).2.length ≤ r.length := by
  simp only [takeRun, h, if_true]
  exact takeRun_snd_length_le p r

theorem nextTok_idStart (c : Int) (r : Stream) (n : Nat) (h : isIdStart c = true) :
    nextTok (n+1) (c :: r) = .ok (wordTok (takeRun isIdPart (c::r)).1, (takeRun isIdPart (c::r)).2) := by
  have hc := isIdStart_iff.1 h
  have hs : isSpace c = false := by rw [isSpace_false_iff]; omega
  have hd : isDigit c = false := by rw [isDigit_false_iff]; omega
  unfold nextTok
  simp only [hs, hd, h, ch_34, ch_47, ch_42, ch_61, ch_62, ch_60, ch_43, ch_45, ch_124, ch_38, ch_94, ch_33, ch_46, ch_44,
    ch_59, ch_58, ch_40, ch_41, ch_91, ch_93, ch_123, ch_125, beq_iff_eq]
  repeat (rw [if_neg (by first | omega | decide)])

  simp

theorem nextTok_digit (c : Int) (r : Stream) (n : Nat) (h : isDigit c = true) :
    nextTok (n+1) (c :: r) = lexNumber (c :: r) := by
  have hc := isDigit_iff.1 h
  have hs : isSpace c = false := by rw [isSpace_false_iff]; omega
  unfold nextTok
  simp only [hs, h, ch_34, ch_47, ch_42, ch_61, ch_62, ch_60, ch_43, ch_45, ch_124, ch_38, ch_94, ch_33, ch_46, ch_44,
    ch_59, ch_58, ch_40, ch_41, ch_91, ch_93, ch_123, ch_125, beq_iff_eq]
  repeat (rw [if_neg (by first | omega | decide)])
  simp

theorem nextTok_ident (w : List Int) (rest : Stream) (n : Nat)
    (hw : w ≠ []) (h0 : isIdStart (w.headD 0) = true) (hall : ∀ c ∈ w, isIdPart c = true)
    (hr : isIdPart (cur rest) = false) :
    nextTok (n + 1) (w ++ rest) = .ok (wordTok w, rest) := by
  cases w with
  | nil => exact absurd rfl hw
  | cons c w' =>
    have h0' : isIdStart c = true := by simpa using h0
    rw [List.cons_append, nextTok_idStart c _ n h0', ← List.cons_append, takeRun_append isIdPart _ _ hall hr]

theorem wordTok_id (w : List Int) (h : ∀ k ∈ keywords, strInts k.1 ≠ w) : wordTok w = .id w := by
  unfold wordTok
  have : keywords.find? (fun k => strInts k.1 == w) = none := by
    rw [List.find?_eq_none]
    intro k hk
    simpa using h k hk
  rw [this]

theorem digitsVal_snoc (ds : List Int) (d : Int) : digitsVal (ds ++ [d]) = digitsVal ds * 10 + (d - ch '0') := by
  simp [digitsVal, List.foldl_append]

theorem lexNumber_int (ds : List Int) (rest : Stream)
    (hall : ∀ c ∈ ds, isDigit c = true)
    (hr : isDigit (cur rest) = false) (hdot : cur rest ≠ ch '.') (hfit : digitsVal ds ≤ longMax) :
    lexNumber (ds ++ rest) = .ok (.int (digitsVal ds), rest) := by
  unfold lexNumber
  rw [takeRun_append isDigit _ _ hall hr]
  simp only [beq_iff_eq, hdot, if_false]
  rw [if_neg (by omega)]

theorem nextTok_int (ds : List Int) (rest : Stream) (n : Nat)
    (hd : ds ≠ []) (hall : ∀ c ∈ ds, isDigit c = true)
    (hr : isDigit (cur rest) = false) (hdot : cur rest ≠ ch '.') (hfit : digitsVal ds ≤ longMax) :
    nextTok (n + 1) (ds ++ rest) = .ok (.int (digitsVal ds), rest) := by
  cases ds with
  | nil => exact absurd rfl hd
  | cons c ds' =>
    rw [List.cons_append, nextTok_digit c _ n (hall c (by simp)), ← List.cons_append]
    exact lexNumber_int _ _ hall hr hdot hfit

theorem lexNumber_real (i d : List Int) (rest : Stream)
    (halli : ∀ c ∈ i, isDigit c = true) (halld : ∀ c ∈ d, isDigit c = true)
    (hr : isDigit (cur rest) = false) (hdot : cur rest ≠ ch '.') (hlen : d.length ≤ 18)
    (hfit : digitsVal (i ++ d) ≤ longMax) :
    lexNumber (i ++ [ch '.'] ++ d ++ rest) = .ok (.real (R.mk2 (digitsVal (i ++ d)) (10 ^ d.length)), rest) := by
  unfold lexNumber
  have e : i ++ [ch '.'] ++ d ++ rest = i ++ (ch '.' :: (d ++ rest)) := by simp
  rw [e, takeRun_append isDigit i _ halli (by simp [cur, isDigit_false_iff, ch_46])]
  have hc : cur (ch '.' :: (d ++ rest)) = ch '.' := rfl
  simp only [hc, beq_self_eq_true, if_true, List.drop_one, List.tail_cons]
  rw [takeRun_append isDigit d _ halld hr]
  simp only [beq_iff_eq, hdot, if_false]
  rw [if_neg (by omega), if_neg (by omega)]

theorem nextTok_real (i d : List Int) (rest : Stream) (n : Nat)
    (hi : i ≠ []) (halli : ∀ c ∈ i, isDigit c = true) (halld : ∀ c ∈ d, isDigit c = true)
    (hr : isDigit (cur rest) = false) (hdot : cur rest ≠ ch '.') (hlen : d.length ≤ 18)
    (hfit : digitsVal (i ++ d) ≤ longMax) :
    nextTok (n + 1) (i ++ [ch '.'] ++ d ++ rest) = .ok (.real (R.mk2 (digitsVal (i ++ d)) (10 ^ d.length)), rest) := by
  rw [← lexNumber_real i d rest halli halld hr hdot hlen hfit]
  cases i with
  | nil => exact absurd rfl hi
  | cons c i' =>
    simp only [List.cons_append]
    exact nextTok_digit c _ n (halli c (by simp))

/-! ## white space and comments -/

theorem dropWhile_space_append (ws : List Int) (s : Stream)
    (hws : ∀ c ∈ ws, isSpace c = true) (hs : isSpace (cur s) = false) (hne : s ≠ []) :
    (ws ++ s).dropWhile isSpace = s := by
  induction ws with
  | nil =>
    cases s with
    | nil => exact absurd rfl hne
    | cons d r =>
      have : isSpace d = false := by simpa [cur] using hs
      simp [this]
  | cons c ws ih =>
    have hc : isSpace c = true := hws c (by simp)
    simp only [List.cons_append, List.dropWhile, hc]
    exact ih (fun c h => hws c (by simp [h]))

theorem nextTok_space (c : Int) (r : Stream) (n : Nat) (h : isSpace c = true) :
    nextTok (n + 1) (c :: r) =
      (if cur (r.dropWhile isSpace) == -1 then .ok (.sym .EOF, (r.dropWhile isSpace).drop 1)
       else nextTok n (r.dropWhile isSpace)) := by
  have hc := isSpace_iff.1 h
  rw [nextTok]
  simp only [h, if_true]
  rw [if_neg (by simp only [beq_iff_eq]; omega)]

theorem nextTok_whitespace (ws : List Int) (s : Stream) (n : Nat)
    (hws : ∀ c ∈ ws, isSpace c = true) (hs : isSpace (cur s) = false) (hne : s ≠ []) (hc : cur s ≠ -1) :
    nextTok (n + 2) (ws ++ s) = nextTok (n + 1) s ∨ ws = [] := by
  cases ws with
  | nil => exact Or.inr rfl
  | cons c ws' =>
    left
    rw [List.cons_append, nextTok_space c _ (n + 1) (hws c (by simp)),
      dropWhile_space_append ws' s (fun c h => hws c (by simp [h])) hs hne]
    simp only [beq_iff_eq, hc, if_false]

theorem skipLine_body (body : List Int) (s : Stream)
    (hb : ∀ c ∈ body, c ≠ ch '\r' ∧ c ≠ ch '\n' ∧ c ≠ -1) :
    skipLine (body ++ (ch '\n' :: s)) = some (ch '\n' :: s) := by
  induction body with
  | nil => simp [skipLine]
  | cons c b ih =>
    obtain ⟨h1, h2, h3⟩ := hb c (by simp)
    simp only [List.cons_append, skipLine, beq_iff_eq, Bool.or_eq_true, h1, h2, h3, or_self, if_false]
    exact ih (fun c h => hb c (by simp [h]))

theorem nextTok_slash (r : Stream) (n : Nat) :
    nextTok (n + 1) (ch '/' :: r) =
      (if cur r == ch '/' then
          match skipLine (r.drop 1) with
          | none => .ok (.sym .EOF, [])
          | some r' => nextTok n r'
        else if cur r == ch '*' then
          match skipBlock false (r.drop 1) with
          | .ok r' => nextTok n r'
          | .error e => .error e
        else .ok (.sym .SLASH, r)) := by
  rw [nextTok]
  have hs : isSpace (ch '/') = false := by decide
  simp only [hs]
  rw [if_neg (by decide), if_neg (by decide), if_neg (by decide), if_pos (by decide)]
  rfl

theorem nextTok_line_comment (body : List Int) (s : Stream) (n : Nat)
    (hb : ∀ c ∈ body, c ≠ ch '\r' ∧ c ≠ ch '\n' ∧ c ≠ -1) :
    nextTok (n + 2) ([ch '/', ch '/'] ++ body ++ (ch '\n' :: s)) = nextTok (n + 1) (ch '\n' :: s) := by
  have e : [ch '/', ch '/'] ++ body ++ (ch '\n' :: s) = ch '/' :: (ch '/' :: (body ++ (ch '\n' :: s))) := by simp
  rw [e, nextTok_slash]
  have hc : cur (ch '/' :: (body ++ (ch '\n' :: s))) = ch '/' := rfl
  simp only [hc, beq_self_eq_true, if_true, List.drop_one, List.tail_cons, skipLine_body body s hb]

theorem skipBlock_body (body : List Int) (x : Stream) (hb : ∀ c ∈ body, c ≠ ch '*' ∧ c ≠ -1) :
    skipBlock false (body ++ x) = skipBlock false x := by
  induction body with
  | nil => rfl
  | cons c b ih =>
    obtain ⟨h1, h2⟩ := hb c (by simp)
    have h1' : (c == ch '*') = false := by simpa using h1
    simp only [List.cons_append, skipBlock, beq_iff_eq, h2, if_false, Bool.false_and, h1']
    simpa using ih (fun c h => hb c (by simp [h]))

theorem skipBlock_stars (b : Bool) (k : Nat) (s : Stream) :
    skipBlock b (List.replicate (k + 1) (ch '*') ++ (ch '/' :: s)) = .ok s := by
  induction k generalizing b with
  | zero =>
    simp [List.replicate, skipBlock, ch_42, ch_47]
  | succ k ih =>
    have h1 : ¬ (ch '*' = -1) := by decide
    have h2 : (ch '*' == ch '/') = false := by decide
    rw [List.replicate_succ, List.cons_append, skipBlock]
    simp only [beq_iff_eq, h1, if_false, h2, Bool.and_false, beq_self_eq_true]
    exact ih true

theorem nextTok_block_comment (body : List Int) (k : Nat) (s : Stream) (n : Nat)
    (hb : ∀ c ∈ body, c ≠ ch '*' ∧ c ≠ -1) :
    nextTok (n + 2) ([ch '/', ch '*'] ++ body ++ List.replicate (k + 1) (ch '*') ++ (ch '/' :: s)) = nextTok (n + 1) s := by
  have e : [ch '/', ch '*'] ++ body ++ List.replicate (k + 1) (ch '*') ++ (ch '/' :: s)
      = ch '/' :: (ch '*' :: (body ++ (List.replicate (k + 1) (ch '*') ++ (ch '/' :: s)))) := by simp
  rw [e, nextTok_slash]
  have hc : cur (ch '*' :: (body ++ (List.replicate (k + 1) (ch '*') ++ (ch '/' :: s)))) = ch '*' := rfl
  have h2 : (ch '*' == ch '/') = false := by decide
  simp only [hc, h2, beq_self_eq_true, if_true, List.drop_one, List.tail_cons, skipBlock_body body _ hb,
    skipBlock_stars]
  simp

end Riddle
end Oratio
