/-
C07, part 1: the generic constructors `Cons.*` commute with any projection of primitive
records that is a simulation; instantiated at `Sat.prim`, `Enc.prim`, `Sat.toEnc`; and
`Cons.* Enc.prim = Enc.*`.
-/
import OratioModel

namespace Oratio

/-- apply a projection on the state component of a result -/
def pm {α σ τ : Type} (π : σ → τ) (x : α × σ) : α × τ := (x.1, π x.2)

@[simp] theorem pm_mk {α σ τ : Type} (π : σ → τ) (a : α) (s : σ) : pm π (a, s) = (a, π s) := rfl

structure PrimSim {σ τ : Type} (P : Prim σ) (Q : Prim τ) (π : σ → τ) : Prop where
  value : ∀ s l, P.value s l = Q.value (π s) l
  newVar : ∀ s, pm π (P.newVar s) = Q.newVar (π s)
  newClause : ∀ s c, pm π (P.newClause s c) = Q.newClause (π s) c
  lookup : ∀ s k, P.lookup s k = Q.lookup (π s) k
  remember : ∀ s k l, π (P.remember s k l) = Q.remember (π s) k l

namespace PrimSim
variable {σ τ : Type} {P : Prim σ} {Q : Prim τ} {π : σ → τ} (h : PrimSim P Q π)
include h

theorem newVar' (s : σ) : Q.newVar (π s) = ((P.newVar s).1, π (P.newVar s).2) := (h.newVar s).symm
theorem newClause' (s : σ) (c) : Q.newClause (π s) c = ((P.newClause s c).1, π (P.newClause s c).2) :=
  (h.newClause s c).symm

theorem newClauses (s : σ) (cs : List (List Lit)) :
    pm π (Cons.newClauses P s cs) = Cons.newClauses Q (π s) cs := by
  induction cs generalizing s with
  | nil => rfl
  | cons c cs ih =>
    simp only [Cons.newClauses, h.newClause']
    rcases hp : P.newClause s c with ⟨b, s'⟩
    cases b <;> simp [ih]

theorem newClauses' (s : σ) (cs) :
    Cons.newClauses Q (π s) cs = ((Cons.newClauses P s cs).1, π (Cons.newClauses P s cs).2) :=
  (h.newClauses s cs).symm

theorem scanJunct (s : σ) (ab : Bool) (ls : List Lit) (p : Option Lit) (acc : List Lit) :
    Cons.scanJunct P s ab ls p acc = Cons.scanJunct Q (π s) ab ls p acc := by
  induction ls generalizing p acc with
  | nil => rfl
  | cons l ls ih => simp only [Cons.scanJunct, h.value, ih]

theorem scanAfterTrue (s : σ) (ls : List Lit) (p : Option Lit) (acc : List Lit) :
    Cons.scanAfterTrue P s ls p acc = Cons.scanAfterTrue Q (π s) ls p acc := by
  induction ls generalizing p acc with
  | nil => rfl
  | cons l ls ih => simp only [Cons.scanAfterTrue, h.value, ih]

theorem scanCard (s : σ) (ls : List Lit) (p : Option Lit) (acc : List Lit) :
    Cons.scanCard P s ls p acc = Cons.scanCard Q (π s) ls p acc := by
  induction ls generalizing p acc with
  | nil => rfl
  | cons l ls ih => simp only [Cons.scanCard, h.value, ih, h.scanAfterTrue]

theorem newVars (s : σ) (n : Nat) : pm π (Cons.newVars P s n) = Cons.newVars Q (π s) n := by
  induction n generalizing s with
  | zero => rfl
  | succ n ih =>
    simp only [Cons.newVars, h.newVar']
    rw [← ih]
    rfl

theorem newVars' (s : σ) (n) :
    Cons.newVars Q (π s) n = ((Cons.newVars P s n).1, π (Cons.newVars P s n).2) :=
  (h.newVars s n).symm

theorem newEq (s : σ) (a b : Lit) : pm π (Cons.newEq P s a b) = Cons.newEq Q (π s) a b := by
  simp only [Cons.newEq, ← h.value, ← h.lookup, h.newVar', h.newClauses']
  split <;> try rfl
  split <;> try rfl
  split <;> simp_all [pm, h.remember]

theorem newConj (s : σ) (ls : List Lit) : pm π (Cons.newConj P s ls) = Cons.newConj Q (π s) ls := by
  simp only [Cons.newConj, ← h.scanJunct, ← h.lookup, h.newVar', h.newClauses']
  split <;> try rfl
  split <;> try rfl
  split <;> simp_all [pm, h.remember]

theorem newConj' (s : σ) (ls) :
    Cons.newConj Q (π s) ls = ((Cons.newConj P s ls).1, π (Cons.newConj P s ls).2) :=
  (h.newConj s ls).symm

theorem newDisj (s : σ) (ls : List Lit) : pm π (Cons.newDisj P s ls) = Cons.newDisj Q (π s) ls := by
  simp only [Cons.newDisj, ← h.scanJunct, ← h.lookup, h.newVar', h.newClauses']
  split <;> try rfl
  split <;> try rfl
  split <;> simp_all [pm, h.remember]

theorem amoCore (fuel : Nat) (s : σ) (ls : List Lit) :
    pm π (Cons.amoCore P fuel s ls) = Cons.amoCore Q fuel (π s) ls := by
  induction fuel generalizing s ls with
  | zero =>
    simp only [Cons.amoCore, ← h.lookup, h.newVar', h.newClauses']
    split; · rfl
    split; · rfl
    split
    · split <;> simp_all [pm, h.remember]
    · rfl
  | succ n ih =>
    have ih' : ∀ s ls, Cons.amoCore Q n (π s) ls = ((Cons.amoCore P n s ls).1, π (Cons.amoCore P n s ls).2) :=
      fun s ls => (ih s ls).symm
    simp only [Cons.amoCore, ← h.lookup, h.newVar', h.newClauses', h.newVars', ih', h.newConj']
    split; · rfl
    split; · rfl
    split
    · split <;> simp_all [pm, h.remember]
    · split <;> simp_all [pm, h.remember]

theorem amoCore' (fuel : Nat) (s : σ) (ls) :
    Cons.amoCore Q fuel (π s) ls = ((Cons.amoCore P fuel s ls).1, π (Cons.amoCore P fuel s ls).2) :=
  (h.amoCore fuel s ls).symm

theorem newAtMostOne (s : σ) (ls : List Lit) :
    pm π (Cons.newAtMostOne P s ls) = Cons.newAtMostOne Q (π s) ls := by
  simp only [Cons.newAtMostOne, ← h.scanCard, h.newConj', h.amoCore']
  split <;> rfl

theorem newExctOne (s : σ) (ls : List Lit) :
    pm π (Cons.newExctOne P s ls) = Cons.newExctOne Q (π s) ls := by
  simp only [Cons.newExctOne, ← h.scanCard, h.newConj', h.amoCore', ← h.lookup, h.newVar',
    h.newClauses']
  split <;> try rfl
  split; · rfl
  split; · rfl
  split <;> simp_all [pm, h.remember]

end PrimSim

end Oratio

namespace Oratio

/-! ### `Cons.* Enc.prim = Enc.*` -/

/-- split every `match`/`if` on both sides, then close each case -/
macro "msplit" : tactic => `(tactic| ((repeat' split) <;> first | rfl | (simp_all; done) | grind))

@[simp] theorem Enc.prim_value : Enc.prim.value = Enc.value := rfl
@[simp] theorem Enc.prim_newVar : Enc.prim.newVar = Enc.newVar := rfl
@[simp] theorem Enc.prim_newVar2 (s : Enc) : Enc.prim.2 s = Enc.newVar s := rfl
@[simp] theorem Enc.prim_newClause : Enc.prim.newClause = Enc.newClause := rfl
@[simp] theorem Enc.prim_lookup : Enc.prim.lookup = Enc.lookup := rfl
@[simp] theorem Enc.prim_remember : Enc.prim.remember = Enc.remember := rfl

theorem Cons_enc_newClauses (s : Enc) (cs) : Cons.newClauses Enc.prim s cs = s.newClauses cs := by
  induction cs generalizing s with
  | nil => rfl
  | cons c cs ih =>
    simp only [Cons.newClauses, Enc.newClauses, Enc.prim_newClause]
    split <;> simp_all

theorem Cons_enc_scanJunct (s : Enc) (ab ls p acc) :
    Cons.scanJunct Enc.prim s ab ls p acc = s.scanJunct ab ls p acc := by
  induction ls generalizing p acc with
  | nil => rfl
  | cons l ls ih => simp only [Cons.scanJunct, Enc.scanJunct, ih]; rfl

theorem Cons_enc_scanAfterTrue (s : Enc) (ls p acc) :
    Cons.scanAfterTrue Enc.prim s ls p acc = s.scanAfterTrue ls p acc := by
  induction ls generalizing p acc with
  | nil => rfl
  | cons l ls ih => simp only [Cons.scanAfterTrue, Enc.scanAfterTrue, ih]; rfl

theorem Cons_enc_scanCard (s : Enc) (ls p acc) :
    Cons.scanCard Enc.prim s ls p acc = s.scanCard ls p acc := by
  induction ls generalizing p acc with
  | nil => rfl
  | cons l ls ih => simp only [Cons.scanCard, Enc.scanCard, ih, Cons_enc_scanAfterTrue]; rfl

theorem Cons_enc_newVars (s : Enc) (n) : Cons.newVars Enc.prim s n = s.newVars n := by
  induction n generalizing s with
  | zero => rfl
  | succ n ih => simp only [Cons.newVars, Enc.newVars, ih, Enc.prim_newVar]

theorem Cons_enc_newEq (s : Enc) (a b) : Cons.newEq Enc.prim s a b = s.newEq a b := by
  simp only [Cons.newEq, Enc.newEq, Cons_enc_newClauses, Enc.prim_value, Enc.prim_newVar2, Enc.prim_lookup,
    Enc.prim_remember]
  msplit

theorem Cons_enc_newConj (s : Enc) (ls) : Cons.newConj Enc.prim s ls = s.newConj ls := by
  simp only [Cons.newConj, Enc.newConj, Cons_enc_newClauses, Cons_enc_scanJunct, Enc.prim_newVar2,
    Enc.prim_lookup, Enc.prim_remember]
  msplit

theorem Cons_enc_newDisj (s : Enc) (ls) : Cons.newDisj Enc.prim s ls = s.newDisj ls := by
  simp only [Cons.newDisj, Enc.newDisj, Cons_enc_newClauses, Cons_enc_scanJunct, Enc.prim_newVar2,
    Enc.prim_lookup, Enc.prim_remember]
  msplit

theorem Cons_enc_amoCore (fuel) (s : Enc) (ls) : Cons.amoCore Enc.prim fuel s ls = Enc.amoCore fuel s ls := by
  induction fuel generalizing s ls with
  | zero =>
    simp only [Cons.amoCore, Enc.amoCore, Cons_enc_newClauses, Enc.prim_newVar2, Enc.prim_lookup,
      Enc.prim_remember]
    msplit
  | succ n ih =>
    simp only [Cons.amoCore, Enc.amoCore, Cons_enc_newClauses, Cons_enc_newVars, ih, Cons_enc_newConj,
      Enc.prim_newVar2, Enc.prim_lookup, Enc.prim_remember]
    msplit

theorem Cons_enc_newAtMostOne (s : Enc) (ls) : Cons.newAtMostOne Enc.prim s ls = s.newAtMostOne ls := by
  simp only [Cons.newAtMostOne, Enc.newAtMostOne, Cons_enc_scanCard, Cons_enc_newConj, Cons_enc_amoCore]
  msplit

theorem Cons_enc_newExctOne (s : Enc) (ls) : Cons.newExctOne Enc.prim s ls = s.newExctOne ls := by
  simp only [Cons.newExctOne, Enc.newExctOne, Cons_enc_scanCard, Cons_enc_newConj, Cons_enc_amoCore,
    Cons_enc_newClauses, Enc.prim_newVar2, Enc.prim_lookup, Enc.prim_remember]
  msplit

theorem exists_of_any {α : Type} {o : Option α} {p : α → Bool} (h : o.any p = true) :
    ∃ r, o = some r ∧ p r = true := by
  cases o with
  | none => simp at h
  | some r => exact ⟨r, rfl, by simpa using h⟩

/-! ### the projection `Sat.toEnc` is a simulation -/

theorem Sat.toEnc_enqueue (s : Sat) (l : Lit) (c) : pm Sat.toEnc (s.enqueue l c) = s.toEnc.enqueue l := by
  unfold Sat.enqueue Enc.enqueue
  show pm Sat.toEnc (match litValue s.vals l with | some b => _ | none => _) =
    (match litValue s.vals l with | some b => _ | none => _)
  split <;> rfl

theorem Sat.toEnc_watch (s : Sat) (l id) : (s.watch l id).toEnc = s.toEnc := rfl

theorem Sat.toEnc_newClause (s : Sat) (c : List Lit) : pm Sat.toEnc (s.newClause c) = s.toEnc.newClause c := by
  unfold Sat.newClause Enc.newClause
  generalize s.toEnc.scanClause (Enc.sortByVar c) none [] = r
  match r with
  | none => rfl
  | some [] => rfl
  | some [l] => exact Sat.toEnc_enqueue _ _ _
  | some (a :: b :: t) => simp [Sat.addClause, pm, Sat.toEnc, Sat.watch]

theorem Sat.primSim : PrimSim Sat.prim Enc.prim Sat.toEnc where
  value _ _ := rfl
  newVar _ := rfl
  newClause := Sat.toEnc_newClause
  lookup _ _ := rfl
  remember _ _ _ := rfl

end Oratio
