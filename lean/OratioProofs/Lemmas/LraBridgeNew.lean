/-
Helper lemmas for `Properties/C09Bridge.lean`, part 8: soundness of the row created by
`Lra.newVarLin`.
-/
import OratioModel
import OratioProofs.Lemmas.LraBridgeWF

namespace Oratio
namespace Lra
open Lin

/-- a valuation may be changed at a variable that has no entry in the expression -/
theorem evalS_update {l : Lin} (hl : l.WF) {x : Nat} (hx : Lin.find l.vars x = none) (σ : Nat → Rat) (q : Rat) :
    Lin.evalS l (Function.update σ x q) = Lin.evalS l σ := by
  apply eval_coeff_spec l hl
  intro v hv
  by_cases h : v = x
  · subst h
    exfalso
    apply hv
    show ((Lin.find l.vars v).getD R.zero).toRat = 0
    rw [hx]
    exact R.toRat_zero
  · exact Function.update_of_ne h _ _

theorem substBasic_holds {t : Lra} (hrows : ∀ e ∈ t.tableau, e.2.WF) {l : Lin} (hl : l.WF) :
    (substBasic t l).WF ∧
    ∀ σ, (∀ e ∈ t.tableau, σ e.1 = Lin.evalS e.2 σ) → Lin.evalS (substBasic t l) σ = Lin.evalS l σ := by
  obtain ⟨s1, s2, -, -⟩ := substBasic_spec (t := t) (fun r l' h => hrows (r, l') (tabFind_some_mem h)) hl
  exact ⟨s1, fun σ hσ => s2 σ (fun r l' h => hσ (r, l') (tabFind_some_mem h))⟩

theorem newVarLin_sound {s : Sat} {t : Lra} (ht : TabWF t) {l : Lin} (hl : l.WF)
    (hlv : ∀ p ∈ l.vars, p.1 < t.vals.length) {slack : Nat} {t1 : Lra}
    (h : newVarLin s t l = some (slack, t1)) :
    (t1.tableau = t.tableau ∧ t1.tWatches = t.tWatches ∧ t1.vals = t.vals) ∨
    (slack = t.vals.length ∧ t1.vals.length = t.vals.length + 1 ∧
      t1.tableau = tabInsert t.tableau slack (substBasic t l) ∧
      (∀ e, e ∈ t1.tableau ↔ e ∈ t.tableau ∨ e = (slack, substBasic t l)) ∧
      (∀ σ, (∀ e ∈ t.tableau, σ e.1 = Lin.evalS e.2 σ) →
        Lin.evalS (substBasic t l) σ = Lin.evalS l σ ∧
        ∀ e ∈ t1.tableau, Function.update σ slack (Lin.evalS l σ) e.1 =
          Lin.evalS e.2 (Function.update σ slack (Lin.evalS l σ))) ∧
      (∀ σ, (∀ e ∈ t1.tableau, σ e.1 = Lin.evalS e.2 σ) →
        (∀ e ∈ t.tableau, σ e.1 = Lin.evalS e.2 σ) ∧ σ slack = Lin.evalS l σ)) := by
  obtain ⟨hi, hlen⟩ := (tabWF_iff t).1 ht
  rcases newVarLin_cases h with h1 | ⟨hs, u, u1, u2, u3, rfl⟩
  · exact Or.inl h1
  right
  subst hs
  obtain ⟨c1, c2, -, c4, c5, c6, c7⟩ := newVarLin_create hi hlen hl hlv u1 u2
  obtain ⟨s1, s2, -, -⟩ := substBasic_spec (t := t) hi.rows hl
  have htab : (u.newRow t.vals.length (substBasic t l)).tableau =
      tabInsert t.tableau t.vals.length (substBasic t l) := by
    rw [newRow_tableau, u1]
  have hmem : ∀ e, e ∈ (u.newRow t.vals.length (substBasic t l)).tableau ↔
      e ∈ t.tableau ∨ e = (t.vals.length, substBasic t l) := by
    intro e
    constructor
    · intro he
      have hr := tabFind_of_mem c1.keys (r := e.1) (l := e.2) he
      rw [← rowOf_eq, c4] at hr
      by_cases hk : e.1 = t.vals.length
      · rw [if_pos hk] at hr
        exact Or.inr (Prod.ext hk (Option.some.inj hr).symm)
      · rw [if_neg hk] at hr
        exact Or.inl (tabFind_some_mem hr)
    · rintro (he | rfl)
      · rw [htab]
        exact mem_tabInsert he
      · apply tabFind_some_mem
        rw [← rowOf_eq, c4, if_pos rfl]
  have hfresh : Lin.find (substBasic t l).vars t.vals.length = none := by
    cases hf : Lin.find (substBasic t l).vars t.vals.length with
    | none => rfl
    | some c =>
      have := c5 _ (by rw [hf]; rfl)
      omega
  refine ⟨rfl, by rw [c2, u3], htab, hmem, ?_, ?_⟩
  · intro σ hσ
    have hσ' : HoldsR t σ := (holdsR_iff hi.keys σ).1 hσ
    refine ⟨s2 σ hσ', ?_⟩
    intro e he
    rcases (hmem e).1 he with he | rfl
    · have hk : e.1 ≠ t.vals.length := by
        intro hk
        have := tabFind_of_mem hi.keys (r := e.1) (l := e.2) he
        rw [← rowOf_eq, hk, c7] at this
        cases this
      have hno : Lin.find e.2.vars t.vals.length = none := by
        cases hf : Lin.find e.2.vars t.vals.length with
        | none => rfl
        | some c =>
          have := c6 e.1 e.2 _ (tabFind_of_mem hi.keys he) (by rw [hf]; rfl)
          omega
      rw [Function.update_of_ne hk, evalS_update (hi.rows e.1 e.2 (tabFind_of_mem hi.keys he)) hno]
      exact hσ e he
    · show Function.update σ t.vals.length (Lin.evalS l σ) t.vals.length = _
      rw [Function.update_self, evalS_update s1 hfresh, s2 σ hσ']
  · intro σ hσ
    have hold : ∀ e ∈ t.tableau, σ e.1 = Lin.evalS e.2 σ := fun e he => hσ e ((hmem e).2 (Or.inl he))
    refine ⟨hold, ?_⟩
    have := hσ (t.vals.length, substBasic t l) ((hmem _).2 (Or.inr rfl))
    rw [this]
    exact s2 σ ((holdsR_iff hi.keys σ).1 hold)

end Lra
end Oratio
